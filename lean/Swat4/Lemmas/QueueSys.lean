import Swat4.Lemmas.StoreConsistent
import Swat4.Model.QueueSys
/-!
# The probe queue under interleaving (helper lemmas and the invariant of C12)

* list / map facts about `zrangeUpTo` / `zrangeUpToS` (membership, no duplicates, length bound, order), `popBatch`, and the
  stable sort `sortByScore` of the returned batch (permutation, sortedness, identity on sorted input, commutes with `map`);
* `GSys`: `QSys` extended with a ghost log of accepted enqueues (`GEnq`) and of popped entries (`GPop`);
  `GSys.step_sys`: the ghost system projects onto `QSys.stepT` (no behaviour is added or removed);
* `GStep`: what one event does to the probe part of the state (seven shapes);
* `GInv` (conservation, at-most-once, id discipline, batch accounting) and `TInv` (timing) with their
  preservation proofs.

-/
namespace Swat4
open Std

/-! ## `List.span`, `zrangeUpTo` -/

theorem span_loop_eq {α : Type} (p : α → Bool) (as acc : List α) :
    List.span.loop p as acc = (acc.reverse ++ as.takeWhile p, as.dropWhile p) := by
  induction as generalizing acc with
  | nil => simp [List.span.loop]
  | cons a as ih =>
    unfold List.span.loop
    cases h : p a with
    | true => simp [ih, h]
    | false => simp [h]

theorem span_eq {α : Type} (p : α → Bool) (as : List α) : as.span p = (as.takeWhile p, as.dropWhile p) := by
  simp [List.span, span_loop_eq]

/-- the insertion step of `zrangeUpTo`'s sort -/
def zins (x : Nat × Int) (acc : List (Nat × Int)) : List (Nat × Int) :=
  let (lo, rest) := acc.span fun y => y.2 < x.2 ∨ (y.2 = x.2 ∧ y.1 < x.1)
  lo ++ x :: rest

def zsort (sel : List (Nat × Int)) : List (Nat × Int) := sel.foldr zins []

def zsel (m : ExtTreeMap Nat Int) (hi : Option Int) : List (Nat × Int) :=
  m.toList.filter fun kv => match hi with | none => true | some h => kv.2 ≤ h

theorem zrangeUpTo_eq (m : ExtTreeMap Nat Int) (hi : Option Int) (limit : Option Nat) :
    zrangeUpTo m hi limit =
      match limit with
      | none => (zsort (zsel m hi)).map (·.1)
      | some n => ((zsort (zsel m hi)).map (·.1)).take n := rfl

theorem zins_eq (x : Nat × Int) (acc : List (Nat × Int)) :
    zins x acc = acc.takeWhile (fun y => y.2 < x.2 ∨ (y.2 = x.2 ∧ y.1 < x.1)) ++ x :: acc.dropWhile (fun y => y.2 < x.2 ∨ (y.2 = x.2 ∧ y.1 < x.1)) := by
  unfold zins
  rw [span_eq]

theorem zins_perm (x : Nat × Int) (acc : List (Nat × Int)) : (zins x acc).Perm (x :: acc) := by
  rw [zins_eq]
  have := @List.perm_middle _ x (acc.takeWhile fun y => y.2 < x.2 ∨ (y.2 = x.2 ∧ y.1 < x.1)) (acc.dropWhile fun y => y.2 < x.2 ∨ (y.2 = x.2 ∧ y.1 < x.1))
  rw [List.takeWhile_append_dropWhile] at this
  exact this

theorem zsort_perm (sel : List (Nat × Int)) : (zsort sel).Perm sel := by
  induction sel with
  | nil => exact List.Perm.refl _
  | cons x xs ih =>
    show (zins x (zsort xs)).Perm (x :: xs)
    exact (zins_perm x _).trans (List.Perm.cons x ih)

theorem mem_zsel {m : ExtTreeMap Nat Int} {hi : Option Int} {kv : Nat × Int} :
    kv ∈ zsel m hi ↔ m[kv.1]? = some kv.2 ∧ (∀ h, hi = some h → kv.2 ≤ h) := by
  unfold zsel
  obtain ⟨k, r⟩ := kv
  rw [List.mem_filter, ExtTreeMap.mem_toList_iff_getElem?_eq_some]
  cases hi <;> simp

theorem zsel_keys_nodup (m : ExtTreeMap Nat Int) (hi : Option Int) : ((zsel m hi).map (·.1)).Nodup := by
  unfold zsel
  have h := (@ExtTreeMap.distinct_keys_toList _ _ _ m _).filter (fun kv => match hi with | none => true | some h => kv.2 ≤ h)
  rw [List.Nodup, List.pairwise_map]
  exact h.imp (by intro a b hab; simpa using hab)

/-- the unbounded result: ids of the selected entries in `(score, id)` order -/
def zall (m : ExtTreeMap Nat Int) (hi : Option Int) : List Nat := (zsort (zsel m hi)).map (·.1)

theorem zall_nodup (m : ExtTreeMap Nat Int) (hi : Option Int) : (zall m hi).Nodup :=
  (((zsort_perm (zsel m hi)).map (fun kv : Nat × Int => kv.1)).nodup_iff).2 (zsel_keys_nodup m hi)

theorem mem_zall {m : ExtTreeMap Nat Int} {hi : Option Int} {id : Nat} :
    id ∈ zall m hi ↔ ∃ r, m[id]? = some r ∧ (∀ h, hi = some h → r ≤ h) := by
  unfold zall
  rw [((zsort_perm (zsel m hi)).map (fun kv : Nat × Int => kv.1)).mem_iff, List.mem_map]
  constructor
  · rintro ⟨⟨k, r⟩, hkv, rfl⟩; exact ⟨r, mem_zsel.1 hkv⟩
  · rintro ⟨r, h⟩; exact ⟨(id, r), mem_zsel.2 h, rfl⟩

theorem zrangeUpTo_sublist (m : ExtTreeMap Nat Int) (hi : Option Int) (limit : Option Nat) :
    (zrangeUpTo m hi limit).Sublist (zall m hi) := by
  rw [zrangeUpTo_eq]
  cases limit with
  | none => exact List.Sublist.refl _
  | some n => exact List.take_sublist _ _

theorem zrangeUpTo_nodup (m : ExtTreeMap Nat Int) (hi : Option Int) (limit : Option Nat) :
    (zrangeUpTo m hi limit).Nodup := (zall_nodup m hi).sublist (zrangeUpTo_sublist m hi limit)

theorem mem_zrangeUpTo {m : ExtTreeMap Nat Int} {hi : Option Int} {limit : Option Nat} {id : Nat}
    (h : id ∈ zrangeUpTo m hi limit) : ∃ r, m[id]? = some r ∧ (∀ b, hi = some b → r ≤ b) :=
  mem_zall.1 ((zrangeUpTo_sublist m hi limit).subset h)

theorem zrangeUpTo_length_le (m : ExtTreeMap Nat Int) (hi : Option Int) (n : Nat) :
    (zrangeUpTo m hi (some n)).length ≤ n := by
  rw [zrangeUpTo_eq]; simp only [List.length_take]; omega

/-! ## `zrangeUpToS` (`WITHSCORES`) -/

theorem zrangeUpToS_eq (m : ExtTreeMap Nat Int) (hi : Option Int) (limit : Option Nat) :
    zrangeUpToS m hi limit =
      match limit with
      | none => zsort (zsel m hi)
      | some n => (zsort (zsel m hi)).take n := rfl

/-- the members of the `WITHSCORES` reply are the reply without scores -/
theorem zrangeUpToS_ids (m : ExtTreeMap Nat Int) (hi : Option Int) (limit : Option Nat) :
    (zrangeUpToS m hi limit).map (·.1) = zrangeUpTo m hi limit := by
  rw [zrangeUpToS_eq, zrangeUpTo_eq]
  cases limit with
  | none => rfl
  | some n => exact List.map_take

theorem zrangeUpToS_isEmpty (m : ExtTreeMap Nat Int) (hi : Option Int) (limit : Option Nat) :
    (zrangeUpToS m hi limit).isEmpty = (zrangeUpTo m hi limit).isEmpty := by
  rw [← zrangeUpToS_ids, List.isEmpty_map]

/-- every pair of the `WITHSCORES` reply is an entry of the sorted set -/
theorem mem_zrangeUpToS {m : ExtTreeMap Nat Int} {hi : Option Int} {limit : Option Nat} {p : Nat × Int}
    (h : p ∈ zrangeUpToS m hi limit) : m[p.1]? = some p.2 := by
  have hsub : (zrangeUpToS m hi limit).Sublist (zsort (zsel m hi)) := by
    rw [zrangeUpToS_eq]
    cases limit with
    | none => exact List.Sublist.refl _
    | some n => exact List.take_sublist _ _
  exact (mem_zsel.1 ((zsort_perm _).mem_iff.1 (hsub.subset h))).1

theorem zip_fst_snd {α β : Type} (l : List (α × β)) : (l.map (·.1)).zip (l.map (·.2)) = l := by
  induction l with
  | nil => rfl
  | cons x xs ih => simp only [List.map_cons, List.zip_cons_cons, ih]

/-! ## `sortByScore`: the stable sort of the returned batch -/

theorem insertByScore_perm {α : Type} (key : α → Int) (x : α) (l : List α) : (insertByScore key x l).Perm (x :: l) := by
  induction l with
  | nil => exact List.Perm.refl _
  | cons y ys ih =>
    unfold insertByScore
    split
    · exact List.Perm.refl _
    · exact (List.Perm.cons y ih).trans (List.Perm.swap x y ys)

theorem sortByScore_cons {α : Type} (key : α → Int) (x : α) (l : List α) :
    sortByScore key (x :: l) = insertByScore key x (sortByScore key l) := rfl

/-- the sort only rearranges -/
theorem sortByScore_perm {α : Type} (key : α → Int) (l : List α) : (sortByScore key l).Perm l := by
  induction l with
  | nil => exact List.Perm.refl _
  | cons x xs ih =>
    rw [sortByScore_cons]
    exact (insertByScore_perm key x _).trans (List.Perm.cons x ih)

theorem sortByScore_length {α : Type} (key : α → Int) (l : List α) : (sortByScore key l).length = l.length :=
  (sortByScore_perm key l).length_eq

theorem insertByScore_sorted {α : Type} (key : α → Int) (x : α) (l : List α)
    (h : l.Pairwise fun a b => key a ≤ key b) : (insertByScore key x l).Pairwise fun a b => key a ≤ key b := by
  induction l with
  | nil => exact List.pairwise_singleton _ _
  | cons y ys ih =>
    rw [List.pairwise_cons] at h
    unfold insertByScore
    split
    · rename_i hxy
      rw [List.pairwise_cons]
      refine ⟨?_, List.pairwise_cons.2 h⟩
      intro z hz
      rcases List.mem_cons.1 hz with rfl | hz'
      · exact hxy
      · exact Int.le_trans hxy (h.1 z hz')
    · rename_i hxy
      rw [List.pairwise_cons]
      refine ⟨?_, ih h.2⟩
      intro z hz
      rcases List.mem_cons.1 ((insertByScore_perm key x ys).mem_iff.1 hz) with rfl | hz'
      · omega
      · exact h.1 z hz'

/-- the result is in non-decreasing key order -/
theorem sortByScore_sorted {α : Type} (key : α → Int) (l : List α) :
    (sortByScore key l).Pairwise fun a b => key a ≤ key b := by
  induction l with
  | nil => exact List.Pairwise.nil
  | cons x xs ih => rw [sortByScore_cons]; exact insertByScore_sorted key x _ ih

theorem insertByScore_of_le {α : Type} (key : α → Int) (x : α) (l : List α) (h : ∀ y ∈ l, key x ≤ key y) :
    insertByScore key x l = x :: l := by
  cases l with
  | nil => rfl
  | cons y ys =>
    unfold insertByScore
    rw [if_pos (h y List.mem_cons_self)]

/-- **a list that is already in key order is left as it is** (so in a run without interleaving, where the rounds'
items come out in order, the final sort of `PopMany` is the identity) -/
theorem sortByScore_of_sorted {α : Type} (key : α → Int) (l : List α) (h : l.Pairwise fun a b => key a ≤ key b) :
    sortByScore key l = l := by
  induction l with
  | nil => rfl
  | cons x xs ih =>
    rw [List.pairwise_cons] at h
    rw [sortByScore_cons, ih h.2]
    exact insertByScore_of_le key x xs h.1

theorem insertByScore_map {α β : Type} (f : α → β) (key : β → Int) (x : α) (l : List α) :
    (insertByScore (fun a => key (f a)) x l).map f = insertByScore key (f x) (l.map f) := by
  induction l with
  | nil => rfl
  | cons y ys ih =>
    simp only [insertByScore, List.map_cons]
    split
    · rfl
    · rw [List.map_cons, ih]

/-- sorting commutes with a map that preserves the key -/
theorem sortByScore_map {α β : Type} (f : α → β) (key : β → Int) (l : List α) :
    (sortByScore (fun a => key (f a)) l).map f = sortByScore key (l.map f) := by
  induction l with
  | nil => rfl
  | cons x xs ih =>
    rw [sortByScore_cons, List.map_cons, sortByScore_cons, insertByScore_map, ih]

/-- the sort is stable: the two entries with score 50 keep their order, the entry with score 10 moves to the front -/
example : sortByScore (·.2) [("a", (50 : Int)), ("b", 10), ("c", 50), ("d", 70), ("e", 10)] =
    [("b", 10), ("e", 10), ("a", 50), ("c", 50), ("d", 70)] := by decide

theorem finishBatch_length (got : List (Probe × Int)) : (finishBatch got).length = got.length := by
  unfold finishBatch
  rw [List.length_map, sortByScore_length]

/-- the returned batch is a rearrangement of the fetched payloads -/
theorem finishBatch_perm (got : List (Probe × Int)) : (finishBatch got).Perm (got.map (·.1)) :=
  (sortByScore_perm _ got).map _

/-- fetched in score order ⇒ returned in fetch order -/
theorem finishBatch_of_sorted (got : List (Probe × Int)) (h : got.Pairwise fun a b => a.2 ≤ b.2) :
    finishBatch got = got.map (·.1) := by
  unfold finishBatch
  rw [sortByScore_of_sorted _ got h]

/-! ## `popBatch` -/
namespace RStore

theorem popFold_pItems (ids : List Nat) (st : RStore) (k : Nat) :
    (ids.foldl (fun s id => { s with pItems := s.pItems.erase id, pQueue := s.pQueue.erase id }) st).pItems[k]? =
      if k ∈ ids then none else st.pItems[k]? := by
  induction ids generalizing st with
  | nil => simp
  | cons id ids ih =>
    rw [List.foldl_cons, ih]
    by_cases h1 : k ∈ ids
    · simp [h1]
    · by_cases h2 : id = k
      · subst h2; simp
      · have h3 : ¬ k = id := fun e => h2 e.symm
        simp [h1, h2, h3, ExtTreeMap.getElem?_erase]

theorem popFold_pQueue (ids : List Nat) (st : RStore) (k : Nat) :
    (ids.foldl (fun s id => { s with pItems := s.pItems.erase id, pQueue := s.pQueue.erase id }) st).pQueue[k]? =
      if k ∈ ids then none else st.pQueue[k]? := by
  induction ids generalizing st with
  | nil => simp
  | cons id ids ih =>
    rw [List.foldl_cons, ih]
    by_cases h1 : k ∈ ids
    · simp [h1]
    · by_cases h2 : id = k
      · subst h2; simp
      · have h3 : ¬ k = id := fun e => h2 e.symm
        simp [h1, h2, h3, ExtTreeMap.getElem?_erase]

theorem popBatch_pItems (st : RStore) (ids : List Nat) (k : Nat) :
    (st.popBatch ids).1.pItems[k]? = if k ∈ ids then none else st.pItems[k]? := popFold_pItems ids st k

theorem popBatch_pQueue (st : RStore) (ids : List Nat) (k : Nat) :
    (st.popBatch ids).1.pQueue[k]? = if k ∈ ids then none else st.pQueue[k]? := popFold_pQueue ids st k

theorem insClearBatch_pItems (st : RStore) (ids : List Nat) : (st.insClearBatch ids).pItems = st.pItems := by
  unfold insClearBatch
  induction ids generalizing st with
  | nil => rfl
  | cons id ids ih => rw [List.foldl_cons, ih]; rfl

theorem insClearBatch_pQueue (st : RStore) (ids : List Nat) : (st.insClearBatch ids).pQueue = st.pQueue := by
  unfold insClearBatch
  induction ids generalizing st with
  | nil => rfl
  | cons id ids ih => rw [List.foldl_cons, ih]; rfl

theorem popBatch_vals (st : RStore) (ids : List Nat) : (st.popBatch ids).2 = ids.map fun id => st.pItems[id]? := rfl

theorem mem_iff_getElem?_some {β : Type} {m : ExtTreeMap Nat β} {k : Nat} : k ∈ m ↔ ∃ v, m[k]? = some v := by
  rw [ExtTreeMap.mem_iff_isSome_getElem?]
  cases m[k]? <;> simp

end RStore

/-! ## the ghost-augmented system -/

/-- ghost record of one accepted `enqueue` command -/
structure GEnq where
  id : Nat
  client : Nat
  probe : Probe
  expires : GoTime
  ready : Int
  clk : Int        -- system clock when the batch executed

/-- ghost record of one entry taken out of the store by a `PopMany` batch (`ZREM+HMGET+HDEL`) -/
structure GPop where
  id : Nat
  client : Nat
  probe : Probe
  expires : GoTime
  ready : Option Int   -- the entry's score in `probes:queue` when the batch executed
  clk : Int            -- system clock when the batch executed (the value the expiry test uses)
  returned : Bool      -- appended to the returned batch (`true`) or counted as expired (`false`)

/-- the ready time of an enqueue: explicit, or the clock the producer read -/
def readyOf (after : GoTime) (clock : Int) : Int :=
  match after with | some a => a | none => clock

/-- `isItemExpired` -/
def expiredAt (e : GoTime) (clock : Int) : Bool :=
  match e with | none => false | some e => Decidable.decide (e < clock)

/-- the client that would execute a command now: absent and dead clients do not move; a client that has not started starts -/
def QSys.cur (s : QSys) (i : Nat) : Option QClient :=
  match s.clients[i]? with
  | some c0 => if c0.dead then none else some (c0.start s.clock)
  | none => none

def QSys.enqDelta (s : QSys) (i : Nat) : List GEnq :=
  match s.cur i with
  | some c =>
    match c.pc, c.op with
    | .start, .enqueue p after before => [⟨s.fresh, i, p, before, (readyOf after c.arrival), s.clock⟩]
    | _, _ => []
  | none => []

def QSys.popRecs (s : QSys) (i : Nat) (ids : List Nat) : List GPop :=
  ids.filterMap fun id => (s.store.pItems[id]?).map fun pe =>
    ⟨id, i, pe.1, pe.2, s.store.pQueue[id]?, s.clock, !expiredAt pe.2 s.clock⟩

def QSys.popDelta (s : QSys) (i : Nat) : List GPop :=
  match s.cur i with
  | some c =>
    match c.pc with
    | .popExec _ _ ids _ => s.popRecs i ids
    | _ => []
  | none => []

/-- `QSys` with a ghost log of the accepted enqueues and of the entries popped, in execution order -/
structure GSys where
  sys : QSys
  enqs : List GEnq := []
  pops : List GPop := []

def GSys.stepClient (g : GSys) (i : Nat) (crashAfter : Bool) : GSys × Option String :=
  ({ sys := (g.sys.stepClient i crashAfter).1, enqs := g.enqs ++ g.sys.enqDelta i, pops := g.pops ++ g.sys.popDelta i },
   (g.sys.stepClient i crashAfter).2)

def GSys.runClient (g : GSys) (i : Nat) : Nat → GSys
  | 0 => g
  | fuel + 1 =>
    match g.stepClient i false with
    | (g', some _) => GSys.runClient g' i fuel
    | (g', none) => g'

def GSys.step (g : GSys) : QSysEv → GSys
  | .tick d => { g with sys := { g.sys with clock := g.sys.clock + d } }
  | .step i => (g.stepClient i false).1
  | .run i => g.runClient i 200
  | .crashBefore i =>
    match g.sys.clients[i]? with
    | some c =>
      if (c.start g.sys.clock).live then
        { g with sys := { g.sys with clients := g.sys.clients.set i { (c.start g.sys.clock) with dead := true } } }
      else g
    | none => g
  | .crashAfter i =>
    match g.sys.clients[i]? with
    | some c => if (c.start g.sys.clock).pc.live && !c.dead then (g.stepClient i true).1 else g
    | none => g

def GSys.run (g : GSys) (es : List QSysEv) : GSys := es.foldl GSys.step g

def QSys.run (s : QSys) (es : List QSysEv) : QSys := (es.foldl (fun (acc : QSys × List String) e => acc.1.stepT acc.2 e) (s, [])).1

def GSys.init (s : QSys) : GSys := { sys := s }

/-! ### the ghost system projects onto `QSys` -/

theorem GSys.runClient_sys (g : GSys) (i : Nat) (tr : List String) (fuel : Nat) :
    (g.runClient i fuel).sys = (g.sys.runClient i tr fuel).1 := by
  induction fuel generalizing g tr with
  | zero => rfl
  | succ n ih =>
    unfold GSys.runClient QSys.runClient
    have hg : g.stepClient i false = ((g.stepClient i false).1, (g.sys.stepClient i false).2) := rfl
    have hs : g.sys.stepClient i false = ((g.sys.stepClient i false).1, (g.sys.stepClient i false).2) := rfl
    rw [hg, hs]
    cases (g.sys.stepClient i false).2 with
    | none => rfl
    | some l => exact ih _ _

/-- erasing the ghost log of one ghost-system event gives exactly the model's event (whatever the trace so far) -/
theorem GSys.step_sys (g : GSys) (tr : List String) (e : QSysEv) : (g.step e).sys = (g.sys.stepT tr e).1 := by
  cases e with
  | tick d => rfl
  | step i =>
    show (g.sys.stepClient i false).1 = _
    simp only [QSys.stepT]
    generalize g.sys.stepClient i false = r
    obtain ⟨s', l⟩ := r
    cases l <;> rfl
  | run i => exact g.runClient_sys i tr 200
  | crashBefore i =>
    simp only [GSys.step, QSys.stepT]
    cases hc : g.sys.clients[i]? with
    | none => rfl
    | some c =>
      simp only
      by_cases hl : (c.start g.sys.clock).live = true
      · simp only [hl, if_true]
      · simp only [hl]; rfl
  | crashAfter i =>
    simp only [GSys.step, QSys.stepT]
    cases hc : g.sys.clients[i]? with
    | none => rfl
    | some c =>
      simp only
      by_cases hl : ((c.start g.sys.clock).pc.live && !c.dead) = true
      · simp only [hl, if_true]
        show (g.sys.stepClient i true).1 = _
        generalize g.sys.stepClient i true = r
        obtain ⟨s', l⟩ := r
        cases l <;> rfl
      · simp only [hl]; rfl

/-- the model's run of an event list, without the trace -/
theorem GSys.run_sys (g : GSys) (es : List QSysEv) (tr : List String) :
    (g.run es).sys = (es.foldl (fun (acc : QSys × List String) e => acc.1.stepT acc.2 e) (g.sys, tr)).1 := by
  induction es generalizing g tr with
  | nil => rfl
  | cons e es ih =>
    simp only [GSys.run, List.foldl_cons]
    have := ih (g.step e) (g.sys.stepT tr e).2
    rw [GSys.step_sys g tr e] at this
    exact this

/-! ## one command, by shape -/

/-- the clock value a command works with: the arrival clock, except for the expiry test after a pop batch -/
def QClient.cmdClock (c : QClient) (clock : Int) : Int :=
  match c.pc with
  | .popExec .. => clock
  | _ => c.arrival

def QClient.before (c : QClient) : List Nat :=
  match c.pc with | .popExec _ _ ids _ => ids | _ => []

theorem QSys.stepClient_none {s : QSys} {i : Nat} (b : Bool) (h : s.cur i = none) : s.stepClient i b = (s, none) := by
  unfold QSys.cur at h
  unfold QSys.stepClient
  cases hc : s.clients[i]? with
  | none => rfl
  | some c0 =>
    rw [hc] at h
    simp only at h ⊢
    by_cases hd : c0.dead = true
    · simp [hd]
    · simp [hd] at h

theorem QSys.cur_some {s : QSys} {i : Nat} {c : QClient} (h : s.cur i = some c) :
    ∃ c0, s.clients[i]? = some c0 ∧ c0.dead = false ∧ c = c0.start s.clock := by
  unfold QSys.cur at h
  cases hc : s.clients[i]? with
  | none => rw [hc] at h; cases h
  | some c0 =>
    rw [hc] at h
    simp only at h
    by_cases hd : c0.dead = true
    · simp [hd] at h
    · simp only [hd] at h
      cases h
      exact ⟨c0, rfl, by simpa using hd, rfl⟩

theorem QSys.stepClient_stall {s : QSys} {i : Nat} {c : QClient} (b : Bool) (h : s.cur i = some c) (hl : c.pc.live = false) :
    s.stepClient i b = ({ s with clients := s.clients.set i c }, none) := by
  obtain ⟨c0, hc, hd, rfl⟩ := QSys.cur_some h
  unfold QSys.stepClient
  simp [hc, hd, hl]

theorem QSys.stepClient_live {s : QSys} {i : Nat} {c : QClient} (b : Bool) (h : s.cur i = some c) (hl : c.pc.live = true) :
    (s.stepClient i b).1 =
      { s with
        store := (qstep s.store (c.cmdClock s.clock) s.fresh c.op c.pc).1
        clients := s.clients.set i { c with pc := (qstep s.store (c.cmdClock s.clock) s.fresh c.op c.pc).2.1, arrival := s.clock, popped := c.popped ++ c.before.filterMap (fun id => s.store.pItems[id]?), dead := b }
        fresh := if (qstep s.store (c.cmdClock s.clock) s.fresh c.op c.pc).2.2.1 then s.fresh + 1 else s.fresh } := by
  obtain ⟨c0, hc, hd, rfl⟩ := QSys.cur_some h
  unfold QSys.stepClient
  simp only [hc, hd, hl]
  rfl

/-- which pcs a call can be at -/
def okFor (op : QOp) (pc : QPC) : Prop :=
  match op, pc with
  | .popMany _, .start => False
  | .popMany _, .clearExec _ => False
  | .popMany _, .done .unit => False
  | .popMany _, .done (.count _) => False
  | .popMany _, _ => True
  | _, .popRange .. => False
  | _, .popExec .. => False
  | _, _ => True

theorem okFor_begin (op : QOp) : okFor op op.begin := by
  cases op with
  | enqueue p a b =>
    cases a <;> cases b <;> simp only [QOp.begin] <;> (try split) <;> simp [okFor]
  | popMany n => simp only [QOp.begin]; split <;> simp [okFor]
  | _ => simp [QOp.begin, okFor]

/-- the pc after a pop batch that returned `items` (nils skipped) at clock `clock` -/
def popNext (n : Int) (got : List (Probe × Int)) (expired : Nat) (items : List ((Probe × GoTime) × Int)) (clock : Int) : QPC :=
  if items.isEmpty then .done (.probes (finishBatch got) expired)
  else
    let kept := items.filter fun it => !expiredAt it.1.2 clock
    if (got ++ kept.map fun it => (it.1.1, it.2)).length < n.toNat then
      .popRange (got ++ kept.map fun it => (it.1.1, it.2)) (expired + (items.length - kept.length))
    else .done (.probes (finishBatch (got ++ kept.map fun it => (it.1.1, it.2))) (expired + (items.length - kept.length)))

/-- the items a pop batch yields for the `WITHSCORES` reply `ids` / `scs`: the payloads `HMGET` still finds (nils
skipped), each with the score at the same position of the reply -/
def popItemsS (st : RStore) (ids : List Nat) (scs : List Int) : List ((Probe × GoTime) × Int) :=
  (ids.zip scs).filterMap fun p => (st.pItems[p.1]?).map fun pe => (pe, p.2)

theorem popItemsS_cons (st : RStore) (id : Nat) (ids : List Nat) (sc : Int) (scs : List Int) :
    popItemsS st (id :: ids) (sc :: scs) =
      (match st.pItems[id]? with | some pe => [(pe, sc)] | none => []) ++ popItemsS st ids scs := by
  unfold popItemsS
  rw [List.zip_cons_cons, List.filterMap_cons]
  cases st.pItems[id]? <;> rfl

/-- without the scores these are the payloads of the batch -/
theorem popItemsS_fst (st : RStore) (ids : List Nat) (scs : List Int) (hlen : scs.length = ids.length) :
    (popItemsS st ids scs).map (·.1) = ids.filterMap fun id => st.pItems[id]? := by
  induction ids generalizing scs with
  | nil => cases scs <;> rfl
  | cons id ids ih =>
    cases scs with
    | nil => cases hlen
    | cons sc scs =>
      rw [popItemsS_cons, List.map_append, ih scs (by simpa using hlen), List.filterMap_cons]
      cases st.pItems[id]? <;> rfl

theorem popItemsS_counts (st : RStore) (ids : List Nat) (scs : List Int) (clock : Int) (hlen : scs.length = ids.length) :
    (popItemsS st ids scs).length = (ids.filterMap fun id => st.pItems[id]?).length ∧
    ((popItemsS st ids scs).filter fun it => !expiredAt it.1.2 clock).length =
      ((ids.filterMap fun id => st.pItems[id]?).filter fun pe => !expiredAt pe.2 clock).length := by
  rw [← popItemsS_fst st ids scs hlen, List.length_map, List.filter_map, List.length_map]
  exact ⟨rfl, rfl⟩

theorem qstep_popExec (st : RStore) (clock : Int) (fresh : Nat) (n : Int) (got : List (Probe × Int)) (e : Nat) (ids : List Nat)
    (scs : List Int) :
    (qstep st clock fresh (.popMany n) (.popExec got e ids scs)).1 = (st.popBatch ids).1 ∧
    (qstep st clock fresh (.popMany n) (.popExec got e ids scs)).2.1 = popNext n got e (popItemsS st ids scs) clock ∧
    (qstep st clock fresh (.popMany n) (.popExec got e ids scs)).2.2.1 = false := by
  have hv : ((st.popBatch ids).2.zip scs).filterMap (fun vs => vs.1.map fun pe => (pe, vs.2)) = popItemsS st ids scs := by
    rw [RStore.popBatch_vals, List.zip_map_left, List.filterMap_map]; rfl
  simp only [qstep, hv]
  generalize popItemsS st ids scs = items
  unfold popNext
  by_cases h1 : items.isEmpty = true
  · simp only [h1, if_true, and_self]
  · simp only [h1, Bool.false_eq_true, if_false]
    split
    · rename_i h2; exact ⟨rfl, (if_pos h2).symm, rfl⟩
    · rename_i h2; exact ⟨rfl, (if_neg h2).symm, rfl⟩

theorem qstep_popRange (st : RStore) (clock : Int) (fresh : Nat) (n : Int) (got : List (Probe × Int)) (e : Nat) :
    (qstep st clock fresh (.popMany n) (.popRange got e)).1 = st ∧
    (qstep st clock fresh (.popMany n) (.popRange got e)).2.1 =
      (if (zrangeUpTo st.pQueue (some clock) (some (n - got.length).toNat)).isEmpty then .done (.probes (finishBatch got) e)
       else .popExec got e (zrangeUpTo st.pQueue (some clock) (some (n - got.length).toNat))
              ((zrangeUpToS st.pQueue (some clock) (some (n - got.length).toNat)).map (·.2))) ∧
    (qstep st clock fresh (.popMany n) (.popRange got e)).2.2.1 = false := by
  simp only [qstep, zrangeUpToS_isEmpty, zrangeUpToS_ids]
  split <;> exact ⟨rfl, rfl, rfl⟩

/-- what one non-tick event does to a ghost state: six shapes -/
inductive GStep (g : GSys) : GSys → Prop where
  | same : GStep g g
  /-- a client is started and/or marked dead without executing a command -/
  | setc (i : Nat) (c c' : QClient) (h : g.sys.cur i = some c) (hop : c'.op = c.op) (hpc : c'.pc = c.pc)
      (hst : c'.started = true) (harr : c'.arrival = c.arrival) (hpop : c'.popped = c.popped) :
      GStep g { g with sys := { g.sys with clients := g.sys.clients.set i c' } }
  /-- a command of an instance-table call -/
  | other (i : Nat) (c c' : QClient) (st' : RStore) (h : g.sys.cur i = some c) (hnp : ∀ n, c.op ≠ .popMany n)
      (hI : st'.pItems = g.sys.store.pItems) (hQ : st'.pQueue = g.sys.store.pQueue)
      (hcons : RStore.Consistent g.sys.store → RStore.Consistent st')
      (hop : c'.op = c.op) (hpc1 : ∀ x y, c'.pc ≠ .popRange x y) (hpc2 : ∀ x y z w, c'.pc ≠ .popExec x y z w)
      (hst : c'.started = true) (harr : c'.arrival = g.sys.clock) (hpop : c'.popped = c.popped) :
      GStep g { g with sys := { g.sys with store := st', clients := g.sys.clients.set i c' } }
  /-- the `HSET+ZADD` batch of an accepted enqueue -/
  | enq (i : Nat) (c c' : QClient) (p : Probe) (after before : GoTime) (h : g.sys.cur i = some c)
      (hcop : c.op = .enqueue p after before) (hcpc : c.pc = .start)
      (hop : c'.op = c.op) (hpc : c'.pc = .done .unit)
      (hst : c'.started = true) (harr : c'.arrival = g.sys.clock) (hpop : c'.popped = c.popped) :
      GStep g
        { sys := { g.sys with
                   store := g.sys.store.enqueueBatch g.sys.fresh p before (readyOf after c.arrival)
                   clients := g.sys.clients.set i c'
                   fresh := g.sys.fresh + 1 }
          enqs := g.enqs ++ [⟨g.sys.fresh, i, p, before, (readyOf after c.arrival), g.sys.clock⟩]
          pops := g.pops }
  /-- the `ZRANGEBYSCORE` of a `PopMany` round -/
  | range (i : Nat) (c c' : QClient) (n : Int) (got : List (Probe × Int)) (e : Nat) (h : g.sys.cur i = some c)
      (hcop : c.op = .popMany n) (hcpc : c.pc = .popRange got e)
      (hop : c'.op = c.op)
      (hpc : c'.pc = (if (zrangeUpTo g.sys.store.pQueue (some c.arrival) (some (n - got.length).toNat)).isEmpty then
                        .done (.probes (finishBatch got) e)
                      else .popExec got e (zrangeUpTo g.sys.store.pQueue (some c.arrival) (some (n - got.length).toNat))
                             ((zrangeUpToS g.sys.store.pQueue (some c.arrival) (some (n - got.length).toNat)).map (·.2))))
      (hst : c'.started = true) (harr : c'.arrival = g.sys.clock) (hpop : c'.popped = c.popped) :
      GStep g { g with sys := { g.sys with clients := g.sys.clients.set i c' } }
  /-- the `ZREM+HMGET+HDEL` batch of a `PopMany` round -/
  | exec (i : Nat) (c c' : QClient) (n : Int) (got : List (Probe × Int)) (e : Nat) (ids : List Nat) (scs : List Int)
      (h : g.sys.cur i = some c)
      (hcop : c.op = .popMany n) (hcpc : c.pc = .popExec got e ids scs)
      (hop : c'.op = c.op)
      (hpc : c'.pc = popNext n got e (popItemsS g.sys.store ids scs) g.sys.clock)
      (hst : c'.started = true) (harr : c'.arrival = g.sys.clock)
      (hpop : c'.popped = c.popped ++ ids.filterMap fun id => g.sys.store.pItems[id]?) :
      GStep g
        { sys := { g.sys with store := (g.sys.store.popBatch ids).1, clients := g.sys.clients.set i c' }
          enqs := g.enqs
          pops := g.pops ++ g.sys.popRecs i ids }

theorem QClient.start_started (c : QClient) (clock : Int) : (c.start clock).started = true := by
  unfold QClient.start
  by_cases h : c.started = true
  · simp [h]
  · simp [h]

theorem QSys.cur_started {s : QSys} {i : Nat} {c : QClient} (h : s.cur i = some c) : c.started = true := by
  obtain ⟨c0, _, _, rfl⟩ := QSys.cur_some h
  exact c0.start_started _

theorem QSys.cur_dead {s : QSys} {i : Nat} {c : QClient} (h : s.cur i = some c) : c.dead = false := by
  obtain ⟨c0, _, hd, rfl⟩ := QSys.cur_some h
  unfold QClient.start
  split <;> exact hd

/-- every `step`/`crashAfter` command is one of the shapes -/
theorem gstep_stepClient (g : GSys) (i : Nat) (b : Bool)
    (hok : ∀ c, g.sys.cur i = some c → okFor c.op c.pc) : GStep g (g.stepClient i b).1 := by
  cases hcur : g.sys.cur i with
  | none =>
    have : (g.stepClient i b).1 = g := by
      simp only [GSys.stepClient, QSys.stepClient_none b hcur, QSys.enqDelta, QSys.popDelta, hcur, List.append_nil]
    rw [this]; exact .same
  | some c =>
    have hst := QSys.cur_started hcur
    have hok := hok c hcur
    by_cases hl : c.pc.live = true
    · have h1 := QSys.stepClient_live b hcur hl
      obtain ⟨op, pc, started, dead, arrival, popped⟩ := c
      simp only at hst hok hl h1
      subst hst
      cases pc with
      | done r => cases hl
      | start =>
        cases op with
        | popMany n => exact absurd hok (by simp [okFor])
        | enqueue p after before =>
          have : (g.stepClient i b).1 =
            { sys := { g.sys with
                   store := g.sys.store.enqueueBatch g.sys.fresh p before (readyOf after arrival)
                   clients := g.sys.clients.set i { op := .enqueue p after before, pc := .done .unit, started := true, dead := b, arrival := g.sys.clock, popped := popped }
                   fresh := g.sys.fresh + 1 }
              enqs := g.enqs ++ [⟨g.sys.fresh, i, p, before, (readyOf after arrival), g.sys.clock⟩]
              pops := g.pops } := by
            simp only [GSys.stepClient, h1, QSys.enqDelta, QSys.popDelta, hcur, List.append_nil, qstep, QClient.cmdClock,
              QClient.before, List.filterMap_nil, if_true]
            cases after <;> rfl
          rw [this]
          exact .enq i _ _ p after before hcur rfl rfl rfl rfl rfl rfl rfl
        | insAdd id a =>
          have : (g.stepClient i b).1 =
            { g with sys := { g.sys with store := g.sys.store.insAddBatch id a arrival, clients := g.sys.clients.set i { op := .insAdd id a, pc := .done .unit, started := true, dead := b, arrival := g.sys.clock, popped := popped } } } := by
            simp only [GSys.stepClient, h1, QSys.enqDelta, QSys.popDelta, hcur, List.append_nil, qstep, QClient.cmdClock,
              QClient.before, List.filterMap_nil]
            rfl
          rw [this]
          exact .other i _ _ _ hcur (by intro n h; cases h) rfl rfl (fun h => RStore.insAddBatch_consistent h _ _ _) rfl
            (by intro x y h; cases h) (by intro x y z w h; cases h) rfl rfl rfl
        | insRemove id =>
          have : (g.stepClient i b).1 =
            { g with sys := { g.sys with store := g.sys.store.insRemoveBatch id, clients := g.sys.clients.set i { op := .insRemove id, pc := .done .unit, started := true, dead := b, arrival := g.sys.clock, popped := popped } } } := by
            simp only [GSys.stepClient, h1, QSys.enqDelta, QSys.popDelta, hcur, List.append_nil, qstep,
              QClient.before, List.filterMap_nil]
            rfl
          rw [this]
          exact .other i _ _ _ hcur (by intro n h; cases h) rfl rfl (fun h => RStore.insRemoveBatch_consistent h _) rfl
            (by intro x y h; cases h) (by intro x y z w h; cases h) rfl rfl rfl
        | insClear before =>
          have : (g.stepClient i b).1 =
            { g with sys := { g.sys with store := g.sys.store, clients := g.sys.clients.set i { op := .insClear before, pc := (qstep g.sys.store arrival g.sys.fresh (.insClear before) .start).2.1, started := true, dead := b, arrival := g.sys.clock, popped := popped } } } := by
            simp only [GSys.stepClient, h1, QSys.enqDelta, QSys.popDelta, hcur, List.append_nil, QClient.cmdClock,
              QClient.before, List.filterMap_nil]
            simp only [qstep]
            split <;> rfl
          rw [this]
          refine .other i _ _ _ hcur (by intro n h; cases h) rfl rfl (fun h => h) rfl ?_ ?_ rfl rfl rfl
          · intro x y; simp only [qstep]; split <;> (intro h; cases h)
          · intro x y z w; simp only [qstep]; split <;> (intro h; cases h)
      | clearExec ids =>
        have hnp : ∀ n, op ≠ .popMany n := by
          intro n h; subst h; exact absurd hok (by simp [okFor])
        have : (g.stepClient i b).1 =
            { g with sys := { g.sys with store := g.sys.store.insClearBatch ids, clients := g.sys.clients.set i { op := op, pc := .done (.count (ids.filter fun id => g.sys.store.insItems.contains id).length), started := true, dead := b, arrival := g.sys.clock, popped := popped } } } := by
          have hq : qstep g.sys.store arrival g.sys.fresh op (.clearExec ids) = (g.sys.store.insClearBatch ids, .done (.count (ids.filter fun id => g.sys.store.insItems.contains id).length), false, "exec:ok") := by
            cases op <;> rfl
          simp only [GSys.stepClient, h1, QSys.enqDelta, QSys.popDelta, hcur, List.append_nil, QClient.cmdClock,
            QClient.before, List.filterMap_nil, hq]
          rfl
        rw [this]
        exact .other i _ _ _ hcur hnp (RStore.insClearBatch_pItems _ _) (RStore.insClearBatch_pQueue _ _)
          (fun h => RStore.insClearBatch_consistent h _) rfl
          (by intro x y h; cases h) (by intro x y z w h; cases h) rfl rfl rfl
      | popRange got e =>
        cases op with
        | popMany n =>
          obtain ⟨q1, q2, q3⟩ := qstep_popRange g.sys.store arrival g.sys.fresh n got e
          have : (g.stepClient i b).1 =
              { g with sys := { g.sys with clients := g.sys.clients.set i { op := .popMany n, pc := (qstep g.sys.store arrival g.sys.fresh (.popMany n) (.popRange got e)).2.1, started := true, dead := b, arrival := g.sys.clock, popped := popped } } } := by
            simp only [GSys.stepClient, h1, QSys.enqDelta, QSys.popDelta, hcur, List.append_nil, QClient.cmdClock,
              QClient.before, List.filterMap_nil, q1, q3]
            rfl
          rw [this]
          exact .range i _ _ n got e hcur rfl rfl rfl q2 rfl rfl rfl
        | _ => exact absurd hok (by simp [okFor])
      | popExec got e ids scs =>
        cases op with
        | popMany n =>
          obtain ⟨q1, q2, q3⟩ := qstep_popExec g.sys.store g.sys.clock g.sys.fresh n got e ids scs
          have : (g.stepClient i b).1 =
              { sys := { g.sys with store := (g.sys.store.popBatch ids).1, clients := g.sys.clients.set i { op := .popMany n, pc := (qstep g.sys.store g.sys.clock g.sys.fresh (.popMany n) (.popExec got e ids scs)).2.1, started := true, dead := b, arrival := g.sys.clock, popped := popped ++ ids.filterMap fun id => g.sys.store.pItems[id]? } }
                enqs := g.enqs
                pops := g.pops ++ g.sys.popRecs i ids } := by
            simp only [GSys.stepClient, h1, QSys.enqDelta, QSys.popDelta, hcur, List.append_nil, QClient.cmdClock,
              QClient.before, q1, q3]
            rfl
          rw [this]
          exact .exec i _ _ n got e ids scs hcur rfl rfl rfl q2 rfl rfl rfl
        | _ => exact absurd hok (by simp [okFor])
    · have hl' : c.pc.live = false := by simpa using hl
      have : (g.stepClient i b).1 = { g with sys := { g.sys with clients := g.sys.clients.set i c } } := by
        have h2 : g.sys.enqDelta i = [] := by
          simp only [QSys.enqDelta, hcur]
          cases hp : c.pc <;> simp_all [QPC.live]
        have h3 : g.sys.popDelta i = [] := by
          simp only [QSys.popDelta, hcur]
          cases hp : c.pc <;> simp_all [QPC.live]
        simp only [GSys.stepClient, QSys.stepClient_stall b hcur hl', h2, h3, List.append_nil]
      rw [this]
      exact .setc i c c hcur rfl rfl hst rfl rfl

def GSys.tick (g : GSys) (d : Int) : GSys := { g with sys := { g.sys with clock := g.sys.clock + d } }

/-- tick amounts of an event satisfy `ok` -/
def QSysEv.ticksOk (ok : Int → Prop) : QSysEv → Prop
  | .tick d => ok d
  | _ => True

/-- **induction principle for invariants of the ghost system**: a predicate that implies `okFor` for every client
about to move, and is preserved by the six command shapes and by (admissible) ticks, is preserved by every event -/
theorem GSys.step_induction (Inv : GSys → Prop) (ok : Int → Prop)
    (hok : ∀ g, Inv g → ∀ i c, g.sys.cur i = some c → okFor c.op c.pc)
    (hstep : ∀ g g', Inv g → GStep g g' → Inv g')
    (htick : ∀ g d, Inv g → ok d → Inv (g.tick d))
    (g : GSys) (e : QSysEv) (he : e.ticksOk ok) (h : Inv g) : Inv (g.step e) := by
  have hsc : ∀ g i b, Inv g → Inv (g.stepClient i b).1 := fun g i b h =>
    hstep g _ h (gstep_stepClient g i b (hok g h i))
  cases e with
  | tick d => exact htick g d h he
  | step i => exact hsc g i false h
  | run i =>
    show Inv (g.runClient i 200)
    generalize 200 = fuel
    induction fuel generalizing g with
    | zero => exact h
    | succ n ih =>
      unfold GSys.runClient
      have hg : g.stepClient i false = ((g.stepClient i false).1, (g.stepClient i false).2) := rfl
      rw [hg]
      cases (g.stepClient i false).2 with
      | none => exact hsc g i false h
      | some l => exact ih _ (hsc g i false h)
  | crashBefore i =>
    simp only [GSys.step]
    cases hc : g.sys.clients[i]? with
    | none => exact h
    | some c =>
      simp only
      by_cases hl : (c.start g.sys.clock).live = true
      · simp only [hl, if_true]
        have hd : (c.start g.sys.clock).dead = false := by
          simp only [QClient.live, Bool.and_eq_true, Bool.not_eq_true'] at hl; exact hl.1
        have hd0 : c.dead = false := by
          unfold QClient.start at hd; split at hd <;> exact hd
        have hcur : g.sys.cur i = some (c.start g.sys.clock) := by
          simp [QSys.cur, hc, hd0]
        exact hstep g _ h (.setc i _ _ hcur rfl rfl (c.start_started _) rfl rfl)
      · simp only [hl]; exact h
  | crashAfter i =>
    simp only [GSys.step]
    cases hc : g.sys.clients[i]? with
    | none => exact h
    | some c =>
      simp only
      split
      · exact hsc g i true h
      · exact h

theorem GSys.run_induction (Inv : GSys → Prop) (ok : Int → Prop)
    (hok : ∀ g, Inv g → ∀ i c, g.sys.cur i = some c → okFor c.op c.pc)
    (hstep : ∀ g g', Inv g → GStep g g' → Inv g')
    (htick : ∀ g d, Inv g → ok d → Inv (g.tick d))
    (g : GSys) (es : List QSysEv) (he : ∀ e ∈ es, e.ticksOk ok) (h : Inv g) : Inv (g.run es) := by
  induction es generalizing g with
  | nil => exact h
  | cons e es ih =>
    exact ih (g.step e) (fun e' he' => he e' (List.mem_cons_of_mem _ he'))
      (GSys.step_induction Inv ok hok hstep htick g e (he e (List.mem_cons_self)) h)

open RStore

/-! ## accounting of the ghost pop log -/

/-- what consumer `i` has been handed for its batch so far, according to the ghost log -/
def retOf (i : Nat) (pops : List GPop) : List Probe :=
  (pops.filter fun d => d.client == i && d.returned).map (·.probe)

/-- how many entries consumer `i` has dropped as expired so far, according to the ghost log -/
def expOf (i : Nat) (pops : List GPop) : Nat :=
  (pops.filter fun d => d.client == i && !d.returned).length

/-- everything consumer `i` took out of the store -/
def poppedOf (i : Nat) (pops : List GPop) : List (Probe × GoTime) :=
  (pops.filter fun d => d.client == i).map fun d => (d.probe, d.expires)

/-- the same with the score each entry had in `probes:queue` when it was popped: the items consumer `i` holds, in fetch order -/
def retS (i : Nat) (pops : List GPop) : List (Probe × Int) :=
  (pops.filter fun d => d.client == i && d.returned).map fun d => (d.probe, d.ready.getD 0)

theorem retS_fst (i : Nat) (pops : List GPop) : (retS i pops).map (·.1) = retOf i pops := by
  unfold retS retOf
  rw [List.map_map]; rfl

theorem retS_append (i : Nat) (a b : List GPop) : retS i (a ++ b) = retS i a ++ retS i b := by
  simp [retS]

theorem retOf_append (i : Nat) (a b : List GPop) : retOf i (a ++ b) = retOf i a ++ retOf i b := by
  simp [retOf]
theorem expOf_append (i : Nat) (a b : List GPop) : expOf i (a ++ b) = expOf i a + expOf i b := by
  simp [expOf]
theorem poppedOf_append (i : Nat) (a b : List GPop) : poppedOf i (a ++ b) = poppedOf i a ++ poppedOf i b := by
  simp [poppedOf]

theorem filter_client_eq_nil {j : Nat} {l : List GPop} (h : ∀ d ∈ l, d.client ≠ j) (p : GPop → Bool) :
    (l.filter fun d => d.client == j && p d) = [] := by
  rw [List.filter_eq_nil_iff]
  intro d hd
  simp [h d hd]

theorem retOf_other {j : Nat} {l : List GPop} (h : ∀ d ∈ l, d.client ≠ j) : retOf j l = [] := by
  unfold retOf; rw [filter_client_eq_nil h]; rfl
theorem retS_other {j : Nat} {l : List GPop} (h : ∀ d ∈ l, d.client ≠ j) : retS j l = [] := by
  unfold retS; rw [filter_client_eq_nil h]; rfl
theorem expOf_other {j : Nat} {l : List GPop} (h : ∀ d ∈ l, d.client ≠ j) : expOf j l = 0 := by
  unfold expOf; rw [filter_client_eq_nil h]; rfl
theorem poppedOf_other {j : Nat} {l : List GPop} (h : ∀ d ∈ l, d.client ≠ j) : poppedOf j l = [] := by
  unfold poppedOf
  have := filter_client_eq_nil h (fun _ => true)
  simp only [Bool.and_true] at this
  rw [this]; rfl

theorem mem_popRecs {s : QSys} {i : Nat} {ids : List Nat} {d : GPop} :
    d ∈ s.popRecs i ids ↔ ∃ id ∈ ids, ∃ pe, s.store.pItems[id]? = some pe ∧
      d = ⟨id, i, pe.1, pe.2, s.store.pQueue[id]?, s.clock, !expiredAt pe.2 s.clock⟩ := by
  unfold QSys.popRecs
  simp only [List.mem_filterMap, Option.map_eq_some_iff]
  constructor
  · rintro ⟨id, hid, pe, hpe, rfl⟩; exact ⟨id, hid, pe, hpe, rfl⟩
  · rintro ⟨id, hid, pe, hpe, rfl⟩; exact ⟨id, hid, pe, hpe, rfl⟩

theorem popRecs_client {s : QSys} {i : Nat} {ids : List Nat} {d : GPop} (h : d ∈ s.popRecs i ids) : d.client = i := by
  obtain ⟨id, _, pe, _, rfl⟩ := mem_popRecs.1 h; rfl

theorem popRecs_cons (s : QSys) (i : Nat) (id : Nat) (ids : List Nat) :
    s.popRecs i (id :: ids) =
      (match s.store.pItems[id]? with
       | some pe => [⟨id, i, pe.1, pe.2, s.store.pQueue[id]?, s.clock, !expiredAt pe.2 s.clock⟩]
       | none => []) ++ s.popRecs i ids := by
  unfold QSys.popRecs
  rw [List.filterMap_cons]
  cases s.store.pItems[id]? <;> rfl

theorem popRecs_ids (s : QSys) (i : Nat) (ids : List Nat) :
    (s.popRecs i ids).map (·.id) = ids.filter fun id => (s.store.pItems[id]?).isSome := by
  induction ids with
  | nil => rfl
  | cons id ids ih =>
    rw [popRecs_cons, List.map_append, ih, List.filter_cons]
    cases s.store.pItems[id]? <;> simp

theorem poppedOf_popRecs (s : QSys) (i : Nat) (ids : List Nat) :
    poppedOf i (s.popRecs i ids) = ids.filterMap fun id => s.store.pItems[id]? := by
  induction ids with
  | nil => rfl
  | cons id ids ih =>
    rw [popRecs_cons, poppedOf_append, ih, List.filterMap_cons]
    cases s.store.pItems[id]? <;> simp [poppedOf]

theorem retOf_popRecs (s : QSys) (i : Nat) (ids : List Nat) :
    retOf i (s.popRecs i ids) =
      ((ids.filterMap fun id => s.store.pItems[id]?).filter fun pe => !expiredAt pe.2 s.clock).map (·.1) := by
  induction ids with
  | nil => rfl
  | cons id ids ih =>
    rw [popRecs_cons, retOf_append, ih, List.filterMap_cons]
    cases s.store.pItems[id]? with
    | none => simp [retOf]
    | some pe =>
      simp only [retOf, List.filter_cons]
      cases expiredAt pe.2 s.clock <;> simp

theorem expOf_popRecs (s : QSys) (i : Nat) (ids : List Nat) :
    expOf i (s.popRecs i ids) =
      (ids.filterMap fun id => s.store.pItems[id]?).length -
        ((ids.filterMap fun id => s.store.pItems[id]?).filter fun pe => !expiredAt pe.2 s.clock).length := by
  induction ids with
  | nil => rfl
  | cons id ids ih =>
    rw [popRecs_cons, expOf_append, ih, List.filterMap_cons]
    have hle := List.length_filter_le (fun pe : Probe × GoTime => !expiredAt pe.2 s.clock) (ids.filterMap fun id => s.store.pItems[id]?)
    cases s.store.pItems[id]? with
    | none => simp [expOf]
    | some pe =>
      simp only [expOf, List.filter_cons]
      cases expiredAt pe.2 s.clock <;> simp <;> omega

/-- the scored items of a pop batch, provided the scores of the `WITHSCORES` reply are still the scores of the entries
the batch finds -/
theorem retS_popRecs (s : QSys) (i : Nat) (ids : List Nat) (scs : List Int) (hlen : scs.length = ids.length)
    (hsc : ∀ p ∈ ids.zip scs, ∀ pe, s.store.pItems[p.1]? = some pe → s.store.pQueue[p.1]? = some p.2) :
    retS i (s.popRecs i ids) =
      ((popItemsS s.store ids scs).filter fun it => !expiredAt it.1.2 s.clock).map fun it => (it.1.1, it.2) := by
  induction ids generalizing scs with
  | nil => cases scs <;> rfl
  | cons id ids ih =>
    cases scs with
    | nil => cases hlen
    | cons sc scs =>
      have ih' := ih scs (by simpa using hlen) (fun p hp => hsc p (by rw [List.zip_cons_cons]; exact List.mem_cons_of_mem _ hp))
      have h0 := hsc (id, sc) (by rw [List.zip_cons_cons]; exact List.mem_cons_self)
      rw [popRecs_cons, retS_append, ih', popItemsS_cons, List.filter_append, List.map_append]
      congr 1
      cases hpe : s.store.pItems[id]? with
      | none => rfl
      | some pe =>
        have hq := h0 pe hpe
        simp only at hq
        simp only [retS, List.filter_cons, hq]
        cases expiredAt pe.2 s.clock <;> simp

/-! ## the invariant -/

/-- the pc of a started call agrees with the ghost log: a `PopMany n` call holds exactly the probes the log says it
was handed (in fetch order, with their scores; when done: stably sorted by score, scores dropped), has counted exactly the
expired ones, and never exceeds `n`; other calls are never at a pop pc -/
def PcOK (op : QOp) (pc : QPC) (ret : List (Probe × Int)) (exp : Nat) : Prop :=
  match op with
  | .popMany n =>
    (match pc with
     | .popRange got e => got = ret ∧ e = exp ∧ got.length < n.toNat
     | .popExec got e ids scs => got = ret ∧ e = exp ∧ ids.Nodup ∧ got.length + ids.length ≤ n.toNat ∧ scs.length = ids.length
     | .done (.probes ps e) => ps = finishBatch ret ∧ e = exp ∧ ps.length ≤ n.toNat
     | _ => False)
  | _ => (match pc with | .popRange .. => False | .popExec .. => False | _ => True)

theorem PcOK.okFor {op : QOp} {pc : QPC} {ret : List (Probe × Int)} {exp : Nat} (h : PcOK op pc ret exp) : okFor op pc := by
  cases op with
  | popMany n =>
    cases pc with
    | done r => cases r <;> first | exact h | trivial
    | start => exact h
    | clearExec _ => exact h
    | _ => trivial
  | _ => cases pc <;> first | exact h | trivial

theorem PcOK_begin (op : QOp) : PcOK op op.begin [] 0 := by
  cases op with
  | enqueue p a b => cases a <;> cases b <;> simp only [QOp.begin] <;> (try split) <;> simp [PcOK]
  | popMany n =>
    simp only [QOp.begin]
    split
    · simp [PcOK, finishBatch, sortByScore]
    · simp only [PcOK, List.length_nil, true_and]; omega
  | _ => simp [QOp.begin, PcOK]

/-- per-client part of the invariant (depends on the ghost pop log only) -/
structure CInv (pops : List GPop) (i : Nat) (c : QClient) : Prop where
  popped : c.popped = poppedOf i pops
  unstarted : c.started = false → ∀ d ∈ pops, d.client ≠ i
  pc : c.started = true → PcOK c.op c.pc (retS i pops) (expOf i pops)

theorem CInv.start {pops : List GPop} {i : Nat} {c : QClient} (h : CInv pops i c) (clock : Int) :
    CInv pops i (c.start clock) := by
  unfold QClient.start
  by_cases hs : c.started = true
  · simp only [hs, if_true]; exact h
  · have hs' : c.started = false := by simpa using hs
    simp only [hs']
    refine ⟨h.popped, fun h' => (by cases h'), fun _ => ?_⟩
    have := h.unstarted hs'
    simp only [retS_other this, expOf_other this]
    exact PcOK_begin c.op

/-- another client's command appends only records of that client -/
theorem CInv.frame {pops new : List GPop} {i j : Nat} {c : QClient} (h : CInv pops j c)
    (hnew : ∀ d ∈ new, d.client = i) (hij : i ≠ j) : CInv (pops ++ new) j c := by
  have hn : ∀ d ∈ new, d.client ≠ j := fun d hd e => hij ((hnew d hd).symm.trans e)
  refine ⟨?_, ?_, ?_⟩
  · rw [poppedOf_append, poppedOf_other hn, List.append_nil]; exact h.popped
  · intro hs d hd
    rcases List.mem_append.1 hd with hd | hd
    · exact h.unstarted hs d hd
    · exact hn d hd
  · intro hs
    rw [retS_append, retS_other hn, List.append_nil, expOf_append, expOf_other hn, Nat.add_zero]
    exact h.pc hs

/-- between a `ZRANGEBYSCORE … WITHSCORES` and its pop batch a consumer holds old ids, and the score it holds for an id is
the id's score in `probes:queue` for as long as the id is queued (an id is enqueued once, its score never changes) -/
def ScOK (pQ : ExtTreeMap Nat Int) (fresh : Nat) (c : QClient) : Prop :=
  c.started = true → ∀ got e ids scs, c.pc = .popExec got e ids scs →
    ∀ p ∈ ids.zip scs, p.1 < fresh ∧ ∀ r, pQ[p.1]? = some r → r = p.2

theorem ScOK.mono {pQ pQ' : ExtTreeMap Nat Int} {fresh fresh' : Nat} {c : QClient}
    (h : ScOK pQ fresh c) (hQ : ∀ (id : Nat) (r : Int), id < fresh → pQ'[id]? = some r → pQ[id]? = some r)
    (hf : fresh ≤ fresh') : ScOK pQ' fresh' c := by
  intro hs got e ids scs hpc p hp
  obtain ⟨h1, h2⟩ := h hs got e ids scs hpc p hp
  exact ⟨Nat.lt_of_lt_of_le h1 hf, fun r hr => h2 r (hQ p.1 r h1 hr)⟩

theorem ScOK.ofNoExec {pQ : ExtTreeMap Nat Int} {fresh : Nat} {c : QClient}
    (hpc : ∀ x y z w, c.pc ≠ .popExec x y z w) : ScOK pQ fresh c :=
  fun _ got e ids scs h => absurd h (hpc got e ids scs)

theorem QOp.begin_ne_popExec (op : QOp) (got : List (Probe × Int)) (e : Nat) (ids : List Nat) (scs : List Int) :
    op.begin ≠ .popExec got e ids scs := by
  cases op with
  | enqueue p a b => cases a <;> cases b <;> simp only [QOp.begin] <;> (try split) <;> simp
  | popMany n => simp only [QOp.begin]; split <;> simp
  | _ => simp [QOp.begin]

theorem ScOK.start {pQ : ExtTreeMap Nat Int} {fresh : Nat} {c : QClient} (h : ScOK pQ fresh c) (clock : Int) :
    ScOK pQ fresh (c.start clock) := by
  unfold QClient.start
  by_cases hs : c.started = true
  · simp only [hs, if_true]; exact h
  · simp only [hs]
    intro _ got e ids scs hpc
    exact absurd hpc (QOp.begin_ne_popExec _ _ _ _ _)

/-- **the invariant of the ghost system** (no assumption on ticks) -/
structure GInv (g : GSys) : Prop where
  cons : Consistent g.sys.store
  lt : ∀ id : Nat, id ∈ g.sys.store.pItems → id < g.sys.fresh
  enqLt : ∀ e ∈ g.enqs, e.id < g.sys.fresh
  enqInc : (g.enqs.map (·.id)).Pairwise (· < ·)
  cover : ∀ id : Nat, id ∈ g.enqs.map (·.id) ↔ (id ∈ g.sys.store.pQueue ∨ id ∈ g.pops.map (·.id))
  popNodup : (g.pops.map (·.id)).Nodup
  popOut : ∀ id : Nat, id ∈ g.pops.map (·.id) → id ∉ g.sys.store.pQueue
  src : ∀ (id : Nat) (pe : Probe × GoTime) (r : Int), g.sys.store.pItems[id]? = some pe → g.sys.store.pQueue[id]? = some r →
    ∃ e ∈ g.enqs, e.id = id ∧ e.probe = pe.1 ∧ e.expires = pe.2 ∧ e.ready = r
  popSrc : ∀ d ∈ g.pops, ∃ e ∈ g.enqs, e.id = d.id ∧ e.probe = d.probe ∧ e.expires = d.expires ∧ d.ready = some e.ready
  popRet : ∀ d ∈ g.pops, d.returned = !expiredAt d.expires d.clk
  clients : ∀ (i : Nat) (c : QClient), g.sys.clients[i]? = some c → CInv g.pops i c
  scores : ∀ (i : Nat) (c : QClient), g.sys.clients[i]? = some c → ScOK g.sys.store.pQueue g.sys.fresh c

theorem GInv.curSc {g : GSys} (h : GInv g) {i : Nat} {c : QClient} (hc : g.sys.cur i = some c) :
    ScOK g.sys.store.pQueue g.sys.fresh c := by
  obtain ⟨c0, h0, _, rfl⟩ := QSys.cur_some hc
  exact (h.scores i c0 h0).start _

/-- the `scores` part after client `i` was replaced by `c'`; the new score map agrees with the old one on old ids it still has -/
theorem sclients_set {g : GSys} (h : GInv g) {i : Nat} {c' : QClient} {pQ' : ExtTreeMap Nat Int} {fresh' : Nat}
    (hQ : ∀ (id : Nat) (r : Int), id < g.sys.fresh → pQ'[id]? = some r → g.sys.store.pQueue[id]? = some r)
    (hf : g.sys.fresh ≤ fresh') (hc' : ScOK pQ' fresh' c') :
    ∀ (j : Nat) (cj : QClient), (g.sys.clients.set i c')[j]? = some cj → ScOK pQ' fresh' cj := by
  intro j cj hj
  rw [List.getElem?_set] at hj
  by_cases hij : i = j
  · subst hij
    simp only [if_true] at hj
    split at hj
    · cases hj; exact hc'
    · cases hj
  · simp only [hij, if_false] at hj
    exact (h.scores j cj hj).mono hQ hf

theorem GInv.cur {g : GSys} (h : GInv g) {i : Nat} {c : QClient} (hc : g.sys.cur i = some c) : CInv g.pops i c := by
  obtain ⟨c0, h0, _, rfl⟩ := QSys.cur_some hc
  exact (h.clients i c0 h0).start _

theorem GInv.okFor {g : GSys} (h : GInv g) (i : Nat) (c : QClient) (hc : g.sys.cur i = some c) : okFor c.op c.pc :=
  ((h.cur hc).pc (QSys.cur_started hc)).okFor

/-- the clients part after client `i` was replaced by `c'` and `new` (records of client `i`) was appended to the log -/
theorem clients_set {g : GSys} (h : GInv g) {i : Nat} {c' : QClient} {new : List GPop}
    (hnew : ∀ d ∈ new, d.client = i) (hc' : CInv (g.pops ++ new) i c') :
    ∀ (j : Nat) (cj : QClient), (g.sys.clients.set i c')[j]? = some cj → CInv (g.pops ++ new) j cj := by
  intro j cj hj
  rw [List.getElem?_set] at hj
  by_cases hij : i = j
  · subst hij
    simp only [if_true] at hj
    split at hj
    · cases hj; exact hc'
    · cases hj
  · simp only [hij, if_false] at hj
    exact (h.clients j cj hj).frame hnew hij

theorem GInv.popLt {g : GSys} (h : GInv g) {id : Nat} (hid : id ∈ g.pops.map (·.id)) : id < g.sys.fresh := by
  have := (h.cover id).2 (Or.inr hid)
  obtain ⟨e, he, rfl⟩ := List.mem_map.1 this
  exact h.enqLt e he

theorem GInv.queueLt {g : GSys} (h : GInv g) {id : Nat} (hid : id ∈ g.sys.store.pQueue) : id < g.sys.fresh :=
  h.lt id ((h.cons.prb id).1 hid)

theorem PcOK_other {op : QOp} {pc : QPC} (ret : List (Probe × Int)) (exp : Nat) (hnp : ∀ n, op ≠ .popMany n)
    (h1 : ∀ x y, pc ≠ .popRange x y) (h2 : ∀ x y z w, pc ≠ .popExec x y z w) : PcOK op pc ret exp := by
  cases op with
  | popMany n => exact absurd rfl (hnp n)
  | _ =>
    cases pc with
    | popRange x y => exact absurd rfl (h1 x y)
    | popExec x y z w => exact absurd rfl (h2 x y z w)
    | _ => trivial

theorem CInv.ofStarted {pops : List GPop} {i : Nat} {c : QClient} (hst : c.started = true)
    (hpop : c.popped = poppedOf i pops) (hpc : PcOK c.op c.pc (retS i pops) (expOf i pops)) : CInv pops i c :=
  ⟨hpop, fun hs => (by rw [hst] at hs; cases hs), fun _ => hpc⟩

/-- the clients part when the log does not change -/
theorem clients_set0 {g : GSys} (h : GInv g) {i : Nat} {c' : QClient} (hc' : CInv g.pops i c') :
    ∀ (j : Nat) (cj : QClient), (g.sys.clients.set i c')[j]? = some cj → CInv g.pops j cj := by
  have := clients_set h (i := i) (c' := c') (new := []) (by intro d hd; cases hd) (by rw [List.append_nil]; exact hc')
  simpa using this

theorem GInv.step_setc {g : GSys} (h : GInv g) (i : Nat) (c c' : QClient) (hc : g.sys.cur i = some c) (hop : c'.op = c.op)
    (hpc : c'.pc = c.pc) (hst : c'.started = true) (hpop : c'.popped = c.popped) :
    GInv { g with sys := { g.sys with clients := g.sys.clients.set i c' } } := by
  refine ⟨h.cons, h.lt, h.enqLt, h.enqInc, h.cover, h.popNodup, h.popOut, h.src, h.popSrc, h.popRet, ?_, ?_⟩
  · have hci := h.cur hc
    exact clients_set0 h (CInv.ofStarted hst (by rw [hpop]; exact hci.popped)
      (by rw [hop, hpc]; exact hci.pc (QSys.cur_started hc)))
  · refine sclients_set h (fun _ _ _ hr => hr) (Nat.le_refl _) ?_
    intro _ got e ids scs hpc'
    rw [hpc] at hpc'
    exact h.curSc hc (QSys.cur_started hc) got e ids scs hpc'

theorem GInv.step_other {g : GSys} (h : GInv g) (i : Nat) (c c' : QClient) (st' : RStore) (hc : g.sys.cur i = some c)
    (hnp : ∀ n, c.op ≠ .popMany n) (hI : st'.pItems = g.sys.store.pItems) (hQ : st'.pQueue = g.sys.store.pQueue)
    (hcons : Consistent g.sys.store → Consistent st')
    (hop : c'.op = c.op) (hpc1 : ∀ x y, c'.pc ≠ .popRange x y) (hpc2 : ∀ x y z w, c'.pc ≠ .popExec x y z w)
    (hst : c'.started = true) (hpop : c'.popped = c.popped) :
    GInv { g with sys := { g.sys with store := st', clients := g.sys.clients.set i c' } } := by
  have hci := h.cur hc
  refine ⟨hcons h.cons, ?_, h.enqLt, h.enqInc, ?_, h.popNodup, ?_, ?_, h.popSrc, h.popRet, ?_, ?_⟩
  · show ∀ id : Nat, id ∈ st'.pItems → _
    rw [hI]; exact h.lt
  · show ∀ id : Nat, _ ↔ (id ∈ st'.pQueue ∨ _)
    rw [hQ]; exact h.cover
  · show ∀ id : Nat, _ → id ∉ st'.pQueue
    rw [hQ]; exact h.popOut
  · show ∀ (id : Nat) (pe : Probe × GoTime) (r : Int), st'.pItems[id]? = some pe → st'.pQueue[id]? = some r → _
    rw [hI, hQ]; exact h.src
  · exact clients_set0 h (CInv.ofStarted hst (by rw [hpop]; exact hci.popped)
      (PcOK_other _ _ (by rw [hop]; exact hnp) hpc1 hpc2))
  · show ∀ (j : Nat) (cj : QClient), (g.sys.clients.set i c')[j]? = some cj → ScOK st'.pQueue g.sys.fresh cj
    rw [hQ]
    exact sclients_set h (fun _ _ _ hr => hr) (Nat.le_refl _) (ScOK.ofNoExec hpc2)

theorem GInv.step_range {g : GSys} (h : GInv g) (i : Nat) (c c' : QClient) (n : Int) (got : List (Probe × Int)) (e : Nat)
    (hc : g.sys.cur i = some c) (hcop : c.op = .popMany n) (hcpc : c.pc = .popRange got e) (hop : c'.op = c.op)
    (hpc : c'.pc = (if (zrangeUpTo g.sys.store.pQueue (some c.arrival) (some (n - got.length).toNat)).isEmpty then
                      .done (.probes (finishBatch got) e)
                    else .popExec got e (zrangeUpTo g.sys.store.pQueue (some c.arrival) (some (n - got.length).toNat))
                           ((zrangeUpToS g.sys.store.pQueue (some c.arrival) (some (n - got.length).toNat)).map (·.2))))
    (hst : c'.started = true) (hpop : c'.popped = c.popped) :
    GInv { g with sys := { g.sys with clients := g.sys.clients.set i c' } } := by
  refine ⟨h.cons, h.lt, h.enqLt, h.enqInc, h.cover, h.popNodup, h.popOut, h.src, h.popSrc, h.popRet, ?_, ?_⟩
  · have hci := h.cur hc
    have hp := hci.pc (QSys.cur_started hc)
    rw [hcop, hcpc] at hp
    obtain ⟨h1, h2, h3⟩ := hp
    refine clients_set0 h (CInv.ofStarted hst (by rw [hpop]; exact hci.popped) ?_)
    rw [hop, hcop, hpc]
    have hlen := zrangeUpTo_length_le g.sys.store.pQueue (some c.arrival) (n - got.length).toNat
    split
    · exact ⟨by rw [h1], h2, by rw [finishBatch_length]; omega⟩
    · refine ⟨h1, h2, zrangeUpTo_nodup _ _ _, by omega, ?_⟩
      rw [← zrangeUpToS_ids, List.length_map, List.length_map]
  · refine sclients_set h (fun _ _ _ hr => hr) (Nat.le_refl _) ?_
    intro _ got' e' ids scs hpc' p hp
    rw [hpc] at hpc'
    split at hpc'
    · cases hpc'
    · cases hpc'
      rw [← zrangeUpToS_ids, zip_fst_snd] at hp
      have hq := mem_zrangeUpToS hp
      refine ⟨h.queueLt (mem_iff_getElem?_some.2 ⟨_, hq⟩), fun r hr => ?_⟩
      rw [hq] at hr
      exact (Option.some.inj hr).symm

theorem GInv.step_enq {g : GSys} (h : GInv g) (i : Nat) (c c' : QClient) (p : Probe) (after before : GoTime)
    (hc : g.sys.cur i = some c) (hcop : c.op = .enqueue p after before)
    (hop : c'.op = c.op) (hpc : c'.pc = .done .unit) (hst : c'.started = true) (hpop : c'.popped = c.popped) (ready clk : Int) :
    GInv { sys := { g.sys with
                   store := g.sys.store.enqueueBatch g.sys.fresh p before ready
                   clients := g.sys.clients.set i c'
                   fresh := g.sys.fresh + 1 }
           enqs := g.enqs ++ [⟨g.sys.fresh, i, p, before, ready, clk⟩]
           pops := g.pops } := by
  have hci := h.cur hc
  have hnq : g.sys.fresh ∉ g.sys.store.pQueue := fun hm => Nat.lt_irrefl _ (h.queueLt hm)
  refine ⟨enqueueBatch_consistent h.cons _ _ _ _, ?_, ?_, ?_, ?_, h.popNodup, ?_, ?_, ?_, h.popRet, ?_, ?_⟩
  · intro id hid
    have : g.sys.fresh = id ∨ id ∈ g.sys.store.pItems := by
      have hid' : id ∈ g.sys.store.pItems.insert g.sys.fresh (p, before) := hid
      rw [ExtTreeMap.mem_insert] at hid'
      simpa using hid'
    rcases this with rfl | hm
    · exact Nat.lt_succ_self _
    · exact Nat.lt_succ_of_lt (h.lt id hm)
  · intro e he
    rcases List.mem_append.1 he with he | he
    · exact Nat.lt_succ_of_lt (h.enqLt e he)
    · simp only [List.mem_singleton] at he; subst he; exact Nat.lt_succ_self _
  · show ((g.enqs ++ [_]).map GEnq.id).Pairwise (· < ·)
    rw [List.map_append, List.pairwise_append]
    refine ⟨h.enqInc, by simp, ?_⟩
    intro a ha b hb
    obtain ⟨e, he, rfl⟩ := List.mem_map.1 ha
    simp only [List.map_cons, List.map_nil, List.mem_singleton] at hb
    subst hb
    exact h.enqLt e he
  · intro id
    show id ∈ (g.enqs ++ [_]).map GEnq.id ↔ (id ∈ (g.sys.store.pQueue.insert g.sys.fresh ready) ∨ id ∈ g.pops.map GPop.id)
    rw [List.map_append, List.mem_append, h.cover id, ExtTreeMap.mem_insert]
    simp only [List.map_cons, List.map_nil, List.mem_singleton, compare_eq_iff_eq]
    constructor
    · rintro ((h1 | h1) | h1)
      · exact Or.inl (Or.inr h1)
      · exact Or.inr h1
      · exact Or.inl (Or.inl h1.symm)
    · rintro ((h1 | h1) | h1)
      · exact Or.inr h1.symm
      · exact Or.inl (Or.inl h1)
      · exact Or.inl (Or.inr h1)
  · intro id hid
    show id ∉ (g.sys.store.pQueue.insert g.sys.fresh ready)
    rw [ExtTreeMap.mem_insert]
    simp only [compare_eq_iff_eq]
    rintro (h1 | h1)
    · subst h1; exact Nat.lt_irrefl _ (h.popLt hid)
    · exact h.popOut id hid h1
  · intro id pe r
    show (g.sys.store.pItems.insert g.sys.fresh (p, before))[id]? = some pe → (g.sys.store.pQueue.insert g.sys.fresh ready)[id]? = some r → _
    rw [ExtTreeMap.getElem?_insert, ExtTreeMap.getElem?_insert]
    by_cases hid : g.sys.fresh = id
    · subst hid
      simp only [compare_eq_iff_eq, if_true, Option.some.injEq]
      rintro rfl rfl
      exact ⟨_, List.mem_append.2 (Or.inr (List.mem_singleton.2 rfl)), rfl, rfl, rfl, rfl⟩
    · simp only [compare_eq_iff_eq, hid, if_false]
      intro h1 h2
      obtain ⟨e, he, h3⟩ := h.src id pe r h1 h2
      exact ⟨e, List.mem_append.2 (Or.inl he), h3⟩
  · intro d hd
    obtain ⟨e, he, h3⟩ := h.popSrc d hd
    exact ⟨e, List.mem_append.2 (Or.inl he), h3⟩
  · exact clients_set0 h (CInv.ofStarted hst (by rw [hpop]; exact hci.popped)
      (by rw [hop, hcop, hpc]; trivial))
  · show ∀ (j : Nat) (cj : QClient), (g.sys.clients.set i c')[j]? = some cj →
      ScOK (g.sys.store.pQueue.insert g.sys.fresh ready) (g.sys.fresh + 1) cj
    refine sclients_set h ?_ (Nat.le_succ _) (ScOK.ofNoExec (by rw [hpc]; intro x y z w hh; cases hh))
    intro id r hid
    rw [ExtTreeMap.getElem?_insert]
    have : ¬ g.sys.fresh = id := by omega
    simp only [compare_eq_iff_eq, this, if_false]
    exact fun hh => hh

theorem mem_popBatch_pItems {st : RStore} {ids : List Nat} {id : Nat} :
    id ∈ (st.popBatch ids).1.pItems ↔ id ∉ ids ∧ id ∈ st.pItems := by
  rw [mem_iff_getElem?_some, mem_iff_getElem?_some, popBatch_pItems]
  by_cases h : id ∈ ids <;> simp [h]

theorem mem_popBatch_pQueue {st : RStore} {ids : List Nat} {id : Nat} :
    id ∈ (st.popBatch ids).1.pQueue ↔ id ∉ ids ∧ id ∈ st.pQueue := by
  rw [mem_iff_getElem?_some, mem_iff_getElem?_some, popBatch_pQueue]
  by_cases h : id ∈ ids <;> simp [h]

theorem mem_popRecs_ids {s : QSys} {i : Nat} {ids : List Nat} {id : Nat} :
    id ∈ (s.popRecs i ids).map (·.id) ↔ id ∈ ids ∧ id ∈ s.store.pItems := by
  rw [popRecs_ids, List.mem_filter, mem_iff_getElem?_some, Option.isSome_iff_exists]

theorem popNext_ok (n : Int) (got : List (Probe × Int)) (e : Nat) (items : List ((Probe × GoTime) × Int)) (clock : Int) (k : Nat)
    (hlen : got.length + k ≤ n.toNat) (hk : items.length ≤ k) :
    PcOK (.popMany n) (popNext n got e items clock)
      (got ++ (items.filter fun it => !expiredAt it.1.2 clock).map fun it => (it.1.1, it.2))
      (e + (items.length - (items.filter fun it => !expiredAt it.1.2 clock).length)) := by
  unfold popNext
  have hle := List.length_filter_le (fun it : (Probe × GoTime) × Int => !expiredAt it.1.2 clock) items
  split
  · rename_i h
    have : items = [] := by simpa using h
    subst this
    exact ⟨by simp, by simp, by rw [finishBatch_length]; omega⟩
  · simp only
    split
    · rename_i h2; exact ⟨rfl, rfl, h2⟩
    · refine ⟨rfl, rfl, ?_⟩
      rw [finishBatch_length]
      simp only [List.length_append, List.length_map]; omega

theorem popNext_ne_popExec (n : Int) (got : List (Probe × Int)) (e : Nat) (items : List ((Probe × GoTime) × Int)) (clock : Int)
    (got' : List (Probe × Int)) (e' : Nat) (ids : List Nat) (scs : List Int) :
    popNext n got e items clock ≠ .popExec got' e' ids scs := by
  unfold popNext
  split
  · simp
  · simp only; split <;> simp

theorem GInv.step_exec {g : GSys} (h : GInv g) (i : Nat) (c c' : QClient) (n : Int) (got : List (Probe × Int)) (e : Nat) (ids : List Nat)
    (scs : List Int)
    (hc : g.sys.cur i = some c) (hcop : c.op = .popMany n) (hcpc : c.pc = .popExec got e ids scs) (hop : c'.op = c.op)
    (hpc : c'.pc = popNext n got e (popItemsS g.sys.store ids scs) g.sys.clock)
    (hst : c'.started = true)
    (hpop : c'.popped = c.popped ++ ids.filterMap fun id => g.sys.store.pItems[id]?) :
    GInv { sys := { g.sys with store := (g.sys.store.popBatch ids).1, clients := g.sys.clients.set i c' }
           enqs := g.enqs
           pops := g.pops ++ g.sys.popRecs i ids } := by
  have hci := h.cur hc
  have hp := hci.pc (QSys.cur_started hc)
  rw [hcop, hcpc] at hp
  obtain ⟨h1, h2, hnd, hlen, hscl⟩ := hp
  have hsc : ∀ p ∈ ids.zip scs, ∀ pe, g.sys.store.pItems[p.1]? = some pe → g.sys.store.pQueue[p.1]? = some p.2 := by
    intro p hp pe hpe
    obtain ⟨r, hr⟩ := mem_iff_getElem?_some.1 ((h.cons.prb p.1).2 (mem_iff_getElem?_some.2 ⟨pe, hpe⟩))
    rw [hr, (h.curSc hc (QSys.cur_started hc) got e ids scs hcpc p hp).2 r hr]
  refine ⟨popBatch_consistent h.cons _, ?_, h.enqLt, h.enqInc, ?_, ?_, ?_, ?_, ?_, ?_, ?_, ?_⟩
  · intro id hid
    exact h.lt id (mem_popBatch_pItems.1 hid).2
  · intro id
    show id ∈ g.enqs.map GEnq.id ↔ (id ∈ (g.sys.store.popBatch ids).1.pQueue ∨ id ∈ (g.pops ++ g.sys.popRecs i ids).map GPop.id)
    rw [h.cover id, mem_popBatch_pQueue, List.map_append, List.mem_append, mem_popRecs_ids, ← h.cons.prb id]
    by_cases hin : id ∈ ids
    · simp [hin]; constructor
      · rintro (h3 | h3); exact Or.inr h3; exact Or.inl h3
      · rintro (h3 | h3); exact Or.inr h3; exact Or.inl h3
    · simp [hin]
  · show ((g.pops ++ g.sys.popRecs i ids).map GPop.id).Nodup
    rw [List.map_append, List.nodup_append]
    refine ⟨h.popNodup, ?_, ?_⟩
    · rw [popRecs_ids]; exact hnd.sublist List.filter_sublist
    · intro a ha b hb hab
      subst hab
      have := (mem_popRecs_ids.1 hb).2
      exact h.popOut a ha ((h.cons.prb a).2 this)
  · intro id hid
    show id ∉ (g.sys.store.popBatch ids).1.pQueue
    rw [mem_popBatch_pQueue]
    rintro ⟨h3, h4⟩
    have hid' : id ∈ (g.pops ++ g.sys.popRecs i ids).map GPop.id := hid
    rw [List.map_append, List.mem_append] at hid'
    rcases hid' with h5 | h5
    · exact h.popOut id h5 h4
    · exact h3 (mem_popRecs_ids.1 h5).1
  · intro id pe r
    show (g.sys.store.popBatch ids).1.pItems[id]? = some pe → (g.sys.store.popBatch ids).1.pQueue[id]? = some r → _
    rw [popBatch_pItems, popBatch_pQueue]
    by_cases hin : id ∈ ids
    · simp [hin]
    · simp only [hin, if_false]; exact h.src id pe r
  · intro d hd
    rcases List.mem_append.1 hd with hd | hd
    · exact h.popSrc d hd
    · obtain ⟨id, _, pe, hpe, rfl⟩ := mem_popRecs.1 hd
      have hq : id ∈ g.sys.store.pQueue := (h.cons.prb id).2 (mem_iff_getElem?_some.2 ⟨pe, hpe⟩)
      obtain ⟨r, hr⟩ := mem_iff_getElem?_some.1 hq
      obtain ⟨e, he, h3, h4, h5, h6⟩ := h.src id pe r hpe hr
      exact ⟨e, he, h3, h4, h5, by simp only [hr, h6]⟩
  · intro d hd
    rcases List.mem_append.1 hd with hd | hd
    · exact h.popRet d hd
    · obtain ⟨id, _, pe, hpe, rfl⟩ := mem_popRecs.1 hd
      rfl
  · refine clients_set h (fun d hd => popRecs_client hd) (CInv.ofStarted hst ?_ ?_)
    · rw [hpop, poppedOf_append, poppedOf_popRecs, hci.popped]
    · obtain ⟨hc1, hc2⟩ := popItemsS_counts g.sys.store ids scs g.sys.clock hscl
      rw [hop, hcop, hpc, retS_append, expOf_append, retS_popRecs _ _ _ scs hscl hsc, expOf_popRecs, ← h1, ← h2, ← hc1, ← hc2]
      exact popNext_ok n got e _ _ ids.length hlen (by rw [hc1]; exact List.length_filterMap_le _ _)
  · show ∀ (j : Nat) (cj : QClient), (g.sys.clients.set i c')[j]? = some cj →
      ScOK (g.sys.store.popBatch ids).1.pQueue g.sys.fresh cj
    refine sclients_set h ?_ (Nat.le_refl _) (ScOK.ofNoExec (by rw [hpc]; exact popNext_ne_popExec _ _ _ _ _))
    intro id r _
    rw [popBatch_pQueue]
    split
    · intro hh; cases hh
    · exact fun hh => hh


theorem GInv.gstep {g g' : GSys} (h : GInv g) (hs : GStep g g') : GInv g' := by
  cases hs with
  | same => exact h
  | setc i c c' hc hop hpc hst harr hpop => exact h.step_setc i c c' hc hop hpc hst hpop
  | other i c c' st' hc hnp hI hQ hcons hop hpc1 hpc2 hst harr hpop =>
    exact h.step_other i c c' st' hc hnp hI hQ hcons hop hpc1 hpc2 hst hpop
  | enq i c c' p after before hc hcop hcpc hop hpc hst harr hpop =>
    exact h.step_enq i c c' p after before hc hcop hop hpc hst hpop _ _
  | range i c c' n got e hc hcop hcpc hop hpc hst harr hpop =>
    exact h.step_range i c c' n got e hc hcop hcpc hop hpc hst hpop
  | exec i c c' n got e ids scs hc hcop hcpc hop hpc hst harr hpop =>
    exact h.step_exec i c c' n got e ids scs hc hcop hcpc hop hpc hst hpop

theorem GInv.tick {g : GSys} (h : GInv g) (d : Int) : GInv (g.tick d) :=
  ⟨h.cons, h.lt, h.enqLt, h.enqInc, h.cover, h.popNodup, h.popOut, h.src, h.popSrc, h.popRet, h.clients, h.scores⟩

/-- `GInv` is inductive: preserved by every event -/
theorem GInv.step {g : GSys} (h : GInv g) (e : QSysEv) : GInv (g.step e) :=
  GSys.step_induction GInv (fun _ => True) (fun _ h => h.okFor) (fun _ _ h hs => h.gstep hs) (fun _ d h _ => h.tick d)
    g e (by cases e <;> trivial) h

theorem GInv.run {g : GSys} (h : GInv g) (es : List QSysEv) : GInv (g.run es) := by
  induction es generalizing g with
  | nil => exact h
  | cons e es ih => exact ih (h.step e)

/-- admissible initial states: a consistent store with an empty probe queue; clients that have not popped anything
and, when already started, stand at the first command of their call (dead or not, started or not, any arrival clock) -/
structure QSys.Init (s : QSys) : Prop where
  cons : Consistent s.store
  empty : ∀ id : Nat, id ∉ s.store.pItems
  clients : ∀ c ∈ s.clients, c.popped = [] ∧ (c.started = true → c.pc = c.op.begin)

theorem GInv.init {s : QSys} (h : s.Init) : GInv (GSys.init s) := by
  have hq : ∀ id : Nat, id ∉ s.store.pQueue := fun id hid => h.empty id ((h.cons.prb id).1 hid)
  refine ⟨h.cons, fun id hid => absurd hid (h.empty id), fun e he => (by cases he), List.Pairwise.nil, ?_, List.Pairwise.nil,
    fun id hid => (by cases hid), ?_, fun d hd => (by cases hd), fun d hd => (by cases hd), ?_, ?_⟩
  · intro id
    show id ∈ [] ↔ (id ∈ s.store.pQueue ∨ id ∈ [])
    simp [hq id]
  · intro id pe r hpe
    exact absurd (mem_iff_getElem?_some.2 ⟨pe, hpe⟩) (h.empty id)
  · intro i c hc
    obtain ⟨h1, h2⟩ := h.clients c (List.mem_of_getElem? hc)
    refine ⟨h1, fun _ d hd => (by cases hd), fun hs => ?_⟩
    rw [h2 hs]
    exact PcOK_begin c.op
  · intro i c hc hs got e ids scs hpc
    rw [(h.clients c (List.mem_of_getElem? hc)).2 hs] at hpc
    exact absurd hpc (QOp.begin_ne_popExec _ _ _ _ _)

/-! ## timing invariant (needs a monotone clock) -/

/-- per-client timing facts: a started client arrived no later than now; the ids a consumer is about to pop are old
ids whose scores (as long as they are still queued) are not in the future -/
structure TC (pQ : ExtTreeMap Nat Int) (fresh : Nat) (clock : Int) (c : QClient) : Prop where
  arr : c.started = true → c.arrival ≤ clock
  pend : c.started = true → ∀ got e ids scs, c.pc = .popExec got e ids scs →
    ∀ id ∈ ids, id < fresh ∧ ∀ r, pQ[id]? = some r → r ≤ clock

theorem TC.mono {pQ pQ' : ExtTreeMap Nat Int} {fresh fresh' : Nat} {clock clock' : Int} {c : QClient}
    (h : TC pQ fresh clock c) (hQ : ∀ (id : Nat) (r : Int), id < fresh → pQ'[id]? = some r → pQ[id]? = some r)
    (hf : fresh ≤ fresh') (hc : clock ≤ clock') : TC pQ' fresh' clock' c := by
  refine ⟨fun hs => Int.le_trans (h.arr hs) hc, ?_⟩
  intro hs got e ids scs hpc id hid
  obtain ⟨h1, h2⟩ := h.pend hs got e ids scs hpc id hid
  exact ⟨Nat.lt_of_lt_of_le h1 hf, fun r hr => Int.le_trans (h2 r (hQ id r h1 hr)) hc⟩

theorem TC.start {pQ : ExtTreeMap Nat Int} {fresh : Nat} {clock : Int} {c : QClient}
    (h : TC pQ fresh clock c) : TC pQ fresh clock (c.start clock) := by
  unfold QClient.start
  by_cases hs : c.started = true
  · simp only [hs, if_true]; exact h
  · simp only [hs]
    refine ⟨fun _ => Int.le_refl _, ?_⟩
    intro _ got e ids scs hpc
    exact absurd hpc (QOp.begin_ne_popExec _ _ _ _ _)

/-- **timing invariant** -/
structure TInv (g : GSys) : Prop where
  clients : ∀ (i : Nat) (c : QClient), g.sys.clients[i]? = some c → TC g.sys.store.pQueue g.sys.fresh g.sys.clock c
  popT : ∀ d ∈ g.pops, ∃ r, d.ready = some r ∧ r ≤ d.clk ∧ d.clk ≤ g.sys.clock

theorem TInv.cur {g : GSys} (h : TInv g) {i : Nat} {c : QClient} (hc : g.sys.cur i = some c) :
    TC g.sys.store.pQueue g.sys.fresh g.sys.clock c := by
  obtain ⟨c0, h0, _, rfl⟩ := QSys.cur_some hc
  exact (h.clients i c0 h0).start

theorem tclients_set {g : GSys} (h : TInv g) {i : Nat} {c' : QClient} {pQ' : ExtTreeMap Nat Int} {fresh' : Nat}
    (hQ : ∀ (id : Nat) (r : Int), id < g.sys.fresh → pQ'[id]? = some r → g.sys.store.pQueue[id]? = some r)
    (hf : g.sys.fresh ≤ fresh') (hc' : TC pQ' fresh' g.sys.clock c') :
    ∀ (j : Nat) (cj : QClient), (g.sys.clients.set i c')[j]? = some cj → TC pQ' fresh' g.sys.clock cj := by
  intro j cj hj
  rw [List.getElem?_set] at hj
  by_cases hij : i = j
  · subst hij
    simp only [if_true] at hj
    split at hj
    · cases hj; exact hc'
    · cases hj
  · simp only [hij, if_false] at hj
    exact (h.clients j cj hj).mono hQ hf (Int.le_refl _)

theorem TC.ofNoExec {pQ : ExtTreeMap Nat Int} {fresh : Nat} {clock : Int} {c : QClient}
    (harr : c.arrival ≤ clock) (hpc : ∀ x y z w, c.pc ≠ .popExec x y z w) : TC pQ fresh clock c :=
  ⟨fun _ => harr, fun _ got e ids scs h => absurd h (hpc got e ids scs)⟩

theorem TInv.gstep {g g' : GSys} (hG : GInv g) (h : TInv g) (hs : GStep g g') : TInv g' := by
  cases hs with
  | same => exact h
  | setc i c c' hc hop hpc hst harr hpop =>
    refine ⟨?_, h.popT⟩
    have hc0 := h.cur hc
    refine tclients_set h (fun _ _ _ hr => hr) (Nat.le_refl _) ⟨fun _ => ?_, fun _ got e ids scs hpc' => ?_⟩
    · rw [harr]; exact hc0.arr (QSys.cur_started hc)
    · rw [hpc] at hpc'; exact hc0.pend (QSys.cur_started hc) got e ids scs hpc'
  | other i c c' st' hc hnp hI hQ hcons hop hpc1 hpc2 hst harr hpop =>
    refine ⟨?_, h.popT⟩
    show ∀ (j : Nat) (cj : QClient), (g.sys.clients.set i c')[j]? = some cj → TC st'.pQueue g.sys.fresh g.sys.clock cj
    rw [hQ]
    exact tclients_set h (fun _ _ _ hr => hr) (Nat.le_refl _) (TC.ofNoExec (by rw [harr]; exact Int.le_refl _) hpc2)
  | enq i c c' p after before hc hcop hcpc hop hpc hst harr hpop =>
    refine ⟨?_, h.popT⟩
    show ∀ (j : Nat) (cj : QClient), (g.sys.clients.set i c')[j]? = some cj →
      TC (g.sys.store.pQueue.insert g.sys.fresh _) (g.sys.fresh + 1) g.sys.clock cj
    refine tclients_set h ?_ (Nat.le_succ _) (TC.ofNoExec (by rw [harr]; exact Int.le_refl _) (by rw [hpc]; intro x y z w hh; cases hh))
    intro id r hid
    rw [ExtTreeMap.getElem?_insert]
    have : ¬ g.sys.fresh = id := by omega
    simp only [compare_eq_iff_eq, this, if_false]
    exact fun hh => hh
  | range i c c' n got e hc hcop hcpc hop hpc hst harr hpop =>
    refine ⟨?_, h.popT⟩
    have hc0 := h.cur hc
    refine tclients_set h (fun _ _ _ hr => hr) (Nat.le_refl _) ⟨fun _ => by rw [harr]; exact Int.le_refl _, ?_⟩
    intro _ got' e' ids scs hpc' id hid
    rw [hpc] at hpc'
    split at hpc'
    · cases hpc'
    · cases hpc'
      obtain ⟨r, hr, hb⟩ := mem_zrangeUpTo hid
      have hra : r ≤ c.arrival := hb _ rfl
      have hac := hc0.arr (QSys.cur_started hc)
      refine ⟨hG.queueLt (mem_iff_getElem?_some.2 ⟨r, hr⟩), ?_⟩
      intro r' hr'
      rw [hr] at hr'; cases hr'
      exact Int.le_trans hra hac
  | exec i c c' n got e ids scs hc hcop hcpc hop hpc hst harr hpop =>
    have hc0 := h.cur hc
    refine ⟨?_, ?_⟩
    · show ∀ (j : Nat) (cj : QClient), (g.sys.clients.set i c')[j]? = some cj →
        TC (g.sys.store.popBatch ids).1.pQueue g.sys.fresh g.sys.clock cj
      refine tclients_set h ?_ (Nat.le_refl _) (TC.ofNoExec (by rw [harr]; exact Int.le_refl _) (by rw [hpc]; exact popNext_ne_popExec _ _ _ _ _))
      intro id r _
      rw [popBatch_pQueue]
      split
      · intro hh; cases hh
      · exact fun hh => hh
    · intro d hd
      rcases List.mem_append.1 hd with hd | hd
      · exact h.popT d hd
      · obtain ⟨id, hid, pe, hpe, rfl⟩ := mem_popRecs.1 hd
        have hq : id ∈ g.sys.store.pQueue := (hG.cons.prb id).2 (mem_iff_getElem?_some.2 ⟨pe, hpe⟩)
        obtain ⟨r, hr⟩ := mem_iff_getElem?_some.1 hq
        exact ⟨r, hr, (hc0.pend (QSys.cur_started hc) got e ids scs hcpc id hid).2 r hr, Int.le_refl _⟩

theorem TInv.tick {g : GSys} (h : TInv g) (d : Int) (hd : 0 ≤ d) : TInv (g.tick d) := by
  refine ⟨fun i c hc => (h.clients i c hc).mono (fun _ _ _ hr => hr) (Nat.le_refl _) ?_, ?_⟩
  · show g.sys.clock ≤ g.sys.clock + d
    omega
  · intro p hp
    obtain ⟨r, h1, h2, h3⟩ := h.popT p hp
    refine ⟨r, h1, h2, ?_⟩
    show p.clk ≤ g.sys.clock + d
    omega

/-- all tick amounts of an event list are non-negative: the clock is monotone -/
def Monotone (es : List QSysEv) : Prop := ∀ e ∈ es, e.ticksOk (fun d => 0 ≤ d)

theorem GTInv.run {g : GSys} (hG : GInv g) (hT : TInv g) (es : List QSysEv) (hm : Monotone es) : TInv (g.run es) :=
  (GSys.run_induction (fun g => GInv g ∧ TInv g) (fun d => 0 ≤ d) (fun _ h => h.1.okFor)
    (fun _ _ h hs => ⟨h.1.gstep hs, TInv.gstep h.1 h.2 hs⟩) (fun _ d h hd => ⟨h.1.tick d, h.2.tick d hd⟩) g es hm ⟨hG, hT⟩).2

theorem TInv.init {s : QSys} (h : s.Init) (harr : ∀ c ∈ s.clients, c.started = true → c.arrival ≤ s.clock) : TInv (GSys.init s) := by
  refine ⟨?_, fun d hd => (by cases hd)⟩
  intro i c hc
  have hm := List.mem_of_getElem? hc
  refine ⟨harr c hm, ?_⟩
  intro hs got e ids scs hpc
  rw [(h.clients c hm).2 hs] at hpc
  exact absurd hpc (QOp.begin_ne_popExec _ _ _ _ _)

/-! ## the id counter -/

/-- ids are handed out consecutively: the `k`-th accepted enqueue since a state with counter `f0` got id `f0 + k` -/
def FInv (f0 : Nat) (g : GSys) : Prop :=
  g.sys.fresh = f0 + g.enqs.length ∧ g.enqs.map (·.id) = List.range' f0 g.enqs.length

theorem FInv.gstep {f0 : Nat} {g g' : GSys} (h : FInv f0 g) (hs : GStep g g') : FInv f0 g' := by
  cases hs with
  | same => exact h
  | setc => exact h
  | other => exact h
  | range => exact h
  | exec => exact h
  | enq i c c' p after before hc hcop hcpc hop hpc hst harr hpop =>
    obtain ⟨h1, h2⟩ := h
    refine ⟨?_, ?_⟩
    · show g.sys.fresh + 1 = f0 + (g.enqs ++ [_]).length
      rw [List.length_append, h1]; simp; omega
    · show (g.enqs ++ [_]).map GEnq.id = List.range' f0 (g.enqs ++ [_]).length
      rw [List.map_append, h2, List.length_append, List.length_singleton, List.range'_concat]
      simp [h1]

theorem GFInv.run {f0 : Nat} {g : GSys} (hG : GInv g) (hF : FInv f0 g) (es : List QSysEv) : FInv f0 (g.run es) :=
  (GSys.run_induction (fun g => GInv g ∧ FInv f0 g) (fun _ => True) (fun _ h => h.1.okFor)
    (fun _ _ h hs => ⟨h.1.gstep hs, h.2.gstep hs⟩) (fun _ d h _ => ⟨h.1.tick d, h.2⟩) g es
    (fun e _ => by cases e <;> trivial) ⟨hG, hF⟩).2

/-! ## `Consistent` along every run of the model itself (no ghost state, any initial clients) -/

theorem QSys.stepClient_consistent {s : QSys} (h : Consistent s.store) (i : Nat) (b : Bool) :
    Consistent (s.stepClient i b).1.store := by
  cases hc : s.cur i with
  | none => rw [QSys.stepClient_none b hc]; exact h
  | some c =>
    by_cases hl : c.pc.live = true
    · rw [QSys.stepClient_live b hc hl]; exact qstep_consistent h _ _ _ _
    · rw [QSys.stepClient_stall b hc (by simpa using hl)]; exact h

theorem QSys.runClient_consistent {s : QSys} (h : Consistent s.store) (i : Nat) (tr : List String) (fuel : Nat) :
    Consistent (s.runClient i tr fuel).1.store := by
  induction fuel generalizing s tr with
  | zero => exact h
  | succ n ih =>
    unfold QSys.runClient
    have hs : s.stepClient i false = ((s.stepClient i false).1, (s.stepClient i false).2) := rfl
    rw [hs]
    cases (s.stepClient i false).2 with
    | none => exact QSys.stepClient_consistent h i false
    | some l => exact ih (QSys.stepClient_consistent h i false) _

theorem QSys.stepT_consistent {s : QSys} (h : Consistent s.store) (tr : List String) (e : QSysEv) :
    Consistent (s.stepT tr e).1.store := by
  cases e with
  | tick d => exact h
  | step i =>
    simp only [QSys.stepT]
    have := QSys.stepClient_consistent h i false
    generalize s.stepClient i false = r at this
    obtain ⟨s', l⟩ := r
    cases l <;> exact this
  | run i => exact QSys.runClient_consistent h i tr 200
  | crashBefore i =>
    simp only [QSys.stepT]
    split
    · split <;> exact h
    · exact h
  | crashAfter i =>
    simp only [QSys.stepT]
    split
    · split
      · have := QSys.stepClient_consistent h i true
        generalize s.stepClient i true = r at this
        obtain ⟨s', l⟩ := r
        cases l <;> exact this
      · exact h
    · exact h

theorem QSys.fold_consistent {s : QSys} (h : Consistent s.store) (tr : List String) (es : List QSysEv) :
    Consistent (es.foldl (fun (acc : QSys × List String) e => acc.1.stepT acc.2 e) (s, tr)).1.store := by
  induction es generalizing s tr with
  | nil => exact h
  | cons e es ih => exact ih (QSys.stepT_consistent h tr e) _

theorem QSys.run_consistent {s : QSys} (h : Consistent s.store) (es : List QSysEv) : Consistent (s.run es).store :=
  QSys.fold_consistent h [] es

theorem QSys.finish_consistent {s : QSys} (h : Consistent s.store) (tr : List String) (fuel : Nat) :
    Consistent (s.finish tr fuel).1.store := by
  induction fuel generalizing s tr with
  | zero => exact h
  | succ n ih =>
    unfold QSys.finish
    simp only
    split
    · have := QSys.fold_consistent (s := { s with clients := s.clients.map fun (c : QClient) => if c.dead then c else c.start s.clock }) h tr
        ((List.range (s.clients.map fun (c : QClient) => if c.dead then c else c.start s.clock).length).map QSysEv.step)
      rw [List.foldl_map] at this
      exact ih this _
    · exact h

/-! ## a list whose image under `f` has no duplicates -/

theorem eq_of_nodup_map {α β : Type} {f : α → β} {l : List α} (h : (l.map f).Nodup) {a b : α}
    (ha : a ∈ l) (hb : b ∈ l) (hab : f a = f b) : a = b := by
  induction l with
  | nil => cases ha
  | cons x xs ih =>
    rw [List.map_cons, List.nodup_cons] at h
    rcases List.mem_cons.1 ha with rfl | ha' <;> rcases List.mem_cons.1 hb with rfl | hb'
    · rfl
    · exact absurd (List.mem_map.2 ⟨b, hb', hab.symm⟩) h.1
    · exact absurd (List.mem_map.2 ⟨a, ha', hab⟩) h.1
    · exact ih h.2 ha' hb'

/-! ## order of `zrangeUpTo` -/

/-- `(score, id)` order of queue entries -/
def zlt (y x : Nat × Int) : Prop := y.2 < x.2 ∨ (y.2 = x.2 ∧ y.1 < x.1)

theorem zlt_trans {a b c : Nat × Int} (h1 : zlt a b) (h2 : zlt b c) : zlt a c := by
  unfold zlt at *; omega

theorem zlt_of_not {a b : Nat × Int} (h : ¬ zlt a b) (hne : a.1 ≠ b.1) : zlt b a := by
  unfold zlt at *; omega

theorem zins_sorted (x : Nat × Int) (acc : List (Nat × Int)) (hs : acc.Pairwise zlt) (hne : ∀ y ∈ acc, y.1 ≠ x.1) :
    (zins x acc).Pairwise zlt := by
  rw [zins_eq]
  have hdrop : ∀ z ∈ acc.dropWhile (fun y => Decidable.decide (y.2 < x.2 ∨ (y.2 = x.2 ∧ y.1 < x.1))), zlt x z := by
    induction acc with
    | nil => intro z hz; cases hz
    | cons h t ih =>
      intro z hz
      rw [List.pairwise_cons] at hs
      rw [List.dropWhile_cons] at hz
      by_cases hp : (h.2 < x.2 ∨ (h.2 = x.2 ∧ h.1 < x.1))
      · simp only [hp, decide_true, if_true] at hz
        exact ih hs.2 (fun y hy => hne y (List.mem_cons_of_mem _ hy)) z hz
      · simp only [hp, decide_false] at hz
        have hxh : zlt x h := zlt_of_not hp (hne h List.mem_cons_self)
        rcases List.mem_cons.1 hz with rfl | hz'
        · exact hxh
        · exact zlt_trans hxh (hs.1 z hz')
  rw [List.pairwise_append]
  refine ⟨hs.sublist (List.takeWhile_sublist _), ?_, ?_⟩
  · rw [List.pairwise_cons]
    exact ⟨hdrop, hs.sublist (List.dropWhile_sublist _)⟩
  · intro a ha b hb
    have hax : zlt a x := by
      have := List.all_eq_true.1 (List.all_takeWhile (l := acc) (p := fun y => Decidable.decide (y.2 < x.2 ∨ (y.2 = x.2 ∧ y.1 < x.1)))) a ha
      simpa [zlt] using this
    rcases List.mem_cons.1 hb with rfl | hb'
    · exact hax
    · exact zlt_trans hax (hdrop b hb')

theorem zsort_sorted (sel : List (Nat × Int)) (hnd : (sel.map (·.1)).Nodup) : (zsort sel).Pairwise zlt := by
  induction sel with
  | nil => exact List.Pairwise.nil
  | cons x xs ih =>
    rw [List.map_cons, List.nodup_cons] at hnd
    show (zins x (zsort xs)).Pairwise zlt
    refine zins_sorted x _ (ih hnd.2) ?_
    intro y hy hyx
    have hy' : y ∈ xs := (zsort_perm xs).mem_iff.1 hy
    exact hnd.1 (hyx ▸ List.mem_map.2 ⟨y, hy', rfl⟩)

/-- order relation between two ids as long as both are still in the score map -/
def QLt (m : ExtTreeMap Nat Int) (y z : Nat) : Prop :=
  ∀ ry rz, m[y]? = some ry → m[z]? = some rz → zlt (y, ry) (z, rz)

theorem zall_sorted (m : ExtTreeMap Nat Int) (hi : Option Int) : (zall m hi).Pairwise (QLt m) := by
  unfold zall
  rw [List.pairwise_map]
  refine List.Pairwise.imp_of_mem ?_ (zsort_sorted _ (zsel_keys_nodup m hi))
  intro a b ha hb hab ry rz hry hrz
  have ha' := (mem_zsel.1 ((zsort_perm _).mem_iff.1 ha)).1
  have hb' := (mem_zsel.1 ((zsort_perm _).mem_iff.1 hb)).1
  rw [ha'] at hry; rw [hb'] at hrz
  cases hry; cases hrz
  exact hab

/-- the ids a `ZRANGEBYSCORE −inf..b LIMIT 0 k` returns are in `(score, id)` order, and every one of them precedes every
queued id that was not returned -/
theorem zrangeUpTo_order (m : ExtTreeMap Nat Int) (b : Int) (k : Nat) :
    (zrangeUpTo m (some b) (some k)).Pairwise (QLt m) ∧
    ∀ y ∈ zrangeUpTo m (some b) (some k), ∀ x, x ∉ zrangeUpTo m (some b) (some k) → QLt m y x := by
  have hs := zall_sorted m (some b)
  rw [zrangeUpTo_eq]
  show ((zall m (some b)).take k).Pairwise (QLt m) ∧ ∀ y ∈ (zall m (some b)).take k, ∀ x, x ∉ (zall m (some b)).take k → QLt m y x
  refine ⟨hs.sublist (List.take_sublist _ _), ?_⟩
  intro y hy x hx ry rx hry hrx
  by_cases hrb : rx ≤ b
  · have hxa : x ∈ zall m (some b) := mem_zall.2 ⟨rx, hrx, fun h hh => by cases hh; exact hrb⟩
    rw [← List.take_append_drop k (zall m (some b))] at hxa hs
    rcases List.mem_append.1 hxa with h1 | h1
    · exact absurd h1 hx
    · exact (List.pairwise_append.1 hs).2.2 y hy x h1 ry rx hry hrx
  · obtain ⟨r, hr, hb⟩ := mem_zall.1 ((List.take_sublist _ _).subset hy)
    rw [hry] at hr; cases hr
    have := hb b rfl
    left; show ry < rx; omega

/-! ## batch order invariant -/

/-- `(score, id)` order between two pop records -/
def PLt (a b : GPop) : Prop := ∀ ra rb, a.ready = some ra → b.ready = some rb → zlt (a.id, ra) (b.id, rb)

/-- a pop record precedes a queued id -/
def PQLt (m : ExtTreeMap Nat Int) (d : GPop) (x : Nat) : Prop :=
  ∀ rd rx, d.ready = some rd → m[x]? = some rx → zlt (d.id, rd) (x, rx)

def myPops (i : Nat) (pops : List GPop) : List GPop := pops.filter fun d => d.client == i

theorem QLt.mono {m m' : ExtTreeMap Nat Int} {y z : Nat} (h : QLt m y z)
    (hy : ∀ r, m'[y]? = some r → m[y]? = some r) (hz : ∀ r, m'[z]? = some r → m[z]? = some r) : QLt m' y z :=
  fun ry rz h1 h2 => h ry rz (hy ry h1) (hz rz h2)

/-- the records consumer `i` has popped are in `(score, id)` order, all precede everything still queued, and the ids it is
about to pop (between a range and its batch) are in order and precede every other queued id -/
structure SInv (g : GSys) (i : Nat) : Prop where
  sorted : (myPops i g.pops).Pairwise PLt
  below : ∀ d ∈ myPops i g.pops, ∀ x, PQLt g.sys.store.pQueue d x
  pend : ∀ c got e ids scs, g.sys.clients[i]? = some c → c.started = true → c.pc = .popExec got e ids scs →
    ids.Pairwise (QLt g.sys.store.pQueue) ∧ ∀ y ∈ ids, ∀ x, x ∉ ids → QLt g.sys.store.pQueue y x

theorem QSys.cur_popExec {s : QSys} {i : Nat} {c : QClient} {got : List (Probe × Int)} {e : Nat} {ids : List Nat} {scs : List Int}
    (h : s.cur i = some c) (hpc : c.pc = .popExec got e ids scs) :
    ∃ c0, s.clients[i]? = some c0 ∧ c0.started = true ∧ c0.pc = .popExec got e ids scs := by
  obtain ⟨c0, h0, _, rfl⟩ := QSys.cur_some h
  refine ⟨c0, h0, ?_⟩
  unfold QClient.start at hpc
  by_cases hs : c0.started = true
  · simp only [hs, if_true] at hpc; exact ⟨hs, hpc⟩
  · simp only [hs] at hpc
    exact absurd hpc (QOp.begin_ne_popExec _ _ _ _ _)

theorem SInv.cur {g : GSys} {i : Nat} (h : SInv g i) {c : QClient} {got : List (Probe × Int)} {e : Nat} {ids : List Nat} {scs : List Int}
    (hc : g.sys.cur i = some c) (hpc : c.pc = .popExec got e ids scs) :
    ids.Pairwise (QLt g.sys.store.pQueue) ∧ ∀ y ∈ ids, ∀ x, x ∉ ids → QLt g.sys.store.pQueue y x := by
  obtain ⟨c0, h0, hs, hp⟩ := QSys.cur_popExec hc hpc
  exact h.pend c0 got e ids scs h0 hs hp

theorem set_getElem?_cases {α : Type} {l : List α} {j i : Nat} {a ci : α} (h : (l.set j a)[i]? = some ci) :
    (j = i ∧ ci = a) ∨ (j ≠ i ∧ l[i]? = some ci) := by
  rw [List.getElem?_set] at h
  by_cases hji : j = i
  · subst hji
    simp only [if_true] at h
    split at h
    · cases h; exact Or.inl ⟨rfl, rfl⟩
    · cases h
  · simp only [hji, if_false] at h
    exact Or.inr ⟨hji, h⟩

theorem myPops_append_other {i j : Nat} (pops new : List GPop) (hnew : ∀ d ∈ new, d.client = j) (hji : j ≠ i) :
    myPops i (pops ++ new) = myPops i pops := by
  unfold myPops
  rw [List.filter_append]
  have : new.filter (fun d => d.client == i) = [] := by
    rw [List.filter_eq_nil_iff]
    intro d hd
    have := hnew d hd
    simp [this, hji]
  rw [this, List.append_nil]

theorem myPops_append_self {i : Nat} (pops new : List GPop) (hnew : ∀ d ∈ new, d.client = i) :
    myPops i (pops ++ new) = myPops i pops ++ new := by
  unfold myPops
  rw [List.filter_append]
  congr 1
  rw [List.filter_eq_self]
  intro d hd
  simp [hnew d hd]

theorem popRecs_sorted {s : QSys} {i : Nat} {ids : List Nat} (h : ids.Pairwise (QLt s.store.pQueue)) :
    (s.popRecs i ids).Pairwise PLt := by
  unfold QSys.popRecs
  refine List.Pairwise.filterMap _ ?_ h
  intro y z hyz b hb b' hb'
  simp only [Option.map_eq_some_iff] at hb hb'
  obtain ⟨pe, _, rfl⟩ := hb
  obtain ⟨pe', _, rfl⟩ := hb'
  exact hyz

theorem SInv.gstep {g g' : GSys} {i : Nat} (hG : GInv g) (h : SInv g i) (hs : GStep g g')
    (henq : ∀ e, g'.enqs = g.enqs ++ [e] → TInv g ∧ e.clk ≤ e.ready) : SInv g' i := by
  cases hs with
  | same => exact h
  | setc j c c' hc hop hpc hst harr hpop =>
    refine ⟨h.sorted, h.below, ?_⟩
    intro ci got e ids scs hci hsi hpi
    rcases set_getElem?_cases hci with ⟨rfl, rfl⟩ | ⟨_, hci'⟩
    · rw [hpc] at hpi; exact h.cur hc hpi
    · exact h.pend ci got e ids scs hci' hsi hpi
  | other j c c' st' hc hnp hI hQ hcons hop hpc1 hpc2 hst harr hpop =>
    refine ⟨h.sorted, ?_, ?_⟩
    · show ∀ d ∈ myPops i g.pops, ∀ x, PQLt st'.pQueue d x
      rw [hQ]; exact h.below
    · intro ci got e ids scs hci hsi hpi
      show ids.Pairwise (QLt st'.pQueue) ∧ ∀ y ∈ ids, ∀ x, x ∉ ids → QLt st'.pQueue y x
      rw [hQ]
      rcases set_getElem?_cases hci with ⟨rfl, rfl⟩ | ⟨_, hci'⟩
      · exact absurd hpi (hpc2 _ _ _ _)
      · exact h.pend ci got e ids scs hci' hsi hpi
  | range j c c' n got e hc hcop hcpc hop hpc hst harr hpop =>
    refine ⟨h.sorted, h.below, ?_⟩
    intro ci got' e' ids scs hci hsi hpi
    rcases set_getElem?_cases hci with ⟨rfl, rfl⟩ | ⟨_, hci'⟩
    · rw [hpc] at hpi
      split at hpi
      · cases hpi
      · cases hpi
        exact zrangeUpTo_order _ _ _
    · exact h.pend ci got' e' ids scs hci' hsi hpi
  | enq j c c' p after before hc hcop hcpc hop hpc hst harr hpop =>
    obtain ⟨hT, hle⟩ := henq _ rfl
    have hle : g.sys.clock ≤ readyOf after c.arrival := hle
    have hget : ∀ (x : Nat) (rx : Int), (g.sys.store.pQueue.insert g.sys.fresh (readyOf after c.arrival))[x]? = some rx →
        (x = g.sys.fresh ∧ rx = readyOf after c.arrival) ∨ (x ≠ g.sys.fresh ∧ g.sys.store.pQueue[x]? = some rx) := by
      intro x rx
      rw [ExtTreeMap.getElem?_insert]
      by_cases hx : g.sys.fresh = x
      · subst hx
        simp only [compare_eq_iff_eq, if_true, Option.some.injEq]
        intro hh; exact Or.inl ⟨trivial, hh.symm⟩
      · simp only [compare_eq_iff_eq, hx, if_false]
        intro hh; exact Or.inr ⟨fun e => hx e.symm, hh⟩
    refine ⟨h.sorted, ?_, ?_⟩
    · intro d hd x rd rx hrd hrx
      have hdp : d ∈ g.pops := (List.mem_filter.1 hd).1
      rcases hget x rx hrx with ⟨rfl, rfl⟩ | ⟨_, hrx'⟩
      · obtain ⟨r, h1, h2, h3⟩ := hT.popT d hdp
        rw [hrd] at h1; cases h1
        have hlt := hG.popLt (List.mem_map.2 ⟨d, hdp, rfl⟩)
        show rd < readyOf after c.arrival ∨ (rd = readyOf after c.arrival ∧ d.id < g.sys.fresh)
        omega
      · exact h.below d hd x rd rx hrd hrx'
    · intro ci got e ids scs hci hsi hpi
      rcases set_getElem?_cases hci with ⟨rfl, rfl⟩ | ⟨_, hci'⟩
      · rw [hpc] at hpi; cases hpi
      · obtain ⟨h1, h2⟩ := h.pend ci got e ids scs hci' hsi hpi
        have hold := (hT.clients i ci hci').pend hsi got e ids scs hpi
        have hsame : ∀ y ∈ ids, ∀ r, (g.sys.store.pQueue.insert g.sys.fresh (readyOf after c.arrival))[y]? = some r →
            g.sys.store.pQueue[y]? = some r := by
          intro y hy r hr
          rcases hget y r hr with ⟨hyf, _⟩ | ⟨_, hr'⟩
          · exact absurd (hyf ▸ (hold y hy).1) (Nat.lt_irrefl _)
          · exact hr'
        refine ⟨?_, ?_⟩
        · exact List.Pairwise.imp_of_mem (fun {a b} hy hz hyz => hyz.mono (hsame a hy) (hsame b hz)) h1
        · intro y hy x hx ry rx hry hrx
          have hry' := hsame y hy ry hry
          rcases hget x rx hrx with ⟨rfl, rfl⟩ | ⟨_, hrx'⟩
          · have := (hold y hy).2 ry hry'
            have := (hold y hy).1
            show ry < readyOf after c.arrival ∨ (ry = readyOf after c.arrival ∧ y < g.sys.fresh)
            omega
          · exact h2 y hy x hx ry rx hry' hrx'
  | exec j c c' n got e ids scs hc hcop hcpc hop hpc hst harr hpop =>
    have hsub : ∀ (x : Nat) (r : Int), (g.sys.store.popBatch ids).1.pQueue[x]? = some r → x ∉ ids ∧ g.sys.store.pQueue[x]? = some r := by
      intro x r
      rw [popBatch_pQueue]
      split
      · intro hh; cases hh
      · rename_i hx; exact fun hh => ⟨hx, hh⟩
    by_cases hji : j = i
    · subst hji
      obtain ⟨hA, hB⟩ := h.cur hc hcpc
      have hmy : myPops j (g.pops ++ g.sys.popRecs j ids) = myPops j g.pops ++ g.sys.popRecs j ids :=
        myPops_append_self _ _ (fun d hd => popRecs_client hd)
      refine ⟨?_, ?_, ?_⟩
      · show (myPops j (g.pops ++ g.sys.popRecs j ids)).Pairwise PLt
        rw [hmy, List.pairwise_append]
        refine ⟨h.sorted, popRecs_sorted hA, ?_⟩
        intro a ha b hb
        obtain ⟨y, _, pe, _, rfl⟩ := mem_popRecs.1 hb
        exact h.below a ha y
      · show ∀ d ∈ myPops j (g.pops ++ g.sys.popRecs j ids), ∀ x, PQLt (g.sys.store.popBatch ids).1.pQueue d x
        rw [hmy]
        intro d hd x rd rx hrd hrx
        obtain ⟨hx, hrx'⟩ := hsub x rx hrx
        rcases List.mem_append.1 hd with hd | hd
        · exact h.below d hd x rd rx hrd hrx'
        · obtain ⟨y, hy, pe, _, rfl⟩ := mem_popRecs.1 hd
          exact hB y hy x hx rd rx hrd hrx'
      · intro ci got' e' ids' scs' hci hsi hpi
        rcases set_getElem?_cases hci with ⟨_, rfl⟩ | ⟨hne, _⟩
        · rw [hpc] at hpi; exact absurd hpi (popNext_ne_popExec _ _ _ _ _ _ _ _ _)
        · exact absurd rfl hne
    · have hmy : myPops i (g.pops ++ g.sys.popRecs j ids) = myPops i g.pops :=
        myPops_append_other _ _ (fun d hd => popRecs_client hd) hji
      refine ⟨?_, ?_, ?_⟩
      · show (myPops i (g.pops ++ g.sys.popRecs j ids)).Pairwise PLt
        rw [hmy]; exact h.sorted
      · show ∀ d ∈ myPops i (g.pops ++ g.sys.popRecs j ids), ∀ x, PQLt (g.sys.store.popBatch ids).1.pQueue d x
        rw [hmy]
        intro d hd x rd rx hrd hrx
        exact h.below d hd x rd rx hrd (hsub x rx hrx).2
      · intro ci got' e' ids' scs' hci hsi hpi
        rcases set_getElem?_cases hci with ⟨hji', _⟩ | ⟨_, hci'⟩
        · exact absurd hji' hji
        · obtain ⟨h1, h2⟩ := h.pend ci got' e' ids' scs' hci' hsi hpi
          exact ⟨h1.imp (fun hyz => hyz.mono (fun r hr => (hsub _ r hr).2) (fun r hr => (hsub _ r hr).2)),
            fun y hy x hx => (h2 y hy x hx).mono (fun r hr => (hsub _ r hr).2) (fun r hr => (hsub _ r hr).2)⟩

theorem GStep.enqs {g g' : GSys} (hs : GStep g g') : g'.enqs = g.enqs ∨ ∃ e, g'.enqs = g.enqs ++ [e] := by
  cases hs with
  | enq => exact Or.inr ⟨_, rfl⟩
  | _ => exact Or.inl rfl

/-- enqueues from log position `L` on have a ready time that is not in the past when they execute -/
def LateOK (L : Nat) (enqs : List GEnq) : Prop := ∀ (k : Nat) (e : GEnq), L ≤ k → enqs[k]? = some e → e.clk ≤ e.ready

theorem LateOK.prefix {L : Nat} {a b : List GEnq} (h : LateOK L (a ++ b)) : LateOK L a := by
  intro k e hk he
  have hlt : k < a.length := by
    rcases Nat.lt_or_ge k a.length with h1 | h1
    · exact h1
    · rw [List.getElem?_eq_none h1] at he; cases he
  exact h k e hk (by rw [List.getElem?_append_left hlt]; exact he)

/-- invariant for `batch_sorted_conc` -/
def ConcInv (L i : Nat) (g : GSys) : Prop :=
  GInv g ∧ TInv g ∧ L ≤ g.enqs.length ∧ (LateOK L g.enqs → SInv g i)

theorem ConcInv.gstep {L i : Nat} {g g' : GSys} (h : ConcInv L i g) (hs : GStep g g') : ConcInv L i g' := by
  obtain ⟨hG, hT, hL, hS⟩ := h
  refine ⟨hG.gstep hs, hT.gstep hG hs, ?_, ?_⟩
  · rcases hs.enqs with h1 | ⟨e, h1⟩ <;> rw [h1]
    · exact hL
    · rw [List.length_append]; omega
  · intro hok
    rcases hs.enqs with h1 | ⟨e, h1⟩
    · rw [h1] at hok
      refine (hS hok).gstep hG hs ?_
      intro e' he'
      rw [h1] at he'
      have := congrArg List.length he'
      simp at this
    · rw [h1] at hok
      refine (hS hok.prefix).gstep hG hs ?_
      intro e' he'
      rw [h1] at he'
      have he : e' = e := by simpa using he'.symm
      subst he
      exact ⟨hT, hok g.enqs.length e' hL (by simp)⟩

theorem ConcInv.run {L i : Nat} {g : GSys} (h : ConcInv L i g) (es : List QSysEv) (hm : Monotone es) : ConcInv L i (g.run es) :=
  GSys.run_induction (ConcInv L i) (fun d => 0 ≤ d) (fun _ h => h.1.okFor) (fun _ _ h hs => h.gstep hs)
    (fun _ d h hd => ⟨h.1.tick d, h.2.1.tick d hd, h.2.2.1, fun hok => ⟨(h.2.2.2 hok).sorted, (h.2.2.2 hok).below, (h.2.2.2 hok).pend⟩⟩)
    g es hm h

/-- invariant for `batch_sorted_seq` (no assumption on the clock) -/
def SeqInv (L i : Nat) (g : GSys) : Prop :=
  GInv g ∧ L ≤ g.enqs.length ∧ (g.enqs.length ≤ L → SInv g i)

theorem SeqInv.gstep {L i : Nat} {g g' : GSys} (h : SeqInv L i g) (hs : GStep g g') : SeqInv L i g' := by
  obtain ⟨hG, hL, hS⟩ := h
  refine ⟨hG.gstep hs, ?_, ?_⟩
  · rcases hs.enqs with h1 | ⟨e, h1⟩ <;> rw [h1]
    · exact hL
    · rw [List.length_append]; omega
  · intro hle
    rcases hs.enqs with h1 | ⟨e, h1⟩
    · rw [h1] at hle
      refine (hS hle).gstep hG hs ?_
      intro e' he'
      rw [h1] at he'
      have := congrArg List.length he'
      simp at this
    · rw [h1, List.length_append] at hle
      simp at hle
      omega

theorem SeqInv.run {L i : Nat} {g : GSys} (h : SeqInv L i g) (es : List QSysEv) : SeqInv L i (g.run es) :=
  GSys.run_induction (SeqInv L i) (fun _ => True) (fun _ h => h.1.okFor) (fun _ _ h hs => h.gstep hs)
    (fun _ d h _ => ⟨h.1.tick d, h.2.1, fun hle => ⟨(h.2.2 hle).sorted, (h.2.2 hle).below, (h.2.2 hle).pend⟩⟩)
    g es (fun e _ => by cases e <;> trivial) h

/-- a consumer that has popped nothing and is not between a range and its batch satisfies the order invariant -/
theorem SInv.ofFresh {g : GSys} {i : Nat} (hfresh : ∀ d ∈ g.pops, d.client ≠ i)
    (hnot : ∀ c got e ids scs, g.sys.clients[i]? = some c → c.started = true → c.pc ≠ .popExec got e ids scs) : SInv g i := by
  have : myPops i g.pops = [] := by
    unfold myPops
    rw [List.filter_eq_nil_iff]
    intro d hd; simp [hfresh d hd]
  refine ⟨(by rw [this]; exact List.Pairwise.nil), (by rw [this]; intro d hd; cases hd), ?_⟩
  intro c got e ids scs hc hs hpc
  exact absurd hpc (hnot c got e ids scs hc hs)

theorem GSys.run_append (g : GSys) (es1 es2 : List QSysEv) : g.run (es1 ++ es2) = (g.run es1).run es2 := by
  unfold GSys.run; rw [List.foldl_append]

/-- from the order invariant to the order of the returned batch -/
theorem SInv.batch {g : GSys} {i : Nat} (hG : GInv g) (h : SInv g i) :
    (g.pops.filter fun d => d.client == i && d.returned).Pairwise
      fun a b => ∃ ra rb, a.ready = some ra ∧ b.ready = some rb ∧ ra ≤ rb := by
  have hsub : (g.pops.filter fun d => d.client == i && d.returned).Sublist (myPops i g.pops) := by
    have : (g.pops.filter fun d => d.client == i && d.returned) = (myPops i g.pops).filter (fun d => d.returned) := by
      unfold myPops
      rw [List.filter_filter]
      congr 1; funext d; exact Bool.and_comm _ _
    rw [this]; exact List.filter_sublist
  refine List.Pairwise.imp_of_mem ?_ (h.sorted.sublist hsub)
  intro a b ha hb hab
  have hap : a ∈ g.pops := (List.mem_filter.1 ha).1
  have hbp : b ∈ g.pops := (List.mem_filter.1 hb).1
  obtain ⟨ea, _, _, _, _, hra⟩ := hG.popSrc a hap
  obtain ⟨eb, _, _, _, _, hrb⟩ := hG.popSrc b hbp
  refine ⟨_, _, hra, hrb, ?_⟩
  have := hab _ _ hra hrb
  unfold zlt at this
  simp only at this
  omega

/-! ## the driver's completion phase -/

/-- start every client that is not dead (no command is executed) -/
def GSys.startAll (g : GSys) : GSys :=
  { g with sys := { g.sys with clients := g.sys.clients.map fun (c : QClient) => if c.dead then c else c.start g.sys.clock } }

/-- ghost version of `QSys.finish` -/
def GSys.finish (g : GSys) : Nat → GSys
  | 0 => g
  | fuel + 1 =>
    if g.startAll.sys.clients.any (fun (c : QClient) => !c.dead && c.pc.live) then
      GSys.finish (g.startAll.run ((List.range g.startAll.sys.clients.length).map QSysEv.step)) fuel
    else g.startAll

theorem GSys.finish_sys (g : GSys) (tr : List String) (fuel : Nat) : (g.finish fuel).sys = (g.sys.finish tr fuel).1 := by
  induction fuel generalizing g tr with
  | zero => rfl
  | succ n ih =>
    unfold GSys.finish QSys.finish
    simp only
    split
    · rename_i hany
      have hany' : (g.sys.clients.map fun (c : QClient) => if c.dead then c else c.start g.sys.clock).any (fun (c : QClient) => !c.dead && c.pc.live) = true := hany
      simp only [hany', if_true]
      have hrun := GSys.run_sys g.startAll ((List.range g.startAll.sys.clients.length).map QSysEv.step) tr
      rw [List.foldl_map] at hrun
      rw [ih _ ((List.range g.startAll.sys.clients.length).foldl (fun (acc : QSys × List String) i => acc.1.stepT acc.2 (.step i)) (g.startAll.sys, tr)).2, hrun]
      rfl
    · rename_i hany
      have hany' : ¬ (g.sys.clients.map fun (c : QClient) => if c.dead then c else c.start g.sys.clock).any (fun (c : QClient) => !c.dead && c.pc.live) = true := hany
      simp only [hany']
      rfl

theorem GSys.finish_induction (Inv : GSys → Prop) (hstart : ∀ g, Inv g → Inv g.startAll)
    (hrun : ∀ g (is : List Nat), Inv g → Inv (g.run (is.map QSysEv.step))) (g : GSys) (fuel : Nat) (h : Inv g) :
    Inv (g.finish fuel) := by
  induction fuel generalizing g with
  | zero => exact h
  | succ n ih =>
    unfold GSys.finish
    split
    · exact ih _ (hrun _ _ (hstart g h))
    · exact hstart g h

theorem startAll_getElem? {g : GSys} {i : Nat} {c : QClient} (h : g.startAll.sys.clients[i]? = some c) :
    ∃ c0, g.sys.clients[i]? = some c0 ∧ (c = c0 ∨ c = c0.start g.sys.clock) := by
  have h' : (g.sys.clients.map fun (c : QClient) => if c.dead then c else c.start g.sys.clock)[i]? = some c := h
  rw [List.getElem?_map] at h'
  cases hc : g.sys.clients[i]? with
  | none => rw [hc] at h'; cases h'
  | some c0 =>
    rw [hc] at h'
    simp only [Option.map_some, Option.some.injEq] at h'
    refine ⟨c0, rfl, ?_⟩
    split at h'
    · exact Or.inl h'.symm
    · exact Or.inr h'.symm

theorem GInv.startAll {g : GSys} (h : GInv g) : GInv g.startAll := by
  refine ⟨h.cons, h.lt, h.enqLt, h.enqInc, h.cover, h.popNodup, h.popOut, h.src, h.popSrc, h.popRet, ?_, ?_⟩
  · intro i c hc
    obtain ⟨c0, h0, rfl | rfl⟩ := startAll_getElem? hc
    · exact h.clients i _ h0
    · exact (h.clients i c0 h0).start _
  · intro i c hc
    obtain ⟨c0, h0, rfl | rfl⟩ := startAll_getElem? hc
    · exact h.scores i _ h0
    · exact (h.scores i c0 h0).start _

theorem TInv.startAll {g : GSys} (h : TInv g) : TInv g.startAll := by
  refine ⟨?_, h.popT⟩
  intro i c hc
  obtain ⟨c0, h0, rfl | rfl⟩ := startAll_getElem? hc
  · exact h.clients i _ h0
  · exact (h.clients i c0 h0).start

theorem GInv.finish {g : GSys} (h : GInv g) (fuel : Nat) : GInv (g.finish fuel) :=
  GSys.finish_induction GInv (fun _ h => h.startAll) (fun _ _ h => h.run _) g fuel h

theorem GTInv.finish {g : GSys} (hG : GInv g) (hT : TInv g) (fuel : Nat) : TInv (g.finish fuel) :=
  (GSys.finish_induction (fun g => GInv g ∧ TInv g) (fun _ h => ⟨h.1.startAll, h.2.startAll⟩)
    (fun _ is h => ⟨h.1.run _, GTInv.run h.1 h.2 _ (by
      intro e he
      obtain ⟨i, _, rfl⟩ := List.mem_map.1 he
      trivial)⟩) g fuel ⟨hG, hT⟩).2

end Swat4
