import Swat4.Lemmas.GS1
/-! Lemmas about `collectPayload`: the sorted association list, order independence, completion. -/
namespace Swat4.GS1
open Swat4

/-! ## the key-sorted association list over `Int` keys -/

theorem insertKV_comm {α : Type} (k1 k2 : Int) (v1 v2 : α) (m : List (Int × α)) (h : k1 ≠ k2) :
    insertKV k1 v1 (insertKV k2 v2 m) = insertKV k2 v2 (insertKV k1 v1 m) := by
  induction m with
  | nil => grind [insertKV]
  | cons hd t ih =>
    obtain ⟨k, v⟩ := hd
    grind [insertKV]

def keysOf {α : Type} (m : List (Int × α)) : List Int := m.map (·.1)

theorem insertKV_keys_mem {α : Type} (k : Int) (v : α) (m : List (Int × α)) (x : Int) :
    x ∈ keysOf (insertKV k v m) ↔ x = k ∨ x ∈ keysOf m := by
  induction m with
  | nil => simp [insertKV, keysOf]
  | cons hd t ih =>
    obtain ⟨k', v'⟩ := hd
    simp only [insertKV]
    split
    · simp [keysOf]
    · split
      · rename_i h; subst h; simp [keysOf]
      · simp only [keysOf, List.map_cons, List.mem_cons] at ih ⊢
        rw [ih]
        constructor
        · rintro (h | h | h) <;> simp [h]
        · rintro (h | h | h) <;> simp [h]

theorem insertKV_sorted {α : Type} (k : Int) (v : α) (m : List (Int × α)) (h : (keysOf m).Pairwise (· < ·)) :
    (keysOf (insertKV k v m)).Pairwise (· < ·) := by
  induction m with
  | nil => simp [insertKV, keysOf]
  | cons hd t ih =>
    obtain ⟨k', v'⟩ := hd
    simp only [keysOf, List.map_cons, List.pairwise_cons] at h
    simp only [insertKV]
    split
    · rename_i hlt
      simp only [keysOf, List.map_cons, List.pairwise_cons]
      refine ⟨?_, h⟩
      intro x hx
      rcases List.mem_cons.mp hx with rfl | hx
      · exact hlt
      · have := h.1 x hx; omega
    · split
      · rename_i h2; subst h2
        simp only [keysOf, List.map_cons, List.pairwise_cons]; exact h
      · rename_i h1 h2
        have hs := ih h.2
        simp only [keysOf, List.map_cons, List.pairwise_cons]
        refine ⟨?_, hs⟩
        intro x hx
        have := (insertKV_keys_mem k v t x).mp hx
        rcases this with rfl | hx
        · omega
        · exact h.1 x hx

theorem insertKV_length {α : Type} (k : Int) (v : α) (m : List (Int × α)) (h : (keysOf m).Pairwise (· < ·)) :
    (insertKV k v m).length = if k ∈ keysOf m then m.length else m.length + 1 := by
  induction m with
  | nil => simp [insertKV, keysOf]
  | cons hd t ih =>
    obtain ⟨k', v'⟩ := hd
    simp only [keysOf, List.map_cons, List.pairwise_cons] at h
    simp only [insertKV]
    split
    · rename_i hlt
      have : k ∉ keysOf ((k', v') :: t) := by
        simp only [keysOf, List.map_cons, List.mem_cons]
        rintro (h1 | h1)
        · omega
        · have := h.1 k h1; omega
      simp [this]
    · split
      · rename_i h2; subst h2; simp [keysOf]
      · rename_i h1 h2
        simp only [List.length_cons, ih h.2, keysOf, List.map_cons, List.mem_cons, h2, false_or]
        split <;> simp [*]

/-! ## the loop of `collectPayload` commutes over consistent fragments -/

/-- duplicates carry identical content, one dialect, and all finals agree on the number -/
def ConsistentFrags (fs : List Fragment) : Prop :=
  ∀ x ∈ fs, ∀ y ∈ fs, x.version = y.version ∧ (x.order = y.order → x.data = y.data) ∧
    (x.isFinal = true → y.isFinal = true → x.order = y.order)

theorem step_comm (z : CState) (x y : Fragment) (hv : x.version = y.version)
    (hd : x.order = y.order → x.data = y.data)
    (hf : x.isFinal = true → y.isFinal = true → x.order = y.order) :
    (z.step x).step y = (z.step y).step x := by
  simp only [CState.step, CState.mk.injEq]
  refine ⟨?_, hv.symm, ?_, by omega⟩
  · cases hx : x.isFinal <;> cases hy : y.isFinal <;> simp
    exact (hf hx hy).symm
  · by_cases ho : x.order = y.order
    · rw [hd ho, ho]
    · exact insertKV_comm _ _ _ _ _ (Ne.symm ho)

theorem foldl_step_perm (fs fs' : List Fragment) (h : fs.Perm fs') (hc : ConsistentFrags fs) (st : CState) :
    fs.foldl CState.step st = fs'.foldl CState.step st :=
  h.foldl_eq' (fun x hx y hy z => by
    obtain ⟨hv, hd, hf⟩ := hc x hx y hy
    exact step_comm z x y hv hd hf) st

/-! ## what the loop computes -/

/-- order of the last final fragment -/
def lastFinal : List Fragment → Option Int
  | [] => none
  | f :: fs =>
    match lastFinal fs with
    | some n => some n
    | none => if f.isFinal then some f.order else none

theorem foldl_step_count (fs : List Fragment) (st : CState) :
    (fs.foldl CState.step st).count = (lastFinal fs).getD st.count := by
  induction fs generalizing st with
  | nil => rfl
  | cons f t ih =>
    simp only [List.foldl_cons, ih, lastFinal]
    cases lastFinal t with
    | some n => rfl
    | none => simp only [Option.getD_none, CState.step]; split <;> rfl

theorem lastFinal_mem {fs : List Fragment} {n : Int} (h : lastFinal fs = some n) :
    ∃ f ∈ fs, f.isFinal = true ∧ f.order = n := by
  induction fs with
  | nil => cases h
  | cons f t ih =>
    simp only [lastFinal] at h
    cases ht : lastFinal t with
    | some m =>
      rw [ht] at h; cases h
      obtain ⟨g, hg, h1, h2⟩ := ih ht
      exact ⟨g, List.mem_cons_of_mem _ hg, h1, h2⟩
    | none =>
      rw [ht] at h
      simp only at h
      split at h
      · cases h; exact ⟨f, List.mem_cons_self, by assumption, rfl⟩
      · cases h

theorem foldl_step_ordered (fs : List Fragment) (st : CState) :
    (fs.foldl CState.step st).ordered = fs.foldl (fun m f => insertKV f.order f.data m) st.ordered := by
  induction fs generalizing st with
  | nil => rfl
  | cons f t ih => simp only [List.foldl_cons, ih, CState.step]

theorem foldl_insert_sorted (fs : List Fragment) (m : List (Int × Bytes)) (h : (keysOf m).Pairwise (· < ·)) :
    (keysOf (fs.foldl (fun m f => insertKV f.order f.data m) m)).Pairwise (· < ·) := by
  induction fs generalizing m with
  | nil => exact h
  | cons f t ih => exact ih _ (insertKV_sorted _ _ _ h)

theorem foldl_insert_mem (fs : List Fragment) (m : List (Int × Bytes)) (x : Int) :
    x ∈ keysOf (fs.foldl (fun m f => insertKV f.order f.data m) m) ↔ x ∈ keysOf m ∨ x ∈ fs.map (·.order) := by
  induction fs generalizing m with
  | nil => simp
  | cons f t ih =>
    simp only [List.foldl_cons, ih, insertKV_keys_mem, List.map_cons, List.mem_cons]
    constructor
    · rintro ((h | h) | h) <;> simp [h]
    · rintro (h | h | h) <;> simp [h]

/-! ## counting distinct fragment numbers -/

/-- number of distinct elements -/
def distinctCount : List Int → Nat
  | [] => 0
  | a :: t => if a ∈ t then distinctCount t else distinctCount t + 1

theorem distinctCount_eq_of_sorted_cover (l ks : List Int) (hs : ks.Pairwise (· < ·))
    (hc : ∀ x, x ∈ ks ↔ x ∈ l) : distinctCount l = ks.length := by
  induction l generalizing ks with
  | nil =>
    cases ks with
    | nil => rfl
    | cons a t => have := (hc a).mp (by simp); cases this
  | cons a t ih =>
    simp only [distinctCount]
    split
    · rename_i hat
      apply ih ks hs
      intro x
      rw [hc x]
      simp only [List.mem_cons]
      constructor
      · rintro (rfl | h)
        · exact hat
        · exact h
      · exact fun h => .inr h
    · rename_i hat
      have hnd : ks.Nodup := hs.imp (fun h => by omega)
      have hak : a ∈ ks := (hc a).mpr (by simp)
      have := ih (ks.erase a) (hs.sublist List.erase_sublist) (by
        intro x
        rw [hnd.mem_erase_iff, hc x]
        simp only [List.mem_cons]
        constructor
        · rintro ⟨hne, rfl | h⟩
          · exact absurd rfl hne
          · exact h
        · intro h
          exact ⟨fun hx => hat (hx ▸ h), .inr h⟩)
      rw [this, List.length_erase_of_mem hak]
      have : 0 < ks.length := List.length_pos_of_mem hak
      omega

/-- a strictly ascending list of integers within `[lo, hi]` has at most `hi - lo + 1` elements -/
theorem sorted_length_le (ks : List Int) (lo hi : Int) (hs : ks.Pairwise (· < ·))
    (hb : ∀ x ∈ ks, lo ≤ x ∧ x ≤ hi) : (ks.length : Int) ≤ max (hi - lo + 1) 0 := by
  induction ks generalizing lo with
  | nil => simp; omega
  | cons a t ih =>
    simp only [List.pairwise_cons] at hs
    have ha := hb a (by simp)
    have := ih (a + 1) hs.2 (by
      intro x hx
      have h1 := hs.1 x hx
      have h2 := hb x (List.mem_cons_of_mem _ hx)
      omega)
    simp only [List.length_cons]
    omega

/-- pigeonhole: `n` distinct integers within `[lo, lo+n-1]` are all of them -/
theorem sorted_full (ks : List Int) (lo : Int) (hs : ks.Pairwise (· < ·))
    (hb : ∀ x ∈ ks, lo ≤ x ∧ x ≤ lo + ks.length - 1) : ∀ i, lo ≤ i → i ≤ lo + ks.length - 1 → i ∈ ks := by
  induction ks generalizing lo with
  | nil => intro i h1 h2; simp at h2; omega
  | cons a t ih =>
    simp only [List.pairwise_cons] at hs
    simp only [List.length_cons] at hb ⊢
    have ha := hb a (by simp)
    -- the tail lives in [a+1, lo+|t|]: it has |t| elements, so a = lo
    have hlen := sorted_length_le t (a + 1) (lo + t.length) hs.2 (by
      intro x hx
      have h1 := hs.1 x hx
      have h2 := hb x (List.mem_cons_of_mem _ hx)
      omega)
    have hal : a = lo := by omega
    subst hal
    intro i h1 h2
    by_cases hi : i = a
    · simp [hi]
    · refine List.mem_cons_of_mem _ (ih (a + 1) hs.2 ?_ i (by omega) (by omega))
      intro x hx
      have h1 := hs.1 x hx
      have h2 := hb x (List.mem_cons_of_mem _ hx)
      omega

end Swat4.GS1
