import Swat4.Model.Crypt
import Swat4.Spec.GOA
/-! Helper lemmas for C02: the Go cipher model against the SDK reference. -/
namespace Swat4.Crypt
open Swat4

theorem xor_cancel (b k : UInt8) : (b ^^^ k) ^^^ k = b := by
  rw [UInt8.xor_assoc, UInt8.xor_self, UInt8.xor_zero]

/-- every cipher state decrypts what it encrypted: both directions walk the same state trajectory -/
theorem dec_enc_stream (s : CipherState) (p : Bytes) : s.decrypt (s.encrypt p) = p := by
  induction p generalizing s with
  | nil => rfl
  | cons b bs ih =>
    simp only [CipherState.encrypt, CipherState.decrypt, CipherState.encryptByte,
      CipherState.decryptByte, xor_cancel]
    rw [ih]

/-- the converse direction: encrypting what a state decrypted gives the ciphertext back, so on every length the stream
cipher is a bijection -/
theorem enc_dec_stream (s : CipherState) (c : Bytes) : s.encrypt (s.decrypt c) = c := by
  induction c generalizing s with
  | nil => rfl
  | cons b bs ih =>
    simp only [CipherState.encrypt, CipherState.decrypt, CipherState.encryptByte,
      CipherState.decryptByte, xor_cancel]
    rw [ih]

/-- distinct plaintexts never share a ciphertext under one cipher state -/
theorem encrypt_stream_injective (s : CipherState) (p q : Bytes) (h : s.encrypt p = s.encrypt q) : p = q := by
  have := congrArg s.decrypt h
  rwa [dec_enc_stream, dec_enc_stream] at this

theorem encrypt_length (s : CipherState) (p : Bytes) : (s.encrypt p).length = p.length := by
  induction p generalizing s with
  | nil => rfl
  | cons b bs ih => simp only [CipherState.encrypt, List.length_cons, ih]

/-- the rejection loop always leaves within 12 iterations -/
theorem shuffleLoop_isSome (cards : Cards) (key : Key) (limit mask : UInt8) (hl : limit ≠ 0)
    (fuel retries : Nat) (rsum keypos : UInt8) (hf : 1 ≤ fuel) (h : 12 ≤ fuel + retries) :
    (shuffleLoop cards key limit mask fuel retries rsum keypos).isSome := by
  induction fuel generalizing retries rsum keypos with
  | zero => omega
  | succ f ih =>
    unfold shuffleLoop
    simp only
    split
    · rfl
    · rename_i hnle
      by_cases hr : retries + 1 > 11
      · exfalso
        apply hnle
        simp only [shuffleIter, hr, if_true]
        have h0 : limit.toNat ≠ 0 := fun h0 => hl (UInt8.toNat_inj.mp (by simpa using h0))
        rw [UInt8.le_iff_toNat_le, UInt8.toNat_mod]
        exact Nat.le_of_lt (Nat.mod_lt _ (by omega))
      · apply ih <;> omega

/-! ## The SDK reference agrees with the Go model -/

theorem at'_eq (v : Cards) (i : UInt8) : GOA.at' v i = cget v i := rfl
theorem put_eq (v : Cards) (i x : UInt8) : GOA.put v i x = cset v i x := rfl

theorem key_getD (key : Key) (kp : UInt8) (hk : kp.toNat < 8) : key.toList.getD kp.toNat 0 = kget key kp := by
  unfold kget
  have : kp.toNat % 8 = kp.toNat := Nat.mod_eq_of_lt hk
  simp only [this]
  rw [List.getD_eq_getElem?_getD, List.getElem?_eq_getElem (by simpa using hk)]
  simp

theorem iter_agree (cards : Cards) (key : Key) (limit mask : UInt8) (tries : Nat) (rsum kp : UInt8)
    (hk : kp.toNat < 8) :
    GOA.keyrandIter cards key.toList 8 limit.toNat mask.toNat tries rsum kp.toNat =
      ((shuffleIter cards key limit mask tries rsum kp).1.toNat,
       (shuffleIter cards key limit mask tries rsum kp).2.1,
       (shuffleIter cards key limit mask tries rsum kp).2.2.toNat) := by
  unfold GOA.keyrandIter shuffleIter
  simp only [at'_eq, key_getD key kp hk]
  have hadd : (kp + 1).toNat = (kp.toNat + 1) % 256 := by rw [UInt8.toNat_add]; rfl
  have hw : (decide (kp + 1 ≥ 8) : Bool) = decide (kp.toNat + 1 ≥ 8) := by
    apply decide_eq_decide.mpr
    rw [ge_iff_le, UInt8.le_iff_toNat_le, hadd]
    show 8 ≤ (kp.toNat + 1) % 256 ↔ _
    omega
  rw [hw]
  by_cases hwrap : kp.toNat + 1 ≥ 8
  · simp only [hwrap, decide_true, if_true]
    by_cases ht : tries > 11 <;> simp [ht, UInt8.toNat_and, UInt8.toNat_mod]
  · simp only [hwrap, decide_false, Bool.false_eq_true, if_false]
    have : (kp + 1).toNat = kp.toNat + 1 := by rw [hadd]; omega
    by_cases ht : tries > 11 <;> simp [ht, UInt8.toNat_and, UInt8.toNat_mod, this]

theorem iter_keypos_lt (cards : Cards) (key : Key) (limit mask : UInt8) (tries : Nat) (rsum kp : UInt8)
    (hk : kp.toNat < 8) : (shuffleIter cards key limit mask tries rsum kp).2.2.toNat < 8 := by
  unfold shuffleIter
  simp only
  have hadd : (kp + 1).toNat = (kp.toNat + 1) % 256 := by rw [UInt8.toNat_add]; rfl
  split
  · decide
  · rename_i h
    have : ¬ (8 : UInt8) ≤ kp + 1 := by simpa using h
    rw [UInt8.le_iff_toNat_le, hadd] at this
    rw [hadd]
    have h8 : (8 : UInt8).toNat = 8 := rfl
    omega

def tripleNat (r : UInt8 × UInt8 × UInt8) : Nat × UInt8 × Nat := (r.1.toNat, r.2.1, r.2.2.toNat)

theorem loop_agree (cards : Cards) (key : Key) (limit mask : UInt8) (fuel tries : Nat) (rsum kp : UInt8)
    (hk : kp.toNat < 8) :
    GOA.keyrandLoop cards key.toList 8 limit.toNat mask.toNat fuel tries rsum kp.toNat =
      (shuffleLoop cards key limit mask fuel tries rsum kp).map tripleNat := by
  induction fuel generalizing tries rsum kp with
  | zero => rfl
  | succ f ih =>
    unfold GOA.keyrandLoop shuffleLoop
    simp only [iter_agree cards key limit mask (tries + 1) rsum kp hk]
    by_cases hle : (shuffleIter cards key limit mask (tries + 1) rsum kp).1 ≤ limit
    · have : ¬ (shuffleIter cards key limit mask (tries + 1) rsum kp).1.toNat > limit.toNat := by
        rw [UInt8.le_iff_toNat_le] at hle; omega
      simp [hle, this, tripleNat]
    · have : (shuffleIter cards key limit mask (tries + 1) rsum kp).1.toNat > limit.toNat := by
        rw [UInt8.le_iff_toNat_le] at hle; omega
      simp only [hle, this, if_true, if_false]
      exact ih _ _ _ (iter_keypos_lt cards key limit mask (tries + 1) rsum kp hk)

theorem shuffle_agree (cards : Cards) (key : Key) (limit : UInt8) (rsum kp : UInt8) (hk : kp.toNat < 8) :
    GOA.keyrand cards key.toList 8 limit.toNat (goMask limit).toNat rsum kp.toNat =
      (shuffle cards key limit rsum kp).map tripleNat := by
  unfold GOA.keyrand shuffle
  by_cases h0 : limit = 0
  · subst h0; simp [tripleNat]
  · have : limit.toNat ≠ 0 := fun h => h0 (UInt8.toNat_inj.mp (by simpa using h))
    simp only [h0, this, if_false]
    exact loop_agree cards key limit (goMask limit) 12 0 rsum kp hk

theorem shuffle_keypos_lt (cards : Cards) (key : Key) (limit rsum kp : UInt8) (hk : kp.toNat < 8)
    (r : UInt8 × UInt8 × UInt8) (h : shuffle cards key limit rsum kp = some r) : r.2.2.toNat < 8 := by
  unfold shuffle at h
  split at h
  · cases h; exact hk
  · revert h
    generalize goMask limit = mask
    generalize (12 : Nat) = fuel
    generalize (0 : Nat) = tries
    induction fuel generalizing tries rsum kp with
    | zero => intro h; cases h
    | succ f ih =>
      unfold shuffleLoop
      simp only
      split
      · intro h; cases h; exact iter_keypos_lt _ _ _ _ _ _ _ hk
      · apply ih; exact iter_keypos_lt _ _ _ _ _ _ _ hk

theorem shuffle_isSome (cards : Cards) (key : Key) (limit rsum kp : UInt8) :
    (shuffle cards key limit rsum kp).isSome := by
  unfold shuffle
  split
  · rfl
  · rename_i h; exact shuffleLoop_isSome cards key limit _ h 12 0 rsum kp (by omega) (by omega)

/-- the SDK's running mask (halved after each power of two) is the Go code's per-limit mask -/
theorem mask_step : ∀ n : Fin 256, 2 ≤ n.val →
    (if n.val &&& (n.val - 1) = 0 then (goMask (UInt8.ofNat n.val)).toNat >>> 1 else (goMask (UInt8.ofNat n.val)).toNat)
      = (goMask (UInt8.ofNat (n.val - 1))).toNat := by
  decide +kernel

theorem toNat_ofNat_lt {n : Nat} (h : n < 256) : (UInt8.ofNat n).toNat = n := by
  rw [UInt8.toNat_ofNat']; exact Nat.mod_eq_of_lt h

theorem ofNat_toNat' (u : UInt8) : UInt8.ofNat u.toNat = u := UInt8.ofNat_toNat

theorem initLoop_agree (key : Key) (n : Nat) (hn : n ≤ 256) (cards : Cards) (mask : Nat) (rsum kp : UInt8)
    (hk : kp.toNat < 8) (hm : 2 ≤ n → mask = (goMask (UInt8.ofNat (n - 1))).toNat) :
    GOA.initLoop key.toList 8 n cards mask rsum kp.toNat = initLoop key n cards rsum kp := by
  induction n generalizing cards mask rsum kp with
  | zero => rfl
  | succ i ih =>
    have hi : i < 256 := by omega
    unfold GOA.initLoop initLoop
    have hsh : GOA.keyrand cards key.toList 8 i mask rsum kp.toNat =
        (shuffle cards key (UInt8.ofNat i) rsum kp).map tripleNat := by
      by_cases h0 : i = 0
      · subst h0; simp [GOA.keyrand, shuffle, tripleNat]
      · have := hm (by omega)
        simp only [Nat.add_sub_cancel] at this
        rw [this]
        have := shuffle_agree cards key (UInt8.ofNat i) rsum kp hk
        rwa [toNat_ofNat_lt hi] at this
    rw [hsh]
    cases hs : shuffle cards key (UInt8.ofNat i) rsum kp with
    | none => rfl
    | some r =>
      obtain ⟨u, rsum', kp'⟩ := r
      simp only [Option.map_some, tripleNat, ofNat_toNat', at'_eq, put_eq]
      apply ih (by omega) _ _ _ _ (shuffle_keypos_lt cards key _ rsum kp hk _ hs)
      intro h2
      have := mask_step ⟨i, hi⟩ h2
      simp only at this
      rw [← this, hm (by omega)]
      simp only [Nat.add_sub_cancel]

/-! ### key mixing -/

theorem vec_getD {n : Nat} (v : Vector UInt8 n) (i : Nat) (h : i < n) : v.toList.getD i 0 = v[i] := by
  rw [List.getD_eq_getElem?_getD, List.getElem?_eq_getElem (by simpa using h)]
  simp

theorem strlen_nulfree (s : List UInt8) (h : ∀ b ∈ s, b ≠ 0) : GOA.strlen s = s.length := by
  unfold GOA.strlen
  induction s with
  | nil => rfl
  | cons a t ih =>
    have ha : a ≠ 0 := h a (by simp)
    simp only [List.takeWhile_cons, ha, ne_eq, not_false_eq_true, decide_true, if_true, List.length_cons]
    rw [ih (fun b hb => h b (by simp [hb]))]

theorem mixStep_agree (secret : Secret) (hs : ∀ b ∈ secret.toList, b ≠ 0) (key : Key) (hdrKey : Bytes)
    (i : Nat) (hi : i < 256) (b : UInt8) (hb : hdrKey.getD i 0 = b) :
    GOA.mixKeyStep secret.toList hdrKey key.toList i = (mixStep secret key i b).toList := by
  unfold GOA.mixKeyStep mixStep
  have hlen : GOA.strlen secret.toList = 6 := by rw [strlen_nulfree _ hs]; simp
  simp only [hlen, hb]
  have h6 : i % 6 < 6 := Nat.mod_lt _ (by decide)
  have h8 : i % 8 < 8 := Nat.mod_lt _ (by decide)
  rw [vec_getD secret (i % 6) h6]
  have hidx : ((UInt8.ofNat i * secret[i % 6]) % 8).toNat % 8 = (i * (secret[i % 6]).toNat) % 8 := by
    rw [UInt8.toNat_mod, UInt8.toNat_mul, toNat_ofNat_lt hi]
    show i * (secret[i % 6]).toNat % 256 % 8 % 8 = _
    omega
  simp only [hidx]
  have hidx8 : (i * (secret[i % 6]).toNat) % 8 < 8 := Nat.mod_lt _ (by decide)
  rw [vec_getD key _ hidx8, vec_getD key _ h8]
  simp [Vector.toList_set]

theorem mixLoop_agree (secret : Secret) (hs : ∀ b ∈ secret.toList, b ≠ 0) (hdrKey : Bytes)
    (rest : Bytes) (off : Nat) (hoff : off + rest.length = hdrKey.length) (h256 : hdrKey.length ≤ 256)
    (hrest : hdrKey.drop off = rest) (key : Key) :
    (List.range' off rest.length).foldl (GOA.mixKeyStep secret.toList hdrKey) key.toList =
      (mixLoop secret off rest key).toList := by
  induction rest generalizing off key with
  | nil => rfl
  | cons b bs ih =>
    simp only [List.length_cons, List.range'_succ, List.foldl_cons, mixLoop]
    have hlt : off < hdrKey.length := by simp only [List.length_cons] at hoff; omega
    have hb : hdrKey.getD off 0 = b := by
      rw [List.getD_eq_getElem?_getD, List.getElem?_eq_getElem hlt]
      have := List.drop_eq_getElem_cons hlt
      rw [hrest] at this
      simp only [List.cons.injEq] at this
      simp [this.1]
    rw [mixStep_agree secret hs key hdrKey off (by omega) b hb]
    apply ih
    · simp only [List.length_cons] at hoff; omega
    · have := List.drop_eq_getElem_cons hlt
      rw [hrest] at this
      simp only [List.cons.injEq] at this
      rw [← this.2]

theorem mixKey_agree (secret : Secret) (hs : ∀ b ∈ secret.toList, b ≠ 0) (hdrKey : Bytes)
    (h256 : hdrKey.length ≤ 256) (chal : Challenge) :
    GOA.mixKey secret.toList hdrKey chal.toList = (mixLoop secret 0 hdrKey chal).toList := by
  unfold GOA.mixKey
  rw [List.range_eq_range']
  exact mixLoop_agree secret hs hdrKey hdrKey 0 (by simp) h256 rfl chal

/-! ### key schedule and stream -/

def toRef (s : CipherState) : GOA.State :=
  { cards := s.cards, rotor := s.rotor, ratchet := s.ratchet, avalanche := s.avalanche,
    lastPlain := s.lastPlain, lastCipher := s.lastCipher }

theorem initLoop_isSome (key : Key) (n : Nat) (cards : Cards) (rsum kp : UInt8) :
    (initLoop key n cards rsum kp).isSome := by
  induction n generalizing cards rsum kp with
  | zero => rfl
  | succ i ih =>
    unfold initLoop
    have := shuffle_isSome cards key (UInt8.ofNat i) rsum kp
    cases hs : shuffle cards key (UInt8.ofNat i) rsum kp with
    | none => rw [hs] at this; cases this
    | some r => exact ih _ _ _

theorem newCipherState?_isSome (key : Key) : (newCipherState? key).isSome := by
  unfold newCipherState?
  have := initLoop_isSome key 256 identityCards 0 0
  cases h : initLoop key 256 identityCards 0 0 with
  | none => rw [h] at this; cases this
  | some r => rfl

theorem cryptInit_agree (key : Key) : GOA.cryptInit key.toList 8 = (newCipherState? key).map toRef := by
  unfold GOA.cryptInit newCipherState?
  have h := initLoop_agree key 256 (by omega) identityCards 255 0 0 (by decide) (by intro _; decide)
  have hid : GOA.identity = identityCards := rfl
  rw [hid]
  change GOA.initLoop key.toList 8 256 identityCards 255 0 0 = _ at h
  rw [h]
  cases initLoop key 256 identityCards 0 0 with
  | none => rfl
  | some r => rfl

theorem decryptAll_agree (s : CipherState) (bs : Bytes) : GOA.decryptAll (toRef s) bs = s.decrypt bs := by
  induction bs generalizing s with
  | nil => rfl
  | cons b bs ih =>
    unfold GOA.decryptAll CipherState.decrypt
    simp only [GOA.decryptByte, CipherState.decryptByte, CipherState.advance, toRef, at'_eq, put_eq]
    congr 1
    · rw [UInt8.xor_assoc]
    · rw [← ih]
      simp only [toRef, UInt8.xor_assoc]
