import Mathlib.Analysis.Complex.ExponentialBounds
import Swat4.Model.UseCases.Discovery
/-!
# `expFloor n = ⌊e^n⌋` on the whole table (n ≤ 20), and what the model says beyond it (reviewer W5)

From Mathlib's `Real.exp_one_near_20` (`|e − 363916618873/133877442384| ≤ 10⁻²⁰`): `2.71828182845904523 < e <
2.71828182845904524`; the 20th powers of these two decimals still have the same integer part.  No floating point.
-/
namespace Swat4.C13Run
open Swat4.UC

theorem exp_one_bounds17 : (2.71828182845904523 : ℝ) < Real.exp 1 ∧ Real.exp 1 < (2.71828182845904524 : ℝ) := by
  have h := abs_sub_le_iff.1 Real.exp_one_near_20
  constructor
  · have := h.2
    have hc : (2.71828182845904523 : ℝ) < 363916618873 / 133877442384 - 1 / 10 ^ 20 := by norm_num
    linarith
  · have := h.1
    have hc : (363916618873 / 133877442384 + 1 / 10 ^ 20 : ℝ) < 2.71828182845904524 := by norm_num
    linarith

theorem exp_nat_bounds17 (n : ℕ) :
    (2.71828182845904523 : ℝ) ^ n ≤ Real.exp n ∧ Real.exp n ≤ (2.71828182845904524 : ℝ) ^ n := by
  obtain ⟨hlo, hhi⟩ := exp_one_bounds17
  rw [← Real.exp_one_pow n]
  exact ⟨pow_le_pow_left₀ (by norm_num) hlo.le n, pow_le_pow_left₀ (Real.exp_pos 1).le hhi.le n⟩

/-- every entry of the model's table is the integer part of the real number `e^n`: `expFloor n ≤ e^n < expFloor n + 1`
for all `n ≤ 20` -/
theorem expFloor_brackets_exp20 (n : ℕ) (hn : n ≤ 20) :
    ((expFloor (n : Int) : Int) : ℝ) ≤ Real.exp n ∧ Real.exp n < ((expFloor (n : Int) : Int) : ℝ) + 1 := by
  obtain ⟨hlo, hhi⟩ := exp_nat_bounds17 n
  have hcases : n = 0 ∨ n = 1 ∨ n = 2 ∨ n = 3 ∨ n = 4 ∨ n = 5 ∨ n = 6 ∨ n = 7 ∨ n = 8 ∨ n = 9 ∨ n = 10 ∨ n = 11 ∨ n = 12 ∨ n = 13 ∨ n = 14 ∨ n = 15 ∨ n = 16 ∨ n = 17 ∨ n = 18 ∨ n = 19 ∨ n = 20 := by omega
  rcases hcases with rfl | rfl | rfl | rfl | rfl | rfl | rfl | rfl | rfl | rfl | rfl | rfl | rfl | rfl | rfl | rfl | rfl | rfl | rfl | rfl | rfl
  · have e : expFloor ((((0 : ℕ)) : Int)) = 1 := by decide
    rw [e]
    exact ⟨le_trans (by norm_num) hlo, lt_of_le_of_lt hhi (by norm_num)⟩
  · have e : expFloor ((((1 : ℕ)) : Int)) = 2 := by decide
    rw [e]
    exact ⟨le_trans (by norm_num) hlo, lt_of_le_of_lt hhi (by norm_num)⟩
  · have e : expFloor ((((2 : ℕ)) : Int)) = 7 := by decide
    rw [e]
    exact ⟨le_trans (by norm_num) hlo, lt_of_le_of_lt hhi (by norm_num)⟩
  · have e : expFloor ((((3 : ℕ)) : Int)) = 20 := by decide
    rw [e]
    exact ⟨le_trans (by norm_num) hlo, lt_of_le_of_lt hhi (by norm_num)⟩
  · have e : expFloor ((((4 : ℕ)) : Int)) = 54 := by decide
    rw [e]
    exact ⟨le_trans (by norm_num) hlo, lt_of_le_of_lt hhi (by norm_num)⟩
  · have e : expFloor ((((5 : ℕ)) : Int)) = 148 := by decide
    rw [e]
    exact ⟨le_trans (by norm_num) hlo, lt_of_le_of_lt hhi (by norm_num)⟩
  · have e : expFloor ((((6 : ℕ)) : Int)) = 403 := by decide
    rw [e]
    exact ⟨le_trans (by norm_num) hlo, lt_of_le_of_lt hhi (by norm_num)⟩
  · have e : expFloor ((((7 : ℕ)) : Int)) = 1096 := by decide
    rw [e]
    exact ⟨le_trans (by norm_num) hlo, lt_of_le_of_lt hhi (by norm_num)⟩
  · have e : expFloor ((((8 : ℕ)) : Int)) = 2980 := by decide
    rw [e]
    exact ⟨le_trans (by norm_num) hlo, lt_of_le_of_lt hhi (by norm_num)⟩
  · have e : expFloor ((((9 : ℕ)) : Int)) = 8103 := by decide
    rw [e]
    exact ⟨le_trans (by norm_num) hlo, lt_of_le_of_lt hhi (by norm_num)⟩
  · have e : expFloor ((((10 : ℕ)) : Int)) = 22026 := by decide
    rw [e]
    exact ⟨le_trans (by norm_num) hlo, lt_of_le_of_lt hhi (by norm_num)⟩
  · have e : expFloor ((((11 : ℕ)) : Int)) = 59874 := by decide
    rw [e]
    exact ⟨le_trans (by norm_num) hlo, lt_of_le_of_lt hhi (by norm_num)⟩
  · have e : expFloor ((((12 : ℕ)) : Int)) = 162754 := by decide
    rw [e]
    exact ⟨le_trans (by norm_num) hlo, lt_of_le_of_lt hhi (by norm_num)⟩
  · have e : expFloor ((((13 : ℕ)) : Int)) = 442413 := by decide
    rw [e]
    exact ⟨le_trans (by norm_num) hlo, lt_of_le_of_lt hhi (by norm_num)⟩
  · have e : expFloor ((((14 : ℕ)) : Int)) = 1202604 := by decide
    rw [e]
    exact ⟨le_trans (by norm_num) hlo, lt_of_le_of_lt hhi (by norm_num)⟩
  · have e : expFloor ((((15 : ℕ)) : Int)) = 3269017 := by decide
    rw [e]
    exact ⟨le_trans (by norm_num) hlo, lt_of_le_of_lt hhi (by norm_num)⟩
  · have e : expFloor ((((16 : ℕ)) : Int)) = 8886110 := by decide
    rw [e]
    exact ⟨le_trans (by norm_num) hlo, lt_of_le_of_lt hhi (by norm_num)⟩
  · have e : expFloor ((((17 : ℕ)) : Int)) = 24154952 := by decide
    rw [e]
    exact ⟨le_trans (by norm_num) hlo, lt_of_le_of_lt hhi (by norm_num)⟩
  · have e : expFloor ((((18 : ℕ)) : Int)) = 65659969 := by decide
    rw [e]
    exact ⟨le_trans (by norm_num) hlo, lt_of_le_of_lt hhi (by norm_num)⟩
  · have e : expFloor ((((19 : ℕ)) : Int)) = 178482300 := by decide
    rw [e]
    exact ⟨le_trans (by norm_num) hlo, lt_of_le_of_lt hhi (by norm_num)⟩
  · have e : expFloor ((((20 : ℕ)) : Int)) = 485165195 := by decide
    rw [e]
    exact ⟨le_trans (by norm_num) hlo, lt_of_le_of_lt hhi (by norm_num)⟩

/-- with Mathlib's floor -/
theorem expFloor_eq_floor_exp20 (n : ℕ) (hn : n ≤ 20) : expFloor (n : Int) = ⌊Real.exp n⌋ := by
  obtain ⟨h1, h2⟩ := expFloor_brackets_exp20 n hn
  exact (Int.floor_eq_iff.mpr ⟨h1, h2⟩).symm

/-- beyond the table the model's value is `0` — *not* `⌊e^n⌋` (which is at least `e^21 > 10⁹`): retry budgets above 20 are
outside the model -/
theorem expFloor_beyond (n : Int) (hn : 20 < n) : expFloor n = 0 := by
  unfold expFloor
  split <;> first | rfl | omega

end Swat4.C13Run
