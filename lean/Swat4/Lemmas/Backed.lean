import Swat4.Model.USys
import Swat4.Lemmas.Prog
/-!
# Lemmas for C16: `Backed` along every crash / fault prefix of a use-case program

* `Prog.runChoices`: a run of one program in which every call either succeeds, fails without effect or
  fails after taking effect (`Choice`), and which stops when the choice list is exhausted (the client dies there).
* `Good C E R p`: a ghost-annotated walk over the program tree.  `E a g` = "this client knows a probe `(a, g)`
  is queued (or excepted)", `R a` = "this client knows that the row stored under `a.key`, if any, has address `a`".
  Knowledge grows with the replies (`learnE`, `learnR`); every registry write must be covered by it (`CallOK`).
* `exec_kinv`: one call of a `Good` program keeps `BackedEx X`, `Keyed` and the knowledge sound (`KInv`);
  `Good.runChoices_kinv`: hence every prefix of every faulty run does.
-/
namespace Swat4

/-- what happens to one repository call of a run -/
inductive Choice where
  | ok              -- the call succeeds
  | faultNoEffect   -- storage error before the call took effect
  | faultEffect     -- storage error after the call took effect (reply lost)
  deriving DecidableEq, Repr, Inhabited

/-- a crash/fault-aware run of one program: calls are performed one by one following the list and the run
STOPS when the list is exhausted (the client dies at that call boundary) or the program returns.  A call that
cannot fail (`now`) behaves as `ok` under every choice. -/
def Prog.runChoices {α : Type} : List Choice → Prog α → AbsState → Int → AbsState
  | [], _, s, _ => s
  | _ :: _, .ret _, s, _ => s
  | c :: cs, .call cl k, s, now =>
    match c, cl.faultReply with
    | .faultNoEffect, some e => Prog.runChoices cs (k e) s now
    | .faultEffect, some e => Prog.runChoices cs (k e) (cl.exec s now).1 now
    | _, _ => Prog.runChoices cs (k (cl.exec s now).2) (cl.exec s now).1 now

namespace C16
open Swat4 Swat4.UC Std

/-- the record carries the retry mark of goal `g` -/
@[reducible] def Marked (svr : Server) (g : Goal) : Prop := Status.has svr.status (retryMark g) = true

/-- a probe of goal `g` for address `a` is queued -/
def InQ (s : AbsState) (a : Addr) (g : Goal) : Prop := ∃ q ∈ s.queue, q.probe.addr = a ∧ q.probe.goal = g

/-- every stored server that carries the retry mark of a goal has a queued probe of that goal for its address -/
def Backed (s : AbsState) : Prop :=
  ∀ (k : Nat) (row : SRow) (g : Goal), s.servers[k]? = some row → Status.has row.svr.status (retryMark g) = true →
    ∃ q ∈ s.queue, q.probe.addr = row.svr.addr ∧ q.probe.goal = g

/-- executable version, used by the driver's oracle on dumps and here for the witness -/
def backedB (s : AbsState) : Bool :=
  s.servers.toList.all fun kv => [Goal.details, Goal.port].all fun g =>
    !Status.has kv.2.svr.status (retryMark g) || s.queue.any fun q => q.probe.addr == kv.2.svr.addr && q.probe.goal == g

/-- `Backed` up to an excepted set `X` of marks (marks whose probe somebody holds) -/
def BackedEx (X : Addr → Goal → Prop) (s : AbsState) : Prop :=
  ∀ (k : Nat) (row : SRow) (g : Goal), s.servers[k]? = some row → Marked row.svr g → X row.svr.addr g ∨ InQ s row.svr.addr g

/-- every mark is backed except possibly the mark `(a, g)` -/
def BackedExcept (s : AbsState) (a : Addr) (g : Goal) : Prop := BackedEx (fun a' g' => a' = a ∧ g' = g) s

theorem backed_iff (s : AbsState) : Backed s ↔ BackedEx (fun _ _ => False) s := by
  constructor
  · intro h k row g hr hm; exact Or.inr (h k row g hr hm)
  · intro h k row g hr hm
    rcases h k row g hr hm with hf | hq
    · exact hf.elim
    · exact hq

theorem BackedEx.mono {X Y : Addr → Goal → Prop} {s : AbsState} (h : BackedEx X s) (hxy : ∀ a g, X a g → Y a g) : BackedEx Y s := by
  intro k row g hr hm
  rcases h k row g hr hm with hx | hq
  · exact Or.inl (hxy _ _ hx)
  · exact Or.inr hq

theorem Backed.except {s : AbsState} (h : Backed s) (a : Addr) (g : Goal) : BackedExcept s a g :=
  ((backed_iff s).1 h).mono (fun _ _ hf => hf.elim)

/-- every row is stored under its own address key -/
def Keyed (s : AbsState) : Prop := ∀ (k : Nat) (row : SRow), s.servers[k]? = some row → row.svr.addr.key = k

/-! ## knowledge, obligations -/

/-- knowledge from a returned record: its marks are backed (the store is `Backed`) -/
def learnSvrE : Except RErr Server → Addr → Goal → Prop
  | .ok svr, a, g => a = svr.addr ∧ Marked svr g
  | .error _, _, _ => False

/-- knowledge from a returned record: its address is the one stored under its key -/
def learnSvrR : Except RErr Server → Addr → Prop
  | .ok svr, a => a = svr.addr
  | .error _, _ => False

/-- a returned record lives under key `k` -/
def replySvrOk (k : Nat) : Except RErr Server → Prop
  | .ok svr => svr.addr.key = k
  | .error _ => True

/-- probes a reply tells the client about: the marks of a record the store returned are backed, an accepted
enqueue is queued -/
def learnE : {β : Type} → Call β → β → Addr → Goal → Prop
  | _, .getServer _, r, a, g => learnSvrE r a g
  | _, .addServer _ _, r, a, g => learnSvrE r a g
  | _, .updateServer _ _, r, a, g => learnSvrE r a g
  | _, .updateServerT _ _, r, a, g => learnSvrE r a g
  | _, .enqueue p after before, .ok _, a, g => (after = none ∨ before = none) ∧ a = p.addr ∧ g = p.goal
  | _, _, _, _, _ => False

/-- addresses a reply tells the client to be the ones stored under their key: the address of a returned record;
the requested address when there is no row (only for addresses satisfying the side condition `C`) -/
def learnR (C : Addr → Prop) : {β : Type} → Call β → β → Addr → Prop
  | _, .getServer _, .ok svr, a => a = svr.addr
  | _, .getServer x, .error .serverNotFound, a => a = x ∧ C x
  | _, .addServer _ _, r, a => learnSvrR r a
  | _, .updateServer _ _, r, a => learnSvrR r a
  | _, .updateServerT _ _, r, a => learnSvrR r a
  | _, _, _, _ => False

/-- what every reply of a keyed store satisfies: the returned record lives under the requested key -/
def ReplyOk : {β : Type} → Call β → β → Prop
  | _, .getServer x, r => replySvrOk x.key r
  | _, .addServer s _, r => replySvrOk s.addr.key r
  | _, .updateServer s _, r => replySvrOk s.addr.key r
  | _, .updateServerT s _, r => replySvrOk s.addr.key r
  | _, _, _ => True

/-- every mark of a written record is known to be backed -/
def WriteOK (E : Addr → Goal → Prop) (R : Addr → Prop) (svr : Server) : Prop :=
  ∀ g, Marked svr g → ∃ a, R a ∧ a.key = svr.addr.key ∧ E a g

/-- a conflict callback keeps the address and adds only marks known to be backed -/
def ResOK (E : Addr → Goal → Prop) (R : Addr → Prop) (svr : Server) (res : Resolver) : Prop :=
  ∀ ex r, res ex = some r → r.addr = ex.addr ∧ ∀ g, Marked r g → Marked ex g ∨ ∃ a, R a ∧ a.key = svr.addr.key ∧ E a g

/-- obligations of a call given the client's knowledge; a `PopMany` is never allowed (the popper is the holder) -/
def CallOK (E : Addr → Goal → Prop) (R : Addr → Prop) : {β : Type} → Call β → Prop
  | _, .addServer svr res => R svr.addr ∧ (∀ b, R b → b.key = svr.addr.key → b = svr.addr) ∧ WriteOK E R svr ∧ ResOK E R svr res
  | _, .updateServer svr res => R svr.addr ∧ WriteOK E R svr ∧ ResOK E R svr res
  | _, .updateServerT svr res => R svr.addr ∧ WriteOK E R svr ∧ ∀ t, ResOK E R svr (res t)
  | _, .popMany _ => False
  | _, _ => True

/-- `Good C E R p`: along every path of `p` (whatever the replies, as long as they are `ReplyOk`) every call meets
its obligations under the knowledge accumulated so far -/
inductive Good (C : Addr → Prop) {α : Type} : (Addr → Goal → Prop) → (Addr → Prop) → Prog α → Prop where
  | ret (E R) (a : α) : Good C E R (.ret a)
  | call (E R) {β : Type} (c : Call β) (k : β → Prog α) :
      CallOK E R c →
      (∀ b, ReplyOk c b → Good C (fun a g => E a g ∨ learnE c b a g) (fun a => R a ∨ learnR C c b a) (k b)) →
      Good C E R (.call c k)

theorem Good.pure {C : Addr → Prop} {α : Type} (E R) (a : α) : Good C E R (pure a : Prog α) := Good.ret E R a

/-- sequencing: the continuation must be good under every larger knowledge -/
theorem Good.bind {C : Addr → Prop} {α β : Type} {E R} {p : Prog α} {f : α → Prog β} (hp : Good C E R p)
    (hf : ∀ a (E' : Addr → Goal → Prop) (R' : Addr → Prop), (∀ x g, E x g → E' x g) → (∀ x, R x → R' x) → Good C E' R' (f a)) :
    Good C E R (p.bind f) := by
  induction hp with
  | ret E R a => exact hf a E R (fun _ _ h => h) (fun _ h => h)
  | call E R c k hc _ ih =>
    refine Good.call E R c _ hc (fun b hb => ?_)
    exact ih b hb (fun a E' R' hE hR => hf a E' R' (fun x g h => hE x g (Or.inl h)) (fun x h => hR x (Or.inl h)))

/-! ## the invariant of one client's view -/

structure KInv (C : Addr → Prop) (X : Addr → Goal → Prop) (E : Addr → Goal → Prop) (R : Addr → Prop) (s : AbsState) : Prop where
  backed : BackedEx X s
  keyed : Keyed s
  hE : ∀ a g, E a g → X a g ∨ InQ s a g
  hR : ∀ a, R a → ∀ (row : SRow), s.servers[a.key]? = some row → row.svr.addr = a
  /-- every stored and every known address satisfies the side condition (`True`, or `Addr.PortOk`) -/
  rowsC : ∀ (k : Nat) (row : SRow), s.servers[k]? = some row → C row.svr.addr
  hRC : ∀ a, R a → C a

variable {C : Addr → Prop} {X : Addr → Goal → Prop} {E : Addr → Goal → Prop} {R : Addr → Prop}

theorem KInv.weaken {E' : Addr → Goal → Prop} {R' : Addr → Prop} {s : AbsState} (h : KInv C X E R s)
    (hE : ∀ a g, E' a g → E a g) (hR : ∀ a, R' a → R a) : KInv C X E' R' s :=
  ⟨h.backed, h.keyed, fun a g he => h.hE a g (hE a g he), fun a hr => h.hR a (hR a hr), h.rowsC, fun a hr => h.hRC a (hR a hr)⟩

theorem KInv.addFalse {s : AbsState} {F : Addr → Goal → Prop} {G : Addr → Prop} (h : KInv C X E R s)
    (hF : ∀ a g, ¬ F a g) (hG : ∀ a, ¬ G a) : KInv C X (fun a g => E a g ∨ F a g) (fun a => R a ∨ G a) s :=
  h.weaken (fun a g he => he.elim id (fun hf => (hF a g hf).elim)) (fun a hr => hr.elim id (fun hg => (hG a hg).elim))

/-- the state changed, but neither the rows nor (downwards) the queue -/
theorem KInv.queue_mono {s s' : AbsState} (h : KInv C X E R s) (hs : s'.servers = s.servers)
    (hq : ∀ q ∈ s.queue, q ∈ s'.queue) : KInv C X E R s' := by
  have hin : ∀ a g, InQ s a g → InQ s' a g := fun a g ⟨q, hm, hp⟩ => ⟨q, hq q hm, hp⟩
  refine ⟨?_, ?_, ?_, ?_, ?_, h.hRC⟩
  · intro k row g hr hm
    rw [hs] at hr
    exact (h.backed k row g hr hm).imp id (hin _ _)
  · intro k row hr; rw [hs] at hr; exact h.keyed k row hr
  · intro a g he; exact (h.hE a g he).imp id (hin _ _)
  · intro a hr row hrow; rw [hs] at hrow; exact h.hR a hr row hrow
  · intro k row hr; rw [hs] at hr; exact h.rowsC k row hr

/-- a returned record that is stored under its own key adds sound knowledge -/
theorem KInv.learn_row {s : AbsState} (h : KInv C X E R s) (r : Server) (t : Int)
    (hrow : s.servers[r.addr.key]? = some ⟨r, t⟩) :
    KInv C X (fun a g => E a g ∨ (a = r.addr ∧ Marked r g)) (fun a => R a ∨ a = r.addr) s := by
  refine ⟨h.backed, h.keyed, ?_, ?_, h.rowsC, ?_⟩
  · intro a g he
    rcases he with he | ⟨rfl, hm⟩
    · exact h.hE a g he
    · exact h.backed _ _ g hrow hm
  · intro a hr row hrow'
    rcases hr with hr | rfl
    · exact h.hR a hr row hrow'
    · rw [hrow] at hrow'; cases hrow'; rfl
  · intro a hr
    rcases hr with hr | rfl
    · exact h.hRC a hr
    · exact h.rowsC _ _ hrow

theorem erase_kinv {s : AbsState} (h : KInv C X E R s) (k0 : Nat) : KInv C X E R { s with servers := s.servers.erase k0 } := by
  refine ⟨?_, ?_, h.hE, ?_, ?_, h.hRC⟩
  · intro k row g hr hm
    simp only [ExtTreeMap.getElem?_erase] at hr
    split at hr
    · cases hr
    · exact h.backed k row g hr hm
  · intro k row hr
    simp only [ExtTreeMap.getElem?_erase] at hr
    split at hr
    · cases hr
    · exact h.keyed k row hr
  · intro a hr row hrow
    simp only [ExtTreeMap.getElem?_erase] at hrow
    split at hrow
    · cases hrow
    · exact h.hR a hr row hrow
  · intro k row hr
    simp only [ExtTreeMap.getElem?_erase] at hr
    split at hr
    · cases hr
    · exact h.rowsC k row hr

/-- `save` of a record whose marks are backed and whose address is the one known for its key -/
theorem save_kinv {s : AbsState} (h : KInv C X E R s) (now : Int) (svr : Server)
    (hm : ∀ g, Marked svr g → X svr.addr g ∨ InQ s svr.addr g)
    (hR : ∀ a, R a → a.key = svr.addr.key → a = svr.addr) (hC : C svr.addr) :
    KInv C X E R (s.save now svr).1 ∧
      (s.save now svr).1.servers[(s.save now svr).2.addr.key]? = some ⟨(s.save now svr).2, now⟩ ∧
      (s.save now svr).2.addr = svr.addr := by
  refine ⟨⟨?_, ?_, h.hE, ?_, ?_, h.hRC⟩, ?_, rfl⟩
  · intro k row g hr hmk
    simp only [AbsState.save, ExtTreeMap.getElem?_insert] at hr
    split at hr
    · cases hr; exact hm g hmk
    · exact h.backed k row g hr hmk
  · intro k row hr
    simp only [AbsState.save, ExtTreeMap.getElem?_insert] at hr
    split at hr
    · rename_i hk
      cases hr
      simpa using hk
    · exact h.keyed k row hr
  · intro a hr row hrow
    simp only [AbsState.save, ExtTreeMap.getElem?_insert] at hrow
    split at hrow
    · rename_i hk
      cases hrow
      have hk' : svr.addr.key = a.key := by simpa using hk
      exact (hR a hr hk'.symm).symm
    · exact h.hR a hr row hrow
  · intro k row hr
    simp only [AbsState.save, ExtTreeMap.getElem?_insert] at hr
    split at hr
    · cases hr; exact hC
    · exact h.rowsC k row hr
  · simp [AbsState.save]

/-! ## one call -/

theorem inj_of_row {s : AbsState} (h : KInv C X E R s) (svr : Server) (hRs : R svr.addr) (ex : SRow)
    (hrow : s.servers[svr.addr.key]? = some ex) : ∀ a, R a → a.key = svr.addr.key → a = svr.addr := by
  intro a ha hk
  have h1 := h.hR a ha ex (by rw [hk]; exact hrow)
  have h2 := h.hR svr.addr hRs ex hrow
  rw [← h1, h2]

theorem write_marks {s : AbsState} (h : KInv C X E R s) (svr : Server) (hw : WriteOK E R svr)
    (hinj : ∀ a, R a → a.key = svr.addr.key → a = svr.addr) :
    ∀ g, Marked svr g → X svr.addr g ∨ InQ s svr.addr g := by
  intro g hm
  obtain ⟨a, ha, hk, he⟩ := hw g hm
  have := hinj a ha hk
  subst this
  exact h.hE _ _ he

/-- saving the caller's record -/
theorem direct_kinv {s : AbsState} (h : KInv C X E R s) (now : Int) (svr : Server) (hRs : R svr.addr)
    (hinj : ∀ a, R a → a.key = svr.addr.key → a = svr.addr) (hw : WriteOK E R svr) :
    KInv C X (fun a g => E a g ∨ learnSvrE (.ok (s.save now svr).2) a g) (fun a => R a ∨ learnSvrR (.ok (s.save now svr).2) a)
      (s.save now svr).1 ∧ replySvrOk svr.addr.key (.ok (s.save now svr).2) := by
  obtain ⟨h1, h2, h3⟩ := save_kinv h now svr (write_marks h svr hw hinj) hinj (h.hRC _ hRs)
  exact ⟨h1.learn_row _ now h2, by simp only [replySvrOk, h3]⟩

/-- saving what the conflict callback made of the stored record -/
theorem resolved_kinv {s : AbsState} (h : KInv C X E R s) (now : Int) (svr : Server) (hRs : R svr.addr) (ex : SRow)
    (hrow : s.servers[svr.addr.key]? = some ex) (res : Resolver) (hres : ResOK E R svr res) (r : Server)
    (hr : res ex.svr = some r) :
    KInv C X (fun a g => E a g ∨ learnSvrE (.ok (s.save now r).2) a g) (fun a => R a ∨ learnSvrR (.ok (s.save now r).2) a)
      (s.save now r).1 ∧ replySvrOk svr.addr.key (.ok (s.save now r).2) := by
  obtain ⟨hra, hrm⟩ := hres ex.svr r hr
  have hex : ex.svr.addr = svr.addr := h.hR _ hRs ex hrow
  have hrs : r.addr = svr.addr := hra.trans hex
  have hinj0 := inj_of_row h svr hRs ex hrow
  have hinj : ∀ a, R a → a.key = r.addr.key → a = r.addr := by rw [hrs]; exact hinj0
  have hm : ∀ g, Marked r g → X r.addr g ∨ InQ s r.addr g := by
    intro g hg
    rcases hrm g hg with hexm | ⟨a, ha, hk, he⟩
    · have := h.backed _ ex g hrow hexm
      rwa [hex, ← hrs] at this
    · have := hinj0 a ha hk
      subst this
      rw [hrs]; exact h.hE _ _ he
  obtain ⟨h1, h2, h3⟩ := save_kinv h now r hm hinj (by rw [hrs]; exact h.hRC _ hRs)
  exact ⟨h1.learn_row _ now h2, by simp only [replySvrOk, h3, hrs]⟩

/-- the state is unchanged and the reply is the stored row -/
theorem stored_kinv {s : AbsState} (h : KInv C X E R s) (k : Nat) (ex : SRow) (hrow : s.servers[k]? = some ex) :
    KInv C X (fun a g => E a g ∨ learnSvrE (.ok ex.svr) a g) (fun a => R a ∨ learnSvrR (.ok ex.svr) a) s ∧
      replySvrOk k (.ok ex.svr) := by
  have hk := h.keyed k ex hrow
  refine ⟨?_, hk⟩
  have : s.servers[ex.svr.addr.key]? = some ⟨ex.svr, ex.updatedAt⟩ := by rw [hk]; exact hrow
  exact h.learn_row _ _ this

theorem error_kinv {s : AbsState} (h : KInv C X E R s) (e : RErr) (k : Nat) :
    KInv C X (fun a g => E a g ∨ learnSvrE (.error e) a g) (fun a => R a ∨ learnSvrR (.error e) a) s ∧
      replySvrOk k (.error e) :=
  ⟨h.addFalse (fun _ _ hf => hf) (fun _ hf => hf), trivial⟩

theorem update_kinv {s : AbsState} (h : KInv C X E R s) (now : Int) (svr : Server) (res : Resolver)
    (hRs : R svr.addr) (hw : WriteOK E R svr) (hres : ResOK E R svr res) :
    KInv C X (fun a g => E a g ∨ learnSvrE (s.update now svr res).2 a g) (fun a => R a ∨ learnSvrR (s.update now svr res).2 a)
      (s.update now svr res).1 ∧ replySvrOk svr.addr.key (s.update now svr res).2 := by
  unfold AbsState.update
  cases hrow : s.getRow svr.addr with
  | none => exact error_kinv h _ _
  | some ex =>
    have hrow' : s.servers[svr.addr.key]? = some ex := hrow
    dsimp only
    split
    · cases hr : res ex.svr with
      | none => exact stored_kinv h _ ex hrow'
      | some r => exact resolved_kinv h now svr hRs ex hrow' res hres r hr
    · exact direct_kinv h now svr hRs (inj_of_row h svr hRs ex hrow') hw

theorem add_kinv {s : AbsState} (h : KInv C X E R s) (now : Int) (svr : Server) (res : Resolver)
    (hRs : R svr.addr) (hinj : ∀ b, R b → b.key = svr.addr.key → b = svr.addr) (hw : WriteOK E R svr) (hres : ResOK E R svr res) :
    KInv C X (fun a g => E a g ∨ learnSvrE (s.add now svr res).2 a g) (fun a => R a ∨ learnSvrR (s.add now svr res).2 a)
      (s.add now svr res).1 ∧ replySvrOk svr.addr.key (s.add now svr res).2 := by
  unfold AbsState.add
  cases hrow : s.getRow svr.addr with
  | none => exact direct_kinv h now svr hRs hinj hw
  | some ex =>
    have hrow' : s.servers[svr.addr.key]? = some ex := hrow
    dsimp only
    cases hr : res ex.svr with
    | none => exact error_kinv h _ _
    | some r => exact resolved_kinv h now svr hRs ex hrow' res hres r hr

theorem remove_kinv {s : AbsState} (h : KInv C X E R s) (svr : Server) (res : Resolver) : KInv C X E R (s.remove svr res).1 := by
  unfold AbsState.remove
  cases hrow : s.getRow svr.addr with
  | none => exact h
  | some ex =>
    dsimp only
    split
    · cases res ex.svr with
      | none => exact h
      | some r => exact erase_kinv h _
    · exact erase_kinv h _

theorem enqueue_servers (s : AbsState) (now : Int) (p : Probe) (after before : GoTime) :
    (s.enqueue now p after before).servers = s.servers := by
  cases after <;> cases before <;> simp only [AbsState.enqueue] <;> first | rfl | (split <;> rfl)

theorem enqueue_queue_mono (s : AbsState) (now : Int) (p : Probe) (after before : GoTime) (q : QItem) (hq : q ∈ s.queue) :
    q ∈ (s.enqueue now p after before).queue := by
  cases after <;> cases before <;> simp only [AbsState.enqueue] <;> (try split) <;> simp [hq]

/-- an enqueue without an explicit ready time or without an expiry is never dropped -/
theorem enqueue_inq (s : AbsState) (now : Int) (p : Probe) (after before : GoTime) (h : after = none ∨ before = none) :
    InQ (s.enqueue now p after before) p.addr p.goal := by
  have : ∃ r, (s.enqueue now p after before).queue = s.queue ++ [⟨s.nextId, p, r, before⟩] := by
    rcases h with rfl | rfl
    · cases before <;> exact ⟨_, rfl⟩
    · cases after <;> exact ⟨_, rfl⟩
  obtain ⟨r, hr⟩ := this
  exact ⟨⟨s.nextId, p, r, before⟩, by rw [hr]; simp, rfl, rfl⟩

/-- **one call.**  A call that meets its obligations keeps the invariant, and what the client learns from the
reply is sound in the new state. -/
theorem exec_kinv {β : Type} (c : Call β) (s : AbsState) (now : Int) (hc : CallOK E R c) (h : KInv C X E R s) :
    KInv C X (fun a g => E a g ∨ learnE c (c.exec s now).2 a g) (fun a => R a ∨ learnR C c (c.exec s now).2 a) (c.exec s now).1 ∧
      ReplyOk c (c.exec s now).2 := by
  cases c with
  | now => exact ⟨h.addFalse (fun _ _ hf => hf) (fun _ hf => hf), trivial⟩
  | filterServers fs => exact ⟨h.addFalse (fun _ _ hf => hf) (fun _ hf => hf), trivial⟩
  | scanServers fs => exact ⟨h.addFalse (fun _ _ hf => hf) (fun _ hf => hf), trivial⟩
  | fetchServers as => exact ⟨h.addFalse (fun _ _ hf => hf) (fun _ hf => hf), trivial⟩
  | insGet id => exact ⟨h.addFalse (fun _ _ hf => hf) (fun _ hf => hf), trivial⟩
  | insAdd i =>
    exact ⟨(h.queue_mono (s' := s.insAdd now i) rfl (fun _ hq => hq)).addFalse (fun _ _ hf => hf) (fun _ hf => hf), trivial⟩
  | insRemove id =>
    exact ⟨(h.queue_mono (s' := s.insRemove id) rfl (fun _ hq => hq)).addFalse (fun _ _ hf => hf) (fun _ hf => hf), trivial⟩
  | insClear b =>
    exact ⟨(h.queue_mono (s' := (s.insClear b).1) rfl (fun _ hq => hq)).addFalse (fun _ _ hf => hf) (fun _ hf => hf), trivial⟩
  | popMany n => exact hc.elim
  | removeServer svr res =>
    exact ⟨(remove_kinv h svr res).addFalse (fun _ _ hf => hf) (fun _ hf => hf), trivial⟩
  | enqueue p after before =>
    have h' := h.queue_mono (s' := s.enqueue now p after before) (enqueue_servers s now p after before)
      (enqueue_queue_mono s now p after before)
    refine ⟨⟨h'.backed, h'.keyed, ?_, ?_, h'.rowsC, ?_⟩, trivial⟩
    · intro a g he
      rcases he with he | ⟨hab, rfl, rfl⟩
      · exact h'.hE a g he
      · exact Or.inr (enqueue_inq s now p after before hab)
    · intro a hr
      rcases hr with hr | hf
      · exact h'.hR a hr
      · exact hf.elim
    · intro a hr
      rcases hr with hr | hf
      · exact h'.hRC a hr
      · exact hf.elim
  | getServer x =>
    simp only [Call.exec, AbsState.get]
    cases hrow : s.getRow x with
    | none =>
      refine ⟨⟨h.backed, h.keyed, ?_, ?_, h.rowsC, ?_⟩, trivial⟩
      · intro a g he
        rcases he with he | hf
        · exact h.hE a g he
        · exact hf.elim
      · intro a hr row hrow'
        rcases hr with hr | ⟨rfl, _⟩
        · exact h.hR a hr row hrow'
        · have : s.servers[a.key]? = none := hrow
          rw [this] at hrow'; cases hrow'
      · intro a hr
        rcases hr with hr | ⟨rfl, hc⟩
        · exact h.hRC a hr
        · exact hc
    | some ex =>
      have hrow' : s.servers[x.key]? = some ex := hrow
      have := stored_kinv h x.key ex hrow'
      exact ⟨this.1, this.2⟩
  | addServer svr res =>
    obtain ⟨hRs, hinj, hw, hres⟩ := hc
    exact add_kinv h now svr res hRs hinj hw hres
  | updateServer svr res =>
    obtain ⟨hRs, hw, hres⟩ := hc
    exact update_kinv h now svr res hRs hw hres
  | updateServerT svr res =>
    obtain ⟨hRs, hw, hres⟩ := hc
    exact update_kinv h now svr (res now) hRs hw (hres now)

/-! ## every crash / fault prefix of a run -/

/-- a storage error teaches nothing (and is an admissible reply) -/
theorem fault_learn (C : Addr → Prop) {β : Type} (c : Call β) (e : β) (he : c.faultReply = some e) :
    (∀ a g, ¬ learnE c e a g) ∧ (∀ a, ¬ learnR C c e a) ∧ ReplyOk c e := by
  cases c <;> simp [Call.faultReply] at he <;> subst he <;>
    simp [learnE, learnR, ReplyOk, learnSvrE, learnSvrR, replySvrOk]

/-- **every prefix of every faulty run** of a `Good` program keeps `BackedEx X` and `Keyed` -/
theorem Good.runChoices_kinv {α : Type} {E R} {p : Prog α} (hp : Good C E R p) :
    ∀ (cs : List Choice) (s : AbsState) (now : Int), KInv C X E R s →
      BackedEx X (p.runChoices cs s now) ∧ Keyed (p.runChoices cs s now) := by
  induction hp with
  | ret E R a => intro cs s now h; cases cs <;> exact ⟨h.backed, h.keyed⟩
  | call E R c k hc hk ih =>
    intro cs s now h
    cases cs with
    | nil => exact ⟨h.backed, h.keyed⟩
    | cons ch cs =>
      have hex := exec_kinv c s now hc h
      cases hf : c.faultReply with
      | none =>
        cases ch
        · simp only [Prog.runChoices]
          exact ih _ hex.2 cs _ now hex.1
        · simp only [Prog.runChoices, hf]
          exact ih _ hex.2 cs _ now hex.1
        · simp only [Prog.runChoices, hf]
          exact ih _ hex.2 cs _ now hex.1
      | some e =>
        obtain ⟨f1, f2, f3⟩ := fault_learn C c e hf
        cases ch
        · simp only [Prog.runChoices]
          exact ih _ hex.2 cs _ now hex.1
        · simp only [Prog.runChoices, hf]
          exact ih e f3 cs s now (h.addFalse f1 f2)
        · simp only [Prog.runChoices, hf]
          exact ih e f3 cs _ now ((hex.1.weaken (fun a g he => Or.inl he) (fun a hr => Or.inl hr)).addFalse f1 f2)

/-- the initial knowledge is empty -/
theorem KInv.init {s : AbsState} (hb : BackedEx X s) (hk : Keyed s)
    (hrows : ∀ (k : Nat) (row : SRow), s.servers[k]? = some row → C row.svr.addr) :
    KInv C X (fun _ _ => False) (fun _ => False) s :=
  ⟨hb, hk, fun _ _ hf => hf.elim, fun _ hf => hf.elim, hrows, fun _ hf => hf.elim⟩

/-! ## status algebra -/

theorem mark_reported : ∀ (w : Status) (g : Goal),
    Status.has (Status.update w (Status.master ||| Status.info)) (retryMark g) = true → Status.has w (retryMark g) = true := by
  intro w g; cases g <;> revert w <;> decide

theorem mark_update_portRetry : ∀ (w : Status) (g : Goal),
    Status.has (Status.update w Status.portRetry) (retryMark g) = true → Status.has w (retryMark g) = true ∨ g = .port := by
  intro w g; cases g <;> revert w <;> decide

theorem mark_retryStatus : ∀ (g0 : Goal) (w : Status) (g : Goal),
    Status.has (retryStatus g0 w) (retryMark g) = true → Status.has w (retryMark g) = true ∨ g = g0 := by
  intro g0 w g; cases g0 <;> cases g <;> revert w <;> decide

theorem mark_successStatus : ∀ (g0 : Goal) (w : Status) (g : Goal),
    Status.has (successStatus g0 w) (retryMark g) = true → Status.has w (retryMark g) = true ∧ g ≠ g0 := by
  intro g0 w g; cases g0 <;> cases g <;> revert w <;> decide

theorem mark_failureStatus : ∀ (g0 : Goal) (w : Status) (g : Goal),
    Status.has (failureStatus g0 w) (retryMark g) = true → Status.has w (retryMark g) = true ∧ g ≠ g0 := by
  intro g0 w g; cases g0 <;> cases g <;> revert w <;> decide

theorem mark_new : ∀ (g : Goal), Status.has Status.new (retryMark g) = false := by
  intro g; cases g <;> decide

theorem handleSuccess_status (g : Goal) (res : ProbeResult) (now : Int) (s : Server) :
    (handleSuccess g res now s).status = successStatus g s.status := by cases g <;> rfl

theorem handleSuccess_addr (g : Goal) (res : ProbeResult) (now : Int) (s : Server) :
    (handleSuccess g res now s).addr = s.addr := by cases g <;> rfl

/-! ## the use cases are `Good` -/

section good
variable (C : Addr → Prop)

theorem maybeDiscoverPort_good (maxRetries : Int) (svr : Server) {E R} (hR : R svr.addr)
    (hE : ∀ g, Marked svr g → E svr.addr g) : Good C E R (maybeDiscoverPort maxRetries svr) := by
  unfold maybeDiscoverPort
  split
  · exact Good.pure _ _ _
  · refine Good.call _ _ _ _ trivial (fun r _ => ?_)
    cases r with
    | error e => exact Good.pure _ _ _
    | ok u =>
      refine Good.call _ _ _ _ ⟨Or.inl hR, ?_, ?_⟩ (fun _ _ => Good.pure _ _ _)
      · intro g hg
        refine ⟨svr.addr, Or.inl hR, rfl, ?_⟩
        rcases mark_update_portRetry _ g hg with h | rfl
        · exact Or.inl (hE g h)
        · exact Or.inr ⟨Or.inl rfl, rfl, rfl⟩
      · intro ex r hr
        dsimp only at hr
        split at hr
        · cases hr
        · cases hr
          refine ⟨rfl, fun g hg => ?_⟩
          rcases mark_update_portRetry _ g hg with h | rfl
          · exact Or.inl h
          · exact Or.inr ⟨svr.addr, Or.inl hR, rfl, Or.inr ⟨Or.inl rfl, rfl, rfl⟩⟩

/-- the part of `UC.report` after the record has been looked up or created -/
def reportCont (maxRetries : Int) (req : ReportReq) (svr : Server) : Prog (Except UErr Unit) :=
  match req.info with
  | none => pure (.error .invalidPayload)
  | some info =>
    .call .now fun now =>
    .call (.addServer (reported info now svr) fun ex => some (reported info now ex)) fun r =>
    match r with
    | .error e => pure (.error (.repo e))
    | .ok svr =>
      .call (.insAdd ⟨req.instanceId, req.addr⟩) fun r =>
      match r with
      | .error e => pure (.error (.repo e))
      | .ok _ => (maybeDiscoverPort maxRetries svr).bind fun _ => pure (.ok ())

theorem report_eq (zeroInfo : Fields) (maxRetries : Int) (req : ReportReq) :
    UC.report zeroInfo maxRetries req = .call (.getServer req.addr) fun r =>
      match r with
      | .ok svr => reportCont maxRetries req svr
      | .error .serverNotFound =>
        match newServer zeroInfo req.addr req.queryPort with
        | none => pure (.error .invalidQueryPort)
        | some svr => reportCont maxRetries req svr
      | .error e => pure (.error (.repo e)) := rfl

theorem newServer_spec {zeroInfo : Fields} {a : Addr} {qp : Int} {svr : Server} (h : newServer zeroInfo a qp = some svr) :
    svr.addr = a ∧ svr.status = Status.new := by
  unfold newServer at h
  split at h
  · cases h
  · cases h; exact ⟨rfl, rfl⟩

theorem reportCont_good (maxRetries : Int) (req : ReportReq) (svr : Server) {E R} (hR : R svr.addr)
    (hinj : ∀ b, R b → b.key = svr.addr.key → b = svr.addr) (hE : ∀ g, Marked svr g → E svr.addr g) :
    Good C E R (reportCont maxRetries req svr) := by
  unfold reportCont
  split
  · exact Good.pure _ _ _
  · rename_i info _
    refine Good.call _ _ _ _ trivial (fun now _ => ?_)
    refine Good.call _ _ _ _ ⟨Or.inl hR, ?_, ?_, ?_⟩ (fun r hr => ?_)
    · intro b hb hk
      rcases hb with hb | hf
      · exact hinj b hb hk
      · exact hf.elim
    · intro g hg
      exact ⟨svr.addr, Or.inl hR, rfl, Or.inl (hE g (mark_reported _ g hg))⟩
    · intro ex r hr
      cases hr
      exact ⟨rfl, fun g hg => Or.inl (mark_reported _ g hg)⟩
    · cases r with
      | error e => exact Good.pure _ _ _
      | ok svr' =>
        refine Good.call _ _ _ _ trivial (fun r _ => ?_)
        cases r with
        | error e => exact Good.pure _ _ _
        | ok u =>
          refine Good.bind (maybeDiscoverPort_good C maxRetries svr' ?_ ?_) (fun _ _ _ _ _ => Good.pure _ _ _)
          · exact Or.inl (Or.inr rfl)
          · intro g hg
            exact Or.inl (Or.inr ⟨rfl, hg⟩)

theorem report_good (zeroInfo : Fields) (maxRetries : Int) (req : ReportReq) (hC : C req.addr) :
    Good C (fun _ _ => False) (fun _ => False) (UC.report zeroInfo maxRetries req) := by
  rw [report_eq]
  refine Good.call _ _ _ _ trivial (fun r hr => ?_)
  split
  · rename_i svr
    refine reportCont_good C maxRetries req svr (Or.inr rfl) ?_ ?_
    · intro b hb _
      rcases hb with hf | hb
      · exact hf.elim
      · exact hb
    · intro g hg; exact Or.inr ⟨rfl, hg⟩
  · split
    · exact Good.pure _ _ _
    · rename_i svr hs
      obtain ⟨ha, hst⟩ := newServer_spec hs
      refine reportCont_good C maxRetries req svr (Or.inr ⟨ha, hC⟩) ?_ ?_
      · intro b hb _
        rcases hb with hf | hb
        · exact hf.elim
        · rw [ha]; exact hb.1
      · intro g hg
        have : Status.has svr.status (retryMark g) = true := hg
        rw [hst, mark_new] at this
        cases this
  · exact Good.pure _ _ _

theorem discoverServer_good (maxRetries : Int) (svr : Server) {E R} (hR : R svr.addr)
    (hE : ∀ g, Marked svr g → E svr.addr g) : Good C E R (discoverServer maxRetries svr) := by
  unfold discoverServer
  refine Good.call _ _ _ _ trivial (fun r _ => ?_)
  cases r with
  | error e => exact Good.pure _ _ _
  | ok u =>
    refine Good.call _ _ _ _ ⟨Or.inl hR, ?_, ?_⟩ (fun r _ => ?_)
    · intro g hg
      refine ⟨svr.addr, Or.inl hR, rfl, ?_⟩
      rcases mark_update_portRetry _ g hg with h | rfl
      · exact Or.inl (hE g h)
      · exact Or.inr ⟨Or.inl rfl, rfl, rfl⟩
    · intro ex r hr
      dsimp only at hr
      split at hr
      · cases hr
      · cases hr
        refine ⟨rfl, fun g hg => ?_⟩
        rcases mark_update_portRetry _ g hg with h | rfl
        · exact Or.inl h
        · exact Or.inr ⟨svr.addr, Or.inl hR, rfl, Or.inr ⟨Or.inl rfl, rfl, rfl⟩⟩
    · cases r <;> exact Good.pure _ _ _

theorem maybeDiscoverServer_good (maxRetries : Int) (svr : Server) {E R} (hR : R svr.addr)
    (hE : ∀ g, Marked svr g → E svr.addr g) : Good C E R (maybeDiscoverServer maxRetries svr) := by
  unfold maybeDiscoverServer
  split
  · exact Good.pure _ _ _
  · split
    · exact Good.pure _ _ _
    · split
      · exact Good.pure _ _ _
      · exact Good.bind (discoverServer_good C maxRetries svr hR hE) (fun _ _ _ _ _ => Good.pure _ _ _)

theorem addServer_good (zeroInfo : Fields) (maxRetries : Int) (a : Addr) (hC : C a) :
    Good C (fun _ _ => False) (fun _ => False) (UC.addServer zeroInfo maxRetries a) := by
  unfold UC.addServer
  refine Good.call _ _ _ _ trivial (fun r hr => ?_)
  split
  · rename_i svr
    exact maybeDiscoverServer_good C maxRetries svr (Or.inr rfl) (fun g hg => Or.inr ⟨rfl, hg⟩)
  · split
    · exact Good.pure _ _ _
    · rename_i svr hs
      obtain ⟨ha, hst⟩ := newServer_spec hs
      refine Good.call _ _ _ _ ⟨Or.inr ⟨ha, hC⟩, ?_, ?_, ?_⟩ (fun r _ => ?_)
      · intro b hb _
        rcases hb with hf | hb
        · exact hf.elim
        · rw [ha]; exact hb.1
      · intro g hg
        have : Status.has svr.status (retryMark g) = true := hg
        rw [hst, mark_new] at this
        cases this
      · intro ex r hr; cases hr
      · cases r with
        | error e => exact Good.pure _ _ _
        | ok svr' =>
          exact maybeDiscoverServer_good C maxRetries svr' (Or.inr rfl) (fun g hg => Or.inr ⟨rfl, hg⟩)
  · exact Good.pure _ _ _

/-! ### the prober's outcome handling; the client knows the probe's address to be the stored one -/

theorem probeFail_good (g : Goal) (svr : Server) {E R} (hR : R svr.addr) (hE : ∀ g', Marked svr g' → E svr.addr g') :
    Good C E R (probeFail g svr) := by
  unfold probeFail
  refine Good.call _ _ _ _ ⟨hR, ?_, ?_⟩ (fun r _ => ?_)
  · intro g' hg
    exact ⟨svr.addr, hR, rfl, hE g' (mark_failureStatus g _ g' hg).1⟩
  · intro ex r hr
    cases hr
    exact ⟨rfl, fun g' hg => Or.inl (mark_failureStatus g _ g' hg).1⟩
  · cases r <;> exact Good.pure _ _ _

theorem probeRetry_good (prb : Probe) (svr : Server) {E R} (hR : R svr.addr) (hRp : R prb.addr)
    (hk : svr.addr.key = prb.addr.key) (hE : ∀ g', Marked svr g' → E svr.addr g') :
    Good C E R (probeRetry prb svr) := by
  unfold probeRetry
  have hinc : prb.incRetries.1.addr = prb.addr ∧ prb.incRetries.1.goal = prb.goal := by
    unfold Probe.incRetries; split <;> exact ⟨rfl, rfl⟩
  generalize prb.incRetries = inc at hinc
  obtain ⟨prb', retries, ok⟩ := inc
  dsimp only at hinc ⊢
  split
  · exact probeFail_good C prb.goal svr hR hE
  · refine Good.call _ _ _ _ trivial (fun now _ => ?_)
    refine Good.call _ _ _ _ trivial (fun r _ => ?_)
    cases r with
    | error e => exact Good.pure _ _ _
    | ok u =>
      have hq : ∀ a g, (a = prb.addr ∧ g = prb.goal) →
          learnE (Call.enqueue prb' (some (now + second * expFloor retries)) none) (Except.ok u) a g := by
        rintro a g ⟨rfl, rfl⟩
        exact ⟨Or.inr rfl, hinc.1.symm, hinc.2.symm⟩
      refine Good.call _ _ _ _ ⟨Or.inl (Or.inl hR), ?_, ?_⟩ (fun r _ => ?_)
      · intro g' hg
        rcases mark_retryStatus prb.goal _ g' hg with h | rfl
        · exact ⟨svr.addr, Or.inl (Or.inl hR), rfl, Or.inl (Or.inl (hE g' h))⟩
        · exact ⟨prb.addr, Or.inl (Or.inl hRp), hk.symm, Or.inr (hq _ _ ⟨rfl, rfl⟩)⟩
      · intro ex r hr
        cases hr
        refine ⟨rfl, fun g' hg => ?_⟩
        rcases mark_retryStatus prb.goal _ g' hg with h | rfl
        · exact Or.inl h
        · exact Or.inr ⟨prb.addr, Or.inl (Or.inl hRp), hk.symm, Or.inr (hq _ _ ⟨rfl, rfl⟩)⟩
      · cases r <;> exact Good.pure _ _ _

theorem probe_good (prb : Probe) (outcome : Option ProbeResult) {E R} (hRp : R prb.addr) :
    Good C E R (UC.probe prb outcome) := by
  unfold UC.probe
  refine Good.call _ _ _ _ trivial (fun r hr => ?_)
  cases r with
  | error e => exact Good.pure _ _ _
  | ok svr =>
    have hk : svr.addr.key = prb.addr.key := hr
    have hR' : (fun a => R a ∨ learnR C (Call.getServer prb.addr) (Except.ok svr) a) svr.addr := Or.inr rfl
    have hE' : ∀ g', Marked svr g' →
        (fun a g => E a g ∨ learnE (Call.getServer prb.addr) (Except.ok svr) a g) svr.addr g' :=
      fun g' hg => Or.inr ⟨rfl, hg⟩
    cases outcome with
    | none => exact probeRetry_good C prb svr hR' (Or.inl hRp) hk hE'
    | some res =>
      dsimp only
      refine Good.call _ _ _ _ trivial (fun now _ => ?_)
      refine Good.call _ _ _ _ ⟨?_, ?_, ?_⟩ (fun r _ => ?_)
      · rw [handleSuccess_addr]; exact Or.inl hR'
      · intro g' hg
        have hg' : Status.has (handleSuccess prb.goal res now svr).status (retryMark g') = true := hg
        rw [handleSuccess_status] at hg'
        refine ⟨svr.addr, Or.inl hR', by rw [handleSuccess_addr], Or.inl (hE' g' (mark_successStatus _ _ g' hg').1)⟩
      · intro t ex r hr
        cases hr
        refine ⟨handleSuccess_addr _ _ _ _, fun g' hg => Or.inl ?_⟩
        have hg' : Status.has (handleSuccess prb.goal res t ex).status (retryMark g') = true := hg
        rw [handleSuccess_status] at hg'
        exact (mark_successStatus _ _ g' hg').1
      · cases r <;> exact Good.pure _ _ _

/-! ### refresh, revive: enqueues only -/

theorem enqueueAll_good (mk : Server → Probe × GoTime × GoTime) (l : List Server) (n : Nat) {E R} :
    Good C E R (enqueueAll mk l n) := by
  induction l generalizing n E R with
  | nil => exact Good.pure _ _ _
  | cons s rest ih =>
    unfold enqueueAll
    refine Good.call _ _ _ _ trivial (fun r _ => ?_)
    cases r with
    | error e => exact ih _
    | ok u => exact ih _

theorem refresh_good (maxRetries deadline : Int) {E R} : Good C E R (UC.refresh maxRetries deadline) := by
  unfold UC.refresh
  refine Good.call _ _ _ _ trivial (fun r _ => ?_)
  cases r with
  | error e => exact Good.pure _ _ _
  | ok svrs => exact Good.bind (enqueueAll_good C _ svrs 0) (fun _ _ _ _ _ => Good.pure _ _ _)

theorem revive_good (maxRetries minScope maxScope minCountdown maxCountdown deadline : Int) (draws : Nat → Int) {E R} :
    Good C E R (UC.revive maxRetries minScope maxScope minCountdown maxCountdown deadline draws) := by
  unfold UC.revive
  refine Good.call _ _ _ _ trivial (fun r _ => ?_)
  cases r with
  | error e => exact Good.pure _ _ _
  | ok svrs => exact Good.bind (enqueueAll_good C _ svrs 0) (fun _ _ _ _ _ => Good.pure _ _ _)

/-! ### keepalive, removal -/

theorem renew_good (instanceId srcIp : Nat) {E R} : Good C E R (UC.renew instanceId srcIp) := by
  unfold UC.renew
  refine Good.call _ _ _ _ trivial (fun r _ => ?_)
  cases r with
  | error e => exact Good.pure _ _ _
  | ok inst =>
    dsimp only
    split
    · exact Good.pure _ _ _
    · refine Good.call _ _ _ _ trivial (fun r _ => ?_)
      cases r with
      | error e => exact Good.pure _ _ _
      | ok svr =>
        refine Good.call _ _ _ _ trivial (fun now _ => ?_)
        refine Good.call _ _ _ _ ⟨Or.inl (Or.inr rfl), ?_, ?_⟩ (fun r _ => ?_)
        · intro g hg
          exact ⟨svr.addr, Or.inl (Or.inr rfl), rfl, Or.inl (Or.inr ⟨rfl, hg⟩)⟩
        · intro ex r hr
          cases hr
          exact ⟨rfl, fun g hg => Or.inl hg⟩
        · cases r <;> exact Good.pure _ _ _

theorem remove_good (instanceId : Nat) (a : Addr) {E R} : Good C E R (UC.remove instanceId a) := by
  unfold UC.remove
  refine Good.call _ _ _ _ trivial (fun r _ => ?_)
  split
  · exact Good.pure _ _ _
  · exact Good.pure _ _ _
  · refine Good.call _ _ _ _ trivial (fun r _ => ?_)
    split
    · exact Good.pure _ _ _
    · exact Good.pure _ _ _
    · split
      · exact Good.pure _ _ _
      · refine Good.call _ _ _ _ trivial (fun r _ => ?_)
        cases r with
        | error e => exact Good.pure _ _ _
        | ok u =>
          refine Good.call _ _ _ _ trivial (fun r _ => ?_)
          cases r <;> exact Good.pure _ _ _

end good

/-! ## packaging for the property file -/

/-- a program that is `Good` from empty knowledge keeps `Backed` and `Keyed` at every crash point, under every fault placement -/
theorem Good.backed {α : Type} {p : Prog α} (hp : Good (fun _ => True) (fun _ _ => False) (fun _ => False) p)
    (cs : List Choice) (s : AbsState) (now : Int) (hb : Backed s) (hk : Keyed s) :
    Backed (p.runChoices cs s now) ∧ Keyed (p.runChoices cs s now) := by
  have := hp.runChoices_kinv (X := fun _ _ => False) cs s now (KInv.init ((backed_iff s).1 hb) hk (fun _ _ _ => trivial))
  exact ⟨(backed_iff _).2 this.1, this.2⟩

/-- the same for a holder of the probe `(a, g)`: knowledge = "`a` is the address stored under its key" -/
theorem Good.backedExcept {α : Type} {p : Prog α} {a : Addr} {g : Goal}
    (hp : Good (fun _ => True) (fun _ _ => False) (fun x => x = a) p)
    (cs : List Choice) (s : AbsState) (now : Int) (hb : BackedExcept s a g) (hk : Keyed s)
    (hcanon : ∀ (row : SRow), s.servers[a.key]? = some row → row.svr.addr = a) :
    BackedExcept (p.runChoices cs s now) a g ∧ Keyed (p.runChoices cs s now) :=
  hp.runChoices_kinv (X := fun a' g' => a' = a ∧ g' = g) cs s now
    ⟨hb, hk, fun _ _ hf => hf.elim, fun x hx row hrow => by subst hx; exact hcanon row hrow, fun _ _ _ => trivial, fun _ _ => trivial⟩

/-! ## runs to completion -/

/-- a fault-free choice list that is long enough is the sequential run -/
theorem runChoices_all_ok {α : Type} (p : Prog α) : ∀ (s : AbsState) (now : Int) (n : Nat), p.runSteps s now ≤ n →
    p.runChoices (List.replicate n Choice.ok) s now = (p.run s now).1 := by
  induction p with
  | ret a => intro s now n _; cases n <;> rfl
  | call c k ih =>
    intro s now n hn
    cases n with
    | zero => simp [Prog.runSteps] at hn
    | succ n =>
      simp only [List.replicate_succ, Prog.runChoices, Prog.run]
      exact ih _ _ _ _ (by simp only [Prog.runSteps] at hn; omega)

theorem backed_of_except_inq {s : AbsState} {a : Addr} {g : Goal} (h : BackedExcept s a g) (hq : InQ s a g) : Backed s := by
  intro k row g' hr hm
  rcases h k row g' hr hm with ⟨ha, hg⟩ | hq'
  · rw [ha, hg]; exact hq
  · exact hq'

theorem backed_of_except_unmarked {s : AbsState} {a : Addr} {g : Goal} (h : BackedExcept s a g) (hk : Keyed s)
    (hu : ∀ (row : SRow), s.servers[a.key]? = some row → Status.has row.svr.status (retryMark g) = false) : Backed s := by
  intro k row g' hr hm
  rcases h k row g' hr hm with ⟨ha, hg⟩ | hq'
  · have hkk := hk k row hr
    rw [ha] at hkk
    subst hkk; subst hg
    rw [hu row hr] at hm
    cases hm
  · exact hq'

theorem update_queue (s : AbsState) (now : Int) (svr : Server) (res : Resolver) : (s.update now svr res).1.queue = s.queue := by
  unfold AbsState.update
  cases s.getRow svr.addr with
  | none => rfl
  | some ex =>
    dsimp only
    split
    · cases res ex.svr <;> rfl
    · rfl

theorem update_same {s : AbsState} {svr : Server} {ex : SRow} (now : Int) (res : Resolver)
    (hrow : s.servers[svr.addr.key]? = some ex) (hv : ¬ ex.svr.version > svr.version) :
    (s.update now svr res).1 = (s.save now svr).1 := by
  have : s.getRow svr.addr = some ex := hrow
  unfold AbsState.update
  rw [this]
  simp only [hv, if_false]

theorem save_row (s : AbsState) (now : Int) (svr : Server) :
    (s.save now svr).1.servers[svr.addr.key]? = some ⟨{ svr with version := svr.version + 1 }, now⟩ := by
  simp [AbsState.save]

theorem run_tail {α : Type} (r : Except RErr Server) (f : RErr → α) (a : α) (s : AbsState) (now : Int) :
    ((match r with | .error e => (pure (f e) : Prog α) | .ok _ => pure a).run s now).1 = s := by
  cases r <;> rfl

theorem probe_run_none (prb : Probe) (outcome : Option ProbeResult) (s : AbsState) (now : Int)
    (hrow : s.servers[prb.addr.key]? = none) : ((UC.probe prb outcome).run s now).1 = s := by
  have : s.getRow prb.addr = none := hrow
  simp [UC.probe, Call.exec, AbsState.get, this]

theorem probe_run_success (prb : Probe) (res : ProbeResult) (s : AbsState) (now : Int) (ex : SRow)
    (hrow : s.servers[prb.addr.key]? = some ex) (hk : Keyed s) :
    ((UC.probe prb (some res)).run s now).1 = (s.save now (handleSuccess prb.goal res now ex.svr)).1 := by
  have hg : s.getRow prb.addr = some ex := hrow
  have hkey := hk _ _ hrow
  simp only [UC.probe, Prog.run_call, Call.exec, AbsState.get, hg]
  have hfin : (s.update now (handleSuccess prb.goal res now ex.svr) fun s => some (handleSuccess prb.goal res now s)).1 =
      (s.save now (handleSuccess prb.goal res now ex.svr)).1 := by
    apply update_same (ex := ex)
    · rw [handleSuccess_addr, hkey]; exact hrow
    · have : (handleSuccess prb.goal res now ex.svr).version = ex.svr.version := by cases prb.goal <;> rfl
      omega
  split <;> simp only [Prog.run_pure, hfin]

theorem probe_run_fail (prb : Probe) (s : AbsState) (now : Int) (ex : SRow)
    (hrow : s.servers[prb.addr.key]? = some ex) (hk : Keyed s) (hout : prb.retries ≥ prb.maxRetries) :
    ((UC.probe prb none).run s now).1 = (s.save now (handleFailure prb.goal ex.svr)).1 := by
  have hg : s.getRow prb.addr = some ex := hrow
  have hkey := hk _ _ hrow
  simp only [UC.probe, Prog.run_call, Call.exec, AbsState.get, hg, probeRetry, Probe.incRetries, hout, if_true,
    Bool.not_false, probeFail]
  have hfin : (s.update now (handleFailure prb.goal ex.svr) fun s => some (handleFailure prb.goal s)).1 =
      (s.save now (handleFailure prb.goal ex.svr)).1 := by
    apply update_same (ex := ex)
    · show s.servers[ex.svr.addr.key]? = some ex
      rw [hkey]; exact hrow
    · show ¬ ex.svr.version > ex.svr.version
      omega
  split <;> simp only [Prog.run_pure, hfin]

theorem probe_run_retry (prb : Probe) (s : AbsState) (now : Int) (ex : SRow)
    (hrow : s.servers[prb.addr.key]? = some ex) (hout : prb.retries < prb.maxRetries) :
    InQ ((UC.probe prb none).run s now).1 prb.addr prb.goal := by
  have hg : s.getRow prb.addr = some ex := hrow
  have hout' : ¬ prb.retries ≥ prb.maxRetries := by omega
  simp only [UC.probe, Prog.run_call, Call.exec, AbsState.get, hg, probeRetry, Probe.incRetries, hout', if_false,
    Bool.not_true]
  simp only [Bool.false_eq_true, if_false, Prog.run_call, Call.exec]
  have hq := enqueue_inq s now { prb with retries := prb.retries + 1 } (some (now + second * expFloor (prb.retries + 1))) none (Or.inr rfl)
  obtain ⟨q, hm, hp⟩ := hq
  split <;> exact ⟨q, by simp only [Prog.run_pure, update_queue]; exact hm, hp⟩

theorem unmark_success : ∀ (g : Goal) (w : Status), Status.has (successStatus g w) (retryMark g) = false := by
  intro g; cases g <;> decide

theorem unmark_failure : ∀ (g : Goal) (w : Status), Status.has (failureStatus g w) (retryMark g) = false := by
  intro g; cases g <;> decide

/-- **the holder ran to completion without faults**: whatever the outcome, the mark it was responsible for is
cleared (success, final failure) or backed again by the re-queued probe (retry) -/
theorem probe_run_backed (prb : Probe) (outcome : Option ProbeResult) (s : AbsState) (now : Int)
    (hb : BackedExcept s prb.addr prb.goal) (hk : Keyed s)
    (hcanon : ∀ (row : SRow), s.servers[prb.addr.key]? = some row → row.svr.addr = prb.addr) :
    Backed ((UC.probe prb outcome).run s now).1 := by
  have hfin := (probe_good (fun _ => True) prb outcome (E := fun _ _ => False) (R := fun x => x = prb.addr) rfl).backedExcept
    (List.replicate ((UC.probe prb outcome).runSteps s now) .ok) s now hb hk hcanon
  rw [runChoices_all_ok _ _ _ _ (Nat.le_refl _)] at hfin
  cases hrow : s.servers[prb.addr.key]? with
  | none =>
    rw [probe_run_none _ _ _ _ hrow]
    exact backed_of_except_unmarked hb hk (fun row hr => by rw [hrow] at hr; cases hr)
  | some ex =>
    have hkey := hk _ _ hrow
    cases outcome with
    | some res =>
      refine backed_of_except_unmarked hfin.1 hfin.2 (fun row hr => ?_)
      rw [probe_run_success _ _ _ _ ex hrow hk] at hr
      have hkey' : (handleSuccess prb.goal res now ex.svr).addr.key = prb.addr.key := by rw [handleSuccess_addr]; exact hkey
      rw [← hkey', save_row] at hr
      cases hr
      show Status.has (handleSuccess prb.goal res now ex.svr).status (retryMark prb.goal) = false
      rw [handleSuccess_status]
      exact unmark_success _ _
    | none =>
      by_cases hout : prb.retries < prb.maxRetries
      · exact backed_of_except_inq hfin.1 (probe_run_retry prb s now ex hrow hout)
      · refine backed_of_except_unmarked hfin.1 hfin.2 (fun row hr => ?_)
        rw [probe_run_fail _ _ _ ex hrow hk (by omega)] at hr
        have hkey' : (handleFailure prb.goal ex.svr).addr.key = prb.addr.key := hkey
        rw [← hkey', save_row] at hr
        cases hr
        exact unmark_failure _ _

/-- `probeserver.Execute` issues at most four calls (lookup, clock, enqueue, update) -/
theorem probe_runSteps_le (prb : Probe) (outcome : Option ProbeResult) (s : AbsState) (now : Int) :
    (UC.probe prb outcome).runSteps s now ≤ 4 := by
  simp only [UC.probe, Prog.runSteps, Call.exec]
  cases s.get prb.addr with
  | error e => simp [Prog.runSteps, pure]
  | ok svr =>
    cases outcome with
    | some res =>
      simp only [Prog.runSteps, Call.exec]
      split <;> simp [Prog.runSteps, pure]
    | none =>
      simp only [probeRetry, Probe.incRetries, probeFail]
      split
      · simp only [Bool.not_false, if_true, Prog.runSteps, Call.exec]
        split <;> simp [Prog.runSteps, pure]
      · simp only [Bool.not_true, Bool.false_eq_true, if_false, Prog.runSteps, Call.exec]
        split <;> simp [Prog.runSteps, pure]

theorem backedB_iff (s : AbsState) : backedB s = true ↔ Backed s := by
  unfold backedB Backed
  simp only [List.all_eq_true, List.any_eq_true, Bool.or_eq_true, Bool.not_eq_true', Bool.and_eq_true, beq_iff_eq]
  constructor
  · intro h k row g hr hm
    have hmem : (k, row) ∈ s.servers.toList := ExtTreeMap.mem_toList_iff_getElem?_eq_some.2 hr
    have := h (k, row) hmem g (by cases g <;> simp)
    rcases this with hf | hq
    · rw [hm] at hf; cases hf
    · exact hq
  · intro h kv hmem g _
    have hr : s.servers[kv.1]? = some kv.2 := ExtTreeMap.mem_toList_iff_getElem?_eq_some.1 hmem
    cases hm : Status.has kv.2.svr.status (retryMark g) with
    | false => exact Or.inl rfl
    | true => exact Or.inr (h kv.1 kv.2 g hr hm)

/-! ## the witness of the holder-loss finding -/

namespace W
/-- server A -/
def A : Addr := ⟨1, 10480⟩
/-- A's record: reported, awaiting a port retry -/
def svr : Server := { addr := A, queryPort := 10481, status := Status.master ||| Status.info ||| Status.portRetry, info := [], details := ⟨[], [], []⟩, refreshedAt := some 0, version := 2 }
/-- the registry holds A, the queue is empty: the only port probe for A has been popped -/
def state : AbsState := { servers := (∅ : ExtTreeMap Nat SRow).insert A.key ⟨svr, 0⟩, queue := [], nextId := 1 }
/-- the popped probe, held by the prober -/
def probe : Probe := ⟨A, 10480, .port, 0, 2⟩

theorem state_row (k : Nat) (row : SRow) (h : state.servers[k]? = some row) : k = A.key ∧ row = ⟨svr, 0⟩ := by
  simp only [state, ExtTreeMap.getElem?_insert] at h
  split at h
  · rename_i hk
    cases h
    exact ⟨by simpa using Eq.symm (by simpa using hk : A.key = k), rfl⟩
  · simp at h

theorem state_keyed : Keyed state := by
  intro k row h
  obtain ⟨rfl, rfl⟩ := state_row k row h
  rfl

theorem state_backedExcept : BackedExcept state A .port := by
  intro k row g h hm
  obtain ⟨rfl, rfl⟩ := state_row k row h
  cases g with
  | details => exact absurd hm (by decide)
  | port => exact Or.inl ⟨rfl, rfl⟩

theorem state_canon (row : SRow) (h : state.servers[A.key]? = some row) : row.svr.addr = A := by
  obtain ⟨_, rfl⟩ := state_row _ row h
  rfl
end W

end C16
end Swat4
