import Swat4.Lemmas.C13Race
/-!
# C13: from the `Prog`-level race histories (`raceRun`, `raceRunL`) to the system model `USys` the driver replays

`USys.stepT (.call i)` lets client `i` perform its pending call at `callClock` and then, eagerly, the silent calls that
follow (`settle`: clock reads are not scheduling points).  For `probeserver.Execute` this means: the clock read of the
retry / success branch happens **together with the `Get`**, at the clock value of the `Get`'s commit — not after the
concurrent activity.  This file computes the three scheduled calls of a retried probe (`Get`, `AddBetween`, `Update`), the
two of a successful or finally failed one, inside an arbitrary `USys`, with arbitrary events of the other clients and
clock ticks in between.
-/
namespace Swat4.C13Run
open Swat4 Swat4.UC Std Swat4.VerMono Swat4.RowInv Swat4.USysInd

/-- a started, live client performs its pending call: head call at `callClock`, then the silent calls at the clock -/
theorem step_call_started (u : USys) (i : Nat) (c : UClient) (hc : u.clients[i]? = some c) (hl : c.live = true)
    (hs : c.started = true) :
    u.step (.call i) =
      { u with
        abs := (({ c with prog := (c.prog.step1 u.abs (c.callClock u.clock)).2 } : UClient).settle
                  (c.prog.step1 u.abs (c.callClock u.clock)).1 u.clock).1,
        clients := u.clients.set i
          (({ c with prog := (c.prog.step1 u.abs (c.callClock u.clock)).2 } : UClient).settle
                  (c.prog.step1 u.abs (c.callClock u.clock)).1 u.clock).2.1 } := by
  have hc0 : ({ c with started := true } : UClient) = c := by
    cases c; simp only at hs; subst hs; rfl
  simp only [USys.step, USys.stepT, hc, hl, hs, Bool.not_true, Bool.false_eq_true, if_false, if_true, hc0]

/-- rendering the result of a use case (what every client of the system model does) -/
abbrev rendered {α : Type} (p : Prog α) (g : α → String) : Prog String := p.bind fun a => pure (g a)

theorem live_of_call {β : Type} (c : UClient) (cl : Call β) (k : β → Prog String) (hp : c.prog = .call cl k) (hd : c.dead = false) :
    c.live = true := by
  simp [UClient.live, hd, hp, Prog.result?]

/-! ## the three scheduled calls of a retried probe -/

/-- **`Get`** (with the eager clock read): the store is unchanged; the client now waits at its `AddBetween`, whose ready
time is already fixed: the clock value of this step plus the delay -/
theorem usys_retry_get (u : USys) (i : Nat) (c : UClient) (g : ProbeEnd → String) (prb : Probe) (r0 : Server) (u0 : Int)
    (hc : u.clients[i]? = some c) (hp : c.prog = rendered (probe prb none) g) (hs : c.started = true) (hd : c.dead = false)
    (hrow0 : u.abs.getRow prb.addr = some ⟨r0, u0⟩) (h : prb.retries < prb.maxRetries) :
    u.step (.call i) =
      { u with clients := u.clients.set i { c with prog := rendered (retryAfterNow prb r0 u.clock) g, arrival := u.clock } } := by
  have hp' : c.prog = .call (.getServer prb.addr) fun r =>
      rendered (match r with
        | .error e => pure (.error (.repo e))
        | .ok svr => probeRetry prb svr) g := by rw [hp, probe_unfold]; rfl
  rw [step_call_started u i c hc (live_of_call c _ _ hp' hd) hs]
  simp only [hp', Prog.step1, Call.exec, AbsState.get, hrow0, UClient.settle]
  rw [probeRetry_unfold prb r0 h]
  rfl

/-- **`AddBetween`**: the re-queued probe is appended, ready at the time fixed at the `Get` -/
theorem usys_retry_enqueue (u : USys) (i : Nat) (c : UClient) (g : ProbeEnd → String) (prb : Probe) (r0 : Server) (tn : Int)
    (hc : u.clients[i]? = some c) (hp : c.prog = rendered (retryAfterNow prb r0 tn) g) (hs : c.started = true) (hd : c.dead = false) :
    u.step (.call i) =
      { u with abs := queued u.abs { prb with retries := prb.retries + 1 } (tn + second * expFloor (prb.retries + 1)),
               clients := u.clients.set i { c with prog := rendered (retryAfterNow.probeRetryUpdate prb r0) g, arrival := u.clock } } := by
  have hp' : c.prog = .call (.enqueue { prb with retries := prb.retries + 1 } (some (tn + second * expFloor (prb.retries + 1))) none) fun r =>
      rendered (match r with
        | .error e => pure (.error (.repo e))
        | .ok _ => retryAfterNow.probeRetryUpdate prb r0) g := by rw [hp]; rfl
  rw [step_call_started u i c hc (live_of_call c _ _ hp' hd) hs]
  simp only [hp', Prog.step1, Call.exec, enqueue_after_eq, UClient.settle]
  rfl

/-- **`Update`**, when the store holds `w` (the record the `Get` returned, or a newer one) under the probe's key -/
theorem usys_retry_update (u : USys) (i : Nat) (c : UClient) (g : ProbeEnd → String) (prb : Probe) (r0 w : Server) (uw : Int)
    (hc : u.clients[i]? = some c) (hp : c.prog = rendered (retryAfterNow.probeRetryUpdate prb r0) g) (hs : c.started = true)
    (hd : c.dead = false)
    (hw : u.abs.getRow prb.addr = some ⟨w, uw⟩) (hkr : r0.addr.key = prb.addr.key) (hkw : w.addr.key = prb.addr.key)
    (hmono : w.version > r0.version ∨ w = r0) :
    u.step (.call i) =
      { u with abs := { u.abs with servers := u.abs.servers.insert prb.addr.key ⟨{ handleRetry prb.goal w with version := w.version + 1 }, u.clock⟩ },
               clients := u.clients.set i { c with prog := .ret (g .retried), arrival := u.clock } } := by
  have hp' : c.prog = .call (.updateServer (handleRetry prb.goal r0) fun s => some (handleRetry prb.goal s)) fun r =>
      rendered (match r with
        | .error e => pure (.error (.repo e))
        | .ok _ => pure .retried) g := by rw [hp]; rfl
  rw [step_call_started u i c hc (live_of_call c _ _ hp' hd) hs]
  have hcc : c.callClock u.clock = u.clock := by simp [UClient.callClock, hp', Prog.headAtArrival, Call.clockAtArrival]
  simp only [hp', Prog.step1, hcc, exec_updateServer, UClient.settle]
  rw [update_eq_key _ u.clock (handleRetry prb.goal) r0 w uw (handleRetry_keeps _) (by rw [getRow_key hkr]; exact hw)
    (hkw.trans hkr.symm) hmono, hkr]
  rfl

end Swat4.C13Run
