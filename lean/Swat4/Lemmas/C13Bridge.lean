import Swat4.Lemmas.C13Race
/-!
# C13: from the `Prog`-level race histories (`raceRun`, `raceRunL`) to the system model `USys` the driver replays

`USys.stepT (.call i)` lets client `i` perform its pending call at `callClock` and then, eagerly, the silent calls that
follow (`settle`: clock reads are not scheduling points).  For `probeserver.Execute` this means: the clock read of the
retry / success branch happens **together with the `Get`**, at the clock value of the `Get`'s commit — not after the
concurrent activity.  This file computes the three scheduled calls of a retried probe (`Get`, `AddBetween`, `Update`), the
two of a successful or finally failed one, inside an arbitrary `USys`, with arbitrary events of the other clients and
clock ticks in between.
-/
namespace Swat4.C13Run
open Swat4 Swat4.UC Std Swat4.VerMono Swat4.RowInv Swat4.USysInd

/-- a started, live client performs its pending call: head call at `callClock`, then the silent calls at the clock -/
theorem step_call_started (u : USys) (i : Nat) (c : UClient) (hc : u.clients[i]? = some c) (hl : c.live = true)
    (hs : c.started = true) :
    u.step (.call i) =
      { u with
        abs := (({ c with prog := (c.prog.step1 u.abs (c.callClock u.clock)).2 } : UClient).settle
                  (c.prog.step1 u.abs (c.callClock u.clock)).1 u.clock).1,
        clients := u.clients.set i
          (({ c with prog := (c.prog.step1 u.abs (c.callClock u.clock)).2 } : UClient).settle
                  (c.prog.step1 u.abs (c.callClock u.clock)).1 u.clock).2.1 } := by
  have hc0 : ({ c with started := true } : UClient) = c := by
    cases c; simp only at hs; subst hs; rfl
  simp only [USys.step, USys.stepT, hc, hl, hs, Bool.not_true, Bool.false_eq_true, if_false, if_true, hc0]

/-- rendering the result of a use case (what every client of the system model does) -/
abbrev rendered {α : Type} (p : Prog α) (g : α → String) : Prog String := p.bind fun a => pure (g a)

theorem live_of_call {β : Type} (c : UClient) (cl : Call β) (k : β → Prog String) (hp : c.prog = .call cl k) (hd : c.dead = false) :
    c.live = true := by
  simp [UClient.live, hd, hp, Prog.result?]

/-! ## the three scheduled calls of a retried probe -/

/-- **`Get`** (with the eager clock read): the store is unchanged; the client now waits at its `AddBetween`, whose ready
time is already fixed: the clock value of this step plus the delay -/
theorem usys_retry_get (u : USys) (i : Nat) (c : UClient) (g : ProbeEnd → String) (prb : Probe) (r0 : Server) (u0 : Int)
    (hc : u.clients[i]? = some c) (hp : c.prog = rendered (probe prb none) g) (hs : c.started = true) (hd : c.dead = false)
    (hrow0 : u.abs.getRow prb.addr = some ⟨r0, u0⟩) (h : prb.retries < prb.maxRetries) :
    u.step (.call i) =
      { u with clients := u.clients.set i { c with prog := rendered (retryAfterNow prb r0 u.clock) g, arrival := u.clock } } := by
  have hp' : c.prog = .call (.getServer prb.addr) fun r =>
      rendered (match r with
        | .error e => pure (.error (.repo e))
        | .ok svr => probeRetry prb svr) g := by rw [hp, probe_unfold]; rfl
  rw [step_call_started u i c hc (live_of_call c _ _ hp' hd) hs]
  simp only [hp', Prog.step1, Call.exec, AbsState.get, hrow0, UClient.settle]
  rw [probeRetry_unfold prb r0 h]
  rfl

/-- **`AddBetween`**: the re-queued probe is appended, ready at the time fixed at the `Get` -/
theorem usys_retry_enqueue (u : USys) (i : Nat) (c : UClient) (g : ProbeEnd → String) (prb : Probe) (r0 : Server) (tn : Int)
    (hc : u.clients[i]? = some c) (hp : c.prog = rendered (retryAfterNow prb r0 tn) g) (hs : c.started = true) (hd : c.dead = false) :
    u.step (.call i) =
      { u with abs := queued u.abs { prb with retries := prb.retries + 1 } (tn + second * expFloor (prb.retries + 1)),
               clients := u.clients.set i { c with prog := rendered (retryAfterNow.probeRetryUpdate prb r0) g, arrival := u.clock } } := by
  have hp' : c.prog = .call (.enqueue { prb with retries := prb.retries + 1 } (some (tn + second * expFloor (prb.retries + 1))) none) fun r =>
      rendered (match r with
        | .error e => pure (.error (.repo e))
        | .ok _ => retryAfterNow.probeRetryUpdate prb r0) g := by rw [hp]; rfl
  rw [step_call_started u i c hc (live_of_call c _ _ hp' hd) hs]
  simp only [hp', Prog.step1, Call.exec, enqueue_after_eq, UClient.settle]
  rfl

/-- **`Update`**: the registry call at the current clock; the client finishes -/
theorem usys_retry_update (u : USys) (i : Nat) (c : UClient) (g : ProbeEnd → String) (prb : Probe) (r0 : Server)
    (hc : u.clients[i]? = some c) (hp : c.prog = rendered (retryAfterNow.probeRetryUpdate prb r0) g) (hs : c.started = true)
    (hd : c.dead = false) :
    u.step (.call i) =
      { u with abs := ((retryAfterNow.probeRetryUpdate prb r0).run u.abs u.clock).1,
               clients := u.clients.set i { c with prog := .ret (g ((retryAfterNow.probeRetryUpdate prb r0).run u.abs u.clock).2), arrival := u.clock } } := by
  have hp' : c.prog = .call (.updateServer (handleRetry prb.goal r0) fun s => some (handleRetry prb.goal s)) fun r =>
      rendered (match r with
        | .error e => pure (.error (.repo e))
        | .ok _ => pure .retried) g := by rw [hp]; rfl
  rw [step_call_started u i c hc (live_of_call c _ _ hp' hd) hs]
  have hcc : c.callClock u.clock = u.clock := by simp [UClient.callClock, hp', Prog.headAtArrival, Call.clockAtArrival]
  simp only [hp', Prog.step1, hcc, exec_updateServer, UClient.settle, retryAfterNow.probeRetryUpdate, Prog.run_call]
  generalize u.abs.update u.clock (handleRetry prb.goal r0) (fun s => some (handleRetry prb.goal s)) = res
  obtain ⟨a, r⟩ := res
  cases r <;> rfl

/-! ## the whole schedule -/

/-- events that do not schedule client `i` -/
abbrev NotMe (i : Nat) : Nat → Prop := fun j => j ≠ i

theorem set_self {l : List UClient} {i : Nat} {c c' : UClient} (h : l[i]? = some c) : (l.set i c')[i]? = some c' := by
  have : i < l.length := by
    rcases Nat.lt_or_ge i l.length with h' | h'
    · exact h'
    · rw [List.getElem?_eq_none h'] at h; cases h
  simp [List.getElem?_set, this]

/-- a run of the others: client `i` is where it was, the clock moved by the ticks, and the store is the others' function of
the store -/
theorem others_run_frozen (u : USys) (i : Nat) (es : List UEv) (hes : ∀ e ∈ es, EvOK (NotMe i) e) :
    (u.run es).clients[i]? = u.clients[i]? ∧ (u.run es).clock = u.clock + ticks es :=
  ⟨run_frozen es u hes i (fun h => h rfl), run_clock es u⟩

/-- **bridge, retry: the system model's schedule is a `raceRunL` history.**  Inside any `USys` `u`, client `i` is a started
probe client about to `Get` a stored record, budget left.  It performs its three scheduled calls; between them arbitrary
events `es1`, `es2` of the *other* clients (their calls, crashes, faults) and clock ticks happen.  The resulting store is
that of the `Prog`-level history in which the probe performs **two** calls — `Get` *and* `clock.Now()` — at the clock value
`u.clock` of the first step, then the others act (`F1`: `es1` as a function of the store), then the `AddBetween`, then the
others (`F2`), then the `Update` at the clock value reached, `u.clock + ticks es1 + ticks es2`.  No hypothesis on the other
clients is needed for this equation. -/
theorem usys_retry_bridge (u : USys) (i : Nat) (c : UClient) (g : ProbeEnd → String) (prb : Probe) (r0 : Server) (u0 : Int)
    (hc : u.clients[i]? = some c) (hp : c.prog = rendered (probe prb none) g) (hs : c.started = true) (hd : c.dead = false)
    (hrow0 : u.abs.getRow prb.addr = some ⟨r0, u0⟩) (h : prb.retries < prb.maxRetries)
    (es1 es2 : List UEv) (hes1 : ∀ e ∈ es1, EvOK (NotMe i) e) (hes2 : ∀ e ∈ es2, EvOK (NotMe i) e)
    (u1 u2 u3 u4 u5 : USys) (h1 : u1 = u.step (.call i)) (h2 : u2 = u1.run es1) (h3 : u3 = u2.step (.call i))
    (h4 : u4 = u3.run es2) (h5 : u5 = u4.step (.call i)) (te : Int) :
    u5.abs = (raceRunL (probe prb none)
        [(2, u.clock, fun s => (({ u1 with abs := s } : USys).run es1).abs),
         (1, te, fun s => (({ u3 with abs := s } : USys).run es2).abs)] (u.clock + ticks es1 + ticks es2) u.abs).1 ∧
      u1.abs = u.abs ∧
      u3.abs = queued u2.abs { prb with retries := prb.retries + 1 } (u.clock + second * expFloor (prb.retries + 1)) ∧
      u4.clock = u.clock + ticks es1 + ticks es2 ∧
      u5.clients[i]? = some { c with prog := .ret (g ((retryAfterNow.probeRetryUpdate prb r0).run u4.abs u4.clock).2), arrival := u4.clock } := by
  have e1 := usys_retry_get u i c g prb r0 u0 hc hp hs hd hrow0 h
  rw [← h1] at e1
  have hc1 : u1.clients[i]? = some { c with prog := rendered (retryAfterNow prb r0 u.clock) g, arrival := u.clock } := by
    rw [e1]; exact set_self hc
  have f2 := others_run_frozen u1 i es1 hes1
  rw [← h2] at f2
  have hc2 := f2.1.trans hc1
  have e3 := usys_retry_enqueue u2 i _ g prb r0 u.clock hc2 rfl hs hd
  rw [← h3] at e3
  have hc3 : u3.clients[i]? = some { c with prog := rendered (retryAfterNow.probeRetryUpdate prb r0) g, arrival := u2.clock } := by
    rw [e3]; exact set_self hc2
  have f4 := others_run_frozen u3 i es2 hes2
  rw [← h4] at f4
  have hc4 := f4.1.trans hc3
  have e5 := usys_retry_update u4 i _ g prb r0 hc4 rfl hs hd
  rw [← h5] at e5
  have hclk1 : u1.clock = u.clock := by rw [e1]
  have hclk3 : u3.clock = u2.clock := by rw [e3]
  have hclk4 : u4.clock = u.clock + ticks es1 + ticks es2 := by rw [f4.2, hclk3, f2.2, hclk1]
  have habs1 : u1.abs = u.abs := by rw [e1]
  have hu1 : ({ u1 with abs := u.abs } : USys) = u1 := by rw [← habs1]
  have habs3 : u3.abs = queued u2.abs { prb with retries := prb.retries + 1 } (u.clock + second * expFloor (prb.retries + 1)) := by
    rw [e3]
  have hu3 : ({ u3 with abs := queued u2.abs { prb with retries := prb.retries + 1 } (u.clock + second * expFloor (prb.retries + 1)) } : USys) = u3 := by
    rw [← habs3]
  refine ⟨?_, habs1, habs3, hclk4, ?_⟩
  · have hstep2 : stepN 2 (probe prb none) u.abs u.clock = (u.abs, retryAfterNow prb r0 u.clock) := by
      rw [show (2 : Nat) = 1 + 1 from rfl, stepN_add, probe_step_get u.abs u.clock prb none r0 u0 hrow0]
      exact probeRetry_step_now prb r0 h u.abs u.clock
    simp only [raceRunL, hstep2, hu1, ← h2, retryAfterNow_step, hu3, ← h4]
    rw [e5, hclk4]
  · rw [e5]; exact set_self hc4

end Swat4.C13Run

namespace Swat4.C13Run
open Swat4 Swat4.UC Std Swat4.VerMono Swat4.RowInv Swat4.USysInd

/-- **the system model's retried probe with arbitrary other clients, explicit result.**  As `usys_retry_bridge`, and the
other clients (any number, any interleaving of their calls, crashes and faults, any ticks) never `Remove` and pass stable
conflict callbacks (`ProgStable`: heartbeat, keepalive, other probes, REST submission, refresh, revival, listing).  Then the
store in which the probe's `Update` runs holds a record `w` under the probe's key that is the record the `Get` returned or a
newer one, and the `Update` stores `handleRetry goal w` one version up, stamped with the clock value of that step; nothing
else changes; the client reports `retried`. -/
theorem usys_probe_retry_any (u : USys) (i : Nat) (c : UClient) (g : ProbeEnd → String) (prb : Probe) (r0 : Server) (u0 : Int)
    (hc : u.clients[i]? = some c) (hp : c.prog = rendered (probe prb none) g) (hs : c.started = true) (hd : c.dead = false)
    (hrow0 : u.abs.getRow prb.addr = some ⟨r0, u0⟩) (h : prb.retries < prb.maxRetries)
    (hk : Keyed u.abs) (hcl : ∀ (j : Nat) (c' : UClient), j ≠ i → u.clients[j]? = some c' → ProgStable c'.prog)
    (es1 es2 : List UEv) (hes1 : ∀ e ∈ es1, EvOK (NotMe i) e) (hes2 : ∀ e ∈ es2, EvOK (NotMe i) e)
    (u1 u2 u3 u4 u5 : USys) (h1 : u1 = u.step (.call i)) (h2 : u2 = u1.run es1) (h3 : u3 = u2.step (.call i))
    (h4 : u4 = u3.run es2) (h5 : u5 = u4.step (.call i)) :
    ∃ (w : Server) (uw : Int), u4.abs.getRow prb.addr = some ⟨w, uw⟩ ∧ (w.version > r0.version ∨ w = r0) ∧
      u5.abs = { u4.abs with servers := u4.abs.servers.insert prb.addr.key ⟨{ handleRetry prb.goal w with version := w.version + 1 }, u4.clock⟩ } ∧
      u5.clients[i]? = some { c with prog := .ret (g .retried), arrival := u4.clock } := by
  have e1 := usys_retry_get u i c g prb r0 u0 hc hp hs hd hrow0 h
  rw [← h1] at e1
  have hc1 : u1.clients[i]? = some { c with prog := rendered (retryAfterNow prb r0 u.clock) g, arrival := u.clock } := by
    rw [e1]; exact set_self hc
  have hoth1 : ∀ (j : Nat) (c' : UClient), NotMe i j → u1.clients[j]? = some c' → ProgStable c'.prog := by
    intro j c' hj hc'
    rw [e1] at hc'
    have : (u.clients.set i { c with prog := rendered (retryAfterNow prb r0 u.clock) g, arrival := u.clock })[j]? = u.clients[j]? := by
      simp [List.getElem?_set, Ne.symm hj]
    exact hcl j c' hj (this ▸ hc')
  have habs1 : u1.abs = u.abs := by rw [e1]
  have m2 := usys_run_mono (NotMe i) u1 es1 hes1 (habs1 ▸ hk) hoth1
  rw [← h2] at m2
  have hc2 : u2.clients[i]? = some { c with prog := rendered (retryAfterNow prb r0 u.clock) g, arrival := u.clock } :=
    (m2.2.2.2 i (fun hh => hh rfl)).trans hc1
  have e3 := usys_retry_enqueue u2 i _ g prb r0 u.clock hc2 rfl hs hd
  rw [← h3] at e3
  have hc3 : u3.clients[i]? = some { c with prog := rendered (retryAfterNow.probeRetryUpdate prb r0) g, arrival := u2.clock } := by
    rw [e3]; exact set_self hc2
  have hoth3 : ∀ (j : Nat) (c' : UClient), NotMe i j → u3.clients[j]? = some c' → ProgStable c'.prog := by
    intro j c' hj hc'
    rw [e3] at hc'
    have : (u2.clients.set i { ({ c with prog := rendered (retryAfterNow prb r0 u.clock) g, arrival := u.clock } : UClient) with
        prog := rendered (retryAfterNow.probeRetryUpdate prb r0) g, arrival := u2.clock })[j]? = u2.clients[j]? := by
      simp [List.getElem?_set, Ne.symm hj]
    exact m2.2.2.1 j c' hj (this ▸ hc')
  have habs3 : u3.abs = queued u2.abs { prb with retries := prb.retries + 1 } (u.clock + second * expFloor (prb.retries + 1)) := by
    rw [e3]
  have hk3 : Keyed u3.abs := by rw [habs3]; exact keyed_queued m2.1 _ _
  have m4 := usys_run_mono (NotMe i) u3 es2 hes2 hk3 hoth3
  rw [← h4] at m4
  have hc4 : u4.clients[i]? = some { c with prog := rendered (retryAfterNow.probeRetryUpdate prb r0) g, arrival := u2.clock } :=
    (m4.2.2.2 i (fun hh => hh rfl)).trans hc3
  have e5 := usys_retry_update u4 i _ g prb r0 hc4 rfl hs hd
  rw [← h5] at e5
  have hmono : Mono u.abs u4.abs := by
    have a : Mono u.abs u2.abs := habs1 ▸ m2.2.1
    have b : Mono u2.abs u3.abs := by rw [habs3]; exact Mono.of_servers rfl
    exact (a.trans b).trans m4.2.1
  obtain ⟨w, uw, hw, hrel, hkr, hkw⟩ := latest_of_mono hk m4.1 prb.addr (hmono prb.addr.key) r0 u0 hrow0
  refine ⟨w, uw, hw, hrel, ?_, ?_⟩
  · rw [e5]
    simp only [retryAfterNow.probeRetryUpdate, Prog.run_call, exec_updateServer]
    rw [update_eq_key _ u4.clock (handleRetry prb.goal) r0 w uw (handleRetry_keeps _) (by rw [getRow_key hkr]; exact hw)
      (hkw.trans hkr.symm) hrel, hkr]
    rfl
  · rw [e5]
    have : ((retryAfterNow.probeRetryUpdate prb r0).run u4.abs u4.clock).2 = .retried := by
      simp only [retryAfterNow.probeRetryUpdate, Prog.run_call, exec_updateServer]
      rw [update_eq_key _ u4.clock (handleRetry prb.goal) r0 w uw (handleRetry_keeps _) (by rw [getRow_key hkr]; exact hw)
        (hkw.trans hkr.symm) hrel]
      rfl
    rw [this]; exact set_self hc4

/-! ## two clients: the schedule of `raceRun` -/

/-- the re-queued probe of a retried probe in a `raceRun` history with the concurrent call after the probe's first or
second call: ready `⌊e^(retries+1)⌋` s after `now` (placement 1: the clock is read after the concurrent call) or after `t0`
(placement 2: it was read before) -/
theorem raceRun_retry_queue {β : Type} (k : Nat) (hk12 : k = 1 ∨ k = 2) (s0 : AbsState) (t0 tW now : Int) (prb : Probe) (r0 : Server)
    (u0 : Int) (W : Call β) (hrow0 : s0.getRow prb.addr = some ⟨r0, u0⟩) (h : prb.retries < prb.maxRetries) :
    (raceRun (probe prb none) k t0 W tW now s0).1.queue =
      (W.exec s0 tW).1.queue ++ [⟨(W.exec s0 tW).1.nextId, { prb with retries := prb.retries + 1 },
        (if k = 1 then now else t0) + second * expFloor (prb.retries + 1), none⟩] := by
  rcases hk12 with rfl | rfl
  · unfold raceRun
    rw [probe_step_get s0 t0 prb none r0 u0 hrow0]
    simp only
    rw [probeRetry_unfold prb r0 h]
    simp only [Prog.run_call, exec_now, exec_enqueue, enqueue_after_eq, exec_updateServer, if_true]
    cases hr : ((queued (W.exec s0 tW).1 { prb with retries := prb.retries + 1 } (now + second * expFloor (prb.retries + 1))).update now
      (handleRetry prb.goal r0) fun s => some (handleRetry prb.goal s)).2 <;>
      simp only [Prog.run_pure, C16.update_queue] <;> rfl
  · unfold raceRun
    rw [show (2 : Nat) = 1 + 1 from rfl, stepN_add, probe_step_get s0 t0 prb none r0 u0 hrow0]
    simp only
    rw [probeRetry_step_now prb r0 h]
    simp only [retryAfterNow, retryAfterNow.probeRetryUpdate, Prog.run_call, exec_enqueue, enqueue_after_eq, exec_updateServer,
      show ¬ (1 + 1 = 1) by decide, if_false]
    cases hr : ((queued (W.exec s0 tW).1 { prb with retries := prb.retries + 1 } (t0 + second * expFloor (prb.retries + 1))).update now
      (handleRetry prb.goal r0) fun s => some (handleRetry prb.goal s)).2 <;>
      simp only [Prog.run_pure, C16.update_queue] <;> rfl

/-- with no clock movement, reading the clock before or after the concurrent call makes no difference -/
theorem raceRun_two_eq_one {β : Type} (s0 : AbsState) (t tW : Int) (prb : Probe) (r0 : Server) (u0 : Int) (W : Call β)
    (hrow0 : s0.getRow prb.addr = some ⟨r0, u0⟩) (h : prb.retries < prb.maxRetries) :
    raceRun (probe prb none) 2 t W tW t s0 = raceRun (probe prb none) 1 t W tW t s0 := by
  unfold raceRun
  rw [show (2 : Nat) = 1 + 1 from rfl, stepN_add, probe_step_get s0 t prb none r0 u0 hrow0]
  simp only
  rw [probeRetry_step_now prb r0 h]
  simp only
  rw [probeRetry_unfold prb r0 h]
  rfl

/-- the system of two clients: the probe (about to `Get`) and a client whose pending, only call is `W` -/
def twoClients (s0 : AbsState) (t : Int) (prb : Probe) (g : ProbeEnd → String) {β : Type} (W : Call β) (gW : β → String) (aW : Int) : USys :=
  { abs := s0, clock := t,
    clients := [{ prog := rendered (probe prb none) g, started := true, arrival := t },
                { prog := .call W fun b => .ret (gW b), started := true, arrival := aW }] }

/-- the schedule "probe's call, `W`, the probe's remaining calls" with ticks `d1 d2 d3` in between -/
def raceSchedule (d1 d2 d3 : Int) : List UEv := [.call 0, .tick d1, .call 1, .tick d2, .call 0, .tick d3, .call 0]

/-- the clock value `W` works with in that schedule: the current clock, or the client's arrival time for the calls that
read the clock when they start -/
def wClock {β : Type} (W : Call β) (aW t : Int) : Int := if W.clockAtArrival then aW else t

/-- **bridge to `raceRun` (two clients, any ticks).**  The system model run of the probe client and a client performing
the single call `W` under the schedule "probe's `Get`, tick, `W`, tick, probe's `AddBetween`, tick, probe's `Update`"
ends in the store of `raceRun (probe prb none) 2 …`: the `Prog`-level history in which the probe performs its first **two**
calls (`Get` and the clock read) at `t`, then `W` commits, then the rest runs at the final clock value.  No hypothesis on
`W`. -/
theorem usys_two_clients_retry {β : Type} (s0 : AbsState) (t : Int) (prb : Probe) (g : ProbeEnd → String) (W : Call β) (gW : β → String)
    (aW d1 d2 d3 : Int) (r0 : Server) (u0 : Int)
    (hrow0 : s0.getRow prb.addr = some ⟨r0, u0⟩) (h : prb.retries < prb.maxRetries) (hd : 0 ≤ d1 ∧ 0 ≤ d2 ∧ 0 ≤ d3) :
    ((twoClients s0 t prb g W gW aW).run (raceSchedule d1 d2 d3)).abs =
      (raceRun (probe prb none) 2 t W (wClock W aW (t + d1)) (t + d1 + d2 + d3) s0).1 := by
  have hb := usys_retry_bridge (twoClients s0 t prb g W gW aW) 0 _ g prb r0 u0 rfl rfl rfl rfl hrow0 h
    [.tick d1, .call 1, .tick d2] [.tick d3]
    (by intro e he; simp only [List.mem_cons, List.not_mem_nil, or_false] at he
        rcases he with rfl | rfl | rfl
        · exact hd.1
        · exact (by decide : (1 : Nat) ≠ 0)
        · exact hd.2.1)
    (by intro e he; simp only [List.mem_singleton] at he; subst he; exact hd.2.2)
    _ _ _ _ _ rfl rfl rfl rfl rfl t
  have hrun : (twoClients s0 t prb g W gW aW).run (raceSchedule d1 d2 d3) =
      ((((((twoClients s0 t prb g W gW aW).step (.call 0)).run [.tick d1, .call 1, .tick d2]).step (.call 0)).run [.tick d3]).step (.call 0)) := rfl
  rw [hrun, hb.1]
  have e1 := usys_retry_get (twoClients s0 t prb g W gW aW) 0 _ g prb r0 u0 rfl rfl rfl rfl hrow0 h
  -- the others' activity between `Get` and `AddBetween` is `W`
  have hF1 : ∀ s : AbsState, (({ (twoClients s0 t prb g W gW aW).step (.call 0) with abs := s } : USys).run [.tick d1, .call 1, .tick d2]).abs =
      (W.exec s (wClock W aW (t + d1))).1 := by
    intro s
    rw [e1]
    simp only [run_cons, USys.run, List.foldl_nil]
    have hstep : ∀ (v : USys), v.clients[1]? = some ({ prog := .call W fun b => .ret (gW b), started := true, arrival := aW } : UClient) →
        (v.step (.call 1)).abs = (W.exec v.abs (wClock W aW v.clock)).1 := by
      intro v hv
      rw [step_call_started v 1 _ hv rfl rfl]
      simp only [Prog.step1, UClient.settle, UClient.callClock, Prog.headAtArrival, wClock]
      rfl
    show ((USys.step _ (.call 1)).step (.tick d2)).abs = _
    have : ∀ (v : USys) (d : Int), (v.step (.tick d)).abs = v.abs := fun _ _ => rfl
    rw [this, hstep _ rfl]
    rfl
  have hF2 : ∀ (v : USys) (s : AbsState), (({ v with abs := s } : USys).run [.tick d3]).abs = s := fun _ _ => rfl
  simp only [raceRunL, hF1, hF2]
  unfold raceRun
  have hstep2 : stepN 2 (probe prb none) s0 t = (s0, retryAfterNow prb r0 t) := by
    rw [show (2 : Nat) = 1 + 1 from rfl, stepN_add, probe_step_get s0 t prb none r0 u0 hrow0]
    exact probeRetry_step_now prb r0 h s0 t
  simp only [twoClients, hstep2, retryAfterNow_step, ticks]
  have : t + (d1 + (d2 + 0)) + (d3 + 0) = t + d1 + d2 + d3 := by omega
  rw [this]
  rfl

/-- **… and to `raceRun … 1 …`, the history of `probe_retry_race`, exactly when no tick separates the calls.**  Under the
same schedule the system model's store equals that of `raceRun (probe prb none) 1 t W tW now` (clock read *after* `W`, at the
final clock value) **iff** the ticks add up to zero: with a tick in between, the system model — like the real use case, which
reads the clock right after its `Get` returns — counts the retry delay from the clock value at the `Get`, the `raceRun … 1`
history from the clock value after `W`. -/
theorem usys_two_clients_retry_iff {β : Type} (s0 : AbsState) (t : Int) (prb : Probe) (g : ProbeEnd → String) (W : Call β) (gW : β → String)
    (aW d1 d2 d3 : Int) (r0 : Server) (u0 : Int)
    (hrow0 : s0.getRow prb.addr = some ⟨r0, u0⟩) (h : prb.retries < prb.maxRetries) (hd : 0 ≤ d1 ∧ 0 ≤ d2 ∧ 0 ≤ d3) :
    ((twoClients s0 t prb g W gW aW).run (raceSchedule d1 d2 d3)).abs =
        (raceRun (probe prb none) 1 t W (wClock W aW (t + d1)) (t + d1 + d2 + d3) s0).1 ↔ d1 = 0 ∧ d2 = 0 ∧ d3 = 0 := by
  rw [usys_two_clients_retry s0 t prb g W gW aW d1 d2 d3 r0 u0 hrow0 h hd]
  constructor
  · intro heq
    have hq := congrArg AbsState.queue heq
    rw [raceRun_retry_queue 2 (Or.inr rfl) s0 t _ _ prb r0 u0 W hrow0 h,
      raceRun_retry_queue 1 (Or.inl rfl) s0 t _ _ prb r0 u0 W hrow0 h] at hq
    simp only [show ¬ (2 = 1) by decide, if_false, if_true, List.append_cancel_left_eq, List.cons.injEq, and_true] at hq
    have := congrArg QItem.ready hq
    simp only at this
    omega
  · rintro ⟨rfl, rfl, rfl⟩
    simp only [Int.add_zero]
    rw [raceRun_two_eq_one s0 t _ prb r0 u0 W hrow0 h]

end Swat4.C13Run

namespace Swat4.C13Run
open Swat4 Swat4.UC Std Swat4.VerMono Swat4.RowInv Swat4.USysInd

/-! ## the success and final-failure branches: two scheduled calls -/

/-- the success branch after its clock read at `tn` -/
def successAfterNow (prb : Probe) (res : ProbeResult) (svr : Server) (tn : Int) : Prog ProbeEnd :=
  .call (.updateServerT (handleSuccess prb.goal res tn svr) fun t s => some (handleSuccess prb.goal res t s)) fun r =>
    match r with
    | .error e => pure (.error (.repo e))
    | .ok _ => pure .success

theorem probeSuccessRest_step_now (prb : Probe) (res : ProbeResult) (svr : Server) (s : AbsState) (tn : Int) :
    stepN 1 (probeSuccessRest prb res svr) s tn = (s, successAfterNow prb res svr tn) := rfl

/-- the single pending call of the `W` client -/
theorem wclient_step {β : Type} (v : USys) (W : Call β) (gW : β → String) (aW : Int)
    (hv : v.clients[1]? = some ({ prog := .call W fun b => .ret (gW b), started := true, arrival := aW } : UClient)) :
    (v.step (.call 1)).abs = (W.exec v.abs (wClock W aW v.clock)).1 ∧ (v.step (.call 1)).clock = v.clock ∧
      (v.step (.call 1)).clients[0]? = v.clients[0]? := by
  rw [step_call_started v 1 _ hv rfl rfl]
  refine ⟨?_, rfl, ?_⟩
  · simp only [Prog.step1, UClient.settle, UClient.callClock, Prog.headAtArrival, wClock]
    rfl
  · simp [List.getElem?_set]

/-- **`Get`** of a successful probe (with the eager clock read) -/
theorem usys_success_get (u : USys) (i : Nat) (c : UClient) (g : ProbeEnd → String) (prb : Probe) (res : ProbeResult) (r0 : Server)
    (u0 : Int) (hc : u.clients[i]? = some c) (hp : c.prog = rendered (probe prb (some res)) g) (hs : c.started = true)
    (hd : c.dead = false) (hrow0 : u.abs.getRow prb.addr = some ⟨r0, u0⟩) :
    u.step (.call i) =
      { u with clients := u.clients.set i { c with prog := rendered (successAfterNow prb res r0 u.clock) g, arrival := u.clock } } := by
  have hp' : c.prog = .call (.getServer prb.addr) fun r =>
      rendered (match r with
        | .error e => pure (.error (.repo e))
        | .ok svr => probeSuccessRest prb res svr) g := by rw [hp, probe_unfold]; rfl
  rw [step_call_started u i c hc (live_of_call c _ _ hp' hd) hs]
  simp only [hp', Prog.step1, Call.exec, AbsState.get, hrow0, UClient.settle]
  rfl

/-- **`Update`** of a successful probe: commits at the current clock (the conflict callback stamps that value) -/
theorem usys_success_update (u : USys) (i : Nat) (c : UClient) (g : ProbeEnd → String) (prb : Probe) (res : ProbeResult) (r0 : Server)
    (tn : Int) (hc : u.clients[i]? = some c) (hp : c.prog = rendered (successAfterNow prb res r0 tn) g) (hs : c.started = true)
    (hd : c.dead = false) :
    (u.step (.call i)).abs = ((successAfterNow prb res r0 tn).run u.abs u.clock).1 := by
  have hp' : c.prog = .call (.updateServerT (handleSuccess prb.goal res tn r0) fun t s => some (handleSuccess prb.goal res t s)) fun r =>
      rendered (match r with
        | .error e => pure (.error (.repo e))
        | .ok _ => pure .success) g := by rw [hp]; rfl
  rw [step_call_started u i c hc (live_of_call c _ _ hp' hd) hs]
  have hcc : c.callClock u.clock = u.clock := by simp [UClient.callClock, hp', Prog.headAtArrival, Call.clockAtArrival]
  simp only [hp', Prog.step1, hcc, exec_updateServerT, UClient.settle, successAfterNow, Prog.run_call]
  generalize u.abs.update u.clock (handleSuccess prb.goal res tn r0) (fun s => some (handleSuccess prb.goal res u.clock s)) = r
  obtain ⟨a, r⟩ := r
  cases r <;> rfl

/-- **`Update`** of a finally failed probe -/
theorem usys_fail_update (u : USys) (i : Nat) (c : UClient) (g : ProbeEnd → String) (goal : Goal) (r0 : Server)
    (hc : u.clients[i]? = some c) (hp : c.prog = rendered (probeFail goal r0) g) (hs : c.started = true) (hd : c.dead = false) :
    (u.step (.call i)).abs = ((probeFail goal r0).run u.abs u.clock).1 := by
  have hp' : c.prog = .call (.updateServer (handleFailure goal r0) fun s => some (handleFailure goal s)) fun r =>
      rendered (match r with
        | .error e => pure (.error (.repo e))
        | .ok _ => pure .outOfRetries) g := by rw [hp]; rfl
  rw [step_call_started u i c hc (live_of_call c _ _ hp' hd) hs]
  have hcc : c.callClock u.clock = u.clock := by simp [UClient.callClock, hp', Prog.headAtArrival, Call.clockAtArrival]
  simp only [hp', Prog.step1, hcc, exec_updateServer, UClient.settle, probeFail, Prog.run_call]
  generalize u.abs.update u.clock (handleFailure goal r0) (fun s => some (handleFailure goal s)) = r
  obtain ⟨a, r⟩ := r
  cases r <;> rfl

/-- a started client -/
def pclient (p : Prog String) (t : Int) : UClient := { prog := p, started := true, arrival := t }

/-- the schedule "probe's `Get`, `W`, probe's `Update`" with ticks in between -/
def raceSchedule2 (d1 d2 : Int) : List UEv := [.call 0, .tick d1, .call 1, .tick d2, .call 0]

/-- the two-client system for an arbitrary probe outcome -/
def twoClientsO (s0 : AbsState) (t : Int) (prb : Probe) (outcome : Option ProbeResult) (g : ProbeEnd → String) {β : Type}
    (W : Call β) (gW : β → String) (aW : Int) : USys :=
  { abs := s0, clock := t,
    clients := [{ prog := rendered (probe prb outcome) g, started := true, arrival := t },
                { prog := .call W fun b => .ret (gW b), started := true, arrival := aW }] }

/-- **bridge, success (two clients, any ticks)**: the system model's store is that of `raceRun (probe prb (some res)) 2 …` —
`Get` **and** the clock read at `t`, then `W`, then the `Update` at the final clock value: the probe's own copy is stamped
`t`, the conflict callback stamps the final clock value (`probe_success_race_at`, `k = 2`).  No hypothesis on `W`. -/
theorem usys_two_clients_success {β : Type} (s0 : AbsState) (t : Int) (prb : Probe) (res : ProbeResult) (g : ProbeEnd → String)
    (W : Call β) (gW : β → String) (aW d1 d2 : Int) (r0 : Server) (u0 : Int)
    (hrow0 : s0.getRow prb.addr = some ⟨r0, u0⟩) :
    ((twoClientsO s0 t prb (some res) g W gW aW).run (raceSchedule2 d1 d2)).abs =
      (raceRun (probe prb (some res)) 2 t W (wClock W aW (t + d1)) (t + d1 + d2) s0).1 := by
  have e1 := usys_success_get (twoClientsO s0 t prb (some res) g W gW aW) 0 _ g prb res r0 u0 rfl rfl rfl rfl hrow0
  have hrun : (twoClientsO s0 t prb (some res) g W gW aW).run (raceSchedule2 d1 d2) =
      ((((((twoClientsO s0 t prb (some res) g W gW aW).step (.call 0)).step (.tick d1)).step (.call 1)).step (.tick d2)).step (.call 0)) := rfl
  rw [hrun, e1]
  have hw := wclient_step (USys.step { (twoClientsO s0 t prb (some res) g W gW aW) with
      clients := (twoClientsO s0 t prb (some res) g W gW aW).clients.set 0
        { ({ prog := rendered (probe prb (some res)) g, started := true, arrival := t } : UClient) with
          prog := rendered (successAfterNow prb res r0 (twoClientsO s0 t prb (some res) g W gW aW).clock) g,
          arrival := (twoClientsO s0 t prb (some res) g W gW aW).clock } } (.tick d1)) W gW aW rfl
  generalize hv3 : USys.step (USys.step _ (.tick d1)) (.call 1) = v3 at hw
  have hc4 : (v3.step (.tick d2)).clients[0]? = some ({ ({ prog := rendered (probe prb (some res)) g, started := true, arrival := t } : UClient) with
      prog := rendered (successAfterNow prb res r0 t) g, arrival := t }) := by
    show v3.clients[0]? = _
    rw [hw.2.2]; rfl
  rw [usys_success_update (v3.step (.tick d2)) 0 _ g prb res r0 t hc4 rfl rfl rfl]
  have habs : (v3.step (.tick d2)).abs = (W.exec s0 (wClock W aW (t + d1))).1 := by
    show v3.abs = _
    rw [hw.1]; rfl
  have hclk : (v3.step (.tick d2)).clock = t + d1 + d2 := by
    show v3.clock + d2 = _
    rw [hw.2.1]; rfl
  rw [habs, hclk]
  unfold raceRun
  rw [show (2 : Nat) = 1 + 1 from rfl, stepN_add, probe_step_get s0 t prb (some res) r0 u0 hrow0]
  rfl

/-- **bridge, final failure (two clients, any ticks)**: the failure branch reads no clock, so the system model's store is
exactly that of `raceRun (probe prb none) 1 …`, the history of `probe_failure_race`, whatever the ticks -/
theorem usys_two_clients_failure {β : Type} (s0 : AbsState) (t : Int) (prb : Probe) (g : ProbeEnd → String)
    (W : Call β) (gW : β → String) (aW d1 d2 : Int) (r0 : Server) (u0 : Int)
    (hrow0 : s0.getRow prb.addr = some ⟨r0, u0⟩) (h : prb.retries ≥ prb.maxRetries) :
    ((twoClientsO s0 t prb none g W gW aW).run (raceSchedule2 d1 d2)).abs =
      (raceRun (probe prb none) 1 t W (wClock W aW (t + d1)) (t + d1 + d2) s0).1 := by
  -- the probe's `Get`
  have hp0 : rendered (probe prb none) g = .call (.getServer prb.addr) fun r =>
      rendered (match r with
        | .error e => pure (.error (.repo e))
        | .ok svr => probeRetry prb svr) g := by rw [probe_unfold]; rfl
  have hpf : rendered (probeFail prb.goal r0) g =
      .call (.updateServer (handleFailure prb.goal r0) fun s => some (handleFailure prb.goal s)) fun r =>
        rendered (match r with
          | .error e => pure (.error (.repo e))
          | .ok _ => pure .outOfRetries) g := rfl
  have e1 : (twoClientsO s0 t prb none g W gW aW).step (.call 0) =
      { (twoClientsO s0 t prb none g W gW aW) with clients := (twoClientsO s0 t prb none g W gW aW).clients.set 0 (pclient (rendered (probeFail prb.goal r0) g) t) } := by
    rw [step_call_started _ 0 _ rfl (live_of_call _ _ _ hp0 rfl) rfl]
    have hrow0' : (twoClientsO s0 t prb none g W gW aW).abs.getRow prb.addr = some ⟨r0, u0⟩ := hrow0
    simp only [hp0, Prog.step1, Call.exec, AbsState.get, hrow0', UClient.settle]
    rw [probeRetry_final prb r0 h, hpf]
    rfl
  have hrun : (twoClientsO s0 t prb none g W gW aW).run (raceSchedule2 d1 d2) =
      ((((((twoClientsO s0 t prb none g W gW aW).step (.call 0)).step (.tick d1)).step (.call 1)).step (.tick d2)).step (.call 0)) := rfl
  rw [hrun, e1]
  have hw := wclient_step (USys.step { (twoClientsO s0 t prb none g W gW aW) with clients := (twoClientsO s0 t prb none g W gW aW).clients.set 0 (pclient (rendered (probeFail prb.goal r0) g) t) } (.tick d1)) W gW aW rfl
  generalize hv3 : USys.step (USys.step _ (.tick d1)) (.call 1) = v3 at hw
  have hc4 : (v3.step (.tick d2)).clients[0]? = some (pclient (rendered (probeFail prb.goal r0) g) t) := by
    show v3.clients[0]? = _
    rw [hw.2.2]; rfl
  have habs : (v3.step (.tick d2)).abs = (W.exec s0 (wClock W aW (t + d1))).1 := by
    show v3.abs = _
    rw [hw.1]; rfl
  have hclk : (v3.step (.tick d2)).clock = t + d1 + d2 := by
    show v3.clock + d2 = _
    rw [hw.2.1]; rfl
  rw [usys_fail_update (v3.step (.tick d2)) 0 _ g prb.goal r0 hc4 rfl rfl rfl, habs, hclk]
  unfold raceRun
  rw [probe_step_get s0 t prb none r0 u0 hrow0]
  simp only
  rw [probeRetry_final prb r0 h]

/-- success, no clock movement: reading the clock before or after the concurrent call makes no difference -/
theorem raceRun_success_two_eq_one {β : Type} (s0 : AbsState) (t tW : Int) (prb : Probe) (res : ProbeResult) (r0 : Server) (u0 : Int)
    (W : Call β) (hrow0 : s0.getRow prb.addr = some ⟨r0, u0⟩) :
    raceRun (probe prb (some res)) 2 t W tW t s0 = raceRun (probe prb (some res)) 1 t W tW t s0 := by
  unfold raceRun
  rw [show (2 : Nat) = 1 + 1 from rfl, stepN_add, probe_step_get s0 t prb (some res) r0 u0 hrow0]
  rfl

end Swat4.C13Run
