import Swat4.Model.Browsing
import Swat4.Model.Filter
import Swat4.Spec.FilterSpec
import Swat4.Spec.FilterBridge
import Swat4.Spec.ServerListExpected
import Swat4.Lemmas.Browsing
/-!
# The TCP server browser end to end: `Handler.process` as ONE function of the request bytes

`Model/Browsing.lean: process` takes the list of selected servers as a free parameter (C01), and
`Model/Filter.lean: listServers` computes a selection from a registry (C03).  The Go handler composes the
two (`internal/browser/browser.go`, `Handler.Handle` / `Handler.process`):

```go
buf := make([]byte, 2048); n, _ := conn.Read(buf); payload := buf[:n]
req, err := browsing.NewRequest(payload)                  // error ⇒ no reply
if req.Filters != "" { q, err = query.NewFromString(req.Filters) /* error: logged, q stays blank */ }
servers, err := h.uc.Execute(ctx, listservers.NewRequest(q, h.opts.Liveness, ds.Master))
resp := h.packServers(servers, remoteAddr, req.Fields)
return crypt.Encrypt(h.gameKey, req.Challenge, resp), nil
```

This file defines that composition (`browserHandle`) and the bridge between the two models' views of
`server.Server`.  The property theorems about it are in `Properties/C01.lean` (`browser_end_to_end` …).

## The three views of `server.Server`, field by field

| Go field (`server.Server`)        | filter model `Filter.Record`            | browser model `Browsing.Server`                 |
|-----------------------------------|-----------------------------------------|-------------------------------------------------|
| `Addr.IP` (`[4]byte`)             | — (`addr : String` is an opaque key)    | `ip : IPv4`                                     |
| `Addr.Port`                       | — (part of the opaque key)              | `port : Nat` (never read by `packServers`)      |
| `QueryPort`                       | —                                       | `queryPort : Int`                               |
| `DiscoveryStatus`                 | `status : Nat`                          | —                                               |
| `RefreshedAt`                     | `refreshedAt : FTime`                   | —                                               |
| `Info` (`details.Info`)           | `info : List (param name × Value)`      | `info : List Val` (values only, schema order)   |
| `Details`, `Version`              | —                                       | —                                               |

`Stored` below carries the union of what either side reads: a `Filter.Record` plus the typed address and the
query port.  `toSel` is the projection to `Browsing.Server`; the `Info` of the browser view is *computed from*
the record the filter was evaluated on (`infoVals`), so both sides read the same stored values: the filter's
`getStructField` finds a value by param name (`List.lookup`), `params.Marshal` walks the same struct in
declaration order and files each value under the same param name (`params.GetParamName` in both).
`paramValue_infoVals` states the agreement: the value the reply carries for field `f` is the rendering of
the value the filter model finds under `f`.

## Listing order

`servers.Repository.Filter` intersects the index sets with `slice.Intersection`, which collects its result
by ranging over a Go map: the order of the listing is ARBITRARY (and differs from call to call).  The filter
model lists in registry order.  `browserHandle` therefore takes the order as a parameter `order` — what the
map iteration makes of the repository's result; the theorems hold for every `order` that permutes its
argument, and `order := id` is the filter model's registry order.  `query.Match` and `packServers` then keep
that order.
-/
namespace Swat4.BrowserE2E
open Swat4 Swat4.Browsing

/-! ## facts about the two generated schemas -/

/-- the `details.Info` schema generated for the filter model (C03) and the one generated for the browser
model (C01) are the same list of `(param name, kind)`; the filter whitelist and the browser's field
whitelist are the same list (both are `filter.IsQueryField`) -/
theorem schemas_agree :
    Facts.infoSchema = Facts.browsingInfoSchema ∧ Facts.queryFields = Facts.browsingQueryFields := by decide

/-! ## `details.Info`: named view → positional view -/

/-- one field value: the filter model's `Value` as the browser model's `Val` (same three Go kinds) -/
def toVal : Value → Val
  | .int n => .int n
  | .bool b => .bool b
  | .str s => .str s

/-- the kind code of the generated schemas: 0 = int, 1 = bool, 2 = string -/
def kindOf : Value → Nat
  | .int _ => 0
  | .bool _ => 1
  | .str _ => 2

/-- the values of a named record in declaration order: what `params.Marshal` walks over -/
def infoVals (i : Swat4.Info) : Browsing.Info := i.map fun kv => toVal kv.2

/-- the record has the shape of the Go struct: its param names, in order, and the kinds of its values are
those of the schema (what Go's typing of `details.Info` guarantees) -/
def Shaped (schema : List (Bytes × Nat)) (i : Swat4.Info) : Prop :=
  i.map (fun kv => (kv.1, kindOf kv.2)) = schema

instance (schema : List (Bytes × Nat)) (i : Swat4.Info) : Decidable (Shaped schema i) := by
  unfold Shaped; exact inferInstance

/-- a record of the struct's shape is well typed in the sense of C01 -/
theorem wellTyped_infoVals (schema : List (Bytes × Nat)) (i : Swat4.Info) (h : Shaped schema i) :
    SBList.WellTyped schema (infoVals i) := by
  induction i generalizing schema with
  | nil => subst h; exact True.intro
  | cons kv rest ih =>
    obtain ⟨k, v⟩ := kv
    cases schema with
    | nil => simp [Shaped] at h
    | cons e sch =>
      simp only [Shaped, List.map_cons, List.cons.injEq] at h
      obtain ⟨he, hrest⟩ := h
      subst he
      refine ⟨?_, ih sch hrest⟩
      cases v <;> exact True.intro

/-- how `params.Marshal` renders a stored value: `strconv.FormatInt(v, 10)`, `"1"`/`"0"`, the string itself -/
def renderValue (v : Value) : Bytes := SBList.renderVal (toVal v)

/-- **Both sides read the same stored value.**  For a record of the struct's shape, the value C01's
`expectedList` shows for field `f` (`paramValue`, positional) is the rendering of the value the filter model's
`getStructField` finds under the name `f` (`List.lookup`), and empty when there is no such field. -/
theorem paramValue_infoVals (schema : List (Bytes × Nat)) (i : Swat4.Info) (h : Shaped schema i) (f : Bytes) :
    SBList.paramValue schema (infoVals i) f =
      match Filter.getStructField i f with
      | some v => renderValue v
      | none => [] := by
  unfold Filter.getStructField
  induction i generalizing schema with
  | nil => subst h; rfl
  | cons kv rest ih =>
    obtain ⟨k, v⟩ := kv
    cases schema with
    | nil => simp [Shaped] at h
    | cons e sch =>
      simp only [Shaped, List.map_cons, List.cons.injEq] at h
      obtain ⟨he, hrest⟩ := h
      subst he
      simp only [infoVals, List.map_cons, SBList.paramValue, List.lookup_cons]
      by_cases hk : k = f
      · subst hk
        simp [renderValue]
      · have hk' : (f == k) = false := by
          simp only [beq_eq_false_iff_ne, ne_eq]
          exact fun e => hk e.symm
        rw [if_neg hk, hk']
        exact ih sch hrest

/-! ## the stored server and its two projections -/

/-- a stored `server.Server` with everything the listing use case or `packServers` reads: the filter model's
record (`status`, `refreshedAt`, `info`, and `addr` as an opaque key) plus `Addr.IP`, `Addr.Port`, `QueryPort` -/
structure Stored where
  row : Filter.Record
  ip : IPv4
  port : Nat
  queryPort : Int

/-- **the bridge**: what the handler passes to `packServers` for a server the use case returned —
`svr.Addr.GetIP()`, `svr.QueryPort` and `svr.Info` (the same `Info` the query was matched against) -/
def toSel (s : Stored) : Browsing.Server :=
  { ip := s.ip, port := s.port, queryPort := s.queryPort, info := infoVals s.row.info }

/-- the entry the SDK client must see for a stored server: IPv4, `uint16(QueryPort)`, and per declared field the
stored value rendered by `params.Marshal` with NUL bytes dropped -/
def entryOf (fields : List Bytes) (s : Stored) : SBList.Entry :=
  SBList.expectedEntry Schema.facts fields (toSel s)

/-- `entryOf` spelt out on the stored record: the values are looked up by name in the record's `info` -/
theorem entryOf_eq (fields : List Bytes) (s : Stored) (h : Shaped Facts.infoSchema s.row.info) :
    entryOf fields s =
      { ip := [s.ip.a, s.ip.b, s.ip.c, s.ip.d], port := (s.queryPort % 65536).toNat,
        values := fields.map fun f => SBList.dropNul (match Filter.getStructField s.row.info f with
          | some v => renderValue v
          | none => []) } := by
  have h' : Shaped Schema.facts s.row.info := by
    unfold Schema.facts; rw [← schemas_agree.1]; exact h
  unfold entryOf SBList.expectedEntry toSel
  simp only [SBList.Entry.mk.injEq, true_and]
  apply List.map_congr_left
  intro f _
  rw [paramValue_infoVals Schema.facts s.row.info h' f]

/-! ## the selection on stored servers -/

/-- the test `servers.Repository.Filter` applies for `ActiveAfter(after).WithStatus(required)` — membership in
the refreshed-index range and in every status set (`Filter.repoFilter`, one record) -/
def repoKeeps (after : Int) (required : Nat) (r : Filter.Record) : Bool :=
  Filter.inRefreshedFrom after r && (Filter.bitsOf required).all (Filter.inStatusSet · r)

/-- the test `listservers.Execute` applies to one record: the repository's, then `query.Match(&info)` -/
def keeps (now liveness : Int) (required : Nat) (q : List Filter.Filter) (r : Filter.Record) : Bool :=
  repoKeeps (now - liveness) required r && Filter.queryMatch q r.info

/-- `Filter.listServers` is the filter by `keeps` -/
theorem listServers_eq_filter_keeps (recs : List Filter.Record) (now liveness : Int) (required : Nat)
    (q : List Filter.Filter) :
    Filter.listServers recs now liveness required q = recs.filter (keeps now liveness required q) := by
  unfold Filter.listServers Filter.repoFilter keeps repoKeeps
  rw [List.filter_filter]
  apply List.filter_congr
  intro r _
  exact Bool.and_comm _ _

/-- `listservers.Execute` over stored servers: the repository's result in the order `order` gives it (Go map
iteration: arbitrary), then the `query.Match` loop, which keeps that order -/
def listStored (order : List Stored → List Stored) (recs : List Stored) (now liveness : Int) (required : Nat)
    (q : List Filter.Filter) : List Stored :=
  (order (recs.filter fun s => repoKeeps (now - liveness) required s.row)).filter fun s =>
    Filter.queryMatch q s.row.info

/-- **`listStored` is `Filter.listServers`**: in registry order, the filter-model records of the listed stored
servers are exactly `Filter.listServers` of the registry's records (the function C03 is about) -/
theorem listStored_row (recs : List Stored) (now liveness : Int) (required : Nat) (q : List Filter.Filter) :
    (listStored id recs now liveness required q).map (·.row) =
      Filter.listServers (recs.map (·.row)) now liveness required q := by
  rw [listServers_eq_filter_keeps, List.filter_map]
  unfold listStored
  rw [id, List.filter_filter]
  congr 1
  apply List.filter_congr
  intro s _
  simp only [keeps, Function.comp, Bool.and_comm]

/-- in registry order the listing is the filter by `keeps` -/
theorem listStored_id (recs : List Stored) (now liveness : Int) (required : Nat) (q : List Filter.Filter) :
    listStored id recs now liveness required q = recs.filter fun s => keeps now liveness required q s.row := by
  unfold listStored
  rw [id, List.filter_filter]
  apply List.filter_congr
  intro s _
  simp only [keeps, Bool.and_comm]

/-- in any order the listing is a permutation of the registry-order listing -/
theorem listStored_perm (order : List Stored → List Stored) (horder : ∀ l, (order l).Perm l)
    (recs : List Stored) (now liveness : Int) (required : Nat) (q : List Filter.Filter) :
    (listStored order recs now liveness required q).Perm (listStored id recs now liveness required q) := by
  unfold listStored
  exact (horder _).filter _

/-! ## the handler -/

/-- the size of the handler's read buffer (`browser.go`, `make([]byte, 2048)`) -/
def readBuffer : Nat := 2048

/-- **`browser.Handler.Handle` → `process` as one function** of the bytes the client sent: the first 2048
bytes are the payload; `browsing.NewRequest` (an error means no reply); the request's filter string gives the
query (`Filter.browserQuery`: empty or rejected ⇒ blank); `listservers.Execute` with the handler's liveness
and `ds.Master` over the registry; `packServers` for the requester; `crypt.Encrypt` with the game key, the
request's challenge and the 23 header draws `rnd`. -/
def browserHandle (order : List Stored → List Stored) (recs : List Stored) (now liveness : Int)
    (client : Client) (rnd : Crypt.Rnd) (sent : Bytes) : Outcome Bytes := do
  let payload := sent.take readBuffer
  let req ← parseRequest Cfg.facts payload
  let q := Filter.browserQuery req.filters
  let servers := listStored order recs now liveness Facts.statusMaster q
  match Crypt.encrypt? gameKey req.challenge rnd (packServers Schema.facts client req.fields (servers.map toSel)) with
  | some out => pure out
  | none => .hang

/-- `browserHandle` is C01's `process` with the selection C03 is about: if the payload parses, the handler's
outcome is `process` applied to the listing for the parsed filter -/
theorem browserHandle_ok (order : List Stored → List Stored) (recs : List Stored) (now liveness : Int)
    (client : Client) (rnd : Crypt.Rnd) (sent : Bytes) (req : Request)
    (h : parseRequest Cfg.facts (sent.take readBuffer) = .ok req) :
    browserHandle order recs now liveness client rnd sent =
      process Cfg.facts Schema.facts gameKey client (sent.take readBuffer)
        ((listStored order recs now liveness Facts.statusMaster (Filter.browserQuery req.filters)).map toSel) rnd := by
  simp only [browserHandle, process, h, ok_bind]
  cases Crypt.encrypt? gameKey req.challenge rnd (packServers Schema.facts client req.fields
    (List.map toSel (listStored order recs now liveness Facts.statusMaster (Filter.browserQuery req.filters)))) <;> rfl

/-- a payload `NewRequest` rejects gets no reply, whatever the registry -/
theorem browserHandle_error (order : List Stored → List Stored) (recs : List Stored) (now liveness : Int)
    (client : Client) (rnd : Crypt.Rnd) (sent : Bytes) (e : ReqErr)
    (h : parseRequest Cfg.facts (sent.take readBuffer) = .error e) :
    browserHandle order recs now liveness client rnd sent = .error e := by
  simp only [browserHandle, h, error_bind]

/-- the clauses (specification side) the handler ends up filtering by for the filter string `s` of a request:
those `query.NewFromString` returns, none when `s` is empty or rejected -/
def clausesOf (s : Bytes) : List FilterSpec.Clause := (Filter.browserQuery s).map FilterSpec.ofFilter

/-- C03's listing predicate on a stored server, for the browser frontend (status `master`) and the filter
string `s`: carries `master`, refreshed no earlier than `now − liveness`, satisfies every clause of `s` -/
def matching (now liveness : Int) (s : Bytes) (x : Stored) : Bool :=
  FilterSpec.selected now liveness Facts.statusMaster (clausesOf s) (FilterSpec.toServer x.row)

end Swat4.BrowserE2E
