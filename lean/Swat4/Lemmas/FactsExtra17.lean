import Swat4.Gen.Facts
import Swat4.Model.HarnessCfg
/-!
# C17 — which settings the two driver constants of `Drv/C17.lean` stand for

`Drv/C17.lean: maxProbeRetries` (= `Harness.revivalRetries`) is the retry budget printed in the discovery probe of a
`POST /api/servers` effect, `livenessSecs` (= `Harness.livenessSecs`) the window of the `GET /api/servers` listing.  The
VALUES are the harness' (`harness/internal/world/world.go:71`, `Model/HarnessCfg.lean`); no regenerated fact carries
them, because they are not constants of the Go code.  What the Go code fixes — and the facts regenerate on every run — is
WHICH setting reaches those two places; the harness fills exactly these settings (`world.go:197`) and derives the
use-case options with the application's own `container.NewUseCaseConfigs`.
-/
namespace Swat4.C17
open Swat4

/-- **The settings behind the C17 driver's two constants.**  (1) `addserver`'s `MaxProbeRetries` is
`settings.DiscoveryRevivalRetries` (`container.go`, `NewUseCaseConfigs`) — the field the harness sets from
`world.Options.RevivalRetries`, whose value the driver takes from `Harness.revivalRetries`; (2) the REST listing passes
`a.settings.ServerLiveness` as the liveness of `listservers.NewRequest` with status `ds.Info`
(`internal/rest/api/servers_list.go`) — the field the harness sets from `world.Options.Liveness` =
`Harness.livenessSecs` seconds; (3) in the application both fields come straight from the command line (`main.go`).
(4) the harness' values as the Lean side records them, for the audit: 2 retries, 180 s.
*Edit detected:* `addserver` wired to the refresh budget (or a literal), the listing using another window, a
conversion slipped into `main.go` — the rows change and this theorem breaks; a changed harness default without the
Model constant following shows as a disagreement of every `POST`/listing case. -/
theorem facts_harness_settings_wiring :
    ("container/container.go", "NewUseCaseConfigs", "addserver.UseCaseOptions", "MaxProbeRetries", "settings.DiscoveryRevivalRetries")
      ∈ Facts.configWiring ∧
    ("internal/rest/api/servers_list.go", "ListServers", "q", "a.settings.ServerLiveness", "ds.Info") ∈ Facts.frontendListRequests ∧
    ("main.go", "main", "settings.Settings", "ServerLiveness", "cli.Globals.BrowsingServerLiveness") ∈ Facts.configWiring ∧
    ("main.go", "main", "settings.Settings", "DiscoveryRevivalRetries", "cli.Globals.DiscoveryRevivalRetries") ∈ Facts.configWiring ∧
    ((Facts.configWiring.filter fun r => r.2.2.1 == "addserver.UseCaseOptions").length = 1) ∧
    Harness.revivalRetries = 2 ∧ Harness.livenessSecs = 180 := by
  decide

end Swat4.C17
