import Swat4.Lemmas.QueueSys
/-!
# Who holds a popped probe (helper lemmas for `C12.delivered_if_live`)

* `PopOwner`: every record of the ghost pop log belongs to a client that exists, has started and is a `PopMany` call —
  an invariant of the ghost system (`GInvOwner.run`), proved with the induction principle of `Lemmas/QueueSys.lean`;
* `batchRecs j pops`: the pop records that make up consumer `j`'s batch (`retOf j pops` is their payload projection);
* counting lemmas: in a log without duplicate ids, the records with a given id that satisfy `p` are exactly one / none;
* `GInv.batch_sorted` / `GInv.batch_perm`: the batch a finished `PopMany` returns is the payload list of its batch records
  stably sorted by score — in ready-time order, and a rearrangement of `retOf`.
-/
namespace Swat4
open Std

/-! ## the owner of a pop record -/

/-- every pop record belongs to an existing, started `PopMany` call -/
def PopOwner (g : GSys) : Prop :=
  ∀ d ∈ g.pops, ∃ c n, g.sys.clients[d.client]? = some c ∧ c.started = true ∧ c.op = .popMany n

theorem QSys.cur_lt {s : QSys} {i : Nat} {c : QClient} (h : s.cur i = some c) : i < s.clients.length := by
  obtain ⟨c0, h0, _, _⟩ := QSys.cur_some h
  exact (List.getElem?_eq_some_iff.1 h0).1

/-- replacing the client that is about to move by one with the same call keeps the owners of the old records -/
theorem PopOwner.set {g : GSys} (h : PopOwner g) {i : Nat} {c c' : QClient} (hc : g.sys.cur i = some c)
    (hop : c'.op = c.op) (hst : c'.started = true) :
    ∀ d ∈ g.pops, ∃ c n, (g.sys.clients.set i c')[d.client]? = some c ∧ c.started = true ∧ c.op = .popMany n := by
  intro d hd
  obtain ⟨cd, n, h1, h2, h3⟩ := h d hd
  have hlt := QSys.cur_lt hc
  obtain ⟨c0, h0, _, rfl⟩ := QSys.cur_some hc
  rw [List.getElem?_set]
  by_cases hij : i = d.client
  · subst hij
    rw [h0] at h1; cases h1
    simp only [if_true, hlt]
    refine ⟨c', n, rfl, hst, ?_⟩
    rw [hop]
    unfold QClient.start
    simp only [h2, if_true]
    exact h3
  · simp only [hij, if_false]
    exact ⟨cd, n, h1, h2, h3⟩

theorem PopOwner.gstep {g g' : GSys} (h : PopOwner g) (hs : GStep g g') : PopOwner g' := by
  cases hs with
  | same => exact h
  | setc i c c' hc hop hpc hst harr hpop => exact h.set hc hop hst
  | other i c c' st' hc hnp hI hQ hcons hop hpc1 hpc2 hst harr hpop => exact h.set hc hop hst
  | enq i c c' p after before hc hcop hcpc hop hpc hst harr hpop => exact h.set hc hop hst
  | range i c c' n got e hc hcop hcpc hop hpc hst harr hpop => exact h.set hc hop hst
  | exec i c c' n got e ids scs hc hcop hcpc hop hpc hst harr hpop =>
    intro d hd
    have hd' : d ∈ g.pops ++ g.sys.popRecs i ids := hd
    rcases List.mem_append.1 hd' with hd' | hd'
    · exact h.set hc hop hst d hd'
    · have hcl : d.client = i := popRecs_client hd'
      have hlt := QSys.cur_lt hc
      refine ⟨c', n, ?_, hst, by rw [hop, hcop]⟩
      show (g.sys.clients.set i c')[d.client]? = some c'
      rw [hcl, List.getElem?_set]
      simp only [if_true, hlt]

theorem PopOwner.tick {g : GSys} (h : PopOwner g) (d : Int) : PopOwner (g.tick d) := h

theorem PopOwner.init (s : QSys) : PopOwner (GSys.init s) := fun d hd => (by cases hd)

/-- `GInv ∧ PopOwner` is preserved by every event list -/
theorem GInvOwner.run {g : GSys} (hG : GInv g) (hO : PopOwner g) (es : List QSysEv) :
    GInv (g.run es) ∧ PopOwner (g.run es) :=
  GSys.run_induction (fun g => GInv g ∧ PopOwner g) (fun _ => True)
    (fun _ h => h.1.okFor) (fun _ _ h hs => ⟨h.1.gstep hs, h.2.gstep hs⟩) (fun _ d h _ => ⟨h.1.tick d, h.2.tick d⟩)
    g es (by intro e _; cases e <;> trivial) ⟨hG, hO⟩

theorem PopOwner.startAll {g : GSys} (h : PopOwner g) : PopOwner g.startAll := by
  intro d hd
  obtain ⟨c, n, h1, h2, h3⟩ := h d hd
  refine ⟨c, n, ?_, h2, h3⟩
  show (g.sys.clients.map fun (c : QClient) => if c.dead then c else c.start g.sys.clock)[d.client]? = some c
  rw [List.getElem?_map, h1]
  simp [QClient.start, h2]

/-- … and by the driver's completion phase -/
theorem GInvOwner.finish {g : GSys} (hG : GInv g) (hO : PopOwner g) (fuel : Nat) :
    GInv (g.finish fuel) ∧ PopOwner (g.finish fuel) :=
  GSys.finish_induction (fun g => GInv g ∧ PopOwner g) (fun _ h => ⟨h.1.startAll, h.2.startAll⟩)
    (fun _ _ h => GInvOwner.run h.1 h.2 _) g fuel ⟨hG, hO⟩

/-! ## the records of a consumer's batch -/

/-- the pop records that make up consumer `j`'s batch, in order: taken by `j` and appended to its batch -/
def batchRecs (j : Nat) (pops : List GPop) : List GPop := pops.filter fun d => d.client == j && d.returned

/-- the batch the log attributes to consumer `j` is the payload projection of its batch records -/
theorem retOf_eq_batchRecs (j : Nat) (pops : List GPop) : retOf j pops = (batchRecs j pops).map (·.probe) := rfl

theorem mem_batchRecs {j : Nat} {pops : List GPop} {d : GPop} :
    d ∈ batchRecs j pops ↔ d ∈ pops ∧ d.client = j ∧ d.returned = true := by
  unfold batchRecs
  rw [List.mem_filter]
  simp

/-- a returned record sits at some position of its consumer's batch records, and its payload at the same position of
the batch the log attributes to that consumer -/
theorem retOf_position {pops : List GPop} {d : GPop} (hd : d ∈ pops) (hr : d.returned = true) :
    ∃ k : Nat, (batchRecs d.client pops)[k]? = some d ∧ (retOf d.client pops)[k]? = some d.probe := by
  have hm : d ∈ batchRecs d.client pops := mem_batchRecs.2 ⟨hd, rfl, hr⟩
  obtain ⟨k, hk⟩ := List.getElem?_of_mem hm
  refine ⟨k, hk, ?_⟩
  rw [retOf_eq_batchRecs, List.getElem?_map, hk]
  rfl

theorem mem_retOf {pops : List GPop} {d : GPop} (hd : d ∈ pops) (hr : d.returned = true) :
    d.probe ∈ retOf d.client pops := by
  obtain ⟨k, _, hk⟩ := retOf_position hd hr
  exact List.mem_of_getElem? hk

/-! ## the returned batch: the batch records stably sorted by score -/

/-- the score a pop record was taken with (`0` never occurs under `GInv`: every record has a score, `GInv.popSrc`) -/
def GPop.score (d : GPop) : Int := d.ready.getD 0

theorem retS_eq_batchRecs (j : Nat) (pops : List GPop) : retS j pops = (batchRecs j pops).map fun d => (d.probe, d.score) := rfl

/-- what a finished `PopMany` returns, in terms of the log: the payloads of the consumer's batch records, stably sorted by score -/
theorem finishBatch_retS (j : Nat) (pops : List GPop) :
    finishBatch (retS j pops) = (sortByScore GPop.score (batchRecs j pops)).map (·.probe) := by
  unfold finishBatch
  rw [retS_eq_batchRecs, ← sortByScore_map (fun d : GPop => (d.probe, d.score)) (·.2), List.map_map]
  rfl

/-- a started `PopMany` call that is done returned the stably sorted batch records of the log -/
theorem GInv.done_batch {g : GSys} (hG : GInv g) {i : Nat} {c : QClient} {n : Int} {ps : List Probe} {k : Nat}
    (hc : g.sys.clients[i]? = some c) (hs : c.started = true) (hop : c.op = .popMany n) (hpc : c.pc = .done (.probes ps k)) :
    ps = (sortByScore GPop.score (batchRecs i g.pops)).map (·.probe) ∧ k = expOf i g.pops := by
  have h := (hG.clients i c hc).pc hs
  rw [hop, hpc] at h
  exact ⟨h.1.trans (finishBatch_retS i g.pops), h.2.1⟩

/-- **every batch a finished `PopMany` returned is in ready-time order**: it is the payload list of a rearrangement `recs`
of the consumer's batch records (the entries it took out of the store and did not drop as expired) whose scores — by
`GInv.popSrc` the ready times the entries were enqueued with — are non-decreasing -/
theorem GInv.batch_sorted {g : GSys} (hG : GInv g) {i : Nat} {c : QClient} {n : Int} {ps : List Probe} {k : Nat}
    (hc : g.sys.clients[i]? = some c) (hs : c.started = true) (hop : c.op = .popMany n) (hpc : c.pc = .done (.probes ps k)) :
    ∃ recs : List GPop, recs.Perm (batchRecs i g.pops) ∧ ps = recs.map (·.probe) ∧
      recs.Pairwise fun a b => ∃ ra rb, a.ready = some ra ∧ b.ready = some rb ∧ ra ≤ rb := by
  refine ⟨sortByScore GPop.score (batchRecs i g.pops), sortByScore_perm _ _, (hG.done_batch hc hs hop hpc).1, ?_⟩
  refine List.Pairwise.imp_of_mem ?_ (sortByScore_sorted GPop.score (batchRecs i g.pops))
  intro a b ha hb hab
  have hap : a ∈ g.pops := (List.mem_filter.1 ((sortByScore_perm _ _).mem_iff.1 ha)).1
  have hbp : b ∈ g.pops := (List.mem_filter.1 ((sortByScore_perm _ _).mem_iff.1 hb)).1
  obtain ⟨ea, _, _, _, _, hra⟩ := hG.popSrc a hap
  obtain ⟨eb, _, _, _, _, hrb⟩ := hG.popSrc b hbp
  refine ⟨_, _, hra, hrb, ?_⟩
  have : a.score ≤ b.score := hab
  simpa [GPop.score, hra, hrb] using this

/-- … and a rearrangement of the batch the log attributes to the consumer (`retOf`, fetch order): same payloads, same
multiplicities -/
theorem GInv.batch_perm {g : GSys} (hG : GInv g) {i : Nat} {c : QClient} {n : Int} {ps : List Probe} {k : Nat}
    (hc : g.sys.clients[i]? = some c) (hs : c.started = true) (hop : c.op = .popMany n) (hpc : c.pc = .done (.probes ps k)) :
    ps.Perm (retOf i g.pops) := by
  rw [(hG.done_batch hc hs hop hpc).1, retOf_eq_batchRecs]
  exact (sortByScore_perm _ _).map _

/-! ## counting records by id -/

/-- in a log without duplicate ids, the records with the id of `d ∈ pops` that satisfy `p` are exactly one if `p d` -/
theorem filter_id_length_one {pops : List GPop} (hnd : (pops.map (·.id)).Nodup) {d : GPop} (hd : d ∈ pops)
    (p : GPop → Bool) (hp : p d = true) :
    (pops.filter fun d' => d'.id == d.id && p d').length = 1 := by
  induction pops with
  | nil => cases hd
  | cons x xs ih =>
    rw [List.map_cons, List.nodup_cons] at hnd
    rcases List.mem_cons.1 hd with rfl | hd'
    · have hnil : (xs.filter fun d' => d'.id == d.id && p d') = [] := by
        rw [List.filter_eq_nil_iff]
        intro y hy
        have : y.id ≠ d.id := fun e => hnd.1 (e ▸ List.mem_map.2 ⟨y, hy, rfl⟩)
        simp [this]
      rw [List.filter_cons]
      simp [hp, hnil]
    · have hx : x.id ≠ d.id := fun e => hnd.1 (e ▸ List.mem_map.2 ⟨d, hd', rfl⟩)
      rw [List.filter_cons]
      have hf : (x.id == d.id && p x) = false := by simp [hx]
      rw [hf]
      exact ih hnd.2 hd'

/-- … and none if `p d` fails -/
theorem filter_id_nil {pops : List GPop} (hnd : (pops.map (·.id)).Nodup) {d : GPop} (hd : d ∈ pops)
    (p : GPop → Bool) (hp : p d = false) :
    (pops.filter fun d' => d'.id == d.id && p d') = [] := by
  rw [List.filter_eq_nil_iff]
  intro y hy
  by_cases hid : y.id = d.id
  · have : y = d := eq_of_nodup_map hnd hy hd hid
    subst this
    simp [hp]
  · simp [hid]

end Swat4
