import Swat4.Lemmas.ReporterPost
/-!
# Which heartbeats the abstract step answers (C04, "acceptance is not vacuous")

`absStep_heartbeat_accept` (Lemmas/ReporterPost.lean) reads the conditions off an answered heartbeat.  Here
is the converse and the resulting equivalence: the abstract step answers heartbeat `d` from `ip` exactly
when the conditions `Accepts st d ip` hold, and then with the 28 reply bytes.  The list of conditions is the
code path of `heartbeat.Handler.Handle` → `parseAddrFromHeartbeatParams` → `addr.New` →
`reportserver.UseCase.Execute`: both `hostport` AND `localport` must be present and read by `strconv.Atoi`
(even when the server is already known and `localport` is not used), `hostport ∈ 1..65535`, the source IP
passes `addr.New`, `statechanged` is not `2`, the reported info unmarshals and validates, and either the
server `(ip, hostport)` is already stored or `localport ∈ 1..65535` (it becomes the provisional query port).
-/
namespace Swat4.Rep
open Swat4 Swat4.Heartbeat Swat4.ReporterSpec Std

/-- the conditions under which a heartbeat `d` from source address `ip` is accepted in state `st` -/
def Accepts (st : AbsState) (d : Hb) (ip : Nat) : Prop :=
  ∃ hostport localport : Int,
    ((fieldsOf d.kvs).get? kHostport).bind atoi = some hostport ∧
    ((fieldsOf d.kvs).get? kLocalport).bind atoi = some localport ∧
    1 ≤ hostport ∧ hostport ≤ 65535 ∧ ipAccepted ip = true ∧
    (fieldsOf d.kvs).get? kStatechanged ≠ some [0x32] ∧
    (infoOf (fieldsOf d.kvs)).isSome = true ∧
    ((st.servers[(⟨ip, hostport⟩ : Addr).key]?).isSome = true ∨ (1 ≤ localport ∧ localport ≤ 65535))

/-- acceptance ⇒ the abstract step answers with the 28 reply bytes -/
theorem absStep_heartbeat_reply_of (cfg : Cfg) (st : AbsState) (d : Hb) (ip port : Nat) (now : Int)
    (h : Accepts st d ip) : (absStep cfg st ip port (.heartbeat d) now).2 = some (replyBytes d.id ip port) := by
  obtain ⟨hostport, localport, hh, hl, hp1, hp2, hp3, hs, hi, hb⟩ := h
  unfold absStep
  dsimp only
  rw [hh, hl]
  dsimp only
  have hp : ¬ (hostport < 1 ∨ hostport > 65535 ∨ (!ipAccepted ip) = true) := by
    rw [hp3]; simp; omega
  rw [if_neg hp, if_neg hs]
  cases hinfo : infoOf (fieldsOf d.kvs) with
  | none => rw [hinfo] at hi; cases hi
  | some info =>
    dsimp only
    cases hr : st.servers[(⟨ip, hostport⟩ : Addr).key]? with
    | some row => rfl
    | none =>
      rw [hr] at hb
      have hq : ¬ (localport < 1 ∨ localport > 65535) := by
        rcases hb with hb | hb
        · cases hb
        · omega
      dsimp only
      rw [if_neg hq]

/-- an answer ⇒ acceptance, and the answer is the 28 reply bytes -/
theorem absStep_heartbeat_reply_only (cfg : Cfg) (st : AbsState) (d : Hb) (ip port : Nat) (now : Int) (r : Bytes)
    (h : (absStep cfg st ip port (.heartbeat d) now).2 = some r) : r = replyBytes d.id ip port ∧ Accepts st d ip := by
  obtain ⟨hostport, localport, info, base, h1, h2, h3, h4, h5, h6, h7, h8, h9, _⟩ :=
    absStep_heartbeat_accept cfg st d ip port now r h
  refine ⟨h9, hostport, localport, h1, h2, h3, h4, h5, h6, by rw [h7]; rfl, ?_⟩
  unfold baseOf at h8
  cases hr : st.servers[(⟨ip, hostport⟩ : Addr).key]? with
  | some row => exact .inl rfl
  | none =>
    rw [hr] at h8
    dsimp only at h8
    by_cases hq : localport < 1 ∨ localport > 65535
    · rw [if_pos hq] at h8; cases h8
    · exact .inr (by omega)

theorem absStep_heartbeat_reply_iff (cfg : Cfg) (st : AbsState) (d : Hb) (ip port : Nat) (now : Int) (r : Bytes) :
    (absStep cfg st ip port (.heartbeat d) now).2 = some r ↔ r = replyBytes d.id ip port ∧ Accepts st d ip := by
  constructor
  · exact absStep_heartbeat_reply_only cfg st d ip port now r
  · rintro ⟨rfl, h⟩
    exact absStep_heartbeat_reply_of cfg st d ip port now h

end Swat4.Rep
