import Swat4.Model.Details
import Swat4.Spec.Details
/-! Helper lemmas for the details-prober part of C07 (`Properties/C07.lean`). -/
namespace Swat4.DetailsProbe
open Swat4 Swat4.Heartbeat Swat4.DetailsSpec

/-! ## `strconv.Atoi` of the model against `NumTok` of the specification -/

theorem digitsVal_some {ds : Bytes} {acc n : Nat} (h : digitsVal ds acc = some n) :
    (∀ c ∈ ds, isDigit c = true) ∧ n = ds.foldl (fun a c => a * 10 + (c.toNat - 48)) acc := by
  induction ds generalizing acc with
  | nil => simp [digitsVal] at h; simp [h]
  | cons c cs ih =>
    simp only [digitsVal] at h
    split at h
    · rename_i hc
      obtain ⟨h1, h2⟩ := ih h
      refine ⟨?_, by simpa using h2⟩
      intro x hx
      rcases List.mem_cons.mp hx with rfl | hx
      · simp [isDigit, hc.1, hc.2]
      · exact h1 x hx
    · cases h

theorem digitsVal_of_digits {ds : Bytes} (acc : Nat) (h : ∀ c ∈ ds, isDigit c = true) :
    digitsVal ds acc = some (ds.foldl (fun a c => a * 10 + (c.toNat - 48)) acc) := by
  induction ds generalizing acc with
  | nil => simp [digitsVal]
  | cons c cs ih =>
    have hc := h c (List.mem_cons_self)
    simp only [isDigit, Bool.and_eq_true, decide_eq_true_eq] at hc
    simp only [digitsVal, hc.1, hc.2, and_self, if_true, List.foldl_cons]
    exact ih _ fun x hx => h x (List.mem_cons_of_mem _ hx)

theorem digit_not_sign {c : UInt8} (h : isDigit c = true) : c ≠ 0x2B ∧ c ≠ 0x2D ∧ c ≠ 0x2F := by
  simp only [isDigit, Bool.and_eq_true, decide_eq_true_eq] at h
  refine ⟨?_, ?_, ?_⟩ <;> (rintro rfl; revert h; decide)

/-- digits read as a natural number below `2^63` -/
def natOf (ds : Bytes) (bound : Nat) : Option Nat :=
  if ds.isEmpty then none else
  match digitsVal ds 0 with
  | none => none
  | some n => if n < bound then some n else none

theorem atoi_plus (rest : Bytes) : atoi (0x2B :: rest) = (natOf rest 9223372036854775808).map Int.ofNat := by
  unfold atoi natOf
  simp only [show ((0x2B : UInt8) = 0x2D) = False by decide, or_false, if_true, if_false]
  by_cases he : rest.isEmpty = true
  · simp [he]
  · cases hdv : digitsVal rest 0 with
    | none => simp [he]
    | some n => by_cases hb : n < 9223372036854775808 <;> simp [he, hb]

theorem atoi_minus (rest : Bytes) :
    atoi (0x2D :: rest) = (natOf rest 9223372036854775809).map (fun n => -(Int.ofNat n)) := by
  unfold atoi natOf
  simp only [or_true, if_true]
  by_cases he : rest.isEmpty = true
  · simp [he]
  · cases hdv : digitsVal rest 0 with
    | none => simp [he]
    | some n => by_cases hb : n ≤ 9223372036854775808 <;> simp [he, hb, Nat.lt_succ_iff]

theorem atoi_nosign (c : UInt8) (rest : Bytes) (h1 : c ≠ 0x2B) (h2 : c ≠ 0x2D) :
    atoi (c :: rest) = (natOf (c :: rest) 9223372036854775808).map Int.ofNat := by
  unfold atoi natOf
  simp only [h1, h2, or_self, if_false, List.isEmpty_cons, Bool.false_eq_true]
  cases hdv : digitsVal (c :: rest) 0 with
  | none => simp
  | some n => by_cases hb : n < 9223372036854775808 <;> simp [hb]

theorem natOf_some {ds : Bytes} {b n : Nat} (h : natOf ds b = some n) :
    ds ≠ [] ∧ (∀ c ∈ ds, isDigit c = true) ∧ decVal ds = n ∧ n < b := by
  unfold natOf at h
  split at h
  · cases h
  · rename_i hne
    split at h
    · cases h
    · rename_i k hk
      obtain ⟨hd, hval⟩ := digitsVal_some hk
      split at h
      · cases h
        exact ⟨by simpa using hne, hd, hval.symm, by assumption⟩
      · cases h

theorem natOf_of {ds : Bytes} {b : Nat} (hne : ds ≠ []) (hd : ∀ c ∈ ds, isDigit c = true) (hb : decVal ds < b) :
    natOf ds b = some (decVal ds) := by
  unfold natOf
  rw [if_neg (by simpa using hne), digitsVal_of_digits 0 hd]
  unfold decVal at hb ⊢
  simp only
  rw [if_pos hb]


theorem nonNeg_numTok {t : Bytes} (h : nonNegNumber t = true) : NumTok t := by
  unfold nonNegNumber at h
  cases t with
  | nil => simp [atoi] at h
  | cons c rest =>
    by_cases hp : c = 0x2B
    · subst hp
      rw [atoi_plus] at h
      cases hn : natOf rest 9223372036854775808 with
      | none => simp [hn] at h
      | some n =>
        obtain ⟨h1, h2, h3, h4⟩ := natOf_some hn
        exact ⟨[0x2B], rest, rfl, h1, h2, by omega, .inr (.inl rfl)⟩
    · by_cases hm : c = 0x2D
      · subst hm
        rw [atoi_minus] at h
        cases hn : natOf rest 9223372036854775809 with
        | none => simp [hn] at h
        | some n =>
          obtain ⟨h1, h2, h3, h4⟩ := natOf_some hn
          simp only [hn, Option.map_some, decide_eq_true_eq] at h
          have h0 : n = 0 := by
            have h' : (0 : Int) ≤ -((n : Nat) : Int) := h
            omega
          exact ⟨[0x2D], rest, rfl, h1, h2, by omega, .inr (.inr ⟨rfl, by omega⟩)⟩
      · rw [atoi_nosign c rest hp hm] at h
        cases hn : natOf (c :: rest) 9223372036854775808 with
        | none => simp [hn] at h
        | some n =>
          obtain ⟨h1, h2, h3, h4⟩ := natOf_some hn
          exact ⟨[], c :: rest, rfl, h1, h2, by omega, .inl rfl⟩

theorem numTok_nonNeg {t : Bytes} (h : NumTok t) : nonNegNumber t = true := by
  obtain ⟨sign, ds, rfl, hne, hd, hb, hs⟩ := h
  unfold nonNegNumber
  rcases hs with rfl | rfl | ⟨rfl, h0⟩
  · cases ds with
    | nil => exact absurd rfl hne
    | cons c rest =>
      have hc := digit_not_sign (hd c List.mem_cons_self)
      simp only [List.nil_append]
      rw [atoi_nosign c rest hc.1 hc.2.1, natOf_of hne hd hb]
      simp
  · show (match atoi (0x2B :: ds) with | some n => decide (n ≥ 0) | none => false) = true
    rw [atoi_plus, natOf_of hne hd hb]
    simp
  · show (match atoi (0x2D :: ds) with | some n => decide (n ≥ 0) | none => false) = true
    rw [atoi_minus, natOf_of hne hd (by omega), h0]
    simp


/-! ## `ValidateRatio` against `RatioSpec` -/

theorem split_first {s : Bytes} (h : (0x2F : UInt8) ∈ s) :
    s = s.takeWhile (· ≠ 0x2F) ++ 0x2F :: (s.dropWhile (· ≠ 0x2F)).drop 1 := by
  induction s with
  | nil => cases h
  | cons c cs ih =>
    by_cases hc : c = 0x2F
    · subst hc; simp
    · have hm : (0x2F : UInt8) ∈ cs := by
        rcases List.mem_cons.mp h with h | h
        · exact absurd h.symm hc
        · exact h
      have := ih hm
      simp only [ne_eq, hc, not_false_eq_true, decide_true, List.takeWhile_cons_of_pos, List.dropWhile_cons_of_pos, List.cons_append]
      exact congrArg _ this

theorem split_at {l r : Bytes} (hl : (0x2F : UInt8) ∉ l) :
    (l ++ 0x2F :: r).takeWhile (· ≠ 0x2F) = l ∧ ((l ++ 0x2F :: r).dropWhile (· ≠ 0x2F)).drop 1 = r := by
  induction l with
  | nil => simp
  | cons c cs ih =>
    have hc : c ≠ 0x2F := fun e => hl (e ▸ List.mem_cons_self)
    have := ih fun m => hl (List.mem_cons_of_mem _ m)
    simp only [List.cons_append, ne_eq, hc, not_false_eq_true, decide_true, List.takeWhile_cons_of_pos, List.dropWhile_cons_of_pos]
    exact ⟨congrArg _ this.1, this.2⟩

theorem numTok_no_slash {t : Bytes} (h : NumTok t) : (0x2F : UInt8) ∉ t := by
  obtain ⟨sign, ds, rfl, _, hd, _, hs⟩ := h
  intro hm
  rcases List.mem_append.mp hm with hm | hm
  · rcases hs with rfl | rfl | ⟨rfl, _⟩ <;> simp at hm
  · exact (digit_not_sign (hd _ hm)).2.2 rfl

/-- the model's `ValidateRatio` accepts exactly the ratio format of the specification -/
theorem ratioOk_iff (s : Bytes) : ratioOk s = true ↔ RatioSpec s := by
  unfold ratioOk RatioSpec
  cases s with
  | nil => simp
  | cons c cs =>
    simp only [List.isEmpty_cons, Bool.false_eq_true, if_false, reduceCtorEq, false_or]
    constructor
    · intro h
      split at h
      · rename_i hc
        have hm : (0x2F : UInt8) ∈ c :: cs := by simpa using hc
        simp only [Bool.and_eq_true] at h
        exact ⟨_, _, split_first hm, nonNeg_numTok h.1, nonNeg_numTok h.2⟩
      · cases h
    · rintro ⟨l, r, hs, hl, hr⟩
      have hm : (0x2F : UInt8) ∈ c :: cs := by rw [hs]; simp
      rw [if_pos (by simpa using hm), hs]
      obtain ⟨h1, h2⟩ := split_at (r := r) (numTok_no_slash hl)
      rw [h1, h2, numTok_nonNeg hl, numTok_nonNeg hr]; rfl

/-- a value with two or more `/` is never a ratio -/
theorem ratioSpec_count {s : Bytes} (h : RatioSpec s) : s.count 0x2F ≤ 1 := by
  rcases h with rfl | ⟨l, r, rfl, hl, hr⟩
  · simp
  · have h1 := List.count_eq_zero.mpr (numTok_no_slash hl)
    have h2 := List.count_eq_zero.mpr (numTok_no_slash hr)
    simp [List.count_append, h1, h2]


/-! ## the executable twins of the specification -/

theorem numTok_iff (t : Bytes) : numTok t = true ↔ NumTok t := by
  unfold numTok NumTok
  cases t with
  | nil =>
    simp only [List.head?_nil, reduceCtorEq, or_self, if_false, List.isEmpty_nil, Bool.not_true, Bool.false_and]
    constructor
    · intro h; cases h
    · rintro ⟨sign, ds, h, hne, _⟩
      have := List.append_eq_nil_iff.mp h.symm
      exact absurd this.2 hne
  | cons c rest =>
    simp only [List.head?_cons, Option.some.injEq, List.drop_succ_cons, List.drop_zero]
    by_cases hp : c = 0x2B
    · subst hp
      simp only [true_or, if_true, show ((0x2B : UInt8) = 0x2D) = False by decide, decide_false, Bool.not_false, Bool.true_or,
        Bool.and_true, Bool.and_eq_true, Bool.not_eq_true', List.isEmpty_eq_false_iff, List.all_eq_true, decide_eq_true_eq]
      constructor
      · rintro ⟨⟨h1, h2⟩, h3⟩
        exact ⟨[0x2B], rest, rfl, h1, h2, h3, .inr (.inl rfl)⟩
      · rintro ⟨sign, ds, h, hne, hd, hb, hs⟩
        rcases hs with rfl | rfl | ⟨rfl, _⟩
        · cases ds with
          | nil => exact absurd rfl hne
          | cons d ds' =>
            simp only [List.nil_append, List.cons.injEq] at h
            exact absurd h.1.symm (digit_not_sign (hd d List.mem_cons_self)).1
        · simp only [List.cons_append, List.nil_append, List.cons.injEq, true_and] at h
          subst h; exact ⟨⟨hne, hd⟩, hb⟩
        · simp at h
    · by_cases hm : c = 0x2D
      · subst hm
        simp only [or_true, if_true, decide_true, Bool.not_true, Bool.false_or,
          Bool.and_eq_true, Bool.not_eq_true', List.isEmpty_eq_false_iff, List.all_eq_true, decide_eq_true_eq]
        constructor
        · rintro ⟨⟨⟨h1, h2⟩, h3⟩, h4⟩
          exact ⟨[0x2D], rest, rfl, h1, h2, h3, .inr (.inr ⟨rfl, h4⟩)⟩
        · rintro ⟨sign, ds, h, hne, hd, hb, hs⟩
          rcases hs with rfl | rfl | ⟨rfl, h0⟩
          · cases ds with
            | nil => exact absurd rfl hne
            | cons d ds' =>
              simp only [List.nil_append, List.cons.injEq] at h
              exact absurd h.1.symm (digit_not_sign (hd d List.mem_cons_self)).2.1
          · simp at h
          · simp only [List.cons_append, List.nil_append, List.cons.injEq, true_and] at h
            subst h; exact ⟨⟨⟨hne, hd⟩, hb⟩, h0⟩
      · simp only [hp, hm, or_self, if_false, decide_false, Bool.not_false, Bool.true_or, Bool.and_true,
          Bool.and_eq_true, Bool.not_eq_true', List.isEmpty_eq_false_iff, List.all_eq_true, decide_eq_true_eq]
        constructor
        · rintro ⟨⟨h1, h2⟩, h3⟩
          exact ⟨[], c :: rest, rfl, h1, h2, h3, .inl rfl⟩
        · rintro ⟨sign, ds, h, hne, hd, hb, hs⟩
          rcases hs with rfl | rfl | ⟨rfl, _⟩
          · simp only [List.nil_append] at h
            subst h; exact ⟨⟨hne, hd⟩, hb⟩
          · simp only [List.cons_append, List.nil_append, List.cons.injEq] at h
            exact absurd h.1 hp
          · simp only [List.cons_append, List.nil_append, List.cons.injEq] at h
            exact absurd h.1 hm

theorem ratioSpec_iff (s : Bytes) : ratioSpec s = true ↔ RatioSpec s := by
  unfold ratioSpec RatioSpec
  simp only [Bool.or_eq_true, List.isEmpty_iff, List.any_eq_true, List.mem_range, Bool.and_eq_true, decide_eq_true_eq]
  constructor
  · rintro (h | ⟨i, hi, ⟨h1, h2⟩, h3⟩)
    · exact .inl h
    · refine .inr ⟨s.take i, s.drop (i + 1), ?_, (numTok_iff _).mp h2, (numTok_iff _).mp h3⟩
      have hlt : i < s.length := hi
      have hg : s[i] = 0x2F := by
        have := List.getElem?_eq_getElem hlt
        rw [this] at h1; exact Option.some.inj h1
      rw [← hg, ← List.drop_eq_getElem_cons hlt, List.take_append_drop]
  · rintro (h | ⟨l, r, rfl, hl, hr⟩)
    · exact .inl h
    · refine .inr ⟨l.length, by simp, ⟨by simp, ?_⟩, ?_⟩
      · rw [List.take_left']; exact (numTok_iff _).mpr hl; rfl
      · have : (l ++ 0x2F :: r).drop (l.length + 1) = r := by
          rw [← List.drop_drop, List.drop_left']; rfl; rfl
        rw [this]; exact (numTok_iff _).mpr hr


/-! ## `params.Unmarshal` and `validate.Struct` field by field -/

/-- kind of a field value: 0 int, 1 bool, 2 string -/
def kindOf : Val → Nat
  | .int _ => 0
  | .bool _ => 1
  | .str _ => 2

/-- one struct field of `params.Unmarshal` -/
def cell (m : FieldMap) (row : String × Option Bytes × Nat × List String) : Option Val :=
  match row.2.1 with
  | none => zeroVal row.2.2.1
  | some name =>
    match m.get? name with
    | none => zeroVal row.2.2.1
    | some v => parseVal row.2.2.1 v

theorem unmarshal_eq (schema : Schema) (m : FieldMap) : unmarshal schema m = schema.mapM (cell m) := by
  unfold unmarshal
  congr 1

theorem zeroVal_kind {k : Nat} {v : Val} (h : zeroVal k = some v) : kindOf v = k := by
  unfold zeroVal at h
  split at h
  · cases h; simp [kindOf, *]
  · split at h
    · cases h; simp [kindOf, *]
    · split at h
      · cases h; simp [kindOf, *]
      · cases h

theorem parseVal_kind {k : Nat} {b : Bytes} {v : Val} (h : parseVal k b = some v) : kindOf v = k := by
  unfold parseVal at h
  split at h
  · obtain ⟨n, _, rfl⟩ := Option.map_eq_some_iff.mp h; simp [kindOf, *]
  · split at h
    · obtain ⟨n, _, rfl⟩ := Option.map_eq_some_iff.mp h; simp [kindOf, *]
    · split at h
      · cases h; simp [kindOf, *]
      · cases h

theorem cell_kind {m : FieldMap} {row : String × Option Bytes × Nat × List String} {v : Val}
    (h : cell m row = some v) : kindOf v = row.2.2.1 := by
  unfold cell at h
  split at h
  · exact zeroVal_kind h
  · split at h
    · exact zeroVal_kind h
    · exact parseVal_kind h

theorem unmarshal_cons {row : String × Option Bytes × Nat × List String} {rest : Schema} {m : FieldMap} {f : Fields}
    (h : unmarshal (row :: rest) m = some f) :
    ∃ v vs, f = v :: vs ∧ cell m row = some v ∧ unmarshal rest m = some vs := by
  rw [unmarshal_eq, List.mapM_cons] at h
  cases hc : cell m row with
  | none => simp [hc] at h
  | some v =>
    cases hr : List.mapM (cell m) rest with
    | none => simp [hc, hr] at h
    | some vs =>
      simp [hc, hr] at h
      exact ⟨v, vs, h.symm, rfl, by rw [unmarshal_eq]; exact hr⟩

/-- a field that the schema names has a value of the schema's kind which passes every tag of the field -/
theorem field_sound {schema : Schema} {m : FieldMap} {f : Fields} (hu : unmarshal schema m = some f)
    (hv : validate schema f = true) {name : String} {p : Option Bytes} {k : Nat} {tags : List String}
    (hrow : schema.lookup name = some (p, k, tags)) :
    ∃ v, field (schema.map (·.1)) f name = some v ∧ kindOf v = k ∧ ∀ t ∈ tags, checkTag v t = true := by
  induction schema generalizing f with
  | nil => simp [List.lookup] at hrow
  | cons row rest ih =>
    obtain ⟨v, vs, rfl, hc, hr⟩ := unmarshal_cons hu
    obtain ⟨n, p', k', tags'⟩ := row
    simp only [validate, List.zip_cons_cons, List.all_cons, Bool.and_eq_true] at hv
    simp only [List.lookup_cons] at hrow
    simp only [field, List.map_cons, List.zip_cons_cons, List.lookup_cons]
    cases hn : name == n with
    | true =>
      simp only [hn] at hrow ⊢
      cases hrow
      exact ⟨v, rfl, cell_kind hc, fun t ht => List.all_eq_true.mp hv.1 t ht⟩
    | false =>
      simp only [hn] at hrow ⊢
      exact ih hr hv.2 hrow

theorem mapM_mem {α β : Type} {g : α → Option β} {xs : List α} {ys : List β} (h : xs.mapM g = some ys) :
    ∀ y ∈ ys, ∃ x ∈ xs, g x = some y := by
  induction xs generalizing ys with
  | nil => simp at h; subst h; simp
  | cons x xs ih =>
    rw [List.mapM_cons] at h
    cases hx : g x with
    | none => simp [hx] at h
    | some y0 =>
      cases hr : xs.mapM g with
      | none => simp [hx, hr] at h
      | some ys0 =>
        simp [hx, hr] at h
        subst h
        intro y hy
        rcases List.mem_cons.mp hy with rfl | hy
        · exact ⟨x, List.mem_cons_self, hx⟩
        · obtain ⟨x', hx', hg⟩ := ih hr y hy
          exact ⟨x', List.mem_cons_of_mem _ hx', hg⟩


/-! ## what the tags mean -/

theorem oneof_required : oneofVals "required" = none := by decide
theorem oneof_gt0 : oneofVals "gt=0" = none := by decide
theorem oneof_gte0 : oneofVals "gte=0" = none := by decide
theorem oneof_ratio : oneofVals "ratio" = none := by decide
theorem oneof_012 : oneofVals "oneof=0 1 2" = some [0, 1, 2] := by decide
theorem oneof_01234 : oneofVals "oneof=0 1 2 3 4" = some [0, 1, 2, 3, 4] := by decide

theorem tag_required_str {s : Bytes} (h : checkTag (.str s) "required" = true) : s.isEmpty = false := by
  simpa [checkTag, oneof_required, Heartbeat.checkTag] using h

theorem tag_gt0 {n : Int} (h : checkTag (.int n) "gt=0" = true) : 0 < n := by
  simpa [checkTag, oneof_gt0, Heartbeat.checkTag] using h

theorem tag_gte0 {n : Int} (h : checkTag (.int n) "gte=0" = true) : 0 ≤ n := by
  simpa [checkTag, oneof_gte0, Heartbeat.checkTag] using h

theorem tag_ratio {s : Bytes} (h : checkTag (.str s) "ratio" = true) : ratioOk s = true := by
  simpa [checkTag, oneof_ratio, Heartbeat.checkTag] using h

theorem tag_oneof {n : Int} {tag : String} {vals : List Int} (ho : oneofVals tag = some vals)
    (h : checkTag (.int n) tag = true) : n ∈ vals := by
  simpa [checkTag, ho] using h

/-- the schema has a field `name` of kind `kind` that carries `tag` -/
def rowHas (schema : Schema) (name : String) (kind : Nat) (tag : String) : Bool :=
  match schema.lookup name with
  | some (_, k, tags) => k == kind && tags.contains tag
  | none => false

theorem row_sound {schema : Schema} {m : FieldMap} {f : Fields} (hu : unmarshal schema m = some f)
    (hv : validate schema f = true) {name : String} {kind : Nat} {tag : String} (h : rowHas schema name kind tag = true) :
    ∃ v, field (schema.map (·.1)) f name = some v ∧ kindOf v = kind ∧ checkTag v tag = true := by
  unfold rowHas at h
  split at h
  · rename_i p k tags hl
    simp only [Bool.and_eq_true, beq_iff_eq, List.contains_iff_mem] at h
    obtain ⟨v, h1, h2, h3⟩ := field_sound hu hv hl
    exact ⟨v, h1, h2.trans h.1, h3 _ h.2⟩
  · cases h

theorem kind_int {v : Val} (h : kindOf v = 0) : ∃ n, v = .int n := by
  cases v <;> simp [kindOf] at h; exact ⟨_, rfl⟩

theorem kind_str {v : Val} (h : kindOf v = 2) : ∃ s, v = .str s := by
  cases v <;> simp [kindOf] at h; exact ⟨_, rfl⟩

section rows
variable {schema : Schema} {names : List String} {m : FieldMap} {f : Fields}
  (hnames : schema.map (·.1) = names) (hu : unmarshal schema m = some f) (hv : validate schema f = true)
include hnames hu hv

theorem row_required {name : String} (h : rowHas schema name 2 "required" = true) :
    nonEmptyStr (field names f name) = true := by
  obtain ⟨v, h1, h2, h3⟩ := row_sound hu hv h
  obtain ⟨s, rfl⟩ := kind_str h2
  rw [← hnames, h1]; simp [nonEmptyStr, tag_required_str h3]

theorem row_gt0 {name : String} (h : rowHas schema name 0 "gt=0" = true) :
    intAtLeast 1 (field names f name) = true := by
  obtain ⟨v, h1, h2, h3⟩ := row_sound hu hv h
  obtain ⟨n, rfl⟩ := kind_int h2
  have := tag_gt0 h3
  rw [← hnames, h1]; simp only [intAtLeast, decide_eq_true_eq]; omega

theorem row_gte0 {name : String} (h : rowHas schema name 0 "gte=0" = true) :
    intAtLeast 0 (field names f name) = true := by
  obtain ⟨v, h1, h2, h3⟩ := row_sound hu hv h
  obtain ⟨n, rfl⟩ := kind_int h2
  have := tag_gte0 h3
  rw [← hnames, h1]; simp only [intAtLeast, decide_eq_true_eq]; omega

theorem row_ratio {name : String} (h : rowHas schema name 2 "ratio" = true) :
    ratioStr (field names f name) = true := by
  obtain ⟨v, h1, h2, h3⟩ := row_sound hu hv h
  obtain ⟨s, rfl⟩ := kind_str h2
  rw [← hnames, h1]
  exact (ratioSpec_iff s).mpr ((ratioOk_iff s).mp (tag_ratio h3))

theorem row_oneof012 {name : String} (h : rowHas schema name 0 "oneof=0 1 2" = true) :
    intIn 0 2 (field names f name) = true := by
  obtain ⟨v, h1, h2, h3⟩ := row_sound hu hv h
  obtain ⟨n, rfl⟩ := kind_int h2
  have := tag_oneof oneof_012 h3
  rw [← hnames, h1]
  simp only [List.mem_cons, List.not_mem_nil, or_false] at this
  simp only [intIn, Bool.and_eq_true, decide_eq_true_eq]; omega

theorem row_oneof01234 {name : String} (h : rowHas schema name 0 "oneof=0 1 2 3 4" = true) :
    intIn 0 4 (field names f name) = true := by
  obtain ⟨v, h1, h2, h3⟩ := row_sound hu hv h
  obtain ⟨n, rfl⟩ := kind_int h2
  have := tag_oneof oneof_01234 h3
  rw [← hnames, h1]
  simp only [List.mem_cons, List.not_mem_nil, or_false] at this
  simp only [intIn, Bool.and_eq_true, decide_eq_true_eq]; omega

end rows


/-! ## what the model and the theorems assume about the generated schemas -/

/-- every field is an int, bool or string; every tag is one the model implements for that kind -/
def schemaSupported (schema : Schema) : Bool :=
  schema.all fun (_, _, kind, tags) => (kind == 0 || kind == 1 || kind == 2) &&
    tags.all fun t => t == "required" || (kind == 0 && (t == "gt=0" || t == "gte=0" || (oneofVals t).isSome)) ||
      (kind == 2 && t == "ratio")

/-- the assumptions about `Swat4.Facts.details…` (all decidable; `C07.details_facts_ok` checks them) -/
structure FactsOk : Prop where
  supported : schemaSupported infoSchema = true ∧ schemaSupported playerSchema = true ∧ schemaSupported objectiveSchema = true
  sameInfo : Facts.detailsInfoSchema = Facts.reporterInfoSchema
  infoNames : infoSchema.map (·.1) = DetailsSpec.infoNames
  playerNames : playerSchema.map (·.1) = DetailsSpec.playerNames
  objectiveNames : objectiveSchema.map (·.1) = DetailsSpec.objectiveNames
  infoKinds : infoSchema.map (·.2.2.1) = DetailsSpec.infoKinds
  playerKinds : playerSchema.map (·.2.2.1) = DetailsSpec.playerKinds
  objectiveKinds : objectiveSchema.map (·.2.2.1) = DetailsSpec.objectiveKinds
  infoStrs : infoRequiredStrings.all (rowHas infoSchema · 2 "required") = true
  hostport : rowHas infoSchema "HostPort" 0 "gt=0" = true
  infoNonNeg : infoNonNegative.all (rowHas infoSchema · 0 "gte=0") = true
  infoRatio : infoRatios.all (rowHas infoSchema · 2 "ratio") = true
  playerName : rowHas playerSchema "Name" 2 "required" = true
  team : rowHas playerSchema "Team" 0 "oneof=0 1 2" = true
  coop : rowHas playerSchema "CoopStatus" 0 "oneof=0 1 2 3 4" = true
  playerNonNeg : playerNonNegative.all (rowHas playerSchema · 0 "gte=0") = true
  objName : rowHas objectiveSchema "Name" 2 "required" = true
  objStatus : rowHas objectiveSchema "Status" 0 "oneof=0 1 2" = true
  top : infoValidated = true ∧ dives "Players" = true ∧ dives "Objectives" = true

theorem all_of_all {α : Type} {xs : List α} {P Q : α → Bool} (h : xs.all P = true) (hpq : ∀ x, P x = true → Q x = true) :
    xs.all Q = true :=
  List.all_eq_true.mpr fun x hx => hpq x (List.all_eq_true.mp h x hx)

theorem info_sound (hf : FactsOk) {m : FieldMap} {i : Fields} (hu : unmarshal infoSchema m = some i)
    (hv : validate infoSchema i = true) : infoAccepted i = true := by
  unfold infoAccepted
  simp only [Bool.and_eq_true]
  exact ⟨⟨⟨all_of_all hf.infoStrs fun _ h => row_required hf.infoNames hu hv h, row_gt0 hf.infoNames hu hv hf.hostport⟩,
    all_of_all hf.infoNonNeg fun _ h => row_gte0 hf.infoNames hu hv h⟩,
    all_of_all hf.infoRatio fun _ h => row_ratio hf.infoNames hu hv h⟩

theorem player_sound (hf : FactsOk) {m : FieldMap} {p : Fields} (hu : unmarshal playerSchema m = some p)
    (hv : validate playerSchema p = true) : playerAccepted p = true := by
  unfold playerAccepted
  simp only [Bool.and_eq_true]
  exact ⟨⟨⟨row_required hf.playerNames hu hv hf.playerName, row_oneof012 hf.playerNames hu hv hf.team⟩,
    row_oneof01234 hf.playerNames hu hv hf.coop⟩,
    all_of_all hf.playerNonNeg fun _ h => row_gte0 hf.playerNames hu hv h⟩

theorem objective_sound (hf : FactsOk) {m : FieldMap} {o : Fields} (hu : unmarshal objectiveSchema m = some o)
    (hv : validate objectiveSchema o = true) : objectiveAccepted o = true := by
  unfold objectiveAccepted
  simp only [Bool.and_eq_true]
  exact ⟨row_required hf.objectiveNames hu hv hf.objName, row_oneof012 hf.objectiveNames hu hv hf.objStatus⟩

/-- whatever the post-query stage accepts satisfies the specification of an accepted details value -/
theorem detailsOf_sound (hf : FactsOk) {r : GS1.Response} {d : Details} (h : detailsOf r = .ok d) :
    DetailsSpec.accepted d = true := by
  unfold detailsOf at h
  split at h
  · cases h
  · rename_i d' hd
    split at h
    · rename_i hval
      cases h
      unfold newDetailsFromParams at hd
      split at hd
      · cases hd
      · rename_i ps hps
        split at hd
        · cases hd
        · rename_i os hos
          split at hd
          · cases hd
          · rename_i i hi
            cases hd
            simp only [validateDetails, hf.top.1, hf.top.2.1, hf.top.2.2, Bool.not_true, Bool.false_or, Bool.and_eq_true] at hval
            unfold DetailsSpec.accepted
            simp only [Bool.and_eq_true]
            refine ⟨⟨info_sound hf hi hval.1.1, ?_⟩, ?_⟩
            · refine List.all_eq_true.mpr fun p hp => ?_
              obtain ⟨m, _, hm⟩ := mapM_mem hps p hp
              exact player_sound hf hm (List.all_eq_true.mp hval.1.2 p hp)
            · refine List.all_eq_true.mpr fun o ho => ?_
              obtain ⟨m, _, hm⟩ := mapM_mem hos o ho
              exact objective_sound hf hm (List.all_eq_true.mp hval.2 o ho)
    · cases h

end Swat4.DetailsProbe
