import Swat4.Lemmas.GS1Assoc
import Swat4.Lemmas.GS1Players
/-!
# The helpers the GS1 model and its spec share, characterised on their own (C08)

`Spec/GS1Spec.lean` (`mkMap`, `toResponse`) reuses two functions of the model: `GS1.latin1`
(ISO 8859-1 → UTF-8) and `GS1.insertKV` (the Go map as a key-sorted association list).  Without the
lemmas below the clauses "text is converted from latin-1 to UTF-8" and "a later duplicate of a key wins"
would compare the model with itself.  Here `latin1` is tied to Lean core's own UTF-8 encoder
(`String.utf8EncodeChar`, `String.fromUTF8?`) and `insertKV` is described by list membership alone.
-/
namespace Swat4.GS1
open Swat4

/-! ## `latin1` -/

/-- one byte: the model's two-way split is core's UTF-8 encoding of the code point with the same number -/
theorem utf8_of_byte_bv : ∀ w : BitVec 8, String.utf8EncodeChar (Char.ofNat (UInt8.ofBitVec w).toNat) =
    (if (UInt8.ofBitVec w) < 0x80 then [UInt8.ofBitVec w]
     else [(0xC0 : UInt8) ||| ((UInt8.ofBitVec w) >>> 6), (0x80 : UInt8) ||| ((UInt8.ofBitVec w) &&& 0x3F)]) := by
  decide

theorem utf8_of_byte (c : UInt8) : String.utf8EncodeChar (Char.ofNat c.toNat) =
    (if c < 0x80 then [c] else [(0xC0 : UInt8) ||| (c >>> 6), (0x80 : UInt8) ||| (c &&& 0x3F)]) :=
  utf8_of_byte_bv c.toBitVec

/-- the code point a latin-1 byte denotes: the one with the same number (ISO 8859-1 is the first 256
code points of Unicode) -/
def codePoint (b : UInt8) : Char := Char.ofNat b.toNat

theorem codePoint_toNat (b : UInt8) : (codePoint b).toNat = b.toNat := by
  have : ∀ w : BitVec 8, (codePoint (UInt8.ofBitVec w)).toNat = (UInt8.ofBitVec w).toNat := by decide
  exact this b.toBitVec

/-- `latin1 bs` is the concatenation of core's UTF-8 encodings of the code points `bs` denotes -/
theorem latin1_eq_flatMap (bs : Bytes) : latin1 bs = (bs.map codePoint).flatMap String.utf8EncodeChar := by
  unfold latin1
  induction bs with
  | nil => rfl
  | cons b t ih =>
    simp only [List.flatMap_cons, List.map_cons, ih, codePoint, utf8_of_byte]

/-- `latin1 bs` is the byte content of the string whose characters are those code points -/
theorem latin1_eq_toUTF8 (bs : Bytes) : latin1 bs = (String.ofList (bs.map codePoint)).toUTF8.data.toList := by
  rw [String.toUTF8_eq_toByteArray, String.toByteArray_ofList, List.utf8Encode, List.data_toByteArray,
    latin1_eq_flatMap]

/-- the bytes `latin1` returns always decode as UTF-8, to exactly that string -/
theorem latin1_fromUTF8 (bs : Bytes) :
    String.fromUTF8? (latin1 bs).toByteArray = some (String.ofList (bs.map codePoint)) := by
  have e : (latin1 bs).toByteArray = (bs.map codePoint).utf8Encode := by
    rw [latin1_eq_flatMap, List.utf8Encode]
  have hv : (latin1 bs).toByteArray.IsValidUTF8 := ⟨_, e⟩
  unfold String.fromUTF8?
  rw [dif_pos hv]
  congr 1
  apply String.toByteArray_inj.mp
  rw [String.toByteArray_ofList]
  exact e

/-! ## `insertKV` by membership -/

section assoc
set_option linter.unusedSectionVars false
variable {κ α : Type} [LT κ] [DecidableLT κ] [DecidableEq κ]

/-- the inserted pair is in the result (no hypothesis on the list) -/
theorem insertKV_mem_self (k : κ) (v : α) (m : List (κ × α)) : (k, v) ∈ insertKV k v m := by
  induction m with
  | nil => simp [insertKV]
  | cons hd t ih =>
    obtain ⟨k2, v2⟩ := hd
    simp only [insertKV]
    split
    · simp
    · split
      · simp
      · exact List.mem_cons_of_mem _ ih

/-- pairs under any other key are neither added nor removed (no hypothesis on the list) -/
theorem insertKV_mem_other (k : κ) (v : α) (m : List (κ × α)) (k' : κ) (v' : α) (h : k' ≠ k) :
    (k', v') ∈ insertKV k v m ↔ (k', v') ∈ m := by
  induction m with
  | nil => simp [insertKV, h]
  | cons hd t ih =>
    obtain ⟨k2, v2⟩ := hd
    simp only [insertKV]
    split
    · simp [h]
    · split
      · rename_i _ he
        subst he
        simp [h]
      · simp only [List.mem_cons, ih]

/-- with strictly ascending keys (the invariant every map of the model keeps) the inserted key carries
only the new value: the old binding of `k`, if any, is gone -/
theorem insertKV_mem_key (O : StrictTotal κ) (k : κ) (v w : α) (m : List (κ × α))
    (hs : (keysG m).Pairwise (· < ·)) (h : (k, w) ∈ insertKV k v m) : w = v := by
  induction m with
  | nil =>
    simp only [insertKV, List.mem_singleton, Prod.mk.injEq] at h
    exact h.2
  | cons hd t ih =>
    obtain ⟨k2, v2⟩ := hd
    have hs' : ∀ x ∈ keysG t, k2 < x := (List.pairwise_cons.mp hs).1
    have hst : (keysG t).Pairwise (· < ·) := (List.pairwise_cons.mp hs).2
    have notin (hle : k < k2 ∨ k = k2) : ∀ u, (k, u) ∉ t := by
      intro u hu
      have hk : k ∈ keysG t := List.mem_map.mpr ⟨(k, u), hu, rfl⟩
      have := hs' k hk
      cases hle with
      | inl hl => exact O.irrefl _ (O.trans _ _ _ hl this)
      | inr he => subst he; exact O.irrefl _ this
    simp only [insertKV] at h
    split at h
    · rename_i hlt
      simp only [List.mem_cons, Prod.mk.injEq] at h
      rcases h with h | h | h
      · exact h.2
      · exact absurd (h.1 ▸ hlt) (O.irrefl _)
      · exact absurd h (notin (.inl hlt) w)
    · split at h
      · rename_i _ he
        simp only [List.mem_cons, Prod.mk.injEq] at h
        rcases h with h | h
        · exact h.2
        · exact absurd h (notin (.inr he) w)
      · rename_i _ hne
        simp only [List.mem_cons, Prod.mk.injEq] at h
        rcases h with h | h
        · exact absurd h.1 hne
        · exact ih hst h

end assoc

/-! ## `mkMap`: the value under a key is the converted value of the *last* pair with that key -/

open Swat4.GS1Spec in
/-- folding pairs into a sorted map: a key that occurs in `kvs` carries the (converted) value of its last
occurrence there — core `List.lookup` on the reversed list — and only that; other keys keep what `m` had -/
theorem foldl_insField_mem (kvs m : List (Bytes × Bytes)) (hs : (keysG m).Pairwise (· < ·)) (k w : Bytes) :
    (k, w) ∈ kvs.foldl insField m ↔
      (match List.lookup k kvs.reverse with | some v => w = latin1 v | none => (k, w) ∈ m) := by
  induction kvs generalizing m with
  | nil => simp
  | cons kv t ih =>
    obtain ⟨k1, v1⟩ := kv
    have hs' : (keysG (insField m (k1, v1))).Pairwise (· < ·) := insertKV_sorted_g strictTotal_bytes _ _ _ hs
    rw [List.foldl_cons, ih _ hs', List.reverse_cons, List.lookup_append]
    cases hl : List.lookup k t.reverse with
    | some v => simp
    | none =>
      simp only [Option.none_or, List.lookup_cons, List.lookup_nil, insField]
      by_cases hk : k = k1
      · subst hk
        simp only [BEq.rfl]
        constructor
        · exact insertKV_mem_key strictTotal_bytes _ _ _ _ hs
        · intro h; subst h; exact insertKV_mem_self _ _ _
      · have : (k == k1) = false := by simpa using hk
        simp only [this]
        exact insertKV_mem_other _ _ _ _ _ hk

end Swat4.GS1
