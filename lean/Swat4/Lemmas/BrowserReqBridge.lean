import Swat4.Lemmas.Browsing
import Swat4.Model.BrowserReq06
/-!
# The two models of `browsing.NewRequest` agree (C01 ↔ C06)

`Browsing.parseRequest` (Model/Browsing.lean, used by C01: full result, monadic, fuelled `ConsumeString`)
and `BrowserReq06.newRequest` (Model/BrowserReq06.lean, used by C06: outcome class and field list only,
structural scanner) were written independently from the same Go function.  `newRequest_eq` proves that
on every byte string the C06 model returns exactly the class of the C01 model's result, with the same
field list, for the configuration in `Swat4.Facts`.
-/
namespace Swat4.BrowserReqBridge
open Swat4 Swat4.Browsing

/-- the class of an outcome of the C01 model, in the C06 model's vocabulary.  `hang` (fuel exhaustion,
unreachable: `C01.parse_total`) is put with `panic`, the "must not happen" class. -/
def classOf : Outcome Request → BrowserReq06.ReqOutcome
  | .ok r => .ok r.fields
  | .error _ => .err
  | .panic => .panic
  | .hang => .panic

/-- the two sections of the generated facts describe the same constants -/
theorem facts_agree :
    Facts.reporterQueryFields = Facts.browsingQueryFields ∧
    Facts.reporterTcpMaxFields = Facts.browsingMaxAllowedNumberOfFields ∧
    Facts.reporterTcpMinRequestLen = Facts.browsingMinRequestPayloadLength := ⟨rfl, rfl, rfl⟩

/-! ## the building blocks coincide -/

theorem consume_eq (d : UInt8) (b : Bytes) : BrowserReq06.consume d b = consumeS d b := by
  induction b with
  | nil => rfl
  | cons c rest ih =>
    unfold BrowserReq06.consume consumeS
    by_cases hc : c = d
    · simp [hc]
    · simp only [hc, if_false, ih]

theorem slice?_eq (b : Bytes) (lo hi : Nat) : BrowserReq06.slice? b lo hi = goSlice b lo hi := rfl

theorem be16?_eq (b : Bytes) : BrowserReq06.be16? b = be16? b := by
  match b with
  | [] => rfl
  | [_] => rfl
  | x :: y :: r => simp [BrowserReq06.be16?, be16?, goIndex]

theorem be32?_eq (b : Bytes) : BrowserReq06.be32? b = be32? b := by
  match b with
  | [] => rfl
  | [_] => rfl
  | [_, _] => rfl
  | [_, _, _] => rfl
  | x :: y :: z :: w :: r =>
    simp only [BrowserReq06.be32?, be32?, goIndex, List.getElem?_cons_succ, List.getElem?_cons_zero, Option.some.injEq]
    omega

theorem isQueryField_eq (name : Bytes) : BrowserReq06.isQueryField name = Cfg.facts.isQueryField name := rfl

/-- the field loop: with enough fuel on either side, the C06 loop's `none` is the C01 loop's
`ErrTooManyFieldsRequested` and its `some fields` the C01 loop's `ok fields` -/
theorem fieldLoop_eq (fuelB fuel6 : Nat) (u : Bytes) (acc : List Bytes) (hB : u.length < fuelB) (h6 : u.length ≤ fuel6) :
    fieldsLoop Cfg.facts fuelB u acc =
      match BrowserReq06.fieldLoop Facts.reporterTcpMaxFields fuel6 u acc with
      | none => .error .tooManyFields
      | some fs => .ok fs := by
  induction fuelB generalizing fuel6 u acc with
  | zero => omega
  | succ k ih =>
    unfold fieldsLoop
    by_cases hu : u.length > 0
    · cases fuel6 with
      | zero => omega
      | succ f =>
        have hne : u.isEmpty = false := by cases u <;> simp_all
        simp only [hu, if_true, consumeString_eq, ok_bind, BrowserReq06.fieldLoop, hne, Bool.false_eq_true, if_false,
          consume_eq, isQueryField_eq]
        have hlen : ((consumeS 0x5c u).2.getD []).length < u.length := by
          cases hr : (consumeS 0x5c u).2 with
          | none => simpa using hu
          | some r => simpa using consumeS_rem_length 0x5c u r hr
        generalize (consumeS 0x5c u).1 = name at *
        have key : ∀ acc', fieldsLoop Cfg.facts k (match (consumeS 0x5c u).2 with
              | some r => r
              | none => ([] : Bytes)) acc' =
            match BrowserReq06.fieldLoop Facts.reporterTcpMaxFields f ((consumeS 0x5c u).2.getD []) acc' with
            | none => .error .tooManyFields
            | some fs => .ok fs := by
          intro acc'
          have := ih f ((consumeS 0x5c u).2.getD []) acc' (by omega) (by omega)
          cases hr : (consumeS 0x5c u).2 with
          | none => rw [hr] at this; exact this
          | some r => rw [hr] at this; exact this
        by_cases hq : Cfg.facts.isQueryField name = true
        · simp only [hq, Bool.not_true, Bool.false_eq_true, if_false]
          by_cases hmax : (acc ++ [name]).length > Cfg.facts.maxFields
          · have hmax' : (acc ++ [name]).length > Facts.reporterTcpMaxFields := hmax
            simp only [hmax, hmax', if_true]
          · have hmax' : ¬ (acc ++ [name]).length > Facts.reporterTcpMaxFields := hmax
            simp only [hmax, hmax', if_false]
            exact key _
        · have hq' : Cfg.facts.isQueryField name = false := by simpa using hq
          simp only [hq', Bool.not_false, if_true]
          exact key _
    · have hnil : u = [] := by cases u <;> simp_all
      subst hnil
      cases fuel6 <;> simp [BrowserReq06.fieldLoop]

/-! ## the parsers coincide -/

/-- class of an intermediate result, given how a value continues -/
def classWith {α : Type} (k : α → BrowserReq06.ReqOutcome) : Outcome α → BrowserReq06.ReqOutcome
  | .ok a => k a
  | .error _ => .err
  | .panic => .panic
  | .hang => .panic

theorem classOf_bind {α : Type} (o : Outcome α) (f : α → Outcome Request) :
    classOf (o >>= f) = classWith (fun a => classOf (f a)) o := by
  cases o <;> rfl

theorem validate_eq (fields : List Bytes) (u : Bytes) :
    BrowserReq06.validateOptions fields u = classWith (fun _ => .ok fields) (validateOptionsMask u) := by
  unfold BrowserReq06.validateOptions validateOptionsMask
  by_cases h : u.length ≠ 4
  · rw [if_pos h, if_pos h]; rfl
  · obtain ⟨n, hn⟩ := be32?_of_length u (by omega)
    rw [if_neg h, if_neg h]
    simp only [be32?_eq, hn, orPanic_some, ok_bind]
    by_cases ho : n ≠ 0 ∧ n ≠ 1
    · rw [if_pos ho, if_pos ho]; rfl
    · rw [if_neg ho, if_neg ho]; rfl

/-- `parseFields` followed by `validateOptionsMask` -/
theorem parseFields_eq (u : Bytes) :
    BrowserReq06.parseFields u =
      classWith (fun p => BrowserReq06.validateOptions p.1 p.2) (parseFields Cfg.facts u) := by
  unfold BrowserReq06.parseFields parseFields consumeCString
  rw [consumeString_eq, consume_eq]
  simp only [ok_bind]
  cases (consumeS 0 u).2 with
  | none => rfl
  | some rem =>
    simp only
    generalize (consumeS 0 u).1 = fb
    by_cases hlen : fb.length < 1
    · simp only [hlen, if_true]; rfl
    · simp only [hlen, if_false]
      cases fb with
      | nil => simp at hlen
      | cons b0 rest =>
        have hidx : goIndex (b0 :: rest) 0 = some b0 := rfl
        have hidx' : (b0 :: rest)[0]? = some b0 := rfl
        have hsl : goSlice (b0 :: rest) 1 (b0 :: rest).length = some rest := by
          rw [goSlice_drop _ 1 (by simp)]; rfl
        simp only [hidx, hidx', orPanic_some, ok_bind, slice?_eq, hsl]
        by_cases hb0 : b0 ≠ 0x5c
        · simp only [hb0, ne_eq, not_false_eq_true, if_true]; rfl
        · simp only [hb0, if_false]
          rw [fieldLoop_eq (rest.length + 1) rest.length rest [] (by omega) (Nat.le_refl _)]
          cases BrowserReq06.fieldLoop Facts.reporterTcpMaxFields rest.length rest [] with
          | none => rfl
          | some fields =>
            simp only [ok_bind]
            cases fields with
            | nil => rfl
            | cons f fs => simp [classWith]

theorem skipCString_eq (u : Bytes) :
    skipCString u = match (consumeS 0 u).2 with
      | none => .error .invalidFormat
      | some r => .ok r := by
  unfold skipCString consumeCString
  rw [consumeString_eq]
  simp only [ok_bind]
  cases (consumeS 0 u).2 <;> rfl

theorem parseFilters_eq (u : Bytes) :
    parseFilters u = match (consumeS 0 u).2 with
      | none => .error .invalidFormat
      | some r => .ok ((consumeS 0 u).1, r) := by
  unfold parseFilters consumeCString
  rw [consumeString_eq]
  simp only [ok_bind]
  cases (consumeS 0 u).2 <;> rfl

theorem newRequest_body_eq (u : Bytes) : BrowserReq06.parse u = classOf (parseBody Cfg.facts u) := by
  unfold BrowserReq06.parse parseBody
  rw [consume_eq, skipCString_eq]
  cases (consumeS 0 u).2 with
  | none => rfl
  | some u1 =>
    simp only [ok_bind]
    rw [consume_eq, skipCString_eq]
    cases (consumeS 0 u1).2 with
    | none => rfl
    | some u2 =>
      simp only [ok_bind]
      unfold BrowserReq06.parseChallenge
      by_cases h8 : u2.length < 8
      · simp only [h8, if_true, parseChallenge]; rfl
      · obtain ⟨ch, hch, _⟩ := parseChallenge_eq u2 (by omega)
        rw [hch]
        simp only [h8, if_false, slice?_eq, goSlice_take u2 8 (by omega), goSlice_drop u2 8 (by omega), ok_bind]
        unfold BrowserReq06.parseFilters
        rw [consume_eq, parseFilters_eq]
        cases (consumeS 0 (u2.drop 8)).2 with
        | none => rfl
        | some u4 =>
          simp only [ok_bind]
          rw [parseFields_eq]
          cases parseFields Cfg.facts u4 with
          | ok p =>
            obtain ⟨fields, u5⟩ := p
            simp only [classWith, ok_bind]
            rw [validate_eq]
            cases validateOptionsMask u5 <;> rfl
          | error e => rfl
          | panic => rfl
          | hang => rfl

/-- **The two models of `browsing.NewRequest` agree**: on every byte string the C06 model
(`BrowserReq06.newRequest`: `ok fields` / `err` / `panic`) returns the class of the C01 model's result
(`Browsing.parseRequest Cfg.facts`), with the same list of requested known fields. -/
theorem newRequest_eq (data : Bytes) : BrowserReq06.newRequest data = classOf (parseRequest Cfg.facts data) := by
  unfold BrowserReq06.newRequest parseRequest
  by_cases h2 : data.length < 2
  · simp only [h2, if_true]; rfl
  · have hl : (data.take 2).length = 2 := by simp; omega
    obtain ⟨n, hn⟩ := be16?_of_length (data.take 2) hl
    simp only [h2, if_false, slice?_eq, goSlice_take data 2 (by omega), orPanic_some, ok_bind, be16?_eq, hn]
    by_cases hr : n < Cfg.facts.minLen ∨ n > data.length
    · have hr' : n < Facts.reporterTcpMinRequestLen ∨ n > data.length := hr
      simp only [hr, hr', if_true]; rfl
    · have hr' : ¬ (n < Facts.reporterTcpMinRequestLen ∨ n > data.length) := hr
      have hs : goSlice data 9 n = some ((data.take n).drop 9) := by
        have h9 : 9 ≤ n ∧ n ≤ data.length := by
          have : 9 ≤ Cfg.facts.minLen := by decide
          omega
        simp [goSlice, h9]
      simp only [hr, hr', if_false, hs, orPanic_some, ok_bind]
      exact newRequest_body_eq _

/-- consequence: the C06 model panics on no input (from the C01 totality theorem, independently of
`C06.tcp_total`) -/
theorem newRequest_never_panics (data : Bytes) : BrowserReq06.newRequest data ≠ .panic := by
  rw [newRequest_eq]
  have h := parseRequest_safe Cfg.facts (by decide) data
  cases hp : parseRequest Cfg.facts data with
  | ok r => simp [classOf]
  | error e => simp [classOf]
  | panic => rw [hp] at h; exact absurd h id
  | hang => rw [hp] at h; exact absurd h id

end Swat4.BrowserReqBridge

/-- non-vacuity: a concrete request on which both models answer `ok` with two fields -/
example : Swat4.BrowserReq06.newRequest
    ([0, 49, 0, 1, 3, 0, 0, 0, 0] ++ Swat4.Bytes.ofAscii "a" ++ [0] ++ Swat4.Bytes.ofAscii "a" ++ [0] ++ [1, 2, 3, 4, 5, 6, 7, 8] ++ [0] ++
      Swat4.Bytes.ofAscii "\\hostname\\ping\\gamever" ++ [0, 0, 0, 0, 1]) =
    .ok [Swat4.Bytes.ofAscii "hostname", Swat4.Bytes.ofAscii "gamever"] := by decide
