import Swat4.Lemmas.StoreSpecRefine
/-!
# A `Filter` call interleaved with writers: it finishes, and what it returns are committed versions (helper lemmas of C09)

* `Sys.step_log_prefix` / `Sys.run_log_prefix`: the commit log only grows (log-prefix monotonicity);
* `Committed st0 log r`: `r` is the record of an initial row or the record saved by a logged commit — monotone in the log;
* `RInv`: what reader `i` holds when it is done are `Committed` records — preserved by every event (`rinv_step`), using
  `loginv_listing` at the instant of the `HMGET`;
* `Reader.rank`: 2 at the index read, 1 at the `HMGET`, 0 when done; each own step lowers it, nobody else touches it.
-/
namespace Swat4
open Std

/-- the log after one event extends the log before it -/
theorem Sys.step_log_prefix (s : Sys) (e : Ev) : ∃ L, (s.step e).log = s.log ++ L := by
  obtain ⟨L, hL, _⟩ := run_replay s [e]
  exact ⟨L, hL⟩

/-- … after any schedule -/
theorem Sys.run_log_prefix (s : Sys) (es : List Ev) : ∃ L, (s.run es).log = s.log ++ L := by
  obtain ⟨L, hL, _⟩ := run_replay s es
  exact ⟨L, hL⟩

/-- `r` is a committed version w.r.t. the initial rows `st0` and the commit log `log`: the record some initial row
held, or exactly the record saved by the batch of a logged commit (an accepted `EXEC`) -/
def Committed (st0 : RStore) (log : List Commit) (r : Server) : Prop :=
  (∃ k : Nat, st0.items[k]? = some r) ∨ ∃ c ∈ log, ∃ now, c.batch = .save r now

theorem Committed.mono {st0 : RStore} {log : List Commit} {r : Server} (h : Committed st0 log r) (L : List Commit) :
    Committed st0 (log ++ L) r := by
  rcases h with h | ⟨c, hc, now, hb⟩
  · exact Or.inl h
  · exact Or.inr ⟨c, List.mem_append_left _ hc, now, hb⟩

/-- whatever reader `i` holds as its result are committed versions -/
def RInv (st0 : RStore) (s : Sys) (i : Nat) : Prop :=
  ∀ rs, s.clients[i]? = some (.reader ⟨.done rs⟩) → ∀ r ∈ rs, Committed st0 s.log r

theorem rinv_step {st0 : RStore} {s : Sys} (hl : LogInv st0 s) {i : Nat} (h : RInv st0 s i) (e : Ev) :
    RInv st0 (s.step e) i := by
  obtain ⟨L, hL⟩ := s.step_log_prefix e
  intro rs hc r hr
  rw [hL]
  by_cases he : e = .step i
  · subst he
    cases hci : s.clients[i]? with
    | none =>
      rw [Sys.step_none s i hci] at hc
      rw [hci] at hc; cases hc
    | some c =>
      cases c with
      | writer w =>
        rw [Sys.step_clients_self_writer s i w hci] at hc
        cases hc
      | reader r0 =>
        rw [Sys.step_clients_self_reader s i r0 hci] at hc
        have hr0 : rstep s.store r0 = ⟨.done rs⟩ := by
          simp only [Option.some.injEq, Client.reader.injEq] at hc
          exact hc
        obtain ⟨pc0⟩ := r0
        cases pc0 with
        | index fs =>
          simp only [rstep] at hr0
          split at hr0
          · simp only [Reader.mk.injEq, RPC.done.injEq] at hr0
            subst hr0
            cases hr
          · simp only [Reader.mk.injEq] at hr0
            cases hr0
        | hmget keys =>
          simp only [rstep, Reader.mk.injEq, RPC.done.injEq] at hr0
          subst hr0
          rcases loginv_listing hl keys r hr with ⟨k, _, hk⟩ | hlog
          · exact Or.inl ⟨k, hk⟩
          · exact Committed.mono (Or.inr hlog) L
        | done rs0 =>
          simp only [rstep, Reader.mk.injEq, RPC.done.injEq] at hr0
          subst hr0
          exact (h _ hci r hr).mono L
  · rw [Sys.step_clients_of_ne s e i he] at hc
    exact (h rs hc r hr).mono L

theorem rinv_run {st0 : RStore} {s : Sys} (hi : Inv s) (hl : LogInv st0 s) {i : Nat} (h : RInv st0 s i) (es : List Ev) :
    RInv st0 (s.run es) i := by
  induction es generalizing s with
  | nil => exact h
  | cons e es ih => exact ih (inv_step hi e) (loginv_step hi hl e) (rinv_step hl h e)

/-! ## the reader finishes -/

/-- commands a `Filter` call still has to issue at most -/
def Reader.rank (r : Reader) : Nat :=
  match r.pc with
  | .index _ => 2
  | .hmget _ => 1
  | .done _ => 0

theorem rstep_rank (st : RStore) (r : Reader) : (rstep st r).rank ≤ r.rank - 1 := by
  obtain ⟨pc⟩ := r
  cases pc with
  | index fs => simp only [rstep]; split <;> simp [Reader.rank]
  | hmget keys => simp [rstep, Reader.rank]
  | done rs => simp [rstep, Reader.rank]

/-- a reader stays a reader, and after `n` of its own steps its rank has dropped by `n` (other clients, expiries and
ticks do not touch it) -/
theorem reader_rank_run (i : Nat) (s : Sys) (r : Reader) (hc : s.clients[i]? = some (.reader r)) (es : List Ev) :
    ∃ r', (s.run es).clients[i]? = some (.reader r') ∧ r'.rank ≤ r.rank - stepsOf i es := by
  induction es generalizing s r with
  | nil => exact ⟨r, hc, by simp [stepsOf]⟩
  | cons e es ih =>
    by_cases he : e = .step i
    · subst he
      have hc' := Sys.step_clients_self_reader s i r hc
      obtain ⟨r', h1, h2⟩ := ih (s.step (.step i)) _ hc'
      have hcount : stepsOf i (Ev.step i :: es) = stepsOf i es + 1 := by simp [stepsOf]
      have := rstep_rank s.store r
      exact ⟨r', h1, by rw [hcount]; omega⟩
    · have hc' : (s.step e).clients[i]? = some (.reader r) := by rw [Sys.step_clients_of_ne s e i he]; exact hc
      have hcount : stepsOf i (e :: es) = stepsOf i es := by
        cases e with
        | step j =>
          have : ¬ j = i := fun e => he (by rw [e])
          simp [stepsOf, this]
        | expire k => simp [stepsOf]
        | tick d => simp [stepsOf]
      obtain ⟨r', h1, h2⟩ := ih (s.step e) r hc'
      exact ⟨r', h1, by rw [hcount]; exact h2⟩

theorem Reader.done_of_rank_zero {r : Reader} (h : r.rank = 0) : ∃ rs, r = ⟨.done rs⟩ := by
  obtain ⟨pc⟩ := r
  cases pc with
  | index fs => simp [Reader.rank] at h
  | hmget keys => simp [Reader.rank] at h
  | done rs => exact ⟨rs, rfl⟩

end Swat4
