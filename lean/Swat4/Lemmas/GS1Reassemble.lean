import Swat4.Lemmas.GS1Collect
/-! Reassembly of a numbered fragment set delivered in any order with duplicates (dialect independent). -/
namespace Swat4.GS1
open Swat4

theorem snoc_induction {α : Type} {motive : List α → Prop} (hnil : motive [])
    (hsnoc : ∀ l a, motive l → motive (l ++ [a])) (l : List α) : motive l := by
  have : ∀ r : List α, motive r.reverse := by
    intro r
    induction r with
    | nil => exact hnil
    | cons a t ih => rw [List.reverse_cons]; exact hsnoc _ _ ih
  simpa using this l.reverse

theorem foldl_step_ordered_length (fs : List Fragment) :
    (fs.foldl CState.step CState.init).ordered.length = distinctCount (fs.map (·.order)) := by
  rw [foldl_step_ordered]
  have hs := foldl_insert_sorted fs CState.init.ordered (by simp [CState.init, keysOf])
  have hm := foldl_insert_mem fs CState.init.ordered
  rw [distinctCount_eq_of_sorted_cover _ _ hs (by intro x; rw [hm x]; simp [CState.init, keysOf])]
  simp [keysOf]

theorem lookupKV_insertKV {α : Type} (k k' : Int) (v : α) (m : List (Int × α)) :
    lookupKV k (insertKV k' v m) = if k = k' then some v else lookupKV k m := by
  induction m with
  | nil => simp [insertKV, lookupKV]
  | cons hd t ih =>
    obtain ⟨k2, v2⟩ := hd
    grind [insertKV, lookupKV]

/-- after the loop, every number seen maps to the data of (any of) its fragment(s) -/
theorem foldl_lookup (fs : List Fragment) (hc : ConsistentFrags fs) (m : List (Int × Bytes)) :
    ∀ f ∈ fs, lookupKV f.order (fs.foldl (fun m f => insertKV f.order f.data m) m) = some f.data := by
  induction fs using snoc_induction with
  | hnil => intro f hf; cases hf
  | hsnoc pre g ih =>
    intro f hf
    rw [List.foldl_append]
    simp only [List.foldl_cons, List.foldl_nil, lookupKV_insertKV]
    have hcpre : ConsistentFrags pre := fun x hx y hy => hc x (by simp [hx]) y (by simp [hy])
    by_cases ho : f.order = g.order
    · rw [if_pos ho]
      exact congrArg some ((hc f hf g (by simp)).2.1 ho).symm
    · rw [if_neg ho]
      rcases List.mem_append.mp hf with hf' | hf'
      · exact ih hcpre f hf'
      · simp only [List.mem_singleton] at hf'; exact absurd (by rw [hf']) ho

theorem lastFinal_none_iff (fs : List Fragment) : lastFinal fs = none ↔ ∀ f ∈ fs, f.isFinal = false := by
  induction fs with
  | nil => simp [lastFinal]
  | cons f t ih =>
    simp only [lastFinal, List.mem_cons, forall_eq_or_imp]
    cases ht : lastFinal t with
    | some n =>
      simp only [reduceCtorEq, false_iff, not_and]
      intro _ hall
      exact absurd (ih.mpr hall) (by rw [ht]; simp)
    | none =>
      simp only
      cases hf : f.isFinal
      · simp only [Bool.false_eq_true, if_false, true_and, true_iff]; exact ih.mp ht
      · simp

theorem foldl_step_version_const (fs : List Fragment) (v : Ver) (h : ∀ f ∈ fs, f.version = v) (hne : fs ≠ [])
    (st : CState) : (fs.foldl CState.step st).version = v := by
  induction fs using snoc_induction with
  | hnil => exact absurd rfl hne
  | hsnoc pre g _ =>
    rw [List.foldl_append]
    simp only [List.foldl_cons, List.foldl_nil, CState.step]
    exact h g (by simp)

/-- pigeonhole on fragment numbers -/
theorem orders_full (fs : List Fragment) (n : Nat) (hb : ∀ f ∈ fs, 1 ≤ f.order ∧ f.order ≤ n)
    (hd : distinctCount (fs.map (·.order)) = n) : ∀ i : Int, 1 ≤ i → i ≤ n → ∃ f ∈ fs, f.order = i := by
  let ks := keysOf (fs.foldl (fun m f => insertKV f.order f.data m) [])
  have hs : ks.Pairwise (· < ·) := foldl_insert_sorted fs [] (by simp [keysOf])
  have hm : ∀ x, x ∈ ks ↔ x ∈ fs.map (·.order) := by
    intro x; rw [foldl_insert_mem]; simp [keysOf]
  have hl : ks.length = n := by rw [← distinctCount_eq_of_sorted_cover _ ks hs hm]; exact hd
  intro i h1 h2
  have := sorted_full ks 1 hs (by
    intro x hx
    obtain ⟨f, hf, rfl⟩ := List.mem_map.mp ((hm x).mp hx)
    have := hb f hf
    omega) i h1 (by omega)
  obtain ⟨f, hf, hfo⟩ := List.mem_map.mp ((hm i).mp this)
  exact ⟨f, hf, hfo⟩

/-- the expected fragment set: numbers `1..n` in position, only the last is final, one dialect -/
structure Numbered (Fs : List Fragment) (v : Ver) : Prop where
  ne : Fs ≠ []
  at_ : ∀ (i : Nat) (h : i < Fs.length),
    Fs[i].order = ((i + 1 : Nat) : Int) ∧ Fs[i].isFinal = decide (i + 1 = Fs.length) ∧ Fs[i].version = v

namespace Numbered
variable {Fs : List Fragment} {v : Ver}

theorem bounds (N : Numbered Fs v) : ∀ F ∈ Fs, 1 ≤ F.order ∧ F.order ≤ Fs.length ∧ F.version = v := by
  intro F hF
  obtain ⟨i, hi, rfl⟩ := List.mem_iff_getElem.mp hF
  obtain ⟨h1, _, h3⟩ := N.at_ i hi
  rw [h1]
  exact ⟨by omega, by omega, h3⟩

theorem inj (N : Numbered Fs v) : ∀ F ∈ Fs, ∀ G ∈ Fs, F.order = G.order → F = G := by
  intro F hF G hG h
  obtain ⟨i, hi, rfl⟩ := List.mem_iff_getElem.mp hF
  obtain ⟨j, hj, rfl⟩ := List.mem_iff_getElem.mp hG
  rw [(N.at_ i hi).1, (N.at_ j hj).1] at h
  have : i = j := by omega
  subst this; rfl

theorem final_iff (N : Numbered Fs v) : ∀ F ∈ Fs, (F.isFinal = true ↔ F.order = Fs.length) := by
  intro F hF
  obtain ⟨i, hi, rfl⟩ := List.mem_iff_getElem.mp hF
  obtain ⟨h1, h2, _⟩ := N.at_ i hi
  rw [h1, h2]
  simp only [decide_eq_true_eq]
  omega

theorem consistent (N : Numbered Fs v) (fs : List Fragment) (hsub : ∀ f ∈ fs, f ∈ Fs) : ConsistentFrags fs := by
  intro x hx y hy
  have bx := N.bounds x (hsub x hx)
  have by' := N.bounds y (hsub y hy)
  refine ⟨by rw [bx.2.2, by'.2.2], ?_, ?_⟩
  · intro h; rw [N.inj x (hsub x hx) y (hsub y hy) h]
  · intro h1 h2
    rw [(N.final_iff x (hsub x hx)).mp h1, (N.final_iff y (hsub y hy)).mp h2]

/-- the loop's verdict on a delivery drawn from the expected fragments -/
theorem finish (N : Numbered Fs v) (fs : List Fragment) (hsub : ∀ f ∈ fs, f ∈ Fs) :
    ((∀ F ∈ Fs, F ∈ fs) → ∃ cap, (fs.foldl CState.step CState.init).finish =
        .ok ⟨(Fs.map (·.data)).flatten, cap, v⟩) ∧
    (¬ (∀ F ∈ Fs, F ∈ fs) → (fs.foldl CState.step CState.init).finish = .err .incomplete) := by
  have hcons := N.consistent fs hsub
  have hcount := foldl_step_count fs CState.init
  have hlen := foldl_step_ordered_length fs
  have hn : 0 < Fs.length := List.length_pos_iff.mpr N.ne
  -- finals in the delivery carry the number `n`
  have hfinal : ∀ m, lastFinal fs = some m → m = (Fs.length : Int) := by
    intro m hm
    obtain ⟨f, hf, h1, h2⟩ := lastFinal_mem hm
    rw [← h2]; exact (N.final_iff f (hsub f hf)).mp h1
  -- distinct numbers = n  ⇔  everything arrived
  have hcover : distinctCount (fs.map (·.order)) = Fs.length ↔ ∀ F ∈ Fs, F ∈ fs := by
    constructor
    · intro hd F hF
      have bF := N.bounds F hF
      obtain ⟨f, hf, hfo⟩ := orders_full fs Fs.length (fun f hf => ⟨(N.bounds f (hsub f hf)).1, (N.bounds f (hsub f hf)).2.1⟩) hd
        F.order bF.1 bF.2.1
      rw [← N.inj f (hsub f hf) F hF hfo]; exact hf
    · intro hall
      let ks : List Int := (List.range Fs.length).map fun (i : Nat) => ((i + 1 : Nat) : Int)
      have hs : ks.Pairwise (· < ·) := by
        rw [List.pairwise_map]
        exact (List.pairwise_lt_range).imp (fun h => by omega)
      have hm : ∀ x, x ∈ ks ↔ x ∈ fs.map (·.order) := by
        intro x
        simp only [ks, List.mem_map, List.mem_range]
        constructor
        · rintro ⟨i, hi, rfl⟩
          exact ⟨Fs[i], hall _ (List.getElem_mem hi), (N.at_ i hi).1⟩
        · rintro ⟨f, hf, rfl⟩
          have b := N.bounds f (hsub f hf)
          exact ⟨(f.order - 1).toNat, by omega, by omega⟩
      rw [distinctCount_eq_of_sorted_cover _ ks hs hm]
      simp [ks]
  constructor
  · intro hall
    -- the last expected fragment is final and was delivered
    have hlastF : lastFinal fs = some (Fs.length : Int) := by
      cases hl : lastFinal fs with
      | some m => rw [hfinal m hl]
      | none =>
        exfalso
        have hi : Fs.length - 1 < Fs.length := by omega
        have := (lastFinal_none_iff fs).mp hl _ (hall _ (List.getElem_mem hi))
        rw [(N.at_ _ hi).2.1] at this
        simp at this; omega
    have hne : fs ≠ [] := by
      intro e; subst e
      have hi : 0 < Fs.length := hn
      exact absurd (hall _ (List.getElem_mem hi)) (by simp)
    generalize hst : fs.foldl CState.step CState.init = st at hcount hlen
    rw [hlastF] at hcount
    simp only [Option.getD_some] at hcount
    rw [hcover.mpr hall] at hlen
    have hpay : ((List.range st.count.toNat).map fun (i : Nat) => orderedAt st.ordered ((i : Int) + 1)) =
        Fs.map (·.data) := by
      rw [hcount]
      simp only [Int.toNat_natCast]
      apply List.ext_getElem
      · simp
      · intro i h1 h2
        simp only [List.length_map, List.length_range] at h1
        simp only [List.getElem_map, List.getElem_range, orderedAt]
        have hmem : Fs[i] ∈ fs := hall _ (List.getElem_mem h1)
        have := foldl_lookup fs hcons [] Fs[i] hmem
        rw [(N.at_ i h1).1] at this
        rw [← hst, foldl_step_ordered]
        simp only [CState.init]
        rw [show ((i : Int) + 1) = ((i + 1 : Nat) : Int) by omega, this]
        rfl
    have hver : st.version = v := by
      rw [← hst]
      exact foldl_step_version_const fs v (fun f hf => (N.bounds f (hsub f hf)).2.2) hne _
    refine ⟨st.size, ?_⟩
    unfold CState.finish
    rw [if_neg (by rw [hcount, hlen]; omega), hpay, hver]
  · intro hnot
    generalize fs.foldl CState.step CState.init = st at hcount hlen
    unfold CState.finish
    rw [if_pos]
    cases hl : lastFinal fs with
    | none => left; rw [hcount, hl]; rfl
    | some m =>
      right
      rw [hcount, hl, hfinal m hl, hlen]
      simp only [Option.getD_some]
      intro e
      exact hnot (hcover.mp (by omega))

end Numbered

end Swat4.GS1
