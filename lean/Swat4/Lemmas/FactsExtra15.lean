import Swat4.Gen.Facts
/-!
# C15 — finer regenerated facts: the cycle period and the probe deadline are the same interval
-/
namespace Swat4.C15
open Swat4

/-- **Ticker period, deadline, and the deadline's way into the queue.**  Supports the parameter `interval` of
`refresh_exact` / `revive_exact` (`refresh retries (now + interval)`: probes of one cycle expire at `now + interval`)
and the reading "at the next cycle" of the property: the component ticks every `cfg.RefreshInterval` /
`cfg.RevivalInterval`, computes `deadline := clock.Now().Add(<the same field>)`, hands it to `NewRequest`, and the use
case passes `req.Deadline` unchanged through `addProbe` to `probeRepo.AddBetween(ctx, prb, <ready>, deadline)`.
*Edit detected:* `clock.NewTicker(cfg.RefreshInterval * 2)`, `deadline := clock.Now().Add(cfg.RevivalCountdown)`,
`reviveservers.NewRequest(…, now)` or `AddBetween(ctx, prb, countdown, repositories.NC)` — probes that outlive (or
die before) their cycle; none of these is a configuration literal, so `facts_config_wiring` does not see them. -/
theorem facts_cycle_deadline :
    Facts.cycleTickers =
      [("refresher.go", "run", "clock.NewTicker", "cfg.RefreshInterval"),
       ("reviver.go", "run", "clock.NewTicker", "cfg.RevivalInterval")] ∧
    Facts.cycleDeadlineDefs =
      [("refresher.go", "refresh", "deadline", ":= clock.Now().Add(cfg.RefreshInterval)"),
       ("reviver.go", "revive", "now", ":= clock.Now()"),
       ("reviver.go", "revive", "deadline", ":= now.Add(cfg.RevivalInterval)")] ∧
    Facts.cycleRequests =
      [("refresher.go", "refresh", "refreshservers.NewRequest", "deadline"),
       ("reviver.go", "revive", "reviveservers.NewRequest", "now.Add(-cfg.RevivalScope), now.Add(-cfg.RevivalInterval), now, now.Add(cfg.RevivalCountdown), deadline")] ∧
    Facts.cycleExpiryFlow =
      [("refreshservers.go", "NewRequest", "Request.Deadline", "deadline"),
       ("refreshservers.go", "Execute", "uc.addProbe", "ctx, svr.Addr, svr.QueryPort, req.Deadline"),
       ("refreshservers.go", "addProbe", "uc.probeRepo.AddBetween", "ctx, prb, repositories.NC, deadline"),
       ("reviveservers.go", "NewRequest", "Request.MinScope", "minScope"),
       ("reviveservers.go", "NewRequest", "Request.MaxScope", "maxScope"),
       ("reviveservers.go", "NewRequest", "Request.MinCountdown", "minCountdown"),
       ("reviveservers.go", "NewRequest", "Request.MaxCountdown", "maxCountdown"),
       ("reviveservers.go", "NewRequest", "Request.Deadline", "deadline"),
       ("reviveservers.go", "Execute", "uc.addProbe", "ctx, svr.Addr, countdown, req.Deadline"),
       ("reviveservers.go", "addProbe", "uc.probeRepo.AddBetween", "ctx, prb, countdown, deadline")] := by
  decide

/-- … read off the lists (not a literal): in each component the `deadline` is `<now>.Add(E)` for the very expression
`E` the ticker is created with (`cycleDeadlineAdd` is `deadline := B.Add(E)` taken apart by the extractor), and
`deadline` is the last argument of the request -/
theorem facts_deadline_is_next_tick :
    Facts.cycleDeadlineAdd =
      [("refresher.go", "clock.Now()", "cfg.RefreshInterval"),
       ("reviver.go", "now", "cfg.RevivalInterval")] ∧
    (∀ t ∈ Facts.cycleTickers,
      (∃ d ∈ Facts.cycleDeadlineAdd, d.1 = t.1 ∧ d.2.2 = t.2.2.2) ∧ (t.1, "deadline") ∈ Facts.cycleRequestLastArg) ∧
    Facts.cycleTickers.length = 2 ∧ Facts.cycleDeadlineAdd.length = 2 ∧ Facts.cycleRequestLastArg.length = 2 := by
  decide

end Swat4.C15
