import Swat4.Gen.Facts
/-!
# C15 — finer regenerated facts: the cycle period and the probe deadline are the same interval
-/
namespace Swat4.C15
open Swat4

/-- **Ticker period, deadline, and the deadline's way into the queue.**  Supports the parameter `interval` of
`refresh_exact` / `revive_exact` (`refresh retries (now + interval)`: probes of one cycle expire at `now + interval`)
and the reading "at the next cycle" of the property: the component ticks every `cfg.RefreshInterval` /
`cfg.RevivalInterval`, computes `deadline := clock.Now().Add(<the same field>)`, hands it to `NewRequest`, and the use
case passes `req.Deadline` unchanged through `addProbe` to `probeRepo.AddBetween(ctx, prb, <ready>, deadline)`.
*Edit detected:* `clock.NewTicker(cfg.RefreshInterval * 2)`, `deadline := clock.Now().Add(cfg.RevivalCountdown)`,
`reviveservers.NewRequest(…, now)` or `AddBetween(ctx, prb, countdown, repositories.NC)` — probes that outlive (or
die before) their cycle; none of these is a configuration literal, so `facts_config_wiring` does not see them. -/
theorem facts_cycle_deadline :
    Facts.cycleTickers =
      [("refresher.go", "run", "clock.NewTicker", "cfg.RefreshInterval"),
       ("reviver.go", "run", "clock.NewTicker", "cfg.RevivalInterval")] ∧
    Facts.cycleDeadlineDefs =
      [("refresher.go", "refresh", "deadline", ":= clock.Now().Add(cfg.RefreshInterval)"),
       ("reviver.go", "revive", "now", ":= clock.Now()"),
       ("reviver.go", "revive", "deadline", ":= now.Add(cfg.RevivalInterval)")] ∧
    Facts.cycleRequests =
      [("refresher.go", "refresh", "refreshservers.NewRequest", "deadline"),
       ("reviver.go", "revive", "reviveservers.NewRequest", "now.Add(-cfg.RevivalScope), now.Add(-cfg.RevivalInterval), now, now.Add(cfg.RevivalCountdown), deadline")] ∧
    Facts.cycleExpiryFlow =
      [("refreshservers.go", "NewRequest", "Request.Deadline", "deadline"),
       ("refreshservers.go", "Execute", "uc.addProbe", "ctx, svr.Addr, svr.QueryPort, req.Deadline"),
       ("refreshservers.go", "addProbe", "uc.probeRepo.AddBetween", "ctx, prb, repositories.NC, deadline"),
       ("reviveservers.go", "NewRequest", "Request.MinScope", "minScope"),
       ("reviveservers.go", "NewRequest", "Request.MaxScope", "maxScope"),
       ("reviveservers.go", "NewRequest", "Request.MinCountdown", "minCountdown"),
       ("reviveservers.go", "NewRequest", "Request.MaxCountdown", "maxCountdown"),
       ("reviveservers.go", "NewRequest", "Request.Deadline", "deadline"),
       ("reviveservers.go", "Execute", "uc.addProbe", "ctx, svr.Addr, countdown, req.Deadline"),
       ("reviveservers.go", "addProbe", "uc.probeRepo.AddBetween", "ctx, prb, countdown, deadline")] := by
  decide

/-- … read off the lists (not a literal): in each component the `deadline` is `<now>.Add(E)` for the very expression
`E` the ticker is created with (`cycleDeadlineAdd` is `deadline := B.Add(E)` taken apart by the extractor), and
`deadline` is the last argument of the request -/
theorem facts_deadline_is_next_tick :
    Facts.cycleDeadlineAdd =
      [("refresher.go", "clock.Now()", "cfg.RefreshInterval"),
       ("reviver.go", "now", "cfg.RevivalInterval")] ∧
    (∀ t ∈ Facts.cycleTickers,
      (∃ d ∈ Facts.cycleDeadlineAdd, d.1 = t.1 ∧ d.2.2 = t.2.2.2) ∧ (t.1, "deadline") ∈ Facts.cycleRequestLastArg) ∧
    Facts.cycleTickers.length = 2 ∧ Facts.cycleDeadlineAdd.length = 2 ∧ Facts.cycleRequestLastArg.length = 2 := by
  decide

/-- **A cycle runs under the component's own context.**  The ticker loop calls `refresh(ctx, …)` / `revive(ctx, …)` with
the one context `run` creates (`context.WithCancel(context.Background())`, cancelled on stop), and neither file derives
a context with a deadline or timeout: a cycle is
never cut short by a wall-clock bound, so "every selected server gets its probe" (`refresh_exact`, `revive_exact`) does
not depend on how long the cycle takes.  *Edit detected:* wrapping each cycle in `context.WithTimeout(ctx, 5*time.Second)`
(a registry of a few thousand servers on a slow store: the servers after the cut get no probe, the cycle logs success). -/
theorem facts_cycle_context :
    Facts.cycleCalls =
      [("refresher.go", "run", "refresh", "ctx, clock, logger, uc, cfg"),
       ("reviver.go", "run", "revive", "ctx, clock, logger, uc, cfg")] ∧
    Facts.cycleContextCalls =
      [("refresher.go", "run", "context.WithCancel", "context.Background()"),
       ("refresher.go", "run", "context.Background", ""),
       ("reviver.go", "run", "context.WithCancel", "context.Background()"),
       ("reviver.go", "run", "context.Background", "")] := by
  decide

/-- **A cycle in flight runs to its end.**  The cycle's context is cancelled in one place only — the `defer cancel()` of
`run`, i.e. after the ticker loop has returned, and the loop returns only between cycles — and the component starts one
goroutine, `run` itself: a stop request that arrives while a cycle is between its listing and its last enqueue does not cut
the cycle short ("every selected server gets its probe" does not depend on when the component is stopped).  *Edit detected:*
`go func() { <-stop; cancel() }()` ("do not let a slow store keep the shutdown waiting"). -/
theorem facts_cycle_not_cancelled_in_flight :
    Facts.cycleRunShape =
      [("refresher.go", "run", "defer", "cancel()"),
       ("refresher.go", "New", "go", "run(stop, stopped, clock, logger, uc, cfg)"),
       ("reviver.go", "run", "defer", "cancel()"),
       ("reviver.go", "New", "go", "run(stop, stopped, clock, logger, uc, cfg)")] := by
  decide

end Swat4.C15
