import Swat4.Lemmas.FilterSound
/-!
# Completeness of the lenient grammar: every spelling is accepted and read as spelt (C03)

`QueryText s q → newFromString s = .ok (q.map toFilter)`.  With `newFromString_sound` this makes
`FilterSpec.QueryText` the exact language of `query.NewFromString`.
-/
namespace Swat4.Filter
open Swat4 Swat4.FilterSpec

/-! ## integers -/

theorem digitsAcc_complete (ds : Bytes) (acc : Nat) (h : ∀ d ∈ ds, isDec d = true) :
    digitsAcc acc ds = some (ds.foldl (fun a d => a * 10 + (d.toNat - 48)) acc) := by
  induction ds generalizing acc with
  | nil => rfl
  | cons d ds ih =>
    have hd : isDigit d = true := by rw [isDigit_eq_isDec]; exact h d (by simp)
    simp only [digitsAcc, hd, if_true, List.foldl_cons]
    exact ih _ (fun x hx => h x (by simp [hx]))

/-- every decimal literal is read by `strconv.Atoi` as the integer it denotes -/
theorem atoi_complete (t : Bytes) (n : Int) (h : IntLit t n) : atoi t = some n := by
  obtain ⟨sign, ds, rfl, hsign, hne, hall, hn, hlo, hhi⟩ := h
  have hd := digitsAcc_complete ds 0 hall
  have hemp : ds.isEmpty = false := by cases ds <;> simp_all
  rcases hsign with rfl | rfl | rfl
  · -- no sign
    cases ds with
    | nil => exact absurd rfl hne
    | cons b r =>
      have hb : isDigit b = true := by rw [isDigit_eq_isDec]; exact hall b (by simp)
      have hs := isDigit_not_sign b hb
      have hneq : ¬ ([] : Bytes) = [0x2d] := by decide
      simp only [hneq, if_false] at hn
      have hlt : decVal (b :: r) < 2 ^ 63 := by omega
      unfold decVal at hlt hn
      simp only [List.nil_append, atoi, hs.1, hs.2, Bool.or_self, Bool.false_eq_true, if_false, List.isEmpty_cons, hd, hlt,
        if_true, hn]
  · -- plus
    have hneq : ¬ ([0x2b] : Bytes) = [0x2d] := by decide
    simp only [hneq, if_false] at hn
    have hlt : decVal ds < 2 ^ 63 := by omega
    unfold decVal at hlt hn
    have e1 : ((0x2b : UInt8) == 0x2d) = false := by decide
    simp only [List.cons_append, List.nil_append, atoi, e1, beq_self_eq_true, Bool.or_true, if_true, hemp, Bool.false_eq_true,
      if_false, hd, hlt, hn]
  · -- minus
    simp only [if_true] at hn
    have hle : decVal ds ≤ 2 ^ 63 := by omega
    unfold decVal at hle hn
    simp only [List.cons_append, List.nil_append, atoi, beq_self_eq_true, Bool.true_or, if_true, hemp, Bool.false_eq_true,
      if_false, hd, hle, hn]

/-! ## values and clauses -/

theorem isDec_not_op (b : UInt8) (h : isDec b = true) : isOpByte b = false :=
  isDigit_not_op b (by rw [isDigit_eq_isDec]; exact h)

theorem parseValue_complete (hq : QueryFieldsOk) (t : Bytes) (v : CVal) (h : ValText t v) :
    parseValue t = .ok (toFVal v) := by
  cases v with
  | int n =>
    unfold parseValue
    rw [atoi_complete t n h]
    rfl
  | str s => obtain ⟨rfl, hs⟩ := h; exact parseValue_str s hs
  | fld g => obtain ⟨rfl, hg⟩ := h; exact parseValue_fld hq _ hg

/-- a value text is not empty and does not begin with one of `! = < >` -/
theorem valText_head (hq : QueryFieldsOk) (t : Bytes) (v : CVal) (h : ValText t v) :
    t ≠ [] ∧ ∀ x, t.head? = some x → isOpByte x = false := by
  cases v with
  | int n =>
    obtain ⟨sign, ds, rfl, hsign, hne, hall, _⟩ := h
    cases ds with
    | nil => exact absurd rfl hne
    | cons d r =>
      have hdop := isDec_not_op d (hall d (by simp))
      rcases hsign with rfl | rfl | rfl
      · refine ⟨by simp, ?_⟩
        intro x hx
        simp only [List.nil_append, List.head?_cons, Option.some.injEq] at hx
        subst hx; exact hdop
      · refine ⟨by simp, ?_⟩
        intro x hx
        simp only [List.cons_append, List.head?_cons, Option.some.injEq] at hx
        subst hx; decide
      · refine ⟨by simp, ?_⟩
        intro x hx
        simp only [List.cons_append, List.head?_cons, Option.some.injEq] at hx
        subst hx; decide
  | str s =>
    obtain ⟨rfl, _⟩ := h
    refine ⟨by simp, ?_⟩
    intro x hx
    simp only [List.cons_append, List.nil_append, List.head?_cons, Option.some.injEq] at hx
    subst hx; decide
  | fld g =>
    obtain ⟨rfl, hg⟩ := h
    obtain ⟨hne, hop, _, _⟩ := hq _ hg
    refine ⟨hne, ?_⟩
    intro x hx
    cases t with
    | nil => cases hx
    | cons b r =>
      simp only [List.head?_cons, Option.some.injEq] at hx
      subst hx
      exact hop _ (by simp)

/-- `filter.Parse` reads `field ++ op ++ valuetext` as that field, operator and value -/
theorem parse_fieldOpVal (hq : QueryFieldsOk) (field : Bytes) (op : Op) (t : Bytes) (v : FVal)
    (hf : field ∈ Facts.queryFields) (hne : t ≠ []) (hhead : ∀ x, t.head? = some x → isOpByte x = false)
    (hv : parseValue t = .ok v) :
    parse (field ++ renderOp op ++ t) = .ok ⟨field, op, v⟩ := by
  obtain ⟨hfne, hfop, _, _⟩ := hq field hf
  obtain ⟨hone, hoall, horaw⟩ := renderOp_spec op
  have s1 := span_seam (fun b => !isOpByte b) field (renderOp op ++ t)
    (fun x hx => by simp [hfop x hx])
    (fun x hx => by
      cases ho : renderOp op with
      | nil => exact absurd ho hone
      | cons o os =>
        rw [ho] at hx hoall
        simp only [List.cons_append, List.head?_cons, Option.some.injEq] at hx
        subst hx
        have : isOpByte o = true := hoall o (by simp)
        simp [this])
  have s2 := span_seam isOpByte (renderOp op) t hoall hhead
  unfold parse
  rw [List.append_assoc]
  simp only [s1.1, s1.2, s2.1, s2.2]
  have e1 : field.isEmpty = false := by cases h : field <;> simp_all
  have e2 : t.isEmpty = false := by cases h : t <;> simp_all
  simp only [e1, e2, Bool.or_self, Bool.false_eq_true, if_false, hv]
  unfold newFilter
  have : isQueryField field = true := List.contains_iff_mem.2 hf
  simp [this, horaw]

theorem parse_complete (hq : QueryFieldsOk) (r : Bytes) (c : Clause) (h : ClauseText r c) :
    parse r = .ok (toFilter c) := by
  obtain ⟨hf, t, rfl, hv⟩ := h
  obtain ⟨hne, hhead⟩ := valText_head hq t c.value hv
  exact parse_fieldOpVal hq c.field c.op t _ hf hne hhead (parseValue_complete hq t c.value hv)

/-! ## the scanner: a clause text without the separator inside is cut off whole -/

/-- no non-empty suffix of `r` is a prefix of `" and "` -/
def GoodEnd (r : Bytes) : Prop := ∀ p u : Bytes, r = p ++ u → u ≠ [] → ¬ u <+: andSep

theorem sepFree_of (r : Bytes) (hns : NoSep r) (hge : GoodEnd r) : sepFree r = true := by
  induction r with
  | nil => rfl
  | cons b r ih =>
    unfold sepFree
    rw [Bool.and_eq_true, Bool.not_eq_true']
    constructor
    · cases hp : andSep.isPrefixOf (b :: r ++ andSep) with
      | false => rfl
      | true =>
        exfalso
        have hpre : andSep <+: (b :: r) ++ andSep := List.isPrefixOf_iff_prefix.1 hp
        by_cases hlen : andSep.length ≤ (b :: r).length
        · have : andSep <+: b :: r := List.prefix_of_prefix_length_le hpre (List.prefix_append _ _) hlen
          exact hns (by obtain ⟨q, hq⟩ := this; exact ⟨[], q, by simp [← hq]⟩)
        · have : b :: r <+: andSep :=
            List.prefix_of_prefix_length_le (List.prefix_append _ _) hpre (by omega)
          exact hge [] (b :: r) rfl (by simp) this
    · apply ih
      · rintro ⟨p, q, h⟩
        exact hns ⟨b :: p, q, by simp [h]⟩
      · intro p u h hu
        exact hge (b :: p) u (by simp [h]) hu

/-- a non-empty prefix of `" and "` begins with a blank and ends with one of blank, `a`, `n`, `d` -/
theorem prefix_andSep_shape (u : Bytes) (hu : u ≠ []) (h : u <+: andSep) :
    u.head? = some 0x20 ∧ (u.getLast? = some 0x20 ∨ u.getLast? = some 0x61 ∨ u.getLast? = some 0x6e ∨ u.getLast? = some 0x64) := by
  have hlen := h.length_le
  have := List.prefix_iff_eq_take.1 h
  rw [this]
  have h5 : andSep.length = 5 := rfl
  rw [h5] at hlen
  have h0 : u.length ≠ 0 := by intro e; exact hu (List.length_eq_zero_iff.1 e)
  have : u.length = 1 ∨ u.length = 2 ∨ u.length = 3 ∨ u.length = 4 ∨ u.length = 5 := by omega
  rcases this with e | e | e | e | e <;> rw [e] <;> decide

theorem getLast?_append_ne_nil (p u : Bytes) (hu : u ≠ []) : (p ++ u).getLast? = u.getLast? := by
  rw [List.getLast?_append]
  cases h : u.getLast? with
  | none => exact absurd (List.getLast?_eq_none_iff.1 h) hu
  | some x => rfl

/-- facts about query-field names needed here: no blank inside -/
def QueryFieldsNoBlank : Prop := ∀ g ∈ Facts.queryFields, (0x20 : UInt8) ∉ g

instance : Decidable QueryFieldsNoBlank := by unfold QueryFieldsNoBlank; exact inferInstance

theorem goodEnd_of_last (r : Bytes) (x : UInt8) (hl : r.getLast? = some x)
    (hx : x ≠ 0x20 ∧ x ≠ 0x61 ∧ x ≠ 0x6e ∧ x ≠ 0x64) : GoodEnd r := by
  intro p u hr hu hpre
  have h1 := (prefix_andSep_shape u hu hpre).2
  rw [hr, getLast?_append_ne_nil p u hu] at hl
  rw [hl] at h1
  simp only [Option.some.injEq] at h1
  rcases h1 with e | e | e | e
  · exact hx.1 e
  · exact hx.2.1 e
  · exact hx.2.2.1 e
  · exact hx.2.2.2 e

theorem goodEnd_of_noBlank (r : Bytes) (h : (0x20 : UInt8) ∉ r) : GoodEnd r := by
  intro p u hr hu hpre
  have h1 := (prefix_andSep_shape u hu hpre).1
  apply h
  rw [hr]
  cases u with
  | nil => exact absurd rfl hu
  | cons y u' =>
    simp only [List.head?_cons, Option.some.injEq] at h1
    subst h1
    simp

theorem renderOp_noBlank (op : Op) : (0x20 : UInt8) ∉ renderOp op := by cases op <;> decide

theorem isDec_last_ok (d : UInt8) (h : isDec d = true) : d ≠ 0x20 ∧ d ≠ 0x61 ∧ d ≠ 0x6e ∧ d ≠ 0x64 := by
  unfold isDec at h
  simp only [decide_eq_true_iff] at h
  refine ⟨?_, ?_, ?_, ?_⟩ <;> (intro e; subst e; revert h; decide)

/-- a clause text ends in a digit, a quote, or has no blank at all: it cannot run into a following separator -/
theorem clauseText_goodEnd (hb : QueryFieldsNoBlank) (r : Bytes) (c : Clause) (h : ClauseText r c) : GoodEnd r := by
  obtain ⟨hf, t, rfl, hv⟩ := h
  cases hcv : c.value with
  | int n =>
    rw [hcv] at hv
    obtain ⟨sign, ds, rfl, _, hne, hall, _⟩ := hv
    obtain ⟨ys, hys⟩ : ∃ ys, ds = ys ++ [ds.getLast hne] := ⟨ds.dropLast, (List.dropLast_concat_getLast hne).symm⟩
    apply goodEnd_of_last _ (ds.getLast hne)
    · rw [getLast?_append_ne_nil _ _ (by intro e; exact hne (List.append_eq_nil_iff.1 e).2),
        getLast?_append_ne_nil _ _ hne]
      exact List.getLast?_eq_some_getLast hne
    · exact isDec_last_ok _ (hall _ (List.getLast_mem hne))
  | str s =>
    rw [hcv] at hv
    obtain ⟨rfl, _⟩ := hv
    apply goodEnd_of_last _ 0x27
    · rw [← List.append_assoc, ← List.append_assoc, List.getLast?_append]
      rfl
    · decide
  | fld g =>
    rw [hcv] at hv
    obtain ⟨rfl, hg⟩ := hv
    apply goodEnd_of_noBlank
    simp only [List.mem_append, not_or]
    exact ⟨⟨hb _ hf, renderOp_noBlank _⟩, hb _ hg⟩

/-! ## the whole query -/

theorem joinAnd_cons_ne_nil (r : Bytes) (rs : List Bytes) (h : r ≠ []) : joinAnd (r :: rs) ≠ [] := by
  cases rs with
  | nil => exact h
  | cons r' rs =>
    unfold joinAnd
    cases r with
    | nil => exact absurd rfl h
    | cons x xs => simp

/-- the raw filters of joined texts — with or without one trailing separator — are the texts -/
theorem rawFilters_joinAnd (rs : List Bytes) (hne : rs ≠ [])
    (h : ∀ r ∈ rs, sepFree r = true ∧ r ≠ []) (trail : Bool) :
    rawFilters (joinAnd rs ++ (if trail then andSep else [])) = rs := by
  induction rs with
  | nil => exact absurd rfl hne
  | cons r rs ih =>
    have hr := h r (by simp)
    cases rs with
    | nil =>
      rw [rawFilters_eq]
      have hnil : (joinAnd [r] ++ (if trail then andSep else [])).isEmpty = false := by
        cases hr' : r with
        | nil => exact absurd hr' hr.2
        | cons x xs => simp [joinAnd]
      simp only [hnil, Bool.false_eq_true, if_false]
      cases trail with
      | false =>
        simp only [joinAnd, Bool.false_eq_true, if_false, List.append_nil]
        rw [scanFilter_sepFree_end _ hr.1]
        simp [rawFilters, rawFiltersFuel]
      | true =>
        simp only [joinAnd, if_true]
        have := scanFilter_sepFree_sep r [] hr.1
        rw [List.append_nil] at this
        rw [this]
        simp [rawFilters, rawFiltersFuel]
    | cons r' rs' =>
      rw [rawFilters_eq]
      have hnil : (joinAnd (r :: r' :: rs') ++ (if trail then andSep else [])).isEmpty = false := by
        have := joinAnd_cons_ne_nil r (r' :: rs') hr.2
        cases hj : joinAnd (r :: r' :: rs') with
        | nil => exact absurd hj this
        | cons x xs => simp
      simp only [hnil, Bool.false_eq_true, if_false]
      have e : joinAnd (r :: r' :: rs') ++ (if trail then andSep else []) =
          r ++ andSep ++ (joinAnd (r' :: rs') ++ (if trail then andSep else [])) := by
        simp [joinAnd]
      rw [e, scanFilter_sepFree_sep _ _ hr.1]
      simp only
      rw [ih (by simp) (fun d hd => h d (by simp only [List.mem_cons] at hd ⊢; exact .inr hd))]

theorem clauseText_ne_nil (hq : QueryFieldsOk) (r : Bytes) (c : Clause) (h : ClauseText r c) : r ≠ [] := by
  obtain ⟨hf, t, rfl, _⟩ := h
  obtain ⟨hfne, _⟩ := hq c.field hf
  cases hc : c.field with
  | nil => exact absurd hc hfne
  | cons x xs => simp

theorem clausesText_spec (hq : QueryFieldsOk) (hb : QueryFieldsNoBlank) (rs : List Bytes) (q : List Clause)
    (h : ClausesText rs q) :
    (∀ r ∈ rs, sepFree r = true ∧ r ≠ []) ∧ parseAll rs = .ok (q.map toFilter) ∧ (rs = [] ↔ q = []) := by
  induction rs generalizing q with
  | nil =>
    cases q with
    | nil => exact ⟨by simp, rfl, by simp⟩
    | cons c q => exact absurd h id
  | cons r rs ih =>
    cases q with
    | nil => exact absurd h id
    | cons c q =>
      obtain ⟨hns, hct, hrest⟩ := h
      obtain ⟨h1, h2, _⟩ := ih q hrest
      refine ⟨?_, ?_, by simp⟩
      · intro x hx
        rcases List.mem_cons.1 hx with rfl | hx
        · exact ⟨sepFree_of _ hns (clauseText_goodEnd hb _ c hct), clauseText_ne_nil hq _ c hct⟩
        · exact h1 x hx
      · simp only [parseAll, parse_complete hq r c hct, h2, List.map_cons]

/-- **Completeness of the lenient grammar**: every spelling of a non-empty clause list is accepted by
`NewFromString` and read as exactly those clauses -/
theorem newFromString_complete (s : Bytes) (q : List Clause) (h : QueryText s q) :
    newFromString s = .ok (q.map toFilter) := by
  have hq : QueryFieldsOk := by decide
  have hb : QueryFieldsNoBlank := by decide
  obtain ⟨hne, rs, hct, hs⟩ := h
  obtain ⟨h1, h2, h3⟩ := clausesText_spec hq hb rs q hct
  have hrs : rs ≠ [] := fun e => hne (h3.1 e)
  have hraw : rawFilters s = rs := by
    rcases hs with rfl | rfl
    · have := rawFilters_joinAnd rs hrs h1 false
      simpa using this
    · have := rawFilters_joinAnd rs hrs h1 true
      simpa using this
  unfold newFromString
  rw [hraw, h2]
  cases q with
  | nil => exact absurd rfl hne
  | cons c q => rfl

end Swat4.Filter
