import Swat4.Model.Heartbeat
/-!
# Lemmas for the reporter properties (C04, C05, C06)

* address keys: `Addr.key` determines the IP for ports in 1..65535;
* the store invariant `Inv` (every row is stored under the key of its own address, all stored
  addresses have ports in 1..65535);
* `Safe P p`: every repository call program `p` can issue from an `Inv` state writes server rows only
  under keys satisfying `P`, and `run_safe`: such a program preserves `Inv` and leaves every other row alone.
-/
namespace Swat4
open Std

/-- the port range `addr.New` accepts -/
def Addr.PortOk (a : Addr) : Prop := 1 ≤ a.port ∧ a.port ≤ 65535

theorem Addr.key_div {a : Addr} (h : a.PortOk) : a.key / 65536 = a.ip := by
  unfold Addr.key
  have h1 : a.port.toNat < 65536 := by have := h.1; have := h.2; omega
  omega

/-- `Addr.key` is injective on addresses with ports in 1..65535 -/
theorem Addr.key_inj {a b : Addr} (ha : a.PortOk) (hb : b.PortOk) (h : a.key = b.key) : a = b := by
  have h1 := Addr.key_div ha
  have h2 := Addr.key_div hb
  have hip : a.ip = b.ip := by rw [← h1, ← h2, h]
  unfold Addr.key at h
  have hp : a.port.toNat = b.port.toNat := by rw [hip] at h; omega
  have ha1 := ha.1; have hb1 := hb.1
  have : a.port = b.port := by omega
  cases a; cases b; simp_all

namespace Rep

/-- a row is well placed: stored under the key of its own address, port in range -/
def RowOk (k : Nat) (r : SRow) : Prop := r.svr.addr.key = k ∧ r.svr.addr.PortOk

/-- invariant of every state the reporter (or any other writer going through `addr.New`) produces -/
def Inv (s : AbsState) : Prop :=
  (∀ (k : Nat) (r : SRow), s.servers[k]? = some r → RowOk k r) ∧
  (∀ (id : Nat) (a : Addr) (t : Int), s.instances[id]? = some (a, t) → a.PortOk)

theorem inv_empty : Inv {} := by
  constructor
  · intro k r h; simp at h
  · intro id a t h; simp at h

/-- only rows under keys satisfying `P` differ -/
def Frame (P : Nat → Prop) (s s' : AbsState) : Prop := ∀ (k : Nat), ¬ P k → s'.servers[k]? = s.servers[k]?

theorem Frame.refl (P : Nat → Prop) (s : AbsState) : Frame P s s := fun _ _ => rfl

theorem Frame.trans {P : Nat → Prop} {a b c : AbsState} (h1 : Frame P a b) (h2 : Frame P b c) : Frame P a c :=
  fun k hk => (h2 k hk).trans (h1 k hk)

/-- a conflict resolver that never changes the address of the record it is given -/
def ResolverKeeps (res : Resolver) : Prop := ∀ (ex r : Server), res ex = some r → r.addr = ex.addr

/-- what a call must satisfy so that it writes server rows only under `P`-keys and keeps `Inv` -/
def CallSafe (P : Nat → Prop) : {β : Type} → Call β → Prop
  | _, .addServer svr res => P svr.addr.key ∧ svr.addr.PortOk ∧ ResolverKeeps res
  | _, .updateServer svr res => P svr.addr.key ∧ svr.addr.PortOk ∧ ResolverKeeps res
  | _, .removeServer svr res => P svr.addr.key ∧ ResolverKeeps res
  | _, .updateServerT svr res => P svr.addr.key ∧ svr.addr.PortOk ∧ ∀ t, ResolverKeeps (res t)
  | _, .insAdd i => i.addr.PortOk
  | _, .insClear _ => False
  | _, _ => True

theorem getRow_eq (s : AbsState) (a : Addr) : s.getRow a = s.servers[a.key]? := rfl

/-- `save` writes exactly the key of the saved record -/
theorem save_spec {P : Nat → Prop} {s : AbsState} (hs : Inv s) (now : Int) (svr : Server)
    (hP : P svr.addr.key) (hok : svr.addr.PortOk) :
    Inv (s.save now svr).1 ∧ Frame P s (s.save now svr).1 ∧ (s.save now svr).2.addr = svr.addr := by
  refine ⟨⟨?_, ?_⟩, ?_, rfl⟩
  · intro k r h
    simp only [AbsState.save, ExtTreeMap.getElem?_insert] at h
    split at h
    · rename_i hk
      have hk' : svr.addr.key = k := by simpa using hk
      cases h
      exact ⟨hk', hok⟩
    · exact hs.1 k r h
  · intro id a t h
    exact hs.2 id a t h
  · intro k hk
    simp only [AbsState.save, ExtTreeMap.getElem?_insert]
    split
    · rename_i h
      have h' : svr.addr.key = k := by simpa using h
      exact absurd (h' ▸ hP) hk
    · rfl

theorem erase_spec {P : Nat → Prop} {s : AbsState} (hs : Inv s) (K : Nat) (hP : P K) :
    Inv { s with servers := s.servers.erase K } ∧ Frame P s { s with servers := s.servers.erase K } := by
  refine ⟨⟨?_, hs.2⟩, ?_⟩
  · intro k r h
    simp only [ExtTreeMap.getElem?_erase] at h
    split at h
    · cases h
    · exact hs.1 k r h
  · intro k hk
    simp only [ExtTreeMap.getElem?_erase]
    split
    · rename_i h
      have h' : K = k := by simpa using h
      exact absurd (h' ▸ hP) hk
    · rfl

/-- every safe call keeps the invariant and touches only `P`-keys -/
theorem exec_safe {P : Nat → Prop} {β : Type} (c : Call β) (s : AbsState) (now : Int)
    (hc : CallSafe P c) (hs : Inv s) : Inv (c.exec s now).1 ∧ Frame P s (c.exec s now).1 := by
  cases c with
  | now => exact ⟨hs, Frame.refl _ _⟩
  | getServer a => exact ⟨hs, Frame.refl _ _⟩
  | filterServers fs => exact ⟨hs, Frame.refl _ _⟩
  | scanServers fs => exact ⟨hs, Frame.refl _ _⟩
  | fetchServers as => exact ⟨hs, Frame.refl _ _⟩
  | insGet id => exact ⟨hs, Frame.refl _ _⟩
  | insClear b => exact absurd hc (by simp [CallSafe])
  | enqueue p a b =>
    have h1 : (s.enqueue now p a b).servers = s.servers := by
      cases a <;> cases b <;> simp only [AbsState.enqueue] <;> first | rfl | (split <;> rfl)
    have h2 : (s.enqueue now p a b).instances = s.instances := by
      cases a <;> cases b <;> simp only [AbsState.enqueue] <;> first | rfl | (split <;> rfl)
    simp only [Call.exec]
    exact ⟨⟨by rw [h1]; exact hs.1, by rw [h2]; exact hs.2⟩, fun k _ => by rw [h1]⟩
  | insAdd i =>
    simp only [Call.exec, AbsState.insAdd]
    refine ⟨⟨hs.1, ?_⟩, fun _ _ => rfl⟩
    intro id a t h
    simp only [ExtTreeMap.getElem?_insert] at h
    split at h
    · cases h; exact hc
    · exact hs.2 id a t h
  | insRemove id =>
    simp only [Call.exec, AbsState.insRemove]
    refine ⟨⟨hs.1, ?_⟩, fun _ _ => rfl⟩
    intro id' a t h
    simp only [ExtTreeMap.getElem?_erase] at h
    split at h
    · cases h
    · exact hs.2 id' a t h
  | addServer svr res =>
    obtain ⟨hP, hok, hres⟩ := hc
    simp only [Call.exec, AbsState.add]
    cases hrow : s.getRow svr.addr with
    | none =>
      have := save_spec (P := P) hs now svr hP hok
      exact ⟨this.1, this.2.1⟩
    | some ex =>
      have hex := hs.1 _ _ ((getRow_eq s svr.addr) ▸ hrow)
      dsimp only
      cases hr : res ex.svr with
      | none => exact ⟨hs, Frame.refl _ _⟩
      | some resolved =>
        dsimp only
        have ha := hres _ _ hr
        have := save_spec (P := P) hs now resolved (by rw [ha, hex.1]; exact hP) (by rw [ha]; exact hex.2)
        exact ⟨this.1, this.2.1⟩
  | updateServer svr res =>
    obtain ⟨hP, hok, hres⟩ := hc
    simp only [Call.exec, AbsState.update]
    cases hrow : s.getRow svr.addr with
    | none => exact ⟨hs, Frame.refl _ _⟩
    | some ex =>
      have hex := hs.1 _ _ ((getRow_eq s svr.addr) ▸ hrow)
      simp only
      split
      · cases hr : res ex.svr with
        | none => exact ⟨hs, Frame.refl _ _⟩
        | some resolved =>
          dsimp only
          have ha := hres _ _ hr
          have := save_spec (P := P) hs now resolved (by rw [ha, hex.1]; exact hP) (by rw [ha]; exact hex.2)
          exact ⟨this.1, this.2.1⟩
      · have := save_spec (P := P) hs now svr hP hok
        exact ⟨this.1, this.2.1⟩
  | updateServerT svr resT =>
    obtain ⟨hP, hok, hresT⟩ := hc
    have hres := hresT now
    simp only [Call.exec, AbsState.update]
    cases hrow : s.getRow svr.addr with
    | none => exact ⟨hs, Frame.refl _ _⟩
    | some ex =>
      have hex := hs.1 _ _ ((getRow_eq s svr.addr) ▸ hrow)
      simp only
      split
      · cases hr : resT now ex.svr with
        | none => exact ⟨hs, Frame.refl _ _⟩
        | some resolved =>
          dsimp only
          have ha := hres _ _ hr
          have := save_spec (P := P) hs now resolved (by rw [ha, hex.1]; exact hP) (by rw [ha]; exact hex.2)
          exact ⟨this.1, this.2.1⟩
      · have := save_spec (P := P) hs now svr hP hok
        exact ⟨this.1, this.2.1⟩
  | popMany n =>
    have h1 : (s.popMany now n).1.servers = s.servers := by
      unfold AbsState.popMany; split <;> rfl
    have h2 : (s.popMany now n).1.instances = s.instances := by
      unfold AbsState.popMany; split <;> rfl
    simp only [Call.exec]
    exact ⟨⟨by rw [h1]; exact hs.1, by rw [h2]; exact hs.2⟩, fun k _ => by rw [h1]⟩
  | removeServer svr res =>
    obtain ⟨hP, hres⟩ := hc
    simp only [Call.exec, AbsState.remove]
    cases hrow : s.getRow svr.addr with
    | none => exact ⟨hs, Frame.refl _ _⟩
    | some ex =>
      have hex := hs.1 _ _ ((getRow_eq s svr.addr) ▸ hrow)
      simp only
      split
      · cases hr : res ex.svr with
        | none => exact ⟨hs, Frame.refl _ _⟩
        | some resolved =>
          dsimp only
          have ha := hres _ _ hr
          exact erase_spec hs _ (by rw [ha, hex.1]; exact hP)
      · exact erase_spec hs _ hP

/-- `Safe P p`: along every path `p` can take from `Inv` states, every call is `CallSafe P` -/
inductive Safe (P : Nat → Prop) {α : Type} : Prog α → Prop where
  | ret (a : α) : Safe P (.ret a)
  | call {β : Type} (c : Call β) (k : β → Prog α) :
      CallSafe P c → (∀ (s : AbsState) (now : Int), Inv s → Safe P (k (c.exec s now).2)) → Safe P (.call c k)

/-- a safe program keeps the invariant and writes server rows only under `P`-keys -/
theorem run_safe {P : Nat → Prop} {α : Type} {p : Prog α} (hp : Safe P p) :
    ∀ (s : AbsState) (now : Int), Inv s → Inv (p.run s now).1 ∧ Frame P s (p.run s now).1 := by
  induction hp with
  | ret a => intro s now hs; exact ⟨hs, Frame.refl _ _⟩
  | call c k hc _ ih =>
    intro s now hs
    have h1 := exec_safe c s now hc hs
    have h2 := ih s now hs (c.exec s now).1 now h1.1
    simp only [Prog.run]
    exact ⟨h2.1, Frame.trans h1.2 h2.2⟩

theorem safe_bind {P : Nat → Prop} {α β : Type} {p : Prog α} {f : α → Prog β} (hp : Safe P p)
    (hf : ∀ a, Safe P (f a)) : Safe P (p.bind f) := by
  induction hp with
  | ret a => exact hf a
  | call c k hc _ ih => exact Safe.call c _ hc (fun s now hs => ih s now hs)

theorem safe_pure {P : Nat → Prop} {α : Type} (a : α) : Safe P (pure a : Prog α) := Safe.ret a

end Rep
end Swat4
