import Swat4.Gen.Facts
import Swat4.Model.UdpServer
/-!
# C06 — finer regenerated facts: deadlines, recovery middleware, read buffers, partial operations
-/
namespace Swat4.C06
open Swat4

/-- **Every accepted TCP connection gets a deadline before the handler sees it.**  Supports the C06 clause "a client
that connects and sends nothing (or stalls) is dropped": `BrowserPipeline`'s `conn = none` (failed read) case is
reachable because `conn.Read` fails at the deadline.  `Listen` accepts, calls `conn.SetDeadline(time.Now().Add(
s.connTimeout))` (on failure the connection is skipped), then starts the handler; `connTimeout` is set by `WithTimeout`
or defaults to `time.Second`; the browser component passes `tcpserver.WithTimeout(cfg.ClientTimeout)`, whose flag
default is `1s` (`configWiring` pins `ClientTimeout: c.BrowserClientTimeout`).
*Edit detected:* removing / zeroing the `SetDeadline` call, `time.Time{}` as its argument, dropping
`tcpserver.WithTimeout(cfg.ClientTimeout)`, or a default of `0` (no deadline: one idle client holds a goroutine and
a descriptor for ever). -/
theorem facts_tcp_deadline :
    Facts.tcpDeadlineCalls =
      [("Listen", "conn.SetDeadline", "time.Now().Add(s.connTimeout)", "on error: { continue }")] ∧
    Facts.tcpConnTimeoutDefs =
      [("WithTimeout", "s.connTimeout", "= timeout"),
       ("New", "connTimeout:", "defaultConnTimeout"),
       ("const", "defaultConnTimeout", "time.Second")] ∧
    Facts.tcpAcceptOrder = ["listener.AcceptTCP", "conn.SetDeadline", "go s.handler.Handle(ctx, conn)"] ∧
    Facts.browserTcpOptions =
      [("New", "tcpserver.New", "…"),
       ("New", "tcpserver.WithTimeout", "cfg.ClientTimeout"),
       ("New", "tcpserver.WithReadySignal", "…")] ∧
    Facts.browserFlagDefaults =
      [("BrowserListenAddr", ":28910"),
       ("BrowserClientTimeout", "1s")] := by
  decide

/-- **The REST engine has gin's recovery middleware.**  Supports the C06 / C17 clause "a panicking handler answers 500
and the service keeps serving" (`Rest` model: a handler failure is a response, not a crash): `router` is
`gin.Default()` (= `gin.New()` + `Logger()` + `Recovery()`), never reassigned, and nothing else is configured on it.
*Edit detected:* `router := gin.New()` (no recovery: a panic in a handler kills the connection's goroutine without a
response), or `router` replaced later in `NewRouter`. -/
theorem facts_rest_recovery :
    Facts.restEngine =
      [("NewRouter", "router", ":= gin.Default()")] := by
  decide

/-- **The browser handler reads at most 2048 bytes, once.**  Supports `BrowserE2E.readBuffer` / `C01.readBufferSize`
(`handlerPayload sent = sent.take 2048`; `C01_oversize_no_reply`) and C06's "requests of at most 2048 bytes".
*Edit detected:* another buffer size, a second `conn.Read`, or a buffer that is not a literal-sized `make`
(the extractor then fails). -/
theorem facts_browser_read_buffer : Facts.browserReadBuffer = 2048 := by decide

/-- **The reporter's UDP read buffer.**  Supports the datagram cut of the reporter drivers (`Drv/RepCommon`: `payload.take
2048`) and C06/C08's "datagrams are at most 2048 bytes": the running service passes
`udpserver.WithBufferSize(cfg.BufferSize)` with flag default 2048 (`configWiring`: `BufferSize: c.ReporterBufferSize`);
the library's own default is 1024.
*Edit detected:* a different `default:"…"` of `ReporterBufferSize`, or the option no longer passed (the service
would silently fall back to 1024). -/
theorem facts_udp_read_buffer :
    Facts.reporterBufferDefault = 2048 ∧ Facts.udpServerDefaultBuffer = 1024 ∧
    Facts.reporterBufferOption =
      [("New", "udpserver.WithBufferSize", "cfg.BufferSize")] := by
  decide

/-- **Inventory of operations that can panic on the browser request path** (`internal/browser/browser.go`,
`pkg/gamespy/crypt/{crypt,state}.go`, `pkg/gamespy/browsing/browsing.go`): explicit `panic(…)`, type assertions, index
expressions with a non-literal index, slice expressions with a non-literal bound.  Supports the totality claims of
the models of this path (`Browsing.parseRequest`, `Crypt.encrypt?`, `process` never fail other than by a returned
error): each entry was checked against a guard (`len(data) < 9`, `dataLen` bounds, `% CCHL`, `uint8` indices into a
256-card array, `[CRTL]byte` key).
*Edit detected:* a new `panic(`, or an index such as `cryptKey[keypos]` losing its `% CRTL` / a slice losing its
length check — any new or changed partial operation appears as a new row. -/
theorem facts_partial_ops_browser :
    Facts.browserPartialOps =
      [("browser.go", "Handle", "slice", "buf[:n]"),
       ("browser.go", "Handle", "assert", "conn.RemoteAddr().(*net.TCPAddr)"),
       ("browser.go", "Handle", "panic", "panic(fmt.Sprintf(\"%v is not a *TCPAddr\", conn.RemoteAddr()))"),
       ("browser.go", "packServers", "index", "svrParams[field]"),
       ("crypt.go", "Encrypt", "index", "payload[i]"),
       ("crypt.go", "Encrypt", "index", "gameSecret[i%GMSL]"),
       ("crypt.go", "Encrypt", "index", "challenge[i%CCHL]"),
       ("crypt.go", "Encrypt", "slice", "payload[9:HDRL]"),
       ("crypt.go", "Encrypt", "index", "cryptKey[(uint8(i)*gameSecret[i%GMSL])%CCHL]"),
       ("crypt.go", "Encrypt", "index", "gameSecret[i%GMSL]"),
       ("crypt.go", "Encrypt", "index", "cryptKey[i%CCHL]"),
       ("crypt.go", "Encrypt", "slice", "payload[HDRL:]"),
       ("crypt.go", "Decrypt", "index", "data[svrChOffset-1]"),
       ("crypt.go", "Decrypt", "slice", "data[svrChOffset : svrChOffset+svrChLen]"),
       ("crypt.go", "Decrypt", "index", "gameSecret[i%GMSL]"),
       ("crypt.go", "Decrypt", "index", "cryptKey[k]"),
       ("crypt.go", "Decrypt", "index", "cryptKey[i%CCHL]"),
       ("crypt.go", "Decrypt", "index", "svrChallenge[i]"),
       ("crypt.go", "Decrypt", "slice", "data[svrChOffset+svrChLen:]"),
       ("state.go", "newCipherState", "index", "cs.cards[i]"),
       ("state.go", "newCipherState", "index", "cs.cards[i]"),
       ("state.go", "newCipherState", "index", "cs.cards[toswap]"),
       ("state.go", "newCipherState", "index", "cs.cards[toswap]"),
       ("state.go", "newCipherState", "index", "cs.cards[i]"),
       ("state.go", "newCipherState", "index", "cs.cards[rsum]"),
       ("state.go", "shuffle", "index", "cs.cards[rsum]"),
       ("state.go", "shuffle", "index", "cryptKey[keypos]"),
       ("state.go", "Encrypt", "index", "data[i]"),
       ("state.go", "Encrypt", "index", "data[i]"),
       ("state.go", "encryptByte", "index", "cs.cards[cs.rotor]"),
       ("state.go", "encryptByte", "index", "cs.cards[cs.lastCipher]"),
       ("state.go", "encryptByte", "index", "cs.cards[cs.lastCipher]"),
       ("state.go", "encryptByte", "index", "cs.cards[cs.ratchet]"),
       ("state.go", "encryptByte", "index", "cs.cards[cs.ratchet]"),
       ("state.go", "encryptByte", "index", "cs.cards[cs.lastPlain]"),
       ("state.go", "encryptByte", "index", "cs.cards[cs.lastPlain]"),
       ("state.go", "encryptByte", "index", "cs.cards[cs.rotor]"),
       ("state.go", "encryptByte", "index", "cs.cards[cs.rotor]"),
       ("state.go", "encryptByte", "index", "cs.cards[swaptemp]"),
       ("state.go", "encryptByte", "index", "cs.cards[(cs.cards[cs.avalanche]+cs.cards[cs.rotor])&0xFF]"),
       ("state.go", "encryptByte", "index", "cs.cards[cs.avalanche]"),
       ("state.go", "encryptByte", "index", "cs.cards[cs.rotor]"),
       ("state.go", "encryptByte", "index", "cs.cards[cs.cards[(cs.cards[cs.lastPlain]+cs.cards[cs.lastCipher]+cs.cards[cs.ratchet])&0xFF]]"),
       ("state.go", "encryptByte", "index", "cs.cards[(cs.cards[cs.lastPlain]+cs.cards[cs.lastCipher]+cs.cards[cs.ratchet])&0xFF]"),
       ("state.go", "encryptByte", "index", "cs.cards[cs.lastPlain]"),
       ("state.go", "encryptByte", "index", "cs.cards[cs.lastCipher]"),
       ("state.go", "encryptByte", "index", "cs.cards[cs.ratchet]"),
       ("state.go", "Decrypt", "index", "data[i]"),
       ("state.go", "Decrypt", "index", "data[i]"),
       ("state.go", "decryptByte", "index", "cs.cards[cs.rotor]"),
       ("state.go", "decryptByte", "index", "cs.cards[cs.lastCipher]"),
       ("state.go", "decryptByte", "index", "cs.cards[cs.lastCipher]"),
       ("state.go", "decryptByte", "index", "cs.cards[cs.ratchet]"),
       ("state.go", "decryptByte", "index", "cs.cards[cs.ratchet]"),
       ("state.go", "decryptByte", "index", "cs.cards[cs.lastPlain]"),
       ("state.go", "decryptByte", "index", "cs.cards[cs.lastPlain]"),
       ("state.go", "decryptByte", "index", "cs.cards[cs.rotor]"),
       ("state.go", "decryptByte", "index", "cs.cards[cs.rotor]"),
       ("state.go", "decryptByte", "index", "cs.cards[swaptemp]"),
       ("state.go", "decryptByte", "index", "cs.cards[(cs.cards[cs.avalanche]+cs.cards[cs.rotor])&0xFF]"),
       ("state.go", "decryptByte", "index", "cs.cards[cs.avalanche]"),
       ("state.go", "decryptByte", "index", "cs.cards[cs.rotor]"),
       ("state.go", "decryptByte", "index", "cs.cards[cs.cards[(cs.cards[cs.lastPlain]+cs.cards[cs.lastCipher]+cs.cards[cs.ratchet])&0xFF]]"),
       ("state.go", "decryptByte", "index", "cs.cards[(cs.cards[cs.lastPlain]+cs.cards[cs.lastCipher]+cs.cards[cs.ratchet])&0xFF]"),
       ("state.go", "decryptByte", "index", "cs.cards[cs.lastPlain]"),
       ("state.go", "decryptByte", "index", "cs.cards[cs.lastCipher]"),
       ("state.go", "decryptByte", "index", "cs.cards[cs.ratchet]"),
       ("browsing.go", "NewRequest", "slice", "data[9:dataLen]")] := by
  decide

/-- **The buffer size the reporter drivers cut datagrams to is the source's.**  `UdpServer.defaultBufferSize`
(`Model/UdpServer.lean`) is the `bufSize` the drivers of C04 / C05 / C06 pass to `UdpServer.deliver`
(`Drv/RepCommon.lean`: `UdpServer.deliver UdpServer.defaultBufferSize payload` — what the handler sees of a received
datagram); it equals the regenerated `default:` tag of the reporter's `--reporter-buffer-size` flag
(`Facts.reporterBufferDefault`, go/ast on every run), which the running service passes on as
`udpserver.WithBufferSize(cfg.BufferSize)` (`facts_udp_read_buffer`) and which the harness configures as well
(`harness/internal/reputil/wire.go:61,178`: `BufferSize: 2048`).
*Edit detected:* a different flag default: the model constant no longer matches and this theorem breaks. -/
theorem facts_udp_buffer_is_model : UdpServer.defaultBufferSize = Facts.reporterBufferDefault := by decide

/-- **The browser path never writes state.**  Supports the C06 clause "state is unchanged unless the input is a well-formed
report / REST submission": the TCP browser and the listing use case reach the storage through exactly one repository
method, `Filter`, which is a read.  Regenerated by go/ast on every run (`harness/internal/facts/finer_readonly.go`):

* `browserPathFields` — every struct field of `internal/browser/browser.go` and
  `internal/core/usecases/listservers/listservers.go`: the handler holds **one** use case (`uc listservers.UseCase`) and no
  repository; the use case holds **one** repository (`serverRepo repositories.ServerRepository`) — no instance
  repository, no probe queue;
* `browserPathStoreCalls` — every use of such a field in any method of the two files: `h.uc.Execute` in `process`,
  `uc.serverRepo.Filter` in `Execute`, nothing else (a field passed on or stored elsewhere instead of being called would
  appear as an "(escapes…)" row);
* and, from the store inventory of C09/C10 (`storeCmdSites`): every Redis command issued by `servers.Filter` and its
  helpers (`filterServerKeys`, `buildTimestampFilters`, `buildStatusFilters`) is a **read** (`HMGET`, `ZRANGE…`,
  `SINTER`, `SUNION`); the write sites of `servers.go` all sit in `save` / `remove`.

In the model this is `listServers` (Model/UseCases: `.now`, then `.filterServers`, no other call) and `Reader` of the
Redis-level machine (`C10.rstep_store`: a reader step leaves the store untouched).
*Edit detected:* a second repository on `UseCase` or `Handler` (say, `instanceRepo`), a call of `Add` / `Update` / `Remove` /
`Count…` from `Execute` or `process`, handing `uc.serverRepo` to a helper, or a write command added to `Filter`'s helpers. -/
theorem facts_browser_reads_only :
    Facts.browserPathStoreCalls =
      [("listservers.go", "Execute", "uc.serverRepo", "repositories.ServerRepository", "Filter"),
       ("browser.go", "process", "h.uc", "listservers.UseCase", "Execute")] ∧
    Facts.browserPathFields =
      [("listservers.go", "UseCase", "serverRepo", "repositories.ServerRepository"),
       ("listservers.go", "UseCase", "clock", "clockwork.Clock"),
       ("listservers.go", "Request", "query", "query.Query"),
       ("listservers.go", "Request", "recentness", "time.Duration"),
       ("listservers.go", "Request", "discoveryStatus", "ds.DiscoveryStatus"),
       ("browser.go", "HandlerOpts", "Liveness", "time.Duration"),
       ("browser.go", "Handler", "metrics", "*metrics.Collector"),
       ("browser.go", "Handler", "logger", "*zerolog.Logger"),
       ("browser.go", "Handler", "clock", "clockwork.Clock"),
       ("browser.go", "Handler", "uc", "listservers.UseCase"),
       ("browser.go", "Handler", "opts", "HandlerOpts"),
       ("browser.go", "Handler", "gameKey", "[6]byte")] ∧
    -- the only repository method reached from the browser path is `Filter`
    (∀ x ∈ Facts.browserPathStoreCalls, x.2.2.2.1 = "repositories.ServerRepository" → x.2.2.2.2 = "Filter") ∧
    -- `Filter` and its helpers issue read commands only …
    (∀ x ∈ Facts.storeCmdSites, x.1 = "servers" →
      (x.2.1 = "Filter" ∨ x.2.1 = "filterServerKeys" ∨ x.2.1 = "buildTimestampFilters" ∨ x.2.1 = "buildStatusFilters" ∨
        x.2.1 = "resolveFilterKeys") → x.2.2.2.2.1 = "read") ∧
    -- … and there are such sites (the clause above is not vacuous)
    ("servers", "Filter", "r.client", "HMGet", "read", "bare") ∈ Facts.storeCmdSites ∧
    -- every write site of servers.go is in `save` or `remove`
    (∀ x ∈ Facts.storeCmdSites, x.1 = "servers" → x.2.2.2.2.1 = "write" → x.2.1 = "save" ∨ x.2.1 = "remove") := by
  refine ⟨by decide, by decide, by decide, by decide, by decide, by decide⟩

/-- **The UDP read loop hands a datagram to the handler only when something was read.**  This is the `none` arm of
`UdpServer.deliver` (`Model/UdpServer.lean`: `deliver bufSize payload = none` exactly when the read returned no byte —
`UdpServer.deliver_empty`, `deliver_nonempty`): the drivers of C04 / C05 / C06 feed the dispatcher model with
`UdpServer.deliver …` and skip the datagram on `none`, and `C06.udp_total` / `udp_never_panics_checked` are stated for NON-EMPTY
datagrams because `Dispatcher.Handle` indexes `payload[0]` (`udp_empty_panics`: the model on the empty payload panics).
In `Listen` the single socket read `n, raddr, err := s.conn.ReadFromUDP(buffer)` sits in a `for {…}` loop; a failed read ends
the loop (`fatal <- err; return`), and the single hand-over `go s.handler.Handle(ctx, s.conn, raddr, payload)` sits in the BODY
of `if n > 0 && s.handler != nil` and under no other condition — so an empty datagram reaches no handler and does not end the
loop.  Regenerated by go/ast on every run (`harness/internal/facts/finer_review3.go`, section `c06udpguard`; a missing `Listen`,
read or `Handle` call fails the extraction loudly).
*Edit detected:* the guard weakened to `s.handler != nil` or `n >= 0` (an empty datagram would panic the handler goroutine at
`payload[0]`), the hand-over moved out of the `if` or into its `else`, a second hand-over, or a read whose error no longer ends
the loop. -/
theorem facts_udp_empty_read_guard :
    Facts.udpDispatchGuards =
      [("Listen", "go", "s.handler.Handle(ctx, s.conn, raddr, payload)", "n > 0 && s.handler != nil")] ∧
    Facts.udpReadStmts =
      [("Listen", "n, raddr, err := s.conn.ReadFromUDP(buffer)", "if err != nil { fatal <- err return }", "for {…}")] ∧
    -- the model's side of the guard: nothing is delivered for an empty read, whatever the buffer size
    (∀ n : Nat, UdpServer.deliver n [] = none) := by
  refine ⟨by decide, by decide, UdpServer.deliver_empty⟩

end Swat4.C06
