import Swat4.Model.USys
/-!
# A generic induction principle for `USys` runs

`USys.stepT` performs, for the scheduled client, a lazy arrival (`settle`), one head call (`step1` / `stepFault`, at the
clock value `callClock`) and the eager silent calls after it (`settle` again).  Every one of these is a sequence of
`Call.exec` of the client's own program.  `Rules Inv P` lists what has to be shown **per call** for a store invariant
`Inv s clock` and a predicate `P clock p` on a client's remaining program; `run_sysInv` then gives the invariant for every
event list (calls, crashes, faults with or without effect, non-negative clock ticks) that schedules only clients from a set
`A`; clients outside `A` are not touched (`run_frozen`).

Used by C13 (`VerMono`: versions only grow) and C14 (`TimedInv`: `refreshedAt ≤ updatedAt ≤ clock`).
-/
namespace Swat4.USysInd
open Swat4

/-- per-call obligations.  `tc` is the clock value the call works with: the current clock `t`, except for the calls that
read the clock when they *start* (`enqueue`, `instances.Add`, `PopMany`), which may work with any (earlier) value. -/
structure Rules (Inv : AbsState → Int → Prop) (P : Int → Prog String → Prop) : Prop where
  exec : ∀ {β : Type} (c : Call β) (k : β → Prog String) (s : AbsState) (t tc : Int),
      P t (.call c k) → Inv s t → (c.clockAtArrival = false → tc = t) →
      Inv (c.exec s tc).1 t ∧ P t (k (c.exec s tc).2)
  fault : ∀ {β : Type} (c : Call β) (k : β → Prog String) (t : Int) (e : β),
      c.faultReply = some e → P t (.call c k) → P t (k e)
  tickInv : ∀ (s : AbsState) (t d : Int), 0 ≤ d → Inv s t → Inv s (t + d)
  tickP : ∀ (p : Prog String) (t d : Int), 0 ≤ d → P t p → P (t + d) p

/-- the events that schedule only clients from `A` and never turn the clock back -/
def EvOK (A : Nat → Prop) : UEv → Prop
  | .tick d => 0 ≤ d
  | .call i => A i
  | .crash i _ => A i
  | .fault i _ => A i

section
variable {Inv : AbsState → Int → Prop} {P : Int → Prog String → Prop}

/-- store invariant plus the program predicate of one client -/
def LInv (Inv : AbsState → Int → Prop) (P : Int → Prog String → Prop) (t : Int) (s : AbsState) (p : Prog String) : Prop :=
  Inv s t ∧ P t p

theorem step1_linv (R : Rules Inv P) (p : Prog String) (s : AbsState) (t tc : Int) (h : LInv Inv P t s p)
    (htc : p.headAtArrival = false → tc = t) : LInv Inv P t (p.step1 s tc).1 (p.step1 s tc).2 := by
  cases p with
  | ret a => exact h
  | call c k => exact R.exec c k s t tc h.2 h.1 htc

theorem stepFault_linv (R : Rules Inv P) (effect : Bool) (p : Prog String) (s : AbsState) (t tc : Int) (h : LInv Inv P t s p)
    (htc : p.headAtArrival = false → tc = t) :
    LInv Inv P t (p.stepFault effect s tc).1 (p.stepFault effect s tc).2 := by
  cases p with
  | ret a => exact h
  | call c k =>
    simp only [Prog.stepFault]
    cases he : c.faultReply with
    | none => exact R.exec c k s t tc h.2 h.1 htc
    | some e =>
      cases effect with
      | false => exact ⟨h.1, R.fault c k t e he h.2⟩
      | true => exact ⟨(R.exec c k s t tc h.2 h.1 htc).1, R.fault c k t e he h.2⟩

theorem skipSilent_linv (R : Rules Inv P) : ∀ (fuel : Nat) (p : Prog String) (s : AbsState) (t : Int) (names : List String),
    LInv Inv P t s p → LInv Inv P t (Prog.skipSilent fuel p s t names).1 (Prog.skipSilent fuel p s t names).2.1 := by
  intro fuel
  induction fuel with
  | zero => intro p s t names h; exact h
  | succ fuel ih =>
    intro p s t names h
    cases p with
    | ret a => exact h
    | call c k =>
      simp only [Prog.skipSilent]
      split
      · exact ih _ _ t _ (R.exec c k s t t h.2 h.1 fun _ => rfl)
      · exact h

theorem settle_linv (R : Rules Inv P) (c : UClient) (s : AbsState) (t : Int) (h : LInv Inv P t s c.prog) :
    LInv Inv P t (c.settle s t).1 (c.settle s t).2.1.prog :=
  skipSilent_linv R 64 c.prog s t [] h

theorem arrive_linv (R : Rules Inv P) (c : UClient) (s : AbsState) (t : Int) (h : LInv Inv P t s c.prog) :
    LInv Inv P t (if c.started then (s, c, ([] : List String)) else c.settle s t).1
      (if c.started then (s, c, ([] : List String)) else c.settle s t).2.1.prog := by
  cases c.started with
  | true => exact h
  | false => exact settle_linv R c s t h

/-- the system invariant: the store invariant at the current clock, and the program predicate for every client in `A` -/
structure SysInv (Inv : AbsState → Int → Prop) (P : Int → Prog String → Prop) (A : Nat → Prop) (u : USys) : Prop where
  inv : Inv u.abs u.clock
  clients : ∀ (j : Nat) (c : UClient), A j → u.clients[j]? = some c → P u.clock c.prog

theorem SysInv.update {A : Nat → Prop} {u : USys} (h : SysInv Inv P A u) (i : Nat) (c2 : UClient) (a2 : AbsState)
    (hl : LInv Inv P u.clock a2 c2.prog) :
    SysInv Inv P A { u with abs := a2, clients := u.clients.set i c2 } := by
  refine ⟨hl.1, fun j c hj hc => ?_⟩
  simp only [List.getElem?_set] at hc
  split at hc
  · split at hc
    · cases hc; exact hl.2
    · cases hc
  · exact h.clients j c hj hc

theorem callClock_spec (c : UClient) (t : Int) : c.prog.headAtArrival = false → c.callClock t = t := by
  intro h; simp [UClient.callClock, h]

theorem step_sysInv (R : Rules Inv P) {A : Nat → Prop} (u : USys) (e : UEv) (he : EvOK A e) (h : SysInv Inv P A u) :
    SysInv Inv P A (u.step e) := by
  cases e with
  | tick d =>
    exact ⟨R.tickInv _ _ d he h.inv, fun j c hj hc => R.tickP _ _ d he (h.clients j c hj hc)⟩
  | call i =>
    simp only [USys.step, USys.stepT]
    cases hc : u.clients[i]? with
    | none => exact h
    | some c =>
      have hl0 : LInv Inv P u.clock u.abs c.prog := ⟨h.inv, h.clients i c he hc⟩
      dsimp only
      split
      · exact h
      · have hpre := arrive_linv R c u.abs u.clock hl0
        generalize (if c.started then (u.abs, c, ([] : List String)) else c.settle u.abs u.clock) = pre at hpre
        obtain ⟨a0, c0, n0⟩ := pre
        dsimp only at hpre ⊢
        split
        · exact h.update i _ a0 hpre
        · have h1 := step1_linv R c0.prog a0 u.clock (({ c0 with started := true } : UClient).callClock u.clock) hpre
            (callClock_spec ({ c0 with started := true } : UClient) u.clock)
          have h2 := settle_linv R ({ c0 with started := true, prog := (c0.prog.step1 a0 (({ c0 with started := true } : UClient).callClock u.clock)).2 } : UClient)
            (c0.prog.step1 a0 (({ c0 with started := true } : UClient).callClock u.clock)).1 u.clock h1
          exact h.update i _ _ h2
  | crash i effect =>
    simp only [USys.step, USys.stepT]
    cases hc : u.clients[i]? with
    | none => exact h
    | some c =>
      have hl0 : LInv Inv P u.clock u.abs c.prog := ⟨h.inv, h.clients i c he hc⟩
      dsimp only
      split
      · exact h
      · have hpre := arrive_linv R c u.abs u.clock hl0
        generalize (if c.started then (u.abs, c, ([] : List String)) else c.settle u.abs u.clock) = pre at hpre
        obtain ⟨a0, c0, n0⟩ := pre
        dsimp only at hpre ⊢
        cases effect with
        | false => exact h.update i _ a0 hpre
        | true =>
          have h1 := step1_linv R c0.prog a0 u.clock (c0.callClock u.clock) hpre (callClock_spec c0 u.clock)
          exact h.update i _ _ ⟨h1.1, hpre.2⟩
  | fault i effect =>
    simp only [USys.step, USys.stepT]
    cases hc : u.clients[i]? with
    | none => exact h
    | some c =>
      have hl0 : LInv Inv P u.clock u.abs c.prog := ⟨h.inv, h.clients i c he hc⟩
      dsimp only
      split
      · exact h
      · have hpre := arrive_linv R c u.abs u.clock hl0
        generalize (if c.started then (u.abs, c, ([] : List String)) else c.settle u.abs u.clock) = pre at hpre
        obtain ⟨a0, c0, n0⟩ := pre
        dsimp only at hpre ⊢
        have h1 := stepFault_linv R effect c0.prog a0 u.clock (({ c0 with started := true } : UClient).callClock u.clock) hpre
          (callClock_spec ({ c0 with started := true } : UClient) u.clock)
        have h2 := settle_linv R ({ c0 with started := true, prog := (c0.prog.stepFault effect a0 (({ c0 with started := true } : UClient).callClock u.clock)).2 } : UClient)
          (c0.prog.stepFault effect a0 (({ c0 with started := true } : UClient).callClock u.clock)).1 u.clock h1
        exact h.update i _ _ h2

/-- **the invariant holds after every event list** that schedules only clients from `A` with non-negative ticks -/
theorem run_sysInv (R : Rules Inv P) {A : Nat → Prop} (es : List UEv) : ∀ (u : USys), (∀ e ∈ es, EvOK A e) →
    SysInv Inv P A u → SysInv Inv P A (u.run es) := by
  induction es with
  | nil => intro u _ h; exact h
  | cons e es ih =>
    intro u hes h
    exact ih (u.step e) (fun e' he' => hes e' (List.mem_cons_of_mem _ he'))
      (step_sysInv R u e (hes e (List.mem_cons_self ..)) h)

end

/-! ## clients that are not scheduled are not touched -/

/-- the client an event schedules -/
def names : UEv → Nat → Prop
  | .tick _, _ => False
  | .call i, j => i = j
  | .crash i _, j => i = j
  | .fault i _, j => i = j

/-- the clock after a run: the start value plus the ticks -/
def ticks : List UEv → Int
  | [] => 0
  | .tick d :: es => d + ticks es
  | _ :: es => ticks es

/-- an event changes the clock by its tick only and the client table at most at the scheduled client -/
theorem step_shape (u : USys) (e : UEv) :
    (u.step e).clock = u.clock + ticks [e] ∧
      ((u.step e).clients = u.clients ∨ ∃ (i : Nat) (c2 : UClient), names e i ∧ (u.step e).clients = u.clients.set i c2) := by
  cases e with
  | tick d => exact ⟨by simp [USys.step, USys.stepT, ticks], Or.inl rfl⟩
  | call i =>
    simp only [USys.step, USys.stepT, ticks, Int.add_zero]
    cases hc : u.clients[i]? with
    | none => exact ⟨rfl, Or.inl rfl⟩
    | some c =>
      dsimp only
      split
      · exact ⟨rfl, Or.inl rfl⟩
      · generalize (if c.started then (u.abs, c, ([] : List String)) else c.settle u.abs u.clock) = pre
        obtain ⟨a0, c0, n0⟩ := pre
        dsimp only
        split
        · exact ⟨rfl, Or.inr ⟨i, _, rfl, rfl⟩⟩
        · exact ⟨rfl, Or.inr ⟨i, _, rfl, rfl⟩⟩
  | crash i effect =>
    simp only [USys.step, USys.stepT, ticks, Int.add_zero]
    cases hc : u.clients[i]? with
    | none => exact ⟨rfl, Or.inl rfl⟩
    | some c =>
      dsimp only
      split
      · exact ⟨rfl, Or.inl rfl⟩
      · generalize (if c.started then (u.abs, c, ([] : List String)) else c.settle u.abs u.clock) = pre
        obtain ⟨a0, c0, n0⟩ := pre
        exact ⟨rfl, Or.inr ⟨i, _, rfl, rfl⟩⟩
  | fault i effect =>
    simp only [USys.step, USys.stepT, ticks, Int.add_zero]
    cases hc : u.clients[i]? with
    | none => exact ⟨rfl, Or.inl rfl⟩
    | some c =>
      dsimp only
      split
      · exact ⟨rfl, Or.inl rfl⟩
      · generalize (if c.started then (u.abs, c, ([] : List String)) else c.settle u.abs u.clock) = pre
        obtain ⟨a0, c0, n0⟩ := pre
        exact ⟨rfl, Or.inr ⟨i, _, rfl, rfl⟩⟩

theorem names_evOK {A : Nat → Prop} {e : UEv} (he : EvOK A e) {i : Nat} (h : names e i) : A i := by
  cases e <;> simp only [names] at h <;> first | exact h.elim | (subst h; exact he)

theorem step_frozen {A : Nat → Prop} (u : USys) (e : UEv) (he : EvOK A e) (j : Nat) (hj : ¬ A j) :
    (u.step e).clients[j]? = u.clients[j]? := by
  rcases (step_shape u e).2 with h | ⟨i, c2, hn, h⟩
  · rw [h]
  · rw [h]
    have : i ≠ j := fun hij => hj (hij ▸ names_evOK he hn)
    simp [List.getElem?_set, this]

theorem run_frozen {A : Nat → Prop} (es : List UEv) : ∀ (u : USys), (∀ e ∈ es, EvOK A e) → ∀ (j : Nat), ¬ A j →
    (u.run es).clients[j]? = u.clients[j]? := by
  induction es with
  | nil => intro u _ j _; rfl
  | cons e es ih =>
    intro u hes j hj
    have := ih (u.step e) (fun e' he' => hes e' (List.mem_cons_of_mem _ he')) j hj
    exact this.trans (step_frozen u e (hes e (List.mem_cons_self ..)) j hj)

theorem run_clock (es : List UEv) : ∀ (u : USys), (u.run es).clock = u.clock + ticks es := by
  induction es with
  | nil => intro u; simp [USys.run, ticks]
  | cons e es ih =>
    intro u
    have h1 := ih (u.step e)
    have h2 := (step_shape u e).1
    show ((u.step e).run es).clock = _
    rw [h1, h2]
    cases e <;> simp [ticks] <;> omega

theorem run_append (u : USys) (es1 es2 : List UEv) : u.run (es1 ++ es2) = (u.run es1).run es2 := by
  simp [USys.run, List.foldl_append]

theorem run_cons (u : USys) (e : UEv) (es : List UEv) : u.run (e :: es) = (u.step e).run es := rfl

end Swat4.USysInd
