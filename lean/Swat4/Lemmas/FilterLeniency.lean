import Swat4.Model.Filter
/-!
# Every leniency of the Go filter parser, pinned (C03)

One `example` per input string: what `query.NewFromString` makes of it.  The right-hand sides were
produced by running the REAL parser (`/repo/pkg/gamespy/browsing/query`, through `verifharness exec`,
op `C03 parse`) on each string; every `rfl` below therefore checks that the model `Swat4.Filter.newFromString`
agrees with the Go code on that string.  Together with `Swat4.C03.parse_sound` (an accepted string is a
spelling, in the lenient grammar `FilterSpec.QueryText`, of the clauses returned) this is the converse
direction of `parse_render`: "an accepted string means what it looks like".

`.error .value` = `ErrInvalidValueFormat`, `.field` = `ErrUnknownFieldName`, `.op` = `ErrUnsupportedOperatorType`,
`.format` = `ErrInvalidFilterFormat`, `.empty` = `ErrQueryHasNoFilters`.  In the browser every error means
"blank query" (`Swat4.C03.malformed_is_blank`).
-/
namespace Swat4.FilterLeniency
open Swat4 Swat4.Filter

/-- ASCII text as bytes -/
abbrev b := Bytes.ofAscii

/-- plain integer -/
example : newFromString (b "numplayers=5") = .ok [⟨(b "numplayers"), .eq, .int 5⟩] := rfl
/-- a leading + is accepted -/
example : newFromString (b "numplayers=+5") = .ok [⟨(b "numplayers"), .eq, .int 5⟩] := rfl
/-- leading zeros are accepted -/
example : newFromString (b "numplayers=007") = .ok [⟨(b "numplayers"), .eq, .int 7⟩] := rfl
/-- minus zero is 0 -/
example : newFromString (b "numplayers=-0") = .ok [⟨(b "numplayers"), .eq, .int 0⟩] := rfl
example : newFromString (b "numplayers=+0") = .ok [⟨(b "numplayers"), .eq, .int 0⟩] := rfl
example : newFromString (b "numplayers=-007") = .ok [⟨(b "numplayers"), .eq, .int (-7)⟩] := rfl
/-- - is not an operator byte -/
example : newFromString (b "numplayers>-1") = .ok [⟨(b "numplayers"), .gt, .int (-1)⟩] := rfl
/-- math.MaxInt64 -/
example : newFromString (b "numplayers=9223372036854775807") = .ok [⟨(b "numplayers"), .eq, .int 9223372036854775807⟩] := rfl
/-- out of int64 range: not an integer, not quoted, not a field -/
example : newFromString (b "numplayers=9223372036854775808") = .error .value := rfl
/-- math.MinInt64 -/
example : newFromString (b "numplayers=-9223372036854775808") = .ok [⟨(b "numplayers"), .eq, .int (-9223372036854775808)⟩] := rfl
example : newFromString (b "numplayers=-9223372036854775809") = .error .value := rfl
/-- more than 18 bytes: Atoi's slow path (ParseInt), still 7 -/
example : newFromString (b "numplayers=00000000000000000000000000000000000000000007") = .ok [⟨(b "numplayers"), .eq, .int 7⟩] := rfl
/-- sign without digits -/
example : newFromString (b "numplayers=+") = .error .value := rfl
example : newFromString (b "numplayers=-") = .error .value := rfl
example : newFromString (b "numplayers=--1") = .error .value := rfl
example : newFromString (b "numplayers=+-1") = .error .value := rfl
/-- no underscores (base 10 is explicit) -/
example : newFromString (b "numplayers=1_000") = .error .value := rfl
/-- no base prefixes -/
example : newFromString (b "numplayers=0x10") = .error .value := rfl
example : newFromString (b "numplayers=1e3") = .error .value := rfl
example : newFromString (b "numplayers=1.0") = .error .value := rfl
/-- no blanks around the value -/
example : newFromString (b "numplayers= 1") = .error .value := rfl
example : newFromString (b "numplayers=1 ") = .error .value := rfl
/-- non-ASCII digits are not digits -/
example : newFromString (b "numplayers=" ++ [0xd9, 0xa3]) = .error .value := rfl
/-- quoted string -/
example : newFromString (b "hostname='a'") = .ok [⟨(b "hostname"), .eq, .str (b "a")⟩] := rfl
/-- the empty quoted string is NOT a value (len must exceed 2) -/
example : newFromString (b "hostname=''") = .error .value := rfl
example : newFromString (b "hostname='") = .error .value := rfl
/-- three quotes: the string consisting of one quote -/
example : newFromString (b "hostname='''") = .ok [⟨(b "hostname"), .eq, .str (b "'")⟩] := rfl
/-- quotes inside a quoted value are kept (only first and last byte are looked at) -/
example : newFromString (b "hostname='a'b'") = .ok [⟨(b "hostname"), .eq, .str (b "a'b")⟩] := rfl
/-- unterminated -/
example : newFromString (b "hostname='a") = .error .value := rfl
example : newFromString (b "hostname=a'") = .error .value := rfl
/-- bare word that is not a field name -/
example : newFromString (b "hostname=a") = .error .value := rfl
/-- double quotes are not quotes -/
example : newFromString (b "hostname=\"a\"") = .error .value := rfl
/-- operator bytes after the value has begun belong to the value -/
example : newFromString (b "hostname='a=b'") = .ok [⟨(b "hostname"), .eq, .str (b "a=b")⟩] := rfl
example : newFromString (b "hostname='<>!='") = .ok [⟨(b "hostname"), .eq, .str (b "<>!=")⟩] := rfl
/-- blank inside quotes -/
example : newFromString (b "hostname=' '") = .ok [⟨(b "hostname"), .eq, .str (b " ")⟩] := rfl
example : newFromString (b "gametype='VIP Escort'") = .ok [⟨(b "gametype"), .eq, .str (b "VIP Escort")⟩] := rfl
/-- quoted digits are a string -/
example : newFromString (b "hostname='5'") = .ok [⟨(b "hostname"), .eq, .str (b "5")⟩] := rfl
/-- a string against an int field parses (and never matches) -/
example : newFromString (b "numplayers='5'") = .ok [⟨(b "numplayers"), .eq, .str (b "5")⟩] := rfl
/-- quoted field name is a string -/
example : newFromString (b "hostname='numplayers'") = .ok [⟨(b "hostname"), .eq, .str (b "numplayers")⟩] := rfl
/-- non-UTF-8 bytes inside quotes -/
example : newFromString (b "hostname='" ++ [0xff, 0xfe, 0x80] ++ b "'") = .ok [⟨(b "hostname"), .eq, .str [0xff, 0xfe, 0x80]⟩] := rfl
example : newFromString (b "hostname= 'a'") = .error .value := rfl
example : newFromString (b "hostname='a' ") = .error .value := rfl
/-- field reference -/
example : newFromString (b "numplayers!=maxplayers") = .ok [⟨(b "numplayers"), .ne, .fld (b "maxplayers")⟩] := rfl
example : newFromString (b "numplayers=numplayers") = .ok [⟨(b "numplayers"), .eq, .fld (b "numplayers")⟩] := rfl
/-- ordering of string fields parses (and never matches) -/
example : newFromString (b "hostname<gametype") = .ok [⟨(b "hostname"), .lt, .fld (b "gametype")⟩] := rfl
/-- boolean field on the right parses (and never matches) -/
example : newFromString (b "password=statsenabled") = .ok [⟨(b "password"), .eq, .fld (b "statsenabled")⟩] := rfl
/-- field names are case-sensitive -/
example : newFromString (b "numplayers=MaxPlayers") = .error .value := rfl
/-- a field of details.Info that is not a query field -/
example : newFromString (b "numplayers=ping") = .error .value := rfl
example : newFromString (b "numplayers<5") = .ok [⟨(b "numplayers"), .lt, .int 5⟩] := rfl
example : newFromString (b "numplayers>5") = .ok [⟨(b "numplayers"), .gt, .int 5⟩] := rfl
example : newFromString (b "numplayers!=5") = .ok [⟨(b "numplayers"), .ne, .int 5⟩] := rfl
/-- any other run of ! = < > is an unsupported operator -/
example : newFromString (b "numplayers==1") = .error .op := rfl
example : newFromString (b "numplayers=!1") = .error .op := rfl
example : newFromString (b "numplayers!1") = .error .op := rfl
example : newFromString (b "numplayers<>1") = .error .op := rfl
/-- >= and <= do not exist -/
example : newFromString (b "numplayers>=1") = .error .op := rfl
example : newFromString (b "numplayers<=1") = .error .op := rfl
example : newFromString (b "numplayers=>1") = .error .op := rfl
example : newFromString (b "numplayers!==1") = .error .op := rfl
/-- a second operator run is part of the value -/
example : newFromString (b "numplayers=1=2") = .error .value := rfl
example : newFromString (b "numplayers=1!") = .error .value := rfl
/-- empty string: no filters (the browser does not even call the parser for it) -/
example : newFromString [] = .error .empty := rfl
/-- no operator -/
example : newFromString (b "numplayers") = .error .format := rfl
/-- no value -/
example : newFromString (b "numplayers=") = .error .format := rfl
example : newFromString (b "numplayers!=") = .error .format := rfl
/-- no field name -/
example : newFromString (b "=1") = .error .format := rfl
example : newFromString (b "=") = .error .format := rfl
example : newFromString (b "!") = .error .format := rfl
example : newFromString (b " ") = .error .format := rfl
/-- quotes around the whole clause: name 'numplayers -/
example : newFromString (b "'numplayers=1'") = .error .value := rfl
/-- unknown field -/
example : newFromString (b "foo=1") = .error .field := rfl
/-- unknown field AND bad value: the value is judged first -/
example : newFromString (b "foo=bar") = .error .value := rfl
/-- unknown field AND bad operator: the field is judged first -/
example : newFromString (b "foo==1") = .error .field := rfl
/-- bad operator AND bad value: the value is judged first -/
example : newFromString (b "numplayers==bar") = .error .value := rfl
example : newFromString (b "foo") = .error .format := rfl
/-- case-sensitive -/
example : newFromString (b "NumPlayers=1") = .error .field := rfl
/-- blanks are part of the name -/
example : newFromString (b " numplayers=1") = .error .field := rfl
example : newFromString (b "numplayers =1") = .error .field := rfl
/-- not a query field -/
example : newFromString (b "ping=1") = .error .field := rfl
/-- two clauses -/
example : newFromString (b "numplayers=1 and password=0") = .ok [⟨(b "numplayers"), .eq, .int 1⟩, ⟨(b "password"), .eq, .int 0⟩] := rfl
example : newFromString (b "numplayers=1 and password=0 and gamever='1.1' and gamevariant='SWAT 4'") = .ok [⟨(b "numplayers"), .eq, .int 1⟩, ⟨(b "password"), .eq, .int 0⟩, ⟨(b "gamever"), .eq, .str (b "1.1")⟩, ⟨(b "gamevariant"), .eq, .str (b "SWAT 4")⟩] := rfl
/-- a trailing separator is accepted and ignored -/
example : newFromString (b "numplayers=1 and ") = .ok [⟨(b "numplayers"), .eq, .int 1⟩] := rfl
example : newFromString (b "numplayers=1 and password=0 and ") = .ok [⟨(b "numplayers"), .eq, .int 1⟩, ⟨(b "password"), .eq, .int 0⟩] := rfl
/-- without the final blank it is part of the value -/
example : newFromString (b "numplayers=1 and") = .error .value := rfl
/-- a leading separator is an empty clause -/
example : newFromString (b " and numplayers=1") = .error .format := rfl
example : newFromString (b " and ") = .error .format := rfl
/-- doubled separator: empty clause -/
example : newFromString (b "numplayers=1 and  and password=0") = .error .format := rfl
/-- the clause 'and' -/
example : newFromString (b "numplayers=1 and and password=0") = .error .field := rfl
/-- two blanks before 'and': value '1 ' -/
example : newFromString (b "numplayers=1  and password=0") = .error .value := rfl
/-- two blanks after 'and': name ' password' -/
example : newFromString (b "numplayers=1 and  password=0") = .error .field := rfl
/-- upper-case AND is not a separator -/
example : newFromString (b "numplayers=1 AND password=0") = .error .value := rfl
/-- ... and between quotes it silently becomes ONE string clause -/
example : newFromString (b "hostname='a' AND gametype='b'") = .ok [⟨(b "hostname"), .eq, .str (b "a' AND gametype='b")⟩] := rfl
example : newFromString (b "numplayers=1 And password=0") = .error .value := rfl
/-- tabs are not blanks -/
example : newFromString (b "numplayers=1" ++ [0x09] ++ b "and" ++ [0x09] ++ b "password=0") = .error .value := rfl
/-- comma (the separator of Query.String()) is not a separator -/
example : newFromString (b "numplayers=1,password=0") = .error .value := rfl
/-- there is no 'or' -/
example : newFromString (b "numplayers=1 or password=0") = .error .value := rfl
/-- the scanner splits inside quotes: a quoted value cannot contain ' and ' -/
example : newFromString (b "hostname='a and b'") = .error .value := rfl
example : newFromString (b "hostname=' and '") = .error .value := rfl
example : newFromString (b "hostname='a' and 'b'") = .error .format := rfl
example : newFromString (b "hostname='x and y' and numplayers=1") = .error .value := rfl
/-- the first failing clause decides the error -/
example : newFromString (b "foo=1 and numplayers") = .error .field := rfl
example : newFromString (b "numplayers and foo=1") = .error .format := rfl
/-- one bad clause voids the whole query -/
example : newFromString (b "numplayers=1 and foo=1") = .error .field := rfl
/-- duplicates are kept -/
example : newFromString (b "numplayers=1 and numplayers=1") = .ok [⟨(b "numplayers"), .eq, .int 1⟩, ⟨(b "numplayers"), .eq, .int 1⟩] := rfl
/-- no parentheses -/
example : newFromString (b "(numplayers=1)") = .error .value := rfl
example : newFromString (b "numplayers=1;") = .error .value := rfl

/-! ## every query field, every operator -/

/-- each of the 11 query fields is accepted on the left with each of the four operators … -/
example : Facts.queryFields.all (fun g => [([0x3d], Op.eq), ([0x21, 0x3d], Op.ne), ([0x3c], Op.lt), ([0x3e], Op.gt)].all fun o =>
    match newFromString (g ++ o.1 ++ b "1") with
    | .ok [f] => f == ⟨g, o.2, .int 1⟩
    | _ => false) = true := rfl
/-- … and on the right -/
example : Facts.queryFields.all (fun g =>
    match newFromString (b "hostname=" ++ g) with
    | .ok [f] => f == ⟨b "hostname", .eq, .fld g⟩
    | _ => false) = true := rfl

/-! ## what the browser makes of it -/

/-- the empty filter string is the blank query (the parser is not called) -/
example : browserQuery [] = [] := rfl
/-- one bad clause voids the whole query: no filtering at all -/
example : browserQuery (b "numplayers=1 and foo=1") = [] := rfl
/-- a quoted value with ` and ` inside voids the query -/
example : browserQuery (b "hostname='a and b'") = [] := rfl
/-- a trailing separator does not -/
example : browserQuery (b "numplayers=1 and ") = [⟨b "numplayers", .eq, .int 1⟩] := rfl

/-! ## accepted clauses that can never match -/

/-- a record: `numplayers` 5 (int), `hostname` "5" (string), `gametype` "x", `password` and `statsenabled` true -/
def info : Info :=
  [(b "numplayers", .int 5), (b "hostname", .str (b "5")), (b "gametype", .str (b "x")),
   (b "password", .bool true), (b "statsenabled", .bool true)]

/-- a quoted string against an int field: type mismatch, no match -/
example : queryMatch (browserQuery (b "numplayers='5'")) info = false := rfl
/-- an integer against a string field: no match (neither `=` nor `!=`) -/
example : queryMatch (browserQuery (b "hostname=5")) info = false := rfl
example : queryMatch (browserQuery (b "hostname!=5")) info = false := rfl
/-- `<` on strings is unsupported: no match either way round -/
example : queryMatch (browserQuery (b "hostname<gametype")) info = false := rfl
example : queryMatch (browserQuery (b "hostname>gametype")) info = false := rfl
/-- a boolean on the left compares as 0/1 … -/
example : queryMatch (browserQuery (b "password=1")) info = true := rfl
example : queryMatch (browserQuery (b "password>0")) info = true := rfl
/-- … but a boolean field on the right is an error, i.e. no match — even `password=password` -/
example : queryMatch (browserQuery (b "password=statsenabled")) info = false := rfl
example : queryMatch (browserQuery (b "password=password")) info = false := rfl
/-- a query field the record does not carry never matches, not even with `!=` -/
example : queryMatch (browserQuery (b "mapname!='x'")) info = false := rfl
/-- leading zeros and `+` denote the same integer -/
example : queryMatch (browserQuery (b "numplayers=+005")) info = true := rfl

/-! ## the checked form (every Go index / slice expression explicit) on the same strings -/

set_option maxRecDepth 8000 in
example : newFromStringChecked (b "numplayers=1 and ") = .ok [⟨b "numplayers", .eq, .int 1⟩] := by decide
set_option maxRecDepth 8000 in
example : newFromStringChecked (b "hostname='''") = .ok [⟨b "hostname", .eq, .str (b "'")⟩] := by decide
set_option maxRecDepth 8000 in
example : newFromStringChecked (b "hostname=''") = .err .value := by decide
set_option maxRecDepth 8000 in
example : newFromStringChecked (b " and ") = .err .format := by decide
set_option maxRecDepth 8000 in
/-- non-UTF-8 bytes around the separator (the input class of the planted `strings.ToLower` regression) -/
example : scanFilterChecked ([0xff, 0xfe] ++ b " and " ++ [0x80]) = .ok ([0xff, 0xfe], [0x80]) := by decide

/-- for contrast: an index computed on ANOTHER string (here: 3 bytes longer, as `strings.ToLower` makes an
invalid byte) is out of range for this one — the checked operations do report it -/
example : goSliceFrom ([0xff] ++ b " and ") (3 + 5) = .panic := by decide

end Swat4.FilterLeniency
