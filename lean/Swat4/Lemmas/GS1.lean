import Swat4.Model.GS1
/-! Helper lemmas for the GS1 model: checked slices never fail in `gs1.go`; pure forms of the scanners. -/
namespace Swat4.GS1
open Swat4

/-! ## the `Res` monad -/

@[simp] theorem Res.ok_bind {α β : Type} (a : α) (f : α → Res β) : (Res.ok a >>= f) = f a := rfl
@[simp] theorem Res.err_bind {α β : Type} (e : Err) (f : α → Res β) : ((Res.err e : Res α) >>= f) = .err e := rfl
@[simp] theorem Res.panic_bind {α β : Type} (f : α → Res β) : ((Res.panic : Res α) >>= f) = .panic := rfl
@[simp] theorem Res.hang_bind {α β : Type} (f : α → Res β) : ((Res.hang : Res α) >>= f) = .hang := rfl
@[simp] theorem Res.pure_eq {α : Type} (a : α) : (pure a : Res α) = .ok a := rfl

/-! ## index functions -/

theorem indexByte_lt {b : Bytes} {c : UInt8} {i : Nat} (h : indexByte b c = some i) : i < b.length := by
  induction b generalizing i with
  | nil => simp [indexByte] at h
  | cons x xs ih =>
    simp only [indexByte] at h
    split at h
    · cases h; simp
    · cases hx : indexByte xs c with
      | none => simp [hx] at h
      | some j => simp [hx] at h; subst h; have := ih hx; simp; omega

theorem lastIndexByte_lt {b : Bytes} {c : UInt8} {i : Nat} (h : lastIndexByte b c = some i) : i < b.length := by
  induction b generalizing i with
  | nil => simp [lastIndexByte] at h
  | cons x xs ih =>
    simp only [lastIndexByte] at h
    split at h
    · rename_i j hj; cases h; have := ih hj; simp; omega
    · split at h
      · cases h; simp
      · cases h

/-! ## scanners: pure forms (every checked slice is in bounds) -/

/-- `consumeField` without the bound checks -/
def cfPure (p : Bytes) : Bytes × Option Bytes :=
  if p.length = 0 then ([], none)
  else
    match indexByte (p.drop 1) bsl with
    | some i => ((p.drop 1).take i, some ((p.drop 1).drop i))
    | none => (p.drop 1, none)

theorem consumeField_eq (p : Bytes) : consumeField p = .ok (cfPure p) := by
  unfold consumeField cfPure
  split
  · rfl
  · have h1 : 1 ≤ p.length := by omega
    simp only [sliceFrom, h1, if_true, Res.ok_bind]
    cases hi : indexByte (p.drop 1) bsl with
    | some i =>
      have := indexByte_lt hi
      have h2 : i ≤ p.length - 1 := by simp only [List.length_drop] at this; omega
      simp [sliceTo, h2]
    | none => rfl

/-- `consumeFieldFromRight` without the bound checks -/
def cfrPure (p : Bytes) : Bytes × Option Bytes :=
  if p.length = 0 then ([], none)
  else
    match lastIndexByte p bsl with
    | some i => (p.drop (i + 1), some (p.take i))
    | none => (p, none)

theorem consumeFieldFromRight_eq (p : Bytes) : consumeFieldFromRight p = .ok (cfrPure p) := by
  unfold consumeFieldFromRight cfrPure
  split
  · rfl
  · cases hi : lastIndexByte p bsl with
    | some i =>
      have := lastIndexByte_lt hi
      have h1 : i + 1 ≤ p.length := by omega
      have h2 : i ≤ p.length := by omega
      simp [sliceTo, sliceFrom, h1, h2]
    | none => rfl

/-- `consumeParam` without the bound checks -/
def cpPure (p : Bytes) : Option (Param × Option Bytes) :=
  match cfPure p with
  | (_, none) => none
  | (name, some rest) =>
    if name.length = 0 then none else some (⟨name, (cfPure rest).1⟩, (cfPure rest).2)

theorem consumeParam_eq (p : Bytes) : consumeParam p = .ok (cpPure p) := by
  unfold consumeParam cpPure
  simp only [consumeField_eq, Res.ok_bind]
  rcases cfPure p with ⟨name, _ | rest⟩
  · rfl
  · by_cases h : name.length = 0 <;> simp [h]

/-- `consumeParamFromRight` without the bound checks -/
def cprPure (p : Bytes) : Option (Param × Option Bytes) :=
  match cfrPure p with
  | (_, none) => none
  | (value, some rest) =>
    if (cfrPure rest).1.length = 0 then none else some (⟨(cfrPure rest).1, value⟩, (cfrPure rest).2)

theorem consumeParamFromRight_eq (p : Bytes) : consumeParamFromRight p = .ok (cprPure p) := by
  unfold consumeParamFromRight cprPure
  simp only [consumeFieldFromRight_eq, Res.ok_bind]
  rcases cfrPure p with ⟨value, _ | rest⟩
  · rfl
  · by_cases h : (cfrPure rest).1.length = 0 <;> simp [h]

/-! ## outcomes that are a value or `malformed` / never a crash -/

/-- a value or the error class `malformed`: never `panic`, `hang` or `incomplete` -/
def Res.OkOrMal {α : Type} : Res α → Prop
  | .ok _ => True
  | .err .malformed => True
  | _ => False

/-- neither `panic` nor `hang` -/
def Res.Safe {α : Type} : Res α → Prop
  | .panic => False
  | .hang => False
  | _ => True

theorem Res.OkOrMal.safe {α : Type} {r : Res α} (h : r.OkOrMal) : r.Safe := by
  cases r with
  | ok a => trivial
  | err e => trivial
  | panic => cases h
  | hang => cases h

theorem Res.OkOrMal.bind {α β : Type} {x : Res α} {f : α → Res β} (hx : x.OkOrMal)
    (hf : ∀ a, x = .ok a → (f a).OkOrMal) : (x >>= f).OkOrMal := by
  cases x with
  | ok a => exact hf a rfl
  | err e => cases e <;> first | exact hx | cases hx
  | panic => cases hx
  | hang => cases hx

theorem Res.Safe.bind {α β : Type} {x : Res α} {f : α → Res β} (hx : x.Safe)
    (hf : ∀ a, x = .ok a → (f a).Safe) : (x >>= f).Safe := by
  cases x with
  | ok a => exact hf a rfl
  | err e => trivial
  | panic => cases hx
  | hang => cases hx

theorem Res.OkOrMal.cases {α : Type} {r : Res α} (h : r.OkOrMal) : (∃ a, r = .ok a) ∨ r = .err .malformed := by
  cases r with
  | ok a => exact .inl ⟨a, rfl⟩
  | err e =>
    cases e with
    | incomplete => cases h
    | malformed => exact .inr rfl
  | panic => cases h
  | hang => cases h

theorem inspectStatusResponse_okOrMal (v : Bytes) : (inspectStatusResponse v).OkOrMal := by
  unfold inspectStatusResponse
  split
  · trivial
  · split <;> trivial

theorem inspectQueryID_okOrMal (v : Bytes) : (inspectQueryID v).OkOrMal := by
  unfold inspectQueryID
  split
  · trivial
  · split <;> trivial

theorem inspectAmModFragment_okOrMal (p : Bytes) : (inspectAmModFragment p).OkOrMal := by
  unfold inspectAmModFragment
  simp only [consumeParam_eq, consumeParamFromRight_eq, Res.ok_bind]
  split
  · trivial
  · split
    · trivial
    · refine Res.OkOrMal.bind (inspectStatusResponse_okOrMal _) ?_
      intro ⟨order, version⟩ _
      split <;> (simp only [Res.pure_eq, Res.ok_bind]; repeat (first | trivial | split))

theorem inspectGS1Fragment_okOrMal (p : Bytes) : (inspectGS1Fragment p).OkOrMal := by
  unfold inspectGS1Fragment
  simp only [consumeParamFromRight_eq, Res.ok_bind]
  split
  · trivial
  · split
    · trivial
    · refine Res.OkOrMal.bind (inspectQueryID_okOrMal _) ?_
      intro ⟨order, version⟩ _
      trivial

/-- `inspectFragment` returns a fragment or the error class `malformed`; in particular it never panics -/
theorem inspectFragment_okOrMal (p : Bytes) : (inspectFragment p).OkOrMal := by
  unfold inspectFragment
  split
  · trivial
  · split
    · exact inspectAmModFragment_okOrMal p
    · exact inspectGS1Fragment_okOrMal p

/-! ## reassembly as a fold -/

/-- a datagram as `collectPayload`'s loop sees it: `none` = the loop returns `malformed` at it -/
def insp (raw : Bytes) : Option Fragment :=
  match inspectFragment raw with
  | .ok fr => if fr.order = -1 then none else some fr
  | _ => none

theorem collectLoop_eq (frs : List Bytes) (st : CState) :
    collectLoop frs st =
      if frs.all (fun r => (insp r).isSome) then .ok ((frs.filterMap insp).foldl CState.step st)
      else .err .malformed := by
  induction frs generalizing st with
  | nil => rfl
  | cons raw rest ih =>
    simp only [collectLoop, List.all_cons, List.filterMap_cons]
    rcases (inspectFragment_okOrMal raw).cases with ⟨fr, h⟩ | h
    · have hi : insp raw = if fr.order = -1 then none else some fr := by simp only [insp, h]
      simp only [hi, h, Res.ok_bind]
      by_cases ho : fr.order = -1
      · simp [ho]
      · simp [ho, ih]
    · have hi : insp raw = none := by simp only [insp, h]
      simp [hi, h]

/-! ## `parseParams` -/

theorem cfPure_rest_lt {p f rest : Bytes} (h : cfPure p = (f, some rest)) : rest.length < p.length := by
  unfold cfPure at h
  split at h
  · cases h
  · split at h
    · cases h; simp; omega
    · cases h

theorem parseFieldsLoop_ok (fuel : Nat) (u : Option Bytes) (h : ∀ b, u = some b → b.length < fuel) :
    ∃ fs, parseFieldsLoop fuel u = .ok fs := by
  induction fuel generalizing u with
  | zero =>
    cases u with
    | none => exact ⟨[], rfl⟩
    | some b => have := h b rfl; omega
  | succ n ih =>
    cases u with
    | none => exact ⟨[], rfl⟩
    | some b =>
      simp only [parseFieldsLoop, consumeField_eq, Res.ok_bind]
      rcases hc : cfPure b with ⟨f, rest⟩
      have hr : ∀ r, rest = some r → r.length < n := by
        intro r hr; subst hr
        have := cfPure_rest_lt hc
        have := h b rfl
        omega
      obtain ⟨fs, hfs⟩ := ih rest hr
      exact ⟨f :: fs, by simp [hfs]⟩

/-- `fields[0],fields[1]`, `fields[2],fields[3]`, …; an odd trailing field is dropped -/
def pairUp : List Bytes → List Param
  | a :: b :: t => ⟨a, b⟩ :: pairUp t
  | _ => []

theorem pairFieldsLoop_eq (fields : List Bytes) (fuel i : Nat) (hi : 1 ≤ i) (hf : fields.length ≤ i + 2 * fuel) :
    pairFieldsLoop fields fuel i = .ok (pairUp (fields.drop (i - 1))) := by
  induction fuel generalizing i with
  | zero =>
    have hl : (fields.drop (i - 1)).length ≤ 1 := by simp; omega
    match hd : fields.drop (i - 1), hl with
    | [], _ => rfl
    | [_], _ => rfl
    | _ :: _ :: _, hl => simp at hl
  | succ n ih =>
    simp only [pairFieldsLoop]
    split
    · rename_i hlt
      have h1 : i - 1 < fields.length := by omega
      have e1 : fields.drop (i - 1) = fields[i - 1] :: fields[i] :: fields.drop (i + 1) := by
        rw [List.drop_eq_getElem_cons h1]
        have : i - 1 + 1 = i := by omega
        rw [this, List.drop_eq_getElem_cons hlt]
      have := ih (i + 2) (by omega) (by omega)
      simp only [index, List.getElem?_eq_getElem h1, List.getElem?_eq_getElem hlt, Res.ok_bind, this, Res.pure_eq]
      rw [e1]
      simp [pairUp]
    · rename_i hge
      have hl : (fields.drop (i - 1)).length ≤ 1 := by simp; omega
      match hd : fields.drop (i - 1), hl with
      | [], _ => rfl
      | [_], _ => rfl
      | _ :: _ :: _, hl => simp at hl

theorem parseParams_ok (data : Bytes) : ∃ ps, parseParams data = .ok ps := by
  unfold parseParams
  obtain ⟨fs, hfs⟩ := parseFieldsLoop_ok (data.length + 1) (some data) (by intro b hb; cases hb; omega)
  rw [hfs]
  exact ⟨_, by simp only [Res.ok_bind]; exact pairFieldsLoop_eq fs fs.length 1 (by omega) (by omega)⟩

/-! ## `expandPayload` -/

theorem expandStep_okOrMal (st : EState) (p : Param) : (expandStep st p).OkOrMal := by
  unfold expandStep
  split
  · split
    · rename_i h
      have : 4 ≤ p.name.length := by omega
      simp only [sliceFrom, this, if_true, Res.ok_bind]
      trivial
    · trivial
  · cases hi : indexByte p.name usc with
    | none => trivial
    | some i =>
      have hlt := indexByte_lt hi
      simp only
      split
      · trivial
      · rename_i h
        have h1 : i + 1 ≤ p.name.length := by omega
        have h2 : i ≤ p.name.length := by omega
        simp only [sliceFrom, sliceTo, h1, h2, if_true, Res.ok_bind]
        split <;> trivial

theorem expandLoop_okOrMal (ps : List Param) (st : EState) : (expandLoop ps st).OkOrMal := by
  induction ps generalizing st with
  | nil => trivial
  | cons p ps ih => exact Res.OkOrMal.bind (expandStep_okOrMal st p) fun st' _ => ih st'

theorem expandPayload_okOrMal (payload : Bytes) (v : Ver) : (expandPayload payload v).OkOrMal := by
  unfold expandPayload
  obtain ⟨ps, hps⟩ := parseParams_ok payload
  rw [hps]
  simp only [Res.ok_bind]
  exact Res.OkOrMal.bind (expandLoop_okOrMal ps _) fun _ _ => trivial

end Swat4.GS1
