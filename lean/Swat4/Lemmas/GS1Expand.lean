import Swat4.Lemmas.GS1Parse
import Swat4.Lemmas.GS1Collect
import Swat4.Lemmas.GS1Decimal
import Swat4.Lemmas.GS1Assoc
/-! `expandPayload` on the parameter sequence of an encoded status. -/
namespace Swat4.GS1
open Swat4 Swat4.GS1Spec

/-! ## the loop -/

theorem expandLoop_append (a b : List Param) (st : EState) :
    expandLoop (a ++ b) st = expandLoop a st >>= expandLoop b := by
  induction a generalizing st with
  | nil => rfl
  | cons p t ih =>
    simp only [List.cons_append, expandLoop]
    cases expandStep st p with
    | ok st' => simp only [Res.ok_bind]; exact ih st'
    | err e => rfl
    | panic => rfl
    | hang => rfl

theorem pairUp_flatMap2_append (kvs : List (Bytes × Bytes)) (g : Bytes × Bytes → Bytes) (rest : List Bytes) :
    pairUp ((kvs.flatMap fun kv => [g kv, kv.2]) ++ rest) = (kvs.map fun kv => (⟨g kv, kv.2⟩ : Param)) ++ pairUp rest := by
  induction kvs with
  | nil => rfl
  | cons kv t ih => simp only [List.flatMap_cons, List.cons_append, List.nil_append, pairUp, ih, List.map_cons]

/-! ## one parameter -/

theorem hasPrefix_kObj_usc {n : Bytes} (h : hasPrefix n kObj = true) : usc ∈ n := by
  have : kObj <+: n := List.isPrefixOf_iff_prefix.mp h
  obtain ⟨t, rfl⟩ := this
  simp [kObj]

/-- a name without underscore is a server field -/
theorem expandStep_field (st : EState) (n v : Bytes) (h : usc ∉ n) :
    expandStep st ⟨n, v⟩ = .ok ⟨st.objectives, st.playersByID, insertKV n (latin1 v) st.fields⟩ := by
  have hp : hasPrefix n kObj = false := by
    cases hh : hasPrefix n kObj with
    | false => rfl
    | true => exact absurd (hasPrefix_kObj_usc hh) h
  simp only [expandStep, hp, Bool.false_eq_true, if_false, indexByte_eq_none h, Res.pure_eq]

/-- `obj_` + non-empty name is an objective -/
theorem expandStep_obj (st : EState) (n v : Bytes) (h : n ≠ []) :
    expandStep st ⟨kObj ++ n, v⟩ = .ok ⟨st.objectives ++ [(n, v)], st.playersByID, st.fields⟩ := by
  have hp : hasPrefix (kObj ++ n) kObj = true := List.isPrefixOf_iff_prefix.mpr (List.prefix_append _ _)
  have hl : (kObj ++ n).length > 4 := by
    have : n.length > 0 := List.length_pos_iff.mpr h
    simp [kObj]; omega
  have hd : sliceFrom (kObj ++ n) 4 = .ok n := by
    simp [sliceFrom, kObj]
  simp only [expandStep, hp, if_true, hl, hd, Res.ok_bind, Res.pure_eq]

theorem sliceFrom_append (a b : Bytes) : sliceFrom (a ++ b) a.length = .ok b := by
  unfold sliceFrom; rw [if_pos (by simp)]; simp

theorem sliceTo_append (a b : Bytes) : sliceTo (a ++ b) a.length = .ok a := by
  unfold sliceTo; rw [if_pos (by simp)]; simp

theorem not_hasPrefix_playerKey (k : Bytes) (i : Nat) (hk : usc ∉ k) (hobj : k ≠ kObjBare) :
    hasPrefix (playerKey k i) kObj = false := by
  unfold playerKey hasPrefix
  rcases k with _ | ⟨a, _ | ⟨b, _ | ⟨c, _ | ⟨d, t⟩⟩⟩⟩
  · simp only [kObj, List.nil_append, List.isPrefixOf]
    have : ((0x6f : UInt8) == usc) = false := by decide
    simp [this]
  · simp only [kObj, List.cons_append, List.nil_append, List.isPrefixOf]
    have : ((0x62 : UInt8) == usc) = false := by decide
    simp [this]
  · simp only [kObj, List.cons_append, List.nil_append, List.isPrefixOf]
    have : ((0x6a : UInt8) == usc) = false := by decide
    simp [this]
  · simp only [kObj, List.cons_append, List.nil_append, List.isPrefixOf, Bool.and_eq_false_imp]
    simp only [kObjBare, ne_eq, List.cons.injEq, and_true, not_and] at hobj
    cases h1 : (0x6f : UInt8) == a <;> cases h2 : (0x62 : UInt8) == b <;> cases h3 : (0x6a : UInt8) == c <;> simp
    simp only [beq_iff_eq] at h1 h2 h3
    exact hobj h1.symm h2.symm h3.symm
  · simp only [List.mem_cons, not_or] at hk
    simp only [kObj, List.cons_append, List.isPrefixOf]
    have : ((0x5f : UInt8) == d) = false := by
      simp only [beq_eq_false_iff_ne, ne_eq]; exact fun e => hk.2.2.2.1 e
    simp [this]

/-- `key_i` is key `key` of player `i` -/
theorem expandStep_player (st : EState) (k v : Bytes) (i : Nat) (hk : usc ∉ k) (hobj : k ≠ kObjBare)
    (hi : i < 9223372036854775808) :
    expandStep st ⟨playerKey k i, v⟩ =
      .ok ⟨st.objectives, insertKV (i : Int) (insertKV k (latin1 v) ((lookupKV (i : Int) st.playersByID).getD [])) st.playersByID, st.fields⟩ := by
  have hp := not_hasPrefix_playerKey k i hk hobj
  have hidx : indexByte (playerKey k i) usc = some k.length := indexByte_append hk
  have hne : decimal i ≠ [] := (decimal_spec i).2.2
  have hlen : (playerKey k i).length = k.length + 1 + (decimal i).length := by simp [playerKey]; omega
  have hpos : (decimal i).length > 0 := List.length_pos_iff.mpr hne
  have hle : ¬ (playerKey k i).length ≤ k.length + 1 := by omega
  have h1 : sliceFrom (playerKey k i) (k.length + 1) = .ok (decimal i) := by
    rw [show playerKey k i = (k ++ [usc]) ++ decimal i by simp [playerKey],
      show k.length + 1 = (k ++ [usc]).length by simp]
    exact sliceFrom_append _ _
  have h2 : sliceTo (playerKey k i) k.length = .ok k := by
    exact sliceTo_append _ _
  simp only [expandStep, hp, Bool.false_eq_true, if_false, hidx, hle, h1, h2, Res.ok_bind, atoi_decimal i hi, Res.pure_eq]

/-! ## pairs of a status: one step, the loop -/

/-- the parameter `parseParams` yields for a pair -/
def itemParam (it : Item) : Param := ⟨it.name, it.value⟩

/-- what `expandStep` needs of a pair to classify it as intended -/
def ExpOK : Item → Prop
  | .field k _ => usc ∉ k
  | .player id k _ => usc ∉ k ∧ k ≠ kObjBare ∧ id < 9223372036854775808
  | .objective n _ => n ≠ []

def insField (m : List (Bytes × Bytes)) (kv : Bytes × Bytes) : List (Bytes × Bytes) := insertKV kv.1 (latin1 kv.2) m

theorem mkMap_eq (kvs : List (Bytes × Bytes)) : mkMap kvs = kvs.foldl insField [] := rfl

/-- the effect of one pair on `playersByID` -/
def stepP (P : List (Int × List (Bytes × Bytes))) : Item → List (Int × List (Bytes × Bytes))
  | .player id k v => insertKV (id : Int) (insField ((lookupKV (id : Int) P).getD []) (k, v)) P
  | _ => P

/-- the effect of one pair on the locals of `expandPayload` -/
def stepItem (st : EState) : Item → EState
  | .field k v => ⟨st.objectives, st.playersByID, insField st.fields (k, v)⟩
  | .player id k v => ⟨st.objectives, stepP st.playersByID (.player id k v), st.fields⟩
  | .objective n v => ⟨st.objectives ++ [(n, v)], st.playersByID, st.fields⟩

theorem expandStep_item (st : EState) (it : Item) (h : ExpOK it) : expandStep st (itemParam it) = .ok (stepItem st it) := by
  cases it with
  | field k v => exact expandStep_field st k v h
  | player id k v => exact expandStep_player st k v id h.1 h.2.1 h.2.2
  | objective n v => exact expandStep_obj st n v h

theorem expandLoop_items (w : List Item) (h : ∀ it ∈ w, ExpOK it) (st : EState) :
    expandLoop (w.map itemParam) st = .ok (w.foldl stepItem st) := by
  induction w generalizing st with
  | nil => rfl
  | cons it t ih =>
    simp only [List.map_cons, expandLoop, expandStep_item st it (h it (by simp)), Res.ok_bind, List.foldl_cons]
    exact ih (fun it' h' => h it' (List.mem_cons_of_mem _ h')) _

theorem pairUp_flatItems (w : List Item) : pairUp (flatItems w) = w.map itemParam := by
  induction w with
  | nil => rfl
  | cons it t ih =>
    simp only [flatItems, List.flatMap_cons, List.cons_append, List.nil_append, pairUp, List.map_cons] at ih ⊢
    rw [ih]; rfl

/-- the three locals after the loop, each in terms of the pairs of its own kind -/
theorem foldl_stepItem (w : List Item) (st : EState) :
    w.foldl stepItem st =
      ⟨st.objectives ++ objectivesOf w, w.foldl stepP st.playersByID, (fieldsOf w).foldl insField st.fields⟩ := by
  induction w generalizing st with
  | nil => simp [objectivesOf, fieldsOf]
  | cons it t ih =>
    rw [List.foldl_cons, ih]
    cases it <;> simp [stepItem, stepP, objectivesOf, fieldsOf]

/-! ## `playersByID` after the loop -/

/-- the pairs of the player with (integer) index `k`, in wire order -/
def pairsOfI (k : Int) (w : List Item) : List (Bytes × Bytes) :=
  w.filterMap fun
    | .player i kk v => if (i : Int) = k then some (kk, v) else none
    | _ => none

theorem pairsOfI_nat (id : Nat) (w : List Item) : pairsOfI (id : Int) w = pairsOf id w := by
  unfold pairsOfI pairsOf
  congr 1
  funext it
  cases it with
  | player i kk v => simp only [Int.natCast_inj]
  | _ => rfl

theorem pairsOfI_neg (k : Int) (hk : k < 0) (w : List Item) : pairsOfI k w = [] := by
  unfold pairsOfI
  rw [List.filterMap_eq_nil_iff]
  intro it _
  cases it with
  | player i kk v => simp only [ite_eq_right_iff, reduceCtorEq, imp_false]; omega
  | _ => rfl

/-- every index maps to the map built from its pairs, in wire order -/
theorem lookup_foldl_stepP (w : List Item) (P0 : List (Int × List (Bytes × Bytes))) (k : Int) :
    lookupKV k (w.foldl stepP P0) =
      if pairsOfI k w = [] then lookupKV k P0
      else some ((pairsOfI k w).foldl insField ((lookupKV k P0).getD [])) := by
  induction w generalizing P0 with
  | nil => simp [pairsOfI]
  | cons it t ih =>
    rw [List.foldl_cons, ih]
    cases it with
    | field a b => simp [stepP, pairsOfI]
    | objective a b => simp [stepP, pairsOfI]
    | player id kk v =>
      by_cases hk : (id : Int) = k
      · have e : pairsOfI k (Item.player id kk v :: t) = (kk, v) :: pairsOfI k t := by
          simp [pairsOfI, hk]
        rw [e]
        simp only [stepP, lookupKV_insertKV_g, hk, if_true, Option.getD_some, List.foldl_cons, reduceCtorEq, if_false]
        split
        · rename_i h0; rw [h0]; rfl
        · rfl
      · have e : pairsOfI k (Item.player id kk v :: t) = pairsOfI k t := by
          simp [pairsOfI, hk]
        have hk' : ¬ k = (id : Int) := fun h => hk h.symm
        rw [e]
        simp only [stepP, lookupKV_insertKV_g, hk', if_false]

theorem foldl_stepP_sorted (w : List Item) (P0 : List (Int × List (Bytes × Bytes)))
    (h : (keysG P0).Pairwise (· < ·)) : (keysG (w.foldl stepP P0)).Pairwise (· < ·) := by
  induction w generalizing P0 with
  | nil => exact h
  | cons it t ih =>
    rw [List.foldl_cons]
    apply ih
    cases it with
    | player id kk v => exact insertKV_sorted_g strictTotal_int _ _ _ h
    | _ => exact h

/-! ## `expandPayload` over a rendered pair sequence -/

theorem playerKey_noBsl {k : Bytes} (j : Nat) (h : bsl ∉ k) : bsl ∉ playerKey k j := by
  simp only [playerKey, List.mem_append, List.mem_cons, not_or]
  exact ⟨h, by decide, decimal_noBsl j⟩

/-- `expandPayload` over the rendered pair sequence `w` (backslash-free, every pair classifiable) -/
theorem expandPayload_items (w : List Item) (hok : ∀ it ∈ w, ExpOK it) (hbsl : ∀ g ∈ flatItems w, bsl ∉ g) (v : Ver) :
    expandPayload (body (flatItems w)) v =
      .ok ⟨mkMap (fieldsOf w), (w.foldl stepP []).map (·.2), objectivesOf w, v⟩ := by
  unfold expandPayload
  rw [parseParams_body _ hbsl]
  simp only [Res.ok_bind, pairUp_flatItems, expandLoop_items w hok, foldl_stepItem, EState.init, List.nil_append,
    Res.pure_eq, mkMap_eq]

end Swat4.GS1
