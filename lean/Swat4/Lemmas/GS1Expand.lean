import Swat4.Lemmas.GS1Parse
import Swat4.Lemmas.GS1Collect
import Swat4.Lemmas.GS1Decimal
/-! `expandPayload` on the parameter sequence of an encoded status. -/
namespace Swat4.GS1
open Swat4 Swat4.GS1Spec

/-! ## the loop -/

theorem expandLoop_append (a b : List Param) (st : EState) :
    expandLoop (a ++ b) st = expandLoop a st >>= expandLoop b := by
  induction a generalizing st with
  | nil => rfl
  | cons p t ih =>
    simp only [List.cons_append, expandLoop]
    cases expandStep st p with
    | ok st' => simp only [Res.ok_bind]; exact ih st'
    | err e => rfl
    | panic => rfl
    | hang => rfl

theorem pairUp_flatMap2_append (kvs : List (Bytes × Bytes)) (g : Bytes × Bytes → Bytes) (rest : List Bytes) :
    pairUp ((kvs.flatMap fun kv => [g kv, kv.2]) ++ rest) = (kvs.map fun kv => (⟨g kv, kv.2⟩ : Param)) ++ pairUp rest := by
  induction kvs with
  | nil => rfl
  | cons kv t ih => simp only [List.flatMap_cons, List.cons_append, List.nil_append, pairUp, ih, List.map_cons]

/-! ## one parameter -/

theorem hasPrefix_kObj_usc {n : Bytes} (h : hasPrefix n kObj = true) : usc ∈ n := by
  have : kObj <+: n := List.isPrefixOf_iff_prefix.mp h
  obtain ⟨t, rfl⟩ := this
  simp [kObj]

/-- a name without underscore is a server field -/
theorem expandStep_field (st : EState) (n v : Bytes) (h : usc ∉ n) :
    expandStep st ⟨n, v⟩ = .ok ⟨st.objectives, st.playersByID, insertKV n (latin1 v) st.fields⟩ := by
  have hp : hasPrefix n kObj = false := by
    cases hh : hasPrefix n kObj with
    | false => rfl
    | true => exact absurd (hasPrefix_kObj_usc hh) h
  simp only [expandStep, hp, Bool.false_eq_true, if_false, indexByte_eq_none h, Res.pure_eq]

/-- `obj_` + non-empty name is an objective -/
theorem expandStep_obj (st : EState) (n v : Bytes) (h : n ≠ []) :
    expandStep st ⟨kObj ++ n, v⟩ = .ok ⟨st.objectives ++ [(n, v)], st.playersByID, st.fields⟩ := by
  have hp : hasPrefix (kObj ++ n) kObj = true := List.isPrefixOf_iff_prefix.mpr (List.prefix_append _ _)
  have hl : (kObj ++ n).length > 4 := by
    have : n.length > 0 := List.length_pos_iff.mpr h
    simp [kObj]; omega
  have hd : sliceFrom (kObj ++ n) 4 = .ok n := by
    simp [sliceFrom, kObj]
  simp only [expandStep, hp, if_true, hl, hd, Res.ok_bind, Res.pure_eq]

theorem sliceFrom_append (a b : Bytes) : sliceFrom (a ++ b) a.length = .ok b := by
  unfold sliceFrom; rw [if_pos (by simp)]; simp

theorem sliceTo_append (a b : Bytes) : sliceTo (a ++ b) a.length = .ok a := by
  unfold sliceTo; rw [if_pos (by simp)]; simp

theorem not_hasPrefix_playerKey (k : Bytes) (i : Nat) (hk : usc ∉ k) (hobj : k ≠ kObjBare) :
    hasPrefix (playerKey k i) kObj = false := by
  unfold playerKey hasPrefix
  rcases k with _ | ⟨a, _ | ⟨b, _ | ⟨c, _ | ⟨d, t⟩⟩⟩⟩
  · simp only [kObj, List.nil_append, List.isPrefixOf]
    have : ((0x6f : UInt8) == usc) = false := by decide
    simp [this]
  · simp only [kObj, List.cons_append, List.nil_append, List.isPrefixOf]
    have : ((0x62 : UInt8) == usc) = false := by decide
    simp [this]
  · simp only [kObj, List.cons_append, List.nil_append, List.isPrefixOf]
    have : ((0x6a : UInt8) == usc) = false := by decide
    simp [this]
  · simp only [kObj, List.cons_append, List.nil_append, List.isPrefixOf, Bool.and_eq_false_imp]
    simp only [kObjBare, ne_eq, List.cons.injEq, and_true, not_and] at hobj
    cases h1 : (0x6f : UInt8) == a <;> cases h2 : (0x62 : UInt8) == b <;> cases h3 : (0x6a : UInt8) == c <;> simp
    simp only [beq_iff_eq] at h1 h2 h3
    exact hobj h1.symm h2.symm h3.symm
  · simp only [List.mem_cons, not_or] at hk
    simp only [kObj, List.cons_append, List.isPrefixOf]
    have : ((0x5f : UInt8) == d) = false := by
      simp only [beq_eq_false_iff_ne, ne_eq]; exact fun e => hk.2.2.2.1 e
    simp [this]

/-- `key_i` is key `key` of player `i` -/
theorem expandStep_player (st : EState) (k v : Bytes) (i : Nat) (hk : usc ∉ k) (hobj : k ≠ kObjBare)
    (hi : i < 9223372036854775808) :
    expandStep st ⟨playerKey k i, v⟩ =
      .ok ⟨st.objectives, insertKV (i : Int) (insertKV k (latin1 v) ((lookupKV (i : Int) st.playersByID).getD [])) st.playersByID, st.fields⟩ := by
  have hp := not_hasPrefix_playerKey k i hk hobj
  have hidx : indexByte (playerKey k i) usc = some k.length := indexByte_append hk
  have hne : decimal i ≠ [] := (decimal_spec i).2.2
  have hlen : (playerKey k i).length = k.length + 1 + (decimal i).length := by simp [playerKey]; omega
  have hpos : (decimal i).length > 0 := List.length_pos_iff.mpr hne
  have hle : ¬ (playerKey k i).length ≤ k.length + 1 := by omega
  have h1 : sliceFrom (playerKey k i) (k.length + 1) = .ok (decimal i) := by
    rw [show playerKey k i = (k ++ [usc]) ++ decimal i by simp [playerKey],
      show k.length + 1 = (k ++ [usc]).length by simp]
    exact sliceFrom_append _ _
  have h2 : sliceTo (playerKey k i) k.length = .ok k := by
    exact sliceTo_append _ _
  simp only [expandStep, hp, Bool.false_eq_true, if_false, hidx, hle, h1, h2, Res.ok_bind, atoi_decimal i hi, Res.pure_eq]

/-! ## appending at the end of an id-sorted list -/

theorem insertKV_append_last {α : Type} (P : List (Int × α)) (i : Int) (x : α) (h : ∀ k ∈ keysOf P, k < i) :
    insertKV i x P = P ++ [(i, x)] := by
  induction P with
  | nil => rfl
  | cons hd t ih =>
    obtain ⟨k, v⟩ := hd
    have hk : k < i := h k (by simp [keysOf])
    have := ih (fun k' hk' => h k' (by simp only [keysOf, List.map_cons, List.mem_cons] at hk' ⊢; exact .inr hk'))
    simp only [insertKV, List.cons_append]
    rw [if_neg (by omega), if_neg (by omega), this]

theorem insertKV_replace_last {α : Type} (P : List (Int × α)) (i : Int) (x y : α) (h : ∀ k ∈ keysOf P, k < i) :
    insertKV i x (P ++ [(i, y)]) = P ++ [(i, x)] := by
  induction P with
  | nil => simp [insertKV]
  | cons hd t ih =>
    obtain ⟨k, v⟩ := hd
    have hk : k < i := h k (by simp [keysOf])
    have := ih (fun k' hk' => h k' (by simp only [keysOf, List.map_cons, List.mem_cons] at hk' ⊢; exact .inr hk'))
    simp only [insertKV, List.cons_append]
    rw [if_neg (by omega), if_neg (by omega), this]

theorem lookupKV_none_of_lt {α : Type} (P : List (Int × α)) (i : Int) (h : ∀ k ∈ keysOf P, k < i) :
    lookupKV i P = none := by
  induction P with
  | nil => rfl
  | cons hd t ih =>
    obtain ⟨k, v⟩ := hd
    have hk : k < i := h k (by simp [keysOf])
    have := ih (fun k' hk' => h k' (by simp only [keysOf, List.map_cons, List.mem_cons] at hk' ⊢; exact .inr hk'))
    simp only [lookupKV]
    rw [if_neg (by omega), this]

theorem lookupKV_last {α : Type} (P : List (Int × α)) (i : Int) (y : α) (h : ∀ k ∈ keysOf P, k < i) :
    lookupKV i (P ++ [(i, y)]) = some y := by
  induction P with
  | nil => simp [lookupKV]
  | cons hd t ih =>
    obtain ⟨k, v⟩ := hd
    have hk : k < i := h k (by simp [keysOf])
    have := ih (fun k' hk' => h k' (by simp only [keysOf, List.map_cons, List.mem_cons] at hk' ⊢; exact .inr hk'))
    simp only [lookupKV, List.cons_append]
    rw [if_neg (by omega), this]

/-! ## runs of parameters -/

def insField (m : List (Bytes × Bytes)) (kv : Bytes × Bytes) : List (Bytes × Bytes) := insertKV kv.1 (latin1 kv.2) m

theorem mkMap_eq (kvs : List (Bytes × Bytes)) : mkMap kvs = kvs.foldl insField [] := rfl

theorem expandLoop_fields (kvs : List (Bytes × Bytes)) (h : ∀ kv ∈ kvs, usc ∉ kv.1) (o : List (Bytes × Bytes))
    (P : List (Int × List (Bytes × Bytes))) (f : List (Bytes × Bytes)) :
    expandLoop (kvs.map fun kv => (⟨kv.1, kv.2⟩ : Param)) ⟨o, P, f⟩ = .ok ⟨o, P, kvs.foldl insField f⟩ := by
  induction kvs generalizing f with
  | nil => rfl
  | cons kv t ih =>
    simp only [List.map_cons, expandLoop, expandStep_field _ _ _ (h kv (by simp)), Res.ok_bind, List.foldl_cons]
    exact ih (fun kv' hkv' => h kv' (List.mem_cons_of_mem _ hkv')) _

theorem expandLoop_objs (kvs : List (Bytes × Bytes)) (h : ∀ kv ∈ kvs, kv.1 ≠ []) (o : List (Bytes × Bytes))
    (P : List (Int × List (Bytes × Bytes))) (f : List (Bytes × Bytes)) :
    expandLoop (kvs.map fun kv => (⟨kObj ++ kv.1, kv.2⟩ : Param)) ⟨o, P, f⟩ = .ok ⟨o ++ kvs, P, f⟩ := by
  induction kvs generalizing o with
  | nil => simp [expandLoop]
  | cons kv t ih =>
    simp only [List.map_cons, expandLoop, expandStep_obj _ _ _ (h kv (by simp)), Res.ok_bind]
    rw [ih (fun kv' hkv' => h kv' (List.mem_cons_of_mem _ hkv'))]
    simp

/-- the remaining keys of a player whose entry already exists (it is the last one) -/
theorem expandLoop_player_rest (kvs : List (Bytes × Bytes)) (i : Nat) (hi : i < 9223372036854775808)
    (h : ∀ kv ∈ kvs, usc ∉ kv.1 ∧ kv.1 ≠ kObjBare) (o : List (Bytes × Bytes))
    (P : List (Int × List (Bytes × Bytes))) (hP : ∀ k ∈ keysOf P, k < (i : Int)) (m f : List (Bytes × Bytes)) :
    expandLoop (kvs.map fun kv => (⟨playerKey kv.1 i, kv.2⟩ : Param)) ⟨o, P ++ [((i : Int), m)], f⟩ =
      .ok ⟨o, P ++ [((i : Int), kvs.foldl insField m)], f⟩ := by
  induction kvs generalizing m with
  | nil => rfl
  | cons kv t ih =>
    have hkv := h kv (by simp)
    simp only [List.map_cons, expandLoop, expandStep_player _ _ _ _ hkv.1 hkv.2 hi, Res.ok_bind, List.foldl_cons,
      lookupKV_last P _ _ hP, Option.getD_some, insertKV_replace_last P _ _ _ hP]
    exact ih (fun kv' hkv' => h kv' (List.mem_cons_of_mem _ hkv')) _

/-- all keys of one (non-empty) player: a new entry at the end -/
theorem expandLoop_player (kvs : List (Bytes × Bytes)) (hne : kvs ≠ []) (i : Nat) (hi : i < 9223372036854775808)
    (h : ∀ kv ∈ kvs, usc ∉ kv.1 ∧ kv.1 ≠ kObjBare) (o : List (Bytes × Bytes))
    (P : List (Int × List (Bytes × Bytes))) (hP : ∀ k ∈ keysOf P, k < (i : Int)) (f : List (Bytes × Bytes)) :
    expandLoop (kvs.map fun kv => (⟨playerKey kv.1 i, kv.2⟩ : Param)) ⟨o, P, f⟩ =
      .ok ⟨o, P ++ [((i : Int), mkMap kvs)], f⟩ := by
  cases kvs with
  | nil => exact absurd rfl hne
  | cons kv t =>
    have hkv := h kv (by simp)
    simp only [List.map_cons, expandLoop, expandStep_player _ _ _ _ hkv.1 hkv.2 hi, Res.ok_bind,
      lookupKV_none_of_lt P _ hP, Option.getD_none, insertKV_append_last P _ _ hP]
    rw [expandLoop_player_rest t i hi (fun kv' hkv' => h kv' (List.mem_cons_of_mem _ hkv')) o P hP]
    rfl

/-- parameters of players `i, i+1, …` -/
def playersParams : Nat → List (List (Bytes × Bytes)) → List Param
  | _, [] => []
  | i, p :: ps => (p.map fun kv => (⟨playerKey kv.1 i, kv.2⟩ : Param)) ++ playersParams (i + 1) ps

theorem expandLoop_players (ps : List (List (Bytes × Bytes))) (i : Nat) (hi : i + ps.length ≤ 9223372036854775808)
    (h : ∀ p ∈ ps, p ≠ [] ∧ ∀ kv ∈ p, usc ∉ kv.1 ∧ kv.1 ≠ kObjBare) (o : List (Bytes × Bytes))
    (P : List (Int × List (Bytes × Bytes))) (hP : ∀ k ∈ keysOf P, k < (i : Int)) (f : List (Bytes × Bytes)) :
    ∃ P', expandLoop (playersParams i ps) ⟨o, P, f⟩ = .ok ⟨o, P', f⟩ ∧ P'.map (·.2) = P.map (·.2) ++ ps.map mkMap := by
  induction ps generalizing i P with
  | nil => exact ⟨P, rfl, by simp⟩
  | cons p t ih =>
    have hp := h p (by simp)
    simp only [List.length_cons] at hi
    simp only [playersParams, expandLoop_append, expandLoop_player p hp.1 i (by omega) hp.2 o P hP f, Res.ok_bind]
    have hP' : ∀ k ∈ keysOf (P ++ [((i : Int), mkMap p)]), k < ((i + 1 : Nat) : Int) := by
      intro k hk
      simp only [keysOf, List.map_append, List.map_cons, List.map_nil, List.mem_append, List.mem_singleton] at hk
      rcases hk with hk | rfl
      · have := hP k (by simpa [keysOf] using hk); omega
      · omega
    obtain ⟨P', h1, h2⟩ := ih (i + 1) (by omega) (fun q hq => h q (List.mem_cons_of_mem _ hq)) _ hP'
    exact ⟨P', h1, by rw [h2]; simp⟩

theorem pairUp_playersFlat_append (ps : List (List (Bytes × Bytes))) (i : Nat) (rest : List Bytes) :
    pairUp (playersFlat i ps ++ rest) = playersParams i ps ++ pairUp rest := by
  induction ps generalizing i with
  | nil => rfl
  | cons p t ih =>
    simp only [playersFlat, playerFlat, playersParams, List.append_assoc]
    rw [pairUp_flatMap2_append p (fun kv => playerKey kv.1 i), ih]

/-! ## the whole parameter sequence of a status -/

/-- `expandPayload`'s loop over the parameters of status `s` followed by framing fields `fr`
(the dialect's own `final`/`queryid`) -/
theorem expandLoop_flat (s : Status) (wf : WfStatus s) (hn : s.players.length ≤ 9223372036854775808)
    (fr : List (Bytes × Bytes)) (hfr : ∀ kv ∈ fr, usc ∉ kv.1) :
    ∃ P', expandLoop (pairUp (flat s ++ fr.flatMap fun kv => [kv.1, kv.2])) EState.init =
        .ok ⟨s.objectives, P', mkMap (s.fields ++ fr)⟩ ∧ P'.map (·.2) = s.players.map mkMap := by
  have e : pairUp (flat s ++ fr.flatMap fun kv => [kv.1, kv.2]) =
      (s.fields.map fun kv => (⟨kv.1, kv.2⟩ : Param)) ++ (playersParams 0 s.players ++
        ((s.objectives.map fun kv => (⟨kObj ++ kv.1, kv.2⟩ : Param)) ++ fr.map fun kv => (⟨kv.1, kv.2⟩ : Param))) := by
    simp only [flat, List.append_assoc]
    rw [pairUp_flatMap2_append s.fields (fun kv => kv.1), pairUp_playersFlat_append,
      pairUp_flatMap2_append s.objectives (fun kv => kObj ++ kv.1)]
    rw [show (fr.flatMap fun kv => [kv.1, kv.2]) = (fr.flatMap fun kv => [kv.1, kv.2]) ++ [] by simp,
      pairUp_flatMap2_append fr (fun kv => kv.1)]
    simp [pairUp]
  rw [e, expandLoop_append]
  simp only [EState.init]
  rw [expandLoop_fields s.fields (fun kv hkv => (wf.field_names kv hkv).2.1)]
  simp only [Res.ok_bind]
  rw [expandLoop_append]
  obtain ⟨P', h1, h2⟩ := expandLoop_players s.players 0 (by omega)
    (fun p hp => ⟨(wf.player_keys p hp).1, fun kv hkv => (wf.player_keys p hp).2 kv hkv⟩) []
    [] (by simp [keysOf]) (s.fields.foldl insField [])
  rw [h1]
  simp only [Res.ok_bind]
  rw [expandLoop_append, expandLoop_objs s.objectives wf.objective_names]
  simp only [Res.ok_bind, List.nil_append]
  rw [expandLoop_fields fr hfr]
  refine ⟨P', ?_, by simpa using h2⟩
  simp only [mkMap_eq, List.foldl_append]

/-! ## backslash-freedom of the encoded field sequence -/

theorem mem_playersFlat {g : Bytes} {i : Nat} {ps : List (List (Bytes × Bytes))} (h : g ∈ playersFlat i ps) :
    ∃ p ∈ ps, ∃ kv ∈ p, (∃ j, g = playerKey kv.1 j) ∨ g = kv.2 := by
  induction ps generalizing i with
  | nil => cases h
  | cons p t ih =>
    simp only [playersFlat, List.mem_append] at h
    rcases h with h | h
    · simp only [playerFlat, List.mem_flatMap, List.mem_cons, List.not_mem_nil, or_false] at h
      obtain ⟨kv, hkv, h⟩ := h
      refine ⟨p, by simp, kv, hkv, ?_⟩
      rcases h with h | h
      · exact .inl ⟨i, h⟩
      · exact .inr h
    · obtain ⟨q, hq, kv, hkv, h⟩ := ih h
      exact ⟨q, List.mem_cons_of_mem _ hq, kv, hkv, h⟩

theorem playerKey_noBsl {k : Bytes} (j : Nat) (h : bsl ∉ k) : bsl ∉ playerKey k j := by
  simp only [playerKey, List.mem_append, List.mem_cons, not_or]
  exact ⟨h, by decide, decimal_noBsl j⟩

/-- every element of the flat sequence is a wire name or a value of the status -/
theorem mem_flat {g : Bytes} {s : Status} (h : g ∈ flat s) :
    (∃ kv ∈ s.fields, g = kv.1 ∨ g = kv.2) ∨
    (∃ p ∈ s.players, ∃ kv ∈ p, (∃ j, g = playerKey kv.1 j) ∨ g = kv.2) ∨
    (∃ kv ∈ s.objectives, g = kObj ++ kv.1 ∨ g = kv.2) := by
  simp only [flat, List.mem_append, List.mem_flatMap, List.mem_cons, List.not_mem_nil, or_false] at h
  rcases h with (⟨kv, hkv, h⟩ | h) | ⟨kv, hkv, h⟩
  · exact .inl ⟨kv, hkv, h⟩
  · exact .inr (.inl (mem_playersFlat h))
  · exact .inr (.inr ⟨kv, hkv, h⟩)

theorem flat_noBsl (s : Status) (wf : WfStatus s) : ∀ g ∈ flat s, bsl ∉ g := by
  intro g hg
  rcases mem_flat hg with ⟨kv, hkv, h⟩ | ⟨p, hp, kv, hkv, h⟩ | ⟨kv, hkv, h⟩
  · have := wf.fields_bsl kv hkv
    rcases h with rfl | rfl
    · exact this.1
    · exact this.2
  · have := wf.players_bsl p hp kv hkv
    rcases h with ⟨j, rfl⟩ | rfl
    · exact playerKey_noBsl j this.1
    · exact this.2
  · have := wf.objectives_bsl kv hkv
    rcases h with rfl | rfl
    · simp only [List.mem_append, not_or]; exact ⟨by decide, this.1⟩
    · exact this.2

/-- `expandPayload` over the rendered field sequence of a status plus framing fields -/
theorem expandPayload_flat (s : Status) (wf : WfStatus s) (hn : s.players.length ≤ 9223372036854775808)
    (fr : List (Bytes × Bytes)) (hfr : ∀ kv ∈ fr, usc ∉ kv.1 ∧ bsl ∉ kv.1 ∧ bsl ∉ kv.2) (v : Ver) :
    expandPayload (body (flat s ++ fr.flatMap fun kv => [kv.1, kv.2])) v =
      .ok ⟨mkMap (s.fields ++ fr), s.players.map mkMap, s.objectives, v⟩ := by
  unfold expandPayload
  rw [parseParams_body]
  · obtain ⟨P', h1, h2⟩ := expandLoop_flat s wf hn fr (fun kv hkv => (hfr kv hkv).1)
    simp only [Res.ok_bind, h1, Res.pure_eq, h2]
  · intro g hg
    rcases List.mem_append.mp hg with hg | hg
    · exact flat_noBsl s wf g hg
    · simp only [List.mem_flatMap, List.mem_cons, List.not_mem_nil, or_false] at hg
      obtain ⟨kv, hkv, h⟩ := hg
      rcases h with rfl | rfl
      · exact (hfr kv hkv).2.1
      · exact (hfr kv hkv).2.2

end Swat4.GS1
