import Swat4.Lemmas.VerMono
import Swat4.Lemmas.UseCaseKeyPres
import Swat4.Lemmas.TimedInv
import Swat4.Model.Heartbeat6
import Swat4.Model.UseCases.ProberRun
/-!
# The two programs the hand-written use-case lists left out (third outside review, item 6)

`C13.usecases_callbacks_stable`, `C09.usecases_resolvers_key_preserving` and `C14.usecases_walk_on_moving_clock` walk over the
use-case programs one by one.  Two programs that the drivers run as clients of the system model were not in those lists:

* `Heartbeat6.renewIP` (`Model/Heartbeat6.lean`) — the keepalive use case with the request's `net.IP` as it is (an
  `Update` with the callback `fun s => some { s with refreshedAt := some now }`), run by the `dg6` op;
* `UC.proberRun` / `UC.proberRunWith` (`Model/UseCases/ProberRun.lean`) — the prober runner: `PopMany(n)`, then
  `probeserver.Execute` (`UC.probe`) for every popped probe, the program of a `pop|<n>|<outcome>` client.

This file walks those two: `VerMono.ProgStable` (stable callbacks, no `Remove`), hence `KeyPres.ProgAddrPreserving` /
`ProgKeyPreserving`, and `TimedInv.TPres` (the walk on a moving clock).
-/
namespace Swat4.UseCaseMore
open Swat4 Swat4.UC Std Swat4.VerMono

/-! ## `VerMono.ProgStable` -/

theorem renewIP_stable (instanceId : Nat) (reqIp : Bytes) : ProgStable (Heartbeat6.renewIP instanceId reqIp) := by
  unfold Heartbeat6.renewIP
  refine AllCalls.call _ _ ⟨trivial, trivial⟩ fun b => ?_
  cases b with
  | error e => exact AllCalls.pure _
  | ok inst =>
    simp only
    split
    · exact AllCalls.pure _
    · refine AllCalls.call _ _ ⟨trivial, trivial⟩ fun b => ?_
      cases b with
      | error e => exact AllCalls.pure _
      | ok svr =>
        refine AllCalls.call _ _ ⟨trivial, trivial⟩ fun t => ?_
        refine AllCalls.call _ _ ⟨?_, trivial⟩ fun b => ?_
        · intro s r h; cases h; exact ⟨rfl, rfl⟩
        · cases b <;> exact AllCalls.pure _

theorem probeEach_stable (oc : Probe → Option ProbeResult) : ∀ ps : List Probe, ProgStable (probeEach oc ps)
  | [] => AllCalls.pure _
  | p :: rest => by
    unfold probeEach
    exact AllCalls.bind (probe_stable p (oc p)) fun _ => AllCalls.bind (probeEach_stable oc rest) fun _ => AllCalls.pure _

theorem proberRunWith_stable (n : Int) (oc : Probe → Option ProbeResult) (order : List Probe → List Probe) :
    ProgStable (proberRunWith n oc order) := by
  unfold proberRunWith
  refine AllCalls.call _ _ ⟨trivial, trivial⟩ fun b => ?_
  cases b with
  | error e => exact AllCalls.pure _
  | ok r =>
    obtain ⟨ps, expired⟩ := r
    exact AllCalls.bind (probeEach_stable oc (order ps)) fun _ => AllCalls.pure _

theorem proberRun_stable (n : Int) (outcome : Option ProbeResult) : ProgStable (proberRun n outcome) :=
  proberRunWith_stable n _ _

/-! ## `TimedInv.TPres`: the walk on a moving clock -/

open TimedInv RowInv in
theorem renewIP_tpres (T : Int) (instanceId : Nat) (reqIp : Bytes) : TPres T (Heartbeat6.renewIP instanceId reqIp) := by
  unfold Heartbeat6.renewIP
  refine TPres.step _ _ (fun _ => trivial) fun T1 _ b _ => ?_
  cases b with
  | error e => exact TPres.pure _ _
  | ok inst =>
    simp only
    split
    · exact TPres.pure _ _
    · refine TPres.step _ _ (fun _ => trivial) fun T2 _ b _ => ?_
      cases b with
      | error e => exact TPres.pure _ _
      | ok svr =>
        refine TPres.step _ _ (fun _ => trivial) fun T3 _ t ht => ?_
        have ht' : t = T3 := ht
        subst ht'
        refine TPres.call _ _ _ (fun T4 h4 => callOK_update (refLe_some (t := t) rfl h4) fun x r _ hr => ?_) fun _ _ b _ => ?_
        · cases hr; exact refLe_some (t := t) rfl h4
        · cases b <;> exact TPres.pure _ _

open TimedInv in
theorem probeEach_tpres (oc : Probe → Option ProbeResult) : ∀ (ps : List Probe) (T : Int), TPres T (probeEach oc ps)
  | [], T => TPres.pure _ _
  | p :: rest, T => by
    unfold probeEach
    exact TPres.bind (probe_tpres T p (oc p)) fun T' _ _ => TPres.bind (probeEach_tpres oc rest T') fun _ _ _ => TPres.pure _ _

open TimedInv in
theorem proberRunWith_tpres (T : Int) (n : Int) (oc : Probe → Option ProbeResult) (order : List Probe → List Probe) :
    TPres T (proberRunWith n oc order) := by
  unfold proberRunWith
  refine TPres.step _ _ (fun _ => trivial) fun T1 _ b _ => ?_
  cases b with
  | error e => exact TPres.pure _ _
  | ok r =>
    obtain ⟨ps, expired⟩ := r
    exact TPres.bind (probeEach_tpres oc (order ps) T1) fun _ _ _ => TPres.pure _ _

end Swat4.UseCaseMore
