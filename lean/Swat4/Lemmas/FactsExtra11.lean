import Swat4.Gen.Facts
/-!
# C11 — finer regenerated facts: how stored records are decoded
-/
namespace Swat4.C11
open Swat4

/-- **A stored record is decoded with a plain `json.Unmarshal`, and a decoding error is returned.**  The registry model
treats what is read as what was written (`C11_main`, `C09_listing_committed`): that needs the decoder to accept every
record any release of the program has written (members it does not know are ignored — the `F` items of the C11
histories plant such records) and not to turn an undecodable record into a zero-valued one (a swallowed type error would
hand a writer version 0 of a record that is at version n: a lost update).  *Edit detected:* `json.NewDecoder` with
`DisallowUnknownFields()`, swallowing `*json.UnmarshalTypeError`, decoding into a reused value. -/
theorem facts_decode_plain :
    Facts.storeJsonCalls =
      [("servers", "save", "json.Marshal", "svr"),
       ("servers", "decodeServer", "json.Unmarshal", "[]byte(encoded), &svr"),
       ("instances", "encodeInstance", "json.Marshal", "storedInstance{ ID: ins.ID, IP: ins.Addr.GetIP(), Port: ins.Addr.Port, }"),
       ("instances", "decodeInstance", "json.Unmarshal", "[]byte(encoded), &decoded"),
       ("probes", "enqueue", "json.Marshal", "qItem{ Probe: prb, Expires: before, }"),
       ("probes", "asQueuedItem", "json.Unmarshal", "[]byte(encoded), &item")] ∧
    Facts.storeDecodeServerBody =
      [("servers", "decodeServer", "var svr server.Server"),
       ("servers", "decodeServer", "encoded, ok := val.(string)"),
       ("servers", "decodeServer", "if !ok { return server.Blank, fmt.Errorf(\"unmashal: unexpected type: %T\", val) }"),
       ("servers", "decodeServer", "if err := json.Unmarshal([]byte(encoded), &svr); err != nil { return server.Blank, fmt.Errorf(\"unmashal: %w\", err) }"),
       ("servers", "decodeServer", "return svr, nil")] := by
  exact ⟨rfl, rfl⟩

end Swat4.C11
