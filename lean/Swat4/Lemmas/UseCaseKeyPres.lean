import Swat4.Lemmas.VerMono
import Swat4.Lemmas.LockFencing
/-!
# The conflict resolvers of every use case are key-preserving (C09, reviewer: "`KeyPreserving` is proved only for witnesses")

The lock key of a registry write is derived from the record the *caller* passes (`servers:lock:<svr.Addr>`), the record the
`EXEC` batch writes is the one the conflict callback returns.  Mutual exclusion per address (`Lemmas/LockFencing.lean`:
`decide_key`, `WInv.resAP`, `Sys.resAP`) needs the two to be records of the same address: `KeyPreserving op`.  The source-fact
theorem `facts_lock_key` only compares spellings; here the semantic link is proved for **every** `Add` / `Update` / `Remove`
call that **any** of the modelled use cases can issue, whatever the replies of the calls before it.

`Call.wop?` is the registry-write operation (`WOp` of the Redis-level machine) a use-case call stands for.
-/
namespace Swat4.KeyPres
open Swat4 Swat4.UC Std VerMono

/-- the registry write (`WOp`: kind, caller's record, conflict callback) a use-case repository call performs; `t` = the clock
value handed to a clock-reading callback (`updateServerT`); `none` for the calls that do not write the registry -/
def wop? : {β : Type} → Call β → Int → Option WOp
  | _, .addServer svr res, _ => some ⟨.add, svr, res⟩
  | _, .updateServer svr res, _ => some ⟨.update, svr, res⟩
  | _, .updateServerT svr res, t => some ⟨.update, svr, res t⟩
  | _, .removeServer svr res, _ => some ⟨.remove, svr, res⟩
  | _, _, _ => none

/-- the call's conflict callback (of `Add`, `Update`, **and** `Remove`) returns a record of the address it was given -/
def CallAddrPreserving : {β : Type} → Call β → Prop
  | _, .addServer _ res => AddrPreserving res
  | _, .updateServer _ res => AddrPreserving res
  | _, .updateServerT _ res => ∀ t, AddrPreserving (res t)
  | _, .removeServer _ res => AddrPreserving res
  | _, _ => True

/-- what `LockFencing` needs of the call: the write it performs is `KeyPreserving`, at every clock value -/
def CallKeyPreserving {β : Type} (c : Call β) : Prop := ∀ (t : Int) (op : WOp), wop? c t = some op → KeyPreserving op

theorem CallAddrPreserving.key {β : Type} {c : Call β} (h : CallAddrPreserving c) : CallKeyPreserving c := by
  intro t op hop
  cases c with
  | addServer svr res => cases hop; exact AddrPreserving.keyPreserving (op := ⟨.add, svr, res⟩) h
  | updateServer svr res => cases hop; exact AddrPreserving.keyPreserving (op := ⟨.update, svr, res⟩) h
  | updateServerT svr res => cases hop; exact AddrPreserving.keyPreserving (op := ⟨.update, svr, res t⟩) (h t)
  | removeServer svr res => cases hop; exact AddrPreserving.keyPreserving (op := ⟨.remove, svr, res⟩) h
  | _ => cases hop

/-- a callback that keeps address and version (`VerMono.ResKeeps`, C13) keeps the address -/
theorem ResKeeps.addr {res : Resolver} (h : ResKeeps res) : AddrPreserving res := fun s r hr => (h s r hr).1

/-- for a call that is not a `Remove`, C13's `CallStable` gives `CallAddrPreserving` -/
theorem callAddr_of_stable {β : Type} (c : Call β) (h : CallStable c ∧ NoRemove c) : CallAddrPreserving c := by
  cases c <;> first
    | exact trivial
    | exact ResKeeps.addr h.1
    | exact fun t => ResKeeps.addr (h.1 t)
    | exact h.2.elim

/-- every `Add` / `Update` / `Remove` the program can issue (whatever the replies) has an address-preserving callback -/
abbrev ProgAddrPreserving {α : Type} (p : Prog α) : Prop := AllCalls (fun c => CallAddrPreserving c) p

/-- … is key-preserving in the sense of `LockFencing` -/
abbrev ProgKeyPreserving {α : Type} (p : Prog α) : Prop := AllCalls (fun c => CallKeyPreserving c) p

theorem ProgAddrPreserving.key {α : Type} {p : Prog α} (h : ProgAddrPreserving p) : ProgKeyPreserving p :=
  h.imp fun _ hc => hc.key

/-- the programs without `Remove`: from C13's walk over the program trees (`usecases_callbacks_stable`) -/
theorem of_progStable {α : Type} {p : Prog α} (h : ProgStable p) : ProgAddrPreserving p :=
  h.imp fun c hc => callAddr_of_stable c hc

/-! ## the removing use cases: their `Remove` callbacks -/

/-- the removal use case's callback `fun s => some s` (remove whatever is stored now) -/
theorem idResolver_addr : AddrPreserving fun s => some s := by
  intro s r h; cases h; rfl

/-- the cleaner's callback: refuse, or remove the record as it is now -/
theorem cleanResolver_addr (cleanUntil : Int) : AddrPreserving (cleanResolver cleanUntil) := by
  intro s r h
  unfold cleanResolver at h
  split at h
  · split at h
    · cases h
    · cases h; rfl
  · cases h; rfl

theorem remove_addr (instanceId : Nat) (a : Addr) : ProgAddrPreserving (UC.remove instanceId a) := by
  unfold UC.remove
  refine AllCalls.call _ _ trivial fun b => ?_
  cases b with
  | error e => cases e <;> exact AllCalls.pure _
  | ok svr =>
    refine AllCalls.call _ _ trivial fun b => ?_
    cases b with
    | error e => cases e <;> exact AllCalls.pure _
    | ok inst =>
      simp only
      split
      · exact AllCalls.pure _
      · refine AllCalls.call _ _ idResolver_addr fun b => ?_
        cases b with
        | error e => exact AllCalls.pure _
        | ok u =>
          refine AllCalls.call _ _ trivial fun b => ?_
          cases b <;> exact AllCalls.pure _

theorem removeAll_addr (cutoff : Int) : ∀ (l : List Server) (removed errors : Nat),
    ProgAddrPreserving (removeAll cutoff l removed errors) := by
  intro l
  induction l with
  | nil => intro _ _; exact AllCalls.pure _
  | cons sv rest ih =>
    intro removed errors
    unfold removeAll
    refine AllCalls.call _ _ (cleanResolver_addr cutoff) fun b => ?_
    cases b with
    | error e => exact ih _ _
    | ok u => exact ih _ _

theorem cleanServers_addr (retention : Int) : ProgAddrPreserving (cleanServers retention) := by
  unfold cleanServers
  refine AllCalls.call _ _ trivial fun t => ?_
  refine AllCalls.call _ _ trivial fun b => ?_
  cases b with
  | error e => exact AllCalls.pure _
  | ok l => exact removeAll_addr _ l 0 0

theorem cleanServers2_addr (retention : Int) : ProgAddrPreserving (cleanServers2 retention) := by
  unfold cleanServers2
  refine AllCalls.call _ _ trivial fun t => ?_
  refine AllCalls.call _ _ trivial fun b => ?_
  cases b with
  | error e => exact AllCalls.pure _
  | ok l =>
    simp only
    split
    · exact AllCalls.pure _
    · refine AllCalls.call _ _ trivial fun b => ?_
      cases b with
      | error e => exact AllCalls.pure _
      | ok l' => exact removeAll_addr _ _ 0 0

/-- a resolver that is **not** key-preserving exists (so the predicate is not vacuous): one that answers with a record of
another address -/
theorem not_keyPreserving_witness (svr other : Server) (h : other.addr.key ≠ svr.addr.key) :
    ¬ KeyPreserving ⟨.update, svr, fun _ => some other⟩ := fun hk => h (hk svr other rfl rfl)

end Swat4.KeyPres
