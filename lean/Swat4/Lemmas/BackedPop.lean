import Swat4.Lemmas.BackedStrict
import Swat4.Lemmas.QueueRefine
import Swat4.Model.UseCases.ProberRun
/-!
# C16: the prober batch — `PopMany`, then every popped probe handled to completion

* `popMany_strict`: from a `BackedStrict` store, after `PopMany` every mark is backed by a non-expiring probe that is
  still queued or by a probe the call returned (`Held`): a pop never drops the backing of a mark silently.  (For plain
  `Backed` this is false — `expiring_backing_orphaned` in the property file.)
* `probe_run_backedEx`: a fault-free complete `probeserver.Execute` discharges the exception for its own probe and
  leaves the others.
* `pop_complete_backed`: hence the whole fault-free batch ends `BackedStrict` again.
-/
namespace Swat4.C16.Strict
open Swat4 Swat4.UC Std Swat4.C16

/-- the probes in `ps` are held by somebody (popped, not yet handled) -/
def Held (ps : List Probe) (a : Addr) (g : Goal) : Prop := ∃ p ∈ ps, p.addr = a ∧ p.goal = g

/-- queue ids identify the items (ids are fresh: `AbsState.enqueue` uses `nextId`) -/
def IdInj (q : List QItem) : Prop := ∀ a ∈ q, ∀ b ∈ q, a.id = b.id → a = b

theorem idInj_of_nodup {q : List QItem} (h : (q.map (·.id)).Nodup) : IdInj q := by
  induction q with
  | nil => intro a ha; cases ha
  | cons x xs ih =>
    rw [List.map_cons, List.nodup_cons] at h
    intro a ha b hb hab
    rcases List.mem_cons.1 ha with rfl | ha' <;> rcases List.mem_cons.1 hb with rfl | hb'
    · rfl
    · exact absurd (List.mem_map.2 ⟨b, hb', hab.symm⟩) h.1
    · exact absurd (List.mem_map.2 ⟨a, ha', hab⟩) h.1
    · exact ih h.2 a ha' b hb' hab

/-- the pop loop loses no unexpired item: each one is still queued or its probe was delivered; what is left is part of
the old queue; what was delivered came from the old queue -/
theorem popManyLoop_covers (now : Int) (n : Nat) : ∀ (fuel : Nat) (q : List QItem) (got : List Probe) (exp : Nat), IdInj q →
    (∀ x ∈ q, x.expired now = false → x ∈ (AbsState.popManyLoop now n fuel q got exp).1 ∨
        x.probe ∈ (AbsState.popManyLoop now n fuel q got exp).2.1) ∧
    (∀ p ∈ got, p ∈ (AbsState.popManyLoop now n fuel q got exp).2.1) ∧
    (∀ x ∈ (AbsState.popManyLoop now n fuel q got exp).1, x ∈ q) ∧
    (∀ p ∈ (AbsState.popManyLoop now n fuel q got exp).2.1, p ∈ got ∨ ∃ x ∈ q, x.probe = p) := by
  intro fuel
  induction fuel with
  | zero => intro q got exp _; exact ⟨fun x hx _ => Or.inl hx, fun p hp => hp, fun x hx => hx, fun p hp => Or.inl hp⟩
  | succ fuel ih =>
    intro q got exp hinj
    rw [popManyLoop_succ]
    split
    · exact ⟨fun x hx _ => Or.inl hx, fun p hp => hp, fun x hx => hx, fun p hp => Or.inl hp⟩
    · split
      · exact ⟨fun x hx _ => Or.inl hx, fun p hp => hp, fun x hx => hx, fun p hp => Or.inl hp⟩
      · generalize hb : (AbsState.readySorted q now).take (n - got.length) = batch
        have hbq : ∀ b ∈ batch, b ∈ q := fun b hbm => (mem_readySorted.1 (List.mem_of_mem_take (hb ▸ hbm))).1
        have hinj' : IdInj (dropBatch q batch) :=
          fun a ha b hb' hab => hinj a (mem_dropBatch.1 ha).1 b (mem_dropBatch.1 hb').1 hab
        obtain ⟨h1, h2, h3, h4⟩ := ih (dropBatch q batch) (got ++ (keptOf batch now).map (·.probe))
          (exp + (batch.length - (keptOf batch now).length)) hinj'
        refine ⟨fun x hx hne => ?_, fun p hp => h2 p (List.mem_append_left _ hp), fun x hx => (mem_dropBatch.1 (h3 x hx)).1, fun p hp => ?_⟩
        · by_cases hin : x.id ∈ batch.map (·.id)
          · obtain ⟨b, hbm, hbid⟩ := List.mem_map.1 hin
            have : b = x := hinj b (hbq b hbm) x hx hbid
            subst this
            refine Or.inr (h2 _ (List.mem_append_right _ (List.mem_map.2 ⟨b, ?_, rfl⟩)))
            unfold keptOf
            rw [List.mem_filter]
            exact ⟨hbm, by rw [hne]; rfl⟩
          · exact h1 x (mem_dropBatch.2 ⟨hx, hin⟩) hne
        · rcases h4 p hp with hg | ⟨x, hx, rfl⟩
          · rcases List.mem_append.1 hg with hg | hk
            · exact Or.inl hg
            · obtain ⟨b, hbk, rfl⟩ := List.mem_map.1 hk
              unfold keptOf at hbk
              exact Or.inr ⟨b, hbq b (List.mem_filter.1 hbk).1, rfl⟩
          · exact Or.inr ⟨x, (mem_dropBatch.1 hx).1, rfl⟩


theorem popMany_servers (s : AbsState) (now : Int) (n : Int) : (s.popMany now n).1.servers = s.servers := by
  unfold AbsState.popMany; split <;> rfl

/-- `PopMany`: an item without expiry is still queued afterwards or its probe is in the returned batch; the queue
only shrinks; every returned probe was queued -/
theorem popMany_covers (s : AbsState) (now : Int) (n : Int) (hinj : IdInj s.queue) :
    (∀ x ∈ s.queue, x.expires = none → x ∈ (s.popMany now n).1.queue ∨ x.probe ∈ (s.popMany now n).2.1) ∧
    (∀ x ∈ (s.popMany now n).1.queue, x ∈ s.queue) ∧
    (∀ p ∈ (s.popMany now n).2.1, ∃ x ∈ s.queue, x.probe = p) := by
  unfold AbsState.popMany
  split
  · exact ⟨fun x hx _ => Or.inl hx, fun x hx => hx, fun p hp => by cases hp⟩
  · obtain ⟨h1, _, h3, h4⟩ := popManyLoop_covers now n.toNat (s.queue.length + 1) s.queue [] 0 hinj
    refine ⟨fun x hx hne => h1 x hx (by simp [QItem.expired, hne]), h3, fun p hp => ?_⟩
    rcases h4 p hp with hf | h
    · cases hf
    · exact h

/-- **a pop never drops the backing of a mark silently.**  From a `BackedStrict` store (queue ids distinct), after
`PopMany(n)` at any clock every retry mark is backed by a non-expiring probe that is still queued, or by one of the
probes the call returned to the prober (`Held`).  Rows are untouched. -/
theorem popMany_strict (s : AbsState) (now : Int) (n : Int) (hb : BackedStrict s) (hinj : IdInj s.queue) :
    BackedExS (Held (s.popMany now n).2.1) (s.popMany now n).1 := by
  intro k row g hr hm
  rw [popMany_servers] at hr
  obtain ⟨q, hq, hne, ha, hg⟩ := hb k row g hr hm
  rcases (popMany_covers s now n hinj).1 q hq hne with h | h
  · exact Or.inr ⟨q, h, hne, ha, hg⟩
  · exact Or.inl ⟨q.probe, h, ha, hg⟩


/-! ## one holder, to completion, with other probes still held -/

section
variable {C : Addr → Prop} {X : Addr → Goal → Prop} {E : Addr → Goal → Prop} {R : Addr → Prop}

/-- `GoodS.runChoices_kinv` with the third invariant kept: every stored address satisfies the side condition -/
theorem GoodS.runChoices_rows {α : Type} {p : Prog α} (hp : GoodS C E R p) :
    ∀ (cs : List Choice) (s : AbsState) (now : Int), KInvS C X E R s →
      BackedExS X (p.runChoices cs s now) ∧ Keyed (p.runChoices cs s now) ∧
      ∀ (k : Nat) (row : SRow), (p.runChoices cs s now).servers[k]? = some row → C row.svr.addr := by
  induction hp with
  | ret E R a => intro cs s now h; cases cs <;> exact ⟨h.backed, h.keyed, h.rowsC⟩
  | call E R c k hc hk ih =>
    intro cs s now h
    cases cs with
    | nil => exact ⟨h.backed, h.keyed, h.rowsC⟩
    | cons ch cs =>
      have hex := exec_kinv c s now hc h
      cases hf : c.faultReply with
      | none =>
        cases ch
        · simp only [Prog.runChoices]
          exact ih _ hex.2 cs _ now hex.1
        · simp only [Prog.runChoices, hf]
          exact ih _ hex.2 cs _ now hex.1
        · simp only [Prog.runChoices, hf]
          exact ih _ hex.2 cs _ now hex.1
      | some e =>
        obtain ⟨f1, f2, f3⟩ := fault_learn C c e hf
        cases ch
        · simp only [Prog.runChoices]
          exact ih _ hex.2 cs _ now hex.1
        · simp only [Prog.runChoices, hf]
          exact ih e f3 cs s now (h.addFalse f1 f2)
        · simp only [Prog.runChoices, hf]
          exact ih e f3 cs _ now ((hex.1.weaken (fun a g he => Or.inl he) (fun a hr => Or.inl hr)).addFalse f1 f2)
end

theorem backedEx_drop_inq {X : Addr → Goal → Prop} {s : AbsState} {a : Addr} {g : Goal}
    (h : BackedExS (fun a' g' => X a' g' ∨ (a' = a ∧ g' = g)) s) (hq : InQS s a g) : BackedExS X s := by
  intro k row g' hr hm
  rcases h k row g' hr hm with (hx | ⟨ha, hg⟩) | hq'
  · exact Or.inl hx
  · rw [ha, hg]; exact Or.inr hq
  · exact Or.inr hq'

theorem backedEx_drop_unmarked {X : Addr → Goal → Prop} {s : AbsState} {a : Addr} {g : Goal}
    (h : BackedExS (fun a' g' => X a' g' ∨ (a' = a ∧ g' = g)) s) (hk : Keyed s)
    (hu : ∀ (row : SRow), s.servers[a.key]? = some row → Status.has row.svr.status (retryMark g) = false) : BackedExS X s := by
  intro k row g' hr hm
  rcases h k row g' hr hm with (hx | ⟨ha, hg⟩) | hq'
  · exact Or.inl hx
  · have hkk := hk k row hr
    rw [ha] at hkk
    subst hkk; subst hg
    have hm' : Status.has row.svr.status (retryMark g') = true := hm
    rw [hu row hr] at hm'
    cases hm'
  · exact Or.inr hq'

/-- **one holder ran to completion without a fault, others still hold theirs.**  The store is `BackedStrict` up to the
marks excepted by `X` (probes other holders hold) and the mark of this holder's probe; rows are well keyed with valid
addresses.  After `probeserver.Execute` for `prb` — any outcome — the store is `BackedStrict` up to `X` alone: this
holder's mark has been cleared (success, final failure, no such server) or is backed by the re-queued, non-expiring
probe (retry). -/
theorem probe_run_backedEx (X : Addr → Goal → Prop) (prb : Probe) (outcome : Option ProbeResult) (s : AbsState) (now : Int)
    (hb : BackedExS (fun a g => X a g ∨ (a = prb.addr ∧ g = prb.goal)) s) (hko : KeyedOk s) (hp : prb.addr.PortOk) :
    BackedExS X ((UC.probe prb outcome).run s now).1 ∧ KeyedOk ((UC.probe prb outcome).run s now).1 := by
  have hk : Keyed s := fun k row h => (hko k row h).1
  have hcanon : ∀ (row : SRow), s.servers[prb.addr.key]? = some row → row.svr.addr = prb.addr :=
    fun row h => Addr.key_inj (hko _ row h).2 hp (hko _ row h).1
  have hfin := (probe_good Addr.PortOk prb outcome (E := fun _ _ => False) (R := fun x => x = prb.addr) rfl).runChoices_rows
    (X := fun a g => X a g ∨ (a = prb.addr ∧ g = prb.goal))
    (List.replicate ((UC.probe prb outcome).runSteps s now) .ok) s now
    ⟨hb, hk, fun _ _ hf => hf.elim, fun x hx row hrow => by subst hx; exact hcanon row hrow,
     fun k row h => (hko k row h).2, fun x hx => by subst hx; exact hp⟩
  rw [runChoices_all_ok _ _ _ _ (Nat.le_refl _)] at hfin
  refine ⟨?_, fun k row h => ⟨hfin.2.1 k row h, hfin.2.2 k row h⟩⟩
  cases hrow : s.servers[prb.addr.key]? with
  | none =>
    rw [probe_run_none _ _ _ _ hrow]
    exact backedEx_drop_unmarked hb hk (fun row hr => by rw [hrow] at hr; cases hr)
  | some ex =>
    have hkey := hk _ _ hrow
    cases outcome with
    | some res =>
      refine backedEx_drop_unmarked hfin.1 hfin.2.1 (fun row hr => ?_)
      rw [probe_run_success _ _ _ _ ex hrow hk] at hr
      have hkey' : (handleSuccess prb.goal res now ex.svr).addr.key = prb.addr.key := by rw [handleSuccess_addr]; exact hkey
      rw [← hkey', save_row] at hr
      cases hr
      show Status.has (handleSuccess prb.goal res now ex.svr).status (retryMark prb.goal) = false
      rw [handleSuccess_status]
      exact unmark_success _ _
    | none =>
      by_cases hout : prb.retries < prb.maxRetries
      · exact backedEx_drop_inq hfin.1 (probe_run_retry prb s now ex hrow hout)
      · refine backedEx_drop_unmarked hfin.1 hfin.2.1 (fun row hr => ?_)
        rw [probe_run_fail _ _ _ ex hrow hk (by omega)] at hr
        have hkey' : (handleFailure prb.goal ex.svr).addr.key = prb.addr.key := hkey
        rw [← hkey', save_row] at hr
        cases hr
        exact unmark_failure _ _


/-! ## the batch

The runner is the Model definition `UC.proberRunWith` / `UC.probeEach` (`Model/UseCases/ProberRun.lean`) — the program
the driver runs for a `pop` client is its instance `UC.proberRun` (`Drv/UCRun.lean: USpec.prog (.pop n oc)`).  Earlier
revisions of this file had their own copies (`Strict.probeEach`, `Strict.proberBatch`) "mirroring" the driver's
`probeAll`; they are gone. -/

/-- the state after `UC.probeEach` of a non-empty batch: the first probe to completion, then the rest -/
theorem probeEach_cons_state (oc : Probe → Option ProbeResult) (p : Probe) (rest : List Probe) (s : AbsState) (now : Int) :
    ((UC.probeEach oc (p :: rest)).run s now).1 =
      ((UC.probeEach oc rest).run ((UC.probe p (oc p)).run s now).1 now).1 := by
  show (((UC.probe p (oc p)).bind fun e => (UC.probeEach oc rest).bind fun es => pure (e :: es)).run s now).1 = _
  rw [Prog.run_bind, Prog.run_bind]
  rfl

/-- the state after a batch: `PopMany`, then `UC.probeEach` over the ordered batch -/
theorem proberRunWith_state (n : Int) (oc : Probe → Option ProbeResult) (order : List Probe → List Probe)
    (s : AbsState) (now : Int) :
    ((UC.proberRunWith n oc order).run s now).1 =
      ((UC.probeEach oc (order (s.popMany now n).2.1)).run (s.popMany now n).1 now).1 := by
  simp only [UC.proberRunWith, Prog.run_call, Call.exec]
  rw [Prog.run_bind]
  rfl

theorem probeEach_run (oc : Probe → Option ProbeResult) (X : Addr → Goal → Prop) (now : Int) :
    ∀ (ps : List Probe) (s : AbsState), BackedExS (fun a g => X a g ∨ Held ps a g) s → KeyedOk s →
      (∀ p ∈ ps, p.addr.PortOk) →
      BackedExS X ((UC.probeEach oc ps).run s now).1 ∧ KeyedOk ((UC.probeEach oc ps).run s now).1 := by
  intro ps
  induction ps with
  | nil =>
    intro s hb hk _
    exact ⟨hb.mono (fun a g h => h.elim id (fun ⟨p, hp, _⟩ => by cases hp)), hk⟩
  | cons p rest ih =>
    intro s hb hk hp
    have hb' : BackedExS (fun a g => (X a g ∨ Held rest a g) ∨ (a = p.addr ∧ g = p.goal)) s := by
      refine hb.mono (fun a g h => ?_)
      rcases h with hx | ⟨q, hq, ha, hg⟩
      · exact Or.inl (Or.inl hx)
      · rcases List.mem_cons.1 hq with rfl | hq'
        · exact Or.inr ⟨ha.symm, hg.symm⟩
        · exact Or.inl (Or.inr ⟨q, hq', ha, hg⟩)
    obtain ⟨h1, h2⟩ := probe_run_backedEx (fun a g => X a g ∨ Held rest a g) p (oc p) s now hb' hk (hp p (by simp))
    rw [probeEach_cons_state]
    exact ih _ h1 h2 (fun q hq => hp q (by simp [hq]))

/-- **`pop_complete_backed`: a fault-free prober batch restores `BackedStrict`.**  From a `BackedStrict` store with
well-keyed, valid rows, distinct queue ids and valid probe addresses: pop up to `n` probes (at any clock; expired ones
are dropped), then handle every popped probe to completion, in any order, with any outcome per probe
(`UC.proberRunWith`, the Model's prober runner).  The store is
`BackedStrict` again (and well keyed): during the batch the only unbacked marks are those whose probe the prober
holds, and each is discharged when its probe has been handled.  (For plain `Backed` the statement is false:
`expiring_backing_orphaned`.) -/
theorem pop_complete_backed (n : Int) (oc : Probe → Option ProbeResult) (order : List Probe → List Probe)
    (horder : ∀ ps p, p ∈ order ps ↔ p ∈ ps) (s : AbsState) (now : Int)
    (hb : BackedStrict s) (hk : KeyedOk s) (hinj : IdInj s.queue) (hq : ∀ q ∈ s.queue, q.probe.addr.PortOk) :
    BackedStrict ((UC.proberRunWith n oc order).run s now).1 ∧ KeyedOk ((UC.proberRunWith n oc order).run s now).1 := by
  have hpop := popMany_strict s now n hb hinj
  have hcov := (popMany_covers s now n hinj).2.2
  have hk' : KeyedOk (s.popMany now n).1 := fun k row h => hk k row (by rw [popMany_servers] at h; exact h)
  have hheld : BackedExS (fun a g => False ∨ Held (order (s.popMany now n).2.1) a g) (s.popMany now n).1 :=
    hpop.mono (fun a g ⟨p, hp, h⟩ => Or.inr ⟨p, (horder _ p).2 hp, h⟩)
  have hports : ∀ p ∈ order (s.popMany now n).2.1, p.addr.PortOk := by
    intro p hp
    obtain ⟨x, hx, rfl⟩ := hcov p ((horder _ p).1 hp)
    exact hq x hx
  have := probeEach_run oc (fun _ _ => False) now _ _ hheld hk' hports
  rw [proberRunWith_state]
  exact ⟨(backed_iff _).2 this.1, this.2⟩

/-! ## the order the harness' runner uses is a reordering -/

theorem span_loop_eq {α : Type} (f : α → Bool) : ∀ (l acc : List α),
    List.span.loop f l acc = (acc.reverse ++ l.takeWhile f, l.dropWhile f)
  | [], acc => by simp [List.span.loop]
  | x :: xs, acc => by
    cases hx : f x
    · simp [List.span.loop, hx]
    · simp [List.span.loop, hx, span_loop_eq f xs (x :: acc)]

theorem span_eq {α : Type} (f : α → Bool) (l : List α) : l.span f = (l.takeWhile f, l.dropWhile f) := by
  simp [List.span, span_loop_eq]

theorem mem_span_insert {α : Type} (f : α → Bool) (acc : List α) (x p : α) :
    p ∈ (match acc.span f with | (lo, hi) => lo ++ x :: hi) ↔ p = x ∨ p ∈ acc := by
  rw [span_eq]
  simp only [List.mem_append, List.mem_cons]
  constructor
  · rintro (h | rfl | h)
    · exact Or.inr ((List.takeWhile_sublist f).subset h)
    · exact Or.inl rfl
    · exact Or.inr ((List.dropWhile_sublist f).subset h)
  · rintro (rfl | h)
    · exact Or.inr (Or.inl rfl)
    · rw [← List.takeWhile_append_dropWhile (p := f) (l := acc)] at h
      rcases List.mem_append.1 h with h | h
      · exact Or.inl h
      · exact Or.inr (Or.inr h)

/-- `UC.sortBatch` (the insertion sort of `Model/UseCases/ProberRun.lean`) keeps exactly the elements of the batch: the
hypothesis `horder` of `pop_complete_backed` holds for the runner the driver runs -/
theorem mem_sortBatch (ps : List Probe) (p : Probe) : p ∈ UC.sortBatch ps ↔ p ∈ ps := by
  induction ps with
  | nil => simp [UC.sortBatch]
  | cons x xs ih =>
    have : UC.sortBatch (x :: xs) = _ := List.foldr_cons ..
    rw [this, List.mem_cons, ← ih]
    exact mem_span_insert _ _ x p

/-- `pop_complete_backed` for **the runner the driver runs** (`UC.proberRun n outcome`: `sortBatch` order, one outcome
for the whole batch) -/
theorem proberRun_complete_backed (n : Int) (outcome : Option ProbeResult) (s : AbsState) (now : Int)
    (hb : BackedStrict s) (hk : KeyedOk s) (hinj : IdInj s.queue) (hq : ∀ q ∈ s.queue, q.probe.addr.PortOk) :
    BackedStrict ((UC.proberRun n outcome).run s now).1 ∧ KeyedOk ((UC.proberRun n outcome).run s now).1 :=
  pop_complete_backed n (fun _ => outcome) UC.sortBatch mem_sortBatch s now hb hk hinj hq

end Swat4.C16.Strict
