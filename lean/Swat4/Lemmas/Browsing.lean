import Swat4.Model.Browsing
import Swat4.Spec.ServerList
import Swat4.Spec.ServerListExpected
/-!
# Lemmas for C01: scanner lemmas of the SDK list decoder against the packed bytes
-/
namespace Swat4.Browsing
open Swat4 Swat4.SBList

/-! ## the SDK decoder's scanners on packed pieces -/

theorem cstring_append (v : Bytes) (hv : NulFree v) (rest : Bytes) :
    cstring (v ++ 0 :: rest) = some (v, rest) := by
  induction v with
  | nil => simp [cstring]
  | cons b bs ih =>
    have hb : b ≠ 0 := hv b (by simp)
    have hbs : NulFree bs := fun x hx => hv x (by simp [hx])
    simp [cstring, hb, ih hbs]

theorem takeN_append (p rest : Bytes) : takeN p.length (p ++ rest) = some (p, rest) := by
  simp [takeN]

theorem stripNul_nulFree (v : Bytes) : NulFree (stripNul v) := by
  intro x hx
  simp [stripNul] at hx
  exact hx.2

theorem stripNul_eq_dropNul (v : Bytes) : stripNul v = dropNul v := rfl

theorem beNat_u16be (v : Nat) (hv : v < 65536) : beNat (u16be v) = v := by
  simp [beNat, u16be, UInt8.toNat_ofNat']
  omega

/-- the key list of the SDK framing over the declared field names:
`00 name₁ 00 00 name₂ 00 … 00 nameₙ 00 00` reads as `n` string keys, leaving the popular-value count `00` -/
theorem keyList_decls (fields : List Bytes) (hn : ∀ f ∈ fields, NulFree f) (rest : Bytes) :
    keyList fields.length (0 :: (fields.flatMap (fun f => f ++ [0x00, 0x00]) ++ rest)) =
      some (fields.map (fun f => ((0 : UInt8), f)), 0 :: rest) := by
  induction fields with
  | nil => simp [keyList]
  | cons f fs ih =>
    have hf : NulFree f := hn f (by simp)
    have hfs : ∀ g ∈ fs, NulFree g := fun g hg => hn g (by simp [hg])
    have e : (0 : UInt8) :: ((f :: fs).flatMap (fun f => f ++ [0x00, 0x00]) ++ rest) =
        0 :: (f ++ 0 :: (0 :: (fs.flatMap (fun f => f ++ [0x00, 0x00]) ++ rest))) := by
      simp [List.flatMap_cons, List.append_assoc]
    rw [e]
    simp only [List.length_cons, keyList, cstring_append f hf, ih hfs, List.map_cons]

/-- the values of one entry: `FF value 00` per key, every key a string key, no popular values -/
theorem keyValues_inline (fields : List Bytes) (val : Bytes → Bytes) (hv : ∀ f, NulFree (val f)) (rest : Bytes) :
    keyValues [] (fields.map (fun f => ((0 : UInt8), f))) (fields.flatMap (fun f => 0xff :: (val f ++ [0x00])) ++ rest) =
      some (fields.map val, rest) := by
  induction fields with
  | nil => simp [keyValues]
  | cons f fs ih =>
    have e : (f :: fs).flatMap (fun f => 0xff :: (val f ++ [0x00])) ++ rest =
        0xff :: (val f ++ 0 :: (fs.flatMap (fun f => 0xff :: (val f ++ [0x00])) ++ rest)) := by
      simp [List.flatMap_cons, List.append_assoc]
    rw [e]
    simp only [List.map_cons, keyValues, keyValue, if_true, cstring_append (val f) (hv f), ih]


/-! ## entries -/

/-- the value `packServers` emits for `field` of a server whose `Marshal` result is `ps` -/
def packedValue (ps : List (Bytes × Bytes)) (field : Bytes) : Bytes :=
  match paramsLookup ps field with
  | some val => stripNul val
  | none => []

theorem packedValue_nulFree (ps : List (Bytes × Bytes)) (f : Bytes) : NulFree (packedValue ps f) := by
  unfold packedValue
  split
  · exact stripNul_nulFree _
  · intro x hx; cases hx

/-- a server that `Marshal`s, with its parameter map -/
abbrev Prepared := Server × List (Bytes × Bytes)

def prepare (schema : Schema) (s : Server) : Option Prepared := (marshalInfo schema s.info).map fun ps => (s, ps)

def packPrepared (fields : List Bytes) (p : Prepared) : Bytes :=
  0x51 :: (p.1.ip.toBytes ++ u16be (toU16 p.1.queryPort) ++ fields.flatMap (fun f => 0xff :: (packedValue p.2 f ++ [0x00])))

def entryOfPrepared (fields : List Bytes) (p : Prepared) : Entry :=
  { ip := p.1.ip.toBytes, port := toU16 p.1.queryPort, values := fields.map (packedValue p.2) }

theorem flatMap_packServer (schema : Schema) (fields : List Bytes) (servers : List Server) :
    servers.flatMap (packServer schema fields) = (servers.filterMap (prepare schema)).flatMap (packPrepared fields) := by
  induction servers with
  | nil => rfl
  | cons s ss ih =>
    rw [List.flatMap_cons, List.filterMap_cons, ih]
    unfold prepare packServer
    cases h : marshalInfo schema s.info with
    | none => simp
    | some ps =>
      have hfun : packValue ps = fun f => 0xff :: (packedValue ps f ++ [0x00]) := by
        funext f; unfold packValue packedValue; cases paramsLookup ps f <;> rfl
      simp [List.flatMap_cons, packPrepared, hfun]

theorem toU16_lt (x : Int) : toU16 x < 65536 := by
  unfold toU16; omega

theorem packPrepared_length_pos (fields : List Bytes) (p : Prepared) : 0 < (packPrepared fields p).length := by
  simp [packPrepared]

theorem length_le_flatMap_packPrepared (fields : List Bytes) (L : List Prepared) :
    L.length ≤ (L.flatMap (packPrepared fields)).length := by
  induction L with
  | nil => simp
  | cons p L ih =>
    have := packPrepared_length_pos fields p
    simp only [List.flatMap_cons, List.length_append, List.length_cons]
    omega

/-- the entry decoder consumes exactly one packed entry per server and then sees the end marker -/
theorem entries_packed (fields : List Bytes) (dp : Nat) (trailing : Bytes) (L : List Prepared)
    (hip : ∀ p ∈ L, p.1.ip.toBytes ≠ lastServerMarker) (fuel : Nat) (hfuel : L.length < fuel) :
    entries (fields.map (fun f => ((0 : UInt8), f))) [] dp fuel
        (L.flatMap (packPrepared fields) ++ (0x00 :: 0xff :: 0xff :: 0xff :: 0xff :: trailing)) =
      some (L.map (entryOfPrepared fields), trailing) := by
  induction L generalizing fuel with
  | nil =>
    cases fuel with
    | zero => omega
    | succ k =>
      have t4 := takeN_append lastServerMarker trailing
      have h4 : lastServerMarker.length = 4 := rfl
      rw [h4] at t4
      have e : (0xff : UInt8) :: 0xff :: 0xff :: 0xff :: trailing = lastServerMarker ++ trailing := rfl
      simp only [List.flatMap_nil, List.nil_append, entries, e, t4, if_true, List.map_nil]
  | cons p L ih =>
    cases fuel with
    | zero => omega
    | succ k =>
      have hk : L.length < k := by simp at hfuel; omega
      have hp : p.1.ip.toBytes ≠ lastServerMarker := hip p (by simp)
      have hL : ∀ q ∈ L, q.1.ip.toBytes ≠ lastServerMarker := fun q hq => hip q (by simp [hq])
      have e : (p :: L).flatMap (packPrepared fields) ++ (0x00 :: 0xff :: 0xff :: 0xff :: 0xff :: trailing) =
          0x51 :: (p.1.ip.toBytes ++ (u16be (toU16 p.1.queryPort) ++
            (fields.flatMap (fun f => 0xff :: (packedValue p.2 f ++ [0x00])) ++
              (L.flatMap (packPrepared fields) ++ (0x00 :: 0xff :: 0xff :: 0xff :: 0xff :: trailing))))) := by
        simp [List.flatMap_cons, packPrepared, List.append_assoc]
      rw [e]
      have h4 : p.1.ip.toBytes.length = 4 := rfl
      have h2 : (u16be (toU16 p.1.queryPort)).length = 2 := rfl
      have t4 := takeN_append p.1.ip.toBytes (u16be (toU16 p.1.queryPort) ++
            (fields.flatMap (fun f => 0xff :: (packedValue p.2 f ++ [0x00])) ++
              (L.flatMap (packPrepared fields) ++ (0x00 :: 0xff :: 0xff :: 0xff :: 0xff :: trailing))))
      rw [h4] at t4
      have t2 := takeN_append (u16be (toU16 p.1.queryPort))
            (fields.flatMap (fun f => 0xff :: (packedValue p.2 f ++ [0x00])) ++
              (L.flatMap (packPrepared fields) ++ (0x00 :: 0xff :: 0xff :: 0xff :: 0xff :: trailing)))
      rw [h2] at t2
      have f10 : ((0x51 : UInt8) &&& 0x10 ≠ 0) = True := by decide
      have f02 : ((0x51 : UInt8) &&& 0x02 ≠ 0) = False := by decide
      have f20 : ((0x51 : UInt8) &&& 0x20 ≠ 0) = False := by decide
      have f08 : ((0x51 : UInt8) &&& 0x08 ≠ 0) = False := by decide
      have f40 : ((0x51 : UInt8) &&& 0x40 ≠ 0) = True := by decide
      have f80 : ((0x51 : UInt8) &&& 0x80 ≠ 0) = False := by decide
      simp only [entries, t4, hp, if_false, f10, f02, f20, f08, f40, f80, if_true, t2, Option.map_some, skipIf,
        decide_false, Bool.false_eq_true, keyValues_inline fields (packedValue p.2) (packedValue_nulFree p.2),
        ih hL k hk, beNat_u16be _ (toU16_lt _), List.map_cons, entryOfPrepared]


theorem mem_filterMap_prepare {schema : Schema} {servers : List Server} {p : Prepared}
    (h : p ∈ servers.filterMap (prepare schema)) : p.1 ∈ servers := by
  rw [List.mem_filterMap] at h
  obtain ⟨s, hs, hp⟩ := h
  unfold prepare at hp
  cases hm : marshalInfo schema s.info with
  | none => rw [hm] at hp; cases hp
  | some ps => rw [hm] at hp; cases hp; exact hs

/-- **decoding the packed bytes**, for any schema: the SDK decoder returns the requester's address,
the declared fields, one entry per server that `Marshal`s (in order) and sees the end marker with
nothing after it -/
theorem sdkDecode_packServers (schema : Schema) (client : Client) (fields : List Bytes) (servers : List Server)
    (dp : Nat) (hf : fields.length ≤ 255) (hn : ∀ f ∈ fields, NulFree f)
    (hip : ∀ s ∈ servers, s.ip.toBytes ≠ lastServerMarker) :
    sdkDecode (packServers schema client fields servers) dp =
      some { clientIp := client.ip.toBytes, clientPort := client.port % 65536, fields := fields, entries := (servers.filterMap (prepare schema)).map (entryOfPrepared fields), trailing := [] } := by
  have hnot : ¬ fields.length > 255 := by omega
  unfold packServers
  simp only [hnot, if_false]
  rw [flatMap_packServer]
  generalize hL : servers.filterMap (prepare schema) = L
  have hipL : ∀ p ∈ L, p.1.ip.toBytes ≠ lastServerMarker := by
    intro p hp; rw [← hL] at hp; exact hip p.1 (mem_filterMap_prepare hp)
  have e : client.ip.toBytes ++ u16be (client.port % 65536) ++ [UInt8.ofNat fields.length, 0x00]
        ++ fields.flatMap (fun f => f ++ [0x00, 0x00]) ++ L.flatMap (packPrepared fields) ++ [0x00, 0xff, 0xff, 0xff, 0xff] =
      client.ip.toBytes ++ (u16be (client.port % 65536) ++ (UInt8.ofNat fields.length ::
        (0 :: (fields.flatMap (fun f => f ++ [0x00, 0x00]) ++
          (L.flatMap (packPrepared fields) ++ (0x00 :: 0xff :: 0xff :: 0xff :: 0xff :: [])))))) := by
    simp [List.append_assoc]
  rw [e]
  have h4 : client.ip.toBytes.length = 4 := rfl
  have h2 : (u16be (client.port % 65536)).length = 2 := rfl
  have t4 := takeN_append client.ip.toBytes (u16be (client.port % 65536) ++ (UInt8.ofNat fields.length ::
        (0 :: (fields.flatMap (fun f => f ++ [0x00, 0x00]) ++
          (L.flatMap (packPrepared fields) ++ (0x00 :: 0xff :: 0xff :: 0xff :: 0xff :: []))))))
  rw [h4] at t4
  have t2 := takeN_append (u16be (client.port % 65536)) (UInt8.ofNat fields.length ::
        (0 :: (fields.flatMap (fun f => f ++ [0x00, 0x00]) ++
          (L.flatMap (packPrepared fields) ++ (0x00 :: 0xff :: 0xff :: 0xff :: 0xff :: [])))))
  rw [h2] at t2
  have hcount : (UInt8.ofNat fields.length).toNat = fields.length := by
    rw [UInt8.toNat_ofNat']; omega
  have hfuel : L.length < (L.flatMap (packPrepared fields) ++ (0x00 :: 0xff :: 0xff :: 0xff :: 0xff :: [])).length := by
    have := length_le_flatMap_packPrepared fields L
    simp only [List.length_append, List.length_cons, List.length_nil]; omega
  have hport : client.port % 65536 < 65536 := Nat.mod_lt _ (by decide)
  simp only [sdkDecode, t4, t2, hcount, keyList_decls fields hn, UInt8.toNat_zero, stringList,
    entries_packed fields dp [] L hipL _ hfuel, beNat_u16be _ hport, List.map_map]
  congr 2
  simp [Function.comp_def]


/-! ## `params.Marshal` + map lookup = the stored value of the field -/

/-- the `Marshal` result of a well-typed record -/
def renderAll : Schema → Info → List (Bytes × Bytes)
  | (name, _) :: sch, v :: vs => (name, renderVal v) :: renderAll sch vs
  | _, _ => []

theorem marshalInfo_wellTyped (schema : Schema) (info : Info) (h : WellTyped schema info) :
    marshalInfo schema info = some (renderAll schema info) := by
  induction schema generalizing info with
  | nil =>
    cases info with
    | nil => rfl
    | cons v vs => exact absurd h (by simp [WellTyped])
  | cons e sch ih =>
    obtain ⟨name, k⟩ := e
    cases info with
    | nil => exact absurd h (by simp [WellTyped])
    | cons v vs =>
      simp only [WellTyped] at h
      obtain ⟨hk, hrest⟩ := h
      have hf : marshalField k v = some (renderVal v) := by
        match k, v, hk with
        | 0, .int _, _ => rfl
        | 1, .bool true, _ => rfl
        | 1, .bool false, _ => rfl
        | 2, .str _, _ => rfl
      simp only [marshalInfo, hf, ih vs hrest, renderAll]

theorem paramsLookup_foldl_notin (ps : List (Bytes × Bytes)) (f : Bytes) (acc : Option Bytes)
    (h : f ∉ ps.map (·.1)) :
    ps.foldl (fun acc kv => if kv.1 = f then some kv.2 else acc) acc = acc := by
  induction ps generalizing acc with
  | nil => rfl
  | cons kv rest ih =>
    simp only [List.map_cons, List.mem_cons, not_or] at h
    have hne : ¬ kv.1 = f := fun e => h.1 e.symm
    simp only [List.foldl_cons, hne, if_false]
    exact ih acc h.2

theorem renderAll_keys_notin (schema : Schema) (info : Info) (f : Bytes) (h : f ∉ schema.map (·.1)) :
    f ∉ (renderAll schema info).map (·.1) := by
  induction schema generalizing info with
  | nil => simp [renderAll]
  | cons e sch ih =>
    obtain ⟨name, k⟩ := e
    cases info with
    | nil => simp [renderAll]
    | cons v vs =>
      simp only [List.map_cons, List.mem_cons, not_or] at h
      simp only [renderAll, List.map_cons, List.mem_cons, not_or]
      exact ⟨h.1, ih vs h.2⟩

theorem paramsLookup_renderAll (schema : Schema) (info : Info) (f : Bytes) (hnd : (schema.map (·.1)).Nodup) :
    (match paramsLookup (renderAll schema info) f with
      | some v => v
      | none => []) = paramValue schema info f := by
  induction schema generalizing info with
  | nil => simp [renderAll, paramsLookup, paramValue]
  | cons e sch ih =>
    obtain ⟨name, k⟩ := e
    cases info with
    | nil => simp [renderAll, paramsLookup, paramValue]
    | cons v vs =>
      simp only [List.map_cons, List.nodup_cons] at hnd
      obtain ⟨hname, hnd'⟩ := hnd
      by_cases hnf : name = f
      · subst hnf
        have hnot := renderAll_keys_notin sch vs name hname
        simp only [renderAll, paramsLookup, List.foldl_cons, if_true, paramValue]
        rw [paramsLookup_foldl_notin _ _ _ hnot]
      · have := ih vs hnd'
        simp only [renderAll, paramsLookup, List.foldl_cons, hnf, if_false, paramValue]
        exact this

theorem packedValue_renderAll (schema : Schema) (info : Info) (f : Bytes) (hnd : (schema.map (·.1)).Nodup) :
    packedValue (renderAll schema info) f = dropNul (paramValue schema info f) := by
  rw [← paramsLookup_renderAll schema info f hnd]
  unfold packedValue
  cases paramsLookup (renderAll schema info) f with
  | none => rfl
  | some v => rfl

theorem filterMap_prepare_wellTyped (schema : Schema) (servers : List Server)
    (hwt : ∀ s ∈ servers, WellTyped schema s.info) :
    servers.filterMap (prepare schema) = servers.map fun s => (s, renderAll schema s.info) := by
  induction servers with
  | nil => rfl
  | cons s ss ih =>
    have h1 : prepare schema s = some (s, renderAll schema s.info) := by
      unfold prepare; rw [marshalInfo_wellTyped schema s.info (hwt s (by simp))]; rfl
    rw [List.filterMap_cons, h1, List.map_cons, ih (fun t ht => hwt t (by simp [ht]))]

theorem entryOfPrepared_renderAll (schema : Schema) (fields : List Bytes) (s : Server) (hnd : (schema.map (·.1)).Nodup) :
    entryOfPrepared fields (s, renderAll schema s.info) = expectedEntry schema fields s := by
  have hfun : packedValue (renderAll schema s.info) = fun f => dropNul (paramValue schema s.info f) := by
    funext f; exact packedValue_renderAll schema s.info f hnd
  unfold entryOfPrepared expectedEntry
  rw [hfun]
  rfl


/-! ## the request parser -/

@[simp] theorem ok_bind {α β : Type} (a : α) (f : α → Outcome β) : (Outcome.ok a >>= f) = f a := rfl
@[simp] theorem error_bind {α β : Type} (e : ReqErr) (f : α → Outcome β) : ((Outcome.error e : Outcome α) >>= f) = .error e := rfl
@[simp] theorem panic_bind {α β : Type} (f : α → Outcome β) : ((Outcome.panic : Outcome α) >>= f) = .panic := rfl
@[simp] theorem hang_bind {α β : Type} (f : α → Outcome β) : ((Outcome.hang : Outcome α) >>= f) = .hang := rfl
@[simp] theorem pure_eq_ok {α : Type} (a : α) : (pure a : Outcome α) = .ok a := rfl
@[simp] theorem orPanic_some {α : Type} (a : α) : orPanic (some a) = .ok a := rfl
@[simp] theorem orPanic_none {α : Type} : orPanic (none : Option α) = .panic := rfl

/-- `ConsumeString` as a structural scanner: the bytes before the first delimiter, and what
follows it (`none` when there is no delimiter) -/
def consumeS (delim : UInt8) : Bytes → Bytes × Option Bytes
  | [] => ([], none)
  | b :: bs => if b = delim then ([], some bs) else (b :: (consumeS delim bs).1, (consumeS delim bs).2)

theorem consumeStringAt_eq (delim : UInt8) (suf pre : Bytes) :
    consumeStringAt (pre ++ suf) delim suf.length pre.length =
      .ok (pre ++ (consumeS delim suf).1, (consumeS delim suf).2) := by
  induction suf generalizing pre with
  | nil => simp [consumeStringAt, consumeS]
  | cons b suf ih =>
    have hidx : goIndex (pre ++ b :: suf) pre.length = some b := by simp [goIndex]
    simp only [List.length_cons, consumeStringAt, hidx, orPanic_some, ok_bind]
    by_cases hb : b = delim
    · subst hb
      have h1 : goSlice (pre ++ b :: suf) 0 pre.length = some pre := by simp [goSlice]
      have h2 : goSlice (pre ++ b :: suf) (pre.length + 1) (pre ++ b :: suf).length = some suf := by
        have hle : pre.length + 1 ≤ (pre ++ b :: suf).length := by simp
        simp only [goSlice, hle, Nat.le_refl, and_self, if_true, List.take_length]
        simp
      simp only [if_true, h1, h2, orPanic_some, ok_bind, pure_eq_ok, consumeS, List.append_nil]
    · have e : pre ++ b :: suf = (pre ++ [b]) ++ suf := by simp
      have hl : pre.length + 1 = (pre ++ [b]).length := by simp
      simp only [hb, if_false, consumeS]
      rw [e, hl, ih (pre ++ [b])]
      simp

/-- `ConsumeString` never panics, and computes the structural scanner -/
theorem consumeString_eq (data : Bytes) (delim : UInt8) : consumeString data delim = .ok (consumeS delim data) := by
  have := consumeStringAt_eq delim data []
  simpa [consumeString] using this

theorem consumeS_prefix (delim : UInt8) (v : Bytes) (hv : ∀ x ∈ v, x ≠ delim) (rest : Bytes) :
    consumeS delim (v ++ delim :: rest) = (v, some rest) := by
  induction v with
  | nil => simp [consumeS]
  | cons b bs ih =>
    have hb : b ≠ delim := hv b (by simp)
    have := ih (fun x hx => hv x (by simp [hx]))
    simp [consumeS, hb, this]

theorem consumeS_nodelim (delim : UInt8) (v : Bytes) (hv : ∀ x ∈ v, x ≠ delim) : consumeS delim v = (v, none) := by
  induction v with
  | nil => rfl
  | cons b bs ih =>
    have hb : b ≠ delim := hv b (by simp)
    have := ih (fun x hx => hv x (by simp [hx]))
    simp [consumeS, hb, this]

/-- the remainder after a found delimiter is strictly shorter -/
theorem consumeS_rem_length (delim : UInt8) (data r : Bytes) (h : (consumeS delim data).2 = some r) :
    r.length < data.length := by
  induction data with
  | nil => simp [consumeS] at h
  | cons b bs ih =>
    by_cases hb : b = delim
    · simp [consumeS, hb] at h; subst h; simp
    · simp [consumeS, hb] at h
      have := ih h
      simp; omega


/-! ## totality: no Go index / slice expression of the parser can fail, no loop can run on -/

/-- neither a panic nor an exhausted loop -/
def Outcome.Safe {α : Type} : Outcome α → Prop
  | .ok _ => True
  | .error _ => True
  | .panic => False
  | .hang => False

theorem safe_bind {α β : Type} {o : Outcome α} {f : α → Outcome β} (ho : o.Safe)
    (hf : ∀ a, o = .ok a → (f a).Safe) : (o >>= f).Safe := by
  cases o with
  | ok a => exact hf a rfl
  | error e => trivial
  | panic => exact ho
  | hang => exact ho

theorem skipCString_safe (u : Bytes) : (skipCString u).Safe := by
  unfold skipCString consumeCString
  rw [consumeString_eq]
  simp only [ok_bind]
  cases (consumeS 0 u).2 <;> trivial

theorem parseFilters_safe (u : Bytes) : (parseFilters u).Safe := by
  unfold parseFilters consumeCString
  rw [consumeString_eq]
  simp only [ok_bind]
  cases (consumeS 0 u).2 <;> trivial

theorem toChallenge_of_length (c : Bytes) (h : c.length = 8) : ∃ ch, toChallenge c = some ch ∧ ch.toList = c := by
  have h' : c.toArray.size = 8 := by simpa using h
  refine ⟨⟨c.toArray, h'⟩, ?_, ?_⟩
  · unfold toChallenge; rw [dif_pos h']
  · simp [Vector.toList]

theorem goSlice_take (u : Bytes) (n : Nat) (h : n ≤ u.length) : goSlice u 0 n = some (u.take n) := by
  simp [goSlice, h]

theorem goSlice_drop (u : Bytes) (n : Nat) (h : n ≤ u.length) : goSlice u n u.length = some (u.drop n) := by
  simp [goSlice, h]

theorem parseChallenge_eq (u : Bytes) (h : 8 ≤ u.length) :
    ∃ ch, parseChallenge u = .ok (ch, u.drop 8) ∧ ch.toList = u.take 8 := by
  have hl : (u.take 8).length = 8 := by simp; omega
  obtain ⟨ch, hch, hlist⟩ := toChallenge_of_length (u.take 8) hl
  refine ⟨ch, ?_, hlist⟩
  have hnot : ¬ u.length < 8 := by omega
  simp only [parseChallenge, hnot, if_false, goSlice_take u 8 h, goSlice_drop u 8 h, orPanic_some, ok_bind, hch, pure_eq_ok]

theorem parseChallenge_safe (u : Bytes) : (parseChallenge u).Safe := by
  by_cases h : u.length < 8
  · simp only [parseChallenge, h, if_true]; trivial
  · obtain ⟨ch, hch, _⟩ := parseChallenge_eq u (by omega)
    rw [hch]; trivial

theorem fieldsLoop_safe (cfg : Cfg) (fuel : Nat) (b : Bytes) (acc : List Bytes) (h : b.length < fuel) :
    (fieldsLoop cfg fuel b acc).Safe := by
  induction fuel generalizing b acc with
  | zero => omega
  | succ k ih =>
    unfold fieldsLoop
    by_cases hb : b.length > 0
    · simp only [hb, if_true, consumeString_eq, ok_bind]
      have hrest : (match (consumeS 0x5c b).2 with
          | some r => r
          | none => ([] : Bytes)).length < k := by
        cases hr : (consumeS 0x5c b).2 with
        | none => simp; omega
        | some r => have := consumeS_rem_length 0x5c b r hr; simp; omega
      split
      · exact ih _ _ hrest
      · split
        · trivial
        · exact ih _ _ hrest
    · simp only [hb, if_false]; trivial

theorem parseFields_safe (cfg : Cfg) (u : Bytes) : (parseFields cfg u).Safe := by
  unfold parseFields consumeCString
  rw [consumeString_eq]
  simp only [ok_bind]
  cases (consumeS 0 u).2 with
  | none => trivial
  | some rem =>
    simp only
    generalize (consumeS 0 u).1 = fb
    by_cases hlen : fb.length < 1
    · simp only [hlen, if_true]; trivial
    · simp only [hlen, if_false]
      cases fb with
      | nil => simp at hlen
      | cons b0 rest =>
        have hidx : goIndex (b0 :: rest) 0 = some b0 := rfl
        have hsl : goSlice (b0 :: rest) 1 (b0 :: rest).length = some rest := by
          rw [goSlice_drop _ 1 (by simp)]; rfl
        simp only [hidx, orPanic_some, ok_bind]
        by_cases hb0 : b0 ≠ 0x5c
        · rw [if_pos hb0]; trivial
        · rw [if_neg hb0]; simp only [hsl, orPanic_some, ok_bind]
          apply safe_bind (fieldsLoop_safe cfg _ _ _ (by omega))
          intro fields _
          split <;> trivial

theorem be32?_of_length (u : Bytes) (h : u.length = 4) : ∃ n, be32? u = some n := by
  match u, h with
  | [a, b, c, d], _ => exact ⟨_, rfl⟩

theorem validateOptionsMask_safe (u : Bytes) : (validateOptionsMask u).Safe := by
  unfold validateOptionsMask
  by_cases h : u.length ≠ 4
  · rw [if_pos h]; trivial
  · obtain ⟨n, hn⟩ := be32?_of_length u (by omega)
    rw [if_neg h]; simp only [hn, orPanic_some, ok_bind]
    split <;> trivial

theorem parseBody_safe (cfg : Cfg) (u : Bytes) : (parseBody cfg u).Safe := by
  unfold parseBody
  apply safe_bind (skipCString_safe u); intro u1 _
  apply safe_bind (skipCString_safe u1); intro u2 _
  apply safe_bind (parseChallenge_safe u2); intro p _
  obtain ⟨ch, u3⟩ := p
  apply safe_bind (parseFilters_safe u3); intro p _
  obtain ⟨fl, u4⟩ := p
  apply safe_bind (parseFields_safe cfg u4); intro p _
  obtain ⟨fs, u5⟩ := p
  apply safe_bind (validateOptionsMask_safe u5); intro _ _
  trivial

theorem be16?_of_length (u : Bytes) (h : u.length = 2) : ∃ n, be16? u = some n := by
  match u, h with
  | [a, b], _ => exact ⟨_, rfl⟩

theorem parseRequest_safe (cfg : Cfg) (h9 : 9 ≤ cfg.minLen) (data : Bytes) : (parseRequest cfg data).Safe := by
  unfold parseRequest
  by_cases h2 : data.length < 2
  · simp only [h2, if_true]; trivial
  · have hl : (data.take 2).length = 2 := by simp; omega
    obtain ⟨n, hn⟩ := be16?_of_length (data.take 2) hl
    simp only [h2, if_false, goSlice_take data 2 (by omega), orPanic_some, ok_bind, hn]
    by_cases hr : n < cfg.minLen ∨ n > data.length
    · simp only [hr, if_true]; trivial
    · have hs : goSlice data 9 n = some ((data.take n).drop 9) := by
        have : 9 ≤ n ∧ n ≤ data.length := by omega
        simp [goSlice, this]
      simp only [hr, if_false, hs, orPanic_some, ok_bind]
      exact parseBody_safe cfg _


/-! ## parsing a well-formed request -/

/-- the cap applied while known fields are appended one by one -/
def capLoop (max : Nat) : List Bytes → List Bytes → Outcome (List Bytes)
  | acc, [] => .ok acc
  | acc, f :: fs => if (acc ++ [f]).length > max then .error .tooManyFields else capLoop max (acc ++ [f]) fs

theorem capLoop_eq (max : Nat) (known acc : List Bytes) (hacc : acc.length ≤ max) :
    capLoop max acc known =
      if acc.length + known.length > max then .error .tooManyFields else .ok (acc ++ known) := by
  induction known generalizing acc with
  | nil =>
    simp [capLoop]; omega
  | cons f fs ih =>
    unfold capLoop
    by_cases h : (acc ++ [f]).length > max
    · have h' : acc.length + (f :: fs).length > max := by simp at h ⊢; omega
      rw [if_pos h, if_pos h']
    · rw [if_neg h, ih (acc ++ [f]) (by omega)]
      have e : (acc ++ [f]).length + fs.length = acc.length + (f :: fs).length := by simp; omega
      rw [e]
      simp

theorem fieldsLoop_join (cfg : Cfg) (hempty : cfg.isQueryField [] = false) (raw : List Bytes)
    (hraw : ∀ f ∈ raw, ∀ x ∈ f, x ≠ 0x5c) (acc : List Bytes) (fuel : Nat)
    (hfuel : (joinFields raw).length < fuel) :
    fieldsLoop cfg fuel (joinFields raw) acc = capLoop cfg.maxFields acc (raw.filter cfg.isQueryField) := by
  induction raw generalizing acc fuel with
  | nil =>
    cases fuel with
    | zero => omega
    | succ k => simp [joinFields, fieldsLoop, capLoop]
  | cons f tail ih =>
    cases fuel with
    | zero => omega
    | succ k =>
      have hf : ∀ x ∈ f, x ≠ 0x5c := hraw f (by simp)
      have htail : ∀ g ∈ tail, ∀ x ∈ g, x ≠ 0x5c := fun g hg => hraw g (by simp [hg])
      cases tail with
      | nil =>
        simp only [joinFields] at hfuel ⊢
        by_cases hfe : f = []
        · subst hfe
          simp [fieldsLoop, hempty, capLoop]
        · have hpos : f.length > 0 := List.length_pos_iff.mpr hfe
          have hk : (joinFields []).length < k := by simp [joinFields]; omega
          unfold fieldsLoop
          simp only [hpos, if_true, consumeString_eq, consumeS_nodelim 0x5c f hf, ok_bind]
          have ih0 := fun acc' => ih (fun g hg => by cases hg) acc' k hk
          simp only [joinFields, List.filter_nil] at ih0
          by_cases hq : cfg.isQueryField f = true
          · simp only [hq, Bool.not_true, Bool.false_eq_true, if_false, List.filter_cons, if_true, List.filter_nil, capLoop]
            split
            · rfl
            · exact ih0 _
          · have hq' : cfg.isQueryField f = false := by simpa using hq
            simp only [hq', Bool.not_false, if_true, List.filter_cons, Bool.false_eq_true, if_false, List.filter_nil]
            exact ih0 _
      | cons g rest =>
        have hJ : joinFields (f :: g :: rest) = f ++ 0x5c :: joinFields (g :: rest) := rfl
        rw [hJ] at hfuel ⊢
        have hk : (joinFields (g :: rest)).length < k := by simp at hfuel; omega
        have hpos : (f ++ 0x5c :: joinFields (g :: rest)).length > 0 := by simp; omega
        have hfilt : (f :: g :: rest).filter cfg.isQueryField =
            if cfg.isQueryField f = true then f :: (g :: rest).filter cfg.isQueryField else (g :: rest).filter cfg.isQueryField :=
          List.filter_cons
        unfold fieldsLoop
        rw [hfilt]
        simp only [hpos, if_true, consumeString_eq, consumeS_prefix 0x5c f hf, ok_bind]
        by_cases hq : cfg.isQueryField f = true
        · simp only [hq, Bool.not_true, Bool.false_eq_true, if_false, if_true]
          rw [capLoop]
          split
          · rfl
          · exact ih htail _ k hk
        · have hq' : cfg.isQueryField f = false := by simpa using hq
          simp only [hq', Bool.not_false, if_true, Bool.false_eq_true, if_false]
          exact ih htail _ k hk

theorem joinFields_nulFree (raw : List Bytes) (h : ∀ f ∈ raw, ∀ x ∈ f, x ≠ 0) : ∀ x ∈ joinFields raw, x ≠ 0 := by
  induction raw with
  | nil => intro x hx; cases hx
  | cons f tail ih =>
    cases tail with
    | nil => exact h f (by simp)
    | cons g rest =>
      intro x hx
      have hJ : joinFields (f :: g :: rest) = f ++ 0x5c :: joinFields (g :: rest) := rfl
      rw [hJ, List.mem_append, List.mem_cons] at hx
      rcases hx with hx | hx | hx
      · exact h f (by simp) x hx
      · subst hx; decide
      · exact ih (fun g' hg' => h g' (by simp [hg'])) x hx

theorem skipCString_prefix (v : Bytes) (hv : NulFree v) (rest : Bytes) : skipCString (v ++ 0 :: rest) = .ok rest := by
  simp only [skipCString, consumeCString, consumeString_eq, consumeS_prefix 0 v hv, ok_bind, pure_eq_ok]

theorem parseFilters_prefix (v : Bytes) (hv : NulFree v) (rest : Bytes) :
    parseFilters (v ++ 0 :: rest) = .ok (v, rest) := by
  simp only [parseFilters, consumeCString, consumeString_eq, consumeS_prefix 0 v hv, ok_bind, pure_eq_ok]

theorem parseFields_joined (cfg : Cfg) (hempty : cfg.isQueryField [] = false) (raw : List Bytes)
    (hraw : ∀ f ∈ raw, ∀ x ∈ f, x ≠ 0 ∧ x ≠ 0x5c) (rest : Bytes) :
    parseFields cfg (0x5c :: (joinFields raw ++ 0 :: rest)) =
      if (raw.filter cfg.isQueryField).length > cfg.maxFields then .error .tooManyFields
      else if (raw.filter cfg.isQueryField).length = 0 then .error .noFields
      else .ok (raw.filter cfg.isQueryField, rest) := by
  have hnul : NulFree (0x5c :: joinFields raw) := by
    intro x hx
    rw [List.mem_cons] at hx
    rcases hx with hx | hx
    · subst hx; decide
    · exact joinFields_nulFree raw (fun f hf x hx => (hraw f hf x hx).1) x hx
  have e : (0x5c : UInt8) :: (joinFields raw ++ 0 :: rest) = (0x5c :: joinFields raw) ++ 0 :: rest := rfl
  have hlen : ¬ (0x5c :: joinFields raw).length < 1 := by simp
  have hidx : goIndex (0x5c :: joinFields raw) 0 = some 0x5c := rfl
  have hsl : goSlice (0x5c :: joinFields raw) 1 (0x5c :: joinFields raw).length = some (joinFields raw) := by
    rw [goSlice_drop _ 1 (by simp)]; rfl
  have hne : ¬ ((0x5c : UInt8) ≠ 0x5c) := by decide
  rw [e]
  simp only [parseFields, consumeCString, consumeString_eq, consumeS_prefix 0 _ hnul, ok_bind, hlen, if_false, hidx,
    orPanic_some, hsl]
  rw [if_neg hne]
  rw [fieldsLoop_join cfg hempty raw (fun f hf x hx => (hraw f hf x hx).2) [] _ (by omega),
    capLoop_eq _ _ [] (by simp)]
  simp only [List.length_nil, Nat.zero_add, List.nil_append]
  by_cases hmax : (raw.filter cfg.isQueryField).length > cfg.maxFields
  · rw [if_pos hmax, if_pos hmax]; rfl
  · rw [if_neg hmax, if_neg hmax]; rfl


theorem validateOptionsMask_wf (b : Bool) : validateOptionsMask [0, 0, 0, if b then 1 else 0] = .ok () := by
  cases b <;> simp [validateOptionsMask, be32?, goIndex]

theorem be16?_prefix (n : Nat) (hn : n < 65536) :
    be16? [UInt8.ofNat (n / 256), UInt8.ofNat (n % 256)] = some n := by
  simp only [be16?, goIndex, List.getElem?_cons_succ, List.getElem?_cons_zero, UInt8.toNat_ofNat']
  congr 1
  omega

theorem reqBody_length_ge (r : ListRequest) (h : WfReq r) : 24 ≤ (reqBody r).length := by
  have := h.header
  simp [reqBody]
  omega

theorem parseBody_wf (cfg : Cfg) (hempty : cfg.isQueryField [] = false) (r : ListRequest) (h : WfReq r) :
    parseBody cfg (r.gameName ++ 0 :: (r.queryGame ++ 0 :: (r.challenge.toList ++ (r.filter ++ 0 ::
      (0x5c :: (joinFields r.rawFields ++ 0 :: [0, 0, 0, if r.withFields then 1 else 0])))))) =
      if (knownFields cfg.isQueryField r).length > cfg.maxFields then .error .tooManyFields
      else if (knownFields cfg.isQueryField r).length = 0 then .error .noFields
      else .ok { filters := r.filter, fields := knownFields cfg.isQueryField r, challenge := r.challenge } := by
  have h8 : 8 ≤ (r.challenge.toList ++ (r.filter ++ 0 ::
      (0x5c :: (joinFields r.rawFields ++ 0 :: [0, 0, 0, if r.withFields then 1 else 0])))).length := by simp
  obtain ⟨ch, hch, hlist⟩ := parseChallenge_eq _ h8
  have hl8 : r.challenge.toList.length = 8 := by simp
  have htake : (r.challenge.toList ++ (r.filter ++ 0 ::
      (0x5c :: (joinFields r.rawFields ++ 0 :: [0, 0, 0, if r.withFields then 1 else 0])))).take 8 = r.challenge.toList := by
    rw [List.take_append_of_le_length (by omega), List.take_of_length_le (by omega)]
  have hdrop : (r.challenge.toList ++ (r.filter ++ 0 ::
      (0x5c :: (joinFields r.rawFields ++ 0 :: [0, 0, 0, if r.withFields then 1 else 0])))).drop 8 = (r.filter ++ 0 ::
      (0x5c :: (joinFields r.rawFields ++ 0 :: [0, 0, 0, if r.withFields then 1 else 0]))) := List.drop_left' hl8
  rw [htake] at hlist
  have hchEq : ch = r.challenge := by
    apply Vector.toList_inj.mp hlist
  rw [hdrop, hchEq] at hch
  simp only [parseBody, skipCString_prefix r.gameName h.gameName, skipCString_prefix r.queryGame h.queryGame, ok_bind, hch,
    parseFilters_prefix r.filter h.filter, parseFields_joined cfg hempty r.rawFields h.fields]
  unfold knownFields
  by_cases hmax : (r.rawFields.filter cfg.isQueryField).length > cfg.maxFields
  · rw [if_pos hmax, if_pos hmax]; rfl
  · rw [if_neg hmax, if_neg hmax]
    by_cases hz : (r.rawFields.filter cfg.isQueryField).length = 0
    · rw [if_pos hz, if_pos hz]; rfl
    · rw [if_neg hz, if_neg hz]
      simp only [ok_bind, validateOptionsMask_wf, pure_eq_ok]

/-- `NewRequest` on a well-formed request -/
theorem parseRequest_encodeReq (cfg : Cfg) (h9 : 9 ≤ cfg.minLen) (h26 : cfg.minLen ≤ 26)
    (hempty : cfg.isQueryField [] = false) (r : ListRequest) (h : WfReq r) :
    parseRequest cfg (encodeReq r) =
      if (knownFields cfg.isQueryField r).length > cfg.maxFields then .error .tooManyFields
      else if (knownFields cfg.isQueryField r).length = 0 then .error .noFields
      else .ok { filters := r.filter, fields := knownFields cfg.isQueryField r, challenge := r.challenge } := by
  have hlen := h.length
  have h24 := reqBody_length_ge r h
  generalize hn : (reqBody r).length + 2 = n at hlen
  have hdata : encodeReq r = UInt8.ofNat (n / 256) :: UInt8.ofNat (n % 256) :: reqBody r := by
    unfold encodeReq; simp only [hn]
  have hdl : (encodeReq r).length = n := by rw [hdata]; simp; omega
  have h2 : ¬ (encodeReq r).length < 2 := by omega
  have hs2 : goSlice (encodeReq r) 0 2 = some [UInt8.ofNat (n / 256), UInt8.ofNat (n % 256)] := by
    rw [goSlice_take _ 2 (by omega), hdata]; rfl
  have hcond : ¬ (n < cfg.minLen ∨ n > (encodeReq r).length) := by omega
  have hs9 : goSlice (encodeReq r) 9 n = some (r.gameName ++ 0 :: (r.queryGame ++ 0 :: (r.challenge.toList ++ (r.filter ++ 0 ::
      (0x5c :: (joinFields r.rawFields ++ 0 :: [0, 0, 0, if r.withFields then 1 else 0])))))) := by
    have hle : 9 ≤ n ∧ n ≤ (encodeReq r).length := by omega
    simp only [goSlice, hle, and_self, if_true]
    rw [← hdl, List.take_length, hdata]
    have e : UInt8.ofNat (n / 256) :: UInt8.ofNat (n % 256) :: reqBody r =
        (UInt8.ofNat (n / 256) :: UInt8.ofNat (n % 256) :: r.header) ++ (r.gameName ++ 0 :: (r.queryGame ++ 0 :: (r.challenge.toList ++ (r.filter ++ 0 ::
      (0x5c :: (joinFields r.rawFields ++ 0 :: [0, 0, 0, if r.withFields then 1 else 0])))))) := by
      simp [reqBody]
    rw [e]
    congr 1
    exact List.drop_left' (by simp [h.header])
  simp only [parseRequest, h2, if_false, hs2, orPanic_some, ok_bind, be16?_prefix n hlen, hcond, hs9]
  exact parseBody_wf cfg hempty r h

end Swat4.Browsing
