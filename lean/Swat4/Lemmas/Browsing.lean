import Swat4.Model.Browsing
import Swat4.Spec.ServerList
import Swat4.Spec.ServerListExpected
/-!
# Lemmas for C01: scanner lemmas of the SDK list decoder against the packed bytes
-/
namespace Swat4.Browsing
open Swat4 Swat4.SBList

/-! ## the SDK decoder's scanners on packed pieces -/

theorem cstring_append (v : Bytes) (hv : NulFree v) (rest : Bytes) :
    cstring (v ++ 0 :: rest) = some (v, rest) := by
  induction v with
  | nil => simp [cstring]
  | cons b bs ih =>
    have hb : b ≠ 0 := hv b (by simp)
    have hbs : NulFree bs := fun x hx => hv x (by simp [hx])
    simp [cstring, hb, ih hbs]

theorem takeN_append (p rest : Bytes) : takeN p.length (p ++ rest) = some (p, rest) := by
  simp [takeN]

theorem stripNul_nulFree (v : Bytes) : NulFree (stripNul v) := by
  intro x hx
  simp [stripNul] at hx
  exact hx.2

theorem stripNul_eq_dropNul (v : Bytes) : stripNul v = dropNul v := rfl

theorem beNat_u16be (v : Nat) (hv : v < 65536) : beNat (u16be v) = v := by
  simp [beNat, u16be, UInt8.toNat_ofNat']
  omega

/-- the key list of the SDK framing over the declared field names:
`00 name₁ 00 00 name₂ 00 … 00 nameₙ 00 00` reads as `n` string keys, leaving the popular-value count `00` -/
theorem keyList_decls (fields : List Bytes) (hn : ∀ f ∈ fields, NulFree f) (rest : Bytes) :
    keyList fields.length (0 :: (fields.flatMap (fun f => f ++ [0x00, 0x00]) ++ rest)) =
      some (fields.map (fun f => ((0 : UInt8), f)), 0 :: rest) := by
  induction fields with
  | nil => simp [keyList]
  | cons f fs ih =>
    have hf : NulFree f := hn f (by simp)
    have hfs : ∀ g ∈ fs, NulFree g := fun g hg => hn g (by simp [hg])
    have e : (0 : UInt8) :: ((f :: fs).flatMap (fun f => f ++ [0x00, 0x00]) ++ rest) =
        0 :: (f ++ 0 :: (0 :: (fs.flatMap (fun f => f ++ [0x00, 0x00]) ++ rest))) := by
      simp [List.flatMap_cons, List.append_assoc]
    rw [e]
    simp only [List.length_cons, keyList, cstring_append f hf, ih hfs, List.map_cons]

/-- the values of one entry: `FF value 00` per key, every key a string key, no popular values -/
theorem keyValues_inline (fields : List Bytes) (val : Bytes → Bytes) (hv : ∀ f, NulFree (val f)) (rest : Bytes) :
    keyValues [] (fields.map (fun f => ((0 : UInt8), f))) (fields.flatMap (fun f => 0xff :: (val f ++ [0x00])) ++ rest) =
      some (fields.map val, rest) := by
  induction fields with
  | nil => simp [keyValues]
  | cons f fs ih =>
    have e : (f :: fs).flatMap (fun f => 0xff :: (val f ++ [0x00])) ++ rest =
        0xff :: (val f ++ 0 :: (fs.flatMap (fun f => 0xff :: (val f ++ [0x00])) ++ rest)) := by
      simp [List.flatMap_cons, List.append_assoc]
    rw [e]
    simp only [List.map_cons, keyValues, keyValue, if_true, cstring_append (val f) (hv f), ih]


/-! ## entries -/

/-- the value `packServers` emits for `field` of a server whose `Marshal` result is `ps` -/
def packedValue (ps : List (Bytes × Bytes)) (field : Bytes) : Bytes :=
  match paramsLookup ps field with
  | some val => stripNul val
  | none => []

theorem packedValue_nulFree (ps : List (Bytes × Bytes)) (f : Bytes) : NulFree (packedValue ps f) := by
  unfold packedValue
  split
  · exact stripNul_nulFree _
  · intro x hx; cases hx

/-- a server that `Marshal`s, with its parameter map -/
abbrev Prepared := Server × List (Bytes × Bytes)

def prepare (schema : Schema) (s : Server) : Option Prepared := (marshalInfo schema s.info).map fun ps => (s, ps)

def packPrepared (fields : List Bytes) (p : Prepared) : Bytes :=
  0x51 :: (p.1.ip.toBytes ++ u16be (toU16 p.1.queryPort) ++ fields.flatMap (fun f => 0xff :: (packedValue p.2 f ++ [0x00])))

def entryOfPrepared (fields : List Bytes) (p : Prepared) : Entry :=
  { ip := p.1.ip.toBytes, port := toU16 p.1.queryPort, values := fields.map (packedValue p.2) }

theorem flatMap_packServer (schema : Schema) (fields : List Bytes) (servers : List Server) :
    servers.flatMap (packServer schema fields) = (servers.filterMap (prepare schema)).flatMap (packPrepared fields) := by
  induction servers with
  | nil => rfl
  | cons s ss ih =>
    rw [List.flatMap_cons, List.filterMap_cons, ih]
    unfold prepare packServer
    cases h : marshalInfo schema s.info with
    | none => simp
    | some ps =>
      have hfun : packValue ps = fun f => 0xff :: (packedValue ps f ++ [0x00]) := by
        funext f; unfold packValue packedValue; cases paramsLookup ps f <;> rfl
      simp [List.flatMap_cons, packPrepared, hfun]

theorem toU16_lt (x : Int) : toU16 x < 65536 := by
  unfold toU16; omega

theorem packPrepared_length_pos (fields : List Bytes) (p : Prepared) : 0 < (packPrepared fields p).length := by
  simp [packPrepared]

theorem length_le_flatMap_packPrepared (fields : List Bytes) (L : List Prepared) :
    L.length ≤ (L.flatMap (packPrepared fields)).length := by
  induction L with
  | nil => simp
  | cons p L ih =>
    have := packPrepared_length_pos fields p
    simp only [List.flatMap_cons, List.length_append, List.length_cons]
    omega

/-- the entry decoder consumes exactly one packed entry per server and then sees the end marker -/
theorem entries_packed (fields : List Bytes) (dp : Nat) (trailing : Bytes) (L : List Prepared)
    (hip : ∀ p ∈ L, p.1.ip.toBytes ≠ lastServerMarker) (fuel : Nat) (hfuel : L.length < fuel) :
    entries (fields.map (fun f => ((0 : UInt8), f))) [] dp fuel
        (L.flatMap (packPrepared fields) ++ (0x00 :: 0xff :: 0xff :: 0xff :: 0xff :: trailing)) =
      some (L.map (entryOfPrepared fields), trailing) := by
  induction L generalizing fuel with
  | nil =>
    cases fuel with
    | zero => omega
    | succ k =>
      have t4 := takeN_append lastServerMarker trailing
      have h4 : lastServerMarker.length = 4 := rfl
      rw [h4] at t4
      have e : (0xff : UInt8) :: 0xff :: 0xff :: 0xff :: trailing = lastServerMarker ++ trailing := rfl
      simp only [List.flatMap_nil, List.nil_append, entries, e, t4, if_true, List.map_nil]
  | cons p L ih =>
    cases fuel with
    | zero => omega
    | succ k =>
      have hk : L.length < k := by simp at hfuel; omega
      have hp : p.1.ip.toBytes ≠ lastServerMarker := hip p (by simp)
      have hL : ∀ q ∈ L, q.1.ip.toBytes ≠ lastServerMarker := fun q hq => hip q (by simp [hq])
      have e : (p :: L).flatMap (packPrepared fields) ++ (0x00 :: 0xff :: 0xff :: 0xff :: 0xff :: trailing) =
          0x51 :: (p.1.ip.toBytes ++ (u16be (toU16 p.1.queryPort) ++
            (fields.flatMap (fun f => 0xff :: (packedValue p.2 f ++ [0x00])) ++
              (L.flatMap (packPrepared fields) ++ (0x00 :: 0xff :: 0xff :: 0xff :: 0xff :: trailing))))) := by
        simp [List.flatMap_cons, packPrepared, List.append_assoc]
      rw [e]
      have h4 : p.1.ip.toBytes.length = 4 := rfl
      have h2 : (u16be (toU16 p.1.queryPort)).length = 2 := rfl
      have t4 := takeN_append p.1.ip.toBytes (u16be (toU16 p.1.queryPort) ++
            (fields.flatMap (fun f => 0xff :: (packedValue p.2 f ++ [0x00])) ++
              (L.flatMap (packPrepared fields) ++ (0x00 :: 0xff :: 0xff :: 0xff :: 0xff :: trailing))))
      rw [h4] at t4
      have t2 := takeN_append (u16be (toU16 p.1.queryPort))
            (fields.flatMap (fun f => 0xff :: (packedValue p.2 f ++ [0x00])) ++
              (L.flatMap (packPrepared fields) ++ (0x00 :: 0xff :: 0xff :: 0xff :: 0xff :: trailing)))
      rw [h2] at t2
      have f10 : ((0x51 : UInt8) &&& 0x10 ≠ 0) = True := by decide
      have f02 : ((0x51 : UInt8) &&& 0x02 ≠ 0) = False := by decide
      have f20 : ((0x51 : UInt8) &&& 0x20 ≠ 0) = False := by decide
      have f08 : ((0x51 : UInt8) &&& 0x08 ≠ 0) = False := by decide
      have f40 : ((0x51 : UInt8) &&& 0x40 ≠ 0) = True := by decide
      have f80 : ((0x51 : UInt8) &&& 0x80 ≠ 0) = False := by decide
      simp only [entries, t4, hp, if_false, f10, f02, f20, f08, f40, f80, if_true, t2, Option.map_some, skipIf,
        decide_false, Bool.false_eq_true, keyValues_inline fields (packedValue p.2) (packedValue_nulFree p.2),
        ih hL k hk, beNat_u16be _ (toU16_lt _), List.map_cons, entryOfPrepared]


theorem mem_filterMap_prepare {schema : Schema} {servers : List Server} {p : Prepared}
    (h : p ∈ servers.filterMap (prepare schema)) : p.1 ∈ servers := by
  rw [List.mem_filterMap] at h
  obtain ⟨s, hs, hp⟩ := h
  unfold prepare at hp
  cases hm : marshalInfo schema s.info with
  | none => rw [hm] at hp; cases hp
  | some ps => rw [hm] at hp; cases hp; exact hs

/-- **decoding the packed bytes**, for any schema: the SDK decoder returns the requester's address,
the declared fields, one entry per server that `Marshal`s (in order) and sees the end marker with
nothing after it -/
theorem sdkDecode_packServers (schema : Schema) (client : Client) (fields : List Bytes) (servers : List Server)
    (dp : Nat) (hf : fields.length ≤ 255) (hn : ∀ f ∈ fields, NulFree f)
    (hip : ∀ s ∈ servers, s.ip.toBytes ≠ lastServerMarker) :
    sdkDecode (packServers schema client fields servers) dp =
      some { clientIp := client.ip.toBytes, clientPort := client.port % 65536, fields := fields, entries := (servers.filterMap (prepare schema)).map (entryOfPrepared fields), trailing := [] } := by
  have hnot : ¬ fields.length > 255 := by omega
  unfold packServers
  simp only [hnot, if_false]
  rw [flatMap_packServer]
  generalize hL : servers.filterMap (prepare schema) = L
  have hipL : ∀ p ∈ L, p.1.ip.toBytes ≠ lastServerMarker := by
    intro p hp; rw [← hL] at hp; exact hip p.1 (mem_filterMap_prepare hp)
  have e : client.ip.toBytes ++ u16be (client.port % 65536) ++ [UInt8.ofNat fields.length, 0x00]
        ++ fields.flatMap (fun f => f ++ [0x00, 0x00]) ++ L.flatMap (packPrepared fields) ++ [0x00, 0xff, 0xff, 0xff, 0xff] =
      client.ip.toBytes ++ (u16be (client.port % 65536) ++ (UInt8.ofNat fields.length ::
        (0 :: (fields.flatMap (fun f => f ++ [0x00, 0x00]) ++
          (L.flatMap (packPrepared fields) ++ (0x00 :: 0xff :: 0xff :: 0xff :: 0xff :: [])))))) := by
    simp [List.append_assoc]
  rw [e]
  have h4 : client.ip.toBytes.length = 4 := rfl
  have h2 : (u16be (client.port % 65536)).length = 2 := rfl
  have t4 := takeN_append client.ip.toBytes (u16be (client.port % 65536) ++ (UInt8.ofNat fields.length ::
        (0 :: (fields.flatMap (fun f => f ++ [0x00, 0x00]) ++
          (L.flatMap (packPrepared fields) ++ (0x00 :: 0xff :: 0xff :: 0xff :: 0xff :: []))))))
  rw [h4] at t4
  have t2 := takeN_append (u16be (client.port % 65536)) (UInt8.ofNat fields.length ::
        (0 :: (fields.flatMap (fun f => f ++ [0x00, 0x00]) ++
          (L.flatMap (packPrepared fields) ++ (0x00 :: 0xff :: 0xff :: 0xff :: 0xff :: [])))))
  rw [h2] at t2
  have hcount : (UInt8.ofNat fields.length).toNat = fields.length := by
    rw [UInt8.toNat_ofNat']; omega
  have hfuel : L.length < (L.flatMap (packPrepared fields) ++ (0x00 :: 0xff :: 0xff :: 0xff :: 0xff :: [])).length := by
    have := length_le_flatMap_packPrepared fields L
    simp only [List.length_append, List.length_cons, List.length_nil]; omega
  have hport : client.port % 65536 < 65536 := Nat.mod_lt _ (by decide)
  simp only [sdkDecode, t4, t2, hcount, keyList_decls fields hn, UInt8.toNat_zero, stringList,
    entries_packed fields dp [] L hipL _ hfuel, beNat_u16be _ hport, List.map_map]
  congr 2
  simp [Function.comp_def]


/-! ## `params.Marshal` + map lookup = the stored value of the field -/

/-- the `Marshal` result of a well-typed record -/
def renderAll : Schema → Info → List (Bytes × Bytes)
  | (name, _) :: sch, v :: vs => (name, renderVal v) :: renderAll sch vs
  | _, _ => []

theorem marshalInfo_wellTyped (schema : Schema) (info : Info) (h : WellTyped schema info) :
    marshalInfo schema info = some (renderAll schema info) := by
  induction schema generalizing info with
  | nil =>
    cases info with
    | nil => rfl
    | cons v vs => exact absurd h (by simp [WellTyped])
  | cons e sch ih =>
    obtain ⟨name, k⟩ := e
    cases info with
    | nil => exact absurd h (by simp [WellTyped])
    | cons v vs =>
      simp only [WellTyped] at h
      obtain ⟨hk, hrest⟩ := h
      have hf : marshalField k v = some (renderVal v) := by
        match k, v, hk with
        | 0, .int _, _ => rfl
        | 1, .bool true, _ => rfl
        | 1, .bool false, _ => rfl
        | 2, .str _, _ => rfl
      simp only [marshalInfo, hf, ih vs hrest, renderAll]

theorem paramsLookup_foldl_notin (ps : List (Bytes × Bytes)) (f : Bytes) (acc : Option Bytes)
    (h : f ∉ ps.map (·.1)) :
    ps.foldl (fun acc kv => if kv.1 = f then some kv.2 else acc) acc = acc := by
  induction ps generalizing acc with
  | nil => rfl
  | cons kv rest ih =>
    simp only [List.map_cons, List.mem_cons, not_or] at h
    have hne : ¬ kv.1 = f := fun e => h.1 e.symm
    simp only [List.foldl_cons, hne, if_false]
    exact ih acc h.2

theorem renderAll_keys_notin (schema : Schema) (info : Info) (f : Bytes) (h : f ∉ schema.map (·.1)) :
    f ∉ (renderAll schema info).map (·.1) := by
  induction schema generalizing info with
  | nil => simp [renderAll]
  | cons e sch ih =>
    obtain ⟨name, k⟩ := e
    cases info with
    | nil => simp [renderAll]
    | cons v vs =>
      simp only [List.map_cons, List.mem_cons, not_or] at h
      simp only [renderAll, List.map_cons, List.mem_cons, not_or]
      exact ⟨h.1, ih vs h.2⟩

theorem paramsLookup_renderAll (schema : Schema) (info : Info) (f : Bytes) (hnd : (schema.map (·.1)).Nodup) :
    (match paramsLookup (renderAll schema info) f with
      | some v => v
      | none => []) = paramValue schema info f := by
  induction schema generalizing info with
  | nil => simp [renderAll, paramsLookup, paramValue]
  | cons e sch ih =>
    obtain ⟨name, k⟩ := e
    cases info with
    | nil => simp [renderAll, paramsLookup, paramValue]
    | cons v vs =>
      simp only [List.map_cons, List.nodup_cons] at hnd
      obtain ⟨hname, hnd'⟩ := hnd
      by_cases hnf : name = f
      · subst hnf
        have hnot := renderAll_keys_notin sch vs name hname
        simp only [renderAll, paramsLookup, List.foldl_cons, if_true, paramValue]
        rw [paramsLookup_foldl_notin _ _ _ hnot]
      · have := ih vs hnd'
        simp only [renderAll, paramsLookup, List.foldl_cons, hnf, if_false, paramValue]
        exact this

theorem packedValue_renderAll (schema : Schema) (info : Info) (f : Bytes) (hnd : (schema.map (·.1)).Nodup) :
    packedValue (renderAll schema info) f = dropNul (paramValue schema info f) := by
  rw [← paramsLookup_renderAll schema info f hnd]
  unfold packedValue
  cases paramsLookup (renderAll schema info) f with
  | none => rfl
  | some v => rfl

theorem filterMap_prepare_wellTyped (schema : Schema) (servers : List Server)
    (hwt : ∀ s ∈ servers, WellTyped schema s.info) :
    servers.filterMap (prepare schema) = servers.map fun s => (s, renderAll schema s.info) := by
  induction servers with
  | nil => rfl
  | cons s ss ih =>
    have h1 : prepare schema s = some (s, renderAll schema s.info) := by
      unfold prepare; rw [marshalInfo_wellTyped schema s.info (hwt s (by simp))]; rfl
    rw [List.filterMap_cons, h1, List.map_cons, ih (fun t ht => hwt t (by simp [ht]))]

theorem entryOfPrepared_renderAll (schema : Schema) (fields : List Bytes) (s : Server) (hnd : (schema.map (·.1)).Nodup) :
    entryOfPrepared fields (s, renderAll schema s.info) = expectedEntry schema fields s := by
  have hfun : packedValue (renderAll schema s.info) = fun f => dropNul (paramValue schema s.info f) := by
    funext f; exact packedValue_renderAll schema s.info f hnd
  unfold entryOfPrepared expectedEntry
  rw [hfun]
  rfl


/-! ## the request parser -/

@[simp] theorem ok_bind {α β : Type} (a : α) (f : α → Outcome β) : (Outcome.ok a >>= f) = f a := rfl
@[simp] theorem error_bind {α β : Type} (e : ReqErr) (f : α → Outcome β) : ((Outcome.error e : Outcome α) >>= f) = .error e := rfl
@[simp] theorem panic_bind {α β : Type} (f : α → Outcome β) : ((Outcome.panic : Outcome α) >>= f) = .panic := rfl
@[simp] theorem hang_bind {α β : Type} (f : α → Outcome β) : ((Outcome.hang : Outcome α) >>= f) = .hang := rfl
@[simp] theorem pure_eq_ok {α : Type} (a : α) : (pure a : Outcome α) = .ok a := rfl
@[simp] theorem orPanic_some {α : Type} (a : α) : orPanic (some a) = .ok a := rfl
@[simp] theorem orPanic_none {α : Type} : orPanic (none : Option α) = .panic := rfl

/-- `ConsumeString` as a structural scanner: the bytes before the first delimiter, and what
follows it (`none` when there is no delimiter) -/
def consumeS (delim : UInt8) : Bytes → Bytes × Option Bytes
  | [] => ([], none)
  | b :: bs => if b = delim then ([], some bs) else (b :: (consumeS delim bs).1, (consumeS delim bs).2)

theorem consumeStringAt_eq (delim : UInt8) (suf pre : Bytes) :
    consumeStringAt (pre ++ suf) delim suf.length pre.length =
      .ok (pre ++ (consumeS delim suf).1, (consumeS delim suf).2) := by
  induction suf generalizing pre with
  | nil => simp [consumeStringAt, consumeS]
  | cons b suf ih =>
    have hidx : goIndex (pre ++ b :: suf) pre.length = some b := by simp [goIndex]
    simp only [List.length_cons, consumeStringAt, hidx, orPanic_some, ok_bind]
    by_cases hb : b = delim
    · subst hb
      have h1 : goSlice (pre ++ b :: suf) 0 pre.length = some pre := by simp [goSlice]
      have h2 : goSlice (pre ++ b :: suf) (pre.length + 1) (pre ++ b :: suf).length = some suf := by
        have hle : pre.length + 1 ≤ (pre ++ b :: suf).length := by simp
        simp only [goSlice, hle, Nat.le_refl, and_self, if_true, List.take_length]
        simp
      simp only [if_true, h1, h2, orPanic_some, ok_bind, pure_eq_ok, consumeS, List.append_nil]
    · have e : pre ++ b :: suf = (pre ++ [b]) ++ suf := by simp
      have hl : pre.length + 1 = (pre ++ [b]).length := by simp
      simp only [hb, if_false, consumeS]
      rw [e, hl, ih (pre ++ [b])]
      simp

/-- `ConsumeString` never panics, and computes the structural scanner -/
theorem consumeString_eq (data : Bytes) (delim : UInt8) : consumeString data delim = .ok (consumeS delim data) := by
  have := consumeStringAt_eq delim data []
  simpa [consumeString] using this

theorem consumeS_prefix (delim : UInt8) (v : Bytes) (hv : ∀ x ∈ v, x ≠ delim) (rest : Bytes) :
    consumeS delim (v ++ delim :: rest) = (v, some rest) := by
  induction v with
  | nil => simp [consumeS]
  | cons b bs ih =>
    have hb : b ≠ delim := hv b (by simp)
    have := ih (fun x hx => hv x (by simp [hx]))
    simp [consumeS, hb, this]

theorem consumeS_nodelim (delim : UInt8) (v : Bytes) (hv : ∀ x ∈ v, x ≠ delim) : consumeS delim v = (v, none) := by
  induction v with
  | nil => rfl
  | cons b bs ih =>
    have hb : b ≠ delim := hv b (by simp)
    have := ih (fun x hx => hv x (by simp [hx]))
    simp [consumeS, hb, this]

/-- the remainder after a found delimiter is strictly shorter -/
theorem consumeS_rem_length (delim : UInt8) (data r : Bytes) (h : (consumeS delim data).2 = some r) :
    r.length < data.length := by
  induction data with
  | nil => simp [consumeS] at h
  | cons b bs ih =>
    by_cases hb : b = delim
    · simp [consumeS, hb] at h; subst h; simp
    · simp [consumeS, hb] at h
      have := ih h
      simp; omega


/-! ## totality: no Go index / slice expression of the parser can fail, no loop can run on -/

/-- neither a panic nor an exhausted loop -/
def Outcome.Safe {α : Type} : Outcome α → Prop
  | .ok _ => True
  | .error _ => True
  | .panic => False
  | .hang => False

theorem safe_bind {α β : Type} {o : Outcome α} {f : α → Outcome β} (ho : o.Safe)
    (hf : ∀ a, o = .ok a → (f a).Safe) : (o >>= f).Safe := by
  cases o with
  | ok a => exact hf a rfl
  | error e => trivial
  | panic => exact ho
  | hang => exact ho

theorem skipCString_safe (u : Bytes) : (skipCString u).Safe := by
  unfold skipCString consumeCString
  rw [consumeString_eq]
  simp only [ok_bind]
  cases (consumeS 0 u).2 <;> trivial

theorem parseFilters_safe (u : Bytes) : (parseFilters u).Safe := by
  unfold parseFilters consumeCString
  rw [consumeString_eq]
  simp only [ok_bind]
  cases (consumeS 0 u).2 <;> trivial

theorem toChallenge_of_length (c : Bytes) (h : c.length = 8) : ∃ ch, toChallenge c = some ch ∧ ch.toList = c := by
  have h' : c.toArray.size = 8 := by simpa using h
  refine ⟨⟨c.toArray, h'⟩, ?_, ?_⟩
  · unfold toChallenge; rw [dif_pos h']
  · simp [Vector.toList]

theorem goSlice_take (u : Bytes) (n : Nat) (h : n ≤ u.length) : goSlice u 0 n = some (u.take n) := by
  simp [goSlice, h]

theorem goSlice_drop (u : Bytes) (n : Nat) (h : n ≤ u.length) : goSlice u n u.length = some (u.drop n) := by
  simp [goSlice, h]

theorem parseChallenge_eq (u : Bytes) (h : 8 ≤ u.length) :
    ∃ ch, parseChallenge u = .ok (ch, u.drop 8) ∧ ch.toList = u.take 8 := by
  have hl : (u.take 8).length = 8 := by simp; omega
  obtain ⟨ch, hch, hlist⟩ := toChallenge_of_length (u.take 8) hl
  refine ⟨ch, ?_, hlist⟩
  have hnot : ¬ u.length < 8 := by omega
  simp only [parseChallenge, hnot, if_false, goSlice_take u 8 h, goSlice_drop u 8 h, orPanic_some, ok_bind, hch, pure_eq_ok]

theorem parseChallenge_safe (u : Bytes) : (parseChallenge u).Safe := by
  by_cases h : u.length < 8
  · simp only [parseChallenge, h, if_true]; trivial
  · obtain ⟨ch, hch, _⟩ := parseChallenge_eq u (by omega)
    rw [hch]; trivial

theorem fieldsLoop_safe (cfg : Cfg) (fuel : Nat) (b : Bytes) (acc : List Bytes) (h : b.length < fuel) :
    (fieldsLoop cfg fuel b acc).Safe := by
  induction fuel generalizing b acc with
  | zero => omega
  | succ k ih =>
    unfold fieldsLoop
    by_cases hb : b.length > 0
    · simp only [hb, if_true, consumeString_eq, ok_bind]
      have hrest : (match (consumeS 0x5c b).2 with
          | some r => r
          | none => ([] : Bytes)).length < k := by
        cases hr : (consumeS 0x5c b).2 with
        | none => simp; omega
        | some r => have := consumeS_rem_length 0x5c b r hr; simp; omega
      split
      · exact ih _ _ hrest
      · split
        · trivial
        · exact ih _ _ hrest
    · simp only [hb, if_false]; trivial

theorem parseFields_safe (cfg : Cfg) (u : Bytes) : (parseFields cfg u).Safe := by
  unfold parseFields consumeCString
  rw [consumeString_eq]
  simp only [ok_bind]
  cases (consumeS 0 u).2 with
  | none => trivial
  | some rem =>
    simp only
    generalize (consumeS 0 u).1 = fb
    by_cases hlen : fb.length < 1
    · simp only [hlen, if_true]; trivial
    · simp only [hlen, if_false]
      cases fb with
      | nil => simp at hlen
      | cons b0 rest =>
        have hidx : goIndex (b0 :: rest) 0 = some b0 := rfl
        have hsl : goSlice (b0 :: rest) 1 (b0 :: rest).length = some rest := by
          rw [goSlice_drop _ 1 (by simp)]; rfl
        simp only [hidx, orPanic_some, ok_bind]
        by_cases hb0 : b0 ≠ 0x5c
        · rw [if_pos hb0]; trivial
        · rw [if_neg hb0]; simp only [hsl, orPanic_some, ok_bind]
          apply safe_bind (fieldsLoop_safe cfg _ _ _ (by omega))
          intro fields _
          split <;> trivial

theorem be32?_of_length (u : Bytes) (h : u.length = 4) : ∃ n, be32? u = some n := by
  match u, h with
  | [a, b, c, d], _ => exact ⟨_, rfl⟩

theorem validateOptionsMask_safe (u : Bytes) : (validateOptionsMask u).Safe := by
  unfold validateOptionsMask
  by_cases h : u.length ≠ 4
  · rw [if_pos h]; trivial
  · obtain ⟨n, hn⟩ := be32?_of_length u (by omega)
    rw [if_neg h]; simp only [hn, orPanic_some, ok_bind]
    split <;> trivial

theorem parseBody_safe (cfg : Cfg) (u : Bytes) : (parseBody cfg u).Safe := by
  unfold parseBody
  apply safe_bind (skipCString_safe u); intro u1 _
  apply safe_bind (skipCString_safe u1); intro u2 _
  apply safe_bind (parseChallenge_safe u2); intro p _
  obtain ⟨ch, u3⟩ := p
  apply safe_bind (parseFilters_safe u3); intro p _
  obtain ⟨fl, u4⟩ := p
  apply safe_bind (parseFields_safe cfg u4); intro p _
  obtain ⟨fs, u5⟩ := p
  apply safe_bind (validateOptionsMask_safe u5); intro _ _
  trivial

theorem be16?_of_length (u : Bytes) (h : u.length = 2) : ∃ n, be16? u = some n := by
  match u, h with
  | [a, b], _ => exact ⟨_, rfl⟩

theorem parseRequest_safe (cfg : Cfg) (h9 : 9 ≤ cfg.minLen) (data : Bytes) : (parseRequest cfg data).Safe := by
  unfold parseRequest
  by_cases h2 : data.length < 2
  · simp only [h2, if_true]; trivial
  · have hl : (data.take 2).length = 2 := by simp; omega
    obtain ⟨n, hn⟩ := be16?_of_length (data.take 2) hl
    simp only [h2, if_false, goSlice_take data 2 (by omega), orPanic_some, ok_bind, hn]
    by_cases hr : n < cfg.minLen ∨ n > data.length
    · simp only [hr, if_true]; trivial
    · have hs : goSlice data 9 n = some ((data.take n).drop 9) := by
        have : 9 ≤ n ∧ n ≤ data.length := by omega
        simp [goSlice, this]
      simp only [hr, if_false, hs, orPanic_some, ok_bind]
      exact parseBody_safe cfg _

end Swat4.Browsing
