import Swat4.Lemmas.QueueSys
/-!
# How many storage commands a `PopMany` call executes under interference (helper lemmas for C12)

`PopMany` has no WATCH/retry loop, but it has a loop: rounds of `ZRANGEBYSCORE` + `ZREM/HMGET/HDEL` "until the batch is
full or a round finds nothing".  A round that finds only *expired* items does not grow the batch, so other clients can keep
a consumer busy by feeding it expired entries.  What bounds the call is a potential `QPC.prog`:

* every command a live `PopMany` executes raises `prog` of its pc by at least one, **whatever the store, the clock and
  the id counter are at that moment** (`qstep_pop_prog`: the environment is universally quantified, so this covers
  everything other clients may do between two of its commands);
* `prog pc ≤ 2 · (items held + expired counted) + 2`.

`QSys.ownCmds i s es` counts the commands client `i` executes along a schedule (the trace labels the model emits for `i`'s
events); `ownCmds_le_prog`: it is bounded by the growth of `prog`.
-/
namespace Swat4
open Std

/-- potential of a `PopMany` pc: twice the number of entries consumed so far (held + counted expired), plus the position
within the round -/
def QPC.prog : QPC → Nat
  | .popRange got e => 2 * (got.length + e)
  | .popExec got e _ _ => 2 * (got.length + e) + 1
  | .done (.probes ps e) => 2 * (ps.length + e) + 2
  | _ => 0

theorem popNext_prog (n : Int) (got : List (Probe × Int)) (e : Nat) (items : List ((Probe × GoTime) × Int)) (clock : Int) :
    (QPC.popExec got e [] []).prog < (popNext n got e items clock).prog ∧ okFor (.popMany n) (popNext n got e items clock) := by
  unfold popNext
  by_cases h1 : items.isEmpty = true
  · simp only [h1, if_true, QPC.prog, finishBatch_length]
    exact ⟨by omega, trivial⟩
  · simp only [h1, Bool.false_eq_true, if_false]
    have hpos : 0 < items.length := by
      cases items with
      | nil => simp at h1
      | cons x xs => simp
    have hk : (items.filter fun it => !expiredAt it.1.2 clock).length ≤ items.length := List.length_filter_le _ _
    split
    · simp only [QPC.prog, List.length_append, List.length_map]
      exact ⟨by omega, trivial⟩
    · simp only [QPC.prog, finishBatch_length, List.length_append, List.length_map]
      exact ⟨by omega, trivial⟩

/-- **one command of a live `PopMany` raises the potential** — for every store, clock and id counter -/
theorem qstep_pop_prog (st : RStore) (clock : Int) (fresh : Nat) (n : Int) (pc : QPC) (hl : pc.live = true)
    (hok : okFor (.popMany n) pc) :
    pc.prog < (qstep st clock fresh (.popMany n) pc).2.1.prog ∧
    okFor (.popMany n) (qstep st clock fresh (.popMany n) pc).2.1 := by
  cases pc with
  | start => exact absurd hok id
  | clearExec ids => exact absurd hok id
  | done r => cases hl
  | popRange got e =>
    rw [(qstep_popRange st clock fresh n got e).2.1]
    split
    · simp only [QPC.prog, finishBatch_length]; exact ⟨by omega, trivial⟩
    · simp only [QPC.prog]; exact ⟨by omega, trivial⟩
  | popExec got e ids scs =>
    rw [(qstep_popExec st clock fresh n got e ids scs).2.1]
    exact popNext_prog n got e _ clock

/-! ## counting a client's commands along a schedule -/

/-- the client an event belongs to -/
def QSysEv.client : QSysEv → Option Nat
  | .step i => some i
  | .run i => some i
  | .crashBefore i => some i
  | .crashAfter i => some i
  | .tick _ => none

/-- potential of a client: of its pc, or of the pc it starts with -/
def QClient.prog (c : QClient) : Nat := if c.started then c.pc.prog else c.op.begin.prog

/-- potential of client `i` of a system -/
def QSys.progOf (s : QSys) (i : Nat) : Nat := match s.clients[i]? with | some c => c.prog | none => 0

/-- client `i` is a `PopMany n` call at one of its pcs -/
def QSys.PopAt (s : QSys) (i : Nat) (n : Int) : Prop :=
  ∃ c, s.clients[i]? = some c ∧ c.op = .popMany n ∧ (c.started = true → okFor (.popMany n) c.pc)

/-- the number of storage commands client `i` executes along `es` from `s`: the trace labels the model emits for the
events of client `i` (one label per executed command, `QSys.stepClient`) -/
def QSys.ownCmds (i : Nat) : QSys → List QSysEv → Nat
  | _, [] => 0
  | s, e :: es => (if e.client = some i then (s.stepT [] e).2.length else 0) + QSys.ownCmds i (s.stepT [] e).1 es

theorem QClient.start_prog (c : QClient) (clock : Int) : (c.start clock).prog = c.prog := by
  unfold QClient.start QClient.prog
  by_cases h : c.started = true
  · simp [h]
  · simp [h]

theorem QClient.start_op (c : QClient) (clock : Int) : (c.start clock).op = c.op := by
  unfold QClient.start; split <;> rfl

theorem QClient.start_ok {c : QClient} {n : Int} (hop : c.op = .popMany n) (h : c.started = true → okFor (.popMany n) c.pc)
    (clock : Int) : okFor (.popMany n) (c.start clock).pc := by
  unfold QClient.start
  by_cases hs : c.started = true
  · simp only [hs, if_true]; exact h hs
  · simp only [hs]
    rw [← hop]; exact okFor_begin c.op

/-- one `stepClient` of client `i` itself: still a `PopMany n` at one of its pcs, and the potential grows by at least
the number of commands executed (0 or 1) -/
theorem QSys.stepClient_self_prog {s : QSys} {i : Nat} {n : Int} (h : s.PopAt i n) (b : Bool) :
    (s.stepClient i b).1.PopAt i n ∧
    s.progOf i + (if (s.stepClient i b).2.isSome then 1 else 0) ≤ (s.stepClient i b).1.progOf i := by
  obtain ⟨c0, hc0, hop, hok⟩ := h
  have hlt : i < s.clients.length := (List.getElem?_eq_some_iff.1 hc0).1
  by_cases hd : c0.dead = true
  · have hcur : s.cur i = none := by simp [QSys.cur, hc0, hd]
    rw [QSys.stepClient_none b hcur]
    exact ⟨⟨c0, hc0, hop, hok⟩, by simp⟩
  · have hd' : c0.dead = false := by simpa using hd
    have hcur : s.cur i = some (c0.start s.clock) := by simp [QSys.cur, hc0, hd']
    have hokc := QClient.start_ok hop hok s.clock
    have hopc : (c0.start s.clock).op = .popMany n := by rw [QClient.start_op, hop]
    have hprog0 : s.progOf i = (c0.start s.clock).prog := by
      simp only [QSys.progOf, hc0, QClient.start_prog]
    have hst : (c0.start s.clock).started = true := c0.start_started _
    by_cases hl : (c0.start s.clock).pc.live = true
    · have hs := QSys.stepClient_live b hcur hl
      rw [hopc] at hs
      have hsome : (s.stepClient i b).2.isSome = true := by
        unfold QSys.stepClient
        simp [hc0, hd', hl]
      obtain ⟨hp, hok'⟩ := qstep_pop_prog s.store ((c0.start s.clock).cmdClock s.clock) s.fresh n _ hl hokc
      have hget : ∃ c', (s.stepClient i b).1.clients[i]? = some c' ∧ c'.op = .popMany n ∧ c'.started = true ∧
          c'.pc = (qstep s.store ((c0.start s.clock).cmdClock s.clock) s.fresh (.popMany n) (c0.start s.clock).pc).2.1 := by
        rw [hs]
        exact ⟨_, List.getElem?_set_self hlt, rfl, hst, rfl⟩
      obtain ⟨c', hg, hc'op, hc'st, hc'pc⟩ := hget
      refine ⟨⟨c', hg, hc'op, fun _ => hc'pc ▸ hok'⟩, ?_⟩
      simp only [hsome, if_true]
      rw [hprog0]
      simp only [QSys.progOf, hg, QClient.prog, hst, hc'st, if_true, hc'pc]
      omega
    · have hl' : (c0.start s.clock).pc.live = false := by simpa using hl
      rw [QSys.stepClient_stall b hcur hl']
      have hg : ({ s with clients := s.clients.set i (c0.start s.clock) } : QSys).clients[i]? = some (c0.start s.clock) := by
        simp only [List.getElem?_set, hlt, if_true]
      refine ⟨⟨c0.start s.clock, hg, hopc, fun _ => hokc⟩, ?_⟩
      simp only [Option.isSome_none, Bool.false_eq_true, if_false, Nat.add_zero]
      rw [hprog0]
      simp only [QSys.progOf, hg]; exact Nat.le_refl _

/-- a `stepClient` of another client leaves client `i` alone -/
theorem QSys.stepClient_other_clients (s : QSys) {i j : Nat} (hij : j ≠ i) (b : Bool) :
    (s.stepClient j b).1.clients[i]? = s.clients[i]? := by
  unfold QSys.stepClient
  cases hc : s.clients[j]? with
  | none => rfl
  | some c0 =>
    simp only
    split
    · rfl
    · split
      · simp only [List.getElem?_set_ne hij]
      · simp only [List.getElem?_set_ne hij]

theorem QSys.PopAt.congr {s s' : QSys} {i : Nat} {n : Int} (h : s.PopAt i n) (he : s'.clients[i]? = s.clients[i]?) :
    s'.PopAt i n := by
  obtain ⟨c, hc, h2⟩ := h
  exact ⟨c, he.trans hc, h2⟩

theorem QSys.progOf_congr {s s' : QSys} {i : Nat} (he : s'.clients[i]? = s.clients[i]?) : s'.progOf i = s.progOf i := by
  unfold QSys.progOf; rw [he]

/-- running client `i` for at most `fuel` commands: the potential grows by at least the number of labels appended -/
theorem QSys.runClient_self_prog {s : QSys} {i : Nat} {n : Int} (h : s.PopAt i n) (tr : List String) (fuel : Nat) :
    (s.runClient i tr fuel).1.PopAt i n ∧
    s.progOf i + (s.runClient i tr fuel).2.length ≤ (s.runClient i tr fuel).1.progOf i + tr.length := by
  induction fuel generalizing s tr with
  | zero => exact ⟨h, Nat.le_refl _⟩
  | succ k ih =>
    unfold QSys.runClient
    obtain ⟨h1, h2⟩ := QSys.stepClient_self_prog h false
    have hs : s.stepClient i false = ((s.stepClient i false).1, (s.stepClient i false).2) := rfl
    rw [hs]
    cases hl : (s.stepClient i false).2 with
    | none =>
      simp only
      rw [hl] at h2
      exact ⟨h1, by simp at h2; omega⟩
    | some l =>
      simp only
      rw [hl] at h2
      obtain ⟨h3, h4⟩ := ih h1 (tr ++ [l])
      refine ⟨h3, ?_⟩
      simp only [Option.isSome_some, if_true, List.length_append, List.length_singleton] at h2 h4
      omega

theorem QSys.runClient_other_clients (s : QSys) {i j : Nat} (hij : j ≠ i) (tr : List String) (fuel : Nat) :
    (s.runClient j tr fuel).1.clients[i]? = s.clients[i]? := by
  induction fuel generalizing s tr with
  | zero => rfl
  | succ k ih =>
    unfold QSys.runClient
    have hs : s.stepClient j false = ((s.stepClient j false).1, (s.stepClient j false).2) := rfl
    rw [hs]
    cases (s.stepClient j false).2 with
    | none => exact s.stepClient_other_clients hij false
    | some l => simp only; rw [ih]; exact s.stepClient_other_clients hij false

/-- **one event**: client `i` stays a `PopMany n` at one of its pcs; the potential never falls, and an event of client
`i` itself raises it by at least the number of commands it executed -/
theorem QSys.stepT_prog {s : QSys} {i : Nat} {n : Int} (h : s.PopAt i n) (e : QSysEv) :
    (s.stepT [] e).1.PopAt i n ∧
    s.progOf i + (if e.client = some i then (s.stepT [] e).2.length else 0) ≤ (s.stepT [] e).1.progOf i := by
  cases e with
  | tick d => exact ⟨h, by simp [QSysEv.client, QSys.stepT, QSys.progOf]⟩
  | step j =>
    by_cases hij : j = i
    · subst hij
      obtain ⟨h1, h2⟩ := QSys.stepClient_self_prog h false
      simp only [QSys.stepT, QSysEv.client, if_true]
      have hs : s.stepClient j false = ((s.stepClient j false).1, (s.stepClient j false).2) := rfl
      rw [hs]
      cases hl : (s.stepClient j false).2 with
      | none => rw [hl] at h2; exact ⟨h1, by simpa using h2⟩
      | some l => rw [hl] at h2; exact ⟨h1, by simpa using h2⟩
    · have he : (s.stepT [] (.step j)).1.clients[i]? = s.clients[i]? := by
        simp only [QSys.stepT]
        have hs : s.stepClient j false = ((s.stepClient j false).1, (s.stepClient j false).2) := rfl
        rw [hs]
        cases (s.stepClient j false).2 <;> exact s.stepClient_other_clients hij false
      have hne : ¬ (some j = some i) := fun hh => hij (Option.some.inj hh)
      exact ⟨h.congr he, by simp only [QSysEv.client, hne, if_false, Nat.add_zero, QSys.progOf_congr he]; exact Nat.le_refl _⟩
  | run j =>
    by_cases hij : j = i
    · subst hij
      obtain ⟨h1, h2⟩ := QSys.runClient_self_prog h [] 200
      exact ⟨h1, by simpa [QSysEv.client, QSys.stepT] using h2⟩
    · have he : (s.stepT [] (.run j)).1.clients[i]? = s.clients[i]? := s.runClient_other_clients hij [] 200
      have hne : ¬ (some j = some i) := fun hh => hij (Option.some.inj hh)
      exact ⟨h.congr he, by simp only [QSysEv.client, hne, if_false, Nat.add_zero, QSys.progOf_congr he]; exact Nat.le_refl _⟩
  | crashBefore j =>
    have hlen : (s.stepT [] (.crashBefore j)).2.length = 0 := by
      simp only [QSys.stepT]
      cases s.clients[j]? with
      | none => rfl
      | some c => simp only; split <;> rfl
    by_cases hij : j = i
    · subst hij
      obtain ⟨c0, hc0, hop, hok⟩ := h
      have hlt : j < s.clients.length := (List.getElem?_eq_some_iff.1 hc0).1
      simp only [QSysEv.client, if_true, hlen, Nat.add_zero]
      simp only [QSys.stepT, hc0]
      split
      · have hg : (s.clients.set j { (c0.start s.clock) with dead := true })[j]? =
            some { (c0.start s.clock) with dead := true } := by
          simp only [List.getElem?_set, hlt, if_true]
        refine ⟨⟨{ (c0.start s.clock) with dead := true }, hg, by show (c0.start s.clock).op = _; rw [QClient.start_op, hop],
          fun _ => QClient.start_ok hop hok s.clock⟩, ?_⟩
        simp only [QSys.progOf, hg, hc0]
        have : ({ (c0.start s.clock) with dead := true } : QClient).prog = (c0.start s.clock).prog := rfl
        rw [this, QClient.start_prog]; exact Nat.le_refl _
      · exact ⟨⟨c0, hc0, hop, hok⟩, Nat.le_refl _⟩
    · have he : (s.stepT [] (.crashBefore j)).1.clients[i]? = s.clients[i]? := by
        simp only [QSys.stepT]
        cases s.clients[j]? with
        | none => rfl
        | some c => simp only; split
                    · simp only [List.getElem?_set_ne hij]
                    · rfl
      have hne : ¬ (some j = some i) := fun hh => hij (Option.some.inj hh)
      exact ⟨h.congr he, by simp only [QSysEv.client, hne, if_false, Nat.add_zero, QSys.progOf_congr he]; exact Nat.le_refl _⟩
  | crashAfter j =>
    by_cases hij : j = i
    · subst hij
      simp only [QSysEv.client, if_true, QSys.stepT]
      cases hc : s.clients[j]? with
      | none => exact ⟨h, by simp [QSys.progOf, hc]⟩
      | some c =>
        simp only
        split
        · obtain ⟨h1, h2⟩ := QSys.stepClient_self_prog h true
          have hs : s.stepClient j true = ((s.stepClient j true).1, (s.stepClient j true).2) := rfl
          rw [hs]
          cases hl : (s.stepClient j true).2 with
          | none => rw [hl] at h2; exact ⟨h1, by simpa using h2⟩
          | some l => rw [hl] at h2; exact ⟨h1, by simpa using h2⟩
        · exact ⟨h, by simp⟩
    · have he : (s.stepT [] (.crashAfter j)).1.clients[i]? = s.clients[i]? := by
        simp only [QSys.stepT]
        cases s.clients[j]? with
        | none => rfl
        | some c =>
          simp only
          split
          · have hs : s.stepClient j true = ((s.stepClient j true).1, (s.stepClient j true).2) := rfl
            rw [hs]
            cases (s.stepClient j true).2 <;> exact s.stepClient_other_clients hij true
          · rfl
      have hne : ¬ (some j = some i) := fun hh => hij (Option.some.inj hh)
      exact ⟨h.congr he, by simp only [QSysEv.client, hne, if_false, Nat.add_zero, QSys.progOf_congr he]; exact Nat.le_refl _⟩

/-- the state after an event does not depend on the trace accumulated so far -/
theorem QSys.stepT_fst (s : QSys) (tr : List String) (e : QSysEv) : (s.stepT tr e).1 = (s.stepT [] e).1 := by
  have h1 : ((GSys.init s).step e).sys = (s.stepT tr e).1 := GSys.step_sys (GSys.init s) tr e
  have h2 : ((GSys.init s).step e).sys = (s.stepT [] e).1 := GSys.step_sys (GSys.init s) [] e
  exact h1.symm.trans h2

theorem QSys.run_cons (s : QSys) (e : QSysEv) (es : List QSysEv) : s.run (e :: es) = (s.stepT [] e).1.run es := by
  have h1 : ((GSys.init s).run (e :: es)).sys = s.run (e :: es) := GSys.run_sys (GSys.init s) (e :: es) []
  have h2 : (((GSys.init s).step e).run es).sys =
      (es.foldl (fun (acc : QSys × List String) e => acc.1.stepT acc.2 e) (((GSys.init s).step e).sys, [])).1 :=
    GSys.run_sys ((GSys.init s).step e) es []
  have h3 : ((GSys.init s).step e).sys = (s.stepT [] e).1 := GSys.step_sys (GSys.init s) [] e
  rw [h3] at h2
  rw [← h1]
  exact h2

/-- **the commands a `PopMany` call executes along any schedule are bounded by the growth of its potential** -/
theorem QSys.ownCmds_le_prog {s : QSys} {i : Nat} {n : Int} (h : s.PopAt i n) (es : List QSysEv) :
    (s.run es).PopAt i n ∧ s.progOf i + QSys.ownCmds i s es ≤ (s.run es).progOf i := by
  induction es generalizing s with
  | nil => exact ⟨h, Nat.le_refl _⟩
  | cons e es ih =>
    obtain ⟨h1, h2⟩ := QSys.stepT_prog h e
    obtain ⟨h3, h4⟩ := ih h1
    rw [QSys.run_cons]
    refine ⟨h3, ?_⟩
    unfold QSys.ownCmds
    omega

end Swat4
