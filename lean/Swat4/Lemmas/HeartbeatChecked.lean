import Swat4.Model.HeartbeatChecked
import Swat4.Lemmas.Browsing
import Swat4.Lemmas.ReporterLenient
/-!
# The checked reporter path never panics (lemmas for `C06.udp_never_panics_checked`)

`dispatchChecked_eq`: `HeartbeatChecked.dispatchChecked` is `.panic` on the empty datagram and `.ok` of
`Heartbeat.dispatch` on every other one.
-/
namespace Swat4.HeartbeatChecked
open Swat4 Swat4.Heartbeat
open Swat4.Browsing (orPanic goIndex goSlice consumeCString consumeString consumeS)

/-! ## `ConsumeCString` against `cstrHead` / `cstrTail` -/

theorem consumeS_fst (b : Bytes) : (consumeS 0 b).1 = cstrHead b := by
  induction b with
  | nil => rfl
  | cons c b ih =>
    unfold consumeS cstrHead
    by_cases hc : c = 0
    · rw [if_pos hc, if_pos hc]
    · rw [if_neg hc, if_neg hc, ih]

theorem consumeS_snd (b : Bytes) : nilEmpty (consumeS 0 b).2 = cstrTail b := by
  induction b with
  | nil => rfl
  | cons c b ih =>
    unfold consumeS cstrTail
    by_cases hc : c = 0
    · rw [if_pos hc, if_pos hc]; rfl
    · rw [if_neg hc, if_neg hc, ih]

theorem consumeCString_eq (b : Bytes) : consumeCString b = .ok (consumeS 0 b) := Browsing.consumeString_eq b 0

/-! ## `ParseInstanceID` -/

theorem goCopy_full (dst src : Bytes) (h : src.length = dst.length) : goCopy dst src = src := by
  unfold goCopy
  rw [← h, List.take_length, List.drop_eq_nil_of_le (by omega), List.append_nil]

theorem parseInstanceIDChecked_eq (payload : Bytes) : parseInstanceIDChecked payload = .ok (parseInstanceID payload) := by
  unfold parseInstanceIDChecked parseInstanceID
  by_cases h : payload.length < 5
  · rw [if_pos h, if_pos h]; rfl
  · rw [if_neg h, if_neg h]
    have h1 : goSlice payload 1 5 = some ((payload.drop 1).take 4) := by
      unfold goSlice
      rw [if_pos ⟨by omega, by omega⟩, List.drop_take]
    have h2 : goSlice payload 5 payload.length = some (payload.drop 5) := Browsing.goSlice_drop payload 5 (by omega)
    rw [h1, h2]
    simp only [Browsing.orPanic_some, Browsing.ok_bind, Browsing.pure_eq_ok]
    rw [goCopy_full]
    simp only [List.length_take, List.length_drop, List.length_replicate]
    omega

theorem parseInstanceID_length {payload id rest : Bytes} (h : parseInstanceID payload = some (id, rest)) : id.length = 4 := by
  unfold parseInstanceID at h
  split at h
  · cases h
  · cases h
    simp only [List.length_take, List.length_drop]
    omega

/-! ## `parseHeartbeatParams` -/

theorem goIndex_zero_cons (c : UInt8) (b : Bytes) : goIndex (c :: b) 0 = some c := rfl

/-- the checked loop with more fuel than bytes computes what the model's scanner computes (with enough fuel): in
particular neither `panic` nor `hang` -/
theorem parseParamsLoop_eq (fuel : Nat) : ∀ (f2 : Nat) (u : Bytes) (m : FieldMap), u.length < fuel → u.length ≤ f2 →
    parseParamsLoop fuel u m = .ok (parseParamsAux f2 u m) := by
  induction fuel with
  | zero => intro _ u _ h; omega
  | succ fuel ih =>
    intro f2 u m h1 h2
    cases u with
    | nil =>
      rw [Rep.parseParamsAux_nil]
      rfl
    | cons c b =>
      obtain ⟨f2', rfl⟩ : ∃ k, f2 = k + 1 := ⟨f2 - 1, by simp only [List.length_cons] at h2; omega⟩
      have hlen : (c :: b).length > 0 := by simp
      have htl := Rep.cstrTail_length c b
      simp only [List.length_cons] at h1 h2
      unfold parseParamsLoop parseParamsAux
      simp only [hlen, if_true, goIndex_zero_cons, Browsing.orPanic_some, Browsing.ok_bind, Browsing.pure_eq_ok]
      by_cases hc : c = 0
      · subst hc
        simp
      · have hc' : (c != 0) = true := by simp [hc]
        simp only [hc', Bool.not_true, Bool.false_eq_true, if_false, hc, consumeCString_eq, Browsing.ok_bind,
          consumeS_fst, consumeS_snd]
        by_cases hr : isReportable (cstrHead (c :: b)) = true
        · simp only [hr, Bool.not_true, Bool.false_eq_true, if_false]
          cases hrest : cstrTail (c :: b) with
          | nil => simp
          | cons v0 r =>
            have hrl : r.length < b.length := by rw [hrest] at htl; simp only [List.length_cons] at htl; omega
            have htl2 := Rep.cstrTail_length v0 r
            simp only [List.length_cons, Nat.add_one_ne_zero, if_false, goIndex_zero_cons, Browsing.orPanic_some,
              Browsing.ok_bind]
            by_cases hv : v0 = 0
            · subst hv; simp
            · have hv' : (v0 == 0) = false := by simp [hv]
              simp only [hv', Bool.false_eq_true, if_false, hv]
              exact ih f2' _ _ (by omega) (by omega)
        · have hr' : isReportable (cstrHead (c :: b)) = false := by simpa using hr
          simp only [hr', Bool.not_false, if_true]
          exact ih f2' _ _ (by omega) (by omega)

theorem parseHeartbeatParamsChecked_eq (payload : Bytes) :
    parseHeartbeatParamsChecked payload = .ok (parseHeartbeatParams payload) :=
  parseParamsLoop_eq _ _ _ _ (Nat.lt_succ_self _) (Nat.le_refl _)

/-! ## the reply -/

theorem hextable_nibble : ∀ n : Fin 16, goIndex hextable n.val = some (hexNibble n.val) := by decide

theorem hextable_idx (n : Nat) (h : n < 16) : goIndex hextable n = some (hexNibble n) := hextable_nibble ⟨n, h⟩

theorem goSet_mid (pre : Bytes) (x : UInt8) (suf : Bytes) (v : UInt8) :
    goSet (pre ++ x :: suf) pre.length v = some (pre ++ v :: suf) := by
  unfold goSet
  rw [if_pos (by simp)]
  simp

/-- `hex.Encode` into a destination of at least `2·len(src)` bytes from offset `j`: no index fails, the bytes written
are `hexLower src` -/
theorem hexEncodeLoop_eq (src : Bytes) : ∀ (pre w : Bytes), 2 * src.length ≤ w.length →
    hexEncodeLoop src pre.length (pre ++ w) = .ok (pre ++ hexLower src ++ w.drop (2 * src.length)) := by
  induction src with
  | nil => intro pre w _; simp [hexEncodeLoop, hexLower]
  | cons v rest ih =>
    intro pre w hw
    match w, hw with
    | a :: b :: w', hw =>
      have hv := UInt8.toNat_lt v
      unfold hexEncodeLoop
      rw [hextable_idx _ (by omega), hextable_idx _ (by omega)]
      simp only [Browsing.orPanic_some, Browsing.ok_bind]
      rw [goSet_mid]
      simp only [Browsing.orPanic_some, Browsing.ok_bind]
      have e1 : pre ++ hexNibble (v.toNat / 16) :: b :: w' = (pre ++ [hexNibble (v.toNat / 16)]) ++ b :: w' := by simp
      have l1 : pre.length + 1 = (pre ++ [hexNibble (v.toNat / 16)]).length := by simp
      rw [e1, l1, goSet_mid]
      simp only [Browsing.orPanic_some, Browsing.ok_bind]
      have e2 : (pre ++ [hexNibble (v.toNat / 16)]) ++ hexNibble (v.toNat % 16) :: w'
          = (pre ++ [hexNibble (v.toNat / 16), hexNibble (v.toNat % 16)]) ++ w' := by simp
      have l2 : (pre ++ [hexNibble (v.toNat / 16)]).length + 1 = (pre ++ [hexNibble (v.toNat / 16), hexNibble (v.toNat % 16)]).length := by simp
      rw [e2, ← l1, show pre.length + 1 + 1 = pre.length + 2 from rfl] at *
      rw [show pre.length + 2 = (pre ++ [hexNibble (v.toNat / 16), hexNibble (v.toNat % 16)]).length by simp]
      rw [ih _ w' (by simp only [List.length_cons] at hw; omega)]
      simp [hexLower, Nat.mul_add]

theorem hexEncode_eq (dst src : Bytes) (h : 2 * src.length ≤ dst.length) :
    hexEncode dst src = .ok (hexLower src ++ dst.drop (2 * src.length)) := by
  have := hexEncodeLoop_eq src [] dst h
  simpa [hexEncode] using this

theorem ofNat_mod_256 (p : Nat) : UInt8.ofNat (p % 65536 % 256) = UInt8.ofNat (p % 256) := by
  congr 1
  omega

/-- the reply as `reportServer` builds it — six slice expressions, `PutUint16`, `hex.Encode` — is the model's
`heartbeatReply`, for a four-byte instance id -/
theorem heartbeatReplyChecked_eq (id : Bytes) (hid : id.length = 4) (srcIp srcPort : Nat) :
    heartbeatReplyChecked id (ipBytes srcIp) srcPort = .ok (heartbeatReply id srcIp srcPort) := by
  match id, hid with
  | [i0, i1, i2, i3], _ =>
    have hx := hexEncode_eq (List.replicate 14 0)
      [0, UInt8.ofNat (srcIp / 16777216 % 256), UInt8.ofNat (srcIp / 65536 % 256), UInt8.ofNat (srcIp / 256 % 256),
        UInt8.ofNat (srcIp % 256), UInt8.ofNat (srcPort % 65536 / 256), UInt8.ofNat (srcPort % 65536 % 256)] (by simp)
    simp only [heartbeatReplyChecked, withSlice, putUint16, goSlice, goCopy, goSet, goIndex, ipBytes,
      Facts.reporterResponseChallenge, List.replicate, List.length_cons, List.length_nil, List.take, List.drop,
      Browsing.orPanic_some, Browsing.ok_bind, Browsing.pure_eq_ok, List.cons_append, List.nil_append, List.append_nil,
      Nat.reduceLeDiff, Nat.reduceAdd, and_self, if_true, List.set, List.getElem?_cons_succ,
      List.getElem?_cons_zero, Nat.le_refl, Nat.zero_le, Nat.lt_add_one, Nat.zero_lt_succ]
    simp only [List.replicate, List.length_cons, List.length_nil, Nat.reduceMul, Nat.reduceAdd, List.drop,
      List.append_nil] at hx
    rw [hx]
    simp only [Browsing.ok_bind, heartbeatReply, copyInto, ipBytes, be16, Facts.reporterResponseChallenge,
      List.cons_append, List.nil_append, List.replicate, List.take, ofNat_mod_256]

/-! ## handlers and dispatcher -/

theorem handleHeartbeatChecked_eq (cfg : Cfg) (st : AbsState) (srcIp srcPort : Nat) (payload : Bytes) (now : Int) :
    handleHeartbeatChecked cfg st srcIp srcPort payload now = .ok (handleHeartbeat cfg st srcIp srcPort payload now) := by
  unfold handleHeartbeatChecked handleHeartbeat
  rw [parseInstanceIDChecked_eq]
  simp only [Browsing.ok_bind]
  cases hp : parseInstanceID payload with
  | none => rfl
  | some p =>
    obtain ⟨id, rest⟩ := p
    have hid := parseInstanceID_length hp
    simp only [parseHeartbeatParamsChecked_eq, Browsing.ok_bind]
    cases parseHeartbeatParams rest with
    | none => rfl
    | some fields =>
      dsimp only
      split
      · rfl
      · cases parseAddr srcIp fields with
        | none => rfl
        | some q =>
          obtain ⟨a, qp⟩ := q
          dsimp only
          split
          · rfl
          · unfold finish
            cases ((UC.report zeroInfo cfg.maxRetries ⟨a, qp, idNat id, infoOf fields⟩).run st now).2 with
            | error e => rfl
            | ok u =>
              dsimp only
              rw [heartbeatReplyChecked_eq id hid]
              rfl

theorem handleKeepaliveChecked_eq (st : AbsState) (srcIp : Nat) (payload : Bytes) (now : Int) :
    handleKeepaliveChecked st srcIp payload now = .ok (handleKeepalive st srcIp payload now) := by
  unfold handleKeepaliveChecked handleKeepalive
  rw [parseInstanceIDChecked_eq]
  simp only [Browsing.ok_bind]
  cases parseInstanceID payload with
  | none => rfl
  | some p => rfl

theorem handleChallengeChecked_eq (payload : Bytes) : handleChallengeChecked payload = .ok (handleChallenge payload) := by
  unfold handleChallengeChecked handleChallenge
  rw [parseInstanceIDChecked_eq]
  simp only [Browsing.ok_bind]
  cases parseInstanceID payload with
  | none => rfl
  | some p => rfl

/-- **The checked dispatcher against the model.**  On the empty datagram `payload[0]` is out of range: `panic`
(what `Heartbeat.dispatch` says too: `C06.udp_empty_panics`).  On every other datagram, for every state, source
and clock, no index / slice expression of the path fails and no loop runs out of fuel: the result is `.ok` of
exactly the state and outcome `Heartbeat.dispatch` computes. -/
theorem dispatchChecked_eq (cfg : Cfg) (st : AbsState) (srcIp srcPort : Nat) (payload : Bytes) (now : Int) :
    dispatchChecked cfg st srcIp srcPort payload now =
      match payload with
      | [] => .panic
      | _ :: _ => .ok (dispatch cfg st srcIp srcPort payload now) := by
  cases payload with
  | nil => rfl
  | cons t rest =>
    unfold dispatchChecked dispatch
    simp only [goIndex_zero_cons, Browsing.orPanic_some, Browsing.ok_bind]
    split
    · exact handleHeartbeatChecked_eq cfg st srcIp srcPort (t :: rest) now
    · split
      · exact handleKeepaliveChecked_eq st srcIp (t :: rest) now
      · split
        · rw [handleChallengeChecked_eq]; rfl
        · split <;> rfl

/-- the same in the vocabulary of `Heartbeat.Outcome` (a panic = state unchanged, outcome `panic`): the checked
dispatcher and the model agree on EVERY datagram, the empty one included -/
theorem collapse_dispatchChecked (cfg : Cfg) (st : AbsState) (srcIp srcPort : Nat) (payload : Bytes) (now : Int) :
    collapse st (dispatchChecked cfg st srcIp srcPort payload now) = some (dispatch cfg st srcIp srcPort payload now) := by
  rw [dispatchChecked_eq]
  cases payload <;> rfl

end Swat4.HeartbeatChecked
