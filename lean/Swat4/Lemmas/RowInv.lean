import Swat4.Lemmas.Backed
/-!
# Row invariants along use-case programs

A generic way to show that a predicate `R` on registry rows holds for every stored row after a use-case program ran
(to completion, `Prog.run`; or along any crash / fault prefix, `Prog.runChoices`), with the clock fixed at `now`:

* `Closed now R`: `R` looks at a record only through its address and refresh time, and a row read from the store may
  be written back at clock `now`;
* `Pres now R p`: a walk over the program tree: every record the program writes (and every record a conflict
  callback produces from a stored record of the same key) is `Held`, i.e. may be stored at clock `now`, given that
  every record a repository call returned is;
* `Pres.run` / `Pres.runChoices`: then `Keyed ∧ AllRows R` is an invariant.

Instances (Properties/C14): `R` = "refreshedAt ≤ updatedAt ≤ now" and `R` = "refreshedAt is the one stored before the
run, or `now` (under the key the use case refreshes)".
-/
namespace Swat4.RowInv
open Swat4 Swat4.UC Std

/-- every stored row sits under its own address key -/
def Keyed (s : AbsState) : Prop := ∀ (k : Nat) (row : SRow), s.servers[k]? = some row → row.svr.addr.key = k

/-- every stored row satisfies `R` -/
def AllRows (R : SRow → Prop) (s : AbsState) : Prop := ∀ (k : Nat) (row : SRow), s.servers[k]? = some row → R row

structure Closed (now : Int) (R : SRow → Prop) : Prop where
  /-- `R` sees only the address and the refresh time of the record -/
  fld : ∀ (sv sv' : Server) (u : Int), sv'.addr = sv.addr → sv'.refreshedAt = sv.refreshedAt → R ⟨sv, u⟩ → R ⟨sv', u⟩
  /-- a stored record may be written back now -/
  read : ∀ (sv : Server) (u : Int), R ⟨sv, u⟩ → R ⟨sv, now⟩

section
variable (now : Int) (R : SRow → Prop)

/-- a record that may be stored at clock `now` -/
def Held (sv : Server) : Prop := R ⟨sv, now⟩

/-- a conflict callback, applied to a holdable record stored under the key of `svr`, yields a holdable record -/
def ResOK (svr : Server) (res : Resolver) : Prop :=
  ∀ x r, Held now R x → x.addr.key = svr.addr.key → res x = some r → Held now R r

def CallOK : {β : Type} → Call β → Prop
  | _, .addServer svr res => Held now R svr ∧ ResOK now R svr res
  | _, .updateServer svr res => Held now R svr ∧ ResOK now R svr res
  | _, .updateServerT svr res => Held now R svr ∧ ResOK now R svr (res now)
  | _, _ => True

def svrReply (b : Except RErr Server) : Prop := ∀ sv, b = .ok sv → Held now R sv
def listReply (b : Except RErr (List Server)) : Prop := ∀ l, b = .ok l → ∀ sv ∈ l, Held now R sv

/-- what a program may assume about a reply -/
def ReplyOK : {β : Type} → Call β → β → Prop
  | _, .now, b => b = now
  | _, .getServer a, b => ∀ sv, b = .ok sv → Held now R sv ∧ sv.addr.key = a.key
  | _, .addServer _ _, b => svrReply now R b
  | _, .updateServer _ _, b => svrReply now R b
  | _, .updateServerT _ _, b => svrReply now R b
  | _, .filterServers _, b => listReply now R b
  | _, .scanServers _, b => listReply now R b
  | _, .fetchServers _, b => listReply now R b
  | _, _, _ => True

inductive Pres {α : Type} : Prog α → Prop where
  | ret (a : α) : Pres (.ret a)
  | call {β : Type} (c : Call β) (k : β → Prog α) : CallOK now R c → (∀ b, ReplyOK now R c b → Pres (k b)) → Pres (.call c k)

variable {now R}

theorem Pres.pure {α : Type} (a : α) : Pres now R (pure a : Prog α) := Pres.ret a

theorem Pres.bind {α β : Type} {p : Prog α} {f : α → Prog β} (hp : Pres now R p) (hf : ∀ a, Pres now R (f a)) :
    Pres now R (p.bind f) := by
  induction hp with
  | ret a => exact hf a
  | call c k hc _ ih => exact Pres.call c _ hc fun b hb => ih b hb

/-! ## one call -/

theorem keyed_of_servers {s s' : AbsState} (h : s'.servers = s.servers) (hk : Keyed s) : Keyed s' := by
  intro k row hr; rw [h] at hr; exact hk k row hr

theorem allRows_of_servers {s s' : AbsState} (h : s'.servers = s.servers) (hr : AllRows R s) : AllRows R s' := by
  intro k row hrow; rw [h] at hrow; exact hr k row hrow

theorem erase_inv {s : AbsState} (hk : Keyed s) (hr : AllRows R s) (k0 : Nat) :
    Keyed { s with servers := s.servers.erase k0 } ∧ AllRows R { s with servers := s.servers.erase k0 } := by
  constructor
  · intro k row h
    simp only [ExtTreeMap.getElem?_erase] at h
    split at h
    · cases h
    · exact hk k row h
  · intro k row h
    simp only [ExtTreeMap.getElem?_erase] at h
    split at h
    · cases h
    · exact hr k row h

theorem save_inv (hc : Closed now R) {s : AbsState} (hk : Keyed s) (hr : AllRows R s) (svr : Server) (hs : Held now R svr) :
    Keyed (s.save now svr).1 ∧ AllRows R (s.save now svr).1 ∧ Held now R (s.save now svr).2 := by
  have hs' : Held now R { svr with version := svr.version + 1 } := hc.fld svr _ now rfl rfl hs
  refine ⟨?_, ?_, hs'⟩
  · intro k row h
    simp only [AbsState.save, ExtTreeMap.getElem?_insert] at h
    split at h
    · rename_i heq
      cases h
      simpa using heq
    · exact hk k row h
  · intro k row h
    simp only [AbsState.save, ExtTreeMap.getElem?_insert] at h
    split at h
    · cases h; exact hs'
    · exact hr k row h

theorem held_of_row (hc : Closed now R) {s : AbsState} (hr : AllRows R s) {k : Nat} {row : SRow}
    (h : s.servers[k]? = some row) : Held now R row.svr :=
  hc.read row.svr row.updatedAt (hr k row h)

theorem filter_held (hc : Closed now R) {s : AbsState} (hr : AllRows R s) (fs : FilterSet) :
    ∀ sv ∈ s.filter fs, Held now R sv := by
  intro sv hsv
  unfold AbsState.filter at hsv
  simp only [List.mem_map, List.mem_filter] at hsv
  obtain ⟨kv, ⟨hm, _⟩, rfl⟩ := hsv
  exact held_of_row hc hr (ExtTreeMap.mem_toList_iff_getElem?_eq_some.1 hm)

theorem add_inv (hc : Closed now R) {s : AbsState} (hk : Keyed s) (hr : AllRows R s) (svr : Server) (res : Resolver)
    (hs : Held now R svr) (hres : ResOK now R svr res) :
    Keyed (s.add now svr res).1 ∧ AllRows R (s.add now svr res).1 ∧ svrReply now R (s.add now svr res).2 := by
  unfold AbsState.add
  cases hrow : s.getRow svr.addr with
  | none =>
    obtain ⟨a, b, c⟩ := save_inv hc hk hr svr hs
    exact ⟨a, b, fun sv h => by cases h; exact c⟩
  | some ex =>
    have hrow' : s.servers[svr.addr.key]? = some ex := hrow
    simp only
    cases hx : res ex.svr with
    | none => exact ⟨hk, hr, fun sv h => by cases h⟩
    | some resolved =>
      have := hres ex.svr resolved (held_of_row hc hr hrow') (hk _ _ hrow') hx
      obtain ⟨a, b, c⟩ := save_inv hc hk hr resolved this
      exact ⟨a, b, fun sv h => by cases h; exact c⟩

theorem update_inv (hc : Closed now R) {s : AbsState} (hk : Keyed s) (hr : AllRows R s) (svr : Server) (res : Resolver)
    (hs : Held now R svr) (hres : ResOK now R svr res) :
    Keyed (s.update now svr res).1 ∧ AllRows R (s.update now svr res).1 ∧ svrReply now R (s.update now svr res).2 := by
  unfold AbsState.update
  cases hrow : s.getRow svr.addr with
  | none => exact ⟨hk, hr, fun sv h => by cases h⟩
  | some ex =>
    have hrow' : s.servers[svr.addr.key]? = some ex := hrow
    simp only
    split
    · cases hx : res ex.svr with
      | none => exact ⟨hk, hr, fun sv h => by cases h; exact held_of_row hc hr hrow'⟩
      | some resolved =>
        have := hres ex.svr resolved (held_of_row hc hr hrow') (hk _ _ hrow') hx
        obtain ⟨a, b, c⟩ := save_inv hc hk hr resolved this
        exact ⟨a, b, fun sv h => by cases h; exact c⟩
    · obtain ⟨a, b, c⟩ := save_inv hc hk hr svr hs
      exact ⟨a, b, fun sv h => by cases h; exact c⟩

theorem remove_inv {s : AbsState} (hk : Keyed s) (hr : AllRows R s) (svr : Server) (res : Resolver) :
    Keyed (s.remove svr res).1 ∧ AllRows R (s.remove svr res).1 := by
  unfold AbsState.remove
  cases s.getRow svr.addr with
  | none => exact ⟨hk, hr⟩
  | some ex =>
    simp only
    split
    · cases res ex.svr with
      | none => exact ⟨hk, hr⟩
      | some r => exact erase_inv hk hr _
    · exact erase_inv hk hr _

theorem enqueue_servers (s : AbsState) (now : Int) (p : Probe) (after before : GoTime) :
    (s.enqueue now p after before).servers = s.servers := C16.enqueue_servers s now p after before

theorem popMany_servers (s : AbsState) (now : Int) (n : Int) : (s.popMany now n).1.servers = s.servers := by
  unfold AbsState.popMany; split <;> rfl

/-- **one call** of a program keeps `Keyed ∧ AllRows R` and its reply is as `ReplyOK` says -/
theorem exec_inv (hc : Closed now R) {β : Type} (c : Call β) (s : AbsState) (hcall : CallOK now R c)
    (hk : Keyed s) (hr : AllRows R s) :
    Keyed (c.exec s now).1 ∧ AllRows R (c.exec s now).1 ∧ ReplyOK now R c (c.exec s now).2 := by
  cases c with
  | now => exact ⟨hk, hr, rfl⟩
  | getServer a =>
    refine ⟨hk, hr, ?_⟩
    intro sv h
    simp only [Call.exec, AbsState.get] at h
    cases hrow : s.getRow a with
    | none => rw [hrow] at h; cases h
    | some row =>
      rw [hrow] at h
      cases h
      have hrow' : s.servers[a.key]? = some row := hrow
      exact ⟨held_of_row hc hr hrow', hk _ _ hrow'⟩
  | addServer svr res => exact add_inv hc hk hr svr res hcall.1 hcall.2
  | updateServer svr res => exact update_inv hc hk hr svr res hcall.1 hcall.2
  | updateServerT svr res => exact update_inv hc hk hr svr (res now) hcall.1 hcall.2
  | removeServer svr res =>
    obtain ⟨a, b⟩ := remove_inv hk hr svr res
    exact ⟨a, b, trivial⟩
  | filterServers fs => exact ⟨hk, hr, fun l h => by cases h; exact filter_held hc hr fs⟩
  | scanServers fs => exact ⟨hk, hr, fun l h => by cases h; exact filter_held hc hr fs⟩
  | fetchServers addrs =>
    refine ⟨hk, hr, fun l h => ?_⟩
    cases h
    intro sv hsv
    simp only [List.mem_filterMap] at hsv
    obtain ⟨a, _, ha⟩ := hsv
    cases hrow : s.getRow a with
    | none => rw [hrow] at ha; cases ha
    | some row =>
      rw [hrow] at ha
      cases ha
      have hrow' : s.servers[a.key]? = some row := hrow
      exact held_of_row hc hr hrow'
  | insAdd i => exact ⟨hk, hr, trivial⟩
  | insGet id => exact ⟨hk, hr, trivial⟩
  | insRemove id => exact ⟨hk, hr, trivial⟩
  | insClear before => exact ⟨hk, hr, trivial⟩
  | enqueue p after before =>
    exact ⟨keyed_of_servers (enqueue_servers s now p after before) hk,
      allRows_of_servers (enqueue_servers s now p after before) hr, trivial⟩
  | popMany n =>
    exact ⟨keyed_of_servers (popMany_servers s now n) hk, allRows_of_servers (popMany_servers s now n) hr, trivial⟩

/-- a storage-error reply satisfies every reply assumption -/
theorem fault_reply {β : Type} (c : Call β) (e : β) (he : c.faultReply = some e) : ReplyOK now R c e := by
  cases c <;> simp [Call.faultReply] at he <;> subst he <;>
    simp [ReplyOK, svrReply, listReply]

/-- **a complete run** keeps the invariant -/
theorem Pres.run (hc : Closed now R) {α : Type} {p : Prog α} (hp : Pres now R p) :
    ∀ (s : AbsState), Keyed s → AllRows R s → Keyed (p.run s now).1 ∧ AllRows R (p.run s now).1 := by
  induction hp with
  | ret a => intro s hk hr; exact ⟨hk, hr⟩
  | call c k hcall _ ih =>
    intro s hk hr
    obtain ⟨a, b, d⟩ := exec_inv hc c s hcall hk hr
    rw [Prog.run_call]
    exact ih _ d _ a b

/-- **every crash / fault prefix** of a run keeps the invariant -/
theorem Pres.runChoices (hc : Closed now R) {α : Type} {p : Prog α} (hp : Pres now R p) :
    ∀ (cs : List Choice) (s : AbsState), Keyed s → AllRows R s →
      Keyed (p.runChoices cs s now) ∧ AllRows R (p.runChoices cs s now) := by
  induction hp with
  | ret a => intro cs s hk hr; cases cs <;> exact ⟨hk, hr⟩
  | call c k hcall _ ih =>
    intro cs s hk hr
    cases cs with
    | nil => exact ⟨hk, hr⟩
    | cons ch cs =>
      obtain ⟨a, b, d⟩ := exec_inv hc c s hcall hk hr
      cases hf : c.faultReply with
      | none =>
        cases ch
        · simp only [Prog.runChoices]; exact ih _ d cs _ a b
        · simp only [Prog.runChoices, hf]; exact ih _ d cs _ a b
        · simp only [Prog.runChoices, hf]; exact ih _ d cs _ a b
      | some e =>
        have fe := fault_reply (now := now) (R := R) c e hf
        cases ch
        · simp only [Prog.runChoices]; exact ih _ d cs _ a b
        · simp only [Prog.runChoices, hf]; exact ih e fe cs s hk hr
        · simp only [Prog.runChoices, hf]; exact ih e fe cs _ a b

end

/-! ## the use cases -/

section usecases
variable {now : Int} {R : SRow → Prop}

/-- the use case may store a record with refresh time `now` under the key of `a` -/
def Fresh (now : Int) (R : SRow → Prop) (a : Addr) : Prop :=
  ∀ sv : Server, sv.addr.key = a.key → sv.refreshedAt = some now → Held now R sv

/-- the use case may store a never-refreshed record with address `a` -/
def Blank (now : Int) (R : SRow → Prop) (a : Addr) : Prop :=
  ∀ sv : Server, sv.addr = a → sv.refreshedAt = none → Held now R sv

theorem maybeDiscoverPort_pres (hc : Closed now R) (maxRetries : Int) (svr : Server) (hs : Held now R svr) :
    Pres now R (maybeDiscoverPort maxRetries svr) := by
  unfold maybeDiscoverPort
  split
  · exact Pres.pure _
  · refine Pres.call _ _ trivial fun b _ => ?_
    cases b with
    | error e => exact Pres.pure _
    | ok u =>
      refine Pres.call _ _ ⟨hc.fld svr _ now rfl rfl hs, ?_⟩ fun _ _ => Pres.pure _
      intro x r hx _ hres
      dsimp only at hres
      split at hres
      · cases hres
      · cases hres; exact hc.fld x _ now rfl rfl hx

/-- `reportserver.Execute`: needs only that a record refreshed `now` may be stored under the reporter's key -/
theorem report_pres (hc : Closed now R) (zeroInfo : Fields) (maxRetries : Int) (req : ReportReq)
    (hf : Fresh now R req.addr) : Pres now R (UC.report zeroInfo maxRetries req) := by
  have cont : ∀ svr : Server, svr.addr.key = req.addr.key →
      Pres now R (match req.info with
        | none => (pure (.error .invalidPayload) : Prog (Except UErr Unit))
        | some info =>
          .call .now fun now' =>
          .call (.addServer (reported info now' svr) fun ex => some (reported info now' ex)) fun r =>
          match r with
          | .error e => pure (.error (.repo e))
          | .ok svr =>
            .call (.insAdd ⟨req.instanceId, req.addr⟩) fun r =>
            match r with
            | .error e => pure (.error (.repo e))
            | .ok _ => (maybeDiscoverPort maxRetries svr).bind fun _ => pure (.ok ())) := by
    intro svr hkey
    cases req.info with
    | none => exact Pres.pure _
    | some info =>
      refine Pres.call _ _ trivial fun t ht => ?_
      have ht' : t = now := ht
      subst ht'
      refine Pres.call _ _ ⟨hf _ hkey rfl, ?_⟩ fun b hb => ?_
      · intro x r _ hxk hres
        cases hres
        exact hf _ (by show x.addr.key = _; rw [hxk]; exact hkey) rfl
      · cases b with
        | error e => exact Pres.pure _
        | ok sv =>
          have hsv : Held t R sv := hb sv rfl
          refine Pres.call _ _ trivial fun b _ => ?_
          cases b with
          | error e => exact Pres.pure _
          | ok u => exact Pres.bind (maybeDiscoverPort_pres hc maxRetries sv hsv) fun _ => Pres.pure _
  unfold UC.report
  refine Pres.call _ _ trivial fun b hb => ?_
  cases b with
  | ok svr => exact cont svr (hb svr rfl).2
  | error e =>
    cases e with
    | serverNotFound =>
      simp only
      cases hn : newServer zeroInfo req.addr req.queryPort with
      | none => exact Pres.pure _
      | some svr =>
        have : svr.addr = req.addr := by
          unfold newServer at hn
          split at hn
          · cases hn
          · cases hn; rfl
        exact cont svr (by rw [this])
    | serverExists => exact Pres.pure _
    | instanceNotFound => exact Pres.pure _
    | queueEmpty => exact Pres.pure _
    | storage => exact Pres.pure _

/-- `renewserver.Execute` from the instance lookup's reply on -/
def renewTail (inst : Instance) (srcIp : Nat) : Prog (Except UErr Unit) :=
  if inst.addr.ip ≠ srcIp then pure (.error .unknownInstance)
  else
    .call (.getServer inst.addr) fun r =>
    match r with
    | .error e => pure (.error (.repo e))
    | .ok svr =>
      .call .now fun now =>
      .call (.updateServer { svr with refreshedAt := some now } fun s => some { s with refreshedAt := some now }) fun r =>
      match r with
      | .error e => pure (.error (.repo e))
      | .ok _ => pure (.ok ())

theorem renew_eq (instanceId srcIp : Nat) :
    UC.renew instanceId srcIp = .call (.insGet instanceId) fun r =>
      match r with
      | .error e => pure (.error (.repo e))
      | .ok inst => renewTail inst srcIp := rfl

theorem renewTail_pres (inst : Instance) (srcIp : Nat) (hf : Fresh now R inst.addr) :
    Pres now R (renewTail inst srcIp) := by
  unfold renewTail
  split
  · exact Pres.pure _
  · refine Pres.call _ _ trivial fun b hb => ?_
    cases b with
    | error e => exact Pres.pure _
    | ok svr =>
      have hkey := (hb svr rfl).2
      refine Pres.call _ _ trivial fun t ht => ?_
      have ht' : t = now := ht
      subst ht'
      refine Pres.call _ _ ⟨hf _ hkey rfl, ?_⟩ fun b _ => ?_
      · intro x r _ hxk hres
        cases hres
        exact hf _ (by show x.addr.key = _; rw [hxk]; exact hkey) rfl
      · cases b <;> exact Pres.pure _

theorem renew_pres (instanceId srcIp : Nat) (hf : ∀ a, Fresh now R a) : Pres now R (UC.renew instanceId srcIp) := by
  rw [renew_eq]
  refine Pres.call _ _ trivial fun b _ => ?_
  cases b with
  | error e => exact Pres.pure _
  | ok inst => exact renewTail_pres inst srcIp (hf _)

theorem remove_pres (instanceId : Nat) (a : Addr) : Pres now R (UC.remove instanceId a) := by
  unfold UC.remove
  refine Pres.call _ _ trivial fun b _ => ?_
  cases b with
  | error e => cases e <;> exact Pres.pure _
  | ok svr =>
    refine Pres.call _ _ trivial fun b _ => ?_
    cases b with
    | error e => cases e <;> exact Pres.pure _
    | ok inst =>
      simp only
      split
      · exact Pres.pure _
      · refine Pres.call _ _ trivial fun b _ => ?_
        cases b with
        | error e => exact Pres.pure _
        | ok u =>
          refine Pres.call _ _ trivial fun b _ => ?_
          cases b <;> exact Pres.pure _

theorem probeFail_pres (hc : Closed now R) (g : Goal) (svr : Server) (hs : Held now R svr) :
    Pres now R (probeFail g svr) := by
  unfold probeFail
  refine Pres.call _ _ ⟨hc.fld svr _ now rfl rfl hs, ?_⟩ fun b _ => ?_
  · intro x r hx _ hres
    cases hres
    exact hc.fld x _ now rfl rfl hx
  · cases b <;> exact Pres.pure _

theorem probeRetry_pres (hc : Closed now R) (prb : Probe) (svr : Server) (hs : Held now R svr) :
    Pres now R (probeRetry prb svr) := by
  unfold probeRetry
  simp only
  split
  · exact probeFail_pres hc _ svr hs
  · refine Pres.call _ _ trivial fun t _ => ?_
    refine Pres.call _ _ trivial fun b _ => ?_
    cases b with
    | error e => exact Pres.pure _
    | ok u =>
      refine Pres.call _ _ ⟨hc.fld svr _ now rfl rfl hs, ?_⟩ fun b _ => ?_
      · intro x r hx _ hres
        cases hres
        exact hc.fld x _ now rfl rfl hx
      · cases b <;> exact Pres.pure _

theorem handleSuccess_fields (g : Goal) (res : ProbeResult) (t : Int) (s : Server) :
    (handleSuccess g res t s).addr = s.addr ∧ (handleSuccess g res t s).refreshedAt = some t := by
  cases g <;> exact ⟨rfl, rfl⟩

/-- `probeserver.Execute` with a failed probe (retry or final failure) never needs `Fresh` -/
theorem probe_none_pres (hc : Closed now R) (prb : Probe) : Pres now R (UC.probe prb none) := by
  unfold UC.probe
  refine Pres.call _ _ trivial fun b hb => ?_
  cases b with
  | error e => exact Pres.pure _
  | ok svr => exact probeRetry_pres hc prb svr (hb svr rfl).1

/-- `probeserver.Execute`, any outcome -/
theorem probe_pres (hc : Closed now R) (prb : Probe) (outcome : Option ProbeResult) (hf : Fresh now R prb.addr) :
    Pres now R (UC.probe prb outcome) := by
  cases outcome with
  | none => exact probe_none_pres hc prb
  | some res =>
    unfold UC.probe
    refine Pres.call _ _ trivial fun b hb => ?_
    cases b with
    | error e => exact Pres.pure _
    | ok svr =>
      have hkey := (hb svr rfl).2
      refine Pres.call _ _ trivial fun t ht => ?_
      have ht' : t = now := ht
      subst ht'
      have hfs := handleSuccess_fields prb.goal res t
      refine Pres.call _ _ ⟨hf _ (by rw [(hfs svr).1]; exact hkey) (hfs svr).2, ?_⟩ fun b _ => ?_
      · intro x r _ hxk hres
        cases hres
        refine hf _ ?_ (hfs x).2
        rw [(hfs x).1, hxk, (hfs svr).1]; exact hkey
      · cases b <;> exact Pres.pure _

theorem enqueueAll_pres (mk : Server → Probe × GoTime × GoTime) : ∀ (l : List Server) (n : Nat),
    Pres now R (enqueueAll mk l n) := by
  intro l
  induction l with
  | nil => intro n; exact Pres.pure _
  | cons sv rest ih =>
    intro n
    unfold enqueueAll
    refine Pres.call _ _ trivial fun b _ => ?_
    cases b with
    | error e => exact ih n
    | ok u => exact ih (n + 1)

theorem refresh_pres (maxRetries deadline : Int) : Pres now R (UC.refresh maxRetries deadline) := by
  unfold UC.refresh
  refine Pres.call _ _ trivial fun b _ => ?_
  cases b with
  | error e => exact Pres.pure _
  | ok l => exact Pres.bind (enqueueAll_pres _ l 0) fun _ => Pres.pure _

theorem revive_pres (maxRetries minScope maxScope minCountdown maxCountdown deadline : Int) (draws : Nat → Int) :
    Pres now R (UC.revive maxRetries minScope maxScope minCountdown maxCountdown deadline draws) := by
  unfold UC.revive
  refine Pres.call _ _ trivial fun b _ => ?_
  cases b with
  | error e => exact Pres.pure _
  | ok l => exact Pres.bind (enqueueAll_pres _ l 0) fun _ => Pres.pure _

theorem discoverServer_pres (hc : Closed now R) (maxRetries : Int) (svr : Server) (hs : Held now R svr) :
    Pres now R (discoverServer maxRetries svr) := by
  unfold discoverServer
  refine Pres.call _ _ trivial fun b _ => ?_
  cases b with
  | error e => exact Pres.pure _
  | ok u =>
    refine Pres.call _ _ ⟨hc.fld svr _ now rfl rfl hs, ?_⟩ fun b _ => ?_
    · intro x r hx _ hres
      dsimp only at hres
      split at hres
      · cases hres
      · cases hres; exact hc.fld x _ now rfl rfl hx
    · cases b <;> exact Pres.pure _

theorem maybeDiscoverServer_pres (hc : Closed now R) (maxRetries : Int) (svr : Server) (hs : Held now R svr) :
    Pres now R (maybeDiscoverServer maxRetries svr) := by
  unfold maybeDiscoverServer
  split
  · exact Pres.pure _
  · split
    · exact Pres.pure _
    · split
      · exact Pres.pure _
      · exact Pres.bind (discoverServer_pres hc maxRetries svr hs) fun _ => Pres.pure _

/-- `addserver.Execute` from the lookup's *not found* reply on -/
def addServerNew (zeroInfo : Fields) (maxRetries : Int) (a : Addr) : Prog AddEnd :=
  match newServer zeroInfo a (min (a.port + 1) 65535) with
  | none => pure .unableToCreate
  | some svr =>
    .call (.addServer svr fun _ => none) fun r =>
    match r with
    | .error _ => pure .unableToCreate
    | .ok svr => maybeDiscoverServer maxRetries svr

theorem addServer_eq (zeroInfo : Fields) (maxRetries : Int) (a : Addr) :
    UC.addServer zeroInfo maxRetries a = .call (.getServer a) fun r =>
      match r with
      | .ok svr => maybeDiscoverServer maxRetries svr
      | .error .serverNotFound => addServerNew zeroInfo maxRetries a
      | .error _ => pure .unableToCreate := rfl

theorem addServerNew_pres (hc : Closed now R) (zeroInfo : Fields) (maxRetries : Int) (a : Addr) (hb : Blank now R a) :
    Pres now R (addServerNew zeroInfo maxRetries a) := by
  unfold addServerNew
  cases hn : newServer zeroInfo a (min (a.port + 1) 65535) with
  | none => exact Pres.pure _
  | some svr =>
    have : svr.addr = a ∧ svr.refreshedAt = none := by
      unfold newServer at hn
      split at hn
      · cases hn
      · cases hn; exact ⟨rfl, rfl⟩
    refine Pres.call _ _ ⟨hb svr this.1 this.2, ?_⟩ fun b hb' => ?_
    · intro x r _ _ hres; cases hres
    · cases b with
      | error e => exact Pres.pure _
      | ok sv => exact maybeDiscoverServer_pres hc maxRetries sv (hb' sv rfl)

theorem addServer_pres (hc : Closed now R) (zeroInfo : Fields) (maxRetries : Int) (a : Addr) (hb : Blank now R a) :
    Pres now R (UC.addServer zeroInfo maxRetries a) := by
  rw [addServer_eq]
  refine Pres.call _ _ trivial fun b hb' => ?_
  cases b with
  | ok svr => exact maybeDiscoverServer_pres hc maxRetries svr (hb' svr rfl).1
  | error e =>
    cases e with
    | serverNotFound => exact addServerNew_pres hc zeroInfo maxRetries a hb
    | serverExists => exact Pres.pure _
    | instanceNotFound => exact Pres.pure _
    | queueEmpty => exact Pres.pure _
    | storage => exact Pres.pure _

theorem removeAll_pres (cutoff : Int) : ∀ (l : List Server) (removed errors : Nat),
    Pres now R (removeAll cutoff l removed errors) := by
  intro l
  induction l with
  | nil => intro _ _; exact Pres.pure _
  | cons sv rest ih =>
    intro removed errors
    unfold removeAll
    refine Pres.call _ _ trivial fun b _ => ?_
    cases b with
    | error e => exact ih _ _
    | ok u => exact ih _ _

theorem cleanServers_pres (retention : Int) : Pres now R (cleanServers retention) := by
  unfold cleanServers
  refine Pres.call _ _ trivial fun t _ => ?_
  refine Pres.call _ _ trivial fun b _ => ?_
  cases b with
  | error e => exact Pres.pure _
  | ok l => exact removeAll_pres _ l 0 0

theorem cleanServers2_pres (retention : Int) : Pres now R (cleanServers2 retention) := by
  unfold cleanServers2
  refine Pres.call _ _ trivial fun t _ => ?_
  refine Pres.call _ _ trivial fun b _ => ?_
  cases b with
  | error e => exact Pres.pure _
  | ok l =>
    simp only
    split
    · exact Pres.pure _
    · refine Pres.call _ _ trivial fun b _ => ?_
      cases b with
      | error e => exact Pres.pure _
      | ok l' => exact removeAll_pres _ _ 0 0

theorem cleanInstances_pres (retention : Int) : Pres now R (cleanInstances retention) := by
  unfold cleanInstances
  refine Pres.call _ _ trivial fun t _ => ?_
  refine Pres.call _ _ trivial fun b _ => ?_
  cases b <;> exact Pres.pure _

theorem listServers_pres (liveness : Int) (status : Status) : Pres now R (listServers liveness status) := by
  unfold listServers
  refine Pres.call _ _ trivial fun t _ => ?_
  refine Pres.call _ _ trivial fun b _ => ?_
  cases b <;> exact Pres.pure _

end usecases

end Swat4.RowInv
