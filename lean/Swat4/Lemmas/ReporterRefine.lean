import Swat4.Lemmas.ReporterErr
import Swat4.Spec.ReporterSpec
/-!
# Lemmas for C04: the use cases against `ReporterSpec.absStep`, the scanner on encoded pairs
-/
namespace Swat4.Rep
open Swat4 Swat4.Heartbeat Swat4.ReporterSpec Std

/-- the reply an outcome puts on the wire -/
def replyOf : Outcome → Option Bytes
  | .reply b => some b
  | _ => none

theorem parseInstanceID_cons (t : UInt8) (id rest : Bytes) (hid : id.length = 4) :
    parseInstanceID (t :: (id ++ rest)) = some (id, rest) := by
  unfold parseInstanceID
  have : ¬ ((t :: (id ++ rest)).length < 5) := by simp [hid]
  rw [if_neg this]
  have e1 : ((t :: (id ++ rest)).drop 1).take 4 = id := by
    show (id ++ rest).take 4 = id
    exact List.take_left' hid
  have e2 : (t :: (id ++ rest)).drop 5 = rest := by
    show (id ++ rest).drop 4 = rest
    exact List.drop_left' hid
  rw [e1, e2]

theorem get_some {s : AbsState} {a : Addr} {r : SRow} (h : s.servers[a.key]? = some r) : s.get a = .ok r.svr := by
  unfold AbsState.get AbsState.getRow; rw [h]
theorem get_none {s : AbsState} {a : Addr} (h : s.servers[a.key]? = none) : s.get a = .error .serverNotFound := by
  unfold AbsState.get AbsState.getRow; rw [h]

/-- the keepalive use case against the abstract step -/
theorem renew_refines (st : AbsState) (hinv : Inv st) (srcIp : Nat) (now : Int) (id : Bytes) (cfg : Cfg) (srcPort : Nat) :
    ((UC.renew (idNat id) srcIp).run st now).1 = (absStep cfg st srcIp srcPort (.keepalive id) now).1 := by
  unfold absStep
  simp only [UC.renew, Prog.run, Call.exec, AbsState.insGet]
  cases hi : st.instances[idNat id]? with
  | none => rfl
  | some p =>
    obtain ⟨a, t⟩ := p
    dsimp only
    by_cases hip : a.ip ≠ srcIp
    · rw [if_pos hip, if_pos hip]; rfl
    · rw [if_neg hip, if_neg hip]
      simp only [Prog.run, Call.exec]
      cases hr : st.servers[a.key]? with
      | none => rw [get_none hr]; rfl
      | some r =>
        rw [get_some hr]
        have hk := (hinv.1 _ _ hr).1
        simp only [Prog.run, Call.exec, AbsState.update, AbsState.getRow]
        have hk' : ({ r.svr with refreshedAt := some now } : Server).addr.key = a.key := hk
        rw [hk', hr]
        dsimp only
        rw [if_neg (by omega)]
        simp only [AbsState.save, run_pure]
        rw [hk']

theorem insert_insert {β : Type} (m : ExtTreeMap Nat β) (k : Nat) (x y : β) : (m.insert k x).insert k y = m.insert k y := by
  apply ExtTreeMap.ext_getElem?
  intro j
  simp only [ExtTreeMap.getElem?_insert]
  split <;> rfl

/-- the removal use case against the abstract step's removal branch -/
theorem remove_refines (st : AbsState) (hinv : Inv st) (now : Int) (id : Nat) (a : Addr) (hok : a.PortOk) :
    ((UC.remove id a).run st now).1 =
      (match st.servers[a.key]?, st.instances[id]? with
        | some _, some (ia, _) =>
          if ia.ip ≠ a.ip then st
          else { st with servers := st.servers.erase a.key, instances := st.instances.erase id }
        | _, _ => st) := by
  simp only [UC.remove, Prog.run, Call.exec]
  cases hr : st.servers[a.key]? with
  | none => rw [get_none hr]; rfl
  | some r =>
    rw [get_some hr]
    have hrow := hinv.1 _ _ hr
    have hsa : r.svr.addr = a := Addr.key_inj hrow.2 hok hrow.1
    simp only [Prog.run, Call.exec, AbsState.insGet]
    cases hi : st.instances[id]? with
    | none => rfl
    | some p =>
      obtain ⟨ia, t⟩ := p
      dsimp only
      rw [hsa]
      by_cases hip : ia.ip ≠ a.ip
      · rw [if_pos hip, if_pos hip]; rfl
      · rw [if_neg hip, if_neg hip]
        simp only [Prog.run, Call.exec, AbsState.remove, AbsState.getRow, hsa, hr]
        rw [if_neg (by omega)]
        simp only [Prog.run, Call.exec, AbsState.insRemove, run_pure]

theorem ins_self {β : Type} (m : ExtTreeMap Nat β) (k : Nat) (x : β) : (m.insert k x)[k]? = some x := by
  simp

/-- the tail of `report` after the record has been stored: bind the instance, maybe start port discovery -/
theorem report_tail (st0 : AbsState) (K : Nat) (svr1 : Server) (hk : svr1.addr.key = K) (now : Int) (mr : Int)
    (id : Nat) (a : Addr) :
    (Prog.call (.insAdd ⟨id, a⟩) fun r =>
        match r with
        | .error e => (pure (.error (.repo e)) : Prog (Except UC.UErr Unit))
        | .ok _ => (UC.maybeDiscoverPort mr svr1).bind fun _ => pure (.ok ())).run
      { st0 with servers := st0.servers.insert K ⟨svr1, now⟩ } now =
    (if Status.hasNone svr1.status (Status.port ||| Status.portRetry) then
        ({ servers := st0.servers.insert K ⟨{ svr1 with status := Status.update svr1.status Status.portRetry, version := svr1.version + 1 }, now⟩,
           instances := st0.instances.insert id (a, now),
           queue := st0.queue ++ [⟨st0.nextId, ⟨svr1.addr, svr1.addr.port, .port, 0, mr⟩, now, none⟩],
           nextId := st0.nextId + 1 } : AbsState)
      else { servers := st0.servers.insert K ⟨svr1, now⟩, instances := st0.instances.insert id (a, now), queue := st0.queue, nextId := st0.nextId },
     .ok ()) := by
  simp only [Prog.run, Call.exec, AbsState.insAdd, run_bind, run_pure]
  unfold UC.maybeDiscoverPort
  by_cases hp : Status.hasNone svr1.status (Status.port ||| Status.portRetry) = true
  · rw [if_pos hp]
    simp only [hp, Bool.not_true, Bool.false_eq_true, if_false]
    simp only [Prog.run, Call.exec, AbsState.enqueue, AbsState.update, AbsState.getRow, run_pure, Bool.false_eq_true, if_false]
    have hk' : ({ svr1 with status := Status.update svr1.status Status.portRetry } : Server).addr.key = K := hk
    rw [hk', ins_self]
    dsimp only
    rw [if_neg (by omega)]
    simp only [AbsState.save, hk', insert_insert]
  · rw [if_neg hp]
    have hp' : Status.hasNone svr1.status (Status.port ||| Status.portRetry) = false := by simpa using hp
    simp only [hp', Bool.not_false, if_true, run_pure]

theorem status_pending : ∀ s : Status, Status.hasNone (Status.update s (Status.master ||| Status.info)) (Status.port ||| Status.portRetry)
    = Status.hasNone s (Status.port ||| Status.portRetry) := by decide

def isOk {ε α : Type} : Except ε α → Bool
  | .ok _ => true
  | .error _ => false

theorem add_reported (st : AbsState) (a : Addr) (base : Server) (info : Fields) (now : Int) (hk : base.addr.key = a.key)
    (h : st.servers[a.key]? = none ∨ ∃ t, st.servers[a.key]? = some ⟨base, t⟩) :
    st.add now (UC.reported info now base) (fun ex => some (UC.reported info now ex)) =
      ({ st with servers := st.servers.insert a.key ⟨{ UC.reported info now base with version := base.version + 1 }, now⟩ },
       .ok { UC.reported info now base with version := base.version + 1 }) := by
  have hk' : (UC.reported info now base).addr.key = a.key := hk
  unfold AbsState.add AbsState.getRow
  rw [hk']
  cases h with
  | inl h => rw [h]; simp only [AbsState.save, hk']; rfl
  | inr h =>
    obtain ⟨t, h⟩ := h
    rw [h]
    simp only [AbsState.save, hk']
    rfl

/-- the body of `report` once the record to start from (`base`: the stored one, or a fresh one) is known -/
theorem report_cont (mr : Int) (st : AbsState) (a : Addr) (id : Nat) (base : Server) (info : Fields) (now : Int)
    (hk : base.addr.key = a.key) (h : st.servers[a.key]? = none ∨ ∃ t, st.servers[a.key]? = some ⟨base, t⟩) :
    (Prog.call .now fun now =>
      Prog.call (.addServer (UC.reported info now base) fun ex => some (UC.reported info now ex)) fun r =>
        match r with
        | .error e => (pure (.error (.repo e)) : Prog (Except UC.UErr Unit))
        | .ok svr =>
          .call (.insAdd ⟨id, a⟩) fun r =>
            match r with
            | .error e => pure (.error (.repo e))
            | .ok _ => (UC.maybeDiscoverPort mr svr).bind fun _ => pure (.ok ())).run st now =
    (({ servers := st.servers.insert a.key ⟨(reportedServer base info now).1, now⟩,
        instances := st.instances.insert id (a, now),
        queue := if (reportedServer base info now).2 then st.queue ++ [⟨st.nextId, ⟨(reportedServer base info now).1.addr, (reportedServer base info now).1.addr.port, .port, 0, mr⟩, now, none⟩] else st.queue,
        nextId := if (reportedServer base info now).2 then st.nextId + 1 else st.nextId } : AbsState), .ok ()) := by
  simp only [Prog.run, Call.exec]
  rw [add_reported st a base info now hk h]
  dsimp only
  have ht := report_tail st a.key { UC.reported info now base with version := base.version + 1 } hk now mr id a
  rw [ht]
  unfold reportedServer
  dsimp only [UC.reported]
  simp only [status_pending]
  by_cases hp : Status.hasNone base.status (Status.port ||| Status.portRetry) = true
  · simp only [hp, if_true]
  · have hp' : Status.hasNone base.status (Status.port ||| Status.portRetry) = false := by simpa using hp
    simp only [hp', Bool.false_eq_true, if_false]

/-- what the property text says a report does, given the reading `info?` of the reported values -/
def reportSpec (mr : Int) (st : AbsState) (a : Addr) (id : Nat) (localport : Int) (info? : Option Fields) (now : Int) :
    AbsState × Bool :=
  match info? with
  | none => (st, false)
  | some info =>
    match (match st.servers[a.key]? with
           | some r => some r.svr
           | none => if localport < 1 ∨ localport > 65535 then none else some (freshServer a localport)) with
    | none => (st, false)
    | some base =>
      (({ servers := st.servers.insert a.key ⟨(reportedServer base info now).1, now⟩,
          instances := st.instances.insert id (a, now),
          queue := if (reportedServer base info now).2 then st.queue ++ [⟨st.nextId, ⟨(reportedServer base info now).1.addr, (reportedServer base info now).1.addr.port, .port, 0, mr⟩, now, none⟩] else st.queue,
          nextId := if (reportedServer base info now).2 then st.nextId + 1 else st.nextId } : AbsState), true)

theorem report_refines (mr : Int) (st : AbsState) (hinv : Inv st) (now : Int) (id : Nat) (a : Addr) (qp : Int)
    (info? : Option Fields) :
    (((UC.report zeroInfo mr ⟨a, qp, id, info?⟩).run st now).1, isOk ((UC.report zeroInfo mr ⟨a, qp, id, info?⟩).run st now).2)
      = reportSpec mr st a id qp info? now := by
  unfold UC.report reportSpec
  simp only [Prog.run, Call.exec]
  cases hr : st.servers[a.key]? with
  | some r =>
    rw [get_some hr]
    dsimp only
    cases info? with
    | none => rfl
    | some info =>
      dsimp only
      erw [report_cont mr st a id r.svr info now (hinv.1 _ _ hr).1 (Or.inr ⟨r.updatedAt, hr⟩)]
      rfl
  | none =>
    rw [get_none hr]
    dsimp only
    unfold UC.newServer
    by_cases hq : qp < 1 ∨ qp > 65535
    · rw [if_pos hq, if_pos hq]
      cases info? <;> rfl
    · rw [if_neg hq, if_neg hq]
      dsimp only
      cases info? with
      | none => rfl
      | some info =>
        dsimp only
        have := report_cont mr st a id (freshServer a qp) info now rfl (Or.inl hr)
        unfold freshServer at this ⊢
        erw [this]
        rfl

theorem hexLower_length (b : Bytes) : (hexLower b).length = 2 * b.length := by
  unfold hexLower
  induction b with
  | nil => rfl
  | cons x xs ih => simp only [List.flatMap_cons, List.length_append, List.length_cons, List.length_nil, ih]; omega

theorem copyInto_self (n : Nat) (b : Bytes) (h : b.length = n) : copyInto n b = b := by
  unfold copyInto
  exact List.take_left' h


theorem cstrHead_append (k : Bytes) (hk : nulFree k = true) (x : Bytes) : cstrHead (k ++ 0 :: x) = k := by
  induction k with
  | nil => simp [cstrHead]
  | cons c k ih =>
    simp only [nulFree, List.all_cons, Bool.and_eq_true, decide_eq_true_eq] at hk
    simp only [List.cons_append, cstrHead, if_neg hk.1]
    rw [ih (by simpa [nulFree] using hk.2)]

theorem cstrTail_append (k : Bytes) (hk : nulFree k = true) (x : Bytes) : cstrTail (k ++ 0 :: x) = x := by
  induction k with
  | nil => simp [cstrTail]
  | cons c k ih =>
    simp only [nulFree, List.all_cons, Bool.and_eq_true, decide_eq_true_eq] at hk
    simp only [List.cons_append, cstrTail, if_neg hk.1]
    exact ih (by simpa [nulFree] using hk.2)

/-- the fold that defines the reported field map, from an arbitrary start -/
def foldFields (kvs : List (Bytes × Bytes)) (m : FieldMap) : FieldMap :=
  kvs.foldl (fun m kv => if isReportable kv.1 then m.set kv.1 (toValidUTF8 kv.2) else m) m

theorem parseParamsAux_encode (trailer : Bytes) (htr : (match trailer with | [] => true | c :: _ => c == 0) = true) :
    ∀ (kvs : List (Bytes × Bytes)), kvs.all wfPair = true → ∀ (m : FieldMap) (fuel : Nat),
      fuel ≥ (encodePairs kvs ++ trailer).length →
      parseParamsAux fuel (encodePairs kvs ++ trailer) m = some (foldFields kvs m) := by
  intro kvs
  induction kvs with
  | nil =>
    intro _ m fuel _
    simp only [encodePairs, List.nil_append, foldFields, List.foldl_nil]
    cases fuel with
    | zero => rfl
    | succ f =>
      cases trailer with
      | nil => rfl
      | cons c t =>
        have hc : c = 0 := by simpa using htr
        simp only [parseParamsAux, hc, if_true]
  | cons kv kvs ih =>
    obtain ⟨k, v⟩ := kv
    intro hall m fuel hf
    simp only [List.all_cons, Bool.and_eq_true] at hall
    obtain ⟨hwf, hrest⟩ := hall
    simp only [wfPair, Bool.and_eq_true, Bool.not_eq_true', Bool.or_eq_true] at hwf
    obtain ⟨⟨⟨⟨hk0, hkn⟩, hv0⟩, hvn⟩, hrep⟩ := hwf
    cases k with
    | nil => simp at hk0
    | cons c k' =>
      cases v with
      | nil => simp at hv0
      | cons d v' =>
        have hc : c ≠ 0 := by
          simp only [nulFree, List.all_cons, Bool.and_eq_true, decide_eq_true_eq] at hkn; exact hkn.1
        have hd : d ≠ 0 := by
          simp only [nulFree, List.all_cons, Bool.and_eq_true, decide_eq_true_eq] at hvn; exact hvn.1
        -- the bytes: k 00 v 00 Y
        have hbytes : encodePairs ((c :: k', d :: v') :: kvs) ++ trailer
            = c :: (k' ++ 0 :: (d :: (v' ++ 0 :: (encodePairs kvs ++ trailer)))) := by
          simp [encodePairs]
        rw [hbytes] at hf ⊢
        simp only [List.length_cons, List.length_append] at hf
        have e1 : cstrHead (c :: (k' ++ 0 :: (d :: (v' ++ 0 :: (encodePairs kvs ++ trailer))))) = c :: k' :=
          cstrHead_append (c :: k') hkn _
        have e2 : cstrTail (c :: (k' ++ 0 :: (d :: (v' ++ 0 :: (encodePairs kvs ++ trailer)))))
            = d :: (v' ++ 0 :: (encodePairs kvs ++ trailer)) := cstrTail_append (c :: k') hkn _
        have e3 : cstrHead (d :: (v' ++ 0 :: (encodePairs kvs ++ trailer))) = d :: v' := cstrHead_append (d :: v') hvn _
        have e4 : cstrTail (d :: (v' ++ 0 :: (encodePairs kvs ++ trailer))) = encodePairs kvs ++ trailer :=
          cstrTail_append (d :: v') hvn _
        obtain ⟨f1, rfl⟩ : ∃ f1, fuel = f1 + 2 := ⟨fuel - 2, by omega⟩
        rw [parseParamsAux]
        simp only [if_neg hc]
        rw [e1, e2]
        by_cases hr : isReportable (c :: k') = true
        · simp only [hr, Bool.not_true, Bool.false_eq_true, if_false, if_neg hd]
          rw [e3, e4]
          rw [ih hrest _ (f1 + 1) (by simp only [List.length_append]; omega)]
          simp only [foldFields, List.foldl_cons, hr, if_true]
        · have hr' : isReportable (c :: k') = false := by simpa using hr
          have hv' : isReportable (d :: v') = false := by
            cases hrep with
            | inl h => rw [h] at hr'; cases hr'
            | inr h => exact h
          simp only [hr', Bool.not_false, if_true]
          rw [parseParamsAux]
          simp only [if_neg hd]
          rw [e3, e4]
          simp only [hv', Bool.not_false, if_true]
          rw [ih hrest _ f1 (by simp only [List.length_append]; omega)]
          simp only [foldFields, List.foldl_cons, hr', Bool.false_eq_true, if_false]


end Swat4.Rep
