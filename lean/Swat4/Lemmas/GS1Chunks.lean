import Swat4.Lemmas.GS1Inspect
/-! Every chunk of the field sequence of a well-formed status satisfies `ChunkOK`. -/
namespace Swat4.GS1
open Swat4 Swat4.GS1Spec

/-- names (even positions) are neither `final` nor empty; the sequence has even length -/
def AltOK : List Bytes → Prop
  | [] => True
  | [_] => False
  | n :: _ :: rest => n ≠ kFinal ∧ n ≠ [] ∧ AltOK rest

theorem AltOK_nfe : ∀ (l : List Bytes), AltOK l → ∀ pre post, l ≠ pre ++ kFinal :: [] :: post
  | [], _, pre, post => by simp
  | [_], h, _, _ => by cases h
  | n :: v :: rest, h, pre, post => by
    obtain ⟨h1, h2, h3⟩ := h
    intro e
    match pre with
    | [] =>
      simp only [List.nil_append, List.cons.injEq] at e
      exact h1 e.1
    | [x] =>
      simp only [List.cons_append, List.nil_append, List.cons.injEq] at e
      obtain ⟨_, _, e3⟩ := e
      subst e3
      match post, h3 with
      | [], h3 => cases h3
      | y :: r, h3 => exact h3.2.1 rfl
    | x :: y :: pre' =>
      simp only [List.cons_append, List.cons.injEq] at e
      exact AltOK_nfe rest h3 pre' post e.2.2

theorem AltOK_flatMap2 (kvs : List (Bytes × Bytes)) (g : Bytes × Bytes → Bytes) (rest : List Bytes)
    (h : ∀ kv ∈ kvs, g kv ≠ kFinal ∧ g kv ≠ []) (hr : AltOK rest) :
    AltOK ((kvs.flatMap fun kv => [g kv, kv.2]) ++ rest) := by
  induction kvs with
  | nil => exact hr
  | cons kv t ih =>
    simp only [List.flatMap_cons, List.cons_append, List.nil_append, AltOK]
    exact ⟨(h kv (by simp)).1, (h kv (by simp)).2, ih (fun kv' hkv' => h kv' (List.mem_cons_of_mem _ hkv'))⟩

theorem usc_mem_playerKey (k : Bytes) (j : Nat) : usc ∈ playerKey k j := by simp [playerKey]

theorem playerKey_ne (k : Bytes) (j : Nat) : playerKey k j ≠ kFinal ∧ playerKey k j ≠ [] ∧
    playerKey k j ≠ kQueryid ∧ playerKey k j ≠ kStatusresponse := by
  have := usc_mem_playerKey k j
  refine ⟨?_, ?_, ?_, ?_⟩ <;> intro e <;> rw [e] at this <;> revert this <;> decide

theorem objName_ne (n : Bytes) : kObj ++ n ≠ kFinal ∧ kObj ++ n ≠ [] ∧ kObj ++ n ≠ kQueryid ∧ kObj ++ n ≠ kStatusresponse := by
  have : usc ∈ kObj ++ n := by simp [kObj]
  refine ⟨?_, ?_, ?_, ?_⟩ <;> intro e <;> rw [e] at this <;> revert this <;> decide

/-- well-formed pair on the wire (what `WfStatus` says of every pair of the status) -/
def WfItem : Item → Prop
  | .field k v => (bsl ∉ k ∧ bsl ∉ v) ∧ (k ≠ [] ∧ usc ∉ k ∧ k ≠ kQueryid ∧ k ≠ kFinal ∧ k ≠ kStatusresponse) ∧
      (v ≠ kQueryid ∧ v ≠ kStatusresponse)
  | .player id k v => (bsl ∉ k ∧ bsl ∉ v) ∧ (usc ∉ k ∧ k ≠ kObjBare) ∧ id < 9223372036854775808 ∧
      (v ≠ kQueryid ∧ v ≠ kStatusresponse)
  | .objective n v => (bsl ∉ n ∧ bsl ∉ v) ∧ n ≠ [] ∧ (v ≠ kQueryid ∧ v ≠ kStatusresponse)

theorem WfItem.expOK {it : Item} (h : WfItem it) : ExpOK it := by
  cases it with
  | field k v => exact h.2.1.2.1
  | player id k v => exact ⟨h.2.1.1, h.2.1.2, h.2.2.1⟩
  | objective n v => exact h.2.1

/-- what the framing layer (fragmentation, inspection, reassembly) needs of a field sequence -/
structure FlatOK (fl : List Bytes) : Prop where
  alt : AltOK fl
  nobsl : ∀ g ∈ fl, bsl ∉ g
  elem : ∀ g ∈ fl, g ≠ kQueryid ∧ g ≠ kStatusresponse

theorem WfItem.name_ok {it : Item} (h : WfItem it) :
    bsl ∉ it.name ∧ it.name ≠ kFinal ∧ it.name ≠ [] ∧ it.name ≠ kQueryid ∧ it.name ≠ kStatusresponse := by
  cases it with
  | field k v => exact ⟨h.1.1, h.2.1.2.2.2.1, h.2.1.1, h.2.1.2.2.1, h.2.1.2.2.2.2⟩
  | player id k v => exact ⟨playerKey_noBsl id h.1.1, playerKey_ne k id⟩
  | objective n v =>
    refine ⟨?_, objName_ne n⟩
    simp only [Item.name, List.mem_append, not_or]; exact ⟨by decide, h.1.1⟩

theorem WfItem.value_ok {it : Item} (h : WfItem it) :
    bsl ∉ it.value ∧ it.value ≠ kQueryid ∧ it.value ≠ kStatusresponse := by
  cases it with
  | field k v => exact ⟨h.1.2, h.2.2⟩
  | player id k v => exact ⟨h.1.2, h.2.2.2⟩
  | objective n v => exact ⟨h.1.2, h.2.2⟩

/-- the field sequence of well-formed pairs, in any order, is fit for every dialect's framing -/
theorem FlatOK_flatItems (w : List Item) (h : ∀ it ∈ w, WfItem it) : FlatOK (flatItems w) := by
  refine ⟨?_, ?_, ?_⟩
  · induction w with
    | nil => trivial
    | cons it t ih =>
      have hn := (h it (by simp)).name_ok
      simp only [flatItems, List.flatMap_cons, List.cons_append, List.nil_append, AltOK]
      exact ⟨hn.2.1, hn.2.2.1, ih (fun it' h' => h it' (List.mem_cons_of_mem _ h'))⟩
  · intro g hg
    simp only [flatItems, List.mem_flatMap, List.mem_cons, List.not_mem_nil, or_false] at hg
    obtain ⟨it, hit, rfl | rfl⟩ := hg
    · exact (h it hit).name_ok.1
    · exact (h it hit).value_ok.1
  · intro g hg
    simp only [flatItems, List.mem_flatMap, List.mem_cons, List.not_mem_nil, or_false] at hg
    obtain ⟨it, hit, rfl | rfl⟩ := hg
    · exact ⟨(h it hit).name_ok.2.2.2.1, (h it hit).name_ok.2.2.2.2⟩
    · exact (h it hit).value_ok.2

/-- every contiguous part of a good field sequence is a good chunk -/
theorem ChunkOK_of_infix (fl : List Bytes) (ok : FlatOK fl) (ch : List Bytes) (h : ch <:+: fl) : ChunkOK ch := by
  obtain ⟨A, B, hAB⟩ := h
  have hmem : ∀ g ∈ ch, g ∈ fl := by
    intro g hg; rw [← hAB]; simp [hg]
  refine ⟨fun g hg => ok.nobsl g (hmem g hg), fun g hg => (ok.elem g (hmem g hg)).1,
    fun g hg => (ok.elem g (hmem g hg)).2, ?_⟩
  cases hs : hasSuffix (body ch) FINAL with
  | false => rfl
  | true =>
    exfalso
    obtain ⟨pre, hpre⟩ := body_suffix_final ch (fun g hg => ok.nobsl g (hmem g hg)) hs
    refine AltOK_nfe fl ok.alt (A ++ pre) B ?_
    rw [← hAB, hpre]; simp

theorem chunksFrom_flatten (fl : List Bytes) (prev : Nat) (cuts : List Nat) :
    (chunksFrom fl prev cuts).flatten = fl := by
  induction cuts generalizing fl prev with
  | nil => simp [chunksFrom]
  | cons c cs ih => simp [chunksFrom, ih]

theorem chunks_flatten (fl : List Bytes) (cuts : List Nat) : (chunks fl cuts).flatten = fl :=
  chunksFrom_flatten fl 0 cuts

theorem chunksFrom_ne_nil (fl : List Bytes) (prev : Nat) (cuts : List Nat) : chunksFrom fl prev cuts ≠ [] := by
  cases cuts <;> simp [chunksFrom]

theorem ChunkOK_of_mem_chunks (fl : List Bytes) (ok : FlatOK fl) (cuts : List Nat) (ch : List Bytes)
    (h : ch ∈ chunks fl cuts) : ChunkOK ch := by
  apply ChunkOK_of_infix fl ok
  have := List.infix_of_mem_flatten h
  rwa [chunks_flatten] at this

end Swat4.GS1
