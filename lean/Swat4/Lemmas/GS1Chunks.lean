import Swat4.Lemmas.GS1Inspect
/-! Every chunk of the field sequence of a well-formed status satisfies `ChunkOK`. -/
namespace Swat4.GS1
open Swat4 Swat4.GS1Spec

/-- names (even positions) are neither `final` nor empty; the sequence has even length -/
def AltOK : List Bytes → Prop
  | [] => True
  | [_] => False
  | n :: _ :: rest => n ≠ kFinal ∧ n ≠ [] ∧ AltOK rest

theorem AltOK_nfe : ∀ (l : List Bytes), AltOK l → ∀ pre post, l ≠ pre ++ kFinal :: [] :: post
  | [], _, pre, post => by simp
  | [_], h, _, _ => by cases h
  | n :: v :: rest, h, pre, post => by
    obtain ⟨h1, h2, h3⟩ := h
    intro e
    match pre with
    | [] =>
      simp only [List.nil_append, List.cons.injEq] at e
      exact h1 e.1
    | [x] =>
      simp only [List.cons_append, List.nil_append, List.cons.injEq] at e
      obtain ⟨_, _, e3⟩ := e
      subst e3
      match post, h3 with
      | [], h3 => cases h3
      | y :: r, h3 => exact h3.2.1 rfl
    | x :: y :: pre' =>
      simp only [List.cons_append, List.cons.injEq] at e
      exact AltOK_nfe rest h3 pre' post e.2.2

theorem AltOK_flatMap2 (kvs : List (Bytes × Bytes)) (g : Bytes × Bytes → Bytes) (rest : List Bytes)
    (h : ∀ kv ∈ kvs, g kv ≠ kFinal ∧ g kv ≠ []) (hr : AltOK rest) :
    AltOK ((kvs.flatMap fun kv => [g kv, kv.2]) ++ rest) := by
  induction kvs with
  | nil => exact hr
  | cons kv t ih =>
    simp only [List.flatMap_cons, List.cons_append, List.nil_append, AltOK]
    exact ⟨(h kv (by simp)).1, (h kv (by simp)).2, ih (fun kv' hkv' => h kv' (List.mem_cons_of_mem _ hkv'))⟩

theorem usc_mem_playerKey (k : Bytes) (j : Nat) : usc ∈ playerKey k j := by simp [playerKey]

theorem playerKey_ne (k : Bytes) (j : Nat) : playerKey k j ≠ kFinal ∧ playerKey k j ≠ [] ∧
    playerKey k j ≠ kQueryid ∧ playerKey k j ≠ kStatusresponse := by
  have := usc_mem_playerKey k j
  refine ⟨?_, ?_, ?_, ?_⟩ <;> intro e <;> rw [e] at this <;> revert this <;> decide

theorem objName_ne (n : Bytes) : kObj ++ n ≠ kFinal ∧ kObj ++ n ≠ [] ∧ kObj ++ n ≠ kQueryid ∧ kObj ++ n ≠ kStatusresponse := by
  have : usc ∈ kObj ++ n := by simp [kObj]
  refine ⟨?_, ?_, ?_, ?_⟩ <;> intro e <;> rw [e] at this <;> revert this <;> decide

theorem AltOK_playersFlat (ps : List (List (Bytes × Bytes))) (i : Nat) (rest : List Bytes) (hr : AltOK rest) :
    AltOK (playersFlat i ps ++ rest) := by
  induction ps generalizing i with
  | nil => exact hr
  | cons p t ih =>
    simp only [playersFlat, playerFlat, List.append_assoc]
    exact AltOK_flatMap2 p (fun kv => playerKey kv.1 i) _
      (fun kv _ => ⟨(playerKey_ne kv.1 i).1, (playerKey_ne kv.1 i).2.1⟩) (ih (i + 1))

theorem AltOK_flat (s : Status) (wf : WfStatus s) : AltOK (flat s) := by
  unfold flat
  rw [List.append_assoc]
  refine AltOK_flatMap2 s.fields (fun kv => kv.1) _ (fun kv hkv => ⟨(wf.field_names kv hkv).2.2.2.1, (wf.field_names kv hkv).1⟩) ?_
  refine AltOK_playersFlat s.players 0 _ ?_
  have := AltOK_flatMap2 s.objectives (fun kv => kObj ++ kv.1) []
    (fun kv _ => ⟨(objName_ne kv.1).1, (objName_ne kv.1).2.1⟩) trivial
  simpa using this

theorem flat_elem_ok (s : Status) (wf : WfStatus s) : ∀ g ∈ flat s, g ≠ kQueryid ∧ g ≠ kStatusresponse := by
  intro g hg
  rcases mem_flat hg with ⟨kv, hkv, h⟩ | ⟨p, hp, kv, hkv, h⟩ | ⟨kv, hkv, h⟩
  · rcases h with rfl | rfl
    · exact ⟨(wf.field_names kv hkv).2.2.1, (wf.field_names kv hkv).2.2.2.2⟩
    · exact wf.values _ (by simp only [List.mem_append, List.mem_map]; exact .inl (.inl ⟨kv, hkv, rfl⟩))
  · rcases h with ⟨j, rfl⟩ | rfl
    · exact ⟨(playerKey_ne kv.1 j).2.2.1, (playerKey_ne kv.1 j).2.2.2⟩
    · exact wf.values _ (by
        simp only [List.mem_append, List.mem_map, List.mem_flatMap]
        exact .inl (.inr ⟨p, hp, kv, hkv, rfl⟩))
  · rcases h with rfl | rfl
    · exact ⟨(objName_ne kv.1).2.2.1, (objName_ne kv.1).2.2.2⟩
    · exact wf.values _ (by simp only [List.mem_append, List.mem_map]; exact .inr ⟨kv, hkv, rfl⟩)

/-- every contiguous part of the field sequence of a well-formed status is a good chunk -/
theorem ChunkOK_of_infix (s : Status) (wf : WfStatus s) (ch : List Bytes) (h : ch <:+: flat s) : ChunkOK ch := by
  obtain ⟨A, B, hAB⟩ := h
  have hmem : ∀ g ∈ ch, g ∈ flat s := by
    intro g hg; rw [← hAB]; simp [hg]
  refine ⟨fun g hg => flat_noBsl s wf g (hmem g hg), fun g hg => (flat_elem_ok s wf g (hmem g hg)).1,
    fun g hg => (flat_elem_ok s wf g (hmem g hg)).2, ?_⟩
  cases hs : hasSuffix (body ch) FINAL with
  | false => rfl
  | true =>
    exfalso
    obtain ⟨pre, hpre⟩ := body_suffix_final ch (fun g hg => flat_noBsl s wf g (hmem g hg)) hs
    refine AltOK_nfe (flat s) (AltOK_flat s wf) (A ++ pre) B ?_
    rw [← hAB, hpre]; simp

theorem chunksFrom_flatten (fl : List Bytes) (prev : Nat) (cuts : List Nat) :
    (chunksFrom fl prev cuts).flatten = fl := by
  induction cuts generalizing fl prev with
  | nil => simp [chunksFrom]
  | cons c cs ih => simp [chunksFrom, ih]

theorem chunks_flatten (fl : List Bytes) (cuts : List Nat) : (chunks fl cuts).flatten = fl :=
  chunksFrom_flatten fl 0 cuts

theorem chunksFrom_ne_nil (fl : List Bytes) (prev : Nat) (cuts : List Nat) : chunksFrom fl prev cuts ≠ [] := by
  cases cuts <;> simp [chunksFrom]

theorem ChunkOK_of_mem_chunks (s : Status) (wf : WfStatus s) (cuts : List Nat) (ch : List Bytes)
    (h : ch ∈ chunks (flat s) cuts) : ChunkOK ch := by
  apply ChunkOK_of_infix s wf
  have := List.infix_of_mem_flatten h
  rwa [chunks_flatten] at this

end Swat4.GS1
