import Swat4.Model.Rest
import Swat4.Spec.RestSpec
/-! Helper lemmas for C17, address part: Go's byte-level class predicates are the RFC ranges. -/
namespace Swat4.Rest
open Swat4

/-- the four bytes as numbers, for the reference definitions -/
def toQuad (ip : IP4) : RestSpec.Quad := ⟨ip.a.toNat, ip.b.toNat, ip.c.toNat, ip.d.toNat⟩

/-- what the registry knows about the addressed server, for the reference status table -/
def knownOf : SrvState → RestSpec.Known
  | .absent => ⟨false, false, false, false⟩
  | .present w _ _ => ⟨true, hasBit w dsDetails, hasBit w dsPortRetry || hasBit w dsDetailsRetry, hasBit w dsNoPort⟩

set_option maxRecDepth 100000 in
theorem fin_f0_16 : ∀ i : Fin 256,
    ((UInt8.ofFin i) &&& 0xf0 == 16) = (decide (16 ≤ i.val) && decide (i.val ≤ 31)) := by decide

set_option maxRecDepth 100000 in
theorem fin_f0_e0 : ∀ i : Fin 256,
    ((UInt8.ofFin i) &&& 0xf0 == 0xe0) = (decide (224 ≤ i.val) && decide (i.val ≤ 239)) := by decide

/-- `b & 0xf0 == 16` is `16 ≤ b ≤ 31` (complete table over the 256 byte values) -/
theorem and_f0_eq_16 (b : UInt8) : (b &&& 0xf0 == 16) = (decide (16 ≤ b.toNat) && decide (b.toNat ≤ 31)) := by
  simpa using fin_f0_16 b.toFin

/-- `b & 0xf0 == 0xe0` is `224 ≤ b ≤ 239` -/
theorem and_f0_eq_e0 (b : UInt8) : (b &&& 0xf0 == 0xe0) = (decide (224 ≤ b.toNat) && decide (b.toNat ≤ 239)) := by
  simpa using fin_f0_e0 b.toFin

theorem u8_beq (x y : UInt8) : (x == y) = (x.toNat == y.toNat) := by
  rw [Bool.eq_iff_iff]; simp [← UInt8.toNat_inj]

theorem isLoopback_eq (ip : IP4) : isLoopback ip = RestSpec.loopback (toQuad ip) := by
  simp [isLoopback, RestSpec.loopback, toQuad, u8_beq]

theorem isPrivate_eq (ip : IP4) : isPrivate ip = RestSpec.rfc1918 (toQuad ip) := by
  unfold isPrivate
  rw [and_f0_eq_16]
  unfold RestSpec.rfc1918 toQuad
  dsimp only
  rw [Bool.eq_iff_iff]
  simp [u8_beq, and_assoc]

theorem isMulticast_eq (ip : IP4) : isMulticast ip = RestSpec.multicast (toQuad ip) := by
  unfold isMulticast
  rw [and_f0_eq_e0]
  unfold RestSpec.multicast toQuad
  dsimp only

theorem isLinkLocal_eq (ip : IP4) : isLinkLocalUnicast ip = RestSpec.linkLocal (toQuad ip) := by
  simp [isLinkLocalUnicast, RestSpec.linkLocal, toQuad, u8_beq]

theorem isUnspecified_eq (ip : IP4) : isUnspecified ip = RestSpec.unspecified (toQuad ip) := by
  simp [isUnspecified, RestSpec.unspecified, toQuad, u8_beq]

theorem isBroadcast_eq (ip : IP4) : isBroadcast ip = RestSpec.broadcast (toQuad ip) := by
  simp [isBroadcast, RestSpec.broadcast, toQuad, u8_beq]

/-- `addr.New` then `addr.NewPublicAddr`, flattened -/
theorem publicAddr_eq (ip : IP4) (port : Int) :
    publicAddr ip port =
      if port < 1 ∨ port > 65535 then .error .invalidPort
      else if (!isGlobalUnicast ip && !isPrivate ip && !isLoopback ip) = true then .error .invalidIP
      else if (isPrivate ip || isLoopback ip) = true then .error .invalidPublicIP
      else .ok ⟨ip, port⟩ := by
  unfold publicAddr addrNew newPublicAddr
  by_cases hp : port < 1 ∨ port > 65535
  · simp [hp]
  · simp only [hp, if_false]
    by_cases h1 : (!isGlobalUnicast ip && !isPrivate ip && !isLoopback ip) = true
    · simp [h1]
    · simp [h1]

/-- acceptance is exactly: in none of the RFC classes, port in `1..65535` -/
theorem publicAddr_ok_iff (ip : IP4) (port : Int) (a : Addr) :
    publicAddr ip port = .ok a ↔
      (RestSpec.routable (toQuad ip) = true ∧ RestSpec.validPort port = true ∧ a = ⟨ip, port⟩) := by
  rw [publicAddr_eq]
  unfold isGlobalUnicast RestSpec.routable RestSpec.validPort
  rw [isLoopback_eq, isPrivate_eq, isMulticast_eq, isLinkLocal_eq, isUnspecified_eq, isBroadcast_eq]
  generalize RestSpec.loopback (toQuad ip) = b1
  generalize RestSpec.rfc1918 (toQuad ip) = b2
  generalize RestSpec.linkLocal (toQuad ip) = b3
  generalize RestSpec.multicast (toQuad ip) = b4
  generalize RestSpec.unspecified (toQuad ip) = b5
  generalize RestSpec.broadcast (toQuad ip) = b6
  by_cases hp : port < 1 ∨ port > 65535
  · have : ¬ (1 ≤ port ∧ port ≤ 65535) := by omega
    simp [hp, this]
  · have : 1 ≤ port ∧ port ≤ 65535 := by omega
    cases b1 <;> cases b2 <;> cases b3 <;> cases b4 <;> cases b5 <;> cases b6 <;> simp [hp, this, eq_comm]

theorem publicAddr_cases (ip : IP4) (port : Int) :
    ((RestSpec.routable (toQuad ip) && RestSpec.validPort port) = true ∧ publicAddr ip port = .ok ⟨ip, port⟩) ∨
    ((RestSpec.routable (toQuad ip) && RestSpec.validPort port) = false ∧ ∃ e, publicAddr ip port = .error e) := by
  cases h : publicAddr ip port with
  | ok a =>
    have := (publicAddr_ok_iff ip port a).mp h
    left
    simp [this.1, this.2.1, this.2.2]
  | error e =>
    right
    refine ⟨?_, e, rfl⟩
    cases hb : (RestSpec.routable (toQuad ip) && RestSpec.validPort port) with
    | false => rfl
    | true =>
      simp only [Bool.and_eq_true] at hb
      have := (publicAddr_ok_iff ip port ⟨ip, port⟩).mpr ⟨hb.1, hb.2, rfl⟩
      rw [h] at this
      cases this

/-- the status and effect of `addExecute`, by the row of the table -/
theorem addExecute_status (a : Addr) (st : SrvState) :
    (addExecute a st).status = RestSpec.addTable true (knownOf st) ∧
    (addExecute a st).status ≠ 400 ∧
    (∀ c a' q w, (addExecute a st).effect = .discover c a' q w → a' = a) := by
  cases st with
  | absent => simp [addExecute, knownOf, RestSpec.addTable]
  | present w qp h =>
    unfold addExecute knownOf RestSpec.addTable
    by_cases h1 : hasBit w dsDetails = true
    · simp [h1]
    · by_cases h2 : (hasBit w dsPortRetry || hasBit w dsDetailsRetry) = true
      · simp [h1, h2]
      · by_cases h3 : hasBit w dsNoPort = true
        · simp [h1, h2, h3]
        · simp only [h1, h2, h3]
          simp

theorem viewExecute_status (st : SrvState) :
    (viewExecute st).status = RestSpec.viewTable true (knownOf st) ∧
    (viewExecute st).status ≠ 400 ∧ (viewExecute st).effect = .none := by
  cases st with
  | absent => simp [viewExecute, knownOf, RestSpec.viewTable]
  | present w qp h =>
    unfold viewExecute knownOf RestSpec.viewTable
    by_cases h1 : hasBit w dsDetails = true <;> simp [h1]

theorem firstSep_mem (l : Bytes) (c : UInt8) (h : firstSep l = some c) : c ∈ l := by
  induction l with
  | nil => simp [firstSep] at h
  | cons x t ih =>
    unfold firstSep at h
    split at h
    · cases h; simp
    · exact List.mem_cons_of_mem _ (ih h)

/-- a string without `:` never reaches the IPv6 parser -/
theorem parseIP_no_colon (l : Bytes) (h : ∀ c ∈ l, c ≠ 58) : parseIP l ≠ .v6 := by
  unfold parseIP
  split
  · split <;> simp
  · next hs => exact absurd rfl (h 58 (firstSep_mem l 58 hs))
  · simp

theorem mem_takeWhile_sat {α : Type} (p : α → Bool) (l : List α) (c : α) (h : c ∈ l.takeWhile p) : p c = true := by
  induction l with
  | nil => simp at h
  | cons x t ih =>
    rw [List.takeWhile_cons] at h
    split at h
    · next hx =>
      rcases List.mem_cons.mp h with rfl | h'
      · exact hx
      · exact ih h'
    · simp at h

theorem addrNew_ok (ip : IP4) (p : Int) (a : Addr) (h : addrNew (some ip) p = .ok a) : a = ⟨ip, p⟩ := by
  unfold addrNew at h
  by_cases hp : p < 1 ∨ p > 65535
  · simp [hp] at h
  · by_cases hc : (!isGlobalUnicast ip && !isPrivate ip && !isLoopback ip) = true
    · simp [hp, hc] at h
    · simp [hp, hc] at h
      exact h.symm

/-- `NewFromString` is modelled on every string, and an accepted address is one `addr.New` accepts -/
theorem addrFromString_cases (s : Bytes) :
    (∃ e, addrFromString s = .err e) ∨
    (∃ a, addrFromString s = .ok a ∧ addrNew (some a.ip) a.port = .ok a) := by
  unfold addrFromString
  simp only []
  split
  · exact .inl ⟨_, rfl⟩
  · split
    · exact .inl ⟨_, rfl⟩
    · next p _ =>
      unfold addrFromDotted
      have hno : parseIP (s.takeWhile (· ≠ 58)) ≠ .v6 :=
        parseIP_no_colon _ (fun c hc => by simpa using mem_takeWhile_sat _ _ c hc)
      cases hp : parseIP (s.takeWhile (· ≠ 58)) with
      | v6 => exact absurd hp hno
      | bad =>
        simp only []
        cases h : addrNew none p with
        | error e => exact .inl ⟨e, rfl⟩
        | ok a => unfold addrNew at h; split at h <;> cases h
      | ok ip4 =>
        simp only []
        cases h : addrNew (some ip4) p with
        | error e => exact .inl ⟨e, rfl⟩
        | ok a =>
          have := addrNew_ok ip4 p a h
          subst this
          exact .inr ⟨_, rfl, h⟩

end Swat4.Rest
