import Swat4.Lemmas.StoreRefine
import Swat4.Drv.StoreRun
/-!
# The drivers' sequential runner against the machines the theorems speak about

`Drv/StoreRun.lean` runs a call command by command with trace labels and an optional client
death (`runWriterC`, `runQC`, `runCall`).  Here: every state that runner produces is
`Consistent` (so is every dump the C10 driver renders from the model), and without a crash it
computes what `runWriter` computes (the function `write_refines` / `C11_main` are stated for).
-/
namespace Swat4.Drv
open Swat4 Swat4.RStore Std

theorem wlabel_none_iff (st : RStore) (w : Writer) : wlabel st w = none ↔ ∃ r, w.pc = .done r := by
  unfold wlabel
  cases w.pc <;> simp

/-- the writer runner with any crash point, any budget: the keyspace stays consistent -/
theorem runWriterC_consistent (s : SeqState) (h : Consistent s.st) (w : Writer) (crash : Crash) (fuel n : Nat)
    (tr : List String) : Consistent (runWriterC s w crash fuel n tr).1.st := by
  induction fuel generalizing s w n tr with
  | zero => exact h
  | succ fuel ih =>
    unfold runWriterC
    have hstep : Consistent (wstep s.st s.clock s.fresh 0 w).1 := wstep_consistent h _ _ _ _
    cases hl : wlabel s.st w with
    | none => exact h
    | some l =>
      simp only
      cases crash with
      | none => exact ih _ hstep _ _ _
      | before c =>
        by_cases hc : n = c
        · simp only [hc, if_true]; exact h
        · simp only [hc, if_false]; exact ih _ hstep _ _ _
      | after c =>
        by_cases hc : n = c
        · simp only [hc, if_true]; exact hstep
        · simp only [hc, if_false]; exact ih _ hstep _ _ _

/-- the queue / instance runner with any crash point, any budget -/
theorem runQC_consistent (s : SeqState) (h : Consistent s.st) (op : QOp) (pc : QPC) (crash : Crash) (fuel n : Nat)
    (tr : List String) : Consistent (runQC s op pc crash fuel n tr).1.st := by
  induction fuel generalizing s pc n tr with
  | zero => exact h
  | succ fuel ih =>
    unfold runQC
    have hstep : Consistent (qstep s.st s.clock s.fresh op pc).1 := qstep_consistent h _ _ _ _
    cases pc with
    | done r => exact h
    | start | clearExec _ | popRange _ _ | popExec _ _ _ =>
      simp only
      cases crash with
      | none => exact ih _ hstep _ _ _
      | before c =>
        by_cases hc : n = c
        · simp only [hc, if_true]; exact h
        · simp only [hc, if_false]; exact ih _ hstep _ _ _
      | after c =>
        by_cases hc : n = c
        · simp only [hc, if_true]; exact hstep
        · simp only [hc, if_false]; exact ih _ hstep _ _ _

/-- **every call of the drivers' runner, cut anywhere or not at all, leaves the model keyspace consistent** -/
theorem runCall_consistent (s : SeqState) (h : Consistent s.st) (c : CallSpec) (crash : Crash) :
    Consistent (runCall s c crash).1.st := by
  cases c with
  | w kind svr res =>
    show Consistent (runWriterC { s with fresh := s.fresh + 1 } _ crash 200 0 []).1.st
    exact runWriterC_consistent { s with fresh := s.fresh + 1 } h _ _ _ _ _
  | q op => exact runQC_consistent _ h _ _ _ _ _ _
  | get a => exact h
  | filter fs => exact h
  | count => exact h
  | countby => exact h

/-- expiry of all leases, as the C10 driver's `e` item does it -/
theorem expireAll_consistent (st : RStore) (h : Consistent st) (ks : List Nat) (d : Bool) :
    Consistent (ks.foldl (fun st k => st.lockExpire k d) st) := by
  induction ks generalizing st with
  | nil => exact h
  | cons k ks ih => exact ih _ (lockExpire_consistent h k d)

/-- without a crash the drivers' writer runner computes `runWriter`: if `runWriter` finishes with
`done r` within `fuel` commands, the runner (with one more unit of fuel, for the final look at the
pc) ends in the same keyspace and renders `r` -/
theorem runWriterC_none (s : SeqState) (w : Writer) (fuel n : Nat) (tr : List String) (r : WResult)
    (hdone : (runWriter s.st s.clock w s.fresh fuel).2.pc = .done r) :
    (runWriterC s w .none (fuel + 1) n tr).1.st = (runWriter s.st s.clock w s.fresh fuel).1 ∧
    (runWriterC s w .none (fuel + 1) n tr).1.clock = s.clock ∧
    (runWriterC s w .none (fuel + 1) n tr).2.1 = renderWResult r := by
  induction fuel generalizing s w n tr with
  | zero =>
    simp only [runWriter] at hdone
    unfold runWriterC
    have : wlabel s.st w = none := (wlabel_none_iff _ _).2 ⟨r, hdone⟩
    simp only [this, runWriter, hdone]
    refine ⟨?_, ?_, ?_⟩ <;> first | rfl | trivial
  | succ fuel ih =>
    unfold runWriterC
    cases hl : wlabel s.st w with
    | none =>
      obtain ⟨r', hr'⟩ := (wlabel_none_iff _ _).1 hl
      unfold runWriter at hdone ⊢
      simp only [hr'] at hdone ⊢
      cases hdone
      refine ⟨?_, ?_, ?_⟩ <;> first | rfl | trivial
    | some l =>
      have hnd : ∀ r', w.pc ≠ .done r' := by
        intro r' hr'
        rw [(wlabel_none_iff _ _).2 ⟨r', hr'⟩] at hl; cases hl
      have hrw : runWriter s.st s.clock w s.fresh (fuel + 1) =
          runWriter (wstep s.st s.clock s.fresh 0 w).1 s.clock (wstep s.st s.clock s.fresh 0 w).2.1
            (if (wstep s.st s.clock s.fresh 0 w).2.2.1 then s.fresh + 1 else s.fresh) fuel := by
        conv => lhs; unfold runWriter
        cases hpc : w.pc with
        | done r' => exact absurd hpc (hnd r')
        | _ => rfl
      rw [hrw] at hdone ⊢
      simp only
      exact ih ⟨(wstep s.st s.clock s.fresh 0 w).1, s.clock,
          if (wstep s.st s.clock s.fresh 0 w).2.2.1 then s.fresh + 1 else s.fresh⟩
        (wstep s.st s.clock s.fresh 0 w).2.1 (n + 1) (tr ++ [s!"0:{l}"]) hdone

/-- more fuel does not change a finished run -/
theorem runWriter_mono (st : RStore) (clock : Int) (w : Writer) (fresh n m : Nat) (r : WResult)
    (h : (runWriter st clock w fresh n).2.pc = .done r) :
    runWriter st clock w fresh (n + m) = runWriter st clock w fresh n := by
  induction n generalizing st w fresh with
  | zero =>
    simp only [runWriter] at h
    cases m with
    | zero => rfl
    | succ m => simp only [runWriter, h]
  | succ n ih =>
    rw [Nat.add_right_comm]
    unfold runWriter
    cases hpc : w.pc with
    | done r' => rfl
    | _ =>
      simp only
      unfold runWriter at h
      simp only [hpc] at h
      exact ih _ _ _ h

/-- **the drivers' `runCall` for a write, without crash, refines the specification**: from a
consistent store related to `a` without lock cells it renders the specification's result and ends
in a consistent store related to the specification's next state, again without lock cells -/
theorem runCall_write_refines {s : SeqState} {a : AbsState} (hc : Consistent s.st) (hrel : Rel s.st a)
    (hno : ∀ k : Nat, s.st.locks[k]? = none) (kind : WKind) (svr : Server) (res : Resolver) :
    (runCall s (.w kind svr res) .none).2.1 = renderWResult (specWrite a s.clock ⟨kind, svr, res⟩).2 ∧
    Rel (runCall s (.w kind svr res) .none).1.st (specWrite a s.clock ⟨kind, svr, res⟩).1 ∧
    Consistent (runCall s (.w kind svr res) .none).1.st ∧
    (∀ k : Nat, (runCall s (.w kind svr res) .none).1.st.locks[k]? = none) ∧
    (runCall s (.w kind svr res) .none).1.clock = s.clock := by
  obtain ⟨h1, h2, h3⟩ := write_refines_aux hrel s.clock ⟨kind, svr, res⟩ s.fresh (s.fresh + 1) (hno _)
  have hm := runWriter_mono s.st s.clock (Writer.start ⟨kind, svr, res⟩ s.fresh) (s.fresh + 1) 16 183 _ h1
  have hd : (runWriter s.st s.clock (Writer.start ⟨kind, svr, res⟩ s.fresh) (s.fresh + 1) 199).2.pc =
      .done (specWrite a s.clock ⟨kind, svr, res⟩).2 := by
    show (runWriter s.st s.clock _ (s.fresh + 1) (16 + 183)).2.pc = _
    rw [hm]; exact h1
  obtain ⟨e1, e2, e3⟩ := runWriterC_none { s with fresh := s.fresh + 1 } (Writer.start ⟨kind, svr, res⟩ s.fresh) 199 0 [] _ hd
  have est : (runCall s (.w kind svr res) .none).1.st =
      (runWriter s.st s.clock (Writer.start ⟨kind, svr, res⟩ s.fresh) (s.fresh + 1) 16).1 := by
    show (runWriterC { s with fresh := s.fresh + 1 } (Writer.start ⟨kind, svr, res⟩ s.fresh) .none (199 + 1) 0 []).1.st = _
    rw [e1]
    show (runWriter s.st s.clock _ (s.fresh + 1) (16 + 183)).1 = _
    rw [hm]
  refine ⟨e3, ?_, ?_, ?_, e2⟩
  · rw [est]; exact h2
  · rw [est]; exact runWriter_consistent hc _ _ _ _
  · intro k; rw [est, h3]; exact hno k

end Swat4.Drv
