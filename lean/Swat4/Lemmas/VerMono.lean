import Swat4.Lemmas.RowInv
import Swat4.Lemmas.USysInd
/-!
# Versions only grow (C13, reviewer W1)

The race theorems of C13 assumed `hmono`: "the concurrent write leaves the stored row unchanged or with a strictly larger
version".  This file discharges it:

* `exec_rowLe`: for **every** repository call of the model (`Call`) whose conflict callback leaves address and version
  alone (`CallStable`; `usecases_stable`: every call of every use case is one), on a store whose rows sit under their own
  keys: the row under any key is afterwards gone (only a `Remove` does that), unchanged, or has a strictly larger version;
* `Mono s s'` (every row of `s` is still there in `s'`, unchanged or with a larger version) is a preorder and is
  established by every call that is not a `Remove`, hence by every run of a program without `Remove`
  (`run_mono`), and by every `USys` run of such clients (`usys_run_mono`).
-/
namespace Swat4.VerMono
open Swat4 Swat4.UC Std RowInv

/-- a conflict callback that leaves address and version alone (all callbacks in the code base do) -/
def ResKeeps (res : Resolver) : Prop := ∀ s r, res s = some r → r.addr = s.addr ∧ r.version = s.version

/-- the conflict callback of the call (if it has one that may store a record) leaves address and version alone -/
def CallStable : {β : Type} → Call β → Prop
  | _, .addServer _ res => ResKeeps res
  | _, .updateServer _ res => ResKeeps res
  | _, .updateServerT _ res => ∀ t, ResKeeps (res t)
  | _, _ => True

/-- the call is not a registry `Remove` -/
def NoRemove : {β : Type} → Call β → Prop
  | _, .removeServer _ _ => False
  | _, _ => True

/-- the row is still there: unchanged or with a strictly larger version -/
def RowLe (o o' : Option SRow) : Prop :=
  ∀ row, o = some row → ∃ row', o' = some row' ∧ (row' = row ∨ row'.svr.version > row.svr.version)

/-- … or it was removed -/
def RowLeR (o o' : Option SRow) : Prop :=
  ∀ row, o = some row → o' = none ∨ ∃ row', o' = some row' ∧ (row' = row ∨ row'.svr.version > row.svr.version)

theorem RowLe.refl (o : Option SRow) : RowLe o o := fun row h => ⟨row, h, Or.inl rfl⟩

theorem RowLe.trans {a b c : Option SRow} (h1 : RowLe a b) (h2 : RowLe b c) : RowLe a c := by
  intro row hrow
  obtain ⟨r1, hr1, h⟩ := h1 row hrow
  obtain ⟨r2, hr2, h'⟩ := h2 r1 hr1
  refine ⟨r2, hr2, ?_⟩
  rcases h with rfl | h
  · exact h'
  · rcases h' with rfl | h'
    · exact Or.inr h
    · exact Or.inr (by omega)

theorem RowLe.toR {a b : Option SRow} (h : RowLe a b) : RowLeR a b := fun row hrow => Or.inr (h row hrow)

/-- every row of `s` is still stored in `s'`, unchanged or with a strictly larger version -/
def Mono (s s' : AbsState) : Prop := ∀ k : Nat, RowLe (s.servers[k]?) (s'.servers[k]?)

theorem Mono.refl (s : AbsState) : Mono s s := fun _ => RowLe.refl _
theorem Mono.trans {a b c : AbsState} (h1 : Mono a b) (h2 : Mono b c) : Mono a c := fun k => (h1 k).trans (h2 k)
theorem Mono.of_servers {s s' : AbsState} (h : s'.servers = s.servers) : Mono s s' := by
  intro k; rw [h]; exact RowLe.refl _

/-! ## one call -/

theorem save_rowLe (s : AbsState) (t : Int) (svr : Server) (k : Nat)
    (h : ∀ row, s.servers[svr.addr.key]? = some row → row.svr.version ≤ svr.version) :
    RowLe (s.servers[k]?) ((s.save t svr).1.servers[k]?) := by
  intro row hrow
  simp only [AbsState.save, ExtTreeMap.getElem?_insert]
  split
  · rename_i heq
    have hk : svr.addr.key = k := by simpa using heq
    refine ⟨_, rfl, Or.inr ?_⟩
    have := h row (hk ▸ hrow)
    show svr.version + 1 > row.svr.version
    omega
  · exact ⟨row, hrow, Or.inl rfl⟩

theorem erase_rowLeR (s : AbsState) (k0 k : Nat) :
    RowLeR (s.servers[k]?) (({ s with servers := s.servers.erase k0 } : AbsState).servers[k]?) := by
  intro row hrow
  simp only [ExtTreeMap.getElem?_erase]
  split
  · exact Or.inl rfl
  · exact Or.inr ⟨row, hrow, Or.inl rfl⟩

theorem resolved_rowLe (s : AbsState) (hk : Keyed s) (t : Int) (svr : Server) (ex : SRow) (res : Resolver) (resolved : Server)
    (hres : ResKeeps res) (hrow : s.servers[svr.addr.key]? = some ex) (hx : res ex.svr = some resolved) (k : Nat) :
    RowLe (s.servers[k]?) ((s.save t resolved).1.servers[k]?) := by
  obtain ⟨ha, hv⟩ := hres _ _ hx
  apply save_rowLe
  intro row hr
  rw [ha, hk _ _ hrow, hrow] at hr
  cases hr
  omega

theorem add_rowLe (s : AbsState) (hk : Keyed s) (t : Int) (svr : Server) (res : Resolver) (hres : ResKeeps res) (k : Nat) :
    RowLe (s.servers[k]?) ((s.add t svr res).1.servers[k]?) := by
  unfold AbsState.add
  cases hrow : s.getRow svr.addr with
  | none =>
    apply save_rowLe
    intro row hr
    have : s.servers[svr.addr.key]? = none := hrow
    rw [this] at hr; cases hr
  | some ex =>
    simp only
    cases hx : res ex.svr with
    | none => exact RowLe.refl _
    | some resolved => exact resolved_rowLe s hk t svr ex res resolved hres hrow hx k

theorem update_rowLe (s : AbsState) (hk : Keyed s) (t : Int) (svr : Server) (res : Resolver) (hres : ResKeeps res) (k : Nat) :
    RowLe (s.servers[k]?) ((s.update t svr res).1.servers[k]?) := by
  unfold AbsState.update
  cases hrow : s.getRow svr.addr with
  | none => exact RowLe.refl _
  | some ex =>
    have hrow' : s.servers[svr.addr.key]? = some ex := hrow
    simp only
    split
    · cases hx : res ex.svr with
      | none => exact RowLe.refl _
      | some resolved => exact resolved_rowLe s hk t svr ex res resolved hres hrow hx k
    · rename_i hnot
      apply save_rowLe
      intro row hr
      rw [hrow'] at hr
      cases hr
      omega

theorem remove_rowLeR (s : AbsState) (svr : Server) (res : Resolver) (k : Nat) :
    RowLeR (s.servers[k]?) ((s.remove svr res).1.servers[k]?) := by
  unfold AbsState.remove
  cases s.getRow svr.addr with
  | none => exact (RowLe.refl _).toR
  | some ex =>
    simp only
    split
    · cases res ex.svr with
      | none => exact (RowLe.refl _).toR
      | some r => exact erase_rowLeR s _ k
    · exact erase_rowLeR s _ k

theorem insClear_servers (s : AbsState) (before : GoTime) : (s.insClear before).1.servers = s.servers := rfl

/-- calls other than the four registry writes leave the registry alone -/
theorem exec_servers_of_nonwrite {β : Type} (c : Call β) (s : AbsState) (t : Int)
    (h : match c with | .addServer _ _ => False | .updateServer _ _ => False | .updateServerT _ _ => False
                      | .removeServer _ _ => False | _ => True) :
    (c.exec s t).1.servers = s.servers := by
  cases c with
  | addServer => exact h.elim
  | updateServer => exact h.elim
  | updateServerT => exact h.elim
  | removeServer => exact h.elim
  | enqueue p a b => exact enqueue_servers s t p a b
  | popMany n => exact popMany_servers s t n
  | _ => rfl

/-- rows stay under their keys, whatever the call -/
theorem exec_keyed {β : Type} (c : Call β) (s : AbsState) (t : Int) (hk : Keyed s) : Keyed (c.exec s t).1 := by
  have hc : Closed t (fun _ => True) := ⟨fun _ _ _ _ _ _ => trivial, fun _ _ _ => trivial⟩
  have hcall : CallOK t (fun _ => True) c := by
    cases c <;> first | exact trivial | exact ⟨trivial, fun _ _ _ _ _ => trivial⟩
  exact (exec_inv hc c s hcall hk (fun _ _ _ => trivial)).1

/-- **`exec_version_mono`, per key.**  Any repository call with a stable conflict callback, on a store whose rows sit under
their own keys, at any clock value: the row under any key `k` is afterwards removed (possible only for a `Remove`),
unchanged, or has a strictly larger version. -/
theorem exec_rowLe {β : Type} (c : Call β) (hc : CallStable c) (s : AbsState) (hk : Keyed s) (t : Int) (k : Nat) :
    RowLeR (s.servers[k]?) ((c.exec s t).1.servers[k]?) ∧ (NoRemove c → RowLe (s.servers[k]?) ((c.exec s t).1.servers[k]?)) := by
  cases c with
  | addServer svr res => exact ⟨(add_rowLe s hk t svr res hc k).toR, fun _ => add_rowLe s hk t svr res hc k⟩
  | updateServer svr res => exact ⟨(update_rowLe s hk t svr res hc k).toR, fun _ => update_rowLe s hk t svr res hc k⟩
  | updateServerT svr res => exact ⟨(update_rowLe s hk t svr (res t) (hc t) k).toR, fun _ => update_rowLe s hk t svr (res t) (hc t) k⟩
  | removeServer svr res => exact ⟨remove_rowLeR s svr res k, fun h => h.elim⟩
  | enqueue p a b =>
    have : ((Call.enqueue p a b).exec s t).1.servers = s.servers := enqueue_servers s t p a b
    rw [this]; exact ⟨(RowLe.refl _).toR, fun _ => RowLe.refl _⟩
  | popMany n =>
    have : ((Call.popMany n).exec s t).1.servers = s.servers := popMany_servers s t n
    rw [this]; exact ⟨(RowLe.refl _).toR, fun _ => RowLe.refl _⟩
  | _ => exact ⟨(RowLe.refl _).toR, fun _ => RowLe.refl _⟩

/-- a call that is not a `Remove` keeps every row, unchanged or with a larger version -/
theorem exec_mono {β : Type} (c : Call β) (hc : CallStable c) (hn : NoRemove c) (s : AbsState) (hk : Keyed s) (t : Int) :
    Mono s (c.exec s t).1 := fun k => (exec_rowLe c hc s hk t k).2 hn

/-! ## programs -/

/-- every call the program can issue (whatever the replies) satisfies `Q` -/
inductive AllCalls (Q : {β : Type} → Call β → Prop) {α : Type} : Prog α → Prop where
  | ret (a : α) : AllCalls Q (.ret a)
  | call {β : Type} (c : Call β) (k : β → Prog α) : Q c → (∀ b, AllCalls Q (k b)) → AllCalls Q (.call c k)

theorem AllCalls.pure {Q : {β : Type} → Call β → Prop} {α : Type} (a : α) : AllCalls Q (pure a : Prog α) := AllCalls.ret a

theorem AllCalls.bind {Q : {β : Type} → Call β → Prop} {α β : Type} {p : Prog α} {f : α → Prog β}
    (hp : AllCalls Q p) (hf : ∀ a, AllCalls Q (f a)) : AllCalls Q (p.bind f) := by
  induction hp with
  | ret a => exact hf a
  | call c k hc _ ih => exact AllCalls.call c _ hc fun b => ih b

theorem AllCalls.imp {Q Q' : {β : Type} → Call β → Prop} (h : ∀ {β : Type} (c : Call β), Q c → Q' c) {α : Type} {p : Prog α}
    (hp : AllCalls Q p) : AllCalls Q' p := by
  induction hp with
  | ret a => exact AllCalls.ret a
  | call c k hc _ ih => exact AllCalls.call c k (h c hc) ih

/-- every conflict callback the program can pass leaves address and version alone -/
abbrev ResStableProg {α : Type} (p : Prog α) : Prop := AllCalls (fun c => CallStable c) p

/-- … and the program never issues a `Remove` -/
abbrev ProgStable {α : Type} (p : Prog α) : Prop := AllCalls (fun c => CallStable c ∧ NoRemove c) p

theorem ProgStable.res {α : Type} {p : Prog α} (h : ProgStable p) : ResStableProg p := h.imp fun _ hc => hc.1

/-- **a run of a program without `Remove`** keeps every row, unchanged or with a larger version -/
theorem run_mono {α : Type} {p : Prog α} (hp : ProgStable p) : ∀ (s : AbsState) (t : Int), Keyed s →
    Keyed (p.run s t).1 ∧ Mono s (p.run s t).1 := by
  induction hp with
  | ret a => intro s t hk; exact ⟨hk, Mono.refl s⟩
  | call c k hc _ ih =>
    intro s t hk
    rw [Prog.run_call]
    have h1 := exec_mono c hc.1 hc.2 s hk t
    have h2 := ih (c.exec s t).2 (c.exec s t).1 t (exec_keyed c s t hk)
    exact ⟨h2.1, h1.trans h2.2⟩

/-! ## the use cases -/

theorem reported_keeps (info : Fields) (t : Int) : ResKeeps fun ex => some (reported info t ex) := by
  intro s r h; cases h; exact ⟨rfl, rfl⟩

theorem maybeDiscoverPort_stable (maxRetries : Int) (svr : Server) : ProgStable (maybeDiscoverPort maxRetries svr) := by
  unfold maybeDiscoverPort
  split
  · exact AllCalls.pure _
  · refine AllCalls.call _ _ ⟨trivial, trivial⟩ fun b => ?_
    cases b with
    | error e => exact AllCalls.pure _
    | ok u =>
      refine AllCalls.call _ _ ⟨?_, trivial⟩ fun _ => AllCalls.pure _
      intro s r h
      dsimp only at h
      split at h
      · cases h
      · cases h; exact ⟨rfl, rfl⟩

theorem report_stable (zeroInfo : Fields) (maxRetries : Int) (req : ReportReq) : ProgStable (UC.report zeroInfo maxRetries req) := by
  have cont : ∀ svr : Server,
      ProgStable (match req.info with
        | none => (pure (.error .invalidPayload) : Prog (Except UErr Unit))
        | some info =>
          .call .now fun now' =>
          .call (.addServer (reported info now' svr) fun ex => some (reported info now' ex)) fun r =>
          match r with
          | .error e => pure (.error (.repo e))
          | .ok svr =>
            .call (.insAdd ⟨req.instanceId, req.addr⟩) fun r =>
            match r with
            | .error e => pure (.error (.repo e))
            | .ok _ => (maybeDiscoverPort maxRetries svr).bind fun _ => pure (.ok ())) := by
    intro svr
    cases req.info with
    | none => exact AllCalls.pure _
    | some info =>
      refine AllCalls.call _ _ ⟨trivial, trivial⟩ fun t => ?_
      refine AllCalls.call _ _ ⟨reported_keeps info t, trivial⟩ fun b => ?_
      cases b with
      | error e => exact AllCalls.pure _
      | ok sv =>
        refine AllCalls.call _ _ ⟨trivial, trivial⟩ fun b => ?_
        cases b with
        | error e => exact AllCalls.pure _
        | ok u => exact AllCalls.bind (maybeDiscoverPort_stable maxRetries sv) fun _ => AllCalls.pure _
  unfold UC.report
  refine AllCalls.call _ _ ⟨trivial, trivial⟩ fun b => ?_
  cases b with
  | ok svr => exact cont svr
  | error e =>
    cases e with
    | serverNotFound =>
      simp only
      cases newServer zeroInfo req.addr req.queryPort with
      | none => exact AllCalls.pure _
      | some svr => exact cont svr
    | serverExists => exact AllCalls.pure _
    | instanceNotFound => exact AllCalls.pure _
    | queueEmpty => exact AllCalls.pure _
    | storage => exact AllCalls.pure _

theorem renew_stable (instanceId srcIp : Nat) : ProgStable (UC.renew instanceId srcIp) := by
  unfold UC.renew
  refine AllCalls.call _ _ ⟨trivial, trivial⟩ fun b => ?_
  cases b with
  | error e => exact AllCalls.pure _
  | ok inst =>
    simp only
    split
    · exact AllCalls.pure _
    · refine AllCalls.call _ _ ⟨trivial, trivial⟩ fun b => ?_
      cases b with
      | error e => exact AllCalls.pure _
      | ok svr =>
        refine AllCalls.call _ _ ⟨trivial, trivial⟩ fun t => ?_
        refine AllCalls.call _ _ ⟨?_, trivial⟩ fun b => ?_
        · intro s r h; cases h; exact ⟨rfl, rfl⟩
        · cases b <;> exact AllCalls.pure _

theorem handleSuccess_keeps' (g : Goal) (res : ProbeResult) (t : Int) : ResKeeps fun s => some (handleSuccess g res t s) := by
  intro s r h; cases h; cases g <;> exact ⟨rfl, rfl⟩

theorem probeFail_stable (g : Goal) (svr : Server) : ProgStable (probeFail g svr) := by
  unfold probeFail
  refine AllCalls.call _ _ ⟨?_, trivial⟩ fun b => ?_
  · intro s r h; cases h; exact ⟨rfl, rfl⟩
  · cases b <;> exact AllCalls.pure _

theorem probeRetry_stable (prb : Probe) (svr : Server) : ProgStable (probeRetry prb svr) := by
  unfold probeRetry
  simp only
  split
  · exact probeFail_stable _ svr
  · refine AllCalls.call _ _ ⟨trivial, trivial⟩ fun t => ?_
    refine AllCalls.call _ _ ⟨trivial, trivial⟩ fun b => ?_
    cases b with
    | error e => exact AllCalls.pure _
    | ok u =>
      refine AllCalls.call _ _ ⟨?_, trivial⟩ fun b => ?_
      · intro s r h; cases h; exact ⟨rfl, rfl⟩
      · cases b <;> exact AllCalls.pure _

theorem probe_stable (prb : Probe) (outcome : Option ProbeResult) : ProgStable (UC.probe prb outcome) := by
  unfold UC.probe
  refine AllCalls.call _ _ ⟨trivial, trivial⟩ fun b => ?_
  cases b with
  | error e => exact AllCalls.pure _
  | ok svr =>
    cases outcome with
    | none => exact probeRetry_stable prb svr
    | some res =>
      refine AllCalls.call _ _ ⟨trivial, trivial⟩ fun t => ?_
      refine AllCalls.call _ _ ⟨fun t' => handleSuccess_keeps' prb.goal res t', trivial⟩ fun b => ?_
      cases b <;> exact AllCalls.pure _

theorem enqueueAll_stable (mk : Server → Probe × GoTime × GoTime) : ∀ (l : List Server) (n : Nat),
    ProgStable (enqueueAll mk l n) := by
  intro l
  induction l with
  | nil => intro n; exact AllCalls.pure _
  | cons sv rest ih =>
    intro n
    unfold enqueueAll
    refine AllCalls.call _ _ ⟨trivial, trivial⟩ fun b => ?_
    cases b with
    | error e => exact ih n
    | ok u => exact ih (n + 1)

theorem refresh_stable (maxRetries deadline : Int) : ProgStable (UC.refresh maxRetries deadline) := by
  unfold UC.refresh
  refine AllCalls.call _ _ ⟨trivial, trivial⟩ fun b => ?_
  cases b with
  | error e => exact AllCalls.pure _
  | ok l => exact AllCalls.bind (enqueueAll_stable _ l 0) fun _ => AllCalls.pure _

theorem revive_stable (maxRetries minScope maxScope minCountdown maxCountdown deadline : Int) (draws : Nat → Int) :
    ProgStable (UC.revive maxRetries minScope maxScope minCountdown maxCountdown deadline draws) := by
  unfold UC.revive
  refine AllCalls.call _ _ ⟨trivial, trivial⟩ fun b => ?_
  cases b with
  | error e => exact AllCalls.pure _
  | ok l => exact AllCalls.bind (enqueueAll_stable _ l 0) fun _ => AllCalls.pure _

theorem discoverServer_stable (maxRetries : Int) (svr : Server) : ProgStable (discoverServer maxRetries svr) := by
  unfold discoverServer
  refine AllCalls.call _ _ ⟨trivial, trivial⟩ fun b => ?_
  cases b with
  | error e => exact AllCalls.pure _
  | ok u =>
    refine AllCalls.call _ _ ⟨?_, trivial⟩ fun b => ?_
    · intro s r h
      dsimp only at h
      split at h
      · cases h
      · cases h; exact ⟨rfl, rfl⟩
    · cases b <;> exact AllCalls.pure _

theorem maybeDiscoverServer_stable (maxRetries : Int) (svr : Server) : ProgStable (maybeDiscoverServer maxRetries svr) := by
  unfold maybeDiscoverServer
  split
  · exact AllCalls.pure _
  · split
    · exact AllCalls.pure _
    · split
      · exact AllCalls.pure _
      · exact AllCalls.bind (discoverServer_stable maxRetries svr) fun _ => AllCalls.pure _

theorem addServer_stable (zeroInfo : Fields) (maxRetries : Int) (a : Addr) : ProgStable (UC.addServer zeroInfo maxRetries a) := by
  rw [addServer_eq]
  refine AllCalls.call _ _ ⟨trivial, trivial⟩ fun b => ?_
  cases b with
  | ok svr => exact maybeDiscoverServer_stable maxRetries svr
  | error e =>
    cases e with
    | serverNotFound =>
      show ProgStable (addServerNew zeroInfo maxRetries a)
      unfold addServerNew
      cases newServer zeroInfo a (min (a.port + 1) 65535) with
      | none => exact AllCalls.pure _
      | some svr =>
        refine AllCalls.call _ _ ⟨fun s r h => (by cases h), trivial⟩ fun b => ?_
        cases b with
        | error e => exact AllCalls.pure _
        | ok sv => exact maybeDiscoverServer_stable maxRetries sv
    | serverExists => exact AllCalls.pure _
    | instanceNotFound => exact AllCalls.pure _
    | queueEmpty => exact AllCalls.pure _
    | storage => exact AllCalls.pure _

theorem cleanInstances_stable (retention : Int) : ProgStable (cleanInstances retention) := by
  unfold cleanInstances
  refine AllCalls.call _ _ ⟨trivial, trivial⟩ fun t => ?_
  refine AllCalls.call _ _ ⟨trivial, trivial⟩ fun b => ?_
  cases b <;> exact AllCalls.pure _

theorem listServers_stable (liveness : Int) (status : Status) : ProgStable (listServers liveness status) := by
  unfold listServers
  refine AllCalls.call _ _ ⟨trivial, trivial⟩ fun t => ?_
  refine AllCalls.call _ _ ⟨trivial, trivial⟩ fun b => ?_
  cases b <;> exact AllCalls.pure _

/-- the removing use cases: their callbacks are stable too (but they are not `ProgStable`: they do remove) -/
theorem remove_resStable (instanceId : Nat) (a : Addr) : ResStableProg (UC.remove instanceId a) := by
  unfold UC.remove
  refine AllCalls.call _ _ trivial fun b => ?_
  cases b with
  | error e => cases e <;> exact AllCalls.pure _
  | ok svr =>
    refine AllCalls.call _ _ trivial fun b => ?_
    cases b with
    | error e => cases e <;> exact AllCalls.pure _
    | ok inst =>
      simp only
      split
      · exact AllCalls.pure _
      · refine AllCalls.call _ _ trivial fun b => ?_
        cases b with
        | error e => exact AllCalls.pure _
        | ok u =>
          refine AllCalls.call _ _ trivial fun b => ?_
          cases b <;> exact AllCalls.pure _

theorem removeAll_resStable (cutoff : Int) : ∀ (l : List Server) (removed errors : Nat),
    ResStableProg (removeAll cutoff l removed errors) := by
  intro l
  induction l with
  | nil => intro _ _; exact AllCalls.pure _
  | cons sv rest ih =>
    intro removed errors
    unfold removeAll
    refine AllCalls.call _ _ trivial fun b => ?_
    cases b with
    | error e => exact ih _ _
    | ok u => exact ih _ _

theorem cleanServers_resStable (retention : Int) : ResStableProg (cleanServers retention) := by
  unfold cleanServers
  refine AllCalls.call _ _ trivial fun t => ?_
  refine AllCalls.call _ _ trivial fun b => ?_
  cases b with
  | error e => exact AllCalls.pure _
  | ok l => exact removeAll_resStable _ l 0 0

theorem cleanServers2_resStable (retention : Int) : ResStableProg (cleanServers2 retention) := by
  unfold cleanServers2
  refine AllCalls.call _ _ trivial fun t => ?_
  refine AllCalls.call _ _ trivial fun b => ?_
  cases b with
  | error e => exact AllCalls.pure _
  | ok l =>
    simp only
    split
    · exact AllCalls.pure _
    · refine AllCalls.call _ _ trivial fun b => ?_
      cases b with
      | error e => exact AllCalls.pure _
      | ok l' => exact removeAll_resStable _ _ 0 0

/-! ## `USys` runs of clients without `Remove` -/

/-- the per-call rules of `USysInd` for "rows under their keys, and `Mono` from a fixed start state `s0`" -/
theorem rules (s0 : AbsState) :
    USysInd.Rules (fun s _ => Keyed s ∧ Mono s0 s) (fun _ p => ProgStable p) where
  exec := by
    intro β c k s t tc hp hinv _
    cases hp with
    | call _ _ hc hk =>
      exact ⟨⟨exec_keyed c s tc hinv.1, hinv.2.trans (exec_mono c hc.1 hc.2 s hinv.1 tc)⟩, hk _⟩
  fault := by
    intro β c k t e _ hp
    cases hp with
    | call _ _ _ hk => exact hk e
  tickInv := fun _ _ _ _ h => h
  tickP := fun _ _ _ _ h => h

/-- **a `USys` run in which only clients without `Remove` and with stable callbacks are scheduled** (set `A`; any
interleaving of their calls, crashes, faults, and clock ticks) keeps every row, unchanged or with a larger version; the
other clients are not touched. -/
theorem usys_run_mono (A : Nat → Prop) (u : USys) (es : List UEv) (hes : ∀ e ∈ es, USysInd.EvOK A e)
    (hk : Keyed u.abs) (hcl : ∀ (j : Nat) (c : UClient), A j → u.clients[j]? = some c → ProgStable c.prog) :
    Keyed (u.run es).abs ∧ Mono u.abs (u.run es).abs ∧
      (∀ (j : Nat) (c : UClient), A j → (u.run es).clients[j]? = some c → ProgStable c.prog) ∧
      (∀ j, ¬ A j → (u.run es).clients[j]? = u.clients[j]?) := by
  have := USysInd.run_sysInv (rules u.abs) es u hes ⟨⟨hk, Mono.refl _⟩, hcl⟩
  exact ⟨this.inv.1, this.inv.2, this.clients, USysInd.run_frozen es u hes⟩

end Swat4.VerMono
