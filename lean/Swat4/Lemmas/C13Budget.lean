import Swat4.Lemmas.VerMono
import Swat4.Lemmas.BackedSys
/-!
# Every queued probe is within its retry budget (C13, reviewer: "every queued probe has `retries ≤ maxRetries`")

`QueueOK s`: every queued probe has `0 ≤ retries ≤ maxRetries`.  Every `AddBetween` the use cases issue enqueues such a
probe (`usecases_enqueue_within_budget`: a walk over the program trees; the configured retry maxima must be `≥ 0`, a probe
handed to `probeserver.Execute` must itself have `0 ≤ retries`), every repository call keeps `QueueOK` (`PopMany` only
removes, and what it returns was queued), hence every run and every `USys` interleaving does.
-/
namespace Swat4.C13Budget
open Swat4 Swat4.UC Std Swat4.VerMono

def ProbeOK (p : Probe) : Prop := 0 ≤ p.retries ∧ p.retries ≤ p.maxRetries

/-- every queued probe is within its budget -/
def QueueOK (s : AbsState) : Prop := ∀ q ∈ s.queue, ProbeOK q.probe

/-- an `AddBetween` enqueues a probe within its budget -/
def EnqOK : {β : Type} → Call β → Prop
  | _, .enqueue p _ _ => ProbeOK p
  | _, _ => True

theorem enqueue_queueOK (s : AbsState) (t : Int) (p : Probe) (a b : GoTime) (hp : ProbeOK p) (h : QueueOK s) :
    QueueOK (s.enqueue t p a b) := by
  have key : (s.enqueue t p a b).queue = s.queue ∨ ∃ r, (s.enqueue t p a b).queue = s.queue ++ [⟨s.nextId, p, r, b⟩] := by
    cases a <;> cases b <;> simp only [AbsState.enqueue] <;> first | exact Or.inr ⟨_, rfl⟩ | (split <;> first | exact Or.inl rfl | exact Or.inr ⟨_, rfl⟩)
  intro q hq
  rcases key with hk | ⟨r, hk⟩
  · rw [hk] at hq; exact h q hq
  · rw [hk] at hq
    simp only [List.mem_append, List.mem_singleton] at hq
    rcases hq with hq | rfl
    · exact h q hq
    · exact hp

theorem span_loop_append {α : Type} (p : α → Bool) : ∀ (l acc : List α),
    (List.span.loop p l acc).1 ++ (List.span.loop p l acc).2 = acc.reverse ++ l := by
  intro l
  induction l with
  | nil => intro acc; simp [List.span.loop]
  | cons a l ih =>
    intro acc
    simp only [List.span.loop]
    split
    · rw [ih]; simp
    · rfl

theorem mem_of_mem_span {α : Type} (p : α → Bool) (l : List α) (x : α) (h : x ∈ (l.span p).1 ∨ x ∈ (l.span p).2) : x ∈ l := by
  have := span_loop_append p l []
  simp only [List.reverse_nil, List.nil_append] at this
  rw [← this]
  exact List.mem_append.2 h

theorem popManyLoop_sub (now : Int) (n : Nat) : ∀ (fuel : Nat) (q : List QItem) (got : List Probe) (exp : Nat),
    (∀ x ∈ (AbsState.popManyLoop now n fuel q got exp).1, x ∈ q) ∧
    (∀ p ∈ (AbsState.popManyLoop now n fuel q got exp).2.1, p ∈ got ∨ ∃ x ∈ q, x.probe = p) := by
  intro fuel
  induction fuel with
  | zero => intro q got exp; exact ⟨fun x hx => hx, fun p hp => Or.inl hp⟩
  | succ fuel ih =>
    intro q got exp
    unfold AbsState.popManyLoop
    split
    · exact ⟨fun x hx => hx, fun p hp => Or.inl hp⟩
    · simp only
      split
      · exact ⟨fun x hx => hx, fun p hp => Or.inl hp⟩
      · have hr := ih (q.filter fun x => !((AbsState.readySorted q now).take (n - got.length)).any fun b => b.id == x.id)
          (got ++ (((AbsState.readySorted q now).take (n - got.length)).filter fun x => !x.expired now).map (·.probe))
          (exp + (((AbsState.readySorted q now).take (n - got.length)).length -
            (((AbsState.readySorted q now).take (n - got.length)).filter fun x => !x.expired now).length))
        refine ⟨fun x hx => (List.mem_filter.1 (hr.1 x hx)).1, fun p hp => ?_⟩
        rcases hr.2 p hp with h | ⟨x, hx, rfl⟩
        · simp only [List.mem_append, List.mem_map, List.mem_filter] at h
          rcases h with h | ⟨x, ⟨hx, _⟩, rfl⟩
          · exact Or.inl h
          · refine Or.inr ⟨x, ?_, rfl⟩
            have h1 : x ∈ AbsState.readySorted q now := List.mem_of_mem_take hx
            exact readySorted_sub q now x h1
        · exact Or.inr ⟨x, (List.mem_filter.1 hx).1, rfl⟩
where
  readySorted_sub (q : List QItem) (now : Int) (x : QItem) (h : x ∈ AbsState.readySorted q now) : x ∈ q := by
    unfold AbsState.readySorted at h
    have key : ∀ (l : List QItem), x ∈ l.foldr (fun x acc =>
        let (lo, rest) := acc.span fun y => y.ready < x.ready ∨ (y.ready = x.ready ∧ y.id < x.id)
        lo ++ x :: rest) [] → x ∈ l := by
      intro l
      induction l with
      | nil => intro h; simp at h
      | cons y l ih =>
        intro h
        simp only [List.foldr_cons, List.mem_append, List.mem_cons] at h
        rcases h with h | rfl | h
        · exact List.mem_cons_of_mem _ (ih (mem_of_mem_span _ _ _ (Or.inl h)))
        · exact List.mem_cons_self ..
        · exact List.mem_cons_of_mem _ (ih (mem_of_mem_span _ _ _ (Or.inr h)))
    exact (List.mem_filter.1 (key _ h)).1

theorem popMany_queueOK (s : AbsState) (t : Int) (n : Int) (h : QueueOK s) :
    QueueOK (s.popMany t n).1 ∧ ∀ p ∈ (s.popMany t n).2.1, ProbeOK p := by
  unfold AbsState.popMany
  split
  · exact ⟨h, fun p hp => by simp at hp⟩
  · have := popManyLoop_sub t n.toNat (s.queue.length + 1) s.queue [] 0
    refine ⟨fun q hq => h q (this.1 q hq), fun p hp => ?_⟩
    rcases this.2 p hp with h' | ⟨x, hx, rfl⟩
    · simp at h'
    · exact h x hx

/-- **every repository call keeps `QueueOK`** (an `AddBetween` must enqueue a probe within its budget); the probes a
`PopMany` hands out are within their budgets -/
theorem exec_queueOK {β : Type} (c : Call β) (hc : EnqOK c) (s : AbsState) (t : Int) (h : QueueOK s) :
    QueueOK (c.exec s t).1 := by
  cases c with
  | enqueue p a b => exact enqueue_queueOK s t p a b hc h
  | popMany n => exact (popMany_queueOK s t n h).1
  | addServer svr res => intro q hq; simp only [Call.exec, C16.add_queue] at hq; exact h q hq
  | updateServer svr res => intro q hq; simp only [Call.exec, C16.update_queue] at hq; exact h q hq
  | updateServerT svr res => intro q hq; simp only [Call.exec, C16.update_queue] at hq; exact h q hq
  | removeServer svr res => intro q hq; simp only [Call.exec, C16.remove_queue] at hq; exact h q hq
  | _ => exact h

theorem run_queueOK {α : Type} {p : Prog α} (hp : AllCalls (fun c => EnqOK c) p) : ∀ (s : AbsState) (t : Int),
    QueueOK s → QueueOK (p.run s t).1 := by
  induction hp with
  | ret a => intro s t h; exact h
  | call c k hc _ ih => intro s t h; rw [Prog.run_call]; exact ih _ _ t (exec_queueOK c hc s t h)

/-! ## the use cases -/

theorem maybeDiscoverPort_enq (m : Int) (hm : 0 ≤ m) (svr : Server) : AllCalls (fun c => EnqOK c) (maybeDiscoverPort m svr) := by
  unfold maybeDiscoverPort
  split
  · exact AllCalls.pure _
  · refine AllCalls.call _ _ ⟨Int.le_refl _, hm⟩ fun b => ?_
    cases b with
    | error e => exact AllCalls.pure _
    | ok u => exact AllCalls.call _ _ trivial fun _ => AllCalls.pure _

theorem report_enq (z : Fields) (m : Int) (hm : 0 ≤ m) (req : ReportReq) : AllCalls (fun c => EnqOK c) (UC.report z m req) := by
  have cont : ∀ svr : Server,
      AllCalls (fun c => EnqOK c) (match req.info with
        | none => (pure (.error .invalidPayload) : Prog (Except UErr Unit))
        | some info =>
          .call .now fun now' =>
          .call (.addServer (reported info now' svr) fun ex => some (reported info now' ex)) fun r =>
          match r with
          | .error e => pure (.error (.repo e))
          | .ok svr =>
            .call (.insAdd ⟨req.instanceId, req.addr⟩) fun r =>
            match r with
            | .error e => pure (.error (.repo e))
            | .ok _ => (maybeDiscoverPort m svr).bind fun _ => pure (.ok ())) := by
    intro svr
    cases req.info with
    | none => exact AllCalls.pure _
    | some info =>
      refine AllCalls.call _ _ trivial fun t => ?_
      refine AllCalls.call _ _ trivial fun b => ?_
      cases b with
      | error e => exact AllCalls.pure _
      | ok sv =>
        refine AllCalls.call _ _ trivial fun b => ?_
        cases b with
        | error e => exact AllCalls.pure _
        | ok u => exact AllCalls.bind (maybeDiscoverPort_enq m hm sv) fun _ => AllCalls.pure _
  unfold UC.report
  refine AllCalls.call _ _ trivial fun b => ?_
  cases b with
  | ok svr => exact cont svr
  | error e =>
    cases e with
    | serverNotFound =>
      simp only
      cases newServer z req.addr req.queryPort with
      | none => exact AllCalls.pure _
      | some svr => exact cont svr
    | serverExists => exact AllCalls.pure _
    | instanceNotFound => exact AllCalls.pure _
    | queueEmpty => exact AllCalls.pure _
    | storage => exact AllCalls.pure _

theorem probeFail_enq (g : Goal) (svr : Server) : AllCalls (fun c => EnqOK c) (probeFail g svr) := by
  unfold probeFail
  refine AllCalls.call _ _ trivial fun b => ?_
  cases b <;> exact AllCalls.pure _

/-- **the re-queued probe is within the budget**: `IncRetries` refuses at `retries ≥ max`, so what `retry` enqueues has
`retries + 1 ≤ max` -/
theorem probeRetry_enq (prb : Probe) (h0 : 0 ≤ prb.retries) (svr : Server) : AllCalls (fun c => EnqOK c) (probeRetry prb svr) := by
  unfold probeRetry Probe.incRetries
  by_cases h : prb.retries ≥ prb.maxRetries
  · simp only [h, if_true, Bool.not_false]
    exact probeFail_enq _ svr
  · simp only [h, if_false, Bool.not_true, Bool.false_eq_true]
    refine AllCalls.call _ _ trivial fun t => ?_
    refine AllCalls.call _ _ ⟨by show 0 ≤ prb.retries + 1; omega, by show prb.retries + 1 ≤ prb.maxRetries; omega⟩ fun b => ?_
    cases b with
    | error e => exact AllCalls.pure _
    | ok u =>
      refine AllCalls.call _ _ trivial fun b => ?_
      cases b <;> exact AllCalls.pure _

theorem probe_enq (prb : Probe) (h0 : 0 ≤ prb.retries) (outcome : Option ProbeResult) :
    AllCalls (fun c => EnqOK c) (UC.probe prb outcome) := by
  unfold UC.probe
  refine AllCalls.call _ _ trivial fun b => ?_
  cases b with
  | error e => exact AllCalls.pure _
  | ok svr =>
    cases outcome with
    | none => exact probeRetry_enq prb h0 svr
    | some res =>
      refine AllCalls.call _ _ trivial fun t => ?_
      refine AllCalls.call _ _ trivial fun b => ?_
      cases b <;> exact AllCalls.pure _

theorem enqueueAll_enq (mk : Server → Probe × GoTime × GoTime) (hmk : ∀ s, ProbeOK (mk s).1) : ∀ (l : List Server) (n : Nat),
    AllCalls (fun c => EnqOK c) (enqueueAll mk l n) := by
  intro l
  induction l with
  | nil => intro n; exact AllCalls.pure _
  | cons sv rest ih =>
    intro n
    unfold enqueueAll
    refine AllCalls.call _ _ (hmk sv) fun b => ?_
    cases b with
    | error e => exact ih n
    | ok u => exact ih (n + 1)

theorem refresh_enq (m : Int) (hm : 0 ≤ m) (d : Int) : AllCalls (fun c => EnqOK c) (UC.refresh m d) := by
  unfold UC.refresh
  refine AllCalls.call _ _ trivial fun b => ?_
  cases b with
  | error e => exact AllCalls.pure _
  | ok l => exact AllCalls.bind (enqueueAll_enq _ (fun _ => ⟨Int.le_refl _, hm⟩) l 0) fun _ => AllCalls.pure _

theorem revive_enq (m : Int) (hm : 0 ≤ m) (a b c d e : Int) (f : Nat → Int) : AllCalls (fun c => EnqOK c) (UC.revive m a b c d e f) := by
  unfold UC.revive
  refine AllCalls.call _ _ trivial fun b => ?_
  cases b with
  | error e => exact AllCalls.pure _
  | ok l => exact AllCalls.bind (enqueueAll_enq _ (fun _ => ⟨Int.le_refl _, hm⟩) l 0) fun _ => AllCalls.pure _

theorem maybeDiscoverServer_enq (m : Int) (hm : 0 ≤ m) (svr : Server) : AllCalls (fun c => EnqOK c) (maybeDiscoverServer m svr) := by
  unfold maybeDiscoverServer
  split
  · exact AllCalls.pure _
  · split
    · exact AllCalls.pure _
    · split
      · exact AllCalls.pure _
      · refine AllCalls.bind ?_ fun _ => AllCalls.pure _
        unfold discoverServer
        refine AllCalls.call _ _ ⟨Int.le_refl _, hm⟩ fun b => ?_
        cases b with
        | error e => exact AllCalls.pure _
        | ok u =>
          refine AllCalls.call _ _ trivial fun b => ?_
          cases b <;> exact AllCalls.pure _

theorem addServer_enq (z : Fields) (m : Int) (hm : 0 ≤ m) (a : Addr) : AllCalls (fun c => EnqOK c) (UC.addServer z m a) := by
  rw [RowInv.addServer_eq]
  refine AllCalls.call _ _ trivial fun b => ?_
  cases b with
  | ok svr => exact maybeDiscoverServer_enq m hm svr
  | error e =>
    cases e with
    | serverNotFound =>
      show AllCalls _ (RowInv.addServerNew z m a)
      unfold RowInv.addServerNew
      cases newServer z a (min (a.port + 1) 65535) with
      | none => exact AllCalls.pure _
      | some svr =>
        refine AllCalls.call _ _ trivial fun b => ?_
        cases b with
        | error e => exact AllCalls.pure _
        | ok sv => exact maybeDiscoverServer_enq m hm sv
    | serverExists => exact AllCalls.pure _
    | instanceNotFound => exact AllCalls.pure _
    | queueEmpty => exact AllCalls.pure _
    | storage => exact AllCalls.pure _

/-- programs that never enqueue -/
theorem noEnq_of_resStable {α : Type} {p : Prog α} (hp : AllCalls (fun {β} (c : Call β) => match c with | .enqueue _ _ _ => False | _ => True) p) :
    AllCalls (fun c => EnqOK c) p :=
  hp.imp fun c hc => by cases c <;> first | exact trivial | exact hc.elim

/-! ## `USys` -/

theorem rules : USysInd.Rules (fun s _ => QueueOK s) (fun _ p => AllCalls (fun c => EnqOK c) p) where
  exec := by
    intro β c k s t tc hp hinv _
    cases hp with
    | call _ _ hc hk => exact ⟨exec_queueOK c hc s tc hinv, hk _⟩
  fault := by
    intro β c k t e _ hp
    cases hp with
    | call _ _ _ hk => exact hk e
  tickInv := fun _ _ _ _ h => h
  tickP := fun _ _ _ _ h => h

/-- **`QueueOK` is an invariant of the system model**: any interleaving (calls, crashes, faults, ticks) of clients whose
every `AddBetween` enqueues a probe within its budget keeps every queued probe within its budget -/
theorem usys_queueOK (u : USys) (es : List UEv) (hes : ∀ e ∈ es, USysInd.EvOK (fun _ => True) e) (h : QueueOK u.abs)
    (hcl : ∀ c ∈ u.clients, AllCalls (fun c => EnqOK c) c.prog) : QueueOK (u.run es).abs :=
  (USysInd.run_sysInv rules es u hes ⟨h, fun j c _ hc => hcl c (List.mem_of_getElem? hc)⟩).inv

end Swat4.C13Budget
