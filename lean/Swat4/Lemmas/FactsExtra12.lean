import Swat4.Gen.Facts
/-!
# C12 — finer regenerated facts about the probe queue's item ids
-/
namespace Swat4.C12
open Swat4

/-- **The id that is generated is the id that is stored.**  Supports `conservation`, `at_most_once`, `ids_fresh` (QueueSys: every enqueued item has its own key).
`facts_item_id` pins the expression assigned to `itemID`; this pins how `itemID` is USED by `enqueue`: it is the hash
field of `HSet(dataKey, itemID, item)` and the `Member` of the `ZAdd(queueKey, …)` entry — the same, whole identifier in
both — and the keys / other arguments of the two commands.
*Edit detected:* `pipe.HSet(ctx, dataKey, itemID[:8], item)` (payloads collide after ~2^16 probes while the queue
entries stay distinct: one probe's payload is silently replaced by another's), or a different member in the `ZAdd`. -/
theorem facts_item_id_uses :
    Facts.probeItemIDUses =
      [("enqueue", "HSet", "itemID"),
       ("enqueue", "ZAdd", "Member: itemID")] ∧
    (Facts.storeCmdKeys.filter fun x => x.1 == "probes" && x.2.1 == "enqueue") =
      [("probes", "enqueue", "HSet", "dataKey", "itemID, item"),
       ("probes", "enqueue", "ZAdd", "queueKey", "redis.Z{ Score: float64(itemReadyAt.UnixNano()), Member: itemID, }")] := by
  decide

/-- **`pop` reads and deletes in one transaction.**  Supports `QueueMachine`'s `popBatch` step (ZREM, HMGET, HDEL as ONE
atomic step — the premise of `at_most_once`): all three are called on the `pipe` of `r.client.TxPipelined`; the only
command of `pop` outside it is the `ZRANGEBYSCORE` that picks the candidates.
*Edit detected:* `pipe.HMGet` replaced by `r.client.HMGet` outside the `TxPipelined` closure. -/
theorem facts_pop_atomic :
    (Facts.storeCmdSites.filter fun x => x.1 == "probes") =
      [("probes", "enqueue", "pipe redis.Pipeliner", "HSet", "write", "TxPipelined on r.client"),
       ("probes", "enqueue", "pipe redis.Pipeliner", "ZAdd", "write", "TxPipelined on r.client"),
       ("probes", "Peek", "r.client", "ZRange", "read", "bare"),
       ("probes", "Peek", "r.client", "HGet", "read", "bare"),
       ("probes", "pop", "r.client", "ZRangeArgsWithScores", "read", "bare"),
       ("probes", "pop", "pipe redis.Pipeliner", "ZRem", "write", "TxPipelined on r.client"),
       ("probes", "pop", "pipe redis.Pipeliner", "HMGet", "read", "TxPipelined on r.client"),
       ("probes", "pop", "pipe redis.Pipeliner", "HDel", "write", "TxPipelined on r.client"),
       ("probes", "Count", "r.client", "ZCard", "read", "bare")] := by
  decide

end Swat4.C12
