import Swat4.Model.GS1
/-!
The key-sorted association list (`insertKV`/`lookupKV`: the model's Go map) over any strictly and
totally ordered key type: insertion keeps the keys strictly ascending, a lookup sees the last
insertion, and two such lists with the same lookups are equal (extensionality).  Instantiated for
`Int` (player indexes) and `Bytes` (map keys).
-/
namespace Swat4.GS1
open Swat4

/-- `<` on `κ` is a strict total order -/
structure StrictTotal (κ : Type) [LT κ] : Prop where
  irrefl : ∀ a : κ, ¬ a < a
  trans : ∀ a b c : κ, a < b → b < c → a < c
  tri : ∀ a b : κ, a < b ∨ a = b ∨ b < a

theorem strictTotal_int : StrictTotal Int :=
  ⟨fun a => by omega, fun a b c => by omega, fun a b => by omega⟩

theorem strictTotal_nat : StrictTotal Nat :=
  ⟨fun a => by omega, fun a b c => by omega, fun a b => by omega⟩

theorem strictTotal_bytes : StrictTotal Bytes := by
  refine ⟨fun a => List.lt_irrefl a, fun a b c h1 h2 => List.lt_trans h1 h2, fun a b => ?_⟩
  by_cases h1 : a < b
  · exact .inl h1
  · by_cases h2 : b < a
    · exact .inr (.inr h2)
    · exact .inr (.inl (List.le_antisymm (List.not_lt.mp h2) (List.not_lt.mp h1)))

section generic
set_option linter.unusedSectionVars false
variable {κ α : Type} [LT κ] [DecidableLT κ] [DecidableEq κ]

/-- the keys of an association list -/
def keysG (m : List (κ × α)) : List κ := m.map (·.1)

theorem lookupKV_insertKV_g (k k' : κ) (v : α) (m : List (κ × α)) :
    lookupKV k (insertKV k' v m) = if k = k' then some v else lookupKV k m := by
  induction m with
  | nil => simp [insertKV, lookupKV]
  | cons hd t ih =>
    obtain ⟨k2, v2⟩ := hd
    simp only [insertKV]
    split
    · simp only [lookupKV]
    · split
      · rename_i h; subst h
        simp only [lookupKV]
        by_cases hk : k = k' <;> simp [hk]
      · rename_i h1 h2
        simp only [lookupKV, ih]
        by_cases hk : k = k'
        · subst hk; simp [h2]
        · simp [hk]

theorem insertKV_keys_mem_g (k : κ) (v : α) (m : List (κ × α)) (x : κ) :
    x ∈ keysG (insertKV k v m) ↔ x = k ∨ x ∈ keysG m := by
  induction m with
  | nil => simp [insertKV, keysG]
  | cons hd t ih =>
    obtain ⟨k', v'⟩ := hd
    simp only [insertKV]
    split
    · simp [keysG]
    · split
      · rename_i h; subst h; simp [keysG]
      · simp only [keysG, List.map_cons, List.mem_cons] at ih ⊢
        rw [ih]
        constructor
        · rintro (h | h | h) <;> simp [h]
        · rintro (h | h | h) <;> simp [h]

theorem insertKV_sorted_g (O : StrictTotal κ) (k : κ) (v : α) (m : List (κ × α))
    (h : (keysG m).Pairwise (· < ·)) : (keysG (insertKV k v m)).Pairwise (· < ·) := by
  induction m with
  | nil => simp [insertKV, keysG]
  | cons hd t ih =>
    obtain ⟨k', v'⟩ := hd
    simp only [keysG, List.map_cons, List.pairwise_cons] at h
    simp only [insertKV]
    split
    · rename_i hlt
      simp only [keysG, List.map_cons, List.pairwise_cons]
      refine ⟨?_, h⟩
      intro x hx
      rcases List.mem_cons.mp hx with rfl | hx
      · exact hlt
      · exact O.trans _ _ _ hlt (h.1 x hx)
    · split
      · rename_i h2; subst h2
        simp only [keysG, List.map_cons, List.pairwise_cons]; exact h
      · rename_i h1 h2
        have hs := ih h.2
        simp only [keysG, List.map_cons, List.pairwise_cons]
        refine ⟨?_, hs⟩
        intro x hx
        have := (insertKV_keys_mem_g k v t x).mp hx
        rcases this with rfl | hx
        · rcases O.tri x k' with h | h | h
          · exact absurd h h1
          · exact absurd h h2
          · exact h
        · exact h.1 x hx

theorem lookupKV_none_of_not_mem (k : κ) (m : List (κ × α)) (h : k ∉ keysG m) : lookupKV k m = none := by
  induction m with
  | nil => rfl
  | cons hd t ih =>
    obtain ⟨k', v'⟩ := hd
    simp only [keysG, List.map_cons, List.mem_cons, not_or] at h
    simp only [lookupKV, if_neg h.1]
    exact ih h.2

theorem lookupKV_mem_keys {k : κ} {m : List (κ × α)} {v : α} (h : lookupKV k m = some v) : k ∈ keysG m := by
  induction m with
  | nil => cases h
  | cons hd t ih =>
    obtain ⟨k', v'⟩ := hd
    simp only [lookupKV] at h
    simp only [keysG, List.map_cons, List.mem_cons]
    split at h
    · rename_i hk; exact .inl hk
    · exact .inr (ih h)

/-- in a list with pairwise different keys, a member is what the lookup finds -/
theorem lookupKV_of_mem (O : StrictTotal κ) (k : κ) (v : α) (m : List (κ × α))
    (hs : (keysG m).Pairwise (· < ·)) (h : (k, v) ∈ m) : lookupKV k m = some v := by
  induction m with
  | nil => cases h
  | cons hd t ih =>
    obtain ⟨k', v'⟩ := hd
    simp only [keysG, List.map_cons, List.pairwise_cons] at hs
    rcases List.mem_cons.mp h with h | h
    · cases h; simp [lookupKV]
    · have hk : k' < k := hs.1 k (List.mem_map.mpr ⟨(k, v), h, rfl⟩)
      have : k ≠ k' := by rintro rfl; exact O.irrefl _ hk
      simp only [lookupKV, if_neg this]
      exact ih hs.2 h

/-- **extensionality**: key-sorted association lists with the same lookups are equal -/
theorem assoc_ext (O : StrictTotal κ) (P Q : List (κ × α)) (hP : (keysG P).Pairwise (· < ·))
    (hQ : (keysG Q).Pairwise (· < ·)) (h : ∀ k, lookupKV k P = lookupKV k Q) : P = Q := by
  induction P generalizing Q with
  | nil =>
    cases Q with
    | nil => rfl
    | cons q t =>
      obtain ⟨k, v⟩ := q
      have := h k
      simp [lookupKV] at this
  | cons p t ih =>
    obtain ⟨k, v⟩ := p
    cases Q with
    | nil =>
      have := h k
      simp [lookupKV] at this
    | cons q t' =>
      obtain ⟨k', v'⟩ := q
      simp only [keysG, List.map_cons, List.pairwise_cons] at hP hQ
      have hkt : k ∉ keysG t := fun hm => O.irrefl _ (hP.1 k hm)
      have hkt' : k' ∉ keysG t' := fun hm => O.irrefl _ (hQ.1 k' hm)
      have hkk : k = k' := by
        rcases O.tri k k' with hlt | heq | hgt
        · -- `k` is below every key of `Q`
          exfalso
          have h1 := h k
          have hne : k ≠ k' := by rintro rfl; exact O.irrefl _ hlt
          simp only [lookupKV, if_true, if_neg hne] at h1
          have := lookupKV_mem_keys h1.symm
          exact O.irrefl _ (O.trans _ _ _ hlt (hQ.1 k this))
        · exact heq
        · exfalso
          have h1 := h k'
          have hne : k' ≠ k := by rintro rfl; exact O.irrefl _ hgt
          simp only [lookupKV, if_true, if_neg hne] at h1
          have := lookupKV_mem_keys h1
          exact O.irrefl _ (O.trans _ _ _ hgt (hP.1 k' this))
      subst hkk
      have hv : v = v' := by
        have := h k
        simpa [lookupKV] using this
      subst hv
      congr 1
      apply ih t' hP.2 hQ.2
      intro x
      by_cases hx : x = k
      · subst hx
        rw [lookupKV_none_of_not_mem x t hkt, lookupKV_none_of_not_mem x t' hkt']
      · have := h x
        simpa only [lookupKV, if_neg hx] using this

end generic

end Swat4.GS1
