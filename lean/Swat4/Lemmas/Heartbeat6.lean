import Swat4.Model.Heartbeat6
import Swat4.Lemmas.ReporterUC
/-!
# `Heartbeat6.dispatch6` on an IPv4 / IPv4-mapped source is `Heartbeat.dispatch` (lemmas for `C05.dispatch6_mapped`)
-/
namespace Swat4.Heartbeat6
open Swat4 Swat4.Heartbeat

theorem to4_length {src v4 : Bytes} (h : to4 src = some v4) : v4.length = 4 ∧ src.length ≠ 0 := by
  unfold to4 at h
  split at h
  · cases h; constructor <;> omega
  · split at h
    · rename_i h16
      cases h
      simp only [List.length_drop]
      omega
    · cases h

theorem ipBytes_ipNat (v4 : Bytes) (h : v4.length = 4) : ipBytes (ipNat v4) = v4 := by
  match v4, h with
  | [a, b, c, d], _ =>
    have ha := UInt8.toNat_lt a
    have hb := UInt8.toNat_lt b
    have hc := UInt8.toNat_lt c
    have hd := UInt8.toNat_lt d
    simp only [ipNat, idNat, List.foldl, ipBytes]
    have e1 : ((((0 * 256 + a.toNat) * 256 + b.toNat) * 256 + c.toNat) * 256 + d.toNat) / 16777216 % 256 = a.toNat := by omega
    have e2 : ((((0 * 256 + a.toNat) * 256 + b.toNat) * 256 + c.toNat) * 256 + d.toNat) / 65536 % 256 = b.toNat := by omega
    have e3 : ((((0 * 256 + a.toNat) * 256 + b.toNat) * 256 + c.toNat) * 256 + d.toNat) / 256 % 256 = c.toNat := by omega
    have e4 : ((((0 * 256 + a.toNat) * 256 + b.toNat) * 256 + c.toNat) * 256 + d.toNat) % 256 = d.toNat := by omega
    rw [e1, e2, e3, e4]
    simp only [UInt8.ofNat_toNat]

theorem ipNat_ipBytes (n : Nat) (h : n < 4294967296) : ipNat (ipBytes n) = n := by
  simp only [ipNat, idNat, ipBytes, List.foldl, UInt8.toNat_ofNat']
  omega

/-- `inst.Addr.GetIP().Equal(v4)` for a four-byte `v4`: equality of the addresses -/
theorem ipEqual_v4 (n : Nat) (hn : n < 4294967296) (v4 : Bytes) (h : v4.length = 4) :
    ipEqual (ipBytes n) v4 = true ↔ n = ipNat v4 := by
  unfold ipEqual
  have hl : (ipBytes n).length = v4.length := by rw [h]; rfl
  rw [if_pos hl]
  constructor
  · intro e
    have e' : ipBytes n = v4 := by simpa using e
    rw [← e', ipNat_ipBytes n hn]
  · intro e
    rw [e, ipBytes_ipNat v4 h]
    simp

theorem addrNewIP_mapped {src v4 : Bytes} (h : to4 src = some v4) (port : Int) :
    addrNewIP src port = addrNew (ipNat v4) port := by
  unfold addrNewIP addrNew
  split
  · rfl
  · rw [if_neg (to4_length h).2, h]

theorem parseAddrIP_mapped {src v4 : Bytes} (h : to4 src = some v4) (m : FieldMap) :
    parseAddrIP src m = parseAddr (ipNat v4) m := by
  unfold parseAddrIP parseAddr
  cases parseNumericField m kHostport with
  | none => rfl
  | some gp =>
    cases parseNumericField m kLocalport with
    | none => rfl
    | some qp =>
      dsimp only
      rw [addrNewIP_mapped h]
      rfl

theorem heartbeatReplyIP_mapped {src v4 : Bytes} (h : to4 src = some v4) (id : Bytes) (port : Nat) :
    heartbeatReplyIP id src port = heartbeatReply id (ipNat v4) port := by
  unfold heartbeatReplyIP heartbeatReply
  rw [h, ipBytes_ipNat v4 (to4_length h).1]
  have : copyInto 4 (nilEmpty (some v4)) = v4 := by
    unfold copyInto nilEmpty
    rw [List.take_append_of_le_length (by rw [(to4_length h).1]; exact Nat.le_refl 4), ← (to4_length h).1, List.take_length]
  rw [this]

end Swat4.Heartbeat6
