import Swat4.Model.UseCases.Discovery
import Swat4.Lemmas.Prog
/-!
# Run-level helper lemmas for C13

* `update_eq` / `add_existing_eq` / `update_refused_eq`: the **whole** result (state and reply) of a
  registry `Update` / `Add` whose conflict callback is the caller's own transformation, as an equation
  — so "nothing else changed" is part of the statement, not only the row at one address;
* the remainders of `probeserver.Execute` after its `Get` (`probeRetry`, `probeFail`, `probeSuccessRest`)
  run to completion;
* `stepN` / `raceRun`: a two-client history at `Prog` level (client A performs its first `k` calls, one
  call of another client commits, A runs on).
-/
namespace Swat4.C13Run
open Swat4 Swat4.UC Std

/-- a transformation that leaves address and version alone (unfolded `C13.Stable`) -/
abbrev Keeps (f : Server → Server) : Prop := ∀ s, (f s).addr = s.addr ∧ (f s).version = s.version

/-! ## field-level form of the outcome handlers -/

/-- `HandleSuccess` as a record literal: every one of the seven fields of the result -/
theorem handleSuccess_eq (g : Goal) (res : ProbeResult) (now : Int) (s : Server) :
    handleSuccess g res now s =
      { addr := s.addr,
        queryPort := (match g with | .port => res.port | .details => s.queryPort),
        status := successStatus g s.status,
        info := res.details.info,
        details := res.details,
        refreshedAt := some now,
        version := s.version } := by
  cases g <;> rfl

theorem handleRetry_eq (g : Goal) (s : Server) : handleRetry g s = { s with status := retryStatus g s.status } := rfl
theorem handleFailure_eq (g : Goal) (s : Server) : handleFailure g s = { s with status := failureStatus g s.status } := rfl

theorem handleSuccess_keeps (g : Goal) (res : ProbeResult) (t : Int) : Keeps (handleSuccess g res t) := by
  intro s; rw [handleSuccess_eq]; exact ⟨rfl, rfl⟩
theorem handleRetry_keeps (g : Goal) : Keeps (handleRetry g) := fun _ => ⟨rfl, rfl⟩
theorem handleFailure_keeps (g : Goal) : Keeps (handleFailure g) := fun _ => ⟨rfl, rfl⟩

/-! ## whole-state equations for the registry writes -/

/-- `getRow` looks at the registry only -/
theorem getRow_congr (s s' : AbsState) (h : s'.servers = s.servers) (a : Addr) : s'.getRow a = s.getRow a := by
  unfold AbsState.getRow; rw [h]

/-- **`Update (f stale)` with callback `f`**, as an equation on the whole result: the registry gets `f latest`
at `latest.version + 1` with update time `now` under the address key; instances, queue, id counter are
untouched; the reply is the stored record. -/
theorem update_eq (s : AbsState) (now : Int) (f : Server → Server) (stale latest : Server) (u : Int)
    (hf : Keeps f)
    (hrow : s.getRow stale.addr = some ⟨latest, u⟩) (hkey : latest.addr = stale.addr)
    (hmono : latest.version > stale.version ∨ latest = stale) :
    s.update now (f stale) (fun x => some (f x)) =
      ({ s with servers := s.servers.insert stale.addr.key ⟨{ f latest with version := latest.version + 1 }, now⟩ },
       .ok { f latest with version := latest.version + 1 }) := by
  have hfa := (hf stale).1
  have hfv := (hf stale).2
  have hga := (hf latest).1
  have hgv := (hf latest).2
  unfold AbsState.update
  rw [hfa, hrow]
  simp only
  by_cases hnew : latest.version > (f stale).version
  · simp only [hnew, if_true, AbsState.save, hga, hgv, hkey]
  · simp only [hnew, if_false]
    rcases hmono with h | h
    · rw [hfv] at hnew; exact absurd h hnew
    · subst h
      simp only [AbsState.save, hfa, hfv]

/-- the row an `Update` by a client holding the current record leaves behind: its transformation, one version up -/
theorem update_commit_row (s0 : AbsState) (tW : Int) (f : Server → Server) (hf : Keeps f) (a : Addr) (r0 : Server) (u0 : Int)
    (hrow0 : s0.getRow a = some ⟨r0, u0⟩) (ha0 : r0.addr = a) :
    ((Call.updateServer (f r0) fun x => some (f x)).exec s0 tW).1.getRow a =
      some ⟨{ f r0 with version := r0.version + 1 }, tW⟩ := by
  show (s0.update tW (f r0) fun x => some (f x)).1.getRow a = _
  rw [update_eq s0 tW f r0 r0 u0 hf (ha0 ▸ hrow0) rfl (Or.inr rfl), ha0]
  simp only [AbsState.getRow, ExtTreeMap.getElem?_insert_self]

/-- an `Update` whose callback refuses on the latest record leaves the state alone and replies with the latest record -/
theorem update_refused_eq (s : AbsState) (now : Int) (mine : Server) (res : Resolver) (latest : Server) (u : Int)
    (hrow : s.getRow mine.addr = some ⟨latest, u⟩) (hnew : latest.version > mine.version) (hres : res latest = none) :
    s.update now mine res = (s, .ok latest) := by
  unfold AbsState.update
  rw [hrow]
  simp only [hnew, if_true, hres]

/-- an `Update` whose callback accepts on a newer latest record stores the callback's result -/
theorem update_resolved_eq (s : AbsState) (now : Int) (mine : Server) (res : Resolver) (latest r : Server) (u : Int)
    (hrow : s.getRow mine.addr = some ⟨latest, u⟩) (hnew : latest.version > mine.version) (hres : res latest = some r) :
    s.update now mine res =
      ({ s with servers := s.servers.insert r.addr.key ⟨{ r with version := r.version + 1 }, now⟩ },
       .ok { r with version := r.version + 1 }) := by
  unfold AbsState.update
  rw [hrow]
  simp only [hnew, if_true, hres, AbsState.save]

/-- an `Update` of a record that is no longer stored: nothing changes, `ErrServerNotFound` -/
theorem update_missing_eq (s : AbsState) (now : Int) (mine : Server) (res : Resolver)
    (hrow : s.getRow mine.addr = none) : s.update now mine res = (s, .error .serverNotFound) := by
  unfold AbsState.update
  rw [hrow]

/-- an `Update` when the stored version is **not** newer than the caller's copy (equal — or lower, which
happens only after remove + re-add): the caller's copy is stored, the callback is not consulted -/
theorem update_overwrite_eq (s : AbsState) (now : Int) (mine : Server) (res : Resolver) (ex : Server) (u : Int)
    (hrow : s.getRow mine.addr = some ⟨ex, u⟩) (hle : ex.version ≤ mine.version) :
    s.update now mine res =
      ({ s with servers := s.servers.insert mine.addr.key ⟨{ mine with version := mine.version + 1 }, now⟩ },
       .ok { mine with version := mine.version + 1 }) := by
  unfold AbsState.update
  rw [hrow]
  have : ¬ ex.version > mine.version := by omega
  simp only [this, if_false, AbsState.save]

/-- **`Add (f mine)` with callback `f` on an existing record**: the callback is applied to the stored record
whatever its version -/
theorem add_existing_eq (s : AbsState) (now : Int) (mine : Server) (f : Server → Server) (latest : Server) (u : Int)
    (hrow : s.getRow mine.addr = some ⟨latest, u⟩) :
    s.add now mine (fun x => some (f x)) =
      ({ s with servers := s.servers.insert (f latest).addr.key ⟨{ f latest with version := (f latest).version + 1 }, now⟩ },
       .ok { f latest with version := (f latest).version + 1 }) := by
  unfold AbsState.add
  rw [hrow]
  simp only [AbsState.save]

/-- `Add` of an address that is not stored -/
theorem add_fresh_eq (s : AbsState) (now : Int) (mine : Server) (res : Resolver)
    (hrow : s.getRow mine.addr = none) :
    s.add now mine res =
      ({ s with servers := s.servers.insert mine.addr.key ⟨{ mine with version := mine.version + 1 }, now⟩ },
       .ok { mine with version := mine.version + 1 }) := by
  unfold AbsState.add
  rw [hrow]
  simp only [AbsState.save]

/-- `Remove` of the record one holds (stored version not newer) erases the row -/
theorem remove_eq (s : AbsState) (mine : Server) (res : Resolver) (ex : Server) (u : Int)
    (hrow : s.getRow mine.addr = some ⟨ex, u⟩) (hle : ex.version ≤ mine.version) :
    s.remove mine res = ({ s with servers := s.servers.erase mine.addr.key }, .ok ()) := by
  unfold AbsState.remove
  rw [hrow]
  have : ¬ ex.version > mine.version := by omega
  simp only [this, if_false]

/-! ## `probeserver.Execute` after its `Get` -/

/-- the success branch after `Get` returned `svr` -/
def probeSuccessRest (prb : Probe) (res : ProbeResult) (svr : Server) : Prog ProbeEnd :=
  .call .now fun now =>
  .call (.updateServerT (handleSuccess prb.goal res now svr) fun t s => some (handleSuccess prb.goal res t s)) fun r =>
  match r with
  | .error e => pure (.error (.repo e))
  | .ok _ => pure .success

/-- `Execute` = `Get`, then the branch of the outcome -/
theorem probe_unfold (prb : Probe) (outcome : Option ProbeResult) :
    probe prb outcome = .call (.getServer prb.addr) fun r =>
      match r with
      | .error e => pure (.error (.repo e))
      | .ok svr => match outcome with
        | none => probeRetry prb svr
        | some res => probeSuccessRest prb res svr := rfl

theorem probeRetry_unfold (prb : Probe) (svr : Server) (h : prb.retries < prb.maxRetries) :
    probeRetry prb svr = .call .now fun now =>
      .call (.enqueue { prb with retries := prb.retries + 1 } (some (now + second * expFloor (prb.retries + 1))) none) fun r =>
        match r with
        | .error e => pure (.error (.repo e))
        | .ok _ => .call (.updateServer (handleRetry prb.goal svr) fun s => some (handleRetry prb.goal s)) fun r =>
            match r with
            | .error e => pure (.error (.repo e))
            | .ok _ => pure .retried := by
  unfold probeRetry Probe.incRetries
  have : ¬ prb.retries ≥ prb.maxRetries := by omega
  simp only [this, if_false, Bool.not_true, Bool.false_eq_true]
  rfl

theorem probeRetry_final (prb : Probe) (svr : Server) (h : prb.retries ≥ prb.maxRetries) :
    probeRetry prb svr = probeFail prb.goal svr := by
  unfold probeRetry Probe.incRetries
  simp [h]

/-- the state after the retry's `AddBetween`: one more queue item, next id; registry and instances as before -/
def queued (s : AbsState) (prb : Probe) (ready : Int) : AbsState :=
  { s with queue := s.queue ++ [⟨s.nextId, prb, ready, none⟩], nextId := s.nextId + 1 }

theorem enqueue_after_eq (s : AbsState) (now : Int) (p : Probe) (ready : Int) :
    s.enqueue now p (some ready) none = queued s p ready := rfl

/-- **retry, after `Get` returned `stale`** and the registry moved on to `latest` -/
theorem probeRetry_run (s : AbsState) (now : Int) (prb : Probe) (stale latest : Server) (u : Int)
    (hrow : s.getRow stale.addr = some ⟨latest, u⟩) (hkey : latest.addr = stale.addr)
    (hmono : latest.version > stale.version ∨ latest = stale) (h : prb.retries < prb.maxRetries) :
    (probeRetry prb stale).run s now =
      ({ servers := s.servers.insert stale.addr.key ⟨{ handleRetry prb.goal latest with version := latest.version + 1 }, now⟩,
         instances := s.instances,
         queue := s.queue ++ [⟨s.nextId, { prb with retries := prb.retries + 1 }, now + second * expFloor (prb.retries + 1), none⟩],
         nextId := s.nextId + 1 }, .retried) := by
  rw [probeRetry_unfold prb stale h]
  simp only [Prog.run_call, Call.exec, enqueue_after_eq]
  have hrow' : (queued s { prb with retries := prb.retries + 1 } (now + second * expFloor (prb.retries + 1))).getRow stale.addr
      = some ⟨latest, u⟩ := hrow
  rw [update_eq _ now (handleRetry prb.goal) stale latest u (handleRetry_keeps _) hrow' hkey hmono]
  rfl

/-- retry after the record was removed in the meantime: the probe is re-queued all the same, the `Update`
fails with `ErrServerNotFound`, and the registry is **not** touched (a removed server is not resurrected) -/
theorem probeRetry_run_removed (s : AbsState) (now : Int) (prb : Probe) (stale : Server)
    (hrow : s.getRow stale.addr = none) (h : prb.retries < prb.maxRetries) :
    (probeRetry prb stale).run s now =
      ({ servers := s.servers, instances := s.instances,
         queue := s.queue ++ [⟨s.nextId, { prb with retries := prb.retries + 1 }, now + second * expFloor (prb.retries + 1), none⟩],
         nextId := s.nextId + 1 }, .error (.repo .serverNotFound)) := by
  rw [probeRetry_unfold prb stale h]
  simp only [Prog.run_call, Call.exec, enqueue_after_eq]
  have hrow' : (queued s { prb with retries := prb.retries + 1 } (now + second * expFloor (prb.retries + 1))).getRow
      (handleRetry prb.goal stale).addr = none := hrow
  rw [update_missing_eq _ now _ _ hrow']
  rfl

/-- **final failure, after `Get` returned `stale`** -/
theorem probeFail_run (s : AbsState) (now : Int) (g : Goal) (stale latest : Server) (u : Int)
    (hrow : s.getRow stale.addr = some ⟨latest, u⟩) (hkey : latest.addr = stale.addr)
    (hmono : latest.version > stale.version ∨ latest = stale) :
    (probeFail g stale).run s now =
      ({ servers := s.servers.insert stale.addr.key ⟨{ handleFailure g latest with version := latest.version + 1 }, now⟩,
         instances := s.instances, queue := s.queue, nextId := s.nextId }, .outOfRetries) := by
  unfold probeFail
  simp only [Prog.run_call, Call.exec]
  rw [update_eq s now (handleFailure g) stale latest u (handleFailure_keeps _) hrow hkey hmono]
  rfl

/-- **success, after `Get` returned `stale`** (in a run the clock is fixed: both `HandleSuccess` calls stamp `now`) -/
theorem probeSuccessRest_run (s : AbsState) (now : Int) (prb : Probe) (res : ProbeResult) (stale latest : Server) (u : Int)
    (hrow : s.getRow stale.addr = some ⟨latest, u⟩) (hkey : latest.addr = stale.addr)
    (hmono : latest.version > stale.version ∨ latest = stale) :
    (probeSuccessRest prb res stale).run s now =
      ({ servers := s.servers.insert stale.addr.key ⟨{ handleSuccess prb.goal res now latest with version := latest.version + 1 }, now⟩,
         instances := s.instances, queue := s.queue, nextId := s.nextId }, .success) := by
  unfold probeSuccessRest
  simp only [Prog.run_call, Call.exec]
  rw [update_eq s now (handleSuccess prb.goal res now) stale latest u (handleSuccess_keeps _ _ _) hrow hkey hmono]
  rfl

/-! ## two-client histories -/

/-- client performs its next `n` calls (clock fixed at `t`) -/
def stepN {α : Type} : Nat → Prog α → AbsState → Int → AbsState × Prog α
  | 0, p, s, _ => (s, p)
  | n + 1, p, s, t => stepN n (p.step1 s t).2 (p.step1 s t).1 t

/-- **the history of the property**: client A performs its first `k` calls at clock `t0`; then one call `W` of
another client commits at clock `tW`; then A runs to completion at clock `now` -/
def raceRun {α β : Type} (pA : Prog α) (k : Nat) (t0 : Int) (W : Call β) (tW now : Int) (s : AbsState) : AbsState × α :=
  ((stepN k pA s t0).2).run (W.exec (stepN k pA s t0).1 tW).1 now

@[simp] theorem stepN_zero {α : Type} (p : Prog α) (s : AbsState) (t : Int) : stepN 0 p s t = (s, p) := rfl
@[simp] theorem stepN_succ {α : Type} (n : Nat) (p : Prog α) (s : AbsState) (t : Int) :
    stepN (n + 1) p s t = stepN n (p.step1 s t).2 (p.step1 s t).1 t := rfl

@[simp] theorem step1_call {α β : Type} (c : Call β) (k : β → Prog α) (s : AbsState) (t : Int) :
    (Prog.call c k).step1 s t = ((c.exec s t).1, k (c.exec s t).2) := rfl

/-! `Call.exec` on the individual calls (so that `simp` does not unfold `exec` of an abstract call) -/
theorem exec_now (s : AbsState) (t : Int) : Call.now.exec s t = (s, t) := rfl
theorem exec_getServer (a : Addr) (s : AbsState) (t : Int) : (Call.getServer a).exec s t = (s, s.get a) := rfl
theorem exec_addServer (v : Server) (r : Resolver) (s : AbsState) (t : Int) : (Call.addServer v r).exec s t = s.add t v r := rfl
theorem exec_updateServer (v : Server) (r : Resolver) (s : AbsState) (t : Int) : (Call.updateServer v r).exec s t = s.update t v r := rfl
theorem exec_updateServerT (v : Server) (r : Int → Resolver) (s : AbsState) (t : Int) :
    (Call.updateServerT v r).exec s t = s.update t v (r t) := rfl
theorem exec_removeServer (v : Server) (r : Resolver) (s : AbsState) (t : Int) : (Call.removeServer v r).exec s t = s.remove v r := rfl
theorem exec_insGet (id : Nat) (s : AbsState) (t : Int) : (Call.insGet id).exec s t = (s, s.insGet id) := rfl
theorem exec_insAdd (i : Instance) (s : AbsState) (t : Int) : (Call.insAdd i).exec s t = (s.insAdd t i, .ok ()) := rfl
theorem exec_enqueue (p : Probe) (a b : GoTime) (s : AbsState) (t : Int) :
    (Call.enqueue p a b).exec s t = (s.enqueue t p a b, .ok ()) := rfl

/-- the probe's first call: `Get` of a stored record changes nothing and hands the record to the outcome branch -/
theorem probe_step_get (s : AbsState) (t : Int) (prb : Probe) (outcome : Option ProbeResult) (r : Server) (u : Int)
    (hrow : s.getRow prb.addr = some ⟨r, u⟩) :
    stepN 1 (probe prb outcome) s t =
      (s, match outcome with | none => probeRetry prb r | some res => probeSuccessRest prb res r) := by
  rw [probe_unfold]
  simp only [stepN_succ, stepN_zero, step1_call, Call.exec, AbsState.get, hrow]

end Swat4.C13Run
