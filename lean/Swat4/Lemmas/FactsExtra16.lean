import Swat4.Gen.Facts
/-!
# C16 — finer regenerated facts about the probe queue's item ids
-/
namespace Swat4.C16
open Swat4

/-- **The id that is generated is the id that is stored.**  Supports `Backed` / `backed_enqueue` and the driver oracle `heldAndLost` (every queued probe is a distinct item of `probes:items`, keyed like its queue entry).
`facts_item_id` pins the expression assigned to `itemID`; this pins how `itemID` is USED by `enqueue`: it is the hash
field of `HSet(dataKey, itemID, item)` and the `Member` of the `ZAdd(queueKey, …)` entry — the same, whole identifier in
both — and the keys / other arguments of the two commands.
*Edit detected:* `pipe.HSet(ctx, dataKey, itemID[:8], item)` (payloads collide after ~2^16 probes while the queue
entries stay distinct: one probe's payload is silently replaced by another's), or a different member in the `ZAdd`. -/
theorem facts_item_id_uses :
    Facts.probeItemIDUses =
      [("enqueue", "HSet", "itemID"),
       ("enqueue", "ZAdd", "Member: itemID")] ∧
    (Facts.storeCmdKeys.filter fun x => x.1 == "probes" && x.2.1 == "enqueue") =
      [("probes", "enqueue", "HSet", "dataKey", "itemID, item"),
       ("probes", "enqueue", "ZAdd", "queueKey", "redis.Z{ Score: float64(itemReadyAt.UnixNano()), Member: itemID, }")] := by
  decide

end Swat4.C16
