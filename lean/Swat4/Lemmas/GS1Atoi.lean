import Swat4.Model.GS1
import Swat4.Model.Heartbeat
/-!
The GS1 model's `atoi` and map lookup agree with definitions written elsewhere: `Heartbeat.atoi`
(the reporter model's `strconv.Atoi`) and core `List.lookup`.
-/
namespace Swat4.GS1
open Swat4

theorem isDigit_iff (c : UInt8) : isDigit c = true ↔ 48 ≤ c.toNat ∧ c.toNat ≤ 57 := by
  simp only [isDigit, Bool.and_eq_true, decide_eq_true_eq, UInt8.le_iff_toNat_le]
  constructor <;> intro h <;> exact ⟨by simpa using h.1, by simpa using h.2⟩

theorem heartbeat_digitsVal (ds : Bytes) (acc : Nat) :
    Heartbeat.digitsVal ds acc =
      if ds.all isDigit then some (ds.foldl (fun a c => a * 10 + (c.toNat - 48)) acc) else none := by
  induction ds generalizing acc with
  | nil => rfl
  | cons c t ih =>
    simp only [Heartbeat.digitsVal, List.all_cons, List.foldl_cons]
    by_cases hc : isDigit c = true
    · rw [if_pos ((isDigit_iff c).mp hc), ih]
      simp [hc]
    · rw [if_neg (fun h => hc ((isDigit_iff c).mpr h))]
      simp [hc]

/-- the GS1 model's `strconv.Atoi` is the reporter model's -/
theorem atoi_eq_heartbeat (s : Bytes) : atoi s = Heartbeat.atoi s := by
  cases s with
  | nil => rfl
  | cons c rest =>
    simp only [atoi, Heartbeat.atoi, List.head?_cons, List.drop_one, List.tail_cons, digitsVal]
    have e1 : (some c == some (0x2d : UInt8)) = decide (c = 0x2d) := by
      by_cases h : c = 0x2d <;> simp [h]
    have e2 : (some c == some (0x2b : UInt8)) = decide (c = 0x2b) := by
      by_cases h : c = 0x2b <;> simp [h]
    rw [e1, e2]
    by_cases hm : c = 0x2d
    · subst hm
      simp only [decide_true, Bool.true_or, if_true, or_true, heartbeat_digitsVal]
      cases rest with
      | nil => rfl
      | cons d t =>
        by_cases hd : (d :: t).all isDigit = true
        · simp [hd]
        · simp [hd]
    · by_cases hp : c = 0x2b
      · subst hp
        simp only [hm, decide_false, decide_true, Bool.or_true, if_true, true_or, heartbeat_digitsVal]
        cases rest with
        | nil => rfl
        | cons d t =>
          by_cases hd : (d :: t).all isDigit = true
          · simp [hd]
          · simp [hd]
      · simp only [hm, hp, decide_false, Bool.or_false, Bool.false_eq_true, if_false, or_self, heartbeat_digitsVal]
        by_cases hd : (c :: rest).all isDigit = true
        · simp [hd]
        · simp [hd]

/-- the model's map lookup is core `List.lookup` -/
theorem lookupKV_eq_lookup {α : Type} (k : Bytes) (m : List (Bytes × α)) : lookupKV k m = m.lookup k := by
  induction m with
  | nil => rfl
  | cons hd t ih =>
    obtain ⟨k', v'⟩ := hd
    simp only [lookupKV, List.lookup_cons]
    by_cases h : k = k'
    · subst h; simp
    · have : (k == k') = false := by simpa using h
      rw [if_neg h, this, ih]

end Swat4.GS1
