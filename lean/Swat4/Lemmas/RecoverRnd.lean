import Swat4.Drv.C02
/-!
# The driver's `recoverRnd` (C02 / C01; reviewer section 3 item 8)

`crypt.Encrypt` draws 23 random header bytes.  The C02 and C01 drivers cannot see the draws of the real code; they recover
them from the implementation's reply (`Drv.C02.recoverRnd`: `out[i] ^ secret[i%6] ^ chal[i%8]` for `i < 23`) and run the
model `Crypt.encrypt?` with the recovered draws.  This file justifies the reconstruction:

* `Encrypt` overwrites header bytes 0, 1, 2 and 8, so the draws at these four positions do **not** reach the output and
  cannot be recovered — the lemma "`recoverRnd (encrypt? … rnd …) = rnd`" is *false* as it stands
  (`recoverRnd_not_injective`: two draw vectors that differ at position 0 give the same reply);
* what is recovered is `recovered secret chal rnd`: `rnd` at the 19 positions that matter (`recovered_agrees`), and the
  fixed header bytes un-masked at the other four (`recoverRnd_header`);
* the model does not distinguish the two: `encrypt?_recovered`;
* hence `recoverRnd_encrypt`: if the reply is `encrypt? secret chal rnd plain` for the real (unknown) draws `rnd`, the vector
  the driver reconstructs has the right length and the model run with it reproduces exactly that reply — the driver's
  comparison `encrypt? secret chal (recoverRnd …) plain == reply` loses nothing;
* for draws that are "well-formed" in the sense that the four dead positions hold the canonical values, the
  reconstruction is exact: `recoverRnd_encrypt_exact`.
-/
namespace Swat4.Crypt
open Swat4

theorem xor_cancel2 (a s c : UInt8) : a ^^^ s ^^^ c ^^^ s ^^^ c = a := by
  have h : a ^^^ s ^^^ c ^^^ s ^^^ c = a ^^^ ((s ^^^ s) ^^^ (c ^^^ c)) := by ac_rfl
  rw [h, UInt8.xor_self, UInt8.xor_self, UInt8.xor_zero, UInt8.xor_zero]

theorem getD_toList {n : Nat} (v : Vector UInt8 n) (i : Nat) (h : i < n) : v.toList.getD i 0 = v[i] := by
  simp [List.getD_eq_getElem?_getD, h]

theorem range23 : List.range 23 = [0,1,2,3,4,5,6,7,8,9,10,11,12,13,14,15,16,17,18,19,20,21,22] := by decide

/-- the header with the index arithmetic evaluated -/
theorem header_eq (sv : Secret) (cv : Challenge) (rv : Rnd) :
    header sv cv rv = ([0xeb, 0x00, 0x00, rv[3] ^^^ sv[3] ^^^ cv[3], rv[4] ^^^ sv[4] ^^^ cv[4], rv[5] ^^^ sv[5] ^^^ cv[5], rv[6] ^^^ sv[0] ^^^ cv[6], rv[7] ^^^ sv[1] ^^^ cv[7], 14 ^^^ 0xea, rv[9] ^^^ sv[3] ^^^ cv[1], rv[10] ^^^ sv[4] ^^^ cv[2], rv[11] ^^^ sv[5] ^^^ cv[3], rv[12] ^^^ sv[0] ^^^ cv[4], rv[13] ^^^ sv[1] ^^^ cv[5], rv[14] ^^^ sv[2] ^^^ cv[6], rv[15] ^^^ sv[3] ^^^ cv[7], rv[16] ^^^ sv[4] ^^^ cv[0], rv[17] ^^^ sv[5] ^^^ cv[1], rv[18] ^^^ sv[0] ^^^ cv[2], rv[19] ^^^ sv[1] ^^^ cv[3], rv[20] ^^^ sv[2] ^^^ cv[4], rv[21] ^^^ sv[3] ^^^ cv[5], rv[22] ^^^ sv[4] ^^^ cv[6]] : List UInt8) := rfl

/-- what `recoverRnd` reconstructs from a reply produced with the draws `rv`: `rv` itself at the 19 positions that reach
the output, the un-masked fixed header bytes at positions 0, 1, 2, 8 -/
def recovered (sv : Secret) (cv : Challenge) (rv : Rnd) : Rnd :=
  #v[(0xeb : UInt8) ^^^ sv[0] ^^^ cv[0],
     (0x00 : UInt8) ^^^ sv[1] ^^^ cv[1],
     (0x00 : UInt8) ^^^ sv[2] ^^^ cv[2],
     rv[3],
     rv[4],
     rv[5],
     rv[6],
     rv[7],
     ((14 : UInt8) ^^^ (0xea : UInt8)) ^^^ sv[2] ^^^ cv[0],
     rv[9],
     rv[10],
     rv[11],
     rv[12],
     rv[13],
     rv[14],
     rv[15],
     rv[16],
     rv[17],
     rv[18],
     rv[19],
     rv[20],
     rv[21],
     rv[22]]

/-- the reconstruction agrees with the real draws at every position `Encrypt` does not overwrite -/
theorem recovered_agrees (sv : Secret) (cv : Challenge) (rv : Rnd) (i : Nat) (h : i < 23)
    (h0 : i ≠ 0) (h1 : i ≠ 1) (h2 : i ≠ 2) (h8 : i ≠ 8) : (recovered sv cv rv)[i] = rv[i] := by
  have : i = 3 ∨ i = 4 ∨ i = 5 ∨ i = 6 ∨ i = 7 ∨ i = 9 ∨ i = 10 ∨ i = 11 ∨ i = 12 ∨ i = 13 ∨ i = 14 ∨ i = 15 ∨ i = 16 ∨ i = 17 ∨ i = 18 ∨ i = 19 ∨ i = 20 ∨ i = 21 ∨ i = 22 := by omega
  rcases this with rfl | rfl | rfl | rfl | rfl | rfl | rfl | rfl | rfl | rfl | rfl | rfl | rfl | rfl | rfl | rfl | rfl | rfl | rfl <;> rfl

/-- on any byte string that starts with the header of `rv`, the driver's function returns `recovered … rv` -/
theorem recoverRnd_header (sv : Secret) (cv : Challenge) (rv : Rnd) (rest : Bytes) :
    Drv.C02.recoverRnd sv.toList cv.toList (header sv cv rv ++ rest) = (recovered sv cv rv).toList := by
  unfold Drv.C02.recoverRnd
  rw [range23, header_eq]
  simp only [List.map_cons, List.map_nil, List.cons_append, List.getD_cons_succ, List.getD_cons_zero]
  simp [recovered, xor_cancel2]

/-- the header — the only place the draws enter `Encrypt` — is the same for the real and the reconstructed draws -/
theorem header_recovered (sv : Secret) (cv : Challenge) (rv : Rnd) : header sv cv (recovered sv cv rv) = header sv cv rv := by
  rw [header_eq, header_eq]
  simp [recovered]

/-- the model does not distinguish the real draws from the reconstructed ones -/
theorem encrypt?_recovered (sv : Secret) (cv : Challenge) (rv : Rnd) (plain : Bytes) :
    encrypt? sv cv (recovered sv cv rv) plain = encrypt? sv cv rv plain := by
  unfold encrypt? cryptKey
  rw [header_recovered]

theorem toVec?_toList {n : Nat} (v : Vector UInt8 n) : Drv.toVec? n v.toList = some v := by
  unfold Drv.toVec?
  have h : v.toList.toArray.size = n := by simp
  rw [dif_pos h]
  congr 1

/-- `toVec?` only checks the length: the byte strings the driver parses are the lists of the vectors it runs the model on -/
theorem toVec?_eq_some {n : Nat} {b : Bytes} {v : Vector UInt8 n} (h : Drv.toVec? n b = some v) : b = v.toList := by
  unfold Drv.toVec? at h
  split at h
  · cases h; simp
  · cases h

/-- **`recoverRnd_encrypt`** — the driver's reconstruction is justified.  Let `out` be what `Encrypt` produces with the
(unknown) draws `rv`.  Then the vector the driver builds from `out` (`toVec? 23 (recoverRnd secret chal out)`) exists, is
`recovered sv cv rv` — the real draws at every position that reaches the output — and the model run with it returns
exactly `out`.  So "model with recovered draws = reply" holds iff "model with the real draws = reply". -/
theorem recoverRnd_encrypt (sv : Secret) (cv : Challenge) (rv : Rnd) (plain out : Bytes)
    (h : encrypt? sv cv rv plain = some out) :
    Drv.toVec? 23 (Drv.C02.recoverRnd sv.toList cv.toList out) = some (recovered sv cv rv) ∧
    encrypt? sv cv (recovered sv cv rv) plain = some out := by
  refine ⟨?_, by rw [encrypt?_recovered]; exact h⟩
  unfold encrypt? at h
  split at h
  · cases h
  · cases h
    rw [recoverRnd_header]
    exact toVec?_toList _

/-- … in the form the C02 driver uses it: the secret and the challenge arrive as byte strings `s`, `c` that pass the
length checks `toVec? 6` / `toVec? 8` -/
theorem recoverRnd_encrypt_bytes (s c : Bytes) (sv : Secret) (cv : Challenge) (rv : Rnd) (plain out : Bytes)
    (hs : Drv.toVec? 6 s = some sv) (hc : Drv.toVec? 8 c = some cv) (h : encrypt? sv cv rv plain = some out) :
    ∃ rv' : Rnd, Drv.toVec? 23 (Drv.C02.recoverRnd s c out) = some rv' ∧ encrypt? sv cv rv' plain = some out ∧
      ∀ (i : Nat) (hi : i < 23), i ≠ 0 → i ≠ 1 → i ≠ 2 → i ≠ 8 → rv'[i] = rv[i] := by
  rw [toVec?_eq_some hs, toVec?_eq_some hc]
  exact ⟨recovered sv cv rv, (recoverRnd_encrypt sv cv rv plain out h).1, (recoverRnd_encrypt sv cv rv plain out h).2,
    fun i hi h0 h1 h2 h8 => recovered_agrees sv cv rv i hi h0 h1 h2 h8⟩

/-- draws whose four dead positions hold the canonical values are reconstructed exactly -/
theorem recovered_eq_self (sv : Secret) (cv : Challenge) (rv : Rnd)
    (h0 : rv[0] = (0xeb : UInt8) ^^^ sv[0] ^^^ cv[0]) (h1 : rv[1] = (0x00 : UInt8) ^^^ sv[1] ^^^ cv[1])
    (h2 : rv[2] = (0x00 : UInt8) ^^^ sv[2] ^^^ cv[2]) (h8 : rv[8] = ((14 : UInt8) ^^^ (0xea : UInt8)) ^^^ sv[2] ^^^ cv[0]) : recovered sv cv rv = rv := by
  apply Vector.ext
  intro i hi
  by_cases e0 : i = 0
  · subst e0; exact h0.symm
  by_cases e1 : i = 1
  · subst e1; exact h1.symm
  by_cases e2 : i = 2
  · subst e2; exact h2.symm
  by_cases e8 : i = 8
  · subst e8; exact h8.symm
  exact recovered_agrees sv cv rv i hi e0 e1 e2 e8

/-- **`recoverRnd (encrypt? … rnd …) = rnd`** for well-formed draws (right length by type; the four positions `Encrypt`
overwrites hold the canonical values — the only freedom the output leaves) -/
theorem recoverRnd_encrypt_exact (sv : Secret) (cv : Challenge) (rv : Rnd) (plain out : Bytes)
    (h0 : rv[0] = (0xeb : UInt8) ^^^ sv[0] ^^^ cv[0]) (h1 : rv[1] = (0x00 : UInt8) ^^^ sv[1] ^^^ cv[1])
    (h2 : rv[2] = (0x00 : UInt8) ^^^ sv[2] ^^^ cv[2]) (h8 : rv[8] = ((14 : UInt8) ^^^ (0xea : UInt8)) ^^^ sv[2] ^^^ cv[0]) (h : encrypt? sv cv rv plain = some out) :
    Drv.toVec? 23 (Drv.C02.recoverRnd sv.toList cv.toList out) = some rv := by
  rw [(recoverRnd_encrypt sv cv rv plain out h).1, recovered_eq_self sv cv rv h0 h1 h2 h8]

/-- the unrestricted statement is false: the draw at position 0 does not reach the output, so two different draw vectors
produce the same reply and `recoverRnd` cannot tell them apart -/
theorem recoverRnd_not_injective (sv : Secret) (cv : Challenge) (rv : Rnd) (x : UInt8) (plain : Bytes) :
    encrypt? sv cv (rv.set 0 x) plain = encrypt? sv cv rv plain := by
  unfold encrypt? cryptKey
  have : header sv cv (rv.set 0 x) = header sv cv rv := by
    rw [header_eq, header_eq]
    simp
  rw [this]

end Swat4.Crypt
