import Swat4.Spec.GS1Spec
/-! `strconv.Atoi` reads back what `strconv.Itoa` wrote: `atoi (decimal n) = some n`. -/
namespace Swat4.GS1
open Swat4 Swat4.GS1Spec

def dig (k : Nat) : UInt8 := UInt8.ofNat (48 + k)

theorem dig_toNat {k : Nat} (h : k < 10) : (dig k).toNat = 48 + k := by
  simp only [dig, UInt8.toNat_ofNat']; omega

theorem dig_isDigit {k : Nat} (h : k < 10) : isDigit (dig k) = true := by
  have := dig_toNat h
  have h1 : (0x30 : UInt8).toNat = 48 := rfl
  have h2 : (0x39 : UInt8).toNat = 57 := rfl
  simp only [isDigit, Bool.and_eq_true, decide_eq_true_eq, UInt8.le_iff_toNat_le]
  omega

theorem dig_ne_sign {k : Nat} (h : k < 10) : dig k ≠ 0x2d ∧ dig k ≠ 0x2b ∧ dig k ≠ bsl ∧ dig k ≠ usc := by
  have := dig_toNat h
  refine ⟨?_, ?_, ?_, ?_⟩ <;> intro e <;> rw [e] at this <;> revert this <;> decide +revert

theorem digitsVal_append_one (xs : Bytes) (d : UInt8) : digitsVal (xs ++ [d]) = digitsVal xs * 10 + (d.toNat - 48) := by
  simp [digitsVal, List.foldl_append]

theorem decimalAux_acc (fuel n : Nat) (acc : Bytes) (h : n < fuel) :
    decimalAux fuel n acc = decimalAux fuel n [] ++ acc := by
  induction fuel generalizing n acc with
  | zero => omega
  | succ m ih =>
    simp only [decimalAux]
    split
    · simp
    · rename_i hne
      have : n / 10 < m := by omega
      rw [ih (n / 10) (_ :: acc) this, ih (n / 10) [_] this]
      simp

/-- digits of `n`: non-empty, all ASCII digits, value `n` -/
theorem decimalAux_spec (fuel n : Nat) (h : n < fuel) :
    digitsVal (decimalAux fuel n []) = n ∧ (∀ c ∈ decimalAux fuel n [], ∃ k, k < 10 ∧ c = dig k) ∧
      decimalAux fuel n [] ≠ [] := by
  induction fuel generalizing n with
  | zero => omega
  | succ m ih =>
    simp only [decimalAux]
    split
    · rename_i h0
      have hk : n % 10 < 10 := by omega
      refine ⟨?_, ?_, by simp⟩
      · show digitsVal [dig (n % 10)] = n
        simp only [digitsVal, List.foldl_cons, List.foldl_nil, dig_toNat hk]; omega
      · intro c hc; simp only [List.mem_singleton] at hc; exact ⟨n % 10, hk, hc⟩
    · rename_i hne
      have hlt : n / 10 < m := by omega
      have hk : n % 10 < 10 := by omega
      obtain ⟨h1, h2, h3⟩ := ih (n / 10) hlt
      rw [decimalAux_acc _ _ _ hlt]
      refine ⟨?_, ?_, by simp [h3]⟩
      · show digitsVal (decimalAux m (n / 10) [] ++ [dig (n % 10)]) = n
        rw [digitsVal_append_one, h1, dig_toNat hk]; omega
      · intro c hc
        rcases List.mem_append.mp hc with hc | hc
        · exact h2 c hc
        · simp only [List.mem_singleton] at hc; exact ⟨n % 10, hk, hc⟩

theorem decimal_spec (n : Nat) :
    digitsVal (decimal n) = n ∧ (∀ c ∈ decimal n, ∃ k, k < 10 ∧ c = dig k) ∧ decimal n ≠ [] :=
  decimalAux_spec (n + 1) n (by omega)

theorem decimal_noBsl (n : Nat) : bsl ∉ decimal n := by
  intro h
  obtain ⟨k, hk, e⟩ := (decimal_spec n).2.1 _ h
  exact (dig_ne_sign hk).2.2.1 e.symm

theorem decimal_noUsc (n : Nat) : usc ∉ decimal n := by
  intro h
  obtain ⟨k, hk, e⟩ := (decimal_spec n).2.1 _ h
  exact (dig_ne_sign hk).2.2.2 e.symm

/-- `Atoi(Itoa(n)) = n` within the `int` range -/
theorem atoi_decimal (n : Nat) (h : n < 9223372036854775808) : atoi (decimal n) = some (n : Int) := by
  obtain ⟨h1, h2, h3⟩ := decimal_spec n
  cases hd : decimal n with
  | nil => exact absurd hd h3
  | cons c t =>
    have hc : ∃ k, k < 10 ∧ c = dig k := h2 c (by rw [hd]; simp)
    obtain ⟨k, hk, rfl⟩ := hc
    have hs := dig_ne_sign hk
    have hall : (dig k :: t).all isDigit = true := by
      rw [List.all_eq_true]
      intro x hx
      obtain ⟨j, hj, rfl⟩ := h2 x (by rw [hd]; exact hx)
      exact dig_isDigit hj
    rw [hd] at h1
    have e1 : (some (dig k) == some (0x2d : UInt8)) = false := by simpa using hs.1
    have e2 : (some (dig k) == some (0x2b : UInt8)) = false := by simpa using hs.2.1
    unfold atoi
    simp only [List.head?_cons, e1, e2, Bool.or_self, Bool.false_eq_true, if_false]
    simp [hall, h1, h]

end Swat4.GS1
