import Swat4.Lemmas.Reporter
/-!
# The three reporter use cases are `Safe` for the keys of the sender's IP
-/
namespace Swat4.Rep
open Swat4 Std UC

theorem get_ok {s : AbsState} (hs : Inv s) {a : Addr} {svr : Server} (h : s.get a = .ok svr) :
    svr.addr.key = a.key ∧ svr.addr.PortOk := by
  unfold AbsState.get at h
  cases hrow : s.getRow a with
  | none => rw [hrow] at h; cases h
  | some r =>
    rw [hrow] at h
    cases h
    exact hs.1 _ _ ((getRow_eq s a) ▸ hrow)

theorem insGet_ok {s : AbsState} (hs : Inv s) {id : Nat} {i : Instance} (h : s.insGet id = .ok i) :
    i.addr.PortOk ∧ i.id = id := by
  unfold AbsState.insGet at h
  cases hrow : s.instances[id]? with
  | none => rw [hrow] at h; cases h
  | some p =>
    obtain ⟨a, t⟩ := p
    rw [hrow] at h
    cases h
    exact ⟨hs.2 _ _ _ hrow, rfl⟩

theorem add_ok {s : AbsState} (hs : Inv s) (now : Int) (svr : Server) (res : Resolver)
    (hok : svr.addr.PortOk) (hres : ResolverKeeps res) {r : Server} (h : (s.add now svr res).2 = .ok r) :
    r.addr.key = svr.addr.key ∧ r.addr.PortOk := by
  unfold AbsState.add at h
  cases hrow : s.getRow svr.addr with
  | none =>
    rw [hrow] at h
    cases h
    exact ⟨rfl, hok⟩
  | some ex =>
    have hex := hs.1 _ _ ((getRow_eq s svr.addr) ▸ hrow)
    rw [hrow] at h
    dsimp only at h
    cases hr : res ex.svr with
    | none => rw [hr] at h; cases h
    | some resolved =>
      rw [hr] at h
      cases h
      have ha := hres _ _ hr
      show resolved.addr.key = svr.addr.key ∧ resolved.addr.PortOk
      rw [ha]
      exact hex

theorem newServer_addr {zi : Fields} {a : Addr} {qp : Int} {svr : Server} (h : newServer zi a qp = some svr) :
    svr.addr = a := by
  unfold newServer at h
  split at h
  · cases h
  · cases h; rfl

theorem reported_keeps (info : Fields) (now : Int) : ResolverKeeps fun ex => some (reported info now ex) := by
  intro ex r h
  cases h
  rfl

theorem maybeDiscoverPort_safe {P : Nat → Prop} (mr : Int) (svr : Server) (hP : P svr.addr.key) (hok : svr.addr.PortOk) :
    Safe P (maybeDiscoverPort mr svr) := by
  unfold maybeDiscoverPort
  split
  · exact safe_pure _
  · refine Safe.call _ _ trivial ?_
    intro s now _
    cases (Call.exec (.enqueue ⟨svr.addr, svr.addr.port, .port, 0, mr⟩ none none) s now).2 with
    | error e => exact safe_pure _
    | ok u =>
      refine Safe.call _ _ ⟨hP, hok, ?_⟩ (fun _ _ _ => safe_pure _)
      intro ex r h
      dsimp only at h
      split at h
      · cases h
      · cases h; rfl

theorem report_safe {P : Nat → Prop} (zi : Fields) (mr : Int) (req : ReportReq) (hP : P req.addr.key)
    (hok : req.addr.PortOk) : Safe P (report zi mr req) := by
  have hcont : ∀ (svr : Server), svr.addr.key = req.addr.key → svr.addr.PortOk →
      Safe P (match req.info with
        | none => (pure (.error .invalidPayload) : Prog (Except UErr Unit))
        | some info =>
          .call .now fun now =>
          .call (.addServer (reported info now svr) fun ex => some (reported info now ex)) fun r =>
          match r with
          | .error e => pure (.error (.repo e))
          | .ok svr =>
            .call (.insAdd ⟨req.instanceId, req.addr⟩) fun r =>
            match r with
            | .error e => pure (.error (.repo e))
            | .ok _ => (maybeDiscoverPort mr svr).bind fun _ => pure (.ok ())) := by
    intro svr hk hpo
    cases req.info with
    | none => exact safe_pure _
    | some info =>
      refine Safe.call _ _ trivial ?_
      intro s0 now0 _
      refine Safe.call _ _ ⟨by show P svr.addr.key; rw [hk]; exact hP, hpo, reported_keeps _ _⟩ ?_
      intro s now hs
      cases hadd : (Call.exec (.addServer (reported info (Call.exec Call.now s0 now0).2 svr)
          fun ex => some (reported info (Call.exec Call.now s0 now0).2 ex)) s now).2 with
      | error e => exact safe_pure _
      | ok svr2 =>
        have h2 := add_ok hs now _ _ (show (reported info (Call.exec Call.now s0 now0).2 svr).addr.PortOk from hpo)
          (reported_keeps _ _) hadd
        refine Safe.call _ _ hok ?_
        intro s' now' _
        cases (Call.exec (.insAdd ⟨req.instanceId, req.addr⟩) s' now').2 with
        | error e => exact safe_pure _
        | ok u =>
          refine safe_bind (maybeDiscoverPort_safe mr svr2 ?_ h2.2) (fun _ => safe_pure _)
          rw [h2.1]
          show P svr.addr.key
          rw [hk]; exact hP
  unfold report
  refine Safe.call _ _ trivial ?_
  intro s now hs
  have hexec : (Call.exec (.getServer req.addr) s now).2 = s.get req.addr := rfl
  rw [hexec]
  cases hg : s.get req.addr with
  | ok svr =>
    have := get_ok hs hg
    exact hcont svr this.1 this.2
  | error e =>
    cases e with
    | serverNotFound =>
      dsimp only
      cases hn : newServer zi req.addr req.queryPort with
      | none => exact safe_pure _
      | some svr =>
        have ha := newServer_addr hn
        exact hcont svr (by rw [ha]) (by rw [ha]; exact hok)
    | serverExists => exact safe_pure _
    | instanceNotFound => exact safe_pure _
    | queueEmpty => exact safe_pure _
    | storage => exact safe_pure _

theorem renew_safe (id srcIp : Nat) : Safe (fun k => k / 65536 = srcIp) (renew id srcIp) := by
  unfold renew
  refine Safe.call _ _ trivial ?_
  intro s now hs
  have hexec : (Call.exec (.insGet id) s now).2 = s.insGet id := rfl
  rw [hexec]
  cases hg : s.insGet id with
  | error e => exact safe_pure _
  | ok inst =>
    have hi := insGet_ok hs hg
    dsimp only
    split
    · exact safe_pure _
    · rename_i hip
      have hip' : inst.addr.ip = srcIp := by
        by_cases h : inst.addr.ip = srcIp
        · exact h
        · exact absurd h hip
      refine Safe.call _ _ trivial ?_
      intro s1 now1 hs1
      have hexec1 : (Call.exec (.getServer inst.addr) s1 now1).2 = s1.get inst.addr := rfl
      rw [hexec1]
      cases hg1 : s1.get inst.addr with
      | error e => exact safe_pure _
      | ok svr =>
        have hsv := get_ok hs1 hg1
        dsimp only
        refine Safe.call _ _ trivial ?_
        intro s2 now2 _
        refine Safe.call _ _ ⟨?_, hsv.2, ?_⟩ ?_
        · show svr.addr.key / 65536 = srcIp
          rw [hsv.1, Addr.key_div hi.1]; exact hip'
        · intro ex r h; cases h; rfl
        · intro s3 now3 _
          cases (Call.exec (.updateServer { svr with refreshedAt := some (Call.exec Call.now s2 now2).2 }
            fun s => some { s with refreshedAt := some (Call.exec Call.now s2 now2).2 }) s3 now3).2 with
          | error e => exact safe_pure _
          | ok _ => exact safe_pure _

theorem remove_safe {P : Nat → Prop} (id : Nat) (a : Addr) (hP : P a.key) : Safe P (remove id a) := by
  unfold remove
  refine Safe.call _ _ trivial ?_
  intro s now hs
  have hexec : (Call.exec (.getServer a) s now).2 = s.get a := rfl
  rw [hexec]
  cases hg : s.get a with
  | error e => cases e <;> exact safe_pure _
  | ok svr =>
    have hsv := get_ok hs hg
    dsimp only
    refine Safe.call _ _ trivial ?_
    intro s1 now1 _
    have hexec1 : (Call.exec (.insGet id) s1 now1).2 = s1.insGet id := rfl
    rw [hexec1]
    cases s1.insGet id with
    | error e => cases e <;> exact safe_pure _
    | ok inst =>
      dsimp only
      split
      · exact safe_pure _
      · refine Safe.call _ _ ⟨by rw [hsv.1]; exact hP, ?_⟩ ?_
        · intro ex r h; cases h; rfl
        · intro s2 now2 _
          cases (Call.exec (.removeServer svr fun s => some s) s2 now2).2 with
          | error e => exact safe_pure _
          | ok _ =>
            refine Safe.call _ _ trivial ?_
            intro s3 now3 _
            cases (Call.exec (.insRemove inst.id) s3 now3).2 with
            | error e => exact safe_pure _
            | ok _ => exact safe_pure _

end Swat4.Rep
