import Swat4.Lemmas.QueuePopBound
/-!
# Who made an enqueue record, and with which bounds (helper lemmas for C12 `never_queued_explicit_sys`)

The ghost enqueue record `GEnq` keeps the ready time but not whether it was explicit (`after = some a`) or the clock the
producer read (`after = none`).  `EnqBy g e` recovers it from the producing client: client `e.client` is the call
`enqueue e.probe after e.expires`, and **if `after` is explicit then `e.ready` is that time and it is strictly before an
explicit expiry**.  `EnqInv` = `EnqBy` for every record + "a started `enqueue` call whose explicit bounds say *drop* is
never at `.start`" is an invariant of the ghost system (`EnqInv.run`), proved by a direct induction on the events
(the abstract step relation `GStep` forgets the pc an instance / enqueue call moves to, so it cannot carry this).
-/
namespace Swat4
open Std

/-- a started `enqueue` call with explicit bounds `after ≥ before` is never about to execute its batch -/
def NoDropAtStart (s : QSys) : Prop :=
  ∀ (i : Nat) (c : QClient), s.clients[i]? = some c → c.started = true → c.pc = .start →
    ∀ (p : Probe) (a b : Int), c.op = .enqueue p (some a) (some b) → a < b

/-- the producing call of an enqueue record, and what an explicit ready time implies -/
def EnqBy (s : QSys) (e : GEnq) : Prop :=
  ∃ (c : QClient) (after : GoTime), s.clients[e.client]? = some c ∧ c.op = .enqueue e.probe after e.expires ∧
    ∀ a, after = some a → e.ready = a ∧ ∀ b, e.expires = some b → a < b

structure EnqInv (g : GSys) : Prop where
  nodrop : NoDropAtStart g.sys
  owner : ∀ e ∈ g.enqs, EnqBy g.sys e

/-- the pc an `enqueue` call moves to is never `.start` -/
theorem qstep_enqueue_ne_start (st : RStore) (clock : Int) (fresh : Nat) (p : Probe) (af bf : GoTime) (pc : QPC) (hl : pc.live = true) :
    (qstep st clock fresh (.enqueue p af bf) pc).2.1 ≠ .start := by
  cases pc with
  | start => simp [qstep]
  | clearExec ids => simp [qstep]
  | popRange got e => simp [qstep]
  | popExec got e ids scs => simp [qstep]
  | done r => cases hl

theorem start_nodrop {c0 : QClient} {clock : Int}
    (h0 : c0.started = true → c0.pc = .start → ∀ (p : Probe) (a b : Int), c0.op = .enqueue p (some a) (some b) → a < b) :
    (c0.start clock).pc = .start → ∀ (p : Probe) (a b : Int), (c0.start clock).op = .enqueue p (some a) (some b) → a < b := by
  unfold QClient.start
  by_cases hs : c0.started = true
  · simp only [hs, if_true]; exact h0 hs
  · simp only [hs]
    intro hpc p a b hop
    simp only [Bool.false_eq_true, if_false] at hpc hop
    rw [hop] at hpc
    simp only [QOp.begin] at hpc
    by_cases hab : a ≥ b
    · simp [hab] at hpc
    · omega

theorem EnqBy.set {s : QSys} {e : GEnq} (h : EnqBy s e) {i : Nat} {c0 c' : QClient} (hc0 : s.clients[i]? = some c0)
    (hop : c'.op = c0.op) (s' : QSys) (hs' : s'.clients = s.clients.set i c') : EnqBy s' e := by
  obtain ⟨c, after, hc, hcop, hx⟩ := h
  have hlt : i < s.clients.length := (List.getElem?_eq_some_iff.1 hc0).1
  by_cases hi : i = e.client
  · subst hi
    rw [hc0] at hc; cases hc
    exact ⟨c', after, by rw [hs']; exact List.getElem?_set_self hlt, by rw [hop]; exact hcop, hx⟩
  · exact ⟨c, after, by rw [hs', List.getElem?_set_ne hi]; exact hc, hcop, hx⟩

theorem NoDropAtStart.set {s : QSys} (h : NoDropAtStart s) {i : Nat} {c' : QClient} (s' : QSys)
    (hs' : s'.clients = s.clients.set i c')
    (hc' : c'.started = true → c'.pc = .start → ∀ (p : Probe) (a b : Int), c'.op = .enqueue p (some a) (some b) → a < b) :
    NoDropAtStart s' := by
  intro j c hc
  rw [hs', List.getElem?_set] at hc
  by_cases hij : i = j
  · simp only [hij, if_true] at hc
    split at hc
    · cases hc; exact hc'
    · cases hc
  · simp only [hij, if_false] at hc
    exact h j c hc

/-- one `stepClient` of the ghost system preserves the invariant -/
theorem EnqInv.stepClient {g : GSys} (h : EnqInv g) (i : Nat) (b : Bool) : EnqInv (g.stepClient i b).1 := by
  cases hcur : g.sys.cur i with
  | none =>
    have h1 : (g.stepClient i b).1.sys = g.sys := by
      show (g.sys.stepClient i b).1 = g.sys
      rw [QSys.stepClient_none b hcur]
    have h2 : (g.stepClient i b).1.enqs = g.enqs := by
      show g.enqs ++ g.sys.enqDelta i = g.enqs
      simp [QSys.enqDelta, hcur]
    exact ⟨h1 ▸ h.nodrop, by rw [h1, h2]; exact h.owner⟩
  | some c =>
    obtain ⟨c0, hc0, hd, rfl⟩ := QSys.cur_some hcur
    have hlt : i < g.sys.clients.length := (List.getElem?_eq_some_iff.1 hc0).1
    have hnd0 := start_nodrop (clock := g.sys.clock) (fun hs hpc => h.nodrop i c0 hc0 hs hpc)
    by_cases hl : (c0.start g.sys.clock).pc.live = true
    · -- a command executes
      have hs := QSys.stepClient_live b hcur hl
      have hsys : (g.stepClient i b).1.sys = (g.sys.stepClient i b).1 := rfl
      obtain ⟨c', hcl, hc'op, hc'pc⟩ : ∃ c' : QClient, (g.stepClient i b).1.sys.clients = g.sys.clients.set i c' ∧
          c'.op = (c0.start g.sys.clock).op ∧
          c'.pc = (qstep g.sys.store ((c0.start g.sys.clock).cmdClock g.sys.clock) g.sys.fresh (c0.start g.sys.clock).op
            (c0.start g.sys.clock).pc).2.1 := by
        rw [hsys, hs]
        exact ⟨_, rfl, rfl, rfl⟩
      have hnd : NoDropAtStart (g.stepClient i b).1.sys := by
        refine h.nodrop.set _ hcl ?_
        intro _ hpc p a bb hop
        exfalso
        rw [hc'op] at hop
        rw [hc'pc, hop] at hpc
        exact qstep_enqueue_ne_start _ _ _ _ _ _ _ hl hpc
      refine ⟨hnd, ?_⟩
      intro e he
      have he' : e ∈ g.enqs ++ g.sys.enqDelta i := he
      rcases List.mem_append.1 he' with he' | he'
      · exact (h.owner e he').set hc0 (hc'op.trans (QClient.start_op _ _)) _ hcl
      · -- the new record
        simp only [QSys.enqDelta, hcur] at he'
        cases hpc : (c0.start g.sys.clock).pc with
        | start =>
          cases hop : (c0.start g.sys.clock).op with
          | enqueue p after before =>
            rw [hpc, hop] at he'
            simp only [List.mem_singleton] at he'
            subst he'
            refine ⟨c', after, ?_, hc'op.trans hop, ?_⟩
            · rw [hcl]; exact List.getElem?_set_self hlt
            intro a ha
            subst ha
            exact ⟨rfl, fun bb hb => by subst hb; exact hnd0 hpc p a bb hop⟩
          | _ => rw [hpc, hop] at he'; cases he'
        | _ => rw [hpc] at he'; cases he'
    · -- nothing executes: the client is (started and) not live
      have hl' : (c0.start g.sys.clock).pc.live = false := by simpa using hl
      have hsys : (g.stepClient i b).1.sys = { g.sys with clients := g.sys.clients.set i (c0.start g.sys.clock) } := by
        show (g.sys.stepClient i b).1 = _
        rw [QSys.stepClient_stall b hcur hl']
      have hcl : (g.stepClient i b).1.sys.clients = g.sys.clients.set i (c0.start g.sys.clock) := by rw [hsys]
      have henq : (g.stepClient i b).1.enqs = g.enqs := by
        show g.enqs ++ g.sys.enqDelta i = g.enqs
        simp only [QSys.enqDelta, hcur]
        cases hpc : (c0.start g.sys.clock).pc with
        | done r => simp
        | _ => rw [hpc] at hl'; cases hl'
      refine ⟨h.nodrop.set _ hcl (fun _ hpc => hnd0 hpc), ?_⟩
      rw [henq]
      intro e he
      exact (h.owner e he).set hc0 (QClient.start_op _ _) _ hcl

theorem EnqInv.runClient {g : GSys} (h : EnqInv g) (i : Nat) (fuel : Nat) : EnqInv (g.runClient i fuel) := by
  induction fuel generalizing g with
  | zero => exact h
  | succ n ih =>
    unfold GSys.runClient
    have hg : g.stepClient i false = ((g.stepClient i false).1, (g.stepClient i false).2) := rfl
    rw [hg]
    cases (g.stepClient i false).2 with
    | none => exact h.stepClient i false
    | some l => exact ih (h.stepClient i false)

/-- every event preserves the invariant -/
theorem EnqInv.step {g : GSys} (h : EnqInv g) (e : QSysEv) : EnqInv (g.step e) := by
  cases e with
  | tick d => exact ⟨h.nodrop, h.owner⟩
  | step i => exact h.stepClient i false
  | run i => exact h.runClient i 200
  | crashBefore i =>
    simp only [GSys.step]
    cases hc : g.sys.clients[i]? with
    | none => exact h
    | some c0 =>
      simp only
      split
      · have hnd0 := start_nodrop (clock := g.sys.clock) (fun hs hpc => h.nodrop i c0 hc hs hpc)
        refine ⟨h.nodrop.set _ rfl (fun _ hpc => hnd0 hpc), ?_⟩
        intro e he
        exact (h.owner e he).set hc (by show (c0.start g.sys.clock).op = c0.op; exact QClient.start_op _ _) _ rfl
      · exact h
  | crashAfter i =>
    simp only [GSys.step]
    cases hc : g.sys.clients[i]? with
    | none => exact h
    | some c0 =>
      simp only
      split
      · exact h.stepClient i true
      · exact h

theorem EnqInv.run {g : GSys} (h : EnqInv g) (es : List QSysEv) : EnqInv (g.run es) := by
  induction es generalizing g with
  | nil => exact h
  | cons e es ih => exact ih (h.step e)

/-- admissible initial systems satisfy it: no record yet, and a started client stands at `op.begin` -/
theorem EnqInv.init {s : QSys} (h : s.Init) : EnqInv (GSys.init s) := by
  refine ⟨?_, fun e he => by cases he⟩
  intro i c hc hs hpc p a b hop
  have hb := (h.clients c (List.mem_of_getElem? hc)).2 hs
  rw [hop] at hb
  rw [hb] at hpc
  simp only [QOp.begin] at hpc
  by_cases hab : a ≥ b
  · simp [hab] at hpc
  · omega

end Swat4
