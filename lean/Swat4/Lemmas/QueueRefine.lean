import Swat4.Lemmas.QueueSys
import Swat4.Lemmas.StoreRefine
import Swat4.Model.Prog
import Swat4.Lemmas.StoreDrv
/-!
# The Redis-level instance table and probe queue refine the specification (helper lemmas of C11, part 2)

* `RelI` / `RelQ`: abstraction relations for `instances:*` and `probes:*` against `AbsState.instances` / `AbsState.queue`;
* every call of `Model/QueueMachine.lean` (`runQ`) run alone refines `AbsState.insAdd / insRemove / insClear / enqueue / popMany`,
  the reads `HGET instances:items`, `HLEN instances:items`, `ZCARD probes:queue` refine `insGet / insCount / qCount`;
* histories of such calls (`QCall`, `runHistQM`, `runHistQS`) agree item by item.

Nothing in `Model/` or `Spec/` is modified.
-/
namespace Swat4
open Std RStore

/-! ## abstraction relations -/

/-- instance table: the specification's row of `id` is the stored address with its `instances:updated` score -/
def RelI (st : RStore) (a : AbsState) : Prop :=
  ∀ id : Nat, a.instances[id]? = (st.insItems[id]?).map fun ad => (ad, (st.insUpdated[id]?).getD 0)

/-- the queue item the store holds under `id`: needs both the `probes:items` field and the `probes:queue` member -/
def storedItem (st : RStore) (id : Nat) : Option QItem :=
  match st.pItems[id]?, st.pQueue[id]? with
  | some pe, some r => some ⟨id, pe.1, r, pe.2⟩
  | _, _ => none

/-- probe queue as a finite map `id ↦ item`: looking up `id` in the specification's list gives the stored item,
no id occurs twice, and `nextId` is strictly above every id in the store -/
structure RelQ (st : RStore) (a : AbsState) : Prop where
  find : ∀ id : Nat, a.queue.find? (fun x => x.id == id) = storedItem st id
  nodup : (a.queue.map (·.id)).Nodup
  ltItems : ∀ id : Nat, id ∈ st.pItems → id < a.nextId
  ltQueue : ∀ id : Nat, id ∈ st.pQueue → id < a.nextId

theorem storedItem_eq_some {st : RStore} {id : Nat} {x : QItem} :
    storedItem st id = some x ↔
      x.id = id ∧ st.pItems[id]? = some (x.probe, x.expires) ∧ st.pQueue[id]? = some x.ready := by
  unfold storedItem
  obtain ⟨xi, xp, xr, xe⟩ := x
  cases h1 : st.pItems[id]? with
  | none => simp
  | some pe =>
    cases h2 : st.pQueue[id]? with
    | none => simp
    | some r =>
      obtain ⟨p, e⟩ := pe
      simp only [Option.some.injEq, QItem.mk.injEq, Prod.mk.injEq]
      constructor
      · rintro ⟨rfl, rfl, rfl, rfl⟩; exact ⟨rfl, ⟨rfl, rfl⟩, rfl⟩
      · rintro ⟨rfl, ⟨rfl, rfl⟩, rfl⟩; exact ⟨rfl, rfl, rfl, rfl⟩

/-- in a list without duplicate ids, `find?` by id returns the member with that id -/
theorem find?_id_of_mem {q : List QItem} (hnd : (q.map (·.id)).Nodup) {x : QItem} (hx : x ∈ q) :
    q.find? (fun y => y.id == x.id) = some x := by
  induction q with
  | nil => cases hx
  | cons y ys ih =>
    rw [List.map_cons, List.nodup_cons] at hnd
    rcases List.mem_cons.1 hx with rfl | hx'
    · exact List.find?_cons_of_pos (by simp)
    · have hne : ¬ y.id = x.id := fun e => hnd.1 (e ▸ List.mem_map.2 ⟨x, hx', rfl⟩)
      rw [List.find?_cons_of_neg (by simpa using hne)]
      exact ih hnd.2 hx'

/-- membership form of `RelQ.find` -/
theorem RelQ.mem_iff {st : RStore} {a : AbsState} (h : RelQ st a) (x : QItem) :
    x ∈ a.queue ↔ st.pItems[x.id]? = some (x.probe, x.expires) ∧ st.pQueue[x.id]? = some x.ready := by
  constructor
  · intro hx
    have := find?_id_of_mem h.nodup hx
    rw [h.find x.id] at this
    exact (storedItem_eq_some.1 this).2
  · intro hx
    have : storedItem st x.id = some x := storedItem_eq_some.2 ⟨rfl, hx⟩
    rw [← h.find x.id] at this
    exact List.mem_of_find?_eq_some this

/-- `RelQ` from its membership form -/
theorem RelQ.of_mem {st : RStore} {a : AbsState} (hnd : (a.queue.map (·.id)).Nodup)
    (hmem : ∀ x : QItem, x ∈ a.queue ↔ st.pItems[x.id]? = some (x.probe, x.expires) ∧ st.pQueue[x.id]? = some x.ready)
    (h1 : ∀ id : Nat, id ∈ st.pItems → id < a.nextId) (h2 : ∀ id : Nat, id ∈ st.pQueue → id < a.nextId) : RelQ st a := by
  refine ⟨?_, hnd, h1, h2⟩
  intro id
  cases hf : a.queue.find? (fun x => x.id == id) with
  | some y =>
    have hy : y ∈ a.queue := List.mem_of_find?_eq_some hf
    have hid : y.id = id := by simpa using List.find?_some hf
    exact (storedItem_eq_some.2 ⟨hid, hid ▸ (hmem y).1 hy⟩).symm
  | none =>
    cases hs : storedItem st id with
    | none => rfl
    | some y =>
      obtain ⟨hid, hy⟩ := storedItem_eq_some.1 hs
      have hy' : y ∈ a.queue := (hmem y).2 (hid ▸ hy)
      have := List.find?_eq_none.1 hf y hy'
      simp [hid] at this

/-- the two formulations of the queue relation are the same -/
theorem relQ_iff_mem (st : RStore) (a : AbsState) :
    RelQ st a ↔
      (a.queue.map (·.id)).Nodup ∧
      (∀ x : QItem, x ∈ a.queue ↔ st.pItems[x.id]? = some (x.probe, x.expires) ∧ st.pQueue[x.id]? = some x.ready) ∧
      (∀ id : Nat, id ∈ st.pItems → id < a.nextId) ∧ (∀ id : Nat, id ∈ st.pQueue → id < a.nextId) :=
  ⟨fun h => ⟨h.nodup, h.mem_iff, h.ltItems, h.ltQueue⟩, fun h => RelQ.of_mem h.1 h.2.1 h.2.2.1 h.2.2.2⟩

theorem relI_empty : RelI {} {} := by
  intro id; simp

theorem relQ_empty : RelQ {} {} := by
  refine ⟨fun id => ?_, by simp, fun id h => by simp at h, fun id h => by simp at h⟩
  simp [storedItem]

/-- the instance part of the specification state a store stands for -/
def absInstances (st : RStore) : ExtTreeMap Nat (Addr × Int) :=
  st.insItems.map fun id ad => (ad, (st.insUpdated[id]?).getD 0)

theorem RelI.instances_eq {st : RStore} {a : AbsState} (h : RelI st a) : a.instances = absInstances st := by
  apply ExtTreeMap.ext_getElem?
  intro k
  rw [h k, absInstances, ExtTreeMap.getElem?_map]

theorem RelQ.lt {st : RStore} {a : AbsState} (h : RelQ st a) {x : QItem} (hx : x ∈ a.queue) : x.id < a.nextId :=
  h.ltQueue x.id (mem_iff_getElem?_some.2 ⟨_, ((h.mem_iff x).1 hx).2⟩)

/-! ## `runQ` for the one- and two-command calls -/

theorem runQ_done (st : RStore) (clock : Int) (fresh : Nat) (op : QOp) (r : QResult) (fuel : Nat) :
    runQ st clock fresh op (.done r) fuel = (st, .done r, fresh) := by
  cases fuel <;> simp [runQ, QPC.live]

theorem runQ_succ_live (st : RStore) (clock : Int) (fresh : Nat) (op : QOp) (pc : QPC) (fuel : Nat) (hl : pc.live = true) :
    runQ st clock fresh op pc (fuel + 1) =
      runQ (qstep st clock fresh op pc).1 clock (if (qstep st clock fresh op pc).2.2.1 then fresh + 1 else fresh) op
        (qstep st clock fresh op pc).2.1 fuel := by
  rw [runQ]
  simp only [hl, if_true]

theorem runQ_insAdd (st : RStore) (clock : Int) (fresh id : Nat) (ad : Addr) {fuel : Nat} (hf : 1 ≤ fuel) :
    runQ st clock fresh (.insAdd id ad) (QOp.insAdd id ad).begin fuel = (st.insAddBatch id ad clock, .done .unit, fresh) := by
  obtain ⟨n, rfl⟩ : ∃ n, fuel = n + 1 := ⟨fuel - 1, by omega⟩
  show runQ st clock fresh (.insAdd id ad) .start (n + 1) = _
  rw [runQ_succ_live _ _ _ _ _ _ rfl]
  simp only [qstep]
  exact runQ_done _ _ _ _ _ _

theorem runQ_insRemove (st : RStore) (clock : Int) (fresh id : Nat) {fuel : Nat} (hf : 1 ≤ fuel) :
    runQ st clock fresh (.insRemove id) (QOp.insRemove id).begin fuel = (st.insRemoveBatch id, .done .unit, fresh) := by
  obtain ⟨n, rfl⟩ : ∃ n, fuel = n + 1 := ⟨fuel - 1, by omega⟩
  show runQ st clock fresh (.insRemove id) .start (n + 1) = _
  rw [runQ_succ_live _ _ _ _ _ _ rfl]
  simp only [qstep]
  exact runQ_done _ _ _ _ _ _

/-- the ids `Clear` selects: `ZRANGEBYSCORE instances:updated -inf (b|+inf)` -/
def clearIds (st : RStore) (before : GoTime) : List Nat := zrangeUpTo st.insUpdated before none

theorem runQ_insClear (st : RStore) (clock : Int) (fresh : Nat) (before : GoTime) {fuel : Nat} (hf : 2 ≤ fuel) :
    runQ st clock fresh (.insClear before) (QOp.insClear before).begin fuel =
      if (clearIds st before).isEmpty then (st, .done (.count 0), fresh)
      else (st.insClearBatch (clearIds st before),
            .done (.count ((clearIds st before).filter fun id => st.insItems.contains id).length), fresh) := by
  obtain ⟨n, rfl⟩ : ∃ n, fuel = n + 2 := ⟨fuel - 2, by omega⟩
  show runQ st clock fresh (.insClear before) .start (n + 1 + 1) = _
  have hq : qstep st clock fresh (.insClear before) .start =
      if (clearIds st before).isEmpty then (st, .done (.count 0), false, "zrange:ok")
      else (st, .clearExec (clearIds st before), false, "zrange:ok") := rfl
  rw [runQ_succ_live _ _ _ _ _ _ rfl, hq]
  by_cases he : (clearIds st before).isEmpty = true
  · simp only [he, if_true]
    exact runQ_done _ _ _ _ _ _
  · simp only [he]
    rw [runQ_succ_live _ _ _ _ _ _ rfl]
    simp only [qstep]
    exact runQ_done _ _ _ _ _ _

theorem runQ_enqueue_drop (st : RStore) (clock : Int) (fresh : Nat) (p : Probe) (af bf : Int) (h : af ≥ bf) (fuel : Nat) :
    runQ st clock fresh (.enqueue p (some af) (some bf)) (QOp.enqueue p (some af) (some bf)).begin fuel = (st, .done .unit, fresh) := by
  simp only [QOp.begin, h, if_true]
  exact runQ_done _ _ _ _ _ _

theorem runQ_enqueue (st : RStore) (clock : Int) (fresh : Nat) (p : Probe) (after before : GoTime)
    (h : (QOp.enqueue p after before).begin = .start) {fuel : Nat} (hf : 1 ≤ fuel) :
    runQ st clock fresh (.enqueue p after before) (QOp.enqueue p after before).begin fuel =
      (st.enqueueBatch fresh p before (readyOf after clock), .done .unit, fresh + 1) := by
  obtain ⟨n, rfl⟩ : ∃ n, fuel = n + 1 := ⟨fuel - 1, by omega⟩
  have hq : qstep st clock fresh (.enqueue p after before) .start =
      (st.enqueueBatch fresh p before (readyOf after clock), .done .unit, true, "exec:ok") := rfl
  rw [h, runQ_succ_live _ _ _ _ _ _ rfl, hq]
  simp only [if_true]
  exact runQ_done _ _ _ _ _ _

/-! ## instance table -/

theorem relI_insAddBatch {st : RStore} {a : AbsState} (h : RelI st a) (clock : Int) (i : Instance) :
    RelI (st.insAddBatch i.id i.addr clock) (a.insAdd clock i) := by
  intro k
  show (a.instances.insert i.id (i.addr, clock))[k]? =
    ((st.insItems.insert i.id i.addr)[k]?).map fun ad => (ad, ((st.insUpdated.insert i.id clock)[k]?).getD 0)
  rw [ExtTreeMap.getElem?_insert, ExtTreeMap.getElem?_insert, ExtTreeMap.getElem?_insert]
  by_cases hk : i.id = k
  · simp [hk]
  · simp only [compare_eq_iff_eq, hk, if_false]
    exact h k

theorem relI_insRemoveBatch {st : RStore} {a : AbsState} (h : RelI st a) (id : Nat) :
    RelI (st.insRemoveBatch id) (a.insRemove id) := by
  intro k
  show (a.instances.erase id)[k]? =
    ((st.insItems.erase id)[k]?).map fun ad => (ad, ((st.insUpdated.erase id)[k]?).getD 0)
  rw [ExtTreeMap.getElem?_erase, ExtTreeMap.getElem?_erase, ExtTreeMap.getElem?_erase]
  by_cases hk : id = k
  · simp [hk]
  · simp only [compare_eq_iff_eq, hk, if_false]
    exact h k

/-- `Add` (`HSET` + `ZADD`, one batch) -/
theorem insAdd_refines_aux {st : RStore} {a : AbsState} (h : RelI st a) (clock : Int) (fresh : Nat) (i : Instance)
    {fuel : Nat} (hf : 1 ≤ fuel) :
    (runQ st clock fresh (.insAdd i.id i.addr) (QOp.insAdd i.id i.addr).begin fuel).2.1 = .done .unit ∧
    RelI (runQ st clock fresh (.insAdd i.id i.addr) (QOp.insAdd i.id i.addr).begin fuel).1 (a.insAdd clock i) ∧
    (runQ st clock fresh (.insAdd i.id i.addr) (QOp.insAdd i.id i.addr).begin fuel).2.2 = fresh := by
  rw [runQ_insAdd _ _ _ _ _ hf]
  exact ⟨rfl, relI_insAddBatch h clock i, rfl⟩

theorem insRemove_refines_aux {st : RStore} {a : AbsState} (h : RelI st a) (clock : Int) (fresh id : Nat)
    {fuel : Nat} (hf : 1 ≤ fuel) :
    (runQ st clock fresh (.insRemove id) (QOp.insRemove id).begin fuel).2.1 = .done .unit ∧
    RelI (runQ st clock fresh (.insRemove id) (QOp.insRemove id).begin fuel).1 (a.insRemove id) ∧
    (runQ st clock fresh (.insRemove id) (QOp.insRemove id).begin fuel).2.2 = fresh := by
  rw [runQ_insRemove _ _ _ _ hf]
  exact ⟨rfl, relI_insRemoveBatch h id, rfl⟩

/-- `Get` at the Redis level (`HGET instances:items`) -/
def insGetM (st : RStore) (id : Nat) : Except RErr Instance :=
  match st.insItems[id]? with
  | some ad => .ok ⟨id, ad⟩
  | none => .error .instanceNotFound

theorem insGet_refines_aux {st : RStore} {a : AbsState} (h : RelI st a) (id : Nat) : insGetM st id = a.insGet id := by
  unfold insGetM AbsState.insGet
  rw [h id]
  cases st.insItems[id]? <;> rfl

/-- `Count` = `HLEN instances:items` -/
theorem insCount_refines_aux {st : RStore} {a : AbsState} (h : RelI st a) : st.insItems.size = a.insCount := by
  unfold AbsState.insCount
  rw [h.instances_eq, absInstances, ExtTreeMap.size_map]

/-! ### `Clear` -/

theorem insClearBatch_insItems (ids : List Nat) (st : RStore) (k : Nat) :
    (st.insClearBatch ids).insItems[k]? = if k ∈ ids then none else st.insItems[k]? := by
  unfold insClearBatch
  induction ids generalizing st with
  | nil => simp
  | cons id ids ih =>
    rw [List.foldl_cons, ih]
    by_cases h1 : k ∈ ids
    · simp [h1]
    · by_cases h2 : id = k
      · subst h2; simp [insRemoveBatch]
      · have h3 : ¬ k = id := fun e => h2 e.symm
        simp [h1, h2, h3, insRemoveBatch, ExtTreeMap.getElem?_erase]

theorem insClearBatch_insUpdated (ids : List Nat) (st : RStore) (k : Nat) :
    (st.insClearBatch ids).insUpdated[k]? = if k ∈ ids then none else st.insUpdated[k]? := by
  unfold insClearBatch
  induction ids generalizing st with
  | nil => simp
  | cons id ids ih =>
    rw [List.foldl_cons, ih]
    by_cases h1 : k ∈ ids
    · simp [h1]
    · by_cases h2 : id = k
      · subst h2; simp [insRemoveBatch]
      · have h3 : ¬ k = id := fun e => h2 e.symm
        simp [h1, h2, h3, insRemoveBatch, ExtTreeMap.getElem?_erase]

theorem eraseFold_getElem? {β : Type} (l : List (Nat × β)) (m : ExtTreeMap Nat β) (k : Nat) :
    (l.foldl (fun m kv => m.erase kv.1) m)[k]? = if k ∈ l.map (·.1) then none else m[k]? := by
  induction l generalizing m with
  | nil => simp
  | cons x xs ih =>
    rw [List.foldl_cons, ih]
    by_cases h1 : k ∈ xs.map (·.1)
    · simp [h1]
    · by_cases h2 : x.1 = k
      · subst h2; simp
      · have h3 : ¬ k = x.1 := fun e => h2 e.symm
        simp only [h1, if_false, List.map_cons, List.mem_cons, h3, false_or, ExtTreeMap.getElem?_erase, compare_eq_iff_eq, h2]

/-- the rows the specification's `insClear` removes -/
def doomed (a : AbsState) (before : GoTime) : List (Nat × Addr × Int) :=
  a.instances.toList.filter fun kv => match before with | none => true | some b => kv.2.2 ≤ b

theorem insClear_eq (a : AbsState) (before : GoTime) :
    a.insClear before =
      ({ a with instances := (doomed a before).foldl (fun m kv => m.erase kv.1) a.instances }, (doomed a before).length) := rfl

theorem mem_doomed_keys {a : AbsState} {before : GoTime} {k : Nat} :
    k ∈ (doomed a before).map (·.1) ↔ ∃ v : Addr × Int, a.instances[k]? = some v ∧ ∀ b, before = some b → v.2 ≤ b := by
  unfold doomed
  simp only [List.mem_map, List.mem_filter]
  constructor
  · rintro ⟨⟨k', v⟩, ⟨hm, hp⟩, rfl⟩
    refine ⟨v, (ExtTreeMap.mem_toList_iff_getElem?_eq_some).1 hm, ?_⟩
    intro b hb; subst hb; simpa using hp
  · rintro ⟨v, hv, hp⟩
    refine ⟨(k, v), ⟨(ExtTreeMap.mem_toList_iff_getElem?_eq_some).2 hv, ?_⟩, rfl⟩
    cases before with
    | none => rfl
    | some b => simpa using hp b rfl

theorem mem_clearIds {st : RStore} {before : GoTime} {k : Nat} :
    k ∈ clearIds st before ↔ ∃ r : Int, st.insUpdated[k]? = some r ∧ ∀ b, before = some b → r ≤ b :=
  mem_zall

/-- on a consistent store related to `a`, `ZRANGEBYSCORE instances:updated` selects the keys of the doomed rows -/
theorem clearIds_iff_doomed {st : RStore} {a : AbsState} (hc : Consistent st) (h : RelI st a) (before : GoTime) (k : Nat) :
    k ∈ clearIds st before ↔ k ∈ (doomed a before).map (·.1) := by
  rw [mem_clearIds, mem_doomed_keys, h k]
  constructor
  · rintro ⟨r, hr, hb⟩
    obtain ⟨ad, had⟩ := mem_iff_getElem?_some.1 ((hc.ins k).1 (mem_iff_getElem?_some.2 ⟨r, hr⟩))
    refine ⟨(ad, r), by simp [had, hr], hb⟩
  · rintro ⟨v, hv, hb⟩
    cases had : st.insItems[k]? with
    | none => rw [had] at hv; cases hv
    | some ad =>
      obtain ⟨r, hr⟩ := mem_iff_getElem?_some.1 ((hc.ins k).2 (mem_iff_getElem?_some.2 ⟨ad, had⟩))
      rw [had, hr] at hv
      simp only [Option.map_some, Option.getD_some, Option.some.injEq] at hv
      subst hv
      exact ⟨r, hr, hb⟩

theorem clearIds_perm_doomed {st : RStore} {a : AbsState} (hc : Consistent st) (h : RelI st a) (before : GoTime) :
    (clearIds st before).Perm ((doomed a before).map (·.1)) := by
  have h1 : (clearIds st before).Nodup := zrangeUpTo_nodup _ _ _
  have h2 : ((doomed a before).map (·.1)).Nodup :=
    ((List.filter_sublist (l := a.instances.toList)).map (·.1)).nodup (nodup_keys_toList _)
  exact (List.perm_ext_iff_of_nodup h1 h2).2 (clearIds_iff_doomed hc h before)

theorem relI_insClearBatch {st : RStore} {a : AbsState} (hc : Consistent st) (h : RelI st a) (before : GoTime) :
    RelI (st.insClearBatch (clearIds st before)) (a.insClear before).1 := by
  intro k
  rw [insClear_eq]
  show ((doomed a before).foldl (fun m kv => m.erase kv.1) a.instances)[k]? = _
  rw [eraseFold_getElem?, insClearBatch_insItems, insClearBatch_insUpdated]
  by_cases hk : k ∈ clearIds st before
  · have hk' := (clearIds_iff_doomed hc h before k).1 hk
    rw [if_pos hk, if_pos hk, if_pos hk']; rfl
  · have hk' := fun hh => hk ((clearIds_iff_doomed hc h before k).2 hh)
    rw [if_neg hk, if_neg hk, if_neg hk']
    exact h k

/-- `HDEL`'s reply on a consistent store: every selected id has a field -/
theorem clear_count {st : RStore} {a : AbsState} (hc : Consistent st) (h : RelI st a) (before : GoTime) :
    ((clearIds st before).filter fun id => st.insItems.contains id).length = (a.insClear before).2 := by
  rw [insClear_eq]
  show _ = (doomed a before).length
  have hall : (clearIds st before).filter (fun id => st.insItems.contains id) = clearIds st before := by
    rw [List.filter_eq_self]
    intro id hid
    obtain ⟨r, hr, _⟩ := mem_clearIds.1 hid
    exact ExtTreeMap.contains_iff_mem.2 ((hc.ins id).1 (mem_iff_getElem?_some.2 ⟨r, hr⟩))
  rw [hall, (clearIds_perm_doomed hc h before).length_eq, List.length_map]

theorem insClear_refines_aux {st : RStore} {a : AbsState} (hc : Consistent st) (h : RelI st a) (clock : Int) (fresh : Nat)
    (before : GoTime) {fuel : Nat} (hf : 2 ≤ fuel) :
    (runQ st clock fresh (.insClear before) (QOp.insClear before).begin fuel).2.1 = .done (.count (a.insClear before).2) ∧
    RelI (runQ st clock fresh (.insClear before) (QOp.insClear before).begin fuel).1 (a.insClear before).1 ∧
    (runQ st clock fresh (.insClear before) (QOp.insClear before).begin fuel).2.2 = fresh := by
  rw [runQ_insClear _ _ _ _ hf]
  by_cases he : (clearIds st before).isEmpty = true
  · rw [if_pos he]
    have hnil : clearIds st before = [] := List.isEmpty_iff.1 he
    have hd : doomed a before = [] := by
      have := (clearIds_perm_doomed hc h before).length_eq
      rw [hnil, List.length_map] at this
      exact List.eq_nil_of_length_eq_zero this.symm
    rw [insClear_eq, hd]
    exact ⟨rfl, h, rfl⟩
  · rw [if_neg he]
    refine ⟨?_, relI_insClearBatch hc h before, rfl⟩
    show QPC.done (.count _) = _
    rw [clear_count hc h before]

/-! ## probe queue: `enqueue`, `Count` -/

theorem enqueue_drop (a : AbsState) (clock : Int) (p : Probe) (af bf : Int) (h : af ≥ bf) :
    a.enqueue clock p (some af) (some bf) = a := by
  simp [AbsState.enqueue, h]

theorem enqueue_keep (a : AbsState) (clock : Int) (p : Probe) (after before : GoTime)
    (h : (QOp.enqueue p after before).begin = .start) :
    a.enqueue clock p after before =
      { a with queue := a.queue ++ [⟨a.nextId, p, readyOf after clock, before⟩], nextId := a.nextId + 1 } := by
  cases after with
  | none => cases before <;> simp [AbsState.enqueue, readyOf]
  | some af =>
    cases before with
    | none => simp [AbsState.enqueue, readyOf]
    | some bf =>
      have hlt : ¬ af ≥ bf := by
        intro hge
        simp [QOp.begin, hge] at h
      simp [AbsState.enqueue, readyOf, hlt]

/-- `begin` of an enqueue is `start` unless it is dropped -/
theorem enqueue_begin_cases (p : Probe) (after before : GoTime) :
    (QOp.enqueue p after before).begin = .start ∨
    ∃ af bf : Int, after = some af ∧ before = some bf ∧ af ≥ bf := by
  cases after with
  | none => left; rfl
  | some af =>
    cases before with
    | none => left; rfl
    | some bf =>
      by_cases h : af ≥ bf
      · exact Or.inr ⟨af, bf, rfl, rfl, h⟩
      · left; simp [QOp.begin, h]

theorem relQ_enqueueBatch {st : RStore} {a : AbsState} (h : RelQ st a) (p : Probe) (before : GoTime) (r : Int) :
    RelQ (st.enqueueBatch a.nextId p before r)
      { a with queue := a.queue ++ [⟨a.nextId, p, r, before⟩], nextId := a.nextId + 1 } := by
  have hget1 : ∀ k : Nat, (st.enqueueBatch a.nextId p before r).pItems[k]? =
      if a.nextId = k then some (p, before) else st.pItems[k]? := by
    intro k
    show (st.pItems.insert a.nextId (p, before))[k]? = _
    rw [ExtTreeMap.getElem?_insert]; simp only [compare_eq_iff_eq]
  have hget2 : ∀ k : Nat, (st.enqueueBatch a.nextId p before r).pQueue[k]? =
      if a.nextId = k then some r else st.pQueue[k]? := by
    intro k
    show (st.pQueue.insert a.nextId r)[k]? = _
    rw [ExtTreeMap.getElem?_insert]; simp only [compare_eq_iff_eq]
  apply RelQ.of_mem
  · show ((a.queue ++ [(⟨a.nextId, p, r, before⟩ : QItem)]).map (·.id)).Nodup
    rw [List.map_append, List.nodup_append]
    refine ⟨h.nodup, by simp, ?_⟩
    intro x hx y hy
    obtain ⟨x', hx', rfl⟩ := List.mem_map.1 hx
    have := h.lt hx'
    simp only [List.map_cons, List.map_nil, List.mem_singleton] at hy
    omega
  · intro x
    show x ∈ a.queue ++ [(⟨a.nextId, p, r, before⟩ : QItem)] ↔ _
    rw [List.mem_append, List.mem_singleton, hget1, hget2]
    by_cases hx : a.nextId = x.id
    · rw [if_pos hx, if_pos hx]
      constructor
      · rintro (hq | rfl)
        · exact absurd (h.lt hq) (by omega)
        · exact ⟨rfl, rfl⟩
      · intro ⟨h1, h2⟩
        right
        obtain ⟨xi, xp, xr, xe⟩ := x
        simp only [Option.some.injEq, Prod.mk.injEq] at h1 h2
        simp only at hx
        obtain ⟨rfl, rfl⟩ := h1
        subst h2; subst hx
        rfl
    · rw [if_neg hx, if_neg hx, ← h.mem_iff x]
      constructor
      · rintro (hq | rfl)
        · exact hq
        · exact absurd rfl hx
      · exact Or.inl
  · intro id hid
    show id < a.nextId + 1
    have : id ∈ st.pItems.insert a.nextId (p, before) := hid
    rw [ExtTreeMap.mem_insert] at this
    rcases this with h1 | h1
    · simp only [compare_eq_iff_eq] at h1; omega
    · have := h.ltItems id h1; omega
  · intro id hid
    show id < a.nextId + 1
    have : id ∈ st.pQueue.insert a.nextId r := hid
    rw [ExtTreeMap.mem_insert] at this
    rcases this with h1 | h1
    · simp only [compare_eq_iff_eq] at h1; omega
    · have := h.ltQueue id h1; omega

/-- `enqueue` (`HSET` + `ZADD`, one batch; none when dropped) -/
theorem enqueue_refines_aux {st : RStore} {a : AbsState} (h : RelQ st a) (clock : Int) (fresh : Nat) (hfr : fresh = a.nextId)
    (p : Probe) (after before : GoTime) {fuel : Nat} (hf : 1 ≤ fuel) :
    (runQ st clock fresh (.enqueue p after before) (QOp.enqueue p after before).begin fuel).2.1 = .done .unit ∧
    RelQ (runQ st clock fresh (.enqueue p after before) (QOp.enqueue p after before).begin fuel).1 (a.enqueue clock p after before) ∧
    (runQ st clock fresh (.enqueue p after before) (QOp.enqueue p after before).begin fuel).2.2 = (a.enqueue clock p after before).nextId := by
  rcases enqueue_begin_cases p after before with hb | ⟨af, bf, rfl, rfl, hge⟩
  · rw [runQ_enqueue _ _ _ _ _ _ hb hf, enqueue_keep _ _ _ _ _ hb]
    subst hfr
    exact ⟨rfl, relQ_enqueueBatch h p before _, rfl⟩
  · rw [runQ_enqueue_drop _ _ _ _ _ _ hge, enqueue_drop _ _ _ _ _ hge]
    exact ⟨rfl, h, hfr⟩

/-- `Count` = `ZCARD probes:queue` -/
theorem qCount_refines_aux {st : RStore} {a : AbsState} (hc : Consistent st) (h : RelQ st a) : st.pQueue.size = a.qCount := by
  unfold AbsState.qCount
  have hperm : (a.queue.map (·.id)).Perm (st.pQueue.toList.map (·.1)) := by
    refine (List.perm_ext_iff_of_nodup h.nodup (nodup_keys_toList _)).2 ?_
    intro id
    rw [mem_keys_toList]
    constructor
    · intro hid
      obtain ⟨x, hx, rfl⟩ := List.mem_map.1 hid
      exact mem_iff_getElem?_some.2 ⟨_, ((h.mem_iff x).1 hx).2⟩
    · intro hid
      obtain ⟨r, hr⟩ := mem_iff_getElem?_some.1 hid
      obtain ⟨pe, hpe⟩ := mem_iff_getElem?_some.1 ((hc.prb id).1 hid)
      exact List.mem_map.2 ⟨⟨id, pe.1, r, pe.2⟩, (h.mem_iff _).2 ⟨hpe, hr⟩, rfl⟩
  have := hperm.length_eq
  rw [List.length_map, List.length_map, ExtTreeMap.length_toList] at this
  exact this.symm

/-! ## probe queue: the order of `readySorted` is the order of `ZRANGEBYSCORE` -/

/-- `(id, score)` of a queue item -/
def qkey (x : QItem) : Nat × Int := (x.id, x.ready)

/-- the insertion step of `readySorted` -/
def qins (x : QItem) (acc : List QItem) : List QItem :=
  let (lo, rest) := acc.span fun y => y.ready < x.ready ∨ (y.ready = x.ready ∧ y.id < x.id)
  lo ++ x :: rest

theorem readySorted_eq (q : List QItem) (now : Int) :
    AbsState.readySorted q now = (q.filter fun x => x.ready ≤ now).foldr qins [] := rfl

theorem qins_eq (x : QItem) (acc : List QItem) :
    qins x acc = acc.takeWhile (fun y => y.ready < x.ready ∨ (y.ready = x.ready ∧ y.id < x.id)) ++
      x :: acc.dropWhile (fun y => y.ready < x.ready ∨ (y.ready = x.ready ∧ y.id < x.id)) := by
  unfold qins
  rw [span_eq]

theorem qins_perm (x : QItem) (acc : List QItem) : (qins x acc).Perm (x :: acc) := by
  rw [qins_eq]
  have := @List.perm_middle _ x (acc.takeWhile fun y => y.ready < x.ready ∨ (y.ready = x.ready ∧ y.id < x.id))
    (acc.dropWhile fun y => y.ready < x.ready ∨ (y.ready = x.ready ∧ y.id < x.id))
  rw [List.takeWhile_append_dropWhile] at this
  exact this

theorem qsort_perm (l : List QItem) : (l.foldr qins []).Perm l := by
  induction l with
  | nil => exact List.Perm.refl _
  | cons x xs ih => exact (qins_perm x _).trans (List.Perm.cons x ih)

theorem readySorted_perm (q : List QItem) (now : Int) :
    (AbsState.readySorted q now).Perm (q.filter fun x => x.ready ≤ now) := by
  rw [readySorted_eq]; exact qsort_perm _

theorem mem_readySorted {q : List QItem} {now : Int} {x : QItem} :
    x ∈ AbsState.readySorted q now ↔ x ∈ q ∧ x.ready ≤ now := by
  rw [(readySorted_perm q now).mem_iff, List.mem_filter]
  simp

theorem qins_map (x : QItem) (acc : List QItem) : (qins x acc).map qkey = zins (qkey x) (acc.map qkey) := by
  rw [qins_eq, zins_eq, List.map_append, List.map_cons, List.takeWhile_map, List.dropWhile_map]
  rfl

theorem qsort_map (l : List QItem) : (l.foldr qins []).map qkey = zsort (l.map qkey) := by
  induction l with
  | nil => rfl
  | cons x xs ih =>
    show (qins x (xs.foldr qins [])).map qkey = zins (qkey x) (zsort (xs.map qkey))
    rw [qins_map, ih]

theorem readySorted_map (q : List QItem) (now : Int) :
    (AbsState.readySorted q now).map qkey = zsort ((q.filter fun x => x.ready ≤ now).map qkey) := by
  rw [readySorted_eq]; exact qsort_map _

theorem nodup_of_map {α β : Type} (f : α → β) {l : List α} (h : (l.map f).Nodup) : l.Nodup := by
  rw [List.Nodup, List.pairwise_map] at h
  exact h.imp (fun hne e => hne (congrArg f e))

/-- the sort does not depend on the order of its input (no two entries share an id) -/
theorem zsort_congr {l1 l2 : List (Nat × Int)} (hp : l1.Perm l2) (hnd : (l1.map (·.1)).Nodup) : zsort l1 = zsort l2 := by
  have hnd2 : (l2.map (·.1)).Nodup := ((hp.map (·.1)).nodup_iff).1 hnd
  refine List.Perm.eq_of_pairwise (le := zlt) ?_ (zsort_sorted l1 hnd) (zsort_sorted l2 hnd2)
    ((zsort_perm l1).trans (hp.trans (zsort_perm l2).symm))
  intro x y _ _ hxy hyx
  unfold zlt at hxy hyx
  omega

theorem ready_keys_nodup {a : AbsState} (hnd : (a.queue.map (·.id)).Nodup) (now : Int) :
    (((a.queue.filter fun x => x.ready ≤ now).map qkey).map (·.1)).Nodup := by
  rw [List.map_map]
  exact ((List.filter_sublist (l := a.queue)).map _).nodup hnd

/-- the ready part of the specification's queue, as `(id, score)` pairs, is the selected part of `probes:queue` -/
theorem ready_perm_zsel {st : RStore} {a : AbsState} (hc : Consistent st) (h : RelQ st a) (now : Int) :
    ((a.queue.filter fun x => x.ready ≤ now).map qkey).Perm (zsel st.pQueue (some now)) := by
  refine (List.perm_ext_iff_of_nodup (nodup_of_map (·.1) (ready_keys_nodup h.nodup now))
    (nodup_of_map (·.1) (zsel_keys_nodup _ _))).2 ?_
  rintro ⟨id, r⟩
  rw [mem_zsel, List.mem_map]
  constructor
  · rintro ⟨x, hx, hk⟩
    rw [List.mem_filter] at hx
    cases hk
    refine ⟨((h.mem_iff x).1 hx.1).2, ?_⟩
    intro b hb; cases hb
    simpa using hx.2
  · rintro ⟨hr, hb⟩
    have hr' : st.pQueue[id]? = some r := hr
    obtain ⟨pe, hpe⟩ := mem_iff_getElem?_some.1 ((hc.prb id).1 (mem_iff_getElem?_some.2 ⟨r, hr'⟩))
    refine ⟨⟨id, pe.1, r, pe.2⟩, ?_, rfl⟩
    rw [List.mem_filter]
    refine ⟨(h.mem_iff _).2 ⟨hpe, hr'⟩, ?_⟩
    have : r ≤ now := hb now rfl
    simpa using this

/-- **`ZRANGEBYSCORE probes:queue -inf now LIMIT 0 k` returns the ids of the first `k` ready items** of the specification,
in the same order -/
theorem zrange_eq_batch {st : RStore} {a : AbsState} (hc : Consistent st) (h : RelQ st a) (now : Int) (k : Nat) :
    zrangeUpTo st.pQueue (some now) (some k) = ((AbsState.readySorted a.queue now).take k).map (·.id) := by
  rw [zrangeUpTo_eq]
  show ((zsort (zsel st.pQueue (some now))).map (·.1)).take k = _
  rw [← zsort_congr (ready_perm_zsel hc h now) (ready_keys_nodup h.nodup now), ← readySorted_map, List.map_map,
    List.map_take]
  rfl

/-- … and the `WITHSCORES` reply carries their ready times -/
theorem zrange_eq_batchS {st : RStore} {a : AbsState} (hc : Consistent st) (h : RelQ st a) (now : Int) (k : Nat) :
    zrangeUpToS st.pQueue (some now) (some k) = ((AbsState.readySorted a.queue now).take k).map qkey := by
  rw [zrangeUpToS_eq]
  show (zsort (zsel st.pQueue (some now))).take k = _
  rw [← zsort_congr (ready_perm_zsel hc h now) (ready_keys_nodup h.nodup now), ← readySorted_map, List.map_take]

/-- the specification's delivery order is non-decreasing in the ready time -/
theorem readySorted_sorted {q : List QItem} (hnd : (q.map (·.id)).Nodup) (now : Int) :
    (AbsState.readySorted q now).Pairwise fun x y => x.ready ≤ y.ready := by
  have h1 : ((AbsState.readySorted q now).map qkey).Pairwise zlt := by
    rw [readySorted_map]
    refine zsort_sorted _ ?_
    rw [List.map_map]
    exact ((List.filter_sublist (l := q)).map _).nodup hnd
  rw [List.pairwise_map] at h1
  refine h1.imp ?_
  intro x y hxy
  unfold zlt qkey at hxy
  simp only at hxy
  omega

/-! ## probe queue: one pop round -/

/-- the specification's queue after a batch was taken out -/
def dropBatch (q batch : List QItem) : List QItem := q.filter fun x => !(batch.any fun b => b.id == x.id)

theorem mem_dropBatch {q batch : List QItem} {x : QItem} :
    x ∈ dropBatch q batch ↔ x ∈ q ∧ x.id ∉ batch.map (·.id) := by
  unfold dropBatch
  rw [List.mem_filter]
  have : (batch.any fun b => b.id == x.id) = true ↔ x.id ∈ batch.map (·.id) := by
    rw [List.any_eq_true, List.mem_map]
    constructor
    · rintro ⟨b, hb, he⟩; exact ⟨b, hb, by simpa using he⟩
    · rintro ⟨b, hb, he⟩; exact ⟨b, hb, by simpa using he⟩
  constructor
  · rintro ⟨h1, h2⟩
    refine ⟨h1, fun hh => ?_⟩
    rw [this.2 hh] at h2; cases h2
  · rintro ⟨h1, h2⟩
    refine ⟨h1, ?_⟩
    cases hb : (batch.any fun b => b.id == x.id) with
    | false => rfl
    | true => exact absurd (this.1 hb) h2

theorem relQ_popBatch {st : RStore} {a : AbsState} (h : RelQ st a) (batch : List QItem) :
    RelQ (st.popBatch (batch.map (·.id))).1 { a with queue := dropBatch a.queue batch } := by
  apply RelQ.of_mem
  · exact ((List.filter_sublist (l := a.queue)).map _).nodup h.nodup
  · intro x
    show x ∈ dropBatch a.queue batch ↔ _
    rw [mem_dropBatch, popBatch_pItems, popBatch_pQueue, h.mem_iff x]
    by_cases hx : x.id ∈ batch.map (·.id)
    · rw [if_pos hx, if_pos hx]; simp [hx]
    · rw [if_neg hx, if_neg hx]; simp [hx]
  · intro id hid
    obtain ⟨v, hv⟩ := mem_iff_getElem?_some.1 hid
    rw [popBatch_pItems] at hv
    split at hv
    · cases hv
    · exact h.ltItems id (mem_iff_getElem?_some.2 ⟨v, hv⟩)
  · intro id hid
    obtain ⟨v, hv⟩ := mem_iff_getElem?_some.1 hid
    rw [popBatch_pQueue] at hv
    split at hv
    · cases hv
    · exact h.ltQueue id (mem_iff_getElem?_some.2 ⟨v, hv⟩)

/-- `HMGET probes:items` of a batch of queued items returns their payloads, none missing -/
theorem batch_items {st : RStore} {a : AbsState} (h : RelQ st a) (batch : List QItem) (hsub : ∀ x ∈ batch, x ∈ a.queue) :
    ((batch.map (·.id)).filterMap fun id => st.pItems[id]?) = batch.map fun x => (x.probe, x.expires) := by
  rw [List.filterMap_map]
  exact filterMap_eq_map_of_some _ _ _ (fun x hx => ((h.mem_iff x).1 (hsub x hx)).1)

/-- … each with the score of the `WITHSCORES` reply at the same position -/
theorem batch_itemsS {st : RStore} {a : AbsState} (h : RelQ st a) (batch : List QItem) (hsub : ∀ x ∈ batch, x ∈ a.queue) :
    popItemsS st (batch.map (·.id)) ((batch.map qkey).map (·.2)) = batch.map fun x => ((x.probe, x.expires), x.ready) := by
  induction batch with
  | nil => rfl
  | cons x xs ih =>
    simp only [List.map_cons]
    rw [popItemsS_cons, ((h.mem_iff x).1 (hsub x List.mem_cons_self)).1, ih (fun y hy => hsub y (List.mem_cons_of_mem _ hy))]
    rfl

/-- the items of a batch that are returned (not expired) -/
def keptOf (batch : List QItem) (now : Int) : List QItem := batch.filter fun x => !x.expired now

/-- the machine's bookkeeping after a pop batch is the specification's -/
theorem popNext_batch (n : Int) (got : List (Probe × Int)) (e : Nat) (batch : List QItem) (clock : Int) (hne : batch ≠ []) :
    popNext n got e (batch.map fun x => ((x.probe, x.expires), x.ready)) clock =
      if (got ++ (keptOf batch clock).map fun x => (x.probe, x.ready)).length < n.toNat then
        .popRange (got ++ (keptOf batch clock).map fun x => (x.probe, x.ready)) (e + (batch.length - (keptOf batch clock).length))
      else .done (.probes (finishBatch (got ++ (keptOf batch clock).map fun x => (x.probe, x.ready)))
        (e + (batch.length - (keptOf batch clock).length))) := by
  have hk : (batch.map fun x => ((x.probe, x.expires), x.ready)).filter (fun it => !expiredAt it.1.2 clock) =
      (keptOf batch clock).map fun x => ((x.probe, x.expires), x.ready) := by
    rw [List.filter_map]; rfl
  unfold popNext
  have hne' : (batch.map fun x => ((x.probe, x.expires), x.ready)).isEmpty = false := by
    rw [List.isEmpty_map]; cases batch with
    | nil => exact absurd rfl hne
    | cons _ _ => rfl
  simp only [hne', Bool.false_eq_true, if_false, hk, List.map_map, List.length_map]
  rfl

/-! ## probe queue: `PopMany` -/

theorem popManyLoop_succ (now : Int) (n fuel : Nat) (q : List QItem) (got : List Probe) (exp : Nat) :
    AbsState.popManyLoop now n (fuel + 1) q got exp =
      if got.length ≥ n then (q, got, exp)
      else if ((AbsState.readySorted q now).take (n - got.length)).isEmpty then (q, got, exp)
      else AbsState.popManyLoop now n fuel (dropBatch q ((AbsState.readySorted q now).take (n - got.length)))
        (got ++ (keptOf ((AbsState.readySorted q now).take (n - got.length)) now).map (·.probe))
        (exp + (((AbsState.readySorted q now).take (n - got.length)).length -
          (keptOf ((AbsState.readySorted q now).take (n - got.length)) now).length)) := rfl

theorem popManyLoop_full (now : Int) (n fuel : Nat) (q : List QItem) (got : List Probe) (exp : Nat) (h : got.length ≥ n) :
    AbsState.popManyLoop now n fuel q got exp = (q, got, exp) := by
  cases fuel with
  | zero => rfl
  | succ f => rw [popManyLoop_succ, if_pos h]

/-- outcome of the machine's run against the outcome of the specification's loop -/
def PopOut (st0 : RStore) (out : RStore × QPC × Nat) (a : AbsState) (res : List QItem × List Probe × Nat) (fresh : Nat) : Prop :=
  out.2.1 = .done (.probes res.2.1 res.2.2) ∧ RelQ out.1 { a with queue := res.1 } ∧ Consistent out.1 ∧ out.2.2 = fresh ∧
  out.1.insItems = st0.insItems ∧ out.1.insUpdated = st0.insUpdated

theorem popBatch_insItems (st : RStore) (ids : List Nat) : (st.popBatch ids).1.insItems = st.insItems := by
  show (ids.foldl (fun s id => { s with pItems := s.pItems.erase id, pQueue := s.pQueue.erase id }) st).insItems = _
  induction ids generalizing st with
  | nil => rfl
  | cons id ids ih => rw [List.foldl_cons, ih]

theorem popBatch_insUpdated (st : RStore) (ids : List Nat) : (st.popBatch ids).1.insUpdated = st.insUpdated := by
  show (ids.foldl (fun s id => { s with pItems := s.pItems.erase id, pQueue := s.pQueue.erase id }) st).insUpdated = _
  induction ids generalizing st with
  | nil => rfl
  | cons id ids ih => rw [List.foldl_cons, ih]

theorem dropBatch_length_lt {q batch : List QItem} {x : QItem} (hx : x ∈ batch) (hq : x ∈ q) :
    (dropBatch q batch).length < q.length := by
  unfold dropBatch
  rw [List.length_filter_lt_length_iff_exists]
  refine ⟨x, hq, ?_⟩
  have : (batch.any fun b => b.id == x.id) = true := List.any_eq_true.2 ⟨x, hx, by simp⟩
  simp [this]

/-- the rounds of `PopMany` (range, batch, range, …) against `popManyLoop`, from any intermediate point.  The machine holds
the fetched items with their scores (`got`), the specification the payloads (`got.map (·.1)`).  Run alone, the rounds fetch
in score order (`hsorted`) and everything still queued is not earlier than anything fetched (`hbelow`): the final stable
sort of the machine is the identity (`finishBatch_of_sorted`) -/
theorem popLoop_refines (clock : Int) (n : Int) (fresh : Nat) :
    ∀ (fuelA : Nat) (st : RStore) (a : AbsState) (got : List (Probe × Int)) (e : Nat) (fuelM : Nat),
      Consistent st → RelQ st a → got.length < n.toNat → a.queue.length < fuelA → 2 * a.queue.length + 1 ≤ fuelM →
      got.Pairwise (fun x y => x.2 ≤ y.2) → (∀ p ∈ got, ∀ x ∈ a.queue, p.2 ≤ x.ready) →
      PopOut st (runQ st clock fresh (.popMany n) (.popRange got e) fuelM) a
        (AbsState.popManyLoop clock n.toNat fuelA a.queue (got.map (·.1)) e) fresh := by
  intro fuelA
  induction fuelA with
  | zero => intro st a got e fuelM _ _ _ hlen; omega
  | succ fuelA ih =>
    intro st a got e fuelM hc h hgot hlen hfuel hsorted hbelow
    obtain ⟨m, rfl⟩ : ∃ m, fuelM = m + 1 := ⟨fuelM - 1, by omega⟩
    obtain ⟨q1, q2, q3⟩ := qstep_popRange st clock fresh n got e
    have hwant : (n - (got.length : Int)).toNat = n.toNat - got.length := by omega
    have hnge : ¬ got.length ≥ n.toNat := by omega
    have hgl : (got.map (·.1)).length = got.length := List.length_map _
    have hfr : (if false = true then fresh + 1 else fresh) = fresh := rfl
    rw [runQ_succ_live _ _ _ _ _ _ rfl, q1, q2, q3, hfr, hwant, zrange_eq_batch hc h, zrange_eq_batchS hc h, List.isEmpty_map,
      popManyLoop_succ, hgl, if_neg hnge]
    have hrs := readySorted_sorted h.nodup clock
    rw [← List.take_append_drop (n.toNat - got.length) (AbsState.readySorted a.queue clock)] at hrs
    have hmemrs : ∀ x, x ∈ AbsState.readySorted a.queue clock →
        x ∈ (AbsState.readySorted a.queue clock).take (n.toNat - got.length) ∨
        x ∈ (AbsState.readySorted a.queue clock).drop (n.toNat - got.length) := by
      intro x hx
      rw [← List.take_append_drop (n.toNat - got.length) (AbsState.readySorted a.queue clock)] at hx
      exact List.mem_append.1 hx
    generalize hbatch : (AbsState.readySorted a.queue clock).take (n.toNat - got.length) = batch at hrs hmemrs
    have hsub : ∀ x ∈ batch, x ∈ a.queue := by
      intro x hx
      rw [← hbatch] at hx
      exact (mem_readySorted.1 ((List.take_sublist _ _).subset hx)).1
    have hready : ∀ x ∈ batch, x.ready ≤ clock := by
      intro x hx
      rw [← hbatch] at hx
      exact (mem_readySorted.1 ((List.take_sublist _ _).subset hx)).2
    by_cases hb : batch.isEmpty = true
    · rw [if_pos hb, if_pos hb, runQ_done, finishBatch_of_sorted got hsorted]
      exact ⟨rfl, h, hc, rfl, rfl, rfl⟩
    · rw [if_neg hb, if_neg hb]
      have hne : batch ≠ [] := fun e => hb (by rw [e]; rfl)
      obtain ⟨x, hx⟩ := List.exists_mem_of_ne_nil batch hne
      have hpos : 0 < a.queue.length := List.length_pos_of_mem (hsub x hx)
      obtain ⟨m', rfl⟩ : ∃ m', m = m' + 1 := ⟨m - 1, by omega⟩
      obtain ⟨p1, p2, p3⟩ := qstep_popExec st clock fresh n got e (batch.map (·.id)) ((batch.map qkey).map (·.2))
      have hc' := popBatch_consistent hc (batch.map (·.id))
      have h' := relQ_popBatch h batch
      have hlt' := dropBatch_length_lt hx (hsub x hx)
      -- the new items are in order, after the old ones, and before everything that stays queued
      have hsorted' : (got ++ (keptOf batch clock).map fun x => (x.probe, x.ready)).Pairwise (fun x y => x.2 ≤ y.2) := by
        rw [List.pairwise_append]
        refine ⟨hsorted, ?_, ?_⟩
        · rw [List.pairwise_map]
          exact ((List.pairwise_append.1 hrs).1).sublist List.filter_sublist
        · intro p hp y hy
          obtain ⟨z, hz, rfl⟩ := List.mem_map.1 hy
          exact hbelow p hp z (hsub z (List.mem_filter.1 hz).1)
      have hbelow' : ∀ p ∈ got ++ (keptOf batch clock).map (fun x => (x.probe, x.ready)),
          ∀ y ∈ dropBatch a.queue batch, p.2 ≤ y.ready := by
        intro p hp y hy
        obtain ⟨hyq, hyb⟩ := mem_dropBatch.1 hy
        rcases List.mem_append.1 hp with hp | hp
        · exact hbelow p hp y hyq
        · obtain ⟨z, hz, rfl⟩ := List.mem_map.1 hp
          have hzb : z ∈ batch := (List.mem_filter.1 hz).1
          show z.ready ≤ y.ready
          by_cases hyr : y.ready ≤ clock
          · rcases hmemrs y (mem_readySorted.2 ⟨hyq, hyr⟩) with hy1 | hy1
            · exact absurd (List.mem_map.2 ⟨y, hy1, rfl⟩) hyb
            · exact (List.pairwise_append.1 hrs).2.2 z hzb y hy1
          · have := hready z hzb
            omega
      have hmap : (got ++ (keptOf batch clock).map fun x => (x.probe, x.ready)).map (·.1) =
          got.map (·.1) ++ (keptOf batch clock).map (·.probe) := by
        rw [List.map_append, List.map_map]; rfl
      have hlenEq : (got ++ (keptOf batch clock).map fun x => (x.probe, x.ready)).length =
          (got.map (·.1) ++ (keptOf batch clock).map (·.probe)).length := by
        rw [← hmap, List.length_map]
      rw [runQ_succ_live _ _ _ _ _ _ rfl, p1, p2, p3, hfr, batch_itemsS h batch hsub, popNext_batch n got e batch clock hne, ← hmap]
      by_cases hlt : (got ++ (keptOf batch clock).map fun x => (x.probe, x.ready)).length < n.toNat
      · rw [if_pos hlt]
        obtain ⟨r1, r2, r3, r4, r5, r6⟩ := ih _ _ _ _ m' hc' h' hlt (by show (dropBatch a.queue batch).length < fuelA; omega)
          (by show 2 * (dropBatch a.queue batch).length + 1 ≤ m'; omega) hsorted' hbelow'
        exact ⟨r1, r2, r3, r4, r5.trans (popBatch_insItems _ _), r6.trans (popBatch_insUpdated _ _)⟩
      · rw [if_neg hlt, runQ_done, popManyLoop_full _ _ _ _ _ _ (by rw [List.length_map]; omega),
          finishBatch_of_sorted _ hsorted']
        exact ⟨rfl, h', hc', rfl, popBatch_insItems _ _, popBatch_insUpdated _ _⟩

/-- **`PopMany(n)` run alone refines `AbsState.popMany`**: same probes in the same order, same expired count, related
states.  `2·ZCARD + 1` commands always suffice. -/
theorem popMany_refines_aux {st : RStore} {a : AbsState} (hc : Consistent st) (h : RelQ st a) (clock : Int) (fresh : Nat)
    (n : Int) {fuel : Nat} (hf : 2 * st.pQueue.size + 1 ≤ fuel) :
    (runQ st clock fresh (.popMany n) (QOp.popMany n).begin fuel).2.1 =
      .done (.probes (a.popMany clock n).2.1 (a.popMany clock n).2.2) ∧
    RelQ (runQ st clock fresh (.popMany n) (QOp.popMany n).begin fuel).1 (a.popMany clock n).1 ∧
    Consistent (runQ st clock fresh (.popMany n) (QOp.popMany n).begin fuel).1 ∧
    (runQ st clock fresh (.popMany n) (QOp.popMany n).begin fuel).2.2 = fresh ∧
    (runQ st clock fresh (.popMany n) (QOp.popMany n).begin fuel).1.insItems = st.insItems ∧
    (runQ st clock fresh (.popMany n) (QOp.popMany n).begin fuel).1.insUpdated = st.insUpdated := by
  by_cases hn : n ≤ 0
  · have hb : (QOp.popMany n).begin = .done (.probes [] 0) := by simp [QOp.begin, hn]
    have ha : a.popMany clock n = (a, [], 0) := by simp [AbsState.popMany, hn]
    rw [hb, runQ_done, ha]
    exact ⟨rfl, h, hc, rfl, rfl, rfl⟩
  · have hb : (QOp.popMany n).begin = .popRange [] 0 := by simp [QOp.begin, hn]
    have ha : a.popMany clock n =
        ({ a with queue := (AbsState.popManyLoop clock n.toNat (a.queue.length + 1) a.queue [] 0).1 },
          (AbsState.popManyLoop clock n.toNat (a.queue.length + 1) a.queue [] 0).2.1,
          (AbsState.popManyLoop clock n.toNat (a.queue.length + 1) a.queue [] 0).2.2) := by
      simp [AbsState.popMany, hn]
    have hsz := qCount_refines_aux hc h
    unfold AbsState.qCount at hsz
    rw [hb, ha]
    exact popLoop_refines clock n fresh (a.queue.length + 1) st a [] 0 fuel hc h (by simp; omega) (by omega) (by omega)
      List.Pairwise.nil (fun p hp => by cases hp)

/-! ## histories of instance-table / probe-queue calls -/

theorem RelI.congr {st st' : RStore} {a a' : AbsState} (h : RelI st a) (h1 : st'.insItems = st.insItems)
    (h2 : st'.insUpdated = st.insUpdated) (h3 : a'.instances = a.instances) : RelI st' a' := by
  intro id; rw [h1, h2, h3]; exact h id

theorem RelQ.congr {st st' : RStore} {a a' : AbsState} (h : RelQ st a) (h1 : st'.pItems = st.pItems)
    (h2 : st'.pQueue = st.pQueue) (h3 : a'.queue = a.queue) (h4 : a'.nextId = a.nextId) : RelQ st' a' := by
  refine ⟨?_, by rw [h3]; exact h.nodup, by rw [h1, h4]; exact h.ltItems, by rw [h2, h4]; exact h.ltQueue⟩
  intro id
  have : storedItem st' id = storedItem st id := by unfold storedItem; rw [h1, h2]
  rw [h3, this]; exact h.find id

theorem enqueue_instances (a : AbsState) (clock : Int) (p : Probe) (after before : GoTime) :
    (a.enqueue clock p after before).instances = a.instances := by
  rcases enqueue_begin_cases p after before with hb | ⟨af, bf, rfl, rfl, hge⟩
  · rw [enqueue_keep _ _ _ _ _ hb]
  · rw [enqueue_drop _ _ _ _ _ hge]

theorem popMany_instances (a : AbsState) (clock : Int) (n : Int) : (a.popMany clock n).1.instances = a.instances := by
  unfold AbsState.popMany
  split <;> rfl

theorem popMany_nextId (a : AbsState) (clock : Int) (n : Int) : (a.popMany clock n).1.nextId = a.nextId := by
  unfold AbsState.popMany
  split <;> rfl

/-- an instance-table or probe-queue call, a read of either, or a clock advance between calls -/
inductive QCall where
  | insAdd (i : Instance)
  | insGet (id : Nat)
  | insRemove (id : Nat)
  | insClear (before : GoTime)
  | insCount
  | enqueue (p : Probe) (after before : GoTime)
  | popMany (n : Int)
  | qCount
  | tick (d : Int)

/-- replies, in the reply types of `Call` (`Model/Prog.lean`) -/
inductive QRes where
  | unit (r : Except RErr Unit)
  | ins (r : Except RErr Instance)
  | cleared (r : Except RErr Nat)
  | probes (r : Except RErr (List Probe × Nat))
  | size (n : Nat)
  | hung                              -- the call did not finish within its command budget
  | none

def QRes.ofQ : QResult → QRes
  | .unit => .unit (.ok ())
  | .count n => .cleared (.ok n)
  | .probes ps e => .probes (.ok (ps, e))

/-- sequential state of the Redis-level model: keyspace, clock, next probe id -/
structure SeqQ where
  st : RStore
  clock : Int
  fresh : Nat

/-- command budget of one call: `PopMany` needs at most `2·ZCARD + 1` commands, everything else at most 2 -/
def SeqQ.budget (s : SeqQ) : Nat := 2 * s.st.pQueue.size + 3

/-- run one machine call alone to completion -/
def SeqQ.call (s : SeqQ) (op : QOp) : SeqQ × QRes :=
  let out := runQ s.st s.clock s.fresh op op.begin s.budget
  ({ s with st := out.1, fresh := out.2.2 }, match out.2.1 with | .done r => QRes.ofQ r | _ => .hung)

/-- one call on the Redis-level model -/
def stepQM (s : SeqQ) : QCall → SeqQ × QRes
  | .insAdd i => s.call (.insAdd i.id i.addr)
  | .insGet id => (s, .ins (insGetM s.st id))
  | .insRemove id => s.call (.insRemove id)
  | .insClear before => s.call (.insClear before)
  | .insCount => (s, .size s.st.insItems.size)
  | .enqueue p after before => s.call (.enqueue p after before)
  | .popMany n => s.call (.popMany n)
  | .qCount => (s, .size s.st.pQueue.size)
  | .tick d => ({ s with clock := s.clock + d }, .none)

/-- one call on the specification: `Call.exec`, i.e. exactly what the use-case programs run -/
def stepQS (s : AbsState × Int) : QCall → (AbsState × Int) × QRes
  | .insAdd i => ((((Call.insAdd i).exec s.1 s.2).1, s.2), .unit ((Call.insAdd i).exec s.1 s.2).2)
  | .insGet id => (s, .ins ((Call.insGet id).exec s.1 s.2).2)
  | .insRemove id => ((((Call.insRemove id).exec s.1 s.2).1, s.2), .unit ((Call.insRemove id).exec s.1 s.2).2)
  | .insClear before => ((((Call.insClear before).exec s.1 s.2).1, s.2), .cleared ((Call.insClear before).exec s.1 s.2).2)
  | .insCount => (s, .size s.1.insCount)
  | .enqueue p after before =>
    ((((Call.enqueue p after before).exec s.1 s.2).1, s.2), .unit ((Call.enqueue p after before).exec s.1 s.2).2)
  | .popMany n => ((((Call.popMany n).exec s.1 s.2).1, s.2), .probes ((Call.popMany n).exec s.1 s.2).2)
  | .qCount => (s, .size s.1.qCount)
  | .tick d => ((s.1, s.2 + d), .none)

def runHistQM : SeqQ → List QCall → List QRes
  | _, [] => []
  | s, c :: cs => (stepQM s c).2 :: runHistQM (stepQM s c).1 cs

def runHistQS : AbsState × Int → List QCall → List QRes
  | _, [] => []
  | s, c :: cs => (stepQS s c).2 :: runHistQS (stepQS s c).1 cs

/-- the simulation invariant between calls -/
structure SimQ (m : SeqQ) (s : AbsState × Int) : Prop where
  cons : Consistent m.st
  relI : RelI m.st s.1
  relQ : RelQ m.st s.1
  fresh : m.fresh = s.1.nextId
  clock : m.clock = s.2

theorem simQ_init (clock : Int) : SimQ ⟨{}, clock, 0⟩ ({}, clock) :=
  ⟨consistent_empty, relI_empty, relQ_empty, rfl, rfl⟩

theorem stepQ_sim {m : SeqQ} {s : AbsState × Int} (h : SimQ m s) (c : QCall) :
    SimQ (stepQM m c).1 (stepQS s c).1 ∧ (stepQM m c).2 = (stepQS s c).2 := by
  obtain ⟨st, clock, fresh⟩ := m
  obtain ⟨a, t⟩ := s
  obtain ⟨hc, hI, hQ, hf, hcl⟩ := h
  simp only at hc hI hQ hf hcl
  subst hcl
  have hb : 3 ≤ SeqQ.budget ⟨st, clock, fresh⟩ := by unfold SeqQ.budget; omega
  cases c with
  | insAdd i =>
    have hrun := runQ_insAdd st clock fresh i.id i.addr (fuel := SeqQ.budget ⟨st, clock, fresh⟩) (by omega)
    simp only [stepQM, stepQS, SeqQ.call, hrun, Call.exec]
    exact ⟨⟨insAddBatch_consistent hc _ _ _, relI_insAddBatch hI clock i, hQ.congr rfl rfl rfl rfl, hf, rfl⟩, rfl⟩
  | insGet id =>
    refine ⟨⟨hc, hI, hQ, hf, rfl⟩, ?_⟩
    simp only [stepQM, stepQS, Call.exec, insGet_refines_aux hI]
  | insRemove id =>
    have hrun := runQ_insRemove st clock fresh id (fuel := SeqQ.budget ⟨st, clock, fresh⟩) (by omega)
    simp only [stepQM, stepQS, SeqQ.call, hrun, Call.exec]
    exact ⟨⟨insRemoveBatch_consistent hc _, relI_insRemoveBatch hI id, hQ.congr rfl rfl rfl rfl, hf, rfl⟩, rfl⟩
  | insClear before =>
    obtain ⟨r1, r2, r3⟩ := insClear_refines_aux hc hI clock fresh before (fuel := SeqQ.budget ⟨st, clock, fresh⟩) (by omega)
    have hcons := runQ_consistent hc clock fresh (.insClear before) (QOp.insClear before).begin (SeqQ.budget ⟨st, clock, fresh⟩)
    have hframe : (runQ st clock fresh (.insClear before) (QOp.insClear before).begin (SeqQ.budget ⟨st, clock, fresh⟩)).1.pItems = st.pItems ∧
        (runQ st clock fresh (.insClear before) (QOp.insClear before).begin (SeqQ.budget ⟨st, clock, fresh⟩)).1.pQueue = st.pQueue := by
      rw [runQ_insClear _ _ _ _ (by omega)]
      split
      · exact ⟨rfl, rfl⟩
      · exact ⟨insClearBatch_pItems _ _, insClearBatch_pQueue _ _⟩
    simp only [stepQM, stepQS, SeqQ.call, Call.exec, r1, r3]
    exact ⟨⟨hcons, r2, hQ.congr hframe.1 hframe.2 rfl rfl, hf, rfl⟩, rfl⟩
  | insCount =>
    refine ⟨⟨hc, hI, hQ, hf, rfl⟩, ?_⟩
    simp only [stepQM, stepQS, insCount_refines_aux hI]
  | enqueue p after before =>
    obtain ⟨r1, r2, r3⟩ := enqueue_refines_aux hQ clock fresh hf p after before (fuel := SeqQ.budget ⟨st, clock, fresh⟩) (by omega)
    have hcons := runQ_consistent hc clock fresh (.enqueue p after before) (QOp.enqueue p after before).begin (SeqQ.budget ⟨st, clock, fresh⟩)
    have hframe : (runQ st clock fresh (.enqueue p after before) (QOp.enqueue p after before).begin (SeqQ.budget ⟨st, clock, fresh⟩)).1.insItems = st.insItems ∧
        (runQ st clock fresh (.enqueue p after before) (QOp.enqueue p after before).begin (SeqQ.budget ⟨st, clock, fresh⟩)).1.insUpdated = st.insUpdated := by
      rcases enqueue_begin_cases p after before with hb' | ⟨af, bf, rfl, rfl, hge⟩
      · rw [runQ_enqueue _ _ _ _ _ _ hb' (by omega)]; exact ⟨rfl, rfl⟩
      · rw [runQ_enqueue_drop _ _ _ _ _ _ hge]; exact ⟨rfl, rfl⟩
    simp only [stepQM, stepQS, SeqQ.call, Call.exec, r1]
    exact ⟨⟨hcons, hI.congr hframe.1 hframe.2 (enqueue_instances _ _ _ _ _), r2, r3, rfl⟩, rfl⟩
  | popMany n =>
    obtain ⟨r1, r2, r3, r4, r5, r6⟩ := popMany_refines_aux hc hQ clock fresh n (fuel := SeqQ.budget ⟨st, clock, fresh⟩)
      (by show 2 * st.pQueue.size + 1 ≤ 2 * st.pQueue.size + 3; omega)
    simp only [stepQM, stepQS, SeqQ.call, Call.exec, r1, r4]
    exact ⟨⟨r3, hI.congr r5 r6 (popMany_instances _ _ _), r2, by rw [popMany_nextId]; exact hf, rfl⟩, rfl⟩
  | qCount =>
    refine ⟨⟨hc, hI, hQ, hf, rfl⟩, ?_⟩
    simp only [stepQM, stepQS, qCount_refines_aux hc hQ]
  | tick d => exact ⟨⟨hc, hI, hQ, hf, rfl⟩, rfl⟩

theorem runHistQ_sim {m : SeqQ} {s : AbsState × Int} (h : SimQ m s) (cs : List QCall) :
    runHistQM m cs = runHistQS s cs := by
  induction cs generalizing m s with
  | nil => rfl
  | cons c cs ih =>
    have := stepQ_sim h c
    show (stepQM m c).2 :: runHistQM (stepQM m c).1 cs = (stepQS s c).2 :: runHistQS (stepQS s c).1 cs
    rw [this.2, ih this.1]

end Swat4

/-! ## the drivers' sequential runner for instance / queue calls -/
namespace Swat4.Drv
open Swat4

/-- more fuel does not change a finished run -/
theorem runQ_mono (st : RStore) (clock : Int) (fresh : Nat) (op : QOp) (pc : QPC) (n m : Nat) (r : QResult)
    (h : (runQ st clock fresh op pc n).2.1 = .done r) :
    runQ st clock fresh op pc (n + m) = runQ st clock fresh op pc n := by
  induction n generalizing st fresh pc with
  | zero =>
    have hpc : pc = .done r := h
    subst hpc
    rw [runQ_done, runQ_done]
  | succ n ih =>
    by_cases hl : pc.live = true
    · rw [Nat.add_right_comm, runQ_succ_live _ _ _ _ _ _ hl, runQ_succ_live _ _ _ _ _ _ hl]
      rw [runQ_succ_live _ _ _ _ _ _ hl] at h
      exact ih _ _ _ h
    · obtain ⟨r', rfl⟩ : ∃ r', pc = .done r' := by
        cases pc with
        | done r' => exact ⟨r', rfl⟩
        | _ => exact absurd rfl hl
      rw [runQ_done, runQ_done]

/-- `runQC` without crash is `runQ` plus trace labels: if the machine run alone reaches `done r` within `fuel`
commands, the runner (one more unit of fuel for the final look at the pc) ends in the same keyspace with the same id
counter and renders `r` -/
theorem runQC_none (s : SeqState) (op : QOp) (pc : QPC) (fuel n : Nat) (tr : List String) (r : QResult)
    (hdone : (runQ s.st s.clock s.fresh op pc fuel).2.1 = .done r) :
    (runQC s op pc .none (fuel + 1) n tr).1.st = (runQ s.st s.clock s.fresh op pc fuel).1 ∧
    (runQC s op pc .none (fuel + 1) n tr).1.clock = s.clock ∧
    (runQC s op pc .none (fuel + 1) n tr).1.fresh = (runQ s.st s.clock s.fresh op pc fuel).2.2 ∧
    (runQC s op pc .none (fuel + 1) n tr).2.1 = renderQResult op r := by
  induction fuel generalizing s pc n tr with
  | zero =>
    have hpc : pc = .done r := hdone
    subst hpc
    exact ⟨rfl, rfl, rfl, rfl⟩
  | succ fuel ih =>
    by_cases hl : pc.live = true
    · rw [runQ_succ_live _ _ _ _ _ _ hl] at hdone ⊢
      have hstep : runQC s op pc .none (fuel + 1 + 1) n tr =
          runQC ⟨(qstep s.st s.clock s.fresh op pc).1, s.clock,
              if (qstep s.st s.clock s.fresh op pc).2.2.1 then s.fresh + 1 else s.fresh⟩ op
            (qstep s.st s.clock s.fresh op pc).2.1 .none (fuel + 1) (n + 1)
            (tr ++ [s!"0:{(qstep s.st s.clock s.fresh op pc).2.2.2}"]) := by
        cases pc with
        | done r' => exact absurd hl (by simp [QPC.live])
        | _ => rfl
      rw [hstep]
      exact ih ⟨(qstep s.st s.clock s.fresh op pc).1, s.clock,
          if (qstep s.st s.clock s.fresh op pc).2.2.1 then s.fresh + 1 else s.fresh⟩ _ (n + 1) _ hdone
    · obtain ⟨r', rfl⟩ : ∃ r', pc = .done r' := by
        cases pc with
        | done r' => exact ⟨r', rfl⟩
        | _ => exact absurd rfl hl
      rw [runQ_done] at hdone ⊢
      cases hdone
      exact ⟨rfl, rfl, rfl, rfl⟩

/-- from related states every machine call run alone finishes within its budget -/
theorem call_done {m : SeqQ} {s : AbsState × Int} (h : SimQ m s) (op : QOp) :
    ∃ r, (runQ m.st m.clock m.fresh op op.begin m.budget).2.1 = .done r := by
  have hb : 3 ≤ m.budget := by unfold SeqQ.budget; omega
  cases op with
  | insAdd id ad => exact ⟨_, (insAdd_refines_aux h.relI m.clock m.fresh ⟨id, ad⟩ (fuel := m.budget) (by omega)).1⟩
  | insRemove id => exact ⟨_, (insRemove_refines_aux h.relI m.clock m.fresh id (fuel := m.budget) (by omega)).1⟩
  | insClear before => exact ⟨_, (insClear_refines_aux h.cons h.relI m.clock m.fresh before (fuel := m.budget) (by omega)).1⟩
  | enqueue p after before =>
    exact ⟨_, (enqueue_refines_aux h.relQ m.clock m.fresh h.fresh p after before (fuel := m.budget) (by omega)).1⟩
  | popMany n =>
    exact ⟨_, (popMany_refines_aux h.cons h.relQ m.clock m.fresh n (fuel := m.budget)
      (by show 2 * m.st.pQueue.size + 1 ≤ 2 * m.st.pQueue.size + 3; omega)).1⟩

/-- **the drivers' `runCall` for an instance / queue call, without crash, is the machine call of the history theorem**:
whenever the call's budget `2·ZCARD + 3` fits the runner's 200 (at most 98 queued probes), `runCall` ends in the
keyspace and id counter of `SeqQ.call` and renders its result -/
theorem runCall_q_eq (s : SeqState) (op : QOp) (r : QResult) (hb : 2 * s.st.pQueue.size + 3 ≤ 199)
    (h : (runQ s.st s.clock s.fresh op op.begin (2 * s.st.pQueue.size + 3)).2.1 = .done r) :
    (runCall s (.q op) .none).1.st = (SeqQ.call ⟨s.st, s.clock, s.fresh⟩ op).1.st ∧
    (runCall s (.q op) .none).1.fresh = (SeqQ.call ⟨s.st, s.clock, s.fresh⟩ op).1.fresh ∧
    (runCall s (.q op) .none).1.clock = s.clock ∧
    (runCall s (.q op) .none).2.1 = renderQResult op r := by
  obtain ⟨k, hk⟩ : ∃ k, 199 = 2 * s.st.pQueue.size + 3 + k := ⟨199 - (2 * s.st.pQueue.size + 3), by omega⟩
  have hm := runQ_mono s.st s.clock s.fresh op op.begin (2 * s.st.pQueue.size + 3) k r h
  rw [← hk] at hm
  have hd : (runQ s.st s.clock s.fresh op op.begin 199).2.1 = .done r := by rw [hm]; exact h
  obtain ⟨e1, e2, e3, e4⟩ := runQC_none s op op.begin 199 0 [] r hd
  have e0 : runCall s (.q op) .none = runQC s op op.begin .none (199 + 1) 0 [] := rfl
  rw [e0, e1, e3, hm]
  exact ⟨rfl, rfl, e2, e4⟩

end Swat4.Drv
