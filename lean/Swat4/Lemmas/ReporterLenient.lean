import Swat4.Spec.ReporterLenient
import Swat4.Lemmas.ReporterRefine
/-!
# Lemmas for C06: what the heartbeat scanner accepts, as a grammar over the bytes

* `scan_lenient`: whenever `parseHeartbeatParams` succeeds, the body is a list of well-formed `Item`s followed by
  a trailer, the last terminator possibly missing, and the result is the field map of the pair items;
* `splitPairs_encode` / `decode?_encode`: the independent decoder accepts the encoding of every well-formed message;
* `pairUp_some`: an item list whose skipped strings pair up is the encoding of a strict pair list.
-/
namespace Swat4.Rep
open Swat4 Swat4.Heartbeat Swat4.ReporterSpec

/-! ## C strings -/

theorem nulFree_cons (c : UInt8) (b : Bytes) : nulFree (c :: b) = (decide (c ≠ 0) && nulFree b) := by
  simp [nulFree]

theorem nulFree_cstrHead (b : Bytes) : nulFree (cstrHead b) = true := by
  induction b with
  | nil => rfl
  | cons c b ih =>
    unfold cstrHead
    by_cases hc : c = 0
    · rw [if_pos hc]; rfl
    · rw [if_neg hc, nulFree_cons, ih]; simp [hc]

/-- a byte string either has no NUL (then `ConsumeCString` returns all of it and nothing) or is its head, a NUL
and its tail -/
theorem cstr_cases (b : Bytes) :
    (nulFree b = true ∧ cstrHead b = b ∧ cstrTail b = []) ∨ b = cstrHead b ++ 0 :: cstrTail b := by
  induction b with
  | nil => left; exact ⟨rfl, rfl, rfl⟩
  | cons c b ih =>
    unfold cstrHead cstrTail
    by_cases hc : c = 0
    · right; rw [if_pos hc, if_pos hc, hc]; rfl
    · rw [if_neg hc, if_neg hc]
      cases ih with
      | inl h =>
        left
        refine ⟨by rw [nulFree_cons, h.1]; simp [hc], by rw [h.2.1], h.2.2⟩
      | inr h =>
        right
        rw [List.cons_append, ← h]

theorem cstrTail_length (c : UInt8) (b : Bytes) : (cstrTail (c :: b)).length ≤ b.length := by
  induction b generalizing c with
  | nil =>
    unfold cstrTail
    split <;> simp [cstrTail]
  | cons d b ih =>
    unfold cstrTail
    split
    · simp
    · have := ih d
      simp only [List.length_cons]
      omega

theorem cstrHead_cons_ne (c : UInt8) (b : Bytes) (hc : c ≠ 0) : cstrHead (c :: b) = c :: cstrHead b := by
  show (if c = 0 then [] else c :: cstrHead b) = _
  rw [if_neg hc]

theorem parseParamsAux_nil (fuel : Nat) (m : FieldMap) : parseParamsAux fuel [] m = some m := by
  cases fuel <;> rfl

/-! ## the shape of an accepted body -/

/-- `body` is the strings of `items` followed by `trailer`, or (no trailer) the same with the last NUL missing -/
def Shape (body : Bytes) (items : List Item) (trailer : Bytes) : Prop :=
  body = encItems items ++ trailer ∨ (trailer = [] ∧ body ++ [0] = encItems items)

theorem Shape.skip {rest : Bytes} {items : List Item} {trailer : Bytes} (t : Bytes) (h : Shape rest items trailer) :
    Shape (t ++ 0 :: rest) (.skip t :: items) trailer := by
  cases h with
  | inl h => left; rw [h]; simp [encItems]
  | inr h => right; refine ⟨h.1, ?_⟩; rw [encItems, ← h.2]; simp

theorem Shape.pair {rest : Bytes} {items : List Item} {trailer : Bytes} (k v : Bytes) (h : Shape rest items trailer) :
    Shape (k ++ 0 :: (v ++ 0 :: rest)) (.pair k v :: items) trailer := by
  cases h with
  | inl h => left; rw [h]; simp [encItems]
  | inr h => right; refine ⟨h.1, ?_⟩; rw [encItems, ← h.2]; simp

/-- **What the scanner accepts.** Whenever `parseParamsAux` (with enough fuel) returns a field map, the bytes are
well-formed items followed by a trailer — possibly with the very last NUL missing — and the field map is the one
of the pair items. -/
theorem scan_lenient : ∀ (fuel : Nat) (body : Bytes) (m f : FieldMap), body.length ≤ fuel →
    parseParamsAux fuel body m = some f →
    ∃ (items : List Item) (trailer : Bytes), items.all wfItem = true ∧ trailerOk trailer = true ∧
      Shape body items trailer ∧ f = fieldsOfItems items m := by
  intro fuel
  induction fuel with
  | zero =>
    intro body m f hl h
    have hb : body = [] := List.eq_nil_of_length_eq_zero (by omega)
    subst hb
    simp only [parseParamsAux] at h
    cases h
    exact ⟨[], [], rfl, rfl, Or.inl rfl, rfl⟩
  | succ fuel ih =>
    intro body m f hl h
    cases body with
    | nil =>
      simp only [parseParamsAux] at h
      cases h
      exact ⟨[], [], rfl, rfl, Or.inl rfl, rfl⟩
    | cons c b =>
      rw [parseParamsAux] at h
      by_cases hc : c = 0
      · simp only [if_pos hc] at h
        cases h
        exact ⟨[], c :: b, rfl, by simp [trailerOk, hc], Or.inl rfl, rfl⟩
      · simp only [if_neg hc] at h
        have hname_nf := nulFree_cstrHead (c :: b)
        have hname_ne : (cstrHead (c :: b)).isEmpty = false := by rw [cstrHead_cons_ne c b hc]; rfl
        have hrest_len : (cstrTail (c :: b)).length ≤ fuel := by
          have := cstrTail_length c b
          simp only [List.length_cons] at hl
          omega
        have hcases := cstr_cases (c :: b)
        generalize hn : cstrHead (c :: b) = name at *
        by_cases hr : isReportable name = true
        · -- a reportable name: its value must follow
          simp only [hr, Bool.not_true, Bool.false_eq_true, if_false] at h
          cases hrest : cstrTail (c :: b) with
          | nil => rw [hrest] at h; cases h
          | cons v0 r =>
            rw [hrest] at h
            dsimp only at h
            by_cases hv0 : v0 = 0
            · rw [if_pos hv0] at h; cases h
            · rw [if_neg hv0] at h
              have hbody : c :: b = name ++ 0 :: (v0 :: r) := by
                cases hcases with
                | inl hh => rw [hh.2.2] at hrest; cases hrest
                | inr hh => rw [← hrest]; exact hh
              have hv_nf := nulFree_cstrHead (v0 :: r)
              have hv_ne : (cstrHead (v0 :: r)).isEmpty = false := by rw [cstrHead_cons_ne v0 r hv0]; rfl
              have hwf : wfItem (.pair name (cstrHead (v0 :: r))) = true := by
                simp [wfItem, hr, hname_ne, hname_nf, hv_ne, hv_nf]
              cases cstr_cases (v0 :: r) with
              | inl hh =>
                -- the value is the unterminated last string of the datagram
                rw [hh.2.2, parseParamsAux_nil] at h
                cases h
                refine ⟨[.pair name (cstrHead (v0 :: r))], [], ?_, rfl, ?_, rfl⟩
                · simp only [List.all_cons, hwf, List.all_nil, Bool.and_self]
                · right
                  refine ⟨rfl, ?_⟩
                  rw [hbody, hh.2.1]
                  simp [encItems]
              | inr hh =>
                have hr2_len : (cstrTail (v0 :: r)).length ≤ fuel := by
                  have := cstrTail_length v0 r
                  rw [hrest] at hrest_len
                  simp only [List.length_cons] at hrest_len
                  omega
                obtain ⟨items, trailer, hall, htr, hshape, hf⟩ := ih _ _ _ hr2_len h
                refine ⟨.pair name (cstrHead (v0 :: r)) :: items, trailer, ?_, htr, ?_, ?_⟩
                · simp only [List.all_cons, hwf, hall, Bool.and_self]
                · have := Shape.pair name (cstrHead (v0 :: r)) hshape
                  rw [← hh, ← hbody] at this
                  exact this
                · rw [hf]; rfl
        · -- not a reportable name: skipped alone
          have hr' : isReportable name = false := by simpa using hr
          simp only [hr', Bool.not_false, if_true] at h
          have hwf : wfItem (.skip name) = true := by
            simp [wfItem, hr', hname_ne, hname_nf]
          cases hcases with
          | inl hh =>
            rw [hh.2.2, parseParamsAux_nil] at h
            cases h
            refine ⟨[.skip name], [], ?_, rfl, ?_, rfl⟩
            · simp only [List.all_cons, hwf, List.all_nil, Bool.and_self]
            · right
              refine ⟨rfl, ?_⟩
              rw [hh.2.1]
              simp [encItems]
          | inr hh =>
            obtain ⟨items, trailer, hall, htr, hshape, hf⟩ := ih _ _ _ hrest_len h
            refine ⟨.skip name :: items, trailer, ?_, htr, ?_, ?_⟩
            · simp only [List.all_cons, hwf, hall, Bool.and_self]
            · have := Shape.skip name hshape
              rw [← hh] at this
              exact this
            · rw [hf]; rfl

/-! ## the independent decoder accepts every well-formed encoding -/

theorem contains_zero_append (k x : Bytes) : (k ++ 0 :: x).contains 0 = true := by
  simp

theorem encodePairs_length (kvs : List (Bytes × Bytes)) : kvs.length ≤ (encodePairs kvs).length := by
  induction kvs with
  | nil => simp [encodePairs]
  | cons kv kvs ih =>
    obtain ⟨k, v⟩ := kv
    simp only [encodePairs, List.length_cons, List.length_append]
    omega

theorem splitPairs_encode (trailer : Bytes) (htr : trailerOk trailer = true) :
    ∀ (kvs : List (Bytes × Bytes)), kvs.all wfPair = true → ∀ (fuel : Nat), kvs.length ≤ fuel →
      splitPairs fuel (encodePairs kvs ++ trailer) = some (kvs, trailer) := by
  intro kvs
  induction kvs with
  | nil =>
    intro _ fuel _
    simp only [encodePairs, List.nil_append]
    cases fuel with
    | zero => rfl
    | succ f =>
      cases trailer with
      | nil => rfl
      | cons c t =>
        have hc : c = 0 := by simpa [trailerOk] using htr
        simp only [splitPairs, hc, if_true]
  | cons kv kvs ih =>
    obtain ⟨k, v⟩ := kv
    intro hall fuel hf
    simp only [List.all_cons, Bool.and_eq_true] at hall
    obtain ⟨hwf, hrest⟩ := hall
    simp only [wfPair, Bool.and_eq_true, Bool.not_eq_true', Bool.or_eq_true] at hwf
    obtain ⟨⟨⟨⟨hk0, hkn⟩, hv0⟩, hvn⟩, _⟩ := hwf
    cases fuel with
    | zero => simp at hf
    | succ f =>
      cases k with
      | nil => simp at hk0
      | cons c k' =>
        have hc : c ≠ 0 := by
          simp only [nulFree, List.all_cons, Bool.and_eq_true, decide_eq_true_eq] at hkn; exact hkn.1
        have hbytes : encodePairs ((c :: k', v) :: kvs) ++ trailer
            = c :: (k' ++ 0 :: (v ++ 0 :: (encodePairs kvs ++ trailer))) := by
          simp [encodePairs]
        rw [hbytes]
        have e1 : cstrHead (c :: (k' ++ 0 :: (v ++ 0 :: (encodePairs kvs ++ trailer)))) = c :: k' :=
          cstrHead_append (c :: k') hkn _
        have e2 : cstrTail (c :: (k' ++ 0 :: (v ++ 0 :: (encodePairs kvs ++ trailer))))
            = v ++ 0 :: (encodePairs kvs ++ trailer) := cstrTail_append (c :: k') hkn _
        have e3 : cstrHead (v ++ 0 :: (encodePairs kvs ++ trailer)) = v := cstrHead_append v hvn _
        have e4 : cstrTail (v ++ 0 :: (encodePairs kvs ++ trailer)) = encodePairs kvs ++ trailer :=
          cstrTail_append v hvn _
        have c1 : (c :: (k' ++ 0 :: (v ++ 0 :: (encodePairs kvs ++ trailer)))).contains 0 = true :=
          contains_zero_append (c :: k') _
        have c2 : (v ++ 0 :: (encodePairs kvs ++ trailer)).contains 0 = true := contains_zero_append v _
        rw [splitPairs]
        simp only [if_neg hc, c1, Bool.not_true, Bool.false_eq_true, if_false, e1, e2, c2, e3, e4]
        rw [ih hrest f (by simp only [List.length_cons] at hf; omega)]

/-- the strict decoder returns only messages whose encoding is the datagram and that are well-formed -/
theorem decode?_sound {b : Bytes} {m : Msg} (h : decode? b = some m) : encode m = b ∧ wfMsg m = true := by
  unfold decode? at h
  cases b with
  | nil => cases h
  | cons t body =>
    dsimp only at h
    split at h
    · rename_i m' _
      split at h
      · rename_i hc
        cases h
        exact ⟨hc.1, hc.2⟩
      · cases h
    · cases h

/-- **Completeness of the independent decoder**: it accepts the encoding of every well-formed heartbeat -/
theorem decode?_encodeHeartbeat (d : Hb) (hwf : WfHeartbeat d) : decode? (encodeHeartbeat d) = some (.heartbeat d) := by
  have hwf' := hwf
  simp only [WfHeartbeat, wfHeartbeat, Bool.and_eq_true, beq_iff_eq] at hwf
  obtain ⟨⟨hid, hkvs⟩, htr⟩ := hwf
  unfold decode? encodeHeartbeat
  dsimp only
  have hlen : ¬ (d.id ++ (encodePairs d.kvs ++ d.trailer)).length < 4 := by simp [hid]
  have hdrop : (d.id ++ (encodePairs d.kvs ++ d.trailer)).drop 4 = encodePairs d.kvs ++ d.trailer := List.drop_left' hid
  have htake : (d.id ++ (encodePairs d.kvs ++ d.trailer)).take 4 = d.id := List.take_left' hid
  have hsp := splitPairs_encode d.trailer htr d.kvs hkvs (d.id ++ (encodePairs d.kvs ++ d.trailer)).length (by
    have := encodePairs_length d.kvs
    simp only [List.length_append]; omega)
  simp only [if_true, if_neg hlen, hdrop, htake, hsp, Option.map_some]
  have : encode (.heartbeat ⟨d.id, d.kvs, d.trailer⟩) = 3 :: (d.id ++ (encodePairs d.kvs ++ d.trailer)) := rfl
  rw [if_pos ⟨this, hwf'⟩]

/-- … and a keepalive of exactly five bytes -/
theorem decode?_keepalive (id : Bytes) (hid : id.length = 4) : decode? (0x08 :: id) = some (.keepalive id) := by
  unfold decode?
  dsimp only
  have h1 : ((0x08 : UInt8) = 0x03) = False := by decide
  simp only [h1, if_false, if_true]
  rw [if_pos ⟨rfl, by simp [wfMsg, hid]⟩]

/-! ## item lists against pair lists -/

theorem wfItem_pair {k v : Bytes} (h : wfItem (.pair k v) = true) :
    isReportable k = true ∧ k.isEmpty = false ∧ nulFree k = true ∧ v.isEmpty = false ∧ nulFree v = true := by
  simpa [wfItem, and_assoc] using h

theorem wfItem_skip {t : Bytes} (h : wfItem (.skip t) = true) :
    isReportable t = false ∧ t.isEmpty = false ∧ nulFree t = true := by
  simpa [wfItem, and_assoc] using h

/-- an item list whose skipped strings pair up is byte for byte a strict pair list, and that list is well-formed -/
theorem pairUp_some : ∀ (n : Nat) (items : List Item), items.length ≤ n → ∀ (kvs : List (Bytes × Bytes)),
    items.all wfItem = true → pairUp items = some kvs → encodePairs kvs = encItems items ∧ kvs.all wfPair = true := by
  intro n
  induction n with
  | zero =>
    intro items hl kvs _ h
    have : items = [] := List.eq_nil_of_length_eq_zero (by omega)
    subst this
    simp only [pairUp, Option.some.injEq] at h
    subst h
    exact ⟨rfl, rfl⟩
  | succ n ih =>
    intro items hl kvs hall h
    match items, hl, hall, h with
    | [], _, _, h =>
      simp only [pairUp, Option.some.injEq] at h
      subst h
      exact ⟨rfl, rfl⟩
    | .pair k v :: rest, hl, hall, h =>
      simp only [pairUp, Option.map_eq_some_iff] at h
      obtain ⟨kvs', h1, h2⟩ := h
      subst h2
      simp only [List.all_cons, Bool.and_eq_true] at hall
      obtain ⟨e, w⟩ := ih rest (by simp only [List.length_cons] at hl; omega) kvs' hall.2 h1
      obtain ⟨a1, a2, a3, a4, a5⟩ := wfItem_pair hall.1
      refine ⟨by simp only [encodePairs, encItems, e], ?_⟩
      simp only [List.all_cons, w, Bool.and_true]
      simp [wfPair, a1, a2, a3, a4, a5]
    | .skip t1 :: .skip t2 :: rest, hl, hall, h =>
      simp only [pairUp, Option.map_eq_some_iff] at h
      obtain ⟨kvs', h1, h2⟩ := h
      subst h2
      simp only [List.all_cons, Bool.and_eq_true] at hall
      obtain ⟨e, w⟩ := ih rest (by simp only [List.length_cons] at hl; omega) kvs' hall.2.2 h1
      obtain ⟨a1, a2, a3⟩ := wfItem_skip hall.1
      obtain ⟨b1, b2, b3⟩ := wfItem_skip hall.2.1
      refine ⟨by simp only [encodePairs, encItems, e], ?_⟩
      simp only [List.all_cons, w, Bool.and_true]
      simp [wfPair, a1, a2, a3, b1, b2, b3]
    | [.skip _], _, _, h => simp [pairUp] at h
    | .skip _ :: .pair _ _ :: _, _, _, h => simp [pairUp] at h

/-- the field map of an item list is the field map of its pairs -/
theorem fieldsOfItems_pairs (items : List Item) (hall : items.all wfItem = true) :
    ∀ m, fieldsOfItems items m = foldFields (pairsOf items) m := by
  induction items with
  | nil => intro m; rfl
  | cons it items ih =>
    intro m
    simp only [List.all_cons, Bool.and_eq_true] at hall
    cases it with
    | pair k v =>
      have hr := (wfItem_pair hall.1).1
      simp only [fieldsOfItems, List.foldl_cons, pairsOf, foldFields, hr, if_true]
      exact ih hall.2 _
    | skip t =>
      simp only [fieldsOfItems, List.foldl_cons, pairsOf]
      exact ih hall.2 _

theorem pairsOf_wf (items : List Item) (hall : items.all wfItem = true) : (pairsOf items).all wfPair = true := by
  induction items with
  | nil => rfl
  | cons it items ih =>
    simp only [List.all_cons, Bool.and_eq_true] at hall
    cases it with
    | pair k v =>
      obtain ⟨a1, a2, a3, a4, a5⟩ := wfItem_pair hall.1
      simp only [pairsOf, List.all_cons, ih hall.2, Bool.and_true]
      simp [wfPair, a1, a2, a3, a4, a5]
    | skip t => exact ih hall.2

end Swat4.Rep
