import Swat4.Lemmas.LockFencing
/-!
# Lease expiry and the `ttl` flag of a lock cell (helper definitions for C10 `holder_death_unblocks`)

`RStore.lockExpire` (Model/Store.lean) removes a lock cell whatever its `ttl` flag says: in the model the flag is
*decorative* — `lockSetNX` always writes `ttl := true` and nothing reads it.  `lockExpireTTL` is the expiry a Redis server
performs: only a key that carries a TTL can expire.  On stores satisfying `Consistent.ttl` the two coincide
(`lockExpire_eq_TTL`), which is the one place where "every lock key carries an expiry" does work for liveness; a cell
without TTL is never freed by `lockExpireTTL` (`lockExpireTTL_persistent`).
-/
namespace Swat4
open Std

namespace RStore

/-- lease expiry as Redis performs it: a key without TTL does not expire -/
def lockExpireTTL (st : RStore) (k : Nat) (dirties : Bool) : RStore :=
  match st.locks[k]? with
  | none => st
  | some c => if c.ttl then st.lockExpire k dirties else st

/-- on a store whose lock cells all carry a TTL the model's expiry is the TTL-respecting one -/
theorem lockExpire_eq_TTL {st : RStore} (h : ∀ (k : Nat) (c : LockCell), st.locks[k]? = some c → c.ttl = true)
    (k : Nat) (dirties : Bool) : st.lockExpire k dirties = st.lockExpireTTL k dirties := by
  unfold lockExpireTTL
  cases hc : st.locks[k]? with
  | none => unfold lockExpire; rw [hc]
  | some c => simp only [h k c hc, if_true]

/-- a cell without TTL survives every (TTL-respecting) expiry: its address would stay blocked -/
theorem lockExpireTTL_persistent {st : RStore} {k : Nat} {c : LockCell} (hc : st.locks[k]? = some c) (ht : c.ttl = false)
    (dirties : Bool) : st.lockExpireTTL k dirties = st := by
  unfold lockExpireTTL
  rw [hc]
  simp only [ht, Bool.false_eq_true, if_false]

/-- after the model's expiry event the lock key is absent -/
theorem lockExpire_frees (st : RStore) (k : Nat) (dirties : Bool) : (st.lockExpire k dirties).locks[k]? = none := by
  unfold lockExpire
  cases hc : st.locks[k]? with
  | none => exact hc
  | some c =>
    simp only
    split
    · show (st.locks.erase k)[k]? = none
      simp
    · show (st.locks.erase k)[k]? = none
      simp

end RStore
end Swat4
