import Swat4.Lemmas.LockFencing
/-!
# Lease expiry and the `ttl` flag of a lock cell (helper definitions for C10 `holder_death_unblocks`)

`RStore.lockExpire` (Model/Store.lean) **reads** the `ttl` flag of the cell: a cell without TTL is left alone by the expiry
event, exactly as a Redis key without TTL never expires; `lockSetNX` writes `ttl := leaseHasTTL`, i.e. "the lease duration
extracted from the source (`Facts.lockLeaseMs`) is positive".  So `Consistent.ttl` / `lock_ttl` ("every lock cell carries a
TTL") is what makes the expiry event effective (`lockExpire_frees`), and a cell without TTL would block its address for good
(`lockExpire_persistent`).

(History: until review round 2 the flag was decorative — `lockExpire` removed the cell whatever it said.  `lockExpireTTL`
below was the TTL-respecting expiry stated next to the model; it is now *equal* to the model's expiry
(`lockExpire_eq_TTL'`), and `lockExpire_eq_TTL` — on stores satisfying `Consistent.ttl` the old and the new behaviour
coincide — is kept: it is why the change does not alter the behaviour on reachable states.)
-/
namespace Swat4
open Std

namespace RStore

/-- lease expiry as Redis performs it: a key without TTL does not expire -/
def lockExpireTTL (st : RStore) (k : Nat) (dirties : Bool) : RStore :=
  match st.locks[k]? with
  | none => st
  | some c => if c.ttl then st.lockExpire k dirties else st

/-- on a store whose lock cells all carry a TTL the model's expiry is the TTL-respecting one -/
theorem lockExpire_eq_TTL {st : RStore} (h : ∀ (k : Nat) (c : LockCell), st.locks[k]? = some c → c.ttl = true)
    (k : Nat) (dirties : Bool) : st.lockExpire k dirties = st.lockExpireTTL k dirties := by
  unfold lockExpireTTL
  cases hc : st.locks[k]? with
  | none => unfold lockExpire; rw [hc]
  | some c => simp only [h k c hc, if_true]

/-- unconditionally: the model's expiry is the TTL-respecting one (since the `ttl` flag is read by `lockExpire`) -/
theorem lockExpire_eq_TTL' (st : RStore) (k : Nat) (dirties : Bool) : st.lockExpire k dirties = st.lockExpireTTL k dirties := by
  unfold lockExpireTTL
  cases hc : st.locks[k]? with
  | none => unfold lockExpire; rw [hc]
  | some c =>
    show _ = if c.ttl = true then st.lockExpire k dirties else st
    by_cases ht : c.ttl = true
    · rw [if_pos ht]
    · rw [if_neg ht]; exact lockExpire_some_nottl hc (by simpa using ht)

/-- a cell without TTL survives the model's expiry event: its address stays blocked -/
theorem lockExpire_persistent {st : RStore} {k : Nat} {c : LockCell} (hc : st.locks[k]? = some c) (ht : c.ttl = false)
    (dirties : Bool) : st.lockExpire k dirties = st := lockExpire_some_nottl hc ht

/-- a cell without TTL survives every (TTL-respecting) expiry: its address would stay blocked -/
theorem lockExpireTTL_persistent {st : RStore} {k : Nat} {c : LockCell} (hc : st.locks[k]? = some c) (ht : c.ttl = false)
    (dirties : Bool) : st.lockExpireTTL k dirties = st := by
  unfold lockExpireTTL
  rw [hc]
  simp only [ht, Bool.false_eq_true, if_false]

/-- after the model's expiry event the lock key is absent — **provided its cell (if any) carries a TTL**
(statement changed with the model: the premise is `Consistent.ttl` at `k`) -/
theorem lockExpire_frees (st : RStore) (k : Nat) (dirties : Bool)
    (httl : ∀ c : LockCell, st.locks[k]? = some c → c.ttl = true) : (st.lockExpire k dirties).locks[k]? = none := by
  cases hc : st.locks[k]? with
  | none => rw [lockExpire_none hc]; exact hc
  | some c =>
    cases dirties with
    | true =>
      rw [lockExpire_some_dirty hc (httl c hc)]
      show (st.locks.erase k)[k]? = none
      simp
    | false =>
      rw [lockExpire_some_clean hc (httl c hc)]
      show (st.locks.erase k)[k]? = none
      simp

/-- … and the premise is needed: the expiry event leaves a cell without TTL where it is -/
theorem lockExpire_keeps_nottl {st : RStore} {k : Nat} {c : LockCell} (hc : st.locks[k]? = some c) (ht : c.ttl = false)
    (dirties : Bool) : (st.lockExpire k dirties).locks[k]? = some c := by
  rw [lockExpire_some_nottl hc ht]; exact hc

end RStore
end Swat4
