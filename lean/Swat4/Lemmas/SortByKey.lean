import Swat4.Drv.StoreRun
/-!
# The driver's `sortByKey` / `renderServers` (C11; reviewer section 3 item 7)

The C11 (and C10 / use-case) driver compares a `Filter` result of the model with the implementation's by *rendering* both:
`Drv.renderServers` sorts the records with `Drv.sortByKey` (an insertion sort on the address key, defined only in
`Drv/StoreRun.lean`) and joins their renderings.  The claim behind "listings are compared as sets" is proved here:

* `sortByKey_perm` — the sort only reorders: its result is a permutation of its input;
* `sortByKey_sorted` — the result is ascending in the address key;
* `sortByKey_order_independent` — for inputs whose address keys are pairwise distinct (every `Filter` result: one record per
  `servers:items` field), two inputs that are permutations of each other sort to the **same list**;
* `renderServers_order_independent` — hence render to the same string: the comparison is insensitive to the order in which
  either side produced the records, and to nothing else (`sortByKey_perm`: no record is dropped, duplicated or altered).
-/
namespace Swat4.Drv
open Swat4 Std

/-- one step of the insertion sort -/
def insertByKey (x : Server) (acc : List Server) : List Server :=
  (acc.partition fun y => decide (y.addr.key ≤ x.addr.key)).1 ++ x :: (acc.partition fun y => decide (y.addr.key ≤ x.addr.key)).2

theorem sortByKey_nil : sortByKey [] = [] := rfl

theorem sortByKey_cons (x : Server) (xs : List Server) : sortByKey (x :: xs) = insertByKey x (sortByKey xs) := rfl

theorem insertByKey_perm (x : Server) (acc : List Server) : (insertByKey x acc).Perm (x :: acc) := by
  unfold insertByKey
  simp only [List.partition_eq_filter_filter]
  refine List.perm_middle.trans (List.Perm.cons x ?_)
  exact List.filter_append_perm _ acc

/-- **the sort is a permutation of its input** -/
theorem sortByKey_perm (xs : List Server) : (sortByKey xs).Perm xs := by
  induction xs with
  | nil => exact List.Perm.refl _
  | cons x xs ih => rw [sortByKey_cons]; exact (insertByKey_perm x _).trans (List.Perm.cons x ih)

theorem insertByKey_sorted (x : Server) (acc : List Server) (h : acc.Pairwise fun a b => a.addr.key ≤ b.addr.key) :
    (insertByKey x acc).Pairwise fun a b => a.addr.key ≤ b.addr.key := by
  unfold insertByKey
  simp only [List.partition_eq_filter_filter]
  rw [List.pairwise_append]
  refine ⟨h.sublist List.filter_sublist, ?_, ?_⟩
  · rw [List.pairwise_cons]
    refine ⟨?_, h.sublist List.filter_sublist⟩
    intro b hb
    have := (List.mem_filter.1 hb).2
    simp at this
    omega
  · intro a ha b hb
    have ha' := (List.mem_filter.1 ha).2
    simp only [decide_eq_true_eq] at ha'
    rcases List.mem_cons.1 hb with rfl | hb
    · exact ha'
    · have hb' := (List.mem_filter.1 hb).2
      simp at hb'
      omega

/-- the result is ascending in the address key -/
theorem sortByKey_sorted (xs : List Server) : (sortByKey xs).Pairwise fun a b => a.addr.key ≤ b.addr.key := by
  induction xs with
  | nil => exact List.Pairwise.nil
  | cons x xs ih => rw [sortByKey_cons]; exact insertByKey_sorted x _ ih

/-- records with pairwise distinct address keys are determined by their key -/
theorem eq_of_key_eq {xs : List Server} (hd : (xs.map fun s => s.addr.key).Nodup) {a b : Server} (ha : a ∈ xs) (hb : b ∈ xs)
    (h : a.addr.key = b.addr.key) : a = b := by
  induction xs with
  | nil => cases ha
  | cons x xs ih =>
    rw [List.map_cons, List.nodup_cons] at hd
    rcases List.mem_cons.1 ha with hax | ha <;> rcases List.mem_cons.1 hb with hbx | hb
    · exact hax.trans hbx.symm
    · refine (hd.1 ?_).elim
      rw [← hax, h]
      exact List.mem_map_of_mem (f := fun s : Server => s.addr.key) hb
    · refine (hd.1 ?_).elim
      rw [← hbx, ← h]
      exact List.mem_map_of_mem (f := fun s : Server => s.addr.key) ha
    · exact ih hd.2 ha hb

/-- **the result does not depend on the input order**: two lists with the same records in any order, the address keys
pairwise distinct, sort to the same list -/
theorem sortByKey_order_independent {xs ys : List Server} (hp : xs.Perm ys) (hd : (xs.map fun s => s.addr.key).Nodup) :
    sortByKey xs = sortByKey ys := by
  have hperm : (sortByKey xs).Perm (sortByKey ys) := (sortByKey_perm xs).trans (hp.trans (sortByKey_perm ys).symm)
  refine List.Perm.eq_of_pairwise (le := fun a b => a.addr.key ≤ b.addr.key) ?_ (sortByKey_sorted xs) (sortByKey_sorted ys) hperm
  intro a b ha hb hab hba
  have ha' : a ∈ xs := (sortByKey_perm xs).subset ha
  have hb' : b ∈ xs := hp.symm.subset ((sortByKey_perm ys).subset hb)
  exact eq_of_key_eq hd ha' hb' (Nat.le_antisymm hab hba)

/-- … so rendered listings are equal: the driver's comparison of two listings is insensitive to the order in which the
model and the implementation produced the records -/
theorem renderServers_order_independent {xs ys : List Server} (hp : xs.Perm ys) (hd : (xs.map fun s => s.addr.key).Nodup) :
    renderServers xs = renderServers ys := by
  unfold renderServers
  rw [sortByKey_order_independent hp hd]
  have : xs.isEmpty = ys.isEmpty := by
    cases xs with
    | nil => rw [List.Perm.nil_eq hp]
    | cons x xs =>
      cases ys with
      | nil => exact absurd hp.eq_nil (List.cons_ne_nil _ _)
      | cons y ys => rfl
  rw [this]

/-- the hypothesis is needed: with two records under the same key the insertion order shows -/
theorem sortByKey_same_key_witness :
    let a : Server := { addr := ⟨1, 1⟩, queryPort := 1, status := 0#9, info := [], details := ⟨[], [], []⟩, refreshedAt := none, version := 0 }
    let b : Server := { a with version := 1 }
    sortByKey [a, b] ≠ sortByKey [b, a] := by
  decide

end Swat4.Drv
