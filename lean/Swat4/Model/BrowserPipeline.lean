import Swat4.Model.Browsing
import Swat4.Model.Filter
import Swat4.Model.HeartbeatChecked
/-!
# The whole browser handler pipeline on one goroutine (C06, TCP half)

`BrowserReq06.handle` stops after `browsing.NewRequest`.  `browser.Handler.Handle` goes on, on the same bare
goroutine: `query.NewFromString(req.Filters)`, `listservers.Execute`, `packServers`, `crypt.Encrypt`, one
`conn.Write`.  This file composes the existing models of those stages — each with its partial Go operations
explicit — into one function:

| stage | Go | model | panic / hang excluded by |
|---|---|---|---|
| read | `conn.Read(buf[:2048])` | `conn : Option Bytes` (`none` = read error) | — |
| request | `browsing.NewRequest(payload)` | `Browsing.parseRequest Cfg.facts` (checked: `goSlice`, `goIndex`, fuelled loops) | `C01.parse_total` |
| filters | `if req.Filters != "" { q, err = query.NewFromString(req.Filters) }` | `Filter.newFromStringChecked` (checked) | `C03.filter_parse_never_panics` |
| listing | `h.uc.Execute(ctx, listservers.NewRequest(q, …))` | a parameter: any function of the parsed query, `none` = the use case's error | (total by type; `Query.Match` is C03's `queryMatch`) |
| packing | `h.packServers(servers, remoteAddr, req.Fields)` | `packServersChecked` below: `payload[:4]`, `payload[4:6]`, `fields[:255]`, `serverAddr[0]`, `serverAddr[1:5]`, `serverAddr[5:7]`, `PutUint16` explicit | `packServersChecked_eq` (= `Browsing.packServers`, the function of C01) |
| cipher | `crypt.Encrypt(h.gameKey, req.Challenge, resp)` | `Crypt.encrypt?` (fuelled key schedule) | `C02.encrypt_total` |

`Properties/C06.lean: tcp_pipeline_total` is the composition.
-/
namespace Swat4.BrowserPipeline
open Swat4 Swat4.Browsing
open Swat4.HeartbeatChecked (Go goSet goCopy withSlice putUint16)

/-- what the TCP client observes, and the two things that must not happen -/
inductive PipeOutcome where
  | reply (b : Bytes)   -- exactly one `conn.Write(resp)`
  | closed              -- the deferred `conn.Close()` without a write: read error, request error, listing error
  | panic               -- a run-time panic on the handler goroutine (fatal for the process: no `recover`)
  | hang                -- a loop of the handler that does not terminate
  deriving DecidableEq, Repr

/-! ## `query.NewFromString` as `process` uses it -/

/-- ```go
var q query.Query
if req.Filters != "" {
    q, err = query.NewFromString(req.Filters)
    if err != nil { h.logger.Warn()… }        // logged; q == query.Blank is used
}
```
-/
def parseQuery (filters : Bytes) : Filter.Chk (List Filter.Filter) :=
  if filters.isEmpty then .ok []
  else
    match Filter.newFromStringChecked filters with
    | .ok fs => .ok fs
    | .err _ => .ok []
    | .panic => .panic
    | .hang => .hang

/-! ## `packServers`, checked -/

/-- Go `xs[lo:hi]` on a slice of any element type -/
def goSliceL {α : Type} (xs : List α) (lo hi : Nat) : Option (List α) :=
  if lo ≤ hi ∧ hi ≤ xs.length then some ((xs.take hi).drop lo) else none

/-- ```go
serverAddr := make([]byte, 7)
serverAddr[0] = 0x51
copy(serverAddr[1:5], svr.Addr.GetIP())
binary.BigEndian.PutUint16(serverAddr[5:7], uint16(svr.QueryPort))
``` -/
def serverAddrChecked (svr : Browsing.Server) : Go Bytes := do
  let serverAddr : Bytes := List.replicate 7 0
  let serverAddr ← orPanic (goSet serverAddr 0 0x51)
  let serverAddr ← withSlice serverAddr 1 5 fun w => pure (goCopy w svr.ip.toBytes)
  let serverAddr ← withSlice serverAddr 5 7 fun w => putUint16 w (toU16 svr.queryPort)
  pure serverAddr

/-- `for _, svr := range servers { … }`: a `params.Marshal` error skips the server; otherwise the address and, for
every declared field, `0xff`, the value without NULs, `0x00` are appended -/
def packLoop (schema : Schema) (fields : List Bytes) : List Browsing.Server → Bytes → Go Bytes
  | [], payload => pure payload
  | svr :: rest, payload =>
    match marshalInfo schema svr.info with
    | none => packLoop schema fields rest payload
    | some ps => do
      let serverAddr ← serverAddrChecked svr
      packLoop schema fields rest (payload ++ serverAddr ++ fields.flatMap (packValue ps))

/-- `Handler.packServers`:
```go
payload := make([]byte, 6, 26)
copy(payload[:4], addr.IP.To4())
binary.BigEndian.PutUint16(payload[4:6], uint16(addr.Port))
if len(fields) > 255 { fields = fields[:255] }
payload = append(payload, uint8(len(fields)), 0x00)
for _, field := range fields { payload = append(payload, []byte(field)...); payload = append(payload, 0x00, 0x00) }
for _, svr := range servers { … }
return append(payload, 0x00, 0xff, 0xff, 0xff, 0xff)
``` -/
def packServersChecked (schema : Schema) (client : Client) (fields : List Bytes) (servers : List Browsing.Server) : Go Bytes := do
  let payload : Bytes := List.replicate 6 0
  let payload ← withSlice payload 0 4 fun w => pure (goCopy w client.ip.toBytes)
  let payload ← withSlice payload 4 6 fun w => putUint16 w (client.port % 65536)
  let fields ← (if fields.length > 255 then orPanic (goSliceL fields 0 255) else pure fields)
  let payload := payload ++ [UInt8.ofNat fields.length, 0x00]
  let payload := payload ++ fields.flatMap (fun f => f ++ [0x00, 0x00])
  let payload ← packLoop schema fields servers payload
  pure (payload ++ [0x00, 0xff, 0xff, 0xff, 0xff])

/-! ## the handler -/

/-- `browser.Handler.Handle` + `process`, every stage.  `conn = none`: `conn.Read` failed.  `listing q`: what
`listservers.Execute` returns for the parsed query (`none` = its error). `rnd`: the 23 random header bytes of
`crypt.Encrypt`. -/
def pipeline (conn : Option Bytes) (client : Client) (listing : List Filter.Filter → Option (List Browsing.Server))
    (rnd : Crypt.Rnd) : PipeOutcome :=
  match conn with
  | none => .closed
  | some payload =>
    match parseRequest Cfg.facts payload with
    | .error _ => .closed
    | .panic => .panic
    | .hang => .hang
    | .ok req =>
      match parseQuery req.filters with
      | .panic => .panic
      | .hang => .hang
      | .err _ => .closed
      | .ok q =>
        match listing q with
        | none => .closed
        | some servers =>
          match packServersChecked Schema.facts client req.fields servers with
          | .panic => .panic
          | .hang => .hang
          | .error _ => .closed
          | .ok resp =>
            match Crypt.encrypt? gameKey req.challenge rnd resp with
            | some out => .reply out
            | none => .hang

end Swat4.BrowserPipeline
