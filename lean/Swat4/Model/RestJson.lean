import Swat4.Model.Rest
/-!
# The part of `encoding/json` that `ShouldBindJSON(&model.NewServer{})` exercises

`gin` decodes the request body with `json.NewDecoder(body).Decode(&req)`: the first JSON value is
scanned for syntax, then stored into the struct `{IP string; Port int}`; whatever follows the value
is ignored.  The outcome, as far as the handler can see, is a `Rest.Body`:

* not an object (syntax error, EOF, `null`, scalar, array) — every such body ends in 400: `.bad`;
* an object: members are applied in order; keys match `ip` / `port` ASCII-case-insensitively; `null`
  leaves the field alone; a later member overwrites an earlier one; a value of the wrong JSON type
  (or a non-integer number for `port`) is an `UnmarshalTypeError`, which is sticky: `.bad`.

Modelled subset: strings without `\` escapes and scalar member values.  Bodies with an escape or
a nested array/object inside the top-level object are **not modelled** (`none`); they only pass
through the property oracle.
-/
namespace Swat4.RestJson
open Swat4 Swat4.Rest

def isWs (b : UInt8) : Bool := b == 32 || b == 9 || b == 10 || b == 13
def skipWs (s : Bytes) : Bytes := s.dropWhile isWs

inductive Scan (α : Type) where
  | ok (a : α) (rest : Bytes)
  | syntaxErr
  | unmodelled

/-- the text after an opening `"`, up to the closing one -/
def scanString : Bytes → Bytes → Scan Bytes
  | [], _ => .syntaxErr
  | b :: t, acc =>
    if b == 34 then .ok acc.reverse t
    else if b == 92 then .unmodelled
    else if b < 32 then .syntaxErr
    else scanString t (b :: acc)

def natOfDigits (ds : Bytes) : Nat := ds.foldl (fun acc d => acc * 10 + (d.toNat - 48)) 0

/-- a JSON number: `-?(0|[1-9][0-9]*)(\.[0-9]+)?([eE][+-]?[0-9]+)?`; integer literals give `.int` -/
def scanNumber (s : Bytes) : Scan JField :=
  let neg := s.head? == some 45
  let s1 := if neg then s.drop 1 else s
  let ip := s1.takeWhile isDigit
  let s2 := s1.dropWhile isDigit
  if ip.isEmpty || (ip.length > 1 && ip.head? == some 48) then .syntaxErr
  else
    let frac : Option (Bool × Bytes) :=
      match s2 with
      | 46 :: t => if (t.takeWhile isDigit).isEmpty then none else some (true, t.dropWhile isDigit)
      | _ => some (false, s2)
    match frac with
    | none => .syntaxErr
    | some (hasFrac, s3) =>
      let exp : Option (Bool × Bytes) :=
        match s3 with
        | e :: t =>
          if e == 101 || e == 69 then
            let t' := if t.head? == some 43 || t.head? == some 45 then t.drop 1 else t
            if (t'.takeWhile isDigit).isEmpty then none else some (true, t'.dropWhile isDigit)
          else some (false, s3)
        | [] => some (false, s3)
      match exp with
      | none => .syntaxErr
      | some (hasExp, s4) =>
        if hasFrac || hasExp then .ok .other s4
        else .ok (.int (if neg then -(natOfDigits ip : Int) else (natOfDigits ip : Int))) s4

def stripLit (lit s : Bytes) : Option Bytes := if lit.isPrefixOf s then some (s.drop lit.length) else none

/-- one member value -/
def scanValue (s : Bytes) : Scan JField :=
  match s with
  | [] => .syntaxErr
  | b :: t =>
    if b == 34 then (match scanString t [] with
      | .ok v r => .ok (.str v) r
      | .syntaxErr => .syntaxErr
      | .unmodelled => .unmodelled)
    else if b == 45 || isDigit b then scanNumber s
    else if b == 116 then (match stripLit [116, 114, 117, 101] s with | some r => .ok .other r | none => .syntaxErr)
    else if b == 102 then (match stripLit [102, 97, 108, 115, 101] s with | some r => .ok .other r | none => .syntaxErr)
    else if b == 110 then (match stripLit [110, 117, 108, 108] s with | some r => .ok .absent r | none => .syntaxErr)
    else if b == 91 || b == 123 then .unmodelled
    else .syntaxErr

def lower (b : UInt8) : UInt8 := if 65 ≤ b.toNat ∧ b.toNat ≤ 90 then b + 32 else b

structure Acc where
  ip : JField := .absent
  port : JField := .absent
  typeErr : Bool := false

/-- store one member the way `encoding/json` stores into `{IP string; Port int}` -/
def Acc.put (a : Acc) (key : Bytes) (v : JField) : Acc :=
  let k := key.map lower
  if k = [105, 112] then
    match v with
    | .absent => a
    | .str _ => { a with ip := v }
    | _ => { a with typeErr := true }
  else if k = [112, 111, 114, 116] then
    match v with
    | .absent => a
    | .int n => if n < -9223372036854775808 ∨ n > 9223372036854775807 then { a with typeErr := true } else { a with port := v }
    | _ => { a with typeErr := true }
  else a

/-- members after `{` or after a `,` (`first` = directly after `{`, where `}` may follow) -/
def members : Nat → Bytes → Bool → Acc → Option Body
  | 0, _, _, _ => none
  | fuel + 1, s, first, acc =>
    match skipWs s with
    | [] => some .bad
    | b :: t =>
      if b == 125 && first then some (if acc.typeErr then .bad else .obj acc.ip acc.port)
      else if b != 34 then some .bad
      else match scanString t [] with
        | .syntaxErr => some .bad
        | .unmodelled => none
        | .ok key r =>
          match skipWs r with
          | 58 :: r' =>
            (match scanValue (skipWs r') with
             | .syntaxErr => some .bad
             | .unmodelled => none
             | .ok v r'' =>
               match skipWs r'' with
               | 44 :: rest => members fuel rest false (acc.put key v)
               | 125 :: _ => some (if (acc.put key v).typeErr then .bad else .obj (acc.put key v).ip (acc.put key v).port)
               | _ => some .bad)
          | _ => some .bad

/-- the request body as the handler sees it; `none` = outside the modelled subset -/
def decodeBody (s : Bytes) : Option Body :=
  match skipWs s with
  | 123 :: t => members (s.length + 1) t true {}
  | _ => some .bad

end Swat4.RestJson
