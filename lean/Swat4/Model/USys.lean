import Swat4.Model.UseCases.Discovery
/-!
# Use cases interleaved at repository-call granularity (L5b)

Clients are use-case programs (`Prog`).  An event lets one client perform its next repository
call atomically (justified by C09: every registry call takes effect at one commit instant), kills a
client, makes its next call fail (before or after taking effect), or advances the clock.
Silent calls (clock reads, dropped enqueues) are performed eagerly — they are not scheduling
points in the real system either.

A prober client *holds* the probes a `PopMany` returned until the outcome of each has been
committed; `holding` is the ghost that C16's invariant speaks about.
-/
namespace Swat4
open UC

/-- what a finished client reports -/
inductive UOut where
  | unit (ok : Bool) (tag : String)     -- use case finished; `tag` = rendered result class
  deriving Repr, Inhabited, DecidableEq

structure UClient where
  prog : Prog String                     -- the program renders its own result
  holding : List Probe := []             -- ghost: probes popped and not yet resolved by this client
  dead : Bool := false                   -- crashed
  arrival : Int := 0                     -- clock value when the client arrived at its pending call
  started : Bool := false                -- has it begun (eager clients begin at once, lazy ones when first scheduled)

def UClient.result? (c : UClient) : Option String :=
  if c.dead then some "crashed" else c.prog.result?

def UClient.live (c : UClient) : Bool := !c.dead && c.prog.result?.isNone

structure USys where
  abs : AbsState := {}
  clock : Int
  clients : List UClient := []

inductive UEv where
  | call (i : Nat)                       -- client i performs its next repository call
  | crash (i : Nat) (effect : Bool)      -- client i dies at its next call: before (`false`) or after (`true`) it took effect
  | fault (i : Nat) (effect : Bool)      -- the next call of client i fails: without / with effect
  | tick (d : Int)
  deriving Repr, Inhabited

/-- normalise: perform leading silent calls; returns the names of the silent repository calls performed -/
def UClient.settle (c : UClient) (s : AbsState) (clock : Int) : AbsState × UClient × List String :=
  let (s', p', names) := Prog.skipSilent 64 c.prog s clock []
  (s', { c with prog := p', arrival := clock }, names)

/-- the clock value the pending call works with -/
def UClient.callClock (c : UClient) (clock : Int) : Int := if c.prog.headAtArrival then c.arrival else clock

/-- one event; also returns the repository calls performed, as `"<i>:<name>"` -/
def USys.stepT (s : USys) : UEv → USys × List String
  | .tick d => ({ s with clock := s.clock + d }, [])
  | .call i =>
    match s.clients[i]? with
    | none => (s, [])
    | some c =>
      if !c.live then (s, [])
      else
        -- a lazily started client arrives now; an eager one arrived when its previous call returned
        let (a0, c0, n0) := if c.started then (s.abs, c, []) else c.settle s.abs s.clock
        let c0 := { c0 with started := true }
        if !c0.live then ({ s with abs := a0, clients := s.clients.set i c0 }, n0.map fun n => s!"{i}:{n}")
        else
          let h := c0.prog.headName
          let (a1, p1) := c0.prog.step1 a0 (c0.callClock s.clock)
          let (a2, c2, n2) := ({ c0 with prog := p1 } : UClient).settle a1 s.clock
          ({ s with abs := a2, clients := s.clients.set i c2 }, (n0 ++ h.toList ++ n2).map fun n => s!"{i}:{n}")
  | .crash i effect =>
    match s.clients[i]? with
    | none => (s, [])
    | some c =>
      if !c.live then (s, [])
      else
        let (a0, c0, n0) := if c.started then (s.abs, c, []) else c.settle s.abs s.clock
        let a1 := if effect then (c0.prog.step1 a0 (c0.callClock s.clock)).1 else a0
        ({ s with abs := a1, clients := s.clients.set i { c0 with dead := true, started := true } }, n0.map fun n => s!"{i}:{n}")
  | .fault i effect =>
    match s.clients[i]? with
    | none => (s, [])
    | some c =>
      if !c.live then (s, [])
      else
        let (a0, c0, n0) := if c.started then (s.abs, c, []) else c.settle s.abs s.clock
        let c0 := { c0 with started := true }
        let h := c0.prog.headName
        let (a1, p1) := c0.prog.stepFault effect a0 (c0.callClock s.clock)
        let (a2, c2, n2) := ({ c0 with prog := p1 } : UClient).settle a1 s.clock
        ({ s with abs := a2, clients := s.clients.set i c2 }, (n0 ++ h.toList ++ n2).map fun n => s!"{i}:{n}")

def USys.step (s : USys) (e : UEv) : USys := (s.stepT e).1

def USys.run (s : USys) (es : List UEv) : USys := es.foldl USys.step s

/-- complete all live clients round-robin, one call each in turn -/
def USys.roundRobin (s : USys) : Nat → USys
  | 0 => s
  | fuel + 1 =>
    if s.clients.any UClient.live then
      USys.roundRobin ((List.range s.clients.length).foldl (fun acc i => acc.step (.call i)) s) fuel
    else s

end Swat4
