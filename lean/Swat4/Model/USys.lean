import Swat4.Model.UseCases.Discovery
/-!
# Use cases interleaved at repository-call granularity (L5b)

Clients are use-case programs (`Prog`).  An event lets one client perform its next repository
call atomically (justified by C09: every registry call takes effect at one commit instant), kills a
client, makes its next call fail (before or after taking effect), or advances the clock.
Silent calls (clock reads, dropped enqueues) are performed eagerly — they are not scheduling
points in the real system either.

A prober client *holds* the probes a `PopMany` returned until the outcome of each has been
committed; `holding` is the ghost that C16's invariant speaks about.
-/
namespace Swat4
open UC

/-- what a finished client reports -/
inductive UOut where
  | unit (ok : Bool) (tag : String)     -- use case finished; `tag` = rendered result class
  deriving Repr, Inhabited, DecidableEq

structure UClient where
  prog : Prog String                     -- the program renders its own result
  holding : List Probe := []             -- ghost: probes popped and not yet resolved by this client
  dead : Bool := false                   -- crashed

def UClient.result? (c : UClient) : Option String :=
  if c.dead then some "crashed" else c.prog.result?

def UClient.live (c : UClient) : Bool := !c.dead && c.prog.result?.isNone

structure USys where
  abs : AbsState := {}
  clock : Int
  clients : List UClient := []

inductive UEv where
  | call (i : Nat)                       -- client i performs its next repository call
  | crash (i : Nat) (effect : Bool)      -- client i dies at its next call: before (`false`) or after (`true`) it took effect
  | fault (i : Nat) (effect : Bool)      -- the next call of client i fails: without / with effect
  | tick (d : Int)
  deriving Repr, Inhabited

/-- normalise: perform leading silent calls -/
def UClient.settle (c : UClient) (s : AbsState) (clock : Int) : AbsState × UClient :=
  let (s', p') := Prog.skipSilent 64 c.prog s clock
  (s', { c with prog := p' })

def USys.settleAll (s : USys) : USys :=
  let (abs, cs) := s.clients.foldl (fun (acc : AbsState × List UClient) c =>
    if c.dead then (acc.1, acc.2 ++ [c]) else let (a', c') := c.settle acc.1 s.clock; (a', acc.2 ++ [c'])) (s.abs, [])
  { s with abs := abs, clients := cs }

def USys.step (s : USys) : UEv → USys
  | .tick d => { s with clock := s.clock + d }
  | .call i =>
    match s.clients[i]? with
    | none => s
    | some c =>
      if !c.live then s
      else
        let (a1, p1) := c.prog.step1 s.abs s.clock
        let (a2, c2) := ({ c with prog := p1 } : UClient).settle a1 s.clock
        { s with abs := a2, clients := s.clients.set i c2 }
  | .crash i effect =>
    match s.clients[i]? with
    | none => s
    | some c =>
      if !c.live then s
      else
        let a1 := if effect then (c.prog.step1 s.abs s.clock).1 else s.abs
        { s with abs := a1, clients := s.clients.set i { c with dead := true } }
  | .fault i effect =>
    match s.clients[i]? with
    | none => s
    | some c =>
      if !c.live then s
      else
        let (a1, p1) := c.prog.stepFault effect s.abs s.clock
        let (a2, c2) := ({ c with prog := p1 } : UClient).settle a1 s.clock
        { s with abs := a2, clients := s.clients.set i c2 }

def USys.run (s : USys) (es : List UEv) : USys := es.foldl USys.step s

/-- complete all live clients round-robin, one call each in turn -/
def USys.roundRobin (s : USys) : Nat → USys
  | 0 => s
  | fuel + 1 =>
    if s.clients.any UClient.live then
      USys.roundRobin ((List.range s.clients.length).foldl (fun acc i => acc.step (.call i)) s) fuel
    else s

end Swat4
