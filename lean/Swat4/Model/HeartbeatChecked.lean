import Swat4.Model.Heartbeat
import Swat4.Model.Browsing
/-!
# Reporter datagram path with every Go index / slice expression CHECKED (C06, UDP half)

`Model/Heartbeat.lean` writes `ParseInstanceID` and `parseHeartbeatParams` with the total `take` / `drop` /
`cstrHead` / `cstrTail`, so `C06.udp_total` over it holds by construction for everything but `payload[0]`.
This file transcribes the same code path — `Dispatcher.Handle` → `Dispatcher.dispatch` → the four handlers, up to
the call of the use case, and the construction of the heartbeat reply after it — expression by expression, with
every partial Go operation explicit:

| Go expression | where | here |
|---|---|---|
| `payload[0]` (twice: log line of `Handle`, type byte in `dispatch`) | dispatcher.go | `goIndex payload 0` |
| `payload[1:5]`, `payload[5:]` | `ParseInstanceID` | `goSlice payload 1 5`, `goSlice payload 5 len` |
| `unparsed[0]` (loop condition, and "missing value" test) | `parseHeartbeatParams` | `goIndex unparsed 0` behind the short-circuit on `len` |
| `data[i]`, `data[:i]`, `data[i+1:]` | `binutils.ConsumeString` | `Browsing.consumeCString` (the model of that same function used by C01) |
| `clientAddr[1:5]`, `clientAddr[5:7]`, `resp[:3]`, `resp[3:7]`, `resp[7:13]`, `resp[13:27]` | `reportServer` | `withSlice` |
| `b[1]`, `b[0] = …`, `b[1] = …` | `binary.BigEndian.PutUint16` | `putUint16` |
| `hextable[v>>4]`, `hextable[v&0x0f]`, `dst[j] = …`, `dst[j+1] = …` | `hex.Encode` | `hexEncode` |

The outcome monad and the primitives are those of `Model/Browsing.lean` (`Browsing.Outcome` with `panic` / `hang`,
`orPanic`, `goIndex`, `goSlice`, `consumeCString`); only element assignment and `copy` into a sub-slice, which no
model needed so far, are added (`goSet`, `goCopy`, `withSlice`).  The `.error` constructor of `Browsing.Outcome` is
not used: a Go `error` return of this path is the value `none` / the outcome `Heartbeat.Outcome.err`.

`Lemmas/HeartbeatChecked.lean: dispatchChecked_eq` shows that this function is `.panic` exactly on the empty
datagram and otherwise `.ok` of what `Heartbeat.dispatch` returns.

Not transcribed (library code without caller-supplied indices, or total by type): `bytes.ToValidUTF8`,
`strconv.Atoi`, map reads and writes, `append`, `make`, `addr.New` on a 4-byte IP, `params.Unmarshal`,
`validator`, the use cases themselves (C04 / C09) and the logger.
-/
namespace Swat4.HeartbeatChecked
open Swat4 Swat4.Heartbeat
open Swat4.Browsing (orPanic goIndex goSlice consumeCString)

/-- the outcome monad of `Model/Browsing.lean`: `ok`, (`error`: unused here), `panic`, `hang` -/
abbrev Go := Browsing.Outcome

/-! ## primitives not needed by the earlier models -/

/-- Go `b[i] = v` -/
def goSet (b : Bytes) (i : Nat) (v : UInt8) : Option Bytes :=
  if i < b.length then some (b.set i v) else none

/-- Go `copy(dst, src)`: copies `min(len(dst), len(src))` bytes, never fails; the new contents of `dst` -/
def goCopy (dst src : Bytes) : Bytes := src.take dst.length ++ dst.drop src.length

/-- a function applied to the sub-slice `b[lo:hi]`, which ALIASES `b`: the slice expression is checked, the
function returns the new contents of the window (same length), the result is the new contents of `b` -/
def withSlice (b : Bytes) (lo hi : Nat) (f : Bytes → Go Bytes) : Go Bytes := do
  let w ← orPanic (goSlice b lo hi)
  let w' ← f w
  pure (b.take lo ++ w' ++ b.drop hi)

/-- `binary.BigEndian.PutUint16(b, v)`: `_ = b[1]; b[0] = byte(v >> 8); b[1] = byte(v)` -/
def putUint16 (b : Bytes) (v : Nat) : Go Bytes := do
  let _ ← orPanic (goIndex b 1)
  let b ← orPanic (goSet b 0 (UInt8.ofNat (v / 256)))
  let b ← orPanic (goSet b 1 (UInt8.ofNat (v % 256)))
  pure b

/-- `const hextable = "0123456789abcdef"` -/
def hextable : Bytes := [0x30, 0x31, 0x32, 0x33, 0x34, 0x35, 0x36, 0x37, 0x38, 0x39, 0x61, 0x62, 0x63, 0x64, 0x65, 0x66]

/-- the loop of `hex.Encode(dst, src)`:
```go
j := 0
for _, v := range src { dst[j] = hextable[v>>4]; dst[j+1] = hextable[v&0x0f]; j += 2 }
``` -/
def hexEncodeLoop : Bytes → Nat → Bytes → Go Bytes
  | [], _, dst => pure dst
  | v :: rest, j, dst => do
    let hi ← orPanic (goIndex hextable (v.toNat / 16))     -- hextable[v>>4]
    let dst ← orPanic (goSet dst j hi)                     -- dst[j] = …
    let lo ← orPanic (goIndex hextable (v.toNat % 16))     -- hextable[v&0x0f]
    let dst ← orPanic (goSet dst (j + 1) lo)               -- dst[j+1] = …
    hexEncodeLoop rest (j + 2) dst

/-- `hex.Encode(dst, src)`; the new contents of `dst` -/
def hexEncode (dst src : Bytes) : Go Bytes := hexEncodeLoop src 0 dst

/-- a `nil` slice where only `len` (and, guarded by it, an index) looks at it -/
def nilEmpty : Option Bytes → Bytes
  | some b => b
  | none => []

/-! ## `reporter.ParseInstanceID` -/

/-- ```go
if len(payload) < 5 { return nil, nil, fmt.Errorf(…) }
id := make([]byte, 4)
copy(id, payload[1:5])
return id, payload[5:], nil
```
`none` = the error return -/
def parseInstanceIDChecked (payload : Bytes) : Go (Option (Bytes × Bytes)) :=
  if payload.length < 5 then pure none
  else do
    let src ← orPanic (goSlice payload 1 5)                    -- payload[1:5]
    let id := goCopy (List.replicate 4 0) src                  -- id := make([]byte, 4); copy(id, …)
    let rest ← orPanic (goSlice payload 5 payload.length)      -- payload[5:]
    pure (some (id, rest))

/-! ## `parseHeartbeatParams` -/

/-- the loop
```go
for len(unparsed) > 0 && unparsed[0] != 0x00 {
    nameBin, unparsed = binutils.ConsumeCString(unparsed)
    name := string(nameBin)
    if !isReportableField(name) { continue }
    if len(unparsed) == 0 || unparsed[0] == 0x00 { return nil, fmt.Errorf("missing value …") }
    valueBin, unparsed = binutils.ConsumeCString(unparsed)
    value := string(bytes.ToValidUTF8(valueBin, []byte{'?'}))
    fields[name] = value
}
return fields, nil
```
`none` = the error return; `hang` = out of fuel (every round consumes at least one byte: `len + 1` rounds of fuel
are never used up — `parseParamsLoop_eq`) -/
def parseParamsLoop : Nat → Bytes → FieldMap → Go (Option FieldMap)
  | 0, _, _ => .hang
  | fuel + 1, unparsed, fields => do
    -- `len(unparsed) > 0 && unparsed[0] != 0x00`: the index is evaluated only when the length test holds
    let more : Bool ←
      (if unparsed.length > 0 then do
        let c ← orPanic (goIndex unparsed 0)
        pure (c != 0)
      else pure false)
    if !more then pure (some fields)
    else do
      let (nameBin, rem) ← consumeCString unparsed
      let unparsed := nilEmpty rem
      if !isReportable nameBin then parseParamsLoop fuel unparsed fields
      else do
        -- `len(unparsed) == 0 || unparsed[0] == 0x00`
        let missing : Bool ←
          (if unparsed.length = 0 then pure true
          else do
            let c ← orPanic (goIndex unparsed 0)
            pure (c == 0))
        if missing then pure none
        else do
          let (valueBin, rem) ← consumeCString unparsed
          parseParamsLoop fuel (nilEmpty rem) (fields.set nameBin (toValidUTF8 valueBin))

/-- `parseHeartbeatParams(payload)` -/
def parseHeartbeatParamsChecked (payload : Bytes) : Go (Option FieldMap) :=
  parseParamsLoop (payload.length + 1) payload []

/-! ## the heartbeat reply (`heartbeat.Handler.reportServer` after the use case has succeeded) -/

/-- ```go
clientAddr := make([]byte, 7)
copy(clientAddr[1:5], connAddr.IP.To4())
binary.BigEndian.PutUint16(clientAddr[5:7], uint16(connAddr.Port))
resp := make([]byte, 28)
copy(resp[:3], []byte{0xfe, 0xfd, 0x01})
copy(resp[3:7], instanceID)
copy(resp[7:13], master.ResponseChallenge)
hex.Encode(resp[13:27], clientAddr)
```
`ip4` = `connAddr.IP.To4()` (a `nil` slice is `[]`), `port` = `connAddr.Port` -/
def heartbeatReplyChecked (id ip4 : Bytes) (port : Nat) : Go Bytes := do
  let clientAddr : Bytes := List.replicate 7 0
  let clientAddr ← withSlice clientAddr 1 5 fun w => pure (goCopy w ip4)
  let clientAddr ← withSlice clientAddr 5 7 fun w => putUint16 w (port % 65536)
  let resp : Bytes := List.replicate 28 0
  let resp ← withSlice resp 0 3 fun w => pure (goCopy w [0xFE, 0xFD, 0x01])
  let resp ← withSlice resp 3 7 fun w => pure (goCopy w id)
  let resp ← withSlice resp 7 13 fun w => pure (goCopy w Facts.reporterResponseChallenge)
  let resp ← withSlice resp 13 27 fun w => hexEncode w clientAddr
  pure resp

/-! ## handlers and dispatcher -/

/-- `heartbeat.Handler.Handle`.  From `parseAddrFromHeartbeatParams` on nothing is indexed by the datagram any
more: the functions of `Model/Heartbeat.lean` are used as they are; the reply is built only after the use case
has returned without error, as in `reportServer`. -/
def handleHeartbeatChecked (cfg : Cfg) (st : AbsState) (srcIp srcPort : Nat) (payload : Bytes) (now : Int) :
    Go (AbsState × Outcome) := do
  match ← parseInstanceIDChecked payload with
  | none => pure (st, .err)
  | some (id, rest) =>
    match ← parseHeartbeatParamsChecked rest with
    | none => pure (st, .err)
    | some fields =>
      if fields.isEmpty then pure (st, .err)
      else
        match parseAddr srcIp fields with
        | none => pure (st, .err)
        | some (a, qp) =>
          if fields.get? kStatechanged = some [0x32] then
            pure (finish ((UC.remove (idNat id) a).run st now) .silent)
          else
            let r := (UC.report zeroInfo cfg.maxRetries ⟨a, qp, idNat id, infoOf fields⟩).run st now
            match r.2 with
            | .error _ => pure (r.1, .err)
            | .ok _ => do
              let resp ← heartbeatReplyChecked id (ipBytes srcIp) srcPort
              pure (r.1, .reply resp)

/-- `keepalive.Handler.Handle` -/
def handleKeepaliveChecked (st : AbsState) (srcIp : Nat) (payload : Bytes) (now : Int) : Go (AbsState × Outcome) := do
  match ← parseInstanceIDChecked payload with
  | none => pure (st, .err)
  | some (id, _) => pure (finish ((UC.renew (idNat id) srcIp).run st now) .silent)

/-- `challenge.Handler.Handle`: `resp := make([]byte, 0, 7); resp = append(resp, 0xfe, 0xfd, 0x0a); resp = append(resp, instanceID...)` -/
def handleChallengeChecked (payload : Bytes) : Go Outcome := do
  match ← parseInstanceIDChecked payload with
  | none => pure .err
  | some (id, _) => pure (.reply ([0xFE, 0xFD, 0x0A] ++ id))

/-- `Dispatcher.Handle` + `Dispatcher.dispatch` + `selectHandler`:
```go
d.logger.Debug().Str("type", fmt.Sprintf("0x%02x", payload[0]))…      // Handle: evaluated whatever the log level
reqType := master.Msg(payload[0])                                       // dispatch
handler, ok := d.handlers[msgType]; if !ok { return … error }           // selectHandler (four registered types)
resp, err := handler.Handle(ctx, addr, payload)
``` -/
def dispatchChecked (cfg : Cfg) (st : AbsState) (srcIp srcPort : Nat) (payload : Bytes) (now : Int) :
    Go (AbsState × Outcome) := do
  let _ ← orPanic (goIndex payload 0)        -- `Handle`: `payload[0]` in the log statement
  let t ← orPanic (goIndex payload 0)        -- `dispatch`: `master.Msg(payload[0])`
  if t.toNat = Facts.reporterMsgHeartbeat then handleHeartbeatChecked cfg st srcIp srcPort payload now
  else if t.toNat = Facts.reporterMsgKeepalive then handleKeepaliveChecked st srcIp payload now
  else if t.toNat = Facts.reporterMsgChallenge then do
    let oc ← handleChallengeChecked payload
    pure (st, oc)
  else if t.toNat = Facts.reporterMsgAvailable then pure (st, .reply Facts.reporterResponseIsAvailable)
  else pure (st, .err)

/-- a run-time panic of the handler goroutine as `Heartbeat.Outcome` reports it: state as before, outcome `panic`
(`hang` cannot be expressed by `Heartbeat.Outcome`; `dispatchChecked_eq` shows it does not occur) -/
def collapse (st : AbsState) : Go (AbsState × Outcome) → Option (AbsState × Outcome)
  | .ok r => some r
  | .panic => some (st, .panic)
  | .error _ => none
  | .hang => none

end Swat4.HeartbeatChecked
