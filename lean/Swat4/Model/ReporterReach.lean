import Swat4.Model.Heartbeat
/-!
# "The datagram gets as far as a use case"

One definition shared by the property theorems of C06 (`Swat4.C06.reachesUseCase`, `unreached_no_effect`,
`WellFormedMutating`, `mutation_implies_decodable`) and by the oracle of the C06 driver (`Swat4.Drv.C06.reaches`):
both names are aliases of `Swat4.Heartbeat.reachesUseCase` below, so the oracle the correspondence run evaluates is
the predicate the theorems are about.  Core Lean + `Std` only (the driver links this file).
-/
namespace Swat4.Heartbeat
open Swat4

/-- a datagram that gets as far as a use case: a heartbeat (type 03) of at least 5 bytes whose body scans
to a non-empty field map from which the address derives (`hostport`/`localport` numeric, `hostport` in
1..65535, source IP acceptable), or a keepalive (type 08) of at least 5 bytes -/
def reachesUseCase (srcIp : Nat) (payload : Bytes) : Bool :=
  match payload with
  | [] => false
  | t :: _ =>
    if t.toNat = Facts.reporterMsgHeartbeat then
      match parseInstanceID payload with
      | none => false
      | some (_, rest) =>
        match parseHeartbeatParams rest with
        | none => false
        | some fields => !fields.isEmpty && (parseAddr srcIp fields).isSome
    else if t.toNat = Facts.reporterMsgKeepalive then (parseInstanceID payload).isSome
    else false

end Swat4.Heartbeat
