import Swat4.Base.Info
import Swat4.Gen.Facts
/-!
# Model of the filter language and of the listing selection

* `pkg/gamespy/browsing/query/filter/filter.go` — `Parse`, `parseRawFilterValue`, `New`, `IsQueryField`,
  `Filter.Match`, `compare`, `compareToInt`, `compareToString`, `getStructField`
* `pkg/gamespy/browsing/query/query.go` — `scanFilter`, `NewFromString`, `New`, `Query.Match`
* `internal/browser/browser.go:119-130` — parse error ⇒ blank query
* `internal/rest/api/servers_list.go` — `prepareQuery`
* `internal/core/usecases/listservers/listservers.go` + `servers.Filter` — the selection

Strings are `Bytes`.  The field whitelist, the `Info` schema and the status members come from the
generated `Swat4.Facts`.

The parser is modelled twice.  The first form (`scanFilter`, `parse`, `parseValue`, `newFromString`) is
total and written with `takeWhile`/`dropWhile`; it is what the driver runs and what the semantic
theorems of C03 talk about.  The second form (section "checked", `scanFilterChecked`, `parseChecked`,
`parseValueChecked`, `newFromStringChecked`) mirrors the Go code expression by expression: every index
and slice expression is a checked operation on the string it is applied to in the source, with the
index computed the way the source computes it, and failure is the outcome `panic`.
`Swat4.C03.filter_parse_never_panics` proves the two forms equal on every byte string.
-/
namespace Swat4.Filter
open Swat4

/-! ## filter.go: parsing -/

/-- `char == '!' || char == '=' || char == '<' || char == '>'` -/
def isOpByte (b : UInt8) : Bool := b == 0x21 || b == 0x3d || b == 0x3c || b == 0x3e

inductive ParseErr where
  | format  -- ErrInvalidFilterFormat
  | value   -- ErrInvalidValueFormat
  | field   -- ErrUnknownFieldName
  | op      -- ErrUnsupportedOperatorType
  | empty   -- query.ErrQueryHasNoFilters
  deriving DecidableEq, Repr, Inhabited

/-- `Filter.value interface{}`: `int`, `string` or `FieldValue` (the only three the parser produces) -/
inductive FVal where
  | int (n : Int)
  | str (s : Bytes)
  | fld (g : Bytes)
  deriving DecidableEq, Repr, Inhabited

/-- `filter.Filter` (`rawop` is only used by `String()` and is not modelled) -/
structure Filter where
  field : Bytes
  op : Op
  value : FVal
  deriving DecidableEq, Repr, Inhabited

/-- `IsQueryField` -/
def isQueryField (f : Bytes) : Bool := Facts.queryFields.contains f

def isDigit (b : UInt8) : Bool := decide (0x30 ≤ b) && decide (b ≤ 0x39)

/-- decimal digits to a number, `none` on any other byte -/
def digitsAcc : Nat → Bytes → Option Nat
  | acc, [] => some acc
  | acc, b :: r => if isDigit b then digitsAcc (acc * 10 + (b.toNat - 48)) r else none

/-- `strconv.Atoi` (= `ParseInt(s, 10, 0)` on a 64-bit platform): optional `+`/`-`, then one or more
ASCII digits, no underscores (base 10 given explicitly), value within int64; `none` = any error
(`ErrSyntax` and `ErrRange` are not distinguished by the caller) -/
def atoi (s : Bytes) : Option Int :=
  match s with
  | [] => none
  | b :: r =>
    let body := if b == 0x2d || b == 0x2b then r else b :: r
    if body.isEmpty then none else
    match digitsAcc 0 body with
    | none => none
    | some n =>
      if b == 0x2d then (if n ≤ 2 ^ 63 then some (-(n : Int)) else none)
      else (if n < 2 ^ 63 then some (n : Int) else none)

/-- `parseRawFilterValue`: Atoi ⇒ int; `'…'` with `len > 2` ⇒ string `rawVal[1:len-1]`;
a query field name ⇒ field reference; else `ErrInvalidValueFormat` -/
def parseValue (raw : Bytes) : Except ParseErr FVal :=
  match atoi raw with
  | some n => .ok (.int n)
  | none =>
    if decide (raw.length > 2) && raw.head? == some 0x27 && raw.getLast? == some 0x27 then
      .ok (.str (raw.drop 1).dropLast)
    else if isQueryField raw then .ok (.fld raw)
    else .error .value

/-- the `switch rawOp` of `New` -/
def opOfRaw (raw : Bytes) : Option Op :=
  if raw = [0x3d] then some .eq
  else if raw = [0x21, 0x3d] then some .ne
  else if raw = [0x3c] then some .lt
  else if raw = [0x3e] then some .gt
  else none

/-- `filter.New`: whitelist first, then the operator -/
def newFilter (field rawOp : Bytes) (v : FVal) : Except ParseErr Filter :=
  if !isQueryField field then .error .field
  else match opOfRaw rawOp with
    | none => .error .op
    | some op => .ok ⟨field, op, v⟩

/-- `filter.Parse`.  The Go loop walks the bytes once with a three-stage state machine: the name is
`filterBytes[0:j]` for the first `j` holding one of `! = < >` (stage name → op), the operator is the
maximal run of such bytes, the value is everything from the first other byte on (stage op → value);
operator bytes inside the value are ignored.  `fieldName == "" || stage != value` is the format error:
an empty name, no operator byte at all, or nothing after the operator run. -/
def parse (bs : Bytes) : Except ParseErr Filter :=
  let name := bs.takeWhile (fun b => !isOpByte b)
  let r1 := bs.dropWhile (fun b => !isOpByte b)
  let op := r1.takeWhile isOpByte
  let r2 := r1.dropWhile isOpByte
  if name.isEmpty || r2.isEmpty then .error .format
  else match parseValue r2 with
    | .error e => .error e
    | .ok v => newFilter name op v

/-! ## query.go -/

/-- `scanFilter`: `i := strings.Index(s, " and ")`; `(s[:i], s[i+5:])`, or `(s, "")` when absent -/
def scanFilter : Bytes → Bytes × Bytes
  | [] => ([], [])
  | b :: rest =>
    if andSep.isPrefixOf (b :: rest) then ([], (b :: rest).drop 5)
    else ((b :: (scanFilter rest).1), (scanFilter rest).2)

/-- the raw filters seen by the loop `for len(unscanned) > 0 { rawFilter, unscanned = scanFilter(unscanned) … }`.
`fuel` only makes the recursion structural: every round consumes at least one byte, so
`fuel = len` is never exhausted (`Swat4.Filter.rawFilters_eq`). -/
def rawFiltersFuel : Nat → Bytes → List Bytes
  | 0, _ => []
  | fuel + 1, s => if s.isEmpty then [] else (scanFilter s).1 :: rawFiltersFuel fuel (scanFilter s).2

def rawFilters (s : Bytes) : List Bytes := rawFiltersFuel s.length s

/-- the body of the loop: parse every raw filter in order, stop at the first error -/
def parseAll : List Bytes → Except ParseErr (List Filter)
  | [] => .ok []
  | r :: rs =>
    match parse r with
    | .error e => .error e
    | .ok f =>
      match parseAll rs with
      | .error e => .error e
      | .ok fs => .ok (f :: fs)

/-- `query.NewFromString` followed by `query.New` (no filters ⇒ `ErrQueryHasNoFilters`) -/
def newFromString (s : Bytes) : Except ParseErr (List Filter) :=
  match parseAll (rawFilters s) with
  | .error e => .error e
  | .ok [] => .error .empty
  | .ok fs => .ok fs

/-! ## filter.go: matching -/

inductive MatchErr where
  | invalidType     -- ErrFieldInvalidValueType
  | unsupportedOp   -- ErrFieldUnsupportedOperatorType
  | notFound        -- ErrFieldNotFound (from FieldValue.Evaluate)
  deriving DecidableEq, Repr

/-- `getStructField`: the first field whose param name equals `name` -/
def getStructField (i : Info) (name : Bytes) : Option Value := i.lookup name

/-- `compareToInt`: ints as they are, bools as 0/1, anything else `ErrFieldInvalidValueType` -/
def compareToInt (op : Op) (this : Value) (other : Int) : Except MatchErr Bool :=
  let cmp (a : Int) : Bool :=
    match op with
    | .eq => a == other
    | .ne => a != other
    | .lt => decide (a < other)
    | .gt => decide (a > other)
  match this with
  | .int a => .ok (cmp a)
  | .bool b => .ok (cmp (if b then 1 else 0))
  | .str _ => .error .invalidType

/-- `compareToString`: strings only, `=` and `!=` only -/
def compareToString (op : Op) (this : Value) (other : Bytes) : Except MatchErr Bool :=
  match this with
  | .str a =>
    match op with
    | .eq => .ok (a == other)
    | .ne => .ok (a != other)
    | _ => .error .unsupportedOp
  | _ => .error .invalidType

/-- `Filter.Match`: a missing left-hand field is "no match, no error"; a field reference is evaluated
and `compare` dispatches on the type of the *right-hand* value (a bool there is an error) -/
def filterMatch (f : Filter) (i : Info) : Except MatchErr Bool :=
  match getStructField i f.field with
  | none => .ok false
  | some fv =>
    match f.value with
    | .int n => compareToInt f.op fv n
    | .str s => compareToString f.op fv s
    | .fld g =>
      match getStructField i g with
      | none => .error .notFound
      | some (.int n) => compareToInt f.op fv n
      | some (.str s) => compareToString f.op fv s
      | some (.bool _) => .error .invalidType

/-- the body of `Query.Match`'s loop: `ok, err := f.Match(fields); if err != nil { return false }; if !ok { return false }` -/
def matchOne (f : Filter) (i : Info) : Bool :=
  match filterMatch f i with
  | .ok true => true
  | _ => false

/-- `Query.Match`: every filter matches; an error counts as no match.  The blank query matches everything. -/
def queryMatch (q : List Filter) (i : Info) : Bool := q.all (matchOne · i)

/-! ## browser.go and servers_list.go: where queries come from -/

/-- `browser.Handler.process`: `if req.Filters != "" { q, err = query.NewFromString(…) }`; the error is
logged and `q` (then `query.Blank`) is used regardless -/
def browserQuery (s : Bytes) : List Filter :=
  if s.isEmpty then []
  else match newFromString s with
    | .ok fs => fs
    | .error _ => []

def nGamevariant : Bytes := [0x67, 0x61, 0x6d, 0x65, 0x76, 0x61, 0x72, 0x69, 0x61, 0x6e, 0x74]
def nGamever : Bytes := [0x67, 0x61, 0x6d, 0x65, 0x76, 0x65, 0x72]
def nGametype : Bytes := [0x67, 0x61, 0x6d, 0x65, 0x74, 0x79, 0x70, 0x65]
def nPassword : Bytes := [0x70, 0x61, 0x73, 0x73, 0x77, 0x6f, 0x72, 0x64]
def nNumplayers : Bytes := [0x6e, 0x75, 0x6d, 0x70, 0x6c, 0x61, 0x79, 0x65, 0x72, 0x73]
def nMaxplayers : Bytes := [0x6d, 0x61, 0x78, 0x70, 0x6c, 0x61, 0x79, 0x65, 0x72, 0x73]

/-- `api.ServerFilterForm` after gin's query binding -/
structure Form where
  gameVariant : Bytes
  gameVer : Bytes
  gameType : Bytes
  hidePassworded : Bool
  hideFull : Bool
  hideEmpty : Bool
  deriving DecidableEq, Repr

/-- `maybeAddFilter` -/
def maybeAdd (filters : List Filter) (r : Except ParseErr Filter) : List Filter :=
  match r with
  | .ok f => filters ++ [f]
  | .error _ => filters

/-- `prepareQuery`: six optional filters in this order; `query.Blank` when none -/
def prepareQuery (form : Form) : List Filter :=
  let fs : List Filter := []
  let fs := if !form.gameVariant.isEmpty then maybeAdd fs (newFilter nGamevariant [0x3d] (.str form.gameVariant)) else fs
  let fs := if !form.gameVer.isEmpty then maybeAdd fs (newFilter nGamever [0x3d] (.str form.gameVer)) else fs
  let fs := if !form.gameType.isEmpty then maybeAdd fs (newFilter nGametype [0x3d] (.str form.gameType)) else fs
  let fs := if form.hidePassworded then maybeAdd fs (newFilter nPassword [0x21, 0x3d] (.int 1)) else fs
  let fs := if form.hideFull then maybeAdd fs (newFilter nNumplayers [0x21, 0x3d] (.fld nMaxplayers)) else fs
  let fs := if form.hideEmpty then maybeAdd fs (newFilter nNumplayers [0x3e] (.int 0)) else fs
  fs

/-! ## the registry and the listing -/

/-- what the listing reads of a stored `server.Server` -/
structure Record where
  addr : String
  status : Nat
  refreshedAt : FTime
  info : Info
  deriving Repr

/-- `DiscoveryStatus.Bits()`: the powers of two contained in `ds`, ascending -/
def bitsOf (ds : Nat) : List Nat := ((List.range ds).filter (ds.testBit ·)).map (2 ^ ·)

/-- `Server.HasDiscoveryStatus`: `(status & bit) == bit` -/
def hasStatus (status bit : Nat) : Bool := status &&& bit == bit

/-- membership of a record's address in `servers:refreshed` within `[after, +inf)`: `save` puts the
address there with score `RefreshedAt.UnixNano()` iff `RefreshedAt` is not the zero time; the lower
bound of `ZRANGEBYSCORE` is inclusive -/
def inRefreshedFrom (after : Int) (r : Record) : Bool :=
  match r.refreshedAt with
  | .zero => false
  | .at t => decide (after ≤ t)

/-- membership of a record's address in `servers:status:<bit>`: `save` maintains one set per member of
`ds.Members()`; a set for any other bit does not exist, i.e. is empty -/
def inStatusSet (bit : Nat) (r : Record) : Bool :=
  Facts.statusMembers.contains bit && hasStatus r.status bit

/-- `servers.Repository.Filter` for the filter set `ActiveAfter(after).WithStatus(required)`: the
intersection of the refreshed-index range (absent when `after` is the zero time) and of the `SINTER`
of the status sets of `required.Bits()` (absent when `required` is `NoStatus`), read from
`servers:items`.  Records stand for their (unique) addresses; the order is the registry's. -/
def repoFilter (recs : List Record) (after : FTime) (required : Nat) : List Record :=
  recs.filter fun r =>
    (match after with
      | .zero => true
      | .at a => inRefreshedFrom a r) &&
    (bitsOf required).all (inStatusSet · r)

/-- `listservers.UseCase.Execute`: `ActiveAfter(now − recentness)`, `WithStatus(status)`, then `query.Match(&info)` -/
def listServers (recs : List Record) (now liveness : Int) (required : Nat) (q : List Filter) : List Record :=
  (repoFilter recs (.at (now - liveness)) required).filter fun r => queryMatch q r.info

/-! ## checked: the parser with every Go index / slice expression explicit

Indices are `Int` (Go `int`): a negative index panics like one beyond the length.  Slices of a
`string` are bounded by `len`; slices of `filterBytes := []byte(filter)` are bounded by `cap ≥ len`, the
model uses the stronger bound `len` (it panics whenever Go would, possibly more often). -/

/-- result of a modelled Go function: a value, an error, a run-time panic (index / slice out of range),
or fuel exhaustion of a fuelled loop -/
inductive Chk (α : Type) where
  | ok (a : α)
  | err (e : ParseErr)
  | panic
  | hang
  deriving DecidableEq, Repr

namespace Chk
@[inline] def bind {α β : Type} : Chk α → (α → Chk β) → Chk β
  | .ok a, f => f a
  | .err e, _ => .err e
  | .panic, _ => .panic
  | .hang, _ => .hang

instance : Monad Chk where
  pure := .ok
  bind := Chk.bind

/-- a Go `(T, error)` result that cannot panic -/
def ofExcept {α : Type} : Except ParseErr α → Chk α
  | .ok a => .ok a
  | .error e => .err e
end Chk

/-- Go `s[i]`: panics unless `0 ≤ i < len(s)` -/
def goIdx (s : Bytes) (i : Int) : Chk UInt8 :=
  if 0 ≤ i then (match s[i.toNat]? with
    | some b => .ok b
    | none => .panic)
  else .panic

/-- Go `s[lo:hi]`: panics unless `0 ≤ lo ≤ hi ≤ len(s)` -/
def goSlice (s : Bytes) (lo hi : Int) : Chk Bytes :=
  if 0 ≤ lo ∧ lo ≤ hi ∧ hi ≤ (s.length : Int) then .ok ((s.take hi.toNat).drop lo.toNat) else .panic

/-- Go `s[:hi]` -/
def goSliceTo (s : Bytes) (hi : Int) : Chk Bytes := goSlice s 0 hi
/-- Go `s[lo:]` -/
def goSliceFrom (s : Bytes) (lo : Int) : Chk Bytes := goSlice s lo s.length

/-- `strings.Index(s, sep)`: the byte index of the first occurrence of `sep` in `s`, `-1` if there is none -/
def stringsIndex (sep : Bytes) : Bytes → Int
  | [] => if sep.isEmpty then 0 else -1
  | b :: r =>
    if sep.isPrefixOf (b :: r) then 0
    else
      let k := stringsIndex sep r
      if k < 0 then -1 else k + 1

/-- `scanFilter`, as written:
```go
i := strings.Index(s, " and ")
if i == -1 { return s, "" }
return s[:i], s[i+5:]
```
the index is computed on `s` and both slices are taken of `s` -/
def scanFilterChecked (s : Bytes) : Chk (Bytes × Bytes) :=
  let i := stringsIndex andSep s
  if i = -1 then .ok (s, [])
  else do
    let a ← goSliceTo s i
    let b ← goSliceFrom s (i + 5)
    pure (a, b)

/-- the three stages of `filter.Parse` -/
inductive Stage where
  | name | op | value
  deriving DecidableEq, Repr

/-- the local variables of `filter.Parse` -/
structure PState where
  i : Int
  j : Int
  stage : Stage
  fieldName : Bytes
  op : Bytes
  deriving DecidableEq, Repr

/-- the body of `for _, char := range filterBytes { … j++ }` -/
def parseStep (filterBytes : Bytes) (st : PState) (char : UInt8) : Chk PState :=
  if isOpByte char then
    if st.stage = .name then do
      let fieldName ← goSlice filterBytes st.i st.j     -- string(filterBytes[i:j])
      pure { st with fieldName := fieldName, stage := .op, i := st.j, j := st.j + 1 }
    else pure { st with j := st.j + 1 }
  else if st.stage = .op then do
    let op ← goSlice filterBytes st.i st.j              -- string(filterBytes[i:j])
    pure { st with op := op, stage := .value, i := st.j, j := st.j + 1 }
  else pure { st with j := st.j + 1 }

/-- `for _, char := range filterBytes` (the range expression is evaluated once; no index expression) -/
def parseLoop (filterBytes : Bytes) : List UInt8 → PState → Chk PState
  | [], st => .ok st
  | char :: rest, st => do
    let st' ← parseStep filterBytes st char
    parseLoop filterBytes rest st'

/-- `parseRawFilterValue`, with the short-circuit `&&` chain
`len(rawVal) > 2 && rawVal[0] == '\'' && rawVal[len(rawVal)-1] == '\''` and `rawVal[1 : len(rawVal)-1]` explicit -/
def parseValueChecked (rawVal : Bytes) : Chk FVal :=
  match atoi rawVal with
  | some n => .ok (.int n)
  | none => do
    let quoted : Bool ←
      (if rawVal.length > 2 then do
        let b0 ← goIdx rawVal 0
        if b0 == 0x27 then do
          let bl ← goIdx rawVal ((rawVal.length : Int) - 1)
          pure (bl == 0x27)
        else pure false
      else pure false)
    if quoted then do
      let s ← goSlice rawVal 1 ((rawVal.length : Int) - 1)
      pure (.str s)
    else if isQueryField rawVal then pure (.fld rawVal)
    else .err .value

/-- `filter.Parse`, as written: the loop, the format check, `filterBytes[i:]`, `New` -/
def parseChecked (filter : Bytes) : Chk Filter := do
  let st ← parseLoop filter filter ⟨0, 0, .name, [], []⟩
  if st.fieldName.isEmpty || st.stage != .value then .err .format
  else do
    let rawVal ← goSliceFrom filter st.i                 -- string(filterBytes[i:])
    let v ← parseValueChecked rawVal
    Chk.ofExcept (newFilter st.fieldName st.op v)

/-- the loop of `NewFromString`, scanning and parsing interleaved as in the source (a parse error returns
before the rest is scanned).  Every round consumes at least one byte; `fuel = len + 1` is never exhausted. -/
def newFromStringLoop : Nat → Bytes → List Filter → Chk (List Filter)
  | 0, _, _ => .hang
  | fuel + 1, unscanned, filters =>
    if unscanned.length > 0 then do
      let (rawFilter, unscanned') ← scanFilterChecked unscanned
      let parsed ← parseChecked rawFilter
      newFromStringLoop fuel unscanned' (filters ++ [parsed])
    else .ok filters

/-- `query.NewFromString` followed by `query.New` -/
def newFromStringChecked (query : Bytes) : Chk (List Filter) := do
  let filters ← newFromStringLoop (query.length + 1) query []
  if filters.length = 0 then .err .empty else .ok filters

end Swat4.Filter
