import Swat4.Base.Bytes
/-!
The read loop of the UDP server that carries the reporter (`pkg/udp/udpserver/server.go`, `Server.listen`):

    n, raddr, err := s.conn.ReadFromUDP(buffer)      -- buffer := make([]byte, s.bufferSize)
    …
    if n > 0 && s.handler != nil { payload := copy of buffer[:n]; go s.handler.Handle(ctx, s.conn, raddr, payload) }

A datagram longer than the buffer is cut to the buffer size by the read; an empty read is not handed to the handler and
does not end the loop.  `deliver` is what the handler is called with, if it is called.
-/
namespace Swat4.UdpServer

/-- what the handler sees of a datagram received through a buffer of `bufSize` bytes: nothing for an empty read,
otherwise the first `bufSize` bytes -/
def deliver (bufSize : Nat) (payload : Bytes) : Option Bytes :=
  if (payload.take bufSize).isEmpty then none else some (payload.take bufSize)

/-- the component's default buffer size (`reporter.Config.BufferSize`, flag `--reporter-buffer-size`), also what the harness configures -/
def defaultBufferSize : Nat := 2048

theorem deliver_nonempty {n : Nat} {p b : Bytes} (h : deliver n p = some b) : b ≠ [] := by
  unfold deliver at h
  split at h
  · cases h
  · rename_i hne
    cases h
    intro hb
    simp [hb] at hne

theorem deliver_prefix {n : Nat} {p b : Bytes} (h : deliver n p = some b) : b = p.take n := by
  unfold deliver at h
  split at h
  · cases h
  · cases h; rfl

/-- a datagram that fits is delivered whole, including one of exactly the buffer's size -/
theorem deliver_fits {n : Nat} {p : Bytes} (hp : p ≠ []) (hn : p.length ≤ n) : deliver n p = some p := by
  unfold deliver
  have : p.take n = p := List.take_of_length_le hn
  simp [this, hp]

theorem deliver_empty (n : Nat) : deliver n [] = none := by simp [deliver]

end Swat4.UdpServer
