import Swat4.Spec.Registry
import Swat4.Gen.Facts
import Std.Data.ExtTreeSet
/-!
# Redis-level store (L2): the key families the repositories use, and their atomic steps

`servers:items / updated / refreshed / status:* / lock:*`, `instances:items / updated`,
`probes:items / queue` as finite maps.  An *atomic step* is what Redis executes without
interleaving: a single command, or one `MULTI … EXEC` batch.  JSON (de)serialisation of the
stored records is taken to be the identity (trusted base).
-/
namespace Swat4
open Std

/-- a lock cell `servers:lock:<addr>`: the holder's token; `ttl` = the key carries an expiry -/
structure LockCell where
  token : Nat
  ttl : Bool
  deriving DecidableEq, Repr, Inhabited

structure RStore where
  items : ExtTreeMap Nat Server := ∅          -- servers:items      addr ↦ record
  updated : ExtTreeMap Nat Int := ∅           -- servers:updated    addr ↦ score
  refreshed : ExtTreeMap Nat Int := ∅         -- servers:refreshed  addr ↦ score
  statusSet : ExtTreeSet Nat := ∅             -- servers:status:<bit>: member (addr, bit) encoded addr*16+bitIndex
  locks : ExtTreeMap Nat LockCell := ∅        -- servers:lock:<addr>
  lockVer : ExtTreeMap Nat Nat := ∅           -- ghost: modification counter of each lock key (what WATCH observes)
  lockLast : ExtTreeMap Nat (Option Nat) := ∅ -- ghost: what the last modification of each lock key wrote (token or deletion)
  insItems : ExtTreeMap Nat Addr := ∅         -- instances:items    id ↦ address
  insUpdated : ExtTreeMap Nat Int := ∅        -- instances:updated  id ↦ score
  pItems : ExtTreeMap Nat (Probe × GoTime) := ∅  -- probes:items    id ↦ (probe, expires)
  pQueue : ExtTreeMap Nat Int := ∅            -- probes:queue       id ↦ ready score

namespace RStore

/-- bit index 0..8 of the status members, in `ds.Members()` order -/
def bitIdx : List Nat := [0, 1, 2, 3, 4, 5, 6, 7, 8]

@[inline] def stKey (k b : Nat) : Nat := k * 16 + b

@[inline] def hasBit (s : Status) (b : Nat) : Bool := s.getLsbD b

/-- the nine `SADD`/`SREM` of a `save` batch -/
def setStatus (ss : ExtTreeSet Nat) (k : Nat) (s : Status) : ExtTreeSet Nat :=
  bitIdx.foldl (fun acc b => if hasBit s b then acc.insert (stKey k b) else acc.erase (stKey k b)) ss

/-- the nine `SREM` of a `remove` batch -/
def clearStatus (ss : ExtTreeSet Nat) (k : Nat) : ExtTreeSet Nat :=
  bitIdx.foldl (fun acc b => acc.erase (stKey k b)) ss

/-- `save`'s MULTI/EXEC: HSET item, ZADD updated, ZADD|ZREM refreshed, 9 × SADD|SREM -/
def saveBatch (st : RStore) (svr : Server) (now : Int) : RStore :=
  let k := svr.addr.key
  { st with
    items := st.items.insert k svr
    updated := st.updated.insert k now
    refreshed := match svr.refreshedAt with
      | none => st.refreshed.erase k
      | some t => st.refreshed.insert k t
    statusSet := setStatus st.statusSet k svr.status }

/-- `remove`'s MULTI/EXEC: HDEL, ZREM, ZREM, 9 × SREM -/
def removeBatch (st : RStore) (k : Nat) : RStore :=
  { st with
    items := st.items.erase k
    updated := st.updated.erase k
    refreshed := st.refreshed.erase k
    statusSet := clearStatus st.statusSet k }

def verOf (st : RStore) (k : Nat) : Nat := (st.lockVer[k]?).getD 0

/-- a modification of lock key `k` that writes `w` (`some token` or deletion): bumps the WATCH version -/
def touchLock (st : RStore) (k : Nat) (w : Option Nat) : RStore :=
  { st with lockVer := st.lockVer.insert k (st.verOf k + 1), lockLast := st.lockLast.insert k w }

def lastOf (st : RStore) (k : Nat) : Option Nat := (st.lockLast[k]?).getD none

/-- does the `SET key token NX EX <lease>` of `redislock.Guard` give the key a TTL?  Redis sets one iff the duration
argument is positive; the argument is the repository's lease option, whose value in a repository as `servers.New` builds
it is `Facts.lockLeaseMs` (regenerated from the source on every run).  A lease of 0 would make this `false`, and then
no lock cell could ever expire (`lockExpire` below). -/
def leaseHasTTL : Bool := decide (0 < Facts.lockLeaseMs)

/-- the lease extracted from the source is positive: the one place where the fact enters the model's lock cells -/
theorem leaseHasTTL_eq : leaseHasTTL = true := by decide

/-- `SET key token NX EX`: succeeds iff the key is absent; the key gets a TTL iff the lease is positive (`leaseHasTTL`) -/
def lockSetNX (st : RStore) (k tok : Nat) : RStore × Bool :=
  match st.locks[k]? with
  | some _ => (st, false)
  | none => ({ st.touchLock k (some tok) with locks := st.locks.insert k ⟨tok, leaseHasTTL⟩ }, true)

/-- `DEL key` -/
def lockDel (st : RStore) (k : Nat) : RStore :=
  match st.locks[k]? with
  | none => st
  | some _ => { st.touchLock k none with locks := st.locks.erase k }

/-- the lease expires: key removed — **only if the key carries a TTL** (a key without one never expires in Redis: the
event has no effect on it); `dirties` = whether expiry invalidates watchers (Redis ≥ 6.0.9, miniredis) -/
def lockExpire (st : RStore) (k : Nat) (dirties : Bool) : RStore :=
  match st.locks[k]? with
  | none => st
  | some c =>
    if c.ttl then
      if dirties then { st.touchLock k none with locks := st.locks.erase k } else { st with locks := st.locks.erase k }
    else st

/-- instances `Add`: HSET + ZADD -/
def insAddBatch (st : RStore) (id : Nat) (a : Addr) (now : Int) : RStore :=
  { st with insItems := st.insItems.insert id a, insUpdated := st.insUpdated.insert id now }

/-- instances `Remove`: HDEL + ZREM -/
def insRemoveBatch (st : RStore) (id : Nat) : RStore :=
  { st with insItems := st.insItems.erase id, insUpdated := st.insUpdated.erase id }

/-- instances `Clear`: ZREM keys… + HDEL keys… -/
def insClearBatch (st : RStore) (ids : List Nat) : RStore :=
  ids.foldl insRemoveBatch st

/-- probes `enqueue`: HSET + ZADD -/
def enqueueBatch (st : RStore) (id : Nat) (p : Probe) (expires : GoTime) (ready : Int) : RStore :=
  { st with pItems := st.pItems.insert id (p, expires), pQueue := st.pQueue.insert id ready }

/-- probes `pop`: ZREM keys… + HMGET keys… + HDEL keys… -/
def popBatch (st : RStore) (ids : List Nat) : RStore × List (Option (Probe × GoTime)) :=
  (ids.foldl (fun s id => { s with pItems := s.pItems.erase id, pQueue := s.pQueue.erase id }) st,
   ids.map fun id => st.pItems[id]?)

/-! ## index reads of `Filter` -/

/-- `ZRANGEBYSCORE key lo hi` over a score map; bounds as predicates -/
def zrangeBy (m : ExtTreeMap Nat Int) (p : Int → Bool) : List Nat :=
  (m.toList.filter fun kv => p kv.2).map (·.1)

/-- `SINTER` of the status sets of all bits in `mask`, computed over the members of the encoded set -/
def sinter (st : RStore) (mask : Status) : List Nat :=
  let bits := bitIdx.filter (hasBit mask)
  -- candidates: every address that occurs in any status set
  let cands := (st.statusSet.toList.map (· / 16)).eraseDups
  cands.filter fun k => bits.all fun b => st.statusSet.contains (stKey k b)

/-- `SUNION` -/
def sunion (st : RStore) (mask : Status) : List Nat :=
  let bits := bitIdx.filter (hasBit mask)
  let cands := (st.statusSet.toList.map (· / 16)).eraseDups
  cands.filter fun k => bits.any fun b => st.statusSet.contains (stKey k b)

/-- `slice.Intersection` (as a set; order unspecified in Go) -/
def intersection : List (List Nat) → List Nat
  | [] => []
  | s :: rest => (s.eraseDups).filter fun x => rest.all fun t => t.contains x

/-- `slice.Difference` -/
def difference (base : List Nat) (others : List (List Nat)) : List Nat :=
  base.filter fun x => !(others.any fun t => t.contains x)

/-- `filterServerKeys` -/
def filterKeys (st : RStore) (fs : FilterSet) : List Nat :=
  let inc : List (List Nat) :=
    (match fs.activeBefore with | some b => [zrangeBy st.refreshed fun s => s < b] | none => []) ++
    (match fs.activeAfter with | some a => [zrangeBy st.refreshed fun s => a ≤ s] | none => []) ++
    (match fs.updatedBefore with | some b => [zrangeBy st.updated fun s => s < b] | none => []) ++
    (match fs.updatedAfter with | some a => [zrangeBy st.updated fun s => a ≤ s] | none => []) ++
    (if fs.withStatus ≠ 0#9 then [sinter st fs.withStatus] else [])
  let exc : List (List Nat) := if fs.noStatus ≠ 0#9 then [sunion st fs.noStatus] else []
  let inc := if inc.isEmpty then [st.updated.toList.map (·.1)] else inc
  difference (intersection inc) exc

/-- `HMGET servers:items keys…`, nil items skipped -/
def hmgetItems (st : RStore) (keys : List Nat) : List Server :=
  keys.filterMap fun k => st.items[k]?

/-! ## abstraction and consistency -/

/-- the abstract state a consistent store stands for -/
def abs (st : RStore) : AbsState :=
  { servers := st.items.toList.foldl (fun m kv => m.insert kv.1 ⟨kv.2, (st.updated[kv.1]?).getD 0⟩) ∅
    instances := st.insItems.toList.foldl (fun m kv => m.insert kv.1 (kv.2, (st.insUpdated[kv.1]?).getD 0)) ∅
    queue := st.pQueue.toList.filterMap fun kv => (st.pItems[kv.1]?).map fun pe => ⟨kv.1, pe.1, kv.2, pe.2⟩
    nextId := 0 }

/-- C10's invariant: indexes agree with records; lock keys carry a TTL -/
structure Consistent (st : RStore) : Prop where
  upd : ∀ k : Nat, k ∈ st.updated ↔ k ∈ st.items
  ref : ∀ (k : Nat) (t : Int), st.refreshed[k]? = some t ↔ ∃ r : Server, st.items[k]? = some r ∧ r.refreshedAt = some t
  sts : ∀ (k b : Nat), b < 9 → (stKey k b ∈ st.statusSet ↔ ∃ r : Server, st.items[k]? = some r ∧ hasBit r.status b = true)
  keyed : ∀ (k : Nat) (r : Server), st.items[k]? = some r → r.addr.key = k
  ins : ∀ id : Nat, id ∈ st.insUpdated ↔ id ∈ st.insItems
  prb : ∀ id : Nat, id ∈ st.pQueue ↔ id ∈ st.pItems
  ttl : ∀ (k : Nat) (c : LockCell), st.locks[k]? = some c → c.ttl = true

/-- executable version of `Consistent`, evaluated by the driver on the implementation's raw keyspace
(status-set members outside bit range 0..8 or with junk keys are reported by the dump parser) -/
def consistentB (st : RStore) : Bool :=
  (st.updated.toList.all fun kv => st.items.contains kv.1) &&
  (st.items.toList.all fun kv => st.updated.contains kv.1) &&
  (st.items.toList.all fun kv => kv.2.addr.key == kv.1) &&
  (st.refreshed.toList.all fun kv => match st.items[kv.1]? with | some r => r.refreshedAt == some kv.2 | none => false) &&
  (st.items.toList.all fun kv => match kv.2.refreshedAt with | some t => st.refreshed[kv.1]? == some t | none => !st.refreshed.contains kv.1) &&
  (st.statusSet.toList.all fun e => match st.items[e / 16]? with | some r => e % 16 < 9 && hasBit r.status (e % 16) | none => false) &&
  (st.items.toList.all fun kv => bitIdx.all fun b => hasBit kv.2.status b == st.statusSet.contains (stKey kv.1 b)) &&
  (st.insUpdated.toList.all fun kv => st.insItems.contains kv.1) &&
  (st.insItems.toList.all fun kv => st.insUpdated.contains kv.1) &&
  (st.pQueue.toList.all fun kv => st.pItems.contains kv.1) &&
  (st.pItems.toList.all fun kv => st.pQueue.contains kv.1) &&
  (st.locks.toList.all fun kv => kv.2.ttl)

end RStore
end Swat4
