import Swat4.Model.Heartbeat
import Swat4.Model.HarnessCfg
/-! The heartbeat model's options as the harness configures the real `reportserver` use case. -/
namespace Swat4
namespace Heartbeat

/-- the options the reporter drivers (C04, C05, C06) run the heartbeat model with: `reportserver.UseCaseOptions.
MaxProbeRetries` = the harness' `RevivalRetries` (`harness/internal/world/world.go:71` through `:197-198`) -/
def harnessCfg : Cfg := ⟨Harness.revivalRetries⟩

end Heartbeat
end Swat4
