/-!
# Model of `pkg/swat/styles` (`styles.go`): `ToHTML` and `Clean`

Go's `regexp` iterates runes, so the model works on code points (`List Char`); inputs are valid
UTF-8 (heartbeat values pass `bytes.ToValidUTF8`, probe values are latin-1 decoded).

The four concrete regular expressions are re-modelled as hand-written scanners.  Each scanner
answers, for the text starting at the current position, the length of the match that Go's
leftmost-first (Perl-like) matcher selects there (`0` = no match at this position); `replaceAll`
is the leftmost, non-overlapping left-to-right sweep of `Regexp.ReplaceAllString`.

Case folding (`(?i)`): Go folds character classes with Unicode *simple folding*, so under `(?i)`
the class `\w` contains, besides `[0-9A-Za-z_]`, the two code points that fold to an ASCII letter:
U+017F (long s) and U+212A (Kelvin sign); hence `[^\w]` does not match them (observed on the real
`regexp`).  `c`, `u`, `b`, `a`–`f` have no non-ASCII fold partners.  Negated classes match `\n`
(`syntax.Perl` sets `ClassNL`).
-/
namespace Swat4.Styles

/-! ## character classes -/

/-- `(?i)c` -/
def isC (c : Char) : Bool := c == 'c' || c == 'C'
/-- `(?i)[bu]` -/
def isBU (c : Char) : Bool := c == 'b' || c == 'B' || c == 'u' || c == 'U'
/-- `(?i)[cub]` -/
def isCUB (c : Char) : Bool := isC c || isBU c
/-- `(?i)[a-f0-9]` -/
def isHex (c : Char) : Bool :=
  (48 ≤ c.toNat && c.toNat ≤ 57) || (97 ≤ c.toNat && c.toNat ≤ 102) || (65 ≤ c.toNat && c.toNat ≤ 70)
/-- `(?i)\w`: `[0-9A-Za-z_]` and the two code points whose simple fold is an ASCII letter -/
def isWordFold (c : Char) : Bool :=
  (48 ≤ c.toNat && c.toNat ≤ 57) || (65 ≤ c.toNat && c.toNat ≤ 90) || (97 ≤ c.toNat && c.toNat ≤ 122) ||
    c == '_' || c.toNat == 0x17F || c.toNat == 0x212A
/-- `[^\[\]]` -/
def nonBracket (c : Char) : Bool := c != '[' && c != ']'

/-! ## `html.EscapeString` -/

def escapeChar (c : Char) : List Char :=
  if c = '<' then ['&', 'l', 't', ';']
  else if c = '>' then ['&', 'g', 't', ';']
  else if c = '&' then ['&', 'a', 'm', 'p', ';']
  else if c = '\'' then ['&', '#', '3', '9', ';']
  else if c = '"' then ['&', '#', '3', '4', ';']
  else [c]

def escape : List Char → List Char
  | [] => []
  | c :: t => escapeChar c ++ escape t

/-! ## the scanners -/

/-- length of the maximal prefix free of `[` and `]` (`[^\[\]]*`, greedy or lazy alike: the next
item of every expression using it is `\]`) -/
def runLen : List Char → Nat
  | [] => 0
  | c :: t => if nonBracket c then runLen t + 1 else 0

/-- `[^\w][^\[\]]*\]` at the head of the text: length consumed, `0` = no match.  The first
character may itself be a bracket (`[^\w]` matches `[` and `]`). -/
def tailGroup : List Char → Nat
  | [] => 0
  | x :: t => if isWordFold x then 0 else if t[runLen t]? = some ']' then runLen t + 2 else 0

/-- pass 1 of `ToHTML`: `(?i)\[(?:\\)?[bu]\]` -/
def m1 : List Char → Nat
  | a :: b :: c :: t =>
    if a = '[' then
      if b = '\\' then (match t with
        | d :: _ => if isBU c && d == ']' then 4 else 0
        | [] => 0)
      else if isBU b && c == ']' then 3 else 0
    else 0
  | _ => 0

/-- after `(?i)c` in pass 3: `(?:[^\w][^\[\]]*)?\]` — the optional group is greedy, so
`[c]abc]` matches as a whole (group = `]abc`), and `[c]abc` falls back to `[c]` -/
def afterC3 (u : List Char) : Nat :=
  if tailGroup u > 0 then tailGroup u
  else match u with
    | d :: _ => if d = ']' then 1 else 0
    | [] => 0

/-- after `\[(?:\\)?` in pass 3: `(?i)c(?:[^\w][^\[\]]*)?\]` -/
def fromC3 : List Char → Nat
  | c :: u => if isC c && afterC3 u > 0 then afterC3 u + 1 else 0
  | [] => 0

/-- pass 3 of `ToHTML`: `(?i)\[(?:\\)?c(?:[^\w][^\[\]]*)?\]` -/
def m3 : List Char → Nat
  | a :: b :: t =>
    if a = '[' then
      if b = '\\' then (if fromC3 t > 0 then fromC3 t + 2 else 0)
      else if fromC3 (b :: t) > 0 then fromC3 (b :: t) + 1 else 0
    else 0
  | _ => 0

/-- first alternative of `Clean`'s expression: `(?i)\[[\\/]?[cub]\]` -/
def mCalt1 : List Char → Nat
  | a :: b :: c :: t =>
    if a = '[' then
      if b == '\\' || b == '/' then (match t with
        | d :: _ => if isCUB c && d == ']' then 4 else 0
        | [] => 0)
      else if isCUB b && c == ']' then 3 else 0
    else 0
  | _ => 0

/-- second alternative: `(?i)\[c[^\w][^\[\]]*?\]` -/
def mCalt2 : List Char → Nat
  | a :: c :: u => if a == '[' && isC c && tailGroup u > 0 then tailGroup u + 2 else 0
  | _ => 0

/-- `Clean`: `(?i)(\[[\\/]?[cub]\]|\[c[^\w][^\[\]]*?\])`, first alternative preferred -/
def mC (xs : List Char) : Nat := if mCalt1 xs > 0 then mCalt1 xs else mCalt2 xs

/-- the hex digits and the text of pass 2's match at the head:
`(?i)\[c[^\w]([a-f0-9]{6})\]([^\[]+)` ↦ `some (hex, body, rest)` -/
def m2 : List Char → Option (List Char × List Char × List Char)
  | a :: c :: x :: t =>
    if a == '[' && isC c && !isWordFold x && (t.take 6).length == 6 && (t.take 6).all isHex
        && t[6]? == some ']' && !((t.drop 7).takeWhile (· != '[')).isEmpty then
      some (t.take 6, (t.drop 7).takeWhile (· != '['), (t.drop 7).dropWhile (· != '['))
    else none
  | _ => none

/-! ## `ReplaceAllString` -/

/-- replace every leftmost non-overlapping match of a deleting scanner by the empty string.
`fuel` bounds the number of steps; with `fuel > length` it is never exhausted (on exhaustion
the remaining text is returned unchanged). -/
def delAll (m : List Char → Nat) : Nat → List Char → List Char
  | 0, xs => xs
  | _ + 1, [] => []
  | f + 1, c :: t => if m (c :: t) = 0 then c :: delAll m f t else delAll m f ((c :: t).drop (m (c :: t)))

def spanOpen (hex : List Char) : List Char :=
  ['<', 's', 'p', 'a', 'n', ' ', 's', 't', 'y', 'l', 'e', '=', '"', 'c', 'o', 'l', 'o', 'r', ':', '#'] ++ hex ++ [';', '"', '>']
def spanClose : List Char := ['<', '/', 's', 'p', 'a', 'n', '>']

/-- pass 2: replace every match by `<span style="color:#$1;">$2</span>` -/
def spanAll : Nat → List Char → List Char
  | 0, xs => xs
  | _ + 1, [] => []
  | f + 1, c :: t =>
    match m2 (c :: t) with
    | some (hex, body, rest) => spanOpen hex ++ body ++ spanClose ++ spanAll f rest
    | none => c :: spanAll f t

/-- `Regexp.MatchString` -/
def hasMatch (m : List Char → Nat) : List Char → Bool
  | [] => false
  | c :: t => m (c :: t) > 0 || hasMatch m t

/-! ## `ToHTML` -/

def pass1 (xs : List Char) : List Char := delAll m1 (xs.length + 1) xs
def pass2 (xs : List Char) : List Char := spanAll (xs.length + 1) xs
def pass3 (xs : List Char) : List Char := delAll m3 (xs.length + 1) xs

/-- `styles.ToHTML` -/
def toHTML (h : List Char) : List Char := pass3 (pass2 (pass1 (escape h)))

/-! ## `Clean` -/

/-- `unicode.IsSpace` -/
def isSpace (c : Char) : Bool :=
  let n := c.toNat
  (9 ≤ n && n ≤ 13) || n == 0x20 || n == 0x85 || n == 0xA0 || n == 0x1680 || (0x2000 ≤ n && n ≤ 0x200a) ||
    n == 0x2028 || n == 0x2029 || n == 0x202f || n == 0x205f || n == 0x3000

/-- `strings.TrimSpace` -/
def trimSpace (xs : List Char) : List Char :=
  (((xs.dropWhile isSpace).reverse).dropWhile isSpace).reverse

/-- `for r.MatchString(text) { text = r.ReplaceAllString(text, "") }` with a step bound -/
def cleanLoop : Nat → List Char → List Char
  | 0, xs => xs
  | f + 1, xs => if hasMatch mC xs then cleanLoop f (delAll mC (xs.length + 1) xs) else xs

/-- `styles.Clean` -/
def clean (h : List Char) : List Char := trimSpace (cleanLoop (h.length + 1) h)

end Swat4.Styles
