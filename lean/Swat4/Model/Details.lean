import Swat4.Model.Heartbeat
import Swat4.Model.GS1
import Swat4.Gen.Facts
/-!
# The details prober after the query (`internal/prober/probers/detailsprober`)

`DetailsProber.Probe` = `gs1.Query` (model: `GS1.runQuery`) → `details.NewDetailsFromParams`
(`params.Unmarshal` into `[]Player`, `[]Objective`, `Info`, in that order; the first value that does
not parse ends it) → `Details.Validate` (go-playground validator v10 with the custom `ratio`
validator) → result class.

`params.Unmarshal`, `parseIntValue`/`parseBoolValue`, the tags `required`, `gt=0`, `gte=0`, `ratio`
are the definitions of `Model/Heartbeat.lean` (`unmarshal`, `parseVal`, `checkTag`, `ratioOk`); this
file adds the tag `oneof=…`, the three schemas and the struct-level semantics of the validator:

* `required` on the struct-valued field `Info`: `validator.New()` is built without
  `WithRequiredStructEnabled`, so `traverseField` skips the tag on a non-pointer struct
  (`ct = ct.next`) and goes on to validate the nested struct's own fields;
* `dive` on `[]Player` / `[]Objective`: every element is validated as a struct; a nil or empty slice
  passes;
* all field errors are collected, the result is an error iff there is at least one.

Partial operations of this stage in the Go source (generated inventory `Facts.detailsPartialOps`):
`players[i]`, `details.Players[i]`, `objectives[i]`, `details.Objectives[i]` with `i` ranging over
the very slice that was used for `make` — in range by construction, modelled by `List.mapM`; the
map read `params[paramName]` (total in Go); no slicing, no type assertion on the `Probe` path.
Everything else is library code that returns `(value, ok)`/`error` (`strconv`, `strings.Cut`).
So the outcome type of this stage has no `panic` constructor: `Outcome` below.

Generated facts used: `Facts.detailsInfoSchema`, `detailsPlayerSchema`, `detailsObjectiveSchema`,
`detailsTopSchema` (`C07.details_facts_ok` states what is assumed about them).
-/
namespace Swat4.DetailsProbe
open Swat4 Swat4.Heartbeat

/-! ## `oneof=a b c` on an integer field

`isOneOf`: the parameter is split at white space, the field value is rendered with
`strconv.FormatInt(v, 10)` and compared with every item as a string.  An item equals such a
rendering iff it is a canonical decimal (`0`, or digits without a leading zero, with `-` only before
a non-zero number), so the items are read as canonical decimals and all others can never match. -/

/-- value of a run of decimal digit characters -/
def digitsC : List Char → Nat → Option Nat
  | [], acc => some acc
  | c :: cs, acc => if c.isDigit then digitsC cs (acc * 10 + (c.toNat - 48)) else none

/-- a canonical decimal natural number: `0`, or digits not starting with `0` -/
def canonNat (t : List Char) : Option Nat :=
  match t with
  | [] => none
  | [c] => digitsC [c] 0
  | c :: _ => if c = '0' then none else digitsC t 0

/-- the integer whose `strconv.FormatInt(·, 10)` is the token, if any -/
def canonInt (t : List Char) : Option Int :=
  match t with
  | '-' :: r =>
    match canonNat r with
    | some (n + 1) => some (Int.negSucc n)
    | _ => none
  | _ => (canonNat t).map Int.ofNat

/-- split at spaces (empty items included) -/
def splitOnSpace : List Char → List Char → List (List Char)
  | [], cur => [cur]
  | c :: cs, cur => if c = ' ' then cur :: splitOnSpace cs [] else splitOnSpace cs (cur ++ [c])

def oneofPrefix : List Char := ['o', 'n', 'e', 'o', 'f', '=']

/-- `some vals` for a tag `oneof=…`: the integers an int field may take -/
def oneofVals (tag : String) : Option (List Int) :=
  let cs := tag.toList
  if oneofPrefix.isPrefixOf cs then
    some (((splitOnSpace (cs.drop oneofPrefix.length) []).filter fun t => !t.isEmpty).filterMap canonInt)
  else none

/-- one `validate` tag on one field value: `oneof=…` here, the others as in the reporter model.
Combinations the structs do not use are `false` (`C07.details_facts_ok`: only supported ones occur). -/
def checkTag (v : Val) (tag : String) : Bool :=
  match oneofVals tag with
  | some vals =>
    match v with
    | .int n => vals.contains n
    | _ => false
  | none => Heartbeat.checkTag v tag

/-- `validate.Struct` on a flat struct: every tag of every field -/
def validate (schema : Schema) (f : Fields) : Bool :=
  (schema.zip f).all fun ((_, _, _, tags), v) => tags.all (checkTag v)

/-! ## `details.NewDetailsFromParams` -/

def infoSchema : Schema := Facts.detailsInfoSchema
def playerSchema : Schema := Facts.detailsPlayerSchema
def objectiveSchema : Schema := Facts.detailsObjectiveSchema

def kName : Bytes := [0x6e, 0x61, 0x6d, 0x65]
def kStatus : Bytes := [0x73, 0x74, 0x61, 0x74, 0x75, 0x73]

/-- an objective of `gs1.Response` as the map `{"name": …, "status": …}` that `expandPayload` builds -/
def objMap (o : Bytes × Bytes) : FieldMap := [(kName, o.1), (kStatus, o.2)]

/-- `NewDetailsFromParams(resp.Fields, resp.Players, resp.Objectives)`: players, then objectives, then
the info; `none` = the first `params.Unmarshal` error -/
def newDetailsFromParams (r : GS1.Response) : Option Details :=
  match r.players.mapM (unmarshal playerSchema) with
  | none => none
  | some ps =>
    match (r.objectives.map objMap).mapM (unmarshal objectiveSchema) with
    | none => none
    | some os =>
      match unmarshal infoSchema r.fields with
      | none => none
      | some i => some ⟨i, ps, os⟩

/-! ## `Details.Validate` -/

/-- the nested `Info` struct is validated field by field when its own tags are at most `required`
(skipped on a non-pointer struct, see the header) -/
def infoValidated : Bool :=
  match Facts.detailsTopSchema.lookup "Info" with
  | some (_, tags) => tags.all (· = "required")
  | none => false

/-- the elements of the slice field are validated when it carries `dive` -/
def dives (field : String) : Bool :=
  match Facts.detailsTopSchema.lookup field with
  | some (_, tags) => tags.contains "dive"
  | none => false

def validateDetails (d : Details) : Bool :=
  (!infoValidated || validate infoSchema d.info) &&
  (!dives "Players" || d.players.all (validate playerSchema)) &&
  (!dives "Objectives" || d.objectives.all (validate objectiveSchema))

/-! ## the stage and the whole probe -/

/-- what the post-query stage makes of a decoded response -/
inductive Outcome where
  | ok (d : Details)
  | errParse          -- `ErrParseFailed`
  | errValidate       -- `ErrValidationFailed`
  deriving DecidableEq, Repr

def detailsOf (r : GS1.Response) : Outcome :=
  match newDetailsFromParams r with
  | none => .errParse
  | some d => if validateDetails d then .ok d else .errValidate

/-- result of `DetailsProber.Probe` against a responder that sends `ds` and then stays silent -/
inductive ProbeResult where
  | ok (d : Details)
  | errTimeout        -- `ErrQueryTimeout`: the query error is `os.ErrDeadlineExceeded`
  | errQuery          -- `ErrQueryFailed`: any other query error (`incomplete`, `malformed`)
  | errParse
  | errValidate
  | panic
  | hang
  deriving DecidableEq, Repr

def probe (ds : List Bytes) : ProbeResult :=
  match GS1.runQuery ds with
  | .response r =>
    match detailsOf r with
    | .ok d => .ok d
    | .errParse => .errParse
    | .errValidate => .errValidate
  | .error _ => .errQuery
  | .timeout => .errTimeout
  | .panic => .panic
  | .hang => .hang

end Swat4.DetailsProbe
