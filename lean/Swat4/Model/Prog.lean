import Swat4.Spec.Registry
/-!
# Use cases as programs over repository calls

A use case (`internal/core/usecases/*`) is a `Prog`: a tree of repository calls (and clock
reads) with continuations.  The same program has

* a sequential semantics `Prog.run` (run to completion against an `AbsState`, clock fixed), used
  by C04/C05/C11/C15, and
* a small-step semantics (`Prog.step1`: perform the head call), used by the interleaving /
  crash / fault properties C13, C14, C16, where several programs take turns and the clock may
  tick between their calls.  That each repository call is atomic is C09's theorem.
-/
namespace Swat4

/-- repository calls and clock reads, indexed by the type of their reply -/
inductive Call : Type → Type where
  | now : Call Int                                                        -- `clock.Now()`
  | getServer (a : Addr) : Call (Except RErr Server)
  | addServer (svr : Server) (res : Resolver) : Call (Except RErr Server)
  | updateServer (svr : Server) (res : Resolver) : Call (Except RErr Server)
  | removeServer (svr : Server) (res : Resolver) : Call (Except RErr Unit)
  | filterServers (fs : FilterSet) : Call (Except RErr (List Server))
  | insAdd (i : Instance) : Call (Except RErr Unit)
  | insGet (id : Nat) : Call (Except RErr Instance)
  | insRemove (id : Nat) : Call (Except RErr Unit)
  | insClear (before : GoTime) : Call (Except RErr Nat)
  | enqueue (p : Probe) (after before : GoTime) : Call (Except RErr Unit)
  | popMany (n : Int) : Call (Except RErr (List Probe × Nat))
  /-- `Update` whose conflict callback reads the clock itself (`HandleSuccess` calls `clock.Now()`):
  the callback is given the clock value at the call's commit -/
  | updateServerT (svr : Server) (res : Int → Resolver) : Call (Except RErr Server)
  /-- the first storage command of `Filter`: the index reads (which addresses are selected) -/
  | scanServers (fs : FilterSet) : Call (Except RErr (List Server))
  /-- the second storage command of `Filter`: `HMGET` of the selected addresses — the records as they are *now*;
  addresses removed in the meantime are skipped -/
  | fetchServers (addrs : List Addr) : Call (Except RErr (List Server))

/-- atomic effect of a call on the abstract state at clock value `now` (healthy storage) -/
def Call.exec : {β : Type} → Call β → AbsState → Int → AbsState × β
  | _, .now, s, t => (s, t)
  | _, .getServer a, s, _ => (s, s.get a)
  | _, .addServer svr res, s, t => s.add t svr res
  | _, .updateServer svr res, s, t => s.update t svr res
  | _, .removeServer svr res, s, _ => s.remove svr res
  | _, .filterServers fs, s, _ => (s, .ok (s.filter fs))
  | _, .insAdd i, s, t => (s.insAdd t i, .ok ())
  | _, .insGet id, s, _ => (s, s.insGet id)
  | _, .insRemove id, s, _ => (s.insRemove id, .ok ())
  | _, .insClear before, s, _ => let (s', n) := s.insClear before; (s', .ok n)
  | _, .enqueue p after before, s, t => (s.enqueue t p after before, .ok ())
  | _, .popMany n, s, t => let (s', ps, e) := s.popMany t n; (s', .ok (ps, e))
  | _, .updateServerT svr res, s, t => s.update t svr (res t)
  | _, .scanServers fs, s, _ => (s, .ok (s.filter fs))
  | _, .fetchServers addrs, s, _ => (s, .ok (addrs.filterMap fun a => (s.getRow a).map (·.svr)))

/-- the reply a call gets when the storage fails (`none` for `now`, which cannot fail) -/
def Call.faultReply : {β : Type} → Call β → Option β
  | _, .now => none
  | _, .getServer _ => some (.error .storage)
  | _, .addServer _ _ => some (.error .storage)
  | _, .updateServer _ _ => some (.error .storage)
  | _, .removeServer _ _ => some (.error .storage)
  | _, .filterServers _ => some (.error .storage)
  | _, .insAdd _ => some (.error .storage)
  | _, .insGet _ => some (.error .storage)
  | _, .insRemove _ => some (.error .storage)
  | _, .insClear _ => some (.error .storage)
  | _, .enqueue _ _ _ => some (.error .storage)
  | _, .popMany _ => some (.error .storage)
  | _, .updateServerT _ _ => some (.error .storage)
  | _, .scanServers _ => some (.error .storage)
  | _, .fetchServers _ => some (.error .storage)

/-- calls that issue no storage command at all (not scheduling points): clock reads, an `enqueue` that
is dropped because its ready time is not before its expiry, `PopMany` of a non-positive count -/
def Call.silent : {β : Type} → Call β → Bool
  | _, .now => true
  | _, .enqueue _ (some a) (some b) => decide (a ≥ b)
  | _, .popMany n => decide (n ≤ 0)
  | _, _ => false

/-- calls whose clock read happens when the call *starts* (before its first storage command): the ready
time of `enqueue`, the update score of `instances.Add`, the bound of `PopMany`.  Registry writes read
the clock late (after the `HGET`, right before the batch is sent). -/
def Call.clockAtArrival : {β : Type} → Call β → Bool
  | _, .enqueue _ _ _ => true
  | _, .insAdd _ => true
  | _, .popMany _ => true
  | _, _ => false

inductive Prog (α : Type) : Type 1 where
  | ret (a : α) : Prog α
  | call {β : Type} (c : Call β) (k : β → Prog α) : Prog α

namespace Prog

def bind {α β : Type} : Prog α → (α → Prog β) → Prog β
  | .ret a, f => f a
  | .call c k, f => .call c fun b => (k b).bind f

instance : Monad Prog where
  pure := .ret
  bind := Prog.bind

/-- perform one call -/
def perform {β : Type} (c : Call β) : Prog β := .call c .ret

/-- sequential semantics: run to completion with the clock fixed at `now` -/
def run {α : Type} : Prog α → AbsState → Int → AbsState × α
  | .ret a, s, _ => (s, a)
  | .call c k, s, now => let (s', b) := c.exec s now; (k b).run s' now

/-- has the program finished? -/
def result? {α : Type} : Prog α → Option α
  | .ret a => some a
  | .call _ _ => none

/-- small step: perform the head call atomically at clock `now` -/
def step1 {α : Type} : Prog α → AbsState → Int → AbsState × Prog α
  | .ret a, s, _ => (s, .ret a)
  | .call c k, s, now => let (s', b) := c.exec s now; (s', k b)

/-- small step with a storage fault: the head call fails, `effect = false`: before taking effect,
`effect = true`: after taking effect (reply lost).  Clock reads cannot fail. -/
def stepFault {α : Type} (effect : Bool) : Prog α → AbsState → Int → AbsState × Prog α
  | .ret a, s, _ => (s, .ret a)
  | .call c k, s, now =>
    match c.faultReply with
    | none => let (s', b) := c.exec s now; (s', k b)
    | some e => if effect then ((c.exec s now).1, k e) else (s, k e)

/-- name of a call as the harness marks it -/
def _root_.Swat4.Call.name : {β : Type} → Call β → String
  | _, .now => "now"
  | _, .getServer _ => "get"
  | _, .addServer _ _ => "add"
  | _, .updateServer _ _ => "update"
  | _, .removeServer _ _ => "remove"
  | _, .filterServers _ => "filter"
  | _, .insAdd _ => "insadd"
  | _, .insGet _ => "insget"
  | _, .insRemove _ => "insrm"
  | _, .insClear _ => "insclear"
  | _, .enqueue _ _ _ => "enqueue"
  | _, .popMany _ => "popmany"
  | _, .updateServerT _ _ => "update"
  | _, .scanServers _ => "scan"
  | _, .fetchServers _ => "filter"

/-- perform the leading silent calls (they are not scheduling points); fuel bounds the unfolding.
Returns the names of the silent repository calls performed (clock reads excluded). -/
def skipSilent {α : Type} : Nat → Prog α → AbsState → Int → List String → AbsState × Prog α × List String
  | 0, p, s, _, names => (s, p, names)
  | _ + 1, .ret a, s, _, names => (s, .ret a, names)
  | fuel + 1, .call c k, s, now, names =>
    if c.silent then
      let (s', b) := c.exec s now
      skipSilent fuel (k b) s' now (if c.name == "now" then names else names ++ [c.name])
    else (s, .call c k, names)

/-- does the head call read the clock when it starts? -/
def headAtArrival {α : Type} : Prog α → Bool
  | .ret _ => false
  | .call c _ => c.clockAtArrival

/-- name of the head call, if any -/
def headName {α : Type} : Prog α → Option String
  | .ret _ => none
  | .call c _ => some c.name

/-- number of calls along the path taken in a sequential run (for termination/bounds) -/
def runSteps {α : Type} : Prog α → AbsState → Int → Nat
  | .ret _, _, _ => 0
  | .call c k, s, now => let (s', b) := c.exec s now; (k b).runSteps s' now + 1

theorem run_eq_step1 {α : Type} (p : Prog α) (s : AbsState) (now : Int) :
    p.run s now = match p with
      | .ret a => (s, a)
      | .call _ _ => let (s', p') := p.step1 s now; p'.run s' now := by
  cases p <;> rfl

end Prog
end Swat4
