import Swat4.Model.Heartbeat
/-!
# Reporter datagrams whose source is a `net.IP` of any length (C05: IPv6 sources)

`Heartbeat.dispatch` takes the source as `srcIp : Nat`, a four-byte address: a datagram that arrives on the
dual-stack reporter socket from an IPv6 source that is NOT IPv4-mapped (`connAddr.IP.To4() == nil`) cannot be
expressed there.  This file models what the handlers do with the source as Go holds it — `connAddr.IP`, a byte
slice (16 bytes for everything read from a UDP socket; 4 bytes when built with `net.IPv4(..).To4()`):

* `heartbeat.Handler`: `addr.New(connAddr.IP, hostport)` — port range first, then `len(ip) == 0`, then
  `ip.To4() == nil ⇒ ErrInvalidIP`: a non-IPv4 source never gets as far as `reportserver` / `removeserver`;
  the reply would take `connAddr.IP.To4()` (`copy` of a nil slice copies nothing);
* `keepalive.Handler`: `renewserver.NewRequest(instanceID, connAddr.IP)`, and in `Execute`, AFTER the instance has
  been fetched, `inst.Addr.GetIP().Equal(req.ipAddr.To4())`: a 4-byte slice compared with `nil` — `net.IP.Equal`
  is `false` when the lengths differ and are not 4/16 — so the answer is `ErrUnknownInstanceID` whatever the
  instance is bound to; an unknown instance id is `ErrInstanceNotFound` before that.  Both are errors without effect;
* `challenge.Handler` / `available.Handler` ignore the source.

`dispatch6` is the dispatcher over such a source; `Properties/C05.lean` proves `ipv6_source_touches_no_server`,
`ipv6_keepalive_rejected`, and `dispatch6_mapped`: on an IPv4-mapped (or 4-byte) source it is `Heartbeat.dispatch`
of the embedded IPv4 address.  The driver (`Drv/RepCommon.lean`, op `dg6`) runs it.
-/
namespace Swat4.Heartbeat6
open Swat4 Swat4.Heartbeat

/-- a `nil` slice where only `len`, `copy` and `Equal` look at it -/
def nilEmpty : Option Bytes → Bytes
  | some b => b
  | none => []

/-- `v4InV6Prefix`: `00 00 00 00 00 00 00 00 00 00 ff ff` -/
def v4InV6Prefix : Bytes := [0, 0, 0, 0, 0, 0, 0, 0, 0, 0, 0xff, 0xff]

/-- `net.IP.To4()`:
```go
if len(ip) == IPv4len { return ip }
if len(ip) == IPv6len && isZeros(ip[0:10]) && ip[10] == 0xff && ip[11] == 0xff { return ip[12:16] }
return nil
``` -/
def to4 (ip : Bytes) : Option Bytes :=
  if ip.length = 4 then some ip
  else if ip.length = 16 ∧ ip.take 12 = v4InV6Prefix then some (ip.drop 12)
  else none

/-- `net.IP.Equal(x)`:
```go
if len(ip) == len(x) { return bytealg.Equal(ip, x) }
if len(ip) == IPv4len && len(x) == IPv6len { return bytealg.Equal(x[0:12], v4InV6Prefix) && bytealg.Equal(ip, x[12:]) }
if len(ip) == IPv6len && len(x) == IPv4len { return bytealg.Equal(ip[0:12], v4InV6Prefix) && bytealg.Equal(ip[12:], x) }
return false
``` -/
def ipEqual (ip x : Bytes) : Bool :=
  if ip.length = x.length then ip == x
  else if ip.length = 4 ∧ x.length = 16 then x.take 12 == v4InV6Prefix && ip == x.drop 12
  else if ip.length = 16 ∧ x.length = 4 then ip.take 12 == v4InV6Prefix && ip.drop 12 == x
  else false

/-- a four-byte address as the number `Heartbeat` uses (big-endian) -/
def ipNat (v4 : Bytes) : Nat := idNat v4

/-- `addr.New(ip, port)` for an `ip` of any length:
```go
if port < 1 || port > 65535 { return Blank, ErrInvalidPort }
if len(ip) == 0 { return Blank, ErrInvalidIP }
ipv4 := ip.To4()
switch { case ipv4 == nil: return Blank, ErrInvalidIP
         case !ipv4.IsGlobalUnicast() && !ipv4.IsPrivate() && !ipv4.IsLoopback(): return Blank, ErrInvalidIP }
``` -/
def addrNewIP (ip : Bytes) (port : Int) : Option Addr :=
  if port < 1 ∨ port > 65535 then none
  else if ip.length = 0 then none
  else
    match to4 ip with
    | none => none
    | some v4 => addrNew (ipNat v4) port

/-- `parseAddrFromHeartbeatParams(connAddr, fields)` -/
def parseAddrIP (src : Bytes) (m : FieldMap) : Option (Addr × Int) :=
  match parseNumericField m kHostport, parseNumericField m kLocalport with
  | some gp, some qp =>
    match addrNewIP src gp with
    | some a => some (a, qp)
    | none => none
  | _, _ => none

/-- the heartbeat reply: `copy(clientAddr[1:5], connAddr.IP.To4())` copies nothing from a nil slice -/
def heartbeatReplyIP (id src : Bytes) (srcPort : Nat) : Bytes :=
  [0xFE, 0xFD, 0x01] ++ copyInto 4 id ++ copyInto 6 Facts.reporterResponseChallenge ++
    hexLower (0 :: copyInto 4 (nilEmpty (to4 src)) ++ be16 srcPort) ++ [0]

/-- `renewserver.UseCase.Execute` with the request's `ipAddr net.IP` as it is: the owner check is
`inst.Addr.GetIP().Equal(req.ipAddr.To4())` (`GetIP()` = the four bytes of the stored address) -/
def renewIP (instanceId : Nat) (reqIp : Bytes) : Prog (Except UC.UErr Unit) :=
  .call (.insGet instanceId) fun r =>
  match r with
  | .error e => pure (.error (.repo e))
  | .ok inst =>
    if !ipEqual (ipBytes inst.addr.ip) (nilEmpty (to4 reqIp)) then pure (.error .unknownInstance)
    else
      .call (.getServer inst.addr) fun r =>
      match r with
      | .error e => pure (.error (.repo e))
      | .ok svr =>
        .call .now fun now =>
        .call (.updateServer { svr with refreshedAt := some now } fun s => some { s with refreshedAt := some now }) fun r =>
        match r with
        | .error e => pure (.error (.repo e))
        | .ok _ => pure (.ok ())

/-- `heartbeat.Handler.Handle` -/
def handleHeartbeat6 (cfg : Cfg) (st : AbsState) (src : Bytes) (srcPort : Nat) (payload : Bytes) (now : Int) : AbsState × Outcome :=
  match parseInstanceID payload with
  | none => (st, .err)
  | some (id, rest) =>
    match parseHeartbeatParams rest with
    | none => (st, .err)
    | some fields =>
      if fields.isEmpty then (st, .err)
      else
        match parseAddrIP src fields with
        | none => (st, .err)
        | some (a, qp) =>
          if fields.get? kStatechanged = some [0x32] then
            finish ((UC.remove (idNat id) a).run st now) .silent
          else
            finish ((UC.report zeroInfo cfg.maxRetries ⟨a, qp, idNat id, infoOf fields⟩).run st now)
              (.reply (heartbeatReplyIP id src srcPort))

/-- `keepalive.Handler.Handle` -/
def handleKeepalive6 (st : AbsState) (src : Bytes) (payload : Bytes) (now : Int) : AbsState × Outcome :=
  match parseInstanceID payload with
  | none => (st, .err)
  | some (id, _) => finish ((renewIP (idNat id) src).run st now) .silent

/-- `Dispatcher.dispatch` for a datagram whose source address is the byte slice `src16` (`connAddr.IP`).  Meant
for a 16-byte source that is not IPv4-mapped (`to4 src16 = none`); defined for every slice. -/
def dispatch6 (cfg : Cfg) (st : AbsState) (src16 : Bytes) (srcPort : Nat) (payload : Bytes) (now : Int) : AbsState × Outcome :=
  match payload with
  | [] => (st, .panic)
  | t :: _ =>
    if t.toNat = Facts.reporterMsgHeartbeat then handleHeartbeat6 cfg st src16 srcPort payload now
    else if t.toNat = Facts.reporterMsgKeepalive then handleKeepalive6 st src16 payload now
    else if t.toNat = Facts.reporterMsgChallenge then (st, handleChallenge payload)
    else if t.toNat = Facts.reporterMsgAvailable then (st, handleAvailable)
    else (st, .err)

end Swat4.Heartbeat6
