import Swat4.Model.USys
/-!
# The cleaner component: a ticker that runs both cleaners once per interval

`cmd/swat4master/components/cleaner/cleaner.go:26-53 run`: `ticker := clock.NewTicker(cfg.CleanInterval)`; on every tick
`manager.Clean(ctx)` (`internal/cleanup/cleaner.go:27-31`: `go c.Clean(ctx)` for each) starts the registered cleaners — the server cleaner
(`internal/cleanup/cleaners/servercleaner`, `UC.cleanServers2`) and the instance cleaner
(`internal/cleanup/cleaners/instancecleaner`, `UC.cleanInstances`) — both with `cfg.CleanRetention`
(`cleaner.go:88-97 provideCleanerConfigs`).  Each cleaner reads the clock itself and computes its own cutoff
`now − retention`; a storage error in the server cleaner's scan ends THAT cleaner's pass (it logs and returns: no server
is removed), the instance cleaner still runs.

The correspondence run (`harness/internal/c14/cleanerop.go:68-170 runCleaner`, case `cleaner <retention> <interval> <init>
<script>`) starts the real component on a fake clock and, per script step, advances the clock by the interval — the
ticker fires once — and lets the pass settle; `faulttick`: the first command of the server cleaner's scan fails.

This file is the ONE definition of that behaviour on the model state; the driver (`Drv/C14.lean: handleCleaner`) runs
`cleanerPasses` and evaluates `staleServer` / `staleInstance` on the implementation's dump;
`Properties/C14.lean: cleaner_healthy_pass_complete` / `cleaner_last_pass_complete` prove that the model's own state
after such a pass satisfies that oracle (corollaries of `clean_complete2` and `clean_instances_state`).
-/
namespace Swat4
namespace CleanerComponent

/-- the cutoff a cleaner computes in a pass at clock `clock`: `now.Add(-retention)`
(`servercleaner.go:49`, `instancecleaner.go:49`: `cleanUntil := c.clock.Now().Add(-c.opts.Retention)`) -/
def cutoff (clock retention : Int) : Int := clock - retention

/-- a server record last written at `updatedAt` is outdated for a pass at `clock`: strictly before the cutoff
(`UC.cleanServers2`: the scan `updatedBefore := cutoff` is exclusive) -/
def staleServer (clock retention updatedAt : Int) : Bool := decide (updatedAt < cutoff clock retention)

/-- an instance last written at `updatedAt` is outdated for a pass at `clock`: at or before the cutoff
(`UC.cleanInstances`: `Clear`'s bound is inclusive, as coded) -/
def staleInstance (clock retention updatedAt : Int) : Bool := decide (updatedAt ≤ cutoff clock retention)

/-- **one pass of the component**: the clock has advanced by the interval and the ticker fires; the server cleaner runs
to completion with the retention unless its scan is faulted (`healthy = false`: it removes nothing); then the instance
cleaner runs to completion with the same retention.  (The manager starts the two cleaners concurrently; they touch
disjoint parts of the store, so the model runs one after the other: `UC.cleanServers2` writes only `servers`, `UC.cleanInstances` only `instances`.) -/
def pass (retention interval : Int) (healthy : Bool) (s : USys) : USys :=
  let clock := s.clock + interval
  let a1 := if healthy then ((UC.cleanServers2 retention).run s.abs clock).1 else s.abs
  let a2 := ((UC.cleanInstances retention).run a1 clock).1
  { s with abs := a2, clock := clock }

/-- **the component over a script of passes** (`true`: a healthy pass, `false`: the server cleaner's scan fails) -/
def cleanerPasses (retention interval : Int) (script : List Bool) (s : USys) : USys :=
  script.foldl (fun s healthy => pass retention interval healthy s) s

/-- the harness' script token of a pass: `tick` is a healthy pass, anything else (`faulttick`) a faulted one -/
def parseScript (script : String) : List Bool := (script.splitOn "+").map (· == "tick")

end CleanerComponent
end Swat4
