import Swat4.Model.UseCases.Reporter
import Swat4.Gen.Facts
/-!
# Reporter datagram protocol (`internal/reporter/**`)

Model of `Dispatcher.dispatch`, the four handlers (`heartbeat`, `keepalive`, `challenge`,
`available`), `ParseInstanceID`, `parseHeartbeatParams`, `parseAddrFromHeartbeatParams`,
`addr.New`, `details.NewInfoFromParams` (`params.Unmarshal` over the struct schema) and
`Info.Validate`, composed with the use cases `UC.report / renew / remove` through `Prog.run`.

Generated facts used (`Swat4.Facts.reporter…`): the `details.Info` schema with `param` names and
`validate` tags, the reportable-field whitelist, message-type bytes, fixed responses.
-/
namespace Swat4.Heartbeat
open Swat4

/-! ## L0: C strings, `strconv.Atoi`, `bytes.ToValidUTF8`, hex -/

/-- `binutils.ConsumeCString`, first result: the bytes before the first NUL (all of them if there is none) -/
def cstrHead : Bytes → Bytes
  | [] => []
  | c :: rest => if c = 0 then [] else c :: cstrHead rest

/-- `binutils.ConsumeCString`, second result: the bytes after the first NUL (`nil` if there is none;
the callers here only take `len` of it, so `nil` and empty coincide) -/
def cstrTail : Bytes → Bytes
  | [] => []
  | c :: rest => if c = 0 then rest else cstrTail rest

/-- value of a run of ASCII digits, `none` if a byte is not a digit -/
def digitsVal : Bytes → Nat → Option Nat
  | [], acc => some acc
  | c :: rest, acc => if 48 ≤ c.toNat ∧ c.toNat ≤ 57 then digitsVal rest (acc * 10 + (c.toNat - 48)) else none

/-- `strconv.Atoi` = `ParseInt(s, 10, 0)` on a 64-bit platform: optional sign, at least one digit,
digits only (no `_` in base 10), result within int64 -/
def atoi (s : Bytes) : Option Int :=
  match s with
  | [] => none
  | c :: rest =>
    let neg := c = 0x2D
    let ds := if c = 0x2B ∨ c = 0x2D then rest else s
    if ds.isEmpty then none
    else
      match digitsVal ds 0 with
      | none => none
      | some n =>
        if neg then (if n ≤ 9223372036854775808 then some (-(n : Int)) else none)
        else (if n < 9223372036854775808 then some (n : Int) else none)

@[inline] def isCont (b : UInt8) : Bool := 0x80 ≤ b.toNat && b.toNat ≤ 0xBF

/-- `utf8.DecodeRune` on a slice starting with a non-ASCII byte: `some w` = a valid encoding of
width `w`, `none` = `(RuneError, 1)` (invalid or truncated) — the table of `unicode/utf8` -/
def decodeWidth (c : UInt8) (rest : Bytes) : Option Nat :=
  let n := c.toNat
  if 0xC2 ≤ n ∧ n ≤ 0xDF then
    match rest with
    | b1 :: _ => if isCont b1 then some 2 else none
    | _ => none
  else if 0xE0 ≤ n ∧ n ≤ 0xEF then
    match rest with
    | b1 :: b2 :: _ =>
      let lo := if n = 0xE0 then 0xA0 else 0x80
      let hi := if n = 0xED then 0x9F else 0xBF
      if lo ≤ b1.toNat ∧ b1.toNat ≤ hi ∧ isCont b2 then some 3 else none
    | _ => none
  else if 0xF0 ≤ n ∧ n ≤ 0xF4 then
    match rest with
    | b1 :: b2 :: b3 :: _ =>
      let lo := if n = 0xF0 then 0x90 else 0x80
      let hi := if n = 0xF4 then 0x8F else 0xBF
      if lo ≤ b1.toNat ∧ b1.toNat ≤ hi ∧ isCont b2 ∧ isCont b3 then some 4 else none
    | _ => none
  else none

/-- `bytes.ToValidUTF8(s, "?")`: `invalid` = the previous byte belonged to an invalid run -/
def toValidAux : Nat → Bytes → Bool → Bytes
  | 0, _, _ => []
  | _ + 1, [], _ => []
  | fuel + 1, c :: rest, invalid =>
    if c.toNat < 0x80 then c :: toValidAux fuel rest false
    else
      match decodeWidth c rest with
      | none => if invalid then toValidAux fuel rest true else 0x3F :: toValidAux fuel rest true
      | some w => c :: rest.take (w - 1) ++ toValidAux fuel (rest.drop (w - 1)) false

def toValidUTF8 (s : Bytes) : Bytes := toValidAux s.length s false

def hexNibble (n : Nat) : UInt8 := if n < 10 then UInt8.ofNat (48 + n) else UInt8.ofNat (87 + n)

/-- `hex.Encode`: lower-case, two digits per byte -/
def hexLower (b : Bytes) : Bytes := b.flatMap fun x => [hexNibble (x.toNat / 16), hexNibble (x.toNat % 16)]

/-! ## field maps (`map[string]string`) as association lists -/

abbrev FieldMap := List (Bytes × Bytes)

/-- `fields[name] = value` -/
def FieldMap.set : FieldMap → Bytes → Bytes → FieldMap
  | [], k, v => [(k, v)]
  | (k', v') :: rest, k, v => if k' = k then (k, v) :: rest else (k', v') :: FieldMap.set rest k v

/-- `fields[name]` with the `ok` flag -/
def FieldMap.get? (m : FieldMap) (k : Bytes) : Option Bytes := m.lookup k

/-! ## the heartbeat scanner -/

/-- `ParseInstanceID`: `len(payload) < 5` is an error; id = `payload[1:5]`, rest = `payload[5:]` -/
def parseInstanceID (payload : Bytes) : Option (Bytes × Bytes) :=
  if payload.length < 5 then none else some ((payload.drop 1).take 4, payload.drop 5)

/-- the instance id as a number (big-endian), the key of the instance table -/
def idNat (id : Bytes) : Nat := id.foldl (fun acc b => acc * 256 + b.toNat) 0

/-- `isReportableField` -/
def isReportable (name : Bytes) : Bool :=
  Facts.reporterOwnFields.contains name || Facts.reporterQueryFields.contains name

/-- `parseHeartbeatParams`; `none` = the "missing value" error.  An unknown name is skipped WITHOUT its
value (the value is then scanned as a name). Fuel: every round consumes at least one byte. -/
def parseParamsAux : Nat → Bytes → FieldMap → Option FieldMap
  | 0, _, m => some m
  | fuel + 1, unparsed, m =>
    match unparsed with
    | [] => some m
    | c :: _ =>
      if c = 0 then some m
      else
        let name := cstrHead unparsed
        let rest := cstrTail unparsed
        if !isReportable name then parseParamsAux fuel rest m
        else
          match rest with
          | [] => none
          | v0 :: _ =>
            if v0 = 0 then none
            else parseParamsAux fuel (cstrTail rest) (m.set name (toValidUTF8 (cstrHead rest)))

def parseHeartbeatParams (payload : Bytes) : Option FieldMap := parseParamsAux payload.length payload []

/-! ## addresses -/

/-- Go's `IsGlobalUnicast() || IsPrivate() || IsLoopback()` on a 4-byte address -/
def ipAccepted (ip : Nat) : Bool :=
  let a := ip / 16777216 % 256
  let b := ip / 65536 % 256
  let loopback := a == 127
  let priv := a == 10 || (a == 172 && b / 16 == 1) || (a == 192 && b == 168)
  let bcast := ip % 4294967296 == 4294967295
  let unspec := ip % 4294967296 == 0
  let multicast := a / 16 == 14
  let linkLocal := a == 169 && b == 254
  let global := !bcast && !unspec && !loopback && !multicast && !linkLocal
  global || priv || loopback

/-- `addr.New(ip, port)` for a 4-byte `ip` -/
def addrNew (ip : Nat) (port : Int) : Option Addr :=
  if port < 1 ∨ port > 65535 then none
  else if ipAccepted ip then some ⟨ip, port⟩ else none

def kHostport : Bytes := [0x68, 0x6f, 0x73, 0x74, 0x70, 0x6f, 0x72, 0x74]
def kLocalport : Bytes := [0x6c, 0x6f, 0x63, 0x61, 0x6c, 0x70, 0x6f, 0x72, 0x74]
def kStatechanged : Bytes := [0x73, 0x74, 0x61, 0x74, 0x65, 0x63, 0x68, 0x61, 0x6e, 0x67, 0x65, 0x64]

/-- `parseNumericField` -/
def parseNumericField (m : FieldMap) (k : Bytes) : Option Int :=
  match m.get? k with
  | none => none
  | some v => atoi v

/-- `parseAddrFromHeartbeatParams`: both numbers must parse, then `addr.New(sourceIP, hostport)` -/
def parseAddr (srcIp : Nat) (m : FieldMap) : Option (Addr × Int) :=
  match parseNumericField m kHostport, parseNumericField m kLocalport with
  | some gp, some qp =>
    match addrNew srcIp gp with
    | some a => some (a, qp)
    | none => none
  | _, _ => none

/-! ## `details.NewInfoFromParams` + `Info.Validate` over the generated schema -/

abbrev Schema := List (String × Option Bytes × Nat × List String)

def zeroVal (kind : Nat) : Option Val :=
  if kind = 0 then some (.int 0) else if kind = 1 then some (.bool false) else if kind = 2 then some (.str []) else none

/-- `parseBoolValue`: exactly `1`, `true`, `0`, `false` -/
def parseBool (v : Bytes) : Option Bool :=
  if v = [0x31] ∨ v = [0x74, 0x72, 0x75, 0x65] then some true
  else if v = [0x30] ∨ v = [0x66, 0x61, 0x6c, 0x73, 0x65] then some false
  else none

/-- `setStructValue` -/
def parseVal (kind : Nat) (v : Bytes) : Option Val :=
  if kind = 0 then (atoi v).map .int
  else if kind = 1 then (parseBool v).map .bool
  else if kind = 2 then some (.str v)
  else none

/-- `params.Unmarshal(fields, &info)`: struct fields in order; ignored field or missing key ⇒ zero value;
first value that does not parse ⇒ error -/
def unmarshal (schema : Schema) (m : FieldMap) : Option Fields :=
  schema.mapM fun (_, param, kind, _) =>
    match param with
    | none => zeroVal kind
    | some name =>
      match m.get? name with
      | none => zeroVal kind
      | some v => parseVal kind v

/-- `isNonNegativeNumber` -/
def nonNegNumber (s : Bytes) : Bool :=
  match atoi s with
  | some n => n ≥ 0
  | none => false

/-- `validators.ValidateRatio`: empty, or `left/right` (cut at the first `/`) with both non-negative ints -/
def ratioOk (s : Bytes) : Bool :=
  if s.isEmpty then true
  else if s.contains 0x2F then
    nonNegNumber (s.takeWhile (· ≠ 0x2F)) && nonNegNumber ((s.dropWhile (· ≠ 0x2F)).drop 1)
  else false

/-- one `validate` tag on one field value; combinations the struct does not use are `false`
(`C04.facts_ok` shows the generated schema only uses the supported ones) -/
def checkTag (v : Val) (tag : String) : Bool :=
  if tag = "required" then
    match v with
    | .str s => !s.isEmpty
    | .int n => n != 0
    | .bool b => b
  else if tag = "gt=0" then
    match v with
    | .int n => n > 0
    | _ => false
  else if tag = "gte=0" then
    match v with
    | .int n => n ≥ 0
    | _ => false
  else if tag = "ratio" then
    match v with
    | .str s => ratioOk s
    | _ => false
  else false

/-- `Info.Validate` -/
def validate (schema : Schema) (f : Fields) : Bool :=
  (schema.zip f).all fun ((_, _, _, tags), v) => tags.all (checkTag v)

def schema : Schema := Facts.reporterInfoSchema

/-- `NewInfoFromParams` then `Validate`; `none` = `ErrInvalidRequestPayload` -/
def infoOf (m : FieldMap) : Option Fields :=
  match unmarshal schema m with
  | none => none
  | some f => if validate schema f then some f else none

/-- `details.Info{}` -/
def zeroInfo : Fields := schema.filterMap fun (_, _, kind, _) => zeroVal kind

/-! ## replies -/

def ipBytes (ip : Nat) : Bytes :=
  [UInt8.ofNat (ip / 16777216 % 256), UInt8.ofNat (ip / 65536 % 256), UInt8.ofNat (ip / 256 % 256), UInt8.ofNat (ip % 256)]

/-- `binary.BigEndian.PutUint16(_, uint16(port))` -/
def be16 (port : Nat) : Bytes := [UInt8.ofNat (port % 65536 / 256), UInt8.ofNat (port % 256)]

/-- `copy(dst[0:n], src)` into zeroed memory -/
def copyInto (n : Nat) (src : Bytes) : Bytes := (src ++ List.replicate n 0).take n

/-- the 28-byte heartbeat reply: `FE FD 01`, id, fixed challenge (6), hex of `00 ‖ ip ‖ port16` (14), NUL -/
def heartbeatReply (id : Bytes) (srcIp srcPort : Nat) : Bytes :=
  [0xFE, 0xFD, 0x01] ++ copyInto 4 id ++ copyInto 6 Facts.reporterResponseChallenge ++
    hexLower (0 :: ipBytes srcIp ++ be16 srcPort) ++ [0]

def challengeReply (id : Bytes) : Bytes := [0xFE, 0xFD, 0x0A] ++ id

/-! ## handlers and dispatcher -/

inductive Outcome where
  | reply (b : Bytes)     -- `resp != nil`: exactly one datagram is written back
  | silent                -- `resp == nil, err == nil`
  | err                   -- handler or routing error: logged, nothing sent
  | panic                 -- a Go run-time panic (index out of range)
  deriving DecidableEq, Repr, Inhabited

/-- harness / service options the model depends on -/
structure Cfg where
  maxRetries : Int            -- `reportserver.UseCaseOptions.MaxProbeRetries`

/-- a use case has run: its error is the handler's error, otherwise the handler answers `ok` -/
def finish (r : AbsState × Except UC.UErr Unit) (ok : Outcome) : AbsState × Outcome :=
  (r.1, match r.2 with | .ok _ => ok | .error _ => .err)

/-- `heartbeat.Handler.Handle` -/
def handleHeartbeat (cfg : Cfg) (st : AbsState) (srcIp srcPort : Nat) (payload : Bytes) (now : Int) : AbsState × Outcome :=
  match parseInstanceID payload with
  | none => (st, .err)
  | some (id, rest) =>
    match parseHeartbeatParams rest with
    | none => (st, .err)
    | some fields =>
      if fields.isEmpty then (st, .err)
      else
        match parseAddr srcIp fields with
        | none => (st, .err)
        | some (a, qp) =>
          if fields.get? kStatechanged = some [0x32] then
            finish ((UC.remove (idNat id) a).run st now) .silent
          else
            finish ((UC.report zeroInfo cfg.maxRetries ⟨a, qp, idNat id, infoOf fields⟩).run st now)
              (.reply (heartbeatReply id srcIp srcPort))

/-- `keepalive.Handler.Handle` -/
def handleKeepalive (st : AbsState) (srcIp : Nat) (payload : Bytes) (now : Int) : AbsState × Outcome :=
  match parseInstanceID payload with
  | none => (st, .err)
  | some (id, _) =>
    finish ((UC.renew (idNat id) srcIp).run st now) .silent

/-- `challenge.Handler.Handle` -/
def handleChallenge (payload : Bytes) : Outcome :=
  match parseInstanceID payload with
  | none => .err
  | some (id, _) => .reply (challengeReply id)

/-- `available.Handler.Handle` -/
def handleAvailable : Outcome := .reply Facts.reporterResponseIsAvailable

/-- `Dispatcher.dispatch` (and the part of `Dispatcher.Handle` that decides about the reply).
`payload[0]` is evaluated unguarded: on an empty payload it panics.  `udpserver` only calls the
dispatcher with `n > 0` bytes (`C06.udp_total` carries that hypothesis). -/
def dispatch (cfg : Cfg) (st : AbsState) (srcIp srcPort : Nat) (payload : Bytes) (now : Int) : AbsState × Outcome :=
  match payload with
  | [] => (st, .panic)
  | t :: _ =>
    if t.toNat = Facts.reporterMsgHeartbeat then handleHeartbeat cfg st srcIp srcPort payload now
    else if t.toNat = Facts.reporterMsgKeepalive then handleKeepalive st srcIp payload now
    else if t.toNat = Facts.reporterMsgChallenge then (st, handleChallenge payload)
    else if t.toNat = Facts.reporterMsgAvailable then (st, handleAvailable)
    else (st, .err)

/-- a datagram of a history: source IP, source port, payload, clock value when it is handled -/
structure Dgram where
  srcIp : Nat
  srcPort : Nat
  payload : Bytes
  now : Int

def step (cfg : Cfg) (st : AbsState) (d : Dgram) : AbsState := (dispatch cfg st d.srcIp d.srcPort d.payload d.now).1

/-- state after a history -/
def runHistory (cfg : Cfg) (st : AbsState) (ds : List Dgram) : AbsState := ds.foldl (step cfg) st

end Swat4.Heartbeat
