import Swat4.Model.UseCases.Reporter
/-!
# Discovery use cases: probe outcome handling, `probeserver`, `refreshservers`, `reviveservers`,
`addserver` (REST submission), the cleaners

Probe outcomes (the network result) are inputs.  Every function mirrors the Go code call by call.
-/
namespace Swat4
namespace UC

/-! ## prober outcome transformations (`detailsprober`, `portprober`) on a record -/

/-- what a successful probe delivered: the parsed details, and for a port probe the discovered query port -/
structure ProbeResult where
  details : Details
  port : Int
  deriving DecidableEq, Repr, Inhabited

/-- `UpdateDetails`: `Details = det; Info = det.Info` -/
def updateDetails (s : Server) (d : Details) : Server := { s with details := d, info := d.info }

def handleSuccess (g : Goal) (res : ProbeResult) (now : Int) (s : Server) : Server :=
  match g with
  | .details =>
    let s := updateDetails s res.details
    { s with refreshedAt := some now,
             status := Status.clear (Status.update s.status (Status.info ||| Status.details)) (Status.noDetails ||| Status.detailsRetry) }
  | .port =>
    let s := updateDetails { s with queryPort := res.port } res.details
    { s with refreshedAt := some now,
             status := Status.clear (Status.update s.status (Status.info ||| Status.details ||| Status.port))
                        (Status.noDetails ||| Status.detailsRetry ||| Status.portRetry ||| Status.noPort) }

/-- status word after `HandleSuccess` -/
def successStatus (g : Goal) (w : Status) : Status :=
  match g with
  | .details => Status.clear (Status.update w (Status.info ||| Status.details)) (Status.noDetails ||| Status.detailsRetry)
  | .port => Status.clear (Status.update w (Status.info ||| Status.details ||| Status.port))
               (Status.noDetails ||| Status.detailsRetry ||| Status.portRetry ||| Status.noPort)

/-- status word after `HandleRetry` -/
def retryStatus (g : Goal) (w : Status) : Status :=
  match g with
  | .details => Status.update w Status.detailsRetry
  | .port => Status.update w Status.portRetry

/-- status word after `HandleFailure` -/
def failureStatus (g : Goal) (w : Status) : Status :=
  match g with
  | .details => Status.update (Status.clear w (Status.details ||| Status.info ||| Status.detailsRetry ||| Status.port)) Status.noDetails
  | .port => Status.update (Status.clear w Status.portRetry) Status.noPort

def handleRetry (g : Goal) (s : Server) : Server := { s with status := retryStatus g s.status }
def handleFailure (g : Goal) (s : Server) : Server := { s with status := failureStatus g s.status }

/-- the retry mark of a goal -/
def retryMark : Goal → Status
  | .details => Status.detailsRetry
  | .port => Status.portRetry

/-- `⌊e^n⌋` as `time.Duration(math.Exp(float64(n)))` computes it for the retry counts that occur (n ≤ 20) -/
def expFloor (n : Int) : Int :=
  match n.toNat with
  | 0 => 1 | 1 => 2 | 2 => 7 | 3 => 20 | 4 => 54 | 5 => 148 | 6 => 403 | 7 => 1096 | 8 => 2980 | 9 => 8103
  | 10 => 22026 | 11 => 59874 | 12 => 162754 | 13 => 442413 | 14 => 1202604 | 15 => 3269017
  | 16 => 8886110 | 17 => 24154952 | 18 => 65659969 | 19 => 178482300 | 20 => 485165195
  | _ => 0

def second : Int := 1000000000

/-! ## `probeserver.UseCase.Execute` -/

inductive ProbeEnd where
  | success | retried | outOfRetries
  | error (e : UErr)
  deriving DecidableEq, Repr, Inhabited

/-- `fail`: the final failure -/
def probeFail (g : Goal) (svr : Server) : Prog ProbeEnd :=
  .call (.updateServer (handleFailure g svr) fun s => some (handleFailure g s)) fun r =>
  match r with
  | .error e => pure (.error (.repo e))
  | .ok _ => pure .outOfRetries

/-- `retry` (after the repair: the conflict callback applies `HandleRetry`) -/
def probeRetry (prb : Probe) (svr : Server) : Prog ProbeEnd :=
  let (prb', retries, ok) := prb.incRetries
  if !ok then probeFail prb.goal svr
  else
    .call .now fun now =>
    .call (.enqueue prb' (some (now + second * expFloor retries)) none) fun r =>
    match r with
    | .error e => pure (.error (.repo e))
    | .ok _ =>
      .call (.updateServer (handleRetry prb.goal svr) fun s => some (handleRetry prb.goal s)) fun r =>
      match r with
      | .error e => pure (.error (.repo e))
      | .ok _ => pure .retried

/-- `Execute`; `outcome = none` is a failed probe, `some res` a successful one -/
def probe (prb : Probe) (outcome : Option ProbeResult) : Prog ProbeEnd :=
  .call (.getServer prb.addr) fun r =>
  match r with
  | .error e => pure (.error (.repo e))
  | .ok svr =>
    match outcome with
    | none => probeRetry prb svr
    | some res =>
      .call .now fun now =>
      -- the caller's copy uses the clock read after the probe; the conflict callback reads the clock again at commit
      .call (.updateServerT (handleSuccess prb.goal res now svr) fun t s => some (handleSuccess prb.goal res t s)) fun r =>
      match r with
      | .error e => pure (.error (.repo e))
      | .ok _ => pure .success

/-! ## `refreshservers`, `reviveservers` -/

/-- enqueue one probe per listed server, counting the successful `AddBetween` calls -/
def enqueueAll (mk : Server → Probe × GoTime × GoTime) : List Server → Nat → Prog Nat
  | [], n => pure n
  | s :: rest, n =>
    let (p, after, before) := mk s
    .call (.enqueue p after before) fun r =>
    match r with
    | .error _ => enqueueAll mk rest n
    | .ok _ => enqueueAll mk rest (n + 1)

/-- `refreshservers.Execute` for a cycle at `deadline` -/
def refresh (maxRetries : Int) (deadline : Int) : Prog (Except UErr Nat) :=
  .call (.filterServers { withStatus := Status.port, noStatus := Status.detailsRetry }) fun r =>
  match r with
  | .error e => pure (.error (.repo e))
  | .ok svrs => (enqueueAll (fun s => (⟨s.addr, s.queryPort, .details, 0, maxRetries⟩, none, some deadline)) svrs 0).bind fun n => pure (.ok n)

/-- `selectCountdown`: `draw` is the `RandInt(0, spread)` value for this server (`0 ≤ draw < spread`) -/
def selectCountdown (minC maxC : Int) (draw : Int) : Int :=
  if maxC ≤ minC then minC else minC + draw

/-- `reviveservers.Execute`; `draws` gives the random draw per server address key -/
def revive (maxRetries : Int) (minScope maxScope minCountdown maxCountdown deadline : Int) (draws : Nat → Int) :
    Prog (Except UErr Nat) :=
  .call (.filterServers { activeAfter := some minScope, activeBefore := some maxScope, noStatus := Status.port ||| Status.portRetry }) fun r =>
  match r with
  | .error e => pure (.error (.repo e))
  | .ok svrs =>
    (enqueueAll (fun s => (⟨s.addr, s.addr.port, .port, 0, maxRetries⟩,
        some (selectCountdown minCountdown maxCountdown (draws s.addr.key)), some deadline)) svrs 0).bind fun n => pure (.ok n)

/-! ## `addserver.UseCase.Execute` (REST submission), after the repairs -/

inductive AddEnd where
  | hasDetails (s : Server)        -- 200
  | inProgress                     -- 202  ErrServerDiscoveryInProgress
  | noPort                         -- 410  ErrServerHasNoQueryablePort
  | unableToCreate                 -- 500  ErrUnableToCreateServer
  | unableToDiscover               -- 500  ErrUnableToDiscoverServer
  deriving DecidableEq, Repr, Inhabited

/-- `discoverServer`: enqueue first, then mark -/
def discoverServer (maxRetries : Int) (svr : Server) : Prog Bool :=
  .call (.enqueue ⟨svr.addr, svr.addr.port, .port, 0, maxRetries⟩ none none) fun r =>
  match r with
  | .error _ => pure false
  | .ok _ =>
    .call (.updateServer { svr with status := Status.update svr.status Status.portRetry } fun u =>
        if Status.hasAny u.status (Status.details ||| Status.portRetry ||| Status.detailsRetry) then none
        else some { u with status := Status.update u.status Status.portRetry }) fun r =>
    match r with
    | .error _ => pure false
    | .ok _ => pure true

def maybeDiscoverServer (maxRetries : Int) (svr : Server) : Prog AddEnd :=
  if Status.has svr.status Status.details then pure (.hasDetails svr)
  else if Status.hasAny svr.status (Status.portRetry ||| Status.detailsRetry) then pure .inProgress
  else if Status.has svr.status Status.noPort then pure .noPort
  else (discoverServer maxRetries svr).bind fun ok => pure (if ok then .inProgress else .unableToDiscover)

def addServer (zeroInfo : Fields) (maxRetries : Int) (a : Addr) : Prog AddEnd :=
  .call (.getServer a) fun r =>
  match r with
  | .ok svr => maybeDiscoverServer maxRetries svr
  | .error .serverNotFound =>
    match newServer zeroInfo a (min (a.port + 1) 65535) with
    | none => pure .unableToCreate
    | some svr =>
      .call (.addServer svr fun _ => none) fun r =>
      match r with
      | .error _ => pure .unableToCreate
      | .ok svr => maybeDiscoverServer maxRetries svr
  | .error _ => pure .unableToCreate

/-! ## cleaners -/

/-- the conflict callback of the cleaner's `Remove`: refuse when the latest record was refreshed after the cutoff -/
def cleanResolver (cleanUntil : Int) : Resolver := fun c =>
  match c.refreshedAt with
  | some t => if t > cleanUntil then none else some c
  | none => some c

/-- `ServerCleaner.cleanServers` -/
def removeAll (cleanUntil : Int) : List Server → Nat → Nat → Prog (Nat × Nat)
  | [], removed, errors => pure (removed, errors)
  | s :: rest, removed, errors =>
    .call (.removeServer s (cleanResolver cleanUntil)) fun r =>
    match r with
    | .error _ => removeAll cleanUntil rest removed (errors + 1)
    | .ok _ => removeAll cleanUntil rest (removed + 1) errors

/-- `ServerCleaner.Clean` with retention in ns -/
def cleanServers (retention : Int) : Prog (Nat × Nat) :=
  .call .now fun now =>
  .call (.filterServers { updatedBefore := some (now - retention) }) fun r =>
  match r with
  | .error _ => pure (0, 0)
  | .ok svrs => removeAll (now - retention) svrs 0 0

/-- `ServerCleaner.Clean` at storage-command granularity of its `Filter` (index scan, then record fetch), after
the repair: a fetched record that was refreshed after the cutoff is skipped -/
def cleanServers2 (retention : Int) : Prog (Nat × Nat) :=
  .call .now fun now =>
  .call (.scanServers { updatedBefore := some (now - retention) }) fun r =>
  match r with
  | .error _ => pure (0, 0)
  | .ok scanned =>
    if scanned.isEmpty then pure (0, 0)       -- `Filter` returns before the `HMGET` when no key was selected
    else
      .call (.fetchServers (scanned.map (·.addr))) fun r =>
      match r with
      | .error _ => pure (0, 0)
      | .ok svrs =>
        removeAll (now - retention) (svrs.filter fun s => match s.refreshedAt with | some t => !decide (t > now - retention) | none => true) 0 0

/-- `InstanceCleaner.Clean` -/
def cleanInstances (retention : Int) : Prog (Except UErr Nat) :=
  .call .now fun now =>
  .call (.insClear (some (now - retention))) fun r =>
  match r with
  | .error e => pure (.error (.repo e))
  | .ok n => pure (.ok n)

/-- `listservers.Execute` without the query filter (C03 composes the filter on top) -/
def listServers (liveness : Int) (status : Status) : Prog (Except UErr (List Server)) :=
  .call .now fun now =>
  .call (.filterServers { activeAfter := some (now - liveness), withStatus := status }) fun r =>
  match r with
  | .error e => pure (.error (.repo e))
  | .ok svrs => pure (.ok svrs)

end UC
end Swat4
