import Swat4.Model.Prog
/-!
# Reporter use cases: `reportserver`, `renewserver`, `removeserver`

Each mirrors its `Execute` call by call, in the order the Go code issues repository calls
and reads the clock.
-/
namespace Swat4
namespace UC

/-- error classes a use case can return -/
inductive UErr where
  | repo (e : RErr)                -- a repository error passed through
  | invalidQueryPort               -- `server.NewFromAddr`: query port outside 1..65535
  | invalidPayload                 -- `ErrInvalidRequestPayload`: info did not parse / validate
  | unknownInstance                -- renew: instance bound to another IP
  | serverNotFound | instanceNotFound | instanceAddrMismatch   -- remove
  deriving DecidableEq, Repr, Inhabited

/-- `reportserver.Request` after the handler has parsed the datagram. `info = none` stands for
`NewInfoFromParams` or `Validate` failing (`ErrInvalidRequestPayload`). -/
structure ReportReq where
  addr : Addr
  queryPort : Int
  instanceId : Nat
  info : Option Fields

/-- `server.NewFromAddr` -/
def newServer (zeroInfo : Fields) (a : Addr) (queryPort : Int) : Option Server :=
  if queryPort < 1 ∨ queryPort > 65535 then none
  else some { addr := a, queryPort, status := Status.new, info := zeroInfo,
              details := ⟨zeroInfo, [], []⟩, refreshedAt := none, version := 0 }

/-- what a report does to a record: `UpdateInfo; Refresh(now); UpdateDiscoveryStatus(Master|Info)` -/
def reported (info : Fields) (now : Int) (s : Server) : Server :=
  { s with info := info, refreshedAt := some now, status := Status.update s.status (Status.master ||| Status.info) }

/-- `maybeDiscoverPort`; every error is swallowed by the caller -/
def maybeDiscoverPort (maxRetries : Int) (svr : Server) : Prog Unit :=
  if !(Status.hasNone svr.status (Status.port ||| Status.portRetry)) then pure ()
  else
    .call (.enqueue ⟨svr.addr, svr.addr.port, .port, 0, maxRetries⟩ none none) fun r =>
    match r with
    | .error _ => pure ()
    | .ok _ =>
      let pending := { svr with status := Status.update svr.status Status.portRetry }
      .call (.updateServer pending fun c =>
          -- `conflict.HasAnyDiscoveryStatus(ds.Port | ds.PortRetry)` (repaired: it used to demand both bits)
          if Status.hasAny c.status (Status.port ||| Status.portRetry) then none
          else some { c with status := Status.update c.status Status.portRetry }) fun _ => pure ()

/-- `reportserver.UseCase.Execute` -/
def report (zeroInfo : Fields) (maxRetries : Int) (req : ReportReq) : Prog (Except UErr Unit) :=
  .call (.getServer req.addr) fun r =>
  let cont (svr : Server) : Prog (Except UErr Unit) :=
    match req.info with
    | none => pure (.error .invalidPayload)
    | some info =>
      .call .now fun now =>
      .call (.addServer (reported info now svr) fun ex => some (reported info now ex)) fun r =>
      match r with
      | .error e => pure (.error (.repo e))
      | .ok svr =>
        .call (.insAdd ⟨req.instanceId, req.addr⟩) fun r =>
        match r with
        | .error e => pure (.error (.repo e))
        | .ok _ => (maybeDiscoverPort maxRetries svr).bind fun _ => pure (.ok ())
  match r with
  | .ok svr => cont svr
  | .error .serverNotFound =>
    match newServer zeroInfo req.addr req.queryPort with
    | none => pure (.error .invalidQueryPort)
    | some svr => cont svr
  | .error e => pure (.error (.repo e))

/-- `renewserver.UseCase.Execute` (keepalive) -/
def renew (instanceId : Nat) (srcIp : Nat) : Prog (Except UErr Unit) :=
  .call (.insGet instanceId) fun r =>
  match r with
  | .error e => pure (.error (.repo e))
  | .ok inst =>
    if inst.addr.ip ≠ srcIp then pure (.error .unknownInstance)
    else
      .call (.getServer inst.addr) fun r =>
      match r with
      | .error e => pure (.error (.repo e))
      | .ok svr =>
        .call .now fun now =>
        .call (.updateServer { svr with refreshedAt := some now } fun s => some { s with refreshedAt := some now }) fun r =>
        match r with
        | .error e => pure (.error (.repo e))
        | .ok _ => pure (.ok ())

/-- `removeserver.UseCase.Execute` -/
def remove (instanceId : Nat) (a : Addr) : Prog (Except UErr Unit) :=
  .call (.getServer a) fun r =>
  match r with
  | .error .serverNotFound => pure (.error .serverNotFound)
  | .error e => pure (.error (.repo e))
  | .ok svr =>
    .call (.insGet instanceId) fun r =>
    match r with
    | .error .instanceNotFound => pure (.error .instanceNotFound)
    | .error e => pure (.error (.repo e))
    | .ok inst =>
      if inst.addr.ip ≠ svr.addr.ip then pure (.error .instanceAddrMismatch)
      else
        .call (.removeServer svr fun s => some s) fun r =>
        match r with
        | .error e => pure (.error (.repo e))
        | .ok _ =>
          .call (.insRemove inst.id) fun r =>
          match r with
          | .error e => pure (.error (.repo e))
          | .ok _ => pure (.ok ())

end UC
end Swat4
