import Swat4.Model.UseCases.Discovery
/-!
# The prober runner: `PopMany(n)`, then `probeserver.Execute` for every popped probe

`internal/prober/proberunner/proberunner.go:155-190 schedule` pops up to `availability` probes and hands each one to a
worker, which runs `probeserver.Execute` for it (`:100-147 probe`).  The verification harness runs the same two steps
in one client (`harness/internal/ucops/ucops.go:422-437`, spec `pop|<n>|<outcome>`): `PopMany(n)`, then one
`probeserver.Execute` per popped probe, sequentially, in the order its repository decorator gives the batch
(`ucops.go:170-190`: stable sort by address key, port, goal, retries — probes with equal ready times come back from
the store in UUID order, which the model does not have).

This file is the ONE definition of that runner.  The driver (`Drv/UCRun.lean`, `USpec.prog (.pop n oc)`) runs
`UC.proberRun` and only renders its result; the C16 theorems `pop_strict_held` / `pop_complete_backed`
(`Lemmas/BackedPop.lean`, `Properties/C16.lean`) are about `UC.proberRunWith`, of which `UC.proberRun` is the instance
the driver runs (`Properties/C16.lean: runner_is_model`, `runner_complete_backed`).
-/
namespace Swat4
namespace UC

/-- the order in which the harness' runner works through a popped batch: ascending (address key, port, goal,
retries), stable (`harness/internal/ucops/ucops.go:174-187`, a `sort.SliceStable`).  An insertion sort: each element is
put behind the elements of the sorted rest that are `≤` it. -/
def sortBatch (ps : List Probe) : List Probe :=
  ps.foldr (fun x acc =>
    let le (a b : Probe) : Bool :=
      a.addr.key < b.addr.key || (a.addr.key == b.addr.key && (a.port < b.port || (a.port == b.port &&
        (a.goal.toNat < b.goal.toNat || (a.goal.toNat == b.goal.toNat && a.retries ≤ b.retries)))))
    let (lo, hi) := acc.span fun y => le y x && !(le x y && le y x && false)
    lo ++ x :: hi) []

/-- handle every probe of a batch in turn, each to completion (`probeserver.Execute`), collecting how each ended.
`oc p`: what the network answered for `p`. -/
def probeEach (oc : Probe → Option ProbeResult) : List Probe → Prog (List ProbeEnd)
  | [] => pure []
  | p :: rest => (probe p (oc p)).bind fun e => (probeEach oc rest).bind fun es => pure (e :: es)

/-- what one run of the prober runner reports: the number of probes `PopMany` returned, the number it dropped as
expired, and the end of each `probeserver.Execute` in the order they were run -/
structure ProberReport where
  popped : Nat
  expired : Nat
  ends : List ProbeEnd

/-- **one prober batch**: `PopMany(n)`; on a storage error nothing else; otherwise every returned probe is handled to
completion, in the order `order` gives the batch, with the network outcome `oc` per probe. -/
def proberRunWith (n : Int) (oc : Probe → Option ProbeResult) (order : List Probe → List Probe) :
    Prog (Except RErr ProberReport) :=
  .call (.popMany n) fun r =>
  match r with
  | .error e => pure (.error e)
  | .ok (ps, expired) => (probeEach oc (order ps)).bind fun es => pure (.ok ⟨ps.length, expired, es⟩)

/-- **the runner the harness runs** (client spec `pop|<n>|<outcome>`): the batch in `sortBatch` order, the same
network outcome for every probe. -/
def proberRun (n : Int) (outcome : Option ProbeResult) : Prog (Except RErr ProberReport) :=
  proberRunWith n (fun _ => outcome) sortBatch

end UC
end Swat4
