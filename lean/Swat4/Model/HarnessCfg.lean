/-!
# The option values the verification harness runs the real code with

The correspondence runs build the real components with `world.DefaultOptions()`
(`harness/internal/world/world.go:70-72`):

    Options{Liveness: 180 * time.Second, RevivalRetries: 2, RefreshRetries: 4, CleanRetention: time.Hour, …}

and hand them to the code the way the application does (`world.go:197`:
`settings.Settings{ServerLiveness: w.Opts.Liveness, DiscoveryRevivalRetries: w.Opts.RevivalRetries,
DiscoveryRefreshRetries: w.Opts.RefreshRetries}`, then `container.NewUseCaseConfigs(p.Settings)` — the application's
own function, pinned by `Facts.configWiring`: `reportserver` / `addserver` / `reviveservers` get `MaxProbeRetries =
DiscoveryRevivalRetries`, `refreshservers` gets `DiscoveryRefreshRetries`; the REST listing and the browser get
`ServerLiveness`: `Facts.frontendListRequests`, `world.go:215`).

The models take these values as parameters; the drivers must instantiate them with what the harness configured.  This
file is the ONE place where those values are written down on the Lean side — every driver refers to it
(`Drv/UCRun.lean: UCfg`, `Drv/RepCommon.lean: cfg` through `Heartbeat.harnessCfg` of `Model/HeartbeatCfg.lean`,
`Drv/C17.lean: maxProbeRetries / livenessSecs`; the file imports nothing so that every driver can).  They are the
HARNESS' choices, not constants of the Go code (they coincide with the flag defaults of
`cmd/swat4master/commander/commander.go:24,27,33` — `default:"3m"`, `default:"4"`, `default:"2"` —, for which no
regenerated fact exists yet); the theorems of the properties are stated for every value of these parameters.
-/
namespace Swat4
namespace Harness

/-- `world.DefaultOptions().RevivalRetries` (`harness/internal/world/world.go:71`): the retry budget of the port-discovery
probes queued by `reportserver`, `addserver` and `reviveservers` (`container.go:30,33,39`) -/
def revivalRetries : Nat := 2

/-- `world.DefaultOptions().RefreshRetries` (`harness/internal/world/world.go:71`): the retry budget of the details probes
queued by `refreshservers` (`container.go:36`) -/
def refreshRetries : Nat := 4

/-- `world.DefaultOptions().Liveness` in seconds (`harness/internal/world/world.go:71`: `180 * time.Second`): what the REST
listing (`servers_list.go:45`, through `settings.ServerLiveness`) and the browser (`world.go:215`) are given -/
def livenessSecs : Nat := 180

end Harness

end Swat4
