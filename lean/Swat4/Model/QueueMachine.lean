import Swat4.Model.Store
/-!
# Instance-table and probe-queue repository calls as small-step machines (L3)

Each `qstep` is one storage command as the go-redis hook sees it: a `MULTI…EXEC` batch
(`exec`), a `ZRANGEBYSCORE` (`zrange`).  `instances.Add/Remove/Clear`, `probes.enqueue`,
`probes.PopMany` (rounds of `ZRANGEBYSCORE −inf..now LIMIT 0 k WITHSCORES` + one batch
`ZREM+HMGET+HDEL`; every fetched item keeps the score it was ranged with, and the items of all rounds are
stably sorted by that score before the call returns).
-/
namespace Swat4
open Std

inductive QOp where
  | insAdd (id : Nat) (a : Addr)
  | insRemove (id : Nat)
  | insClear (before : GoTime)
  | enqueue (p : Probe) (after before : GoTime)
  | popMany (n : Int)
  deriving Repr, Inhabited

inductive QResult where
  | unit
  | count (n : Nat)
  | probes (ps : List Probe) (expired : Nat)
  deriving Repr, Inhabited, DecidableEq

inductive QPC where
  | start
  | clearExec (ids : List Nat)
  /-- `got`: the unexpired items of the rounds so far, in fetch order, each with its queue score (`qItem.readyAt`) -/
  | popRange (got : List (Probe × Int)) (expired : Nat)
  /-- `ids` / `scores`: members and scores of the round's `ZRANGEBYSCORE … WITHSCORES` reply, position by position -/
  | popExec (got : List (Probe × Int)) (expired : Nat) (ids : List Nat) (scores : List Int)
  | done (r : QResult)
  deriving Repr, Inhabited

/-- `ZRANGEBYSCORE key −inf hi [LIMIT 0 n]`: members by (score, member) ascending.  Members with equal
scores are ordered by their id here; the real order is by UUID text (generators avoid ties where it matters). -/
def zrangeUpTo (m : ExtTreeMap Nat Int) (hi : Option Int) (limit : Option Nat) : List Nat :=
  let sel := m.toList.filter fun kv => match hi with | none => true | some h => kv.2 ≤ h
  let sorted := sel.foldr (fun x acc =>
    let (lo, rest) := acc.span fun y => y.2 < x.2 ∨ (y.2 = x.2 ∧ y.1 < x.1)
    lo ++ x :: rest) []
  let ids := sorted.map (·.1)
  match limit with | none => ids | some n => ids.take n

/-- `ZRANGEBYSCORE key −inf hi [LIMIT 0 n] WITHSCORES`: the same selection in the same order as `zrangeUpTo`, each member
with its score -/
def zrangeUpToS (m : ExtTreeMap Nat Int) (hi : Option Int) (limit : Option Nat) : List (Nat × Int) :=
  let sel := m.toList.filter fun kv => match hi with | none => true | some h => kv.2 ≤ h
  let sorted := sel.foldr (fun x acc =>
    let (lo, rest) := acc.span fun y => y.2 < x.2 ∨ (y.2 = x.2 ∧ y.1 < x.1)
    lo ++ x :: rest) []
  match limit with | none => sorted | some n => sorted.take n

/-- insertion step of `sortByScore`: `x` goes before the first element whose key is not smaller -/
def insertByScore {α : Type} (key : α → Int) (x : α) : List α → List α
  | [] => [x]
  | y :: ys => if key x ≤ key y then x :: y :: ys else y :: insertByScore key x ys

/-- stable sort by an integer key (`sort.SliceStable` with `less = key i < key j`): elements with equal keys keep
their relative order -/
def sortByScore {α : Type} (key : α → Int) (l : List α) : List α := l.foldr (insertByScore key) []

/-- what `PopMany` returns for the items `got` of all rounds (fetch order, with scores): stably sorted by score,
scores dropped.  Ties keep fetch order: round by round, and within a round the order of the `ZRANGEBYSCORE` reply -/
def finishBatch (got : List (Probe × Int)) : List Probe := (sortByScore (·.2) got).map (·.1)

/-- first command of a call, or `done` at once when the call issues no command -/
def QOp.begin (op : QOp) : QPC :=
  match op with
  | .enqueue _ (some a) (some b) => if a ≥ b then .done .unit else .start
  | .popMany n => if n ≤ 0 then .done (.probes [] 0) else .popRange [] 0
  | _ => .start

/-- one storage command; returns the store, the next pc, whether a fresh id was consumed, and the trace label -/
def qstep (st : RStore) (clock : Int) (fresh : Nat) (op : QOp) (pc : QPC) : RStore × QPC × Bool × String :=
  match pc, op with
  | .start, .insAdd id a => (st.insAddBatch id a clock, .done .unit, false, "exec:ok")
  | .start, .insRemove id => (st.insRemoveBatch id, .done .unit, false, "exec:ok")
  | .start, .insClear before =>
    let ids := zrangeUpTo st.insUpdated before none
    if ids.isEmpty then (st, .done (.count 0), false, "zrange:ok") else (st, .clearExec ids, false, "zrange:ok")
  | .clearExec ids, _ =>
    let n := (ids.filter fun id => st.insItems.contains id).length       -- HDEL's reply
    (st.insClearBatch ids, .done (.count n), false, "exec:ok")
  | .start, .enqueue p after before =>
    let ready := match after with | some a => a | none => clock
    (st.enqueueBatch fresh p before ready, .done .unit, true, "exec:ok")
  | .popRange got expired, .popMany n =>
    let want := (n - got.length).toNat
    let ready := zrangeUpToS st.pQueue (some clock) (some want)
    if ready.isEmpty then (st, .done (.probes (finishBatch got) expired), false, "zrange:ok")
    else (st, .popExec got expired (ready.map (·.1)) (ready.map (·.2)), false, "zrange:ok")
  | .popExec got expired ids scores, .popMany n =>
    let (st', vals) := st.popBatch ids
    -- `result.Val()[i]` (nil skipped) with `ready[i].Score`
    let items := (vals.zip scores).filterMap fun vs => vs.1.map fun pe => (pe, vs.2)
    if items.isEmpty then (st', .done (.probes (finishBatch got) expired), false, "exec:ok")
    else
      let fresh' := items.filter fun it => !(match it.1.2 with | none => false | some e => decide (e < clock))
      let exp := items.length - fresh'.length
      let got' := got ++ fresh'.map fun it => (it.1.1, it.2)
      if got'.length < n.toNat then (st', .popRange got' (expired + exp), false, "exec:ok")
      else (st', .done (.probes (finishBatch got') (expired + exp)), false, "exec:ok")
  | pc, _ => (st, pc, false, "none")

def QPC.live : QPC → Bool
  | .done _ => false
  | _ => true

/-- run a call alone for at most `fuel` commands (sequential semantics) -/
def runQ (st : RStore) (clock : Int) (fresh : Nat) (op : QOp) (pc : QPC) : Nat → RStore × QPC × Nat
  | 0 => (st, pc, fresh)
  | fuel + 1 =>
    if pc.live then
      let (st', pc', used, _) := qstep st clock fresh op pc
      runQ st' clock (if used then fresh + 1 else fresh) op pc' fuel
    else (st, pc, fresh)

end Swat4
