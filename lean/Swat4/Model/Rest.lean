import Swat4.Base.Bytes
import Swat4.Model.Styles
/-!
# Model of the REST address validation and status routing

Mirrors, function by function:

* Go's `net.IP` predicates on the 4-byte form (`net/ip.go`): `IsLoopback`, `IsPrivate`,
  `IsMulticast`, `IsLinkLocalUnicast`, `IsUnspecified`, `Equal(IPv4bcast)`, `IsGlobalUnicast`;
* `net.ParseIP` for dotted quads (`netip.parseIPv4Fields`, Go 1.23: decimal octets ≤ 255, no
  leading zeros, exactly four fields); a literal whose first of `. : %` is `:` goes to
  `netip.parseIPv6`, which is **not modelled** (`IPParse.v6`);
* `strconv.Atoi`; `addr.New`, `addr.NewFromDotted`, `addr.NewFromString`, `addr.NewPublicAddr`;
* the gin binding of `model.NewServer` (`required,ipv4` / `required,gte=1025,lte=65535`) over an
  already decoded JSON body (`Body`);
* `api.AddServer` ∘ `addserver.Execute` and `api.ViewServer` ∘ `getserver.Execute` as functions of
  the request and of the state of the addressed server.
-/
namespace Swat4.Rest
open Swat4

/-! ## IPv4 class predicates as Go computes them -/

structure IP4 where
  a : UInt8
  b : UInt8
  c : UInt8
  d : UInt8
  deriving DecidableEq, Repr

/-- `ip4[0] == 127` -/
def isLoopback (ip : IP4) : Bool := ip.a == 127
/-- `ip4[0] == 10 || (ip4[0] == 172 && ip4[1]&0xf0 == 16) || (ip4[0] == 192 && ip4[1] == 168)` -/
def isPrivate (ip : IP4) : Bool :=
  ip.a == 10 || (ip.a == 172 && ip.b &&& 0xf0 == 16) || (ip.a == 192 && ip.b == 168)
/-- `ip4[0]&0xf0 == 0xe0` -/
def isMulticast (ip : IP4) : Bool := ip.a &&& 0xf0 == 0xe0
/-- `ip4[0] == 169 && ip4[1] == 254` -/
def isLinkLocalUnicast (ip : IP4) : Bool := ip.a == 169 && ip.b == 254
/-- `ip.Equal(IPv4zero)` -/
def isUnspecified (ip : IP4) : Bool := ip.a == 0 && ip.b == 0 && ip.c == 0 && ip.d == 0
/-- `ip.Equal(IPv4bcast)` -/
def isBroadcast (ip : IP4) : Bool := ip.a == 255 && ip.b == 255 && ip.c == 255 && ip.d == 255
/-- `IsGlobalUnicast` (true for RFC 1918 space, as the Go documentation says) -/
def isGlobalUnicast (ip : IP4) : Bool :=
  !isBroadcast ip && !isUnspecified ip && !isLoopback ip && !isMulticast ip && !isLinkLocalUnicast ip

/-! ## `net.ParseIP`, `strconv.Atoi` -/

inductive IPParse where
  | ok (ip : IP4)
  | bad
  | v6   -- first of `.`, `:`, `%` is `:` — handled by `netip.parseIPv6`, not modelled
  deriving DecidableEq, Repr

def isDigit (b : UInt8) : Bool := 48 ≤ b.toNat && b.toNat ≤ 57

/-- `netip.parseIPv4Fields`: `val`, `digLen` as in the Go loop, `acc` = the fields stored so far
(`pos = acc.length`) -/
def v4Fields : Bytes → (val digLen : Nat) → (acc : List UInt8) → Option (List UInt8)
  | [], val, _, acc => if acc.length < 3 then none else some (acc ++ [UInt8.ofNat val])
  | ch :: rest, val, digLen, acc =>
    if isDigit ch then
      if digLen = 1 ∧ val = 0 then none
      else if val * 10 + (ch.toNat - 48) > 255 then none
      else v4Fields rest (val * 10 + (ch.toNat - 48)) (digLen + 1) acc
    else if ch = 46 then
      -- `i == 0 || s[i-1] == '.'` ⇔ no digit in the current octet; `i == len(s)-1` ⇔ nothing follows
      if digLen = 0 ∨ rest = [] then none
      else if acc.length = 3 then none
      else v4Fields rest 0 0 (acc ++ [UInt8.ofNat val])
    else none

/-- which parser `netip.ParseAddr` selects: the first of `.` `:` `%` in the string -/
def firstSep : Bytes → Option UInt8
  | [] => none
  | ch :: rest => if ch = 46 ∨ ch = 58 ∨ ch = 37 then some ch else firstSep rest

/-- `net.ParseIP(s)` followed by `.To4()` -/
def parseIP (s : Bytes) : IPParse :=
  match firstSep s with
  | some 46 =>
    match v4Fields s 0 0 [] with
    | some [a, b, c, d] => .ok ⟨a, b, c, d⟩
    | _ => .bad
  | some 58 => .v6
  | _ => .bad

/-- `strconv.Atoi` (64-bit `int`): optional sign, at least one ASCII digit, value within int64 -/
def atoi (s : Bytes) : Option Int :=
  let neg := s.head? = some 45
  let ds := if s.head? = some 45 ∨ s.head? = some 43 then s.drop 1 else s
  if ds.isEmpty || !ds.all isDigit then none
  else
    let n : Nat := ds.foldl (fun acc d => acc * 10 + (d.toNat - 48)) 0
    let v : Int := if neg then -(n : Int) else (n : Int)
    if v < -9223372036854775808 ∨ v > 9223372036854775807 then none else some v

/-! ## `addr` -/

inductive AddrErr where
  | invalidIP | invalidPort | invalidPublicIP
  deriving DecidableEq, Repr

structure Addr where
  ip : IP4
  port : Int
  deriving DecidableEq, Repr

/-- outcome of an address constructor; `unmodelled` = the input reached `parseIPv6` -/
inductive AddrRes where
  | ok (a : Addr)
  | err (e : AddrErr)
  | unmodelled
  deriving DecidableEq, Repr

/-- `addr.New(ip, port)` for an already parsed `ip` (`none` = `nil`/non-IPv4) -/
def addrNew (ip : Option IP4) (port : Int) : Except AddrErr Addr :=
  if port < 1 ∨ port > 65535 then .error .invalidPort
  else match ip with
    | none => .error .invalidIP
    | some ip =>
      if !isGlobalUnicast ip && !isPrivate ip && !isLoopback ip then .error .invalidIP
      else .ok ⟨ip, port⟩

/-- `addr.NewPublicAddr` -/
def newPublicAddr (a : Addr) : Except AddrErr Addr :=
  if isPrivate a.ip || isLoopback a.ip then .error .invalidPublicIP else .ok a

/-- `addr.New` then `addr.NewPublicAddr` on four bytes and a port: what both REST handlers run
after parsing -/
def publicAddr (ip : IP4) (port : Int) : Except AddrErr Addr :=
  match addrNew (some ip) port with
  | .ok a => newPublicAddr a
  | .error e => .error e

def ofExcept : Except AddrErr Addr → AddrRes
  | .ok a => .ok a
  | .error e => .err e

/-- `addr.NewFromDotted` -/
def addrFromDotted (ip : Bytes) (port : Int) : AddrRes :=
  match parseIP ip with
  | .ok ip4 => ofExcept (addrNew (some ip4) port)
  | .bad => ofExcept (addrNew none port)
  | .v6 => if port < 1 ∨ port > 65535 then .err .invalidPort else .unmodelled

/-- `addr.NewFromString`: cut at the first `:`; the IP part therefore never contains `:` -/
def addrFromString (s : Bytes) : AddrRes :=
  let ip := s.takeWhile (· ≠ 58)
  let rest := s.dropWhile (· ≠ 58)
  if rest.isEmpty || ip.isEmpty || (rest.drop 1).isEmpty then .err .invalidIP
  else match atoi (rest.drop 1) with
    | none => .err .invalidPort
    | some p => addrFromDotted ip p

def andThenPublic : AddrRes → AddrRes
  | .ok a => ofExcept (newPublicAddr a)
  | r => r

/-! ## the addressed server, responses, store effects -/

/-- discovery status bits (`status.go`; checked against the generated facts in `Properties/C17`) -/
def dsNew : Nat := 1
def dsDetails : Nat := 8
def dsDetailsRetry : Nat := 16
def dsPortRetry : Nat := 128
def dsNoPort : Nat := 256

/-- `HasDiscoveryStatus(bit)` for a single bit = `HasAnyDiscoveryStatus(bit)` -/
def hasBit (w bit : Nat) : Bool := w &&& bit != 0

/-- state of the record stored under the addressed server's key -/
inductive SrvState where
  | absent
  | present (status : Nat) (queryPort : Int) (hostname : List Char)
  deriving Repr

/-- what a request did to registry and probe queue -/
inductive Effect where
  | none
  /-- a port probe `(addr, port = game port, goal = port, retries 0, max = configured)` was queued and
  the record written with this query port and status word; `created` = the record is new -/
  | discover (created : Bool) (a : Addr) (queryPort : Int) (status : Nat)
  deriving DecidableEq, Repr

structure Resp where
  status : Nat
  /-- `hostname_html`, `hostname_plain` of a 200 body -/
  body : Option (List Char × List Char)
  effect : Effect
  deriving Repr

/-- `UpdateDiscoveryStatus(s)`: clears `new`, sets `s` -/
def updateStatus (w s : Nat) : Nat := (w &&& (511 - dsNew)) ||| s

def serverBody (hostname : List Char) : Option (List Char × List Char) :=
  some (Styles.toHTML hostname, Styles.clean hostname)

def badRequest : Resp := ⟨400, none, .none⟩

/-- `addserver.Execute` + the error mapping of `api.AddServer`, for a validated public address -/
def addExecute (a : Addr) : SrvState → Resp
  | .absent =>
    -- createServerFromAddress: query port min(port+1, 65535), status `new`; then the default branch
    -- of maybeDiscoverServer: enqueue, mark port_retry
    ⟨202, none, .discover true a (if a.port + 1 ≤ 65535 then a.port + 1 else 65535) (updateStatus dsNew dsPortRetry)⟩
  | .present w qp h =>
    if hasBit w dsDetails then ⟨200, serverBody h, .none⟩
    else if hasBit w dsPortRetry || hasBit w dsDetailsRetry then ⟨202, none, .none⟩
    else if hasBit w dsNoPort then ⟨410, none, .none⟩
    else ⟨202, none, .discover false a qp (updateStatus w dsPortRetry)⟩

/-- `getserver.Execute` + the error mapping of `api.ViewServer` -/
def viewExecute : SrvState → Resp
  | .absent => ⟨404, none, .none⟩
  | .present w _ h => if hasBit w dsDetails then ⟨200, serverBody h, .none⟩ else ⟨204, none, .none⟩

/-! ## request binding -/

/-- one member of the decoded JSON object, as `encoding/json` sees it for a `string`/`int` field -/
inductive JField where
  | absent            -- no such key, or `null`
  | str (s : Bytes)
  | int (n : Int)     -- an integer literal
  | other             -- bool, non-integer number, array, object
  deriving DecidableEq, Repr

/-- a decoded request body: `bad` = not a JSON object / syntax error (`ShouldBindJSON` fails) -/
inductive Body where
  | bad
  | obj (ip port : JField)
  deriving DecidableEq, Repr

/-- the binding limits of `model.NewServer.Port` (`gte=1025,lte=65535`) -/
def portMin : Int := 1025
def portMax : Int := 65535

/-- `ShouldBindJSON(&req)` then `addr.NewFromDotted(req.IP, req.Port)` then `NewPublicAddr` -/
def parseAddRequest : Body → AddrRes
  | .bad => .err .invalidIP
  | .obj (.str ip) (.int port) =>
    -- `required`: non-empty / non-zero; `ipv4`: ParseIP(s).To4() != nil; gte/lte
    if ip.isEmpty || port == 0 || port < portMin || port > portMax then .err .invalidIP
    else match parseIP ip with
      | .bad => .err .invalidIP
      | .v6 => .unmodelled
      | .ok ip4 => andThenPublic (ofExcept (addrNew (some ip4) port))
  | .obj _ _ => .err .invalidIP

/-- `api.AddServer`; `none` = input not modelled -/
def addServer (body : Body) (st : SrvState) : Option Resp :=
  match parseAddRequest body with
  | .ok a => some (addExecute a st)
  | .err _ => some badRequest
  | .unmodelled => none

/-- `api.AddServer` for a request given as four bytes and a port (the body
`{"ip":"a.b.c.d","port":p}`) -/
def addServerIP (ip : IP4) (port : Int) (st : SrvState) : Resp :=
  if port == 0 || port < portMin || port > portMax then badRequest
  else match publicAddr ip port with
    | .ok a => addExecute a st
    | .error _ => badRequest

/-- `api.ViewServer` -/
def viewServer (address : Bytes) (st : SrvState) : Option Resp :=
  match andThenPublic (addrFromString address) with
  | .ok _ => some (viewExecute st)
  | .err _ => some badRequest
  | .unmodelled => none

/-- `api.ViewServer` for an address that parsed to four bytes and a port -/
def viewServerIP (ip : IP4) (port : Int) (st : SrvState) : Resp :=
  match publicAddr ip port with
  | .ok _ => viewExecute st
  | .error _ => badRequest

end Swat4.Rest
